/-
  The `_partial` of C16 numeral_agreement for the UNREPAIRED readers (NumModel.Pre): on canonical decimal integers
  of the int64 range the ParseInt-then-ParseFloat cascade and the old tonumber read the Spec's value.
-/
import GLua.Proofs.C16Numeral
set_option linter.unusedSimpArgs false
set_option linter.unusedVariables false
namespace GLua.Proofs.C16Numeral
open GLua GLua.NumSpec GLua.NumModel

/-! ### the unrepaired readers on canonical decimal integers (the `_partial` of numeral_agreement) -/

theorem foldl_stepVal_le (ds : Bytes) : ∀ a, a ≤ ds.foldl (stepVal 10) a := by
  induction ds with
  | nil => intro a; simp
  | cons c r ih =>
    intro a
    simp only [List.foldl_cons]
    have := ih (stepVal 10 a c)
    unfold stepVal at this ⊢
    omega

theorem uintLoop_dec (b0 : Bool) (ds : Bytes) : ∀ (a : Nat) (us : Bool), ds.all isDec = true →
    ds.foldl (stepVal 10) a ≤ Go.maxUint64 →
    Go.uintLoop 10 b0 a us ds = some (ds.foldl (stepVal 10) a, us) := by
  induction ds with
  | nil => intro a us _ _; simp [Go.uintLoop]
  | cons c r ih =>
    intro a us h hle
    simp only [List.all_cons, Bool.and_eq_true] at h
    obtain ⟨hc, hr⟩ := h
    have hc' := (isDec_iff c).1 hc
    have h95 : c ≠ 95 := by omega
    simp only [List.foldl_cons] at hle ⊢
    have hstep : stepVal 10 a c = a * 10 + (c - 48) := by
      simp [stepVal, digitVal_dec c hc]
    have hle' := foldl_stepVal_le r (stepVal 10 a c)
    rw [Go.uintLoop]
    simp only [h95, false_and, if_false, hc, if_true]
    have h1 : ¬ (c - 48 ≥ 10) := by omega
    have h2 : ¬ (a * 10 + (c - 48) > Go.maxUint64) := by rw [← hstep]; omega
    simp only [h1, h2, if_false]
    rw [← hstep]
    exact ih _ _ hr hle

theorem natDigits_head (f : Nat) : ∀ n, 0 < n → n < f → ∃ c r, natDigits f n = c :: r ∧ c ≠ 48 ∧ isDec c = true := by
  induction f with
  | zero => intro n _ h; omega
  | succ g ih =>
    intro n hpos hlt
    rw [natDigits]
    split
    · exact ⟨48 + n, [], rfl, by omega, by simp [isDec]; omega⟩
    · obtain ⟨c, r, hcr, hc, hd⟩ := ih (n / 10) (by omega) (by omega)
      exact ⟨c, r ++ [48 + n % 10], by rw [hcr]; rfl, hc, hd⟩

/-- strconv.ParseUint(digits of n, base 0 or 10). -/
theorem parseUint_natDigits (n : Nat) (hn : n ≤ Go.maxUint64) (base : Nat) (hb : base = 0 ∨ base = 10) :
    Go.parseUint (natDigits (n + 1) n) base = some n := by
  have hall := natDigits_all (n + 1) n
  have hval := natDigits_val (n + 1) n (by omega)
  have hne : natDigits (n + 1) n ≠ [] := natDigits_ne_nil n n
  have hloop := fun b0 => uintLoop_dec b0 _ 0 false hall (by rw [← valIn_eq, hval]; exact hn)
  rcases hb with rfl | rfl
  · by_cases h0 : n = 0
    · subst h0; decide
    · obtain ⟨c, r, hcr, hc, hd⟩ := natDigits_head (n + 1) n (by omega) (by omega)
      have hsel : Go.base0Select (natDigits (n + 1) n) = (10, natDigits (n + 1) n) := by
        rw [hcr]
        unfold Go.base0Select
        split
        · rename_i heq; simp at heq; exact absurd heq.1 hc
        · rename_i heq; simp at heq; exact absurd heq.1 hc
        · rfl
      unfold Go.parseUint
      have h36 : ¬ (2 ≤ 0 ∧ 0 ≤ 36) := by omega
      simp only [hne, if_false, h36, if_true, hsel, hloop]
      simp [← valIn_eq, hval]
  · unfold Go.parseUint
    have h36 : (2 ≤ 10 ∧ 10 ≤ 36) := by omega
    simp only [hne, if_false, h36, and_self, if_true, hloop]
    simp [← valIn_eq, hval]

theorem trimSet_noblank (cut : Nat → Bool) (s : Bytes) (h : ∀ c ∈ s, cut c = false) : Go.trimSet cut s = s := by
  unfold Go.trimSet
  have h1 : s.dropWhile cut = s := by
    apply dropWhile_id
    intro c hc
    cases s with
    | nil => simp at hc
    | cons d r => simp at hc; subst hc; exact h _ (List.mem_cons_self ..)
  rw [h1]
  have h2 : s.reverse.dropWhile cut = s.reverse := by
    apply dropWhile_id
    intro c hc
    have : c ∈ s.reverse := by
      cases hr : s.reverse with
      | nil => rw [hr] at hc; simp at hc
      | cons d r => rw [hr] at hc; simp at hc; subst hc; simp
    exact h c (by simpa using this)
  rw [h2]; simp

theorem plainInt_chars (i : Int) : ∀ c ∈ plainInt i, c = 45 ∨ isDec c = true := by
  intro c hc
  cases i with
  | ofNat n => exact Or.inr (List.all_eq_true.1 (natDigits_all (n + 1) n) c hc)
  | negSucc n =>
    simp only [plainInt, List.mem_cons] at hc
    rcases hc with rfl | hc
    · exact Or.inl rfl
    · exact Or.inr (List.all_eq_true.1 (natDigits_all (n + 2) (n + 1)) c hc)

/-- strconv.ParseInt(plain digits of i, base 0) = i on the int64 range. -/
theorem parseInt_plainInt (i : Int) (hlo : -(2 ^ 63 : Int) ≤ i) (hhi : i < 2 ^ 63) (base : Nat) (hb : base = 0 ∨ base = 10) :
    Go.parseInt (plainInt i) base = some i := by
  cases i with
  | ofNat n =>
    have hn : n < 2 ^ 63 := by
      have : (n : Int) < 2 ^ 63 := hhi
      omega
    obtain ⟨c, r, hcr⟩ : ∃ c r, natDigits (n + 1) n = c :: r := by
      cases h : natDigits (n + 1) n with
      | nil => exact absurd h (natDigits_ne_nil n n)
      | cons c r => exact ⟨c, r, rfl⟩
    have hcd : isDec c = true := by
      have := natDigits_all (n + 1) n
      rw [hcr] at this; simp only [List.all_cons, Bool.and_eq_true] at this; exact this.1
    have hcd' := (isDec_iff c).1 hcd
    have hss : Go.stripSign (c :: r) = (false, c :: r) := by
      unfold Go.stripSign; split
      · rename_i heq; simp at heq; omega
      · rename_i heq; simp at heq; omega
      · rfl
    show Go.parseInt (natDigits (n + 1) n) base = some (Int.ofNat n)
    unfold Go.parseInt
    have hne : natDigits (n + 1) n ≠ [] := natDigits_ne_nil n n
    rw [hcr] at hne ⊢
    simp only [hne, if_false, hss]
    rw [← hcr, parseUint_natDigits n (by unfold Go.maxUint64; omega) base hb]
    have h1 : ¬ ((!false) = true ∧ n ≥ 2 ^ 63) := by simp; omega
    simp only [h1, if_false, Bool.false_eq_true, false_and]
    rfl
  | negSucc n =>
    have hn : n + 1 ≤ 2 ^ 63 := by
      have : -(2 ^ 63 : Int) ≤ Int.negSucc n := hlo
      omega
    show Go.parseInt (45 :: natDigits (n + 2) (n + 1)) base = some (Int.negSucc n)
    unfold Go.parseInt
    have hss : Go.stripSign (45 :: natDigits (n + 2) (n + 1)) = (true, natDigits (n + 2) (n + 1)) := rfl
    simp only [reduceCtorEq, if_false, hss]
    rw [parseUint_natDigits (n + 1) (by unfold Go.maxUint64; omega) base hb]
    have h2 : ¬ (n + 1 > 2 ^ 63) := by omega
    simp only [Bool.not_true, Bool.false_eq_true, false_and, if_false, true_and, h2, if_true]
    rfl

/-- **the partial**: on canonical decimal integers of the int64 range (no leading zero, no exponent, no blanks)
    the unrepaired `parseNumber` and `tonumber` read the Spec's value. -/
theorem pre_readers_on_plain_ints (i : Int) (hlo : -(2 ^ 63 : Int) ≤ i) (hhi : i < 2 ^ 63) :
    Pre.parseNumber (plainInt i) = some (ofInt i) ∧ Pre.baseToNumber none (plainInt i) = some (ofInt i) := by
  have hch := plainInt_chars i
  have hcut : ∀ c ∈ plainInt i, (c == 32 || c == 9 || c == 10) = false := by
    intro c hc
    rcases hch c hc with rfl | h
    · decide
    · have := (isDec_iff c).1 h
      simp; omega
  have hcut2 : ∀ c ∈ plainInt i, (c == 32 || c == 10 || c == 9) = false := by
    intro c hc
    rcases hch c hc with rfl | h
    · decide
    · have := (isDec_iff c).1 h
      simp; omega
  constructor
  · unfold Pre.parseNumber
    simp only [trimSet_noblank _ _ hcut, parseInt_plainInt i hlo hhi 0 (Or.inl rfl)]
  · unfold Pre.baseToNumber
    simp only [trimSet_noblank _ _ hcut2]
    have hnodot : (plainInt i).contains 46 = false := by
      rw [List.contains_eq_any_beq]
      simp only [List.any_eq_false]
      intro c hc
      rcases hch c hc with rfl | h
      · decide
      · have := (isDec_iff c).1 h
        simp; omega
    have hno0x : Pre.hasPrefix0x (plainInt i) = false := by
      unfold Pre.hasPrefix0x
      split
      · rename_i x r heq
        have hx := hch x (by rw [heq]; simp)
        rcases hx with rfl | h
        · simp
        · have := (isDec_iff x).1 h
          simp; omega
      · rfl
    simp only [hnodot, Bool.false_eq_true, if_false, hno0x, Option.isNone_none, and_false, Option.getD_none,
      parseInt_plainInt i hlo hhi 10 (Or.inr rfl), Option.map_some]

end GLua.Proofs.C16Numeral
