/-
  C16: the layout of the printer's float branch (fmt %v = strconv 'g' with shortest digits) always produces a Lua
  numeral, whatever digits strconv supplies.
-/
import GLua.Proofs.C16Numeral
set_option linter.unusedSimpArgs false
set_option linter.unusedVariables false
namespace GLua.Proofs.C16Numeral
open GLua GLua.NumSpec GLua.NumModel

/-! ### the printer's float branch writes numerals -/

/-- an optionally negated decimal body is accepted by the run-time reader. -/
theorem numeral_of_decimal_body (neg : Bool) (body : Bytes) (h : (decimal body).isSome = true) :
    (numeral ((if neg then [45] else []) ++ body)).isSome = true := by
  cases hd : decimal body with
  | none => rw [hd] at h; simp at h
  | some p =>
    obtain ⟨m, e⟩ := p
    obtain ⟨c, t, hbody, hc⟩ := decimal_head body m e hd
    have hnb := decimal_noblank body m e hd
    have hnh : ¬ hex3 body := by
      intro hh; rw [decimal_hex3_none _ hh] at hd; simp at hd
    have hc' : c ≠ 45 ∧ c ≠ 43 := by
      rcases hc with hc | rfl
      · have := (isDec_iff c).1 hc; omega
      · decide
    have hsg : sign body = (false, body) := by
      rw [hbody]; unfold sign; split
      · rename_i heq; simp at heq; exact absurd heq.1 hc'.1
      · rename_i heq; simp at heq; exact absurd heq.1 hc'.2
      · rfl
    unfold numeral
    cases neg with
    | false =>
      simp only [Bool.false_eq_true, if_false, List.nil_append]
      rw [trim_noblank _ hnb, hsg]
      simp only [unsigned_not_hex3 body hnh, hd]
      rfl
    | true =>
      simp only [if_true, List.singleton_append]
      have hnb' : ∀ x ∈ (45 :: body), isBlank x = false := by
        intro x hx
        simp only [List.mem_cons] at hx
        rcases hx with rfl | hx
        · decide
        · exact hnb x hx
      rw [trim_noblank _ hnb']
      have : sign (45 :: body) = (true, body) := rfl
      rw [this]
      simp only [unsigned_not_hex3 body hnh, hd]
      rfl

theorem digitsToBytes_all (ds : List Nat) (h : ∀ d ∈ ds, d < 10) : (digitsToBytes ds).all isDec = true := by
  unfold digitsToBytes
  simp only [List.all_map, List.all_eq_true]
  intro d hd
  have := h d hd
  simp [isDec]; omega

theorem fmtE_numeral (neg : Bool) (ds : List Nat) (dp : Int) (hne : ds ≠ []) (hd : ∀ d ∈ ds, d < 10)
    (hlo : -998 ≤ dp) (hhi : dp ≤ 1000) : (numeral (fmtE neg ds dp)).isSome = true := by
  cases ds with
  | nil => exact absurd rfl hne
  | cons d0 tl =>
    have hd0 : d0 < 10 := hd d0 (List.mem_cons_self ..)
    have htl : ∀ d ∈ tl, d < 10 := fun d h => hd d (List.mem_cons_of_mem _ h)
    -- the exponent digits
    have hexp : ∀ (sg : Nat) (e : Nat), (sg = 45 ∨ sg = 43) → e < 1000 →
        (exponent ([101, sg] ++ (if e < 10 then [48, 48 + e] else if e < 100 then [48 + e / 10, 48 + e % 10]
          else [48 + e / 100, 48 + e / 10 % 10, 48 + e % 10]))).isSome = true := by
      intro sg e hsg he
      have hsign : ∀ l : Bytes, (sign (sg :: l)).2 = l := by
        intro l; rcases hsg with rfl | rfl <;> rfl
      unfold exponent
      simp only [List.cons_append, List.nil_append, true_or, if_true, hsign]
      split
      · simp [isDec]; omega
      · split
        · simp [isDec]; omega
        · simp [isDec]; omega
    have key : ∀ (sg e : Nat), (sg = 45 ∨ sg = 43) → e < 1000 →
        (decimal ([48 + d0] ++ ((if (d0 :: tl).length > 1 then 46 :: digitsToBytes tl else []) ++
          ([101, sg] ++ (if e < 10 then [48, 48 + e] else if e < 100 then [48 + e / 10, 48 + e % 10]
            else [48 + e / 100, 48 + e / 10 % 10, 48 + e % 10]))))).isSome = true := by
      intro sg e hsg he
      by_cases hl : (d0 :: tl).length > 1
      · have := decimal_build [48 + d0] (digitsToBytes tl) true _ (by simp [isDec]; omega)
          (digitsToBytes_all tl htl) (by intro h; simp at h) (by simp; omega) (hexp sg e hsg he)
        rw [if_pos hl]
        simpa using this
      · have := decimal_build [48 + d0] [] false _ (by simp [isDec]; omega)
          rfl (by intro _; rfl) (by simp) (hexp sg e hsg he)
        rw [if_neg hl]
        simpa using this
    unfold fmtE
    simp only [List.head_cons, List.tail_cons, reduceCtorEq, if_false]
    by_cases hneg : dp - 1 < 0
    · have he : (-(dp - 1)).toNat < 1000 := by omega
      have := numeral_of_decimal_body neg _ (key 45 (-(dp - 1)).toNat (Or.inl rfl) he)
      simpa [hneg, List.append_assoc] using this
    · have he : (dp - 1).toNat < 1000 := by omega
      have := numeral_of_decimal_body neg _ (key 43 (dp - 1).toNat (Or.inr rfl) he)
      simpa [hneg, List.append_assoc] using this

theorem fmtF_numeral (neg : Bool) (ds : List Nat) (dp : Int) (hne : ds ≠ []) (hd : ∀ d ∈ ds, d < 10) :
    (numeral (fmtF neg ds dp)).isSome = true := by
  -- the integer part
  have hip : ∀ ip : Bytes, ip = (if dp > 0 then digitsToBytes (ds.take (min ds.length dp.toNat)) ++
        List.replicate (dp.toNat - min ds.length dp.toNat) 48 else [48]) → ip.all isDec = true ∧ ip.length > 0 := by
    intro ip hip
    by_cases hdp : dp > 0
    · rw [if_pos hdp] at hip
      subst hip
      constructor
      · simp only [List.all_append, Bool.and_eq_true]
        refine ⟨digitsToBytes_all _ (fun d h => hd d (List.mem_of_mem_take h)), ?_⟩
        simp [isDec]
      · have hl : ds.length > 0 := by cases ds <;> simp_all
        simp only [List.length_append, digitsToBytes, List.length_map, List.length_take, List.length_replicate]
        omega
    · rw [if_neg hdp] at hip
      subst hip
      exact ⟨by decide, by decide⟩
  -- the fraction digits
  have hfp : ∀ prec : Nat, ((List.range prec).map (fun (i : Nat) =>
        let j : Int := dp + (i : Int)
        if 0 ≤ j ∧ j < (ds.length : Int) then 48 + ds.getD j.toNat 0 else 48)).all isDec = true := by
    intro prec
    simp only [List.all_map, List.all_eq_true]
    intro i _
    simp only [Function.comp]
    split
    · rename_i hj
      have hlt : (dp + (i : Int)).toNat < ds.length := by omega
      have hget : ds.getD (dp + (i : Int)).toNat 0 = ds[(dp + (i : Int)).toNat] := by
        simp [List.getD, List.getElem?_eq_getElem hlt]
      have : ds.getD (dp + (i : Int)).toNat 0 < 10 := by
        rw [hget]; exact hd _ (List.getElem_mem hlt)
      rw [isDec_iff]; omega
    · decide
  unfold fmtF
  simp only
  generalize hipd : (if dp > 0 then digitsToBytes (ds.take (min ds.length dp.toNat)) ++
        List.replicate (dp.toNat - min ds.length dp.toNat) 48 else [48]) = ip
  obtain ⟨hipall, hiplen⟩ := hip ip hipd.symm
  by_cases hprec : ((ds.length : Int) - dp).toNat > 0
  · rw [if_pos hprec]
    have := decimal_build ip _ true [] hipall (hfp ((ds.length : Int) - dp).toNat) (by intro h; simp at h)
      (by omega) (by simp [exponent])
    have h2 := numeral_of_decimal_body neg _ this
    simpa [List.append_assoc] using h2
  · rw [if_neg hprec]
    have := decimal_build ip [] false [] hipall rfl (by intro _; rfl) (by simpa using hiplen) (by simp [exponent])
    have h2 := numeral_of_decimal_body neg _ this
    simpa [List.append_assoc] using h2

/-- **the float branch of tostring writes numerals**: whatever shortest digits strconv supplies (non-empty, each
    0..9, decimal point position within the double range), the text laid out by fmt's %v is accepted by the
    Spec's reader — hence, by `parseNumber_eq_spec`, by the repaired tonumber/coercion. -/
theorem fmtG_numeral (neg : Bool) (ds : List Nat) (dp : Int) (hne : ds ≠ []) (hd : ∀ d ∈ ds, d < 10)
    (hlo : -998 ≤ dp) (hhi : dp ≤ 1000) : (numeral (fmtG neg ds dp)).isSome = true := by
  unfold fmtG
  simp only
  split
  · exact fmtE_numeral neg ds dp hne hd hlo hhi
  · exact fmtF_numeral neg ds dp hne hd

end GLua.Proofs.C16Numeral
