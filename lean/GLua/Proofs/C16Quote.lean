/-
  Lemmas for C16 `q_roundtrip`: the lexer model reads the repaired `%q` output back to the original bytes.
-/
import GLua.Model.Quote
import GLua.Spec.Quote

set_option linter.unusedSimpArgs false
set_option linter.unusedVariables false

namespace GLua.Proofs.C16Quote
open GLua GLua.NumSpec GLua.NumModel GLua.QuoteModel

theorem next_plain (c : Nat) (r : Bytes) (h10 : c ≠ 10) (h13 : c ≠ 13) : next (c :: r) = ((c : Int), r) := by
  unfold next
  split <;> simp_all

theorem next_lf (r : Bytes) (h : r.head? ≠ some 13) : next (10 :: r) = (10, r) := by
  cases r with
  | nil => rfl
  | cons d t =>
    have hd : d ≠ 13 := by simpa using h
    unfold next
    split
    · simp_all
    · simp_all
    · simp_all
    · simp_all
    · rename_i heq
      simp at heq
      obtain ⟨h1, h2⟩ := heq
      subst h1; subst h2; rfl

/-- what LString.Format 'q' emits for one byte. -/
def esc (c : Nat) : Bytes :=
  if c = 34 ∨ c = 92 ∨ c = 10 then [92, c]
  else if c = 13 then [92, 114]
  else if c = 0 then [92, 48, 48, 48]
  else [c]

theorem body_cons (c : Nat) (r : Bytes) : formatQBody (c :: r) = esc c ++ formatQBody r := rfl

theorem esc_plain (c : Nat) (h34 : c ≠ 34) (h92 : c ≠ 92) (h10 : c ≠ 10) (h13 : c ≠ 13) (h0 : c ≠ 0) :
    esc c = [c] := by simp [esc, h34, h92, h10, h13, h0]

/-- the escaped body never starts with a raw CR. -/
theorem body_head_ne_cr (s rest : Bytes) : (formatQBody s ++ 34 :: rest).head? ≠ some 13 := by
  cases s with
  | nil => simp [formatQBody]
  | cons c r =>
    rw [body_cons]
    unfold esc
    split
    · simp
    · split
      · simp
      · split
        · simp
        · rename_i h1 h2 h3
          simp
          exact h2

theorem toByte_small (c : Nat) (h : c < 256) : toByte (c : Int) = c := by
  unfold toByte
  omega

/-- one escaped character is read back as that character. -/
theorem scan_body (s : Bytes) : ∀ (rest buf : Bytes) (fuel : Nat), (∀ c ∈ s, c < 256) → s.length < fuel →
    scanString false 34 fuel (formatQBody s ++ 34 :: rest) buf = some (buf ++ s, rest) := by
  induction s with
  | nil =>
    intro rest buf fuel _ hf
    cases fuel with
    | zero => omega
    | succ n => simp [formatQBody, scanString, next]
  | cons c r ih =>
    intro rest buf fuel hs hf
    cases fuel with
    | zero => simp at hf
    | succ n =>
      have hc : c < 256 := hs c (List.mem_cons_self ..)
      have hr : ∀ c ∈ r, c < 256 := fun x hx => hs x (List.mem_cons_of_mem _ hx)
      have hn : r.length < n := by simp at hf; omega
      have IH := fun buf' => ih rest buf' n hr hn
      have hcr := body_head_ne_cr r rest
      rw [body_cons]
      by_cases h34 : c = 34
      · subst h34
        rw [show esc 34 = [92, 34] from by decide]
        simp only [List.cons_append, List.nil_append]
        rw [scanString, next_plain 92 _ (by decide) (by decide)]
        simp only [scanEscape, next_plain 34 _ (by decide) (by decide)]
        simp [IH]
      · by_cases h92 : c = 92
        · subst h92
          rw [show esc 92 = [92, 92] from by decide]
          simp only [List.cons_append, List.nil_append]
          rw [scanString, next_plain 92 _ (by decide) (by decide)]
          simp only [scanEscape, next_plain 92 _ (by decide) (by decide)]
          simp [IH]
        · by_cases h10 : c = 10
          · subst h10
            rw [show esc 10 = [92, 10] from by decide]
            simp only [List.cons_append, List.nil_append]
            rw [scanString, next_plain 92 _ (by decide) (by decide)]
            simp only [scanEscape, next_lf _ hcr]
            simp [IH]
          · by_cases h13 : c = 13
            · subst h13
              rw [show esc 13 = [92, 114] from by decide]
              simp only [List.cons_append, List.nil_append]
              rw [scanString, next_plain 92 _ (by decide) (by decide)]
              simp only [scanEscape, next_plain 114 _ (by decide) (by decide)]
              simp [IH]
            · by_cases h0 : c = 0
              · subst h0
                rw [show esc 0 = [92, 48, 48, 48] from by decide]
                simp only [List.cons_append, List.nil_append]
                rw [scanString, next_plain 92 _ (by decide) (by decide)]
                simp only [scanEscape, next_plain 48 _ (by decide) (by decide)]
                simp [IH, isDec]
              · rw [esc_plain c h34 h92 h10 h13 h0]
                simp only [List.cons_append, List.nil_append]
                rw [scanString, next_plain c _ h10 h13]
                have e1 : ((c : Int) = ((34 : Nat) : Int)) = False := by
                  simp; omega
                have e2 : ((c : Int) = 10 ∨ (c : Int) < 0) = False := by
                  simp; omega
                have e3 : ((c : Int) = 92) = False := by
                  simp; omega
                simp only [e1, e2, e3, if_false, toByte_small c hc]
                rw [IH]
                simp

/-- **q_roundtrip** for the repaired `%q`. -/
theorem readBack_formatQ (s : Bytes) (hs : ∀ c ∈ s, c < 256) : readBack (formatQ s) = some s := by
  unfold readBack formatQ
  simp only
  have h := scan_body s [] [] ((formatQBody s ++ [34]).length + 1) hs (by
    have : s.length ≤ (formatQBody s).length := by
      induction s with
      | nil => simp
      | cons c r ih =>
        rw [body_cons]
        simp only [List.length_append, List.length_cons]
        have := ih (fun x hx => hs x (List.mem_cons_of_mem _ hx))
        have : 1 ≤ (esc c).length := by unfold esc; split <;> (try split) <;> (try split) <;> simp
        omega
    simp; omega)
  simp only [List.nil_append] at h
  rw [h]

theorem formatQ_eq_addquoted (s : Bytes) : formatQ s = QuoteSpec.addquoted s := by
  unfold formatQ QuoteSpec.addquoted
  congr 2
  induction s with
  | nil => rfl
  | cons c r ih => simp [formatQBody, QuoteSpec.addquotedBody, ih]

/-! ### the Spec's own reader reads lstrlib's quoted form back -/

open GLua.QuoteSpec in
section
theorem sbody_cons (c : Nat) (r : Bytes) : addquotedBody (c :: r) = esc c ++ addquotedBody r := rfl

theorem formatQBody_eq (s : Bytes) : QuoteModel.formatQBody s = addquotedBody s := by
  induction s with
  | nil => rfl
  | cons c r ih => simp [QuoteModel.formatQBody, addquotedBody, ih]

theorem sbody_head (s rest : Bytes) : ∀ e, (addquotedBody s ++ 34 :: rest).head? = some e → e ≠ 13 := by
  intro e he
  have := body_head_ne_cr s rest
  rw [formatQBody_eq] at this
  intro h13; subst h13; exact this he

theorem skipNlPair_id (tl : Bytes) (h : ∀ e, tl.head? = some e → e ≠ 13) : skipNlPair 10 tl = tl := by
  cases tl with
  | nil => rfl
  | cons e r =>
    have he := h e rfl
    unfold skipNlPair
    have : ¬ (isNl e = true ∧ e ≠ 10) := by
      intro ⟨h1, h2⟩
      simp [isNl] at h1
      omega
    simp [this]

/-- the Spec's reader reads lstrlib's quoted form back. -/
theorem spec_read_body (s : Bytes) : ∀ (rest : Bytes) (fuel : Nat), s.length < fuel →
    readShort 34 fuel (addquotedBody s ++ 34 :: rest) = some (s, rest) := by
  induction s with
  | nil =>
    intro rest fuel hf
    cases fuel with
    | zero => omega
    | succ n => simp [addquotedBody, readShort]
  | cons c r ih =>
    intro rest fuel hf
    cases fuel with
    | zero => simp at hf
    | succ n =>
      have hn : r.length < n := by simp at hf; omega
      have IH := ih rest n hn
      have hhead := sbody_head r rest
      rw [sbody_cons]
      by_cases h34 : c = 34
      · subst h34
        rw [show esc 34 = [92, 34] from by decide]
        simp only [List.cons_append, List.nil_append]
        rw [readShort]
        simp [isNl, isDec, escChar, IH]
      · by_cases h92 : c = 92
        · subst h92
          rw [show esc 92 = [92, 92] from by decide]
          simp only [List.cons_append, List.nil_append]
          rw [readShort]
          simp [isNl, isDec, escChar, IH]
        · by_cases h10 : c = 10
          · subst h10
            rw [show esc 10 = [92, 10] from by decide]
            simp only [List.cons_append, List.nil_append]
            rw [readShort]
            simp [isNl, isDec, escChar, skipNlPair_id _ hhead, IH]
          · by_cases h13 : c = 13
            · subst h13
              rw [show esc 13 = [92, 114] from by decide]
              simp only [List.cons_append, List.nil_append]
              rw [readShort]
              simp [isNl, isDec, escChar, IH]
            · by_cases h0 : c = 0
              · subst h0
                rw [show esc 0 = [92, 48, 48, 48] from by decide]
                simp only [List.cons_append, List.nil_append]
                rw [readShort]
                simp [isNl, isDec, escChar, valIn, digitVal, IH]
              · rw [esc_plain c h34 h92 h10 h13 h0]
                simp only [List.cons_append, List.nil_append]
                rw [readShort.eq_def]
                have hnl : isNl c = false := by simp [isNl]; omega
                simp [h34, hnl, h92, IH]

theorem spec_literal_addquoted (s : Bytes) : QuoteSpec.literal (addquoted s) = some s := by
  unfold QuoteSpec.literal literalPrefix addquoted
  simp only
  have h := spec_read_body s [] ((addquotedBody s ++ [34]).length + 1) (by
    have : s.length ≤ (addquotedBody s).length := by
      induction s with
      | nil => simp
      | cons c r ih =>
        rw [sbody_cons]
        simp only [List.length_append, List.length_cons]
        have : 1 ≤ (esc c).length := by unfold esc; split <;> (try split) <;> (try split) <;> simp
        omega
    simp; omega)
  rw [h]

end

end GLua.Proofs.C16Quote
