/-
  Lemmas for C16 `q_roundtrip`: the lexer model reads the repaired `%q` output back to the original bytes.
-/
import GLua.Model.Quote
import GLua.Spec.Quote

set_option linter.unusedSimpArgs false
set_option linter.unusedVariables false

namespace GLua.Proofs.C16Quote
open GLua GLua.NumSpec GLua.NumModel GLua.QuoteModel

theorem next_plain (c : Nat) (r : Bytes) (h10 : c ≠ 10) (h13 : c ≠ 13) : next (c :: r) = ((c : Int), r) := by
  unfold next
  split <;> simp_all

theorem next_lf (r : Bytes) (h : r.head? ≠ some 13) : next (10 :: r) = (10, r) := by
  cases r with
  | nil => rfl
  | cons d t =>
    have hd : d ≠ 13 := by simpa using h
    unfold next
    split
    · simp_all
    · simp_all
    · simp_all
    · simp_all
    · rename_i heq
      simp at heq
      obtain ⟨h1, h2⟩ := heq
      subst h1; subst h2; rfl

/-- what LString.Format 'q' emits for one byte. -/
def esc (c : Nat) : Bytes :=
  if c = 34 ∨ c = 92 ∨ c = 10 then [92, c]
  else if c = 13 then [92, 114]
  else if c = 0 then [92, 48, 48, 48]
  else [c]

theorem body_cons (c : Nat) (r : Bytes) : formatQBody (c :: r) = esc c ++ formatQBody r := rfl

theorem esc_plain (c : Nat) (h34 : c ≠ 34) (h92 : c ≠ 92) (h10 : c ≠ 10) (h13 : c ≠ 13) (h0 : c ≠ 0) :
    esc c = [c] := by simp [esc, h34, h92, h10, h13, h0]

/-- the escaped body never starts with a raw CR. -/
theorem body_head_ne_cr (s rest : Bytes) : (formatQBody s ++ 34 :: rest).head? ≠ some 13 := by
  cases s with
  | nil => simp [formatQBody]
  | cons c r =>
    rw [body_cons]
    unfold esc
    split
    · simp
    · split
      · simp
      · split
        · simp
        · rename_i h1 h2 h3
          simp
          exact h2

theorem toByte_small (c : Nat) (h : c < 256) : toByte (c : Int) = c := by
  unfold toByte
  omega

/-- one escaped character is read back as that character. -/
theorem scan_body (s : Bytes) : ∀ (rest buf : Bytes) (fuel : Nat), (∀ c ∈ s, c < 256) → s.length < fuel →
    scanString false 34 fuel (formatQBody s ++ 34 :: rest) buf = some (buf ++ s, rest) := by
  induction s with
  | nil =>
    intro rest buf fuel _ hf
    cases fuel with
    | zero => omega
    | succ n => simp [formatQBody, scanString, next]
  | cons c r ih =>
    intro rest buf fuel hs hf
    cases fuel with
    | zero => simp at hf
    | succ n =>
      have hc : c < 256 := hs c (List.mem_cons_self ..)
      have hr : ∀ c ∈ r, c < 256 := fun x hx => hs x (List.mem_cons_of_mem _ hx)
      have hn : r.length < n := by simp at hf; omega
      have IH := fun buf' => ih rest buf' n hr hn
      have hcr := body_head_ne_cr r rest
      rw [body_cons]
      by_cases h34 : c = 34
      · subst h34
        rw [show esc 34 = [92, 34] from by decide]
        simp only [List.cons_append, List.nil_append]
        rw [scanString, next_plain 92 _ (by decide) (by decide)]
        simp only [scanEscape, next_plain 34 _ (by decide) (by decide)]
        simp [IH]
      · by_cases h92 : c = 92
        · subst h92
          rw [show esc 92 = [92, 92] from by decide]
          simp only [List.cons_append, List.nil_append]
          rw [scanString, next_plain 92 _ (by decide) (by decide)]
          simp only [scanEscape, next_plain 92 _ (by decide) (by decide)]
          simp [IH]
        · by_cases h10 : c = 10
          · subst h10
            rw [show esc 10 = [92, 10] from by decide]
            simp only [List.cons_append, List.nil_append]
            rw [scanString, next_plain 92 _ (by decide) (by decide)]
            simp only [scanEscape, next_lf _ hcr]
            simp [IH]
          · by_cases h13 : c = 13
            · subst h13
              rw [show esc 13 = [92, 114] from by decide]
              simp only [List.cons_append, List.nil_append]
              rw [scanString, next_plain 92 _ (by decide) (by decide)]
              simp only [scanEscape, next_plain 114 _ (by decide) (by decide)]
              simp [IH]
            · by_cases h0 : c = 0
              · subst h0
                rw [show esc 0 = [92, 48, 48, 48] from by decide]
                simp only [List.cons_append, List.nil_append]
                rw [scanString, next_plain 92 _ (by decide) (by decide)]
                simp only [scanEscape, next_plain 48 _ (by decide) (by decide)]
                simp [IH, isDec]
              · rw [esc_plain c h34 h92 h10 h13 h0]
                simp only [List.cons_append, List.nil_append]
                rw [scanString, next_plain c _ h10 h13]
                have e1 : ((c : Int) = ((34 : Nat) : Int)) = False := by
                  simp; omega
                have e2 : ((c : Int) = 10 ∨ (c : Int) < 0) = False := by
                  simp; omega
                have e3 : ((c : Int) = 92) = False := by
                  simp; omega
                simp only [e1, e2, e3, if_false, toByte_small c hc]
                rw [IH]
                simp

/-- **q_roundtrip** for the repaired `%q`. -/
theorem readBack_formatQ (s : Bytes) (hs : ∀ c ∈ s, c < 256) : readBack (formatQ s) = some s := by
  unfold readBack formatQ
  simp only
  have h := scan_body s [] [] ((formatQBody s ++ [34]).length + 1) hs (by
    have : s.length ≤ (formatQBody s).length := by
      induction s with
      | nil => simp
      | cons c r ih =>
        rw [body_cons]
        simp only [List.length_append, List.length_cons]
        have := ih (fun x hx => hs x (List.mem_cons_of_mem _ hx))
        have : 1 ≤ (esc c).length := by unfold esc; split <;> (try split) <;> (try split) <;> simp
        omega
    simp; omega)
  simp only [List.nil_append] at h
  rw [h]

theorem formatQ_eq_addquoted (s : Bytes) : formatQ s = QuoteSpec.addquoted s := by
  unfold formatQ QuoteSpec.addquoted
  congr 2
  induction s with
  | nil => rfl
  | cons c r ih => simp [formatQBody, QuoteSpec.addquotedBody, ih]

/-! ### the Spec's own reader reads lstrlib's quoted form back -/

open GLua.QuoteSpec in
section
theorem sbody_cons (c : Nat) (r : Bytes) : addquotedBody (c :: r) = esc c ++ addquotedBody r := rfl

theorem formatQBody_eq (s : Bytes) : QuoteModel.formatQBody s = addquotedBody s := by
  induction s with
  | nil => rfl
  | cons c r ih => simp [QuoteModel.formatQBody, addquotedBody, ih]

theorem sbody_head (s rest : Bytes) : ∀ e, (addquotedBody s ++ 34 :: rest).head? = some e → e ≠ 13 := by
  intro e he
  have := body_head_ne_cr s rest
  rw [formatQBody_eq] at this
  intro h13; subst h13; exact this he

theorem skipNlPair_id (tl : Bytes) (h : ∀ e, tl.head? = some e → e ≠ 13) : skipNlPair 10 tl = tl := by
  cases tl with
  | nil => rfl
  | cons e r =>
    have he := h e rfl
    unfold skipNlPair
    have : ¬ (isNl e = true ∧ e ≠ 10) := by
      intro ⟨h1, h2⟩
      simp [isNl] at h1
      omega
    simp [this]

/-- the Spec's reader reads lstrlib's quoted form back. -/
theorem spec_read_body (s : Bytes) : ∀ (rest : Bytes) (fuel : Nat), s.length < fuel →
    readShort 34 fuel (addquotedBody s ++ 34 :: rest) = some (s, rest) := by
  induction s with
  | nil =>
    intro rest fuel hf
    cases fuel with
    | zero => omega
    | succ n => simp [addquotedBody, readShort]
  | cons c r ih =>
    intro rest fuel hf
    cases fuel with
    | zero => simp at hf
    | succ n =>
      have hn : r.length < n := by simp at hf; omega
      have IH := ih rest n hn
      have hhead := sbody_head r rest
      rw [sbody_cons]
      by_cases h34 : c = 34
      · subst h34
        rw [show esc 34 = [92, 34] from by decide]
        simp only [List.cons_append, List.nil_append]
        rw [readShort]
        simp [isNl, isDec, escChar, IH]
      · by_cases h92 : c = 92
        · subst h92
          rw [show esc 92 = [92, 92] from by decide]
          simp only [List.cons_append, List.nil_append]
          rw [readShort]
          simp [isNl, isDec, escChar, IH]
        · by_cases h10 : c = 10
          · subst h10
            rw [show esc 10 = [92, 10] from by decide]
            simp only [List.cons_append, List.nil_append]
            rw [readShort]
            simp [isNl, isDec, escChar, skipNlPair_id _ hhead, IH]
          · by_cases h13 : c = 13
            · subst h13
              rw [show esc 13 = [92, 114] from by decide]
              simp only [List.cons_append, List.nil_append]
              rw [readShort]
              simp [isNl, isDec, escChar, IH]
            · by_cases h0 : c = 0
              · subst h0
                rw [show esc 0 = [92, 48, 48, 48] from by decide]
                simp only [List.cons_append, List.nil_append]
                rw [readShort]
                simp [isNl, isDec, escChar, valIn, digitVal, IH]
              · rw [esc_plain c h34 h92 h10 h13 h0]
                simp only [List.cons_append, List.nil_append]
                rw [readShort.eq_def]
                have hnl : isNl c = false := by simp [isNl]; omega
                simp [h34, hnl, h92, IH]

theorem spec_literal_addquoted (s : Bytes) : QuoteSpec.literal (addquoted s) = some s := by
  unfold QuoteSpec.literal literalPrefix addquoted
  simp only
  have h := spec_read_body s [] ((addquotedBody s ++ [34]).length + 1) (by
    have : s.length ≤ (addquotedBody s).length := by
      induction s with
      | nil => simp
      | cons c r ih =>
        rw [sbody_cons]
        simp only [List.length_append, List.length_cons]
        have : 1 ≤ (esc c).length := by unfold esc; split <;> (try split) <;> (try split) <;> simp
        omega
    simp; omega)
  rw [h]

end

/-! ### line ends (position independence of literals: the line of the token after a literal) -/

section LineEnds
open GLua.QuoteSpec

theorem lineEndsAux_cons_plain (b : Nat) (hb : isNl b = false) (s : Bytes) (acc : Nat) :
    lineEndsAux (b :: s) acc = lineEndsAux s acc := by
  cases s with
  | nil => simp [lineEndsAux, hb]
  | cons d r => simp [lineEndsAux, hb]

theorem lineEndsAux_acc_le (n : Nat) : ∀ (s : Bytes), s.length ≤ n → ∀ acc, lineEndsAux s acc = acc + lineEndsAux s 0 := by
  induction n with
  | zero => intro s hs acc; cases s with
    | nil => simp [lineEndsAux]
    | cons _ _ => simp at hs
  | succ n ih =>
    intro s hs acc
    match s, hs with
    | [], _ => simp [lineEndsAux]
    | [c], _ => simp [lineEndsAux]; split <;> simp
    | c :: d :: r, hs =>
      have hr : r.length ≤ n := by simp at hs; omega
      have hdr : (d :: r).length ≤ n := by simp at hs ⊢; omega
      simp only [lineEndsAux]
      split
      · split
        · rw [ih r hr (acc + 1), ih r hr (0 + 1)]; omega
        · rw [ih _ hdr (acc + 1), ih _ hdr (0 + 1)]; omega
      · exact ih _ hdr acc

theorem lineEndsAux_acc (s : Bytes) (acc : Nat) : lineEndsAux s acc = acc + lineEndsAux s 0 :=
  lineEndsAux_acc_le s.length s (Nat.le_refl _) acc

/-- a byte that is no line end separates the text before it from the text after it -/
theorem lineEnds_sep_le (b : Nat) (hb : isNl b = false) (t : Bytes) (n : Nat) :
    ∀ (s : Bytes), s.length ≤ n → lineEnds (s ++ b :: t) = lineEnds s + lineEnds t := by
  induction n with
  | zero => intro s hs; cases s with
    | nil => simp [lineEnds, lineEndsAux_cons_plain b hb, lineEndsAux]
    | cons _ _ => simp at hs
  | succ n ih =>
    intro s hs
    match s, hs with
    | [], _ => simp [lineEnds, lineEndsAux_cons_plain b hb, lineEndsAux]
    | [c], _ =>
      simp only [lineEnds, List.cons_append, List.nil_append, lineEndsAux, hb]
      by_cases hc : isNl c = true
      · simp [hc, lineEndsAux_cons_plain b hb]; exact lineEndsAux_acc t 1
      · simp [hc, lineEndsAux_cons_plain b hb]
    | c :: d :: r, hs =>
      have hr : r.length ≤ n := by simp at hs; omega
      have hdr : (d :: r).length ≤ n := by simp at hs ⊢; omega
      have ihr := ih r hr
      have ihdr := ih _ hdr
      simp only [lineEnds] at ihr ihdr ⊢
      simp only [List.cons_append, lineEndsAux]
      split
      · split
        · rw [lineEndsAux_acc, ihr, lineEndsAux_acc r (0+1)]; omega
        · rw [lineEndsAux_acc, ← List.cons_append, ihdr, lineEndsAux_acc (d :: r) (0+1)]; omega
      · rw [← List.cons_append, ihdr]

theorem lineEnds_sep (b : Nat) (hb : isNl b = false) (s t : Bytes) :
    lineEnds (s ++ b :: t) = lineEnds s + lineEnds t := lineEnds_sep_le b hb t s.length s (Nat.le_refl _)

theorem lineEnds_plain_run (bs : Bytes) (hbs : ∀ b ∈ bs, isNl b = false) (t : Bytes) : lineEnds (bs ++ t) = lineEnds t := by
  induction bs with
  | nil => rfl
  | cons b r ih =>
    have := lineEnds_sep b (hbs b (by simp)) [] (r ++ t)
    simp [lineEnds, lineEndsAux] at this ⊢
    rw [lineEndsAux_cons_plain b (hbs b (by simp))]
    exact ih (fun x hx => hbs x (by simp [hx]))

theorem lineEnds_nil : lineEnds [] = 0 := rfl

theorem lineEnds_plain (c : Nat) (hc : isNl c = false) (r : Bytes) : lineEnds (c :: r) = lineEnds r :=
  lineEndsAux_cons_plain c hc r 0

theorem lineEnds_pair (c d : Nat) (hc : isNl c = true) (hd : isNl d = true) (hne : d ≠ c) (r : Bytes) :
    lineEnds (c :: d :: r) = 1 + lineEnds r := by
  simp only [lineEnds, lineEndsAux, hc, hd]
  simp [hne]
  exact lineEndsAux_acc r 1

theorem lineEnds_single (c : Nat) (hc : isNl c = true) (r : Bytes) (h : ∀ d t, r = d :: t → ¬(isNl d = true ∧ d ≠ c)) :
    lineEnds (c :: r) = 1 + lineEnds r := by
  cases r with
  | nil => simp [lineEnds, lineEndsAux, hc]
  | cons d t =>
    have := h d t rfl
    simp only [lineEnds, lineEndsAux, hc, this]
    simp
    exact lineEndsAux_acc (d :: t) 1

theorem linesRead_eq (n : Nat) : ∀ (s : Bytes) (fuel : Nat), s.length ≤ n → s.length ≤ fuel → linesRead fuel s = lineEnds s := by
  induction n with
  | zero => intro s fuel hs _; cases s with
    | nil => cases fuel <;> simp [linesRead, lineEnds, lineEndsAux]
    | cons _ _ => simp at hs
  | succ n ih =>
    intro s fuel hs hf
    match s, fuel, hs, hf with
    | [], fuel, _, _ => cases fuel <;> simp [linesRead, lineEnds, lineEndsAux]
    | c :: r, 0, _, hf => simp at hf
    | c :: r, fuel + 1, hs, hf =>
      have hr : r.length ≤ n := by simp at hs; omega
      have hfr : r.length ≤ fuel := by simp at hf; omega
      by_cases h10 : c = 10
      · subst h10
        match r, hr, hfr with
        | 13 :: t, hr, hfr =>
          have e : next (10 :: 13 :: t) = (10, t) := rfl
          rw [linesRead, e, lineEnds_pair 10 13 (by decide) (by decide) (by decide)]
          simp
          exact ih t fuel (by simp at hr; omega) (by simp at hfr; omega)
        | [], _, _ =>
          have e : next [10] = (10, []) := rfl
          rw [linesRead, e]; cases fuel <;> simp [linesRead, lineEnds, lineEndsAux, isNl]
        | d :: t, hr, hfr =>
          by_cases hd : d = 13
          · subst hd
            have e : next (10 :: 13 :: t) = (10, t) := rfl
            rw [linesRead, e, lineEnds_pair 10 13 (by decide) (by decide) (by decide)]
            simp
            exact ih t fuel (by simp at hr; omega) (by simp at hfr; omega)
          · have e : next (10 :: d :: t) = (10, d :: t) := by
              unfold next; split <;> simp_all
              rename_i h; omega
            rw [linesRead, e, lineEnds_single 10 (by decide) (d :: t) (by
              intro d' t' h; simp at h; obtain ⟨h1, _⟩ := h; subst h1
              intro ⟨hn, _⟩; simp [isNl] at hn; omega)]
            simp
            exact ih (d :: t) fuel hr hfr
      · by_cases h13 : c = 13
        · subst h13
          match r, hr, hfr with
          | [], _, _ =>
            have e : next [13] = (10, []) := rfl
            rw [linesRead, e]; cases fuel <;> simp [linesRead, lineEnds, lineEndsAux, isNl]
          | d :: t, hr, hfr =>
            by_cases hd : d = 10
            · subst hd
              have e : next (13 :: 10 :: t) = (10, t) := rfl
              rw [linesRead, e, lineEnds_pair 13 10 (by decide) (by decide) (by decide)]
              simp
              exact ih t fuel (by simp at hr; omega) (by simp at hfr; omega)
            · have e : next (13 :: d :: t) = (10, d :: t) := by unfold next; split <;> simp_all
              rw [linesRead, e, lineEnds_single 13 (by decide) (d :: t) (by
                intro d' t' h; simp at h; obtain ⟨h1, _⟩ := h; subst h1
                intro ⟨hn, _⟩; simp [isNl] at hn; omega)]
              simp
              exact ih (d :: t) fuel hr hfr
        · have e : next (c :: r) = ((c : Int), r) := by unfold next; split <;> simp_all
          have hc : isNl c = false := by simp [isNl, h10, h13]
          rw [linesRead, e, lineEnds_plain c hc]
          have : ¬ ((c : Int) = 10) := by omega
          simp [this]
          exact ih r fuel hr hfr


end LineEnds

end GLua.Proofs.C16Quote
