/-
  Lemmas for the time part of C16: os.time ∘ os.date("*t") glue, and the regenerated strftime table against the
  C-locale directives of the Spec.
-/
import GLua.Model.Time

namespace GLua.Proofs.C16Time
open GLua GLua.NumSpec GLua.TimeSpec GLua.TimeModel

/-- fields as os.date("*t") can produce them (4-digit years: what `%Y` prints is then unambiguous). -/
structure Valid (f : Fields) : Prop where
  year : 1000 ≤ f.year ∧ f.year ≤ 9999
  month : 1 ≤ f.month ∧ f.month ≤ 12
  day : 1 ≤ f.day ∧ f.day ≤ 31
  hour : 0 ≤ f.hour ∧ f.hour ≤ 23
  min : 0 ≤ f.min ∧ f.min ≤ 59
  sec : 0 ≤ f.sec ∧ f.sec ≤ 60
  wday : 1 ≤ f.wday ∧ f.wday ≤ 7

theorem appendInt2 : ∀ n, n < 100 → appendInt n 2 = [48 + n / 10 % 10, 48 + n % 10] := by decide

theorem appendInt2_int (x : Int) (h0 : 0 ≤ x) (h1 : x < 100) : appendInt x.toNat 2 = pad2 x := by
  unfold pad2
  exact appendInt2 x.toNat (by omega)

theorem natDigits_pos (fuel n : Nat) : 1 ≤ (natDigits (fuel + 1) n).length := by
  unfold natDigits
  split <;> simp

/-- four-digit years need no padding. -/
theorem appendInt4 (n : Nat) (h : 1000 ≤ n) : appendInt n 4 = natDigits (n + 1) n := by
  unfold appendInt
  have hlen : 4 ≤ (natDigits (n + 1) n).length := by
    obtain ⟨k, rfl⟩ : ∃ k, n = k + 3 := ⟨n - 3, by omega⟩
    rw [natDigits, if_neg (by omega)]
    rw [natDigits, if_neg (by omega)]
    rw [natDigits, if_neg (by omega)]
    have := natDigits_pos k ((k + 3) / 10 / 10 / 10)
    simp only [List.length_append, List.length_cons, List.length_nil]
    omega
  simp only
  rw [show 4 - (natDigits (n + 1) n).length = 0 by omega]
  simp

theorem year4 (x : Int) (h : 1000 ≤ x) : appendInt x.toNat 4 = plainInt x := by
  obtain ⟨n, rfl⟩ : ∃ n : Nat, x = n := ⟨x.toNat, by omega⟩
  have hn : 1000 ≤ n := by omega
  simp only [Int.toNat_natCast]
  rw [appendInt4 n hn]
  rfl

theorem year2 (x : Int) (h : 0 ≤ x) : appendInt (x.natAbs % 100) 2 = pad2 (x % 100) := by
  unfold pad2
  rw [appendInt2 _ (Nat.mod_lt _ (by decide))]
  have : (x % 100).toNat = x.natAbs % 100 := by omega
  rw [this]

theorem hour12_range (h : Int) (h0 : 0 ≤ h) (h1 : h ≤ 23) : 0 ≤ hour12 h ∧ hour12 h < 100 := by
  unfold hour12; split <;> omega

theorem ampm (h : Int) : (if h ≥ 12 then sPM else sAM) = (if h < 12 then sAM else sPM) := by
  split <;> split <;> first | rfl | omega

theorem ampm' (h : Int) : (if h ≥ 12 then spm else sam) = (if h < 12 then sam else spm) := by
  split <;> split <;> first | rfl | omega

/-- **time_roundtrip** (glue): with a calendar satisfying the trusted law `unix (civil t) = t`,
    `os.time(os.date("*t", t)) = t` for every t. -/
theorem osTime_osDate (cal : Cal)
    (law : ∀ t, cal.unix (cal.civil t).year (cal.civil t).month (cal.civil t).day (cal.civil t).hour
                  (cal.civil t).min (cal.civil t).sec = t) (t : Int) :
    osTimeOfFields cal (osDateTable cal t) = t := by
  simp [osTimeOfFields, osTime, osDateTable, law]

set_option linter.unusedSimpArgs false

/-- the Go layouts that render each directive as the C locale does (reference table of the proof; the table of the
    source is compared with it by `decide`, so a changed entry breaks the obligation). -/
def goodTable : List (Nat × Bytes) := [
  (65, [77, 111, 110, 100, 97, 121]), (66, [74, 97, 110, 117, 97, 114, 121]),
  (70, [50, 48, 48, 54, 45, 48, 49, 45, 48, 50]), (72, [49, 53]), (73, [48, 51]), (77, [48, 52]),
  (80, [112, 109]), (83, [48, 53]), (88, [49, 53, 58, 48, 52, 58, 48, 53]), (89, [50, 48, 48, 54]),
  (90, [77, 83, 84]), (97, [77, 111, 110]), (98, [74, 97, 110]), (100, [48, 50]), (109, [48, 49]),
  (112, [80, 77]), (120, [48, 49, 47, 48, 50, 47, 48, 54]), (121, [48, 54]), (122, [45, 48, 55, 48, 48])]

/-- every layout of the reference table renders, through the model of time.Format, exactly what the Spec's
    directive denotes — for all valid broken-down times. -/
theorem good_renders (f : Fields) (hv : Valid f) :
    ∀ p ∈ goodTable, goFormat f (p.2.length + 1) p.2 =
      (match directive p.1 f with | .text b => some b | _ => none) := by
  have hh := hour12_range f.hour hv.hour.1 hv.hour.2
  have e1 := appendInt2_int f.month (by have := hv.month.1; omega) (by have := hv.month.2; omega)
  have e2 := appendInt2_int f.day (by have := hv.day.1; omega) (by have := hv.day.2; omega)
  have e3 := appendInt2_int f.hour hv.hour.1 (by have := hv.hour.2; omega)
  have e4 := appendInt2_int f.min hv.min.1 (by have := hv.min.2; omega)
  have e5 := appendInt2_int f.sec hv.sec.1 (by have := hv.sec.2; omega)
  have e6 := appendInt2_int (hour12 f.hour) hh.1 hh.2
  have e7 := year4 f.year hv.year.1
  have e8 := year2 f.year (by have := hv.year.1; omega)
  have e9 : ¬ f.year < 0 := by have := hv.year.1; omega
  intro p hp
  simp only [goodTable, List.mem_cons, List.mem_nil_iff, or_false] at hp
  rcases hp with rfl | rfl | rfl | rfl | rfl | rfl | rfl | rfl | rfl | rfl | rfl | rfl | rfl | rfl | rfl | rfl | rfl | rfl | rfl
  all_goals
    simp [directive, goFormat, formatStep, hasPrefix, dropStr, startsWithLowerCase, isLowerCase, lJanuary, lJan, lMonday, lMon, lMST, l2006,
      lU2006, lU2, lUU2, lM070000, lM07C00, lM0700, lM07, lZ07, longNames, shortNames, weekdayName, monthName,
      e1, e2, e3, e4, e5, e6, e7, e8, e9, ampm, ampm']

/-- `%w`: the weekday digit is rendered from the same field. -/
theorem weekday_digit (f : Fields) (hv : Valid f) : appendInt (f.wday - 1).toNat 0 = [48 + (f.wday - 1).toNat] := by
  have h1 := hv.wday.1
  have h2 := hv.wday.2
  have : (f.wday - 1).toNat < 10 := by omega
  generalize (f.wday - 1).toNat = n at this
  unfold appendInt
  rw [natDigits, if_pos this]
  simp

set_option linter.unusedVariables false

/-- the directives the Spec gives a text for. -/
def specDirs : List Nat := [97, 65, 98, 66, 100, 72, 73, 109, 77, 112, 83, 119, 120, 88, 121, 89, 90, 70, 80, 122]

theorem directive_text_mem (c : Nat) (f : Fields) (b : Bytes) (h : directive c f = .text b) : c ∈ specDirs := by
  unfold directive at h
  split at h <;> first | (simp [specDirs]; done) | (simp at h)

/-- every directive the Spec speaks about is in the regenerated table (or is %w). -/
theorem specDirs_in_table : ∀ c ∈ specDirs, c = 119 ∨ ∃ e ∈ Generated.cDateFlagToGo, e.1 = c ∧ e.1 ≠ 99 := by decide

/-- the table regenerated from utils.go is a sub-table of the proof's reference table (order-insensitive). -/
theorem table_is_reference' : ∀ e ∈ Generated.cDateFlagToGo, e.1 = 99 ∨ e ∈ goodTable := by decide

/-- no directive occurs twice in the regenerated table (so the map lookup is the list lookup). -/
theorem table_lookup' : ∀ e ∈ Generated.cDateFlagToGo, lookupFlag e.1 = some e.2 := by decide

/-- what strftime appends for a conversion character is the Spec's directive, for every directive the Spec defines. -/
theorem renderFlag_spec (f : Fields) (hv : Valid f) (c : Nat) (b : Bytes) (h : directive c f = .text b) :
    renderFlag f c = some b := by
  rcases specDirs_in_table c (directive_text_mem c f b h) with rfl | ⟨e, he, rfl, h99⟩
  · have hl : lookupFlag 119 = none := by decide
    unfold renderFlag
    rw [hl]
    have hw := weekday_digit f hv
    have hb : b = [48 + (f.wday - 1).toNat] := by
      have : directive 119 f = .text [48 + (f.wday - 1).toNat] := rfl
      rw [this] at h; exact (Dir.text.inj h).symm
    show (if (119 : Nat) = 119 then some (appendInt (f.wday - 1).toNat 0) else some [37, 119]) = some b
    rw [if_pos rfl, hw, hb]
  · have hl := table_lookup' e he
    rcases table_is_reference' e he with h' | h'
    · exact absurd h' h99
    · unfold renderFlag
      rw [hl]
      have := good_renders f hv e h'
      show goFormat f (e.2.length + 1) e.2 = some b
      rw [this, h]

/-- **the format walk**: utils.go strftime (flagScanner: `%%`, lone trailing `%`, conversion characters) produces,
    for every format string the Spec gives a meaning to, exactly the Spec's text. -/
theorem strftime_refines (f : Fields) (hv : Valid f) : ∀ (cfmt b : Bytes), TimeSpec.strftime f cfmt = some b →
    TimeModel.strftime f cfmt = some b := by
  intro cfmt
  unfold TimeModel.strftime
  induction hlen : cfmt.length using Nat.strongRecOn generalizing cfmt with
  | _ n ih =>
    intro b h
    match cfmt, hlen with
    | [], _ => simp [TimeSpec.strftime] at h; simp [strftimeLoop, h]
    | [c], _ =>
      simp [TimeSpec.strftime] at h
      subst h
      by_cases hc : c = 37
      · subst hc; simp [strftimeLoop]
      · simp [strftimeLoop, hc]
    | c :: d :: r, hl =>
      by_cases hc : c = 37
      · subst hc
        by_cases hd : d = 37
        · subst hd
          simp only [TimeSpec.strftime] at h
          cases hr : TimeSpec.strftime f r with
          | none => rw [hr] at h; simp at h
          | some b' =>
            rw [hr] at h; simp at h; subst h
            have := ih r.length (by simp at hl; omega) r rfl b' hr
            simp [strftimeLoop, this]
        · have hspec : TimeSpec.strftime f (37 :: d :: r) =
              (match directive d f with
               | .text b => (TimeSpec.strftime f r).map (b ++ ·)
               | _ => none) := by
            rw [TimeSpec.strftime]
            all_goals (first | rfl | (intros; simp_all))
          rw [hspec] at h
          cases hdir : directive d f with
          | text bd =>
            rw [hdir] at h
            simp only at h
            cases hr : TimeSpec.strftime f r with
            | none => rw [hr] at h; simp at h
            | some b' =>
              rw [hr] at h; simp at h; subst h
              have := ih r.length (by simp at hl; omega) r rfl b' hr
              simp [strftimeLoop, hd, renderFlag_spec f hv d bd hdir, this]
          | locale => rw [hdir] at h; simp at h
          | unsupported => rw [hdir] at h; simp at h
      · have hspec : TimeSpec.strftime f (c :: d :: r) = (TimeSpec.strftime f (d :: r)).map (c :: ·) := by
          rw [TimeSpec.strftime]
          all_goals (first | rfl | (intros; simp_all))
        rw [hspec] at h
        cases hr : TimeSpec.strftime f (d :: r) with
        | none => rw [hr] at h; simp at h
        | some b' =>
          rw [hr] at h; simp at h; subst h
          have := ih (d :: r).length (by simp at hl; simp; omega) (d :: r) rfl b' hr
          simp [strftimeLoop, hc, this]

end GLua.Proofs.C16Time
