/-
  C02, compile-time half — basic lemmas about the machine of Model/CallCompile.lean:
  sequencing of `exec`, register writes, the predicates used by the simulation proofs (`ValsAt`, `Step`, `Inv`),
  the hypotheses about the abstract callees (`BodiesOK`, `InfoWF`), and `execCall_spec`: OP_CALL with an abstract
  callee — composed from `opCall`/`initCallFrame_binds_*`, the body oracle and `opReturn_delivers` /
  `gfunction_returns_topmost` — delivers `adjust results wanted` and gives the callee exactly `bind` of the
  argument registers.
-/
import GLua.Model.CallCompile
import GLua.Proofs.CallFrameRun

namespace GLua.CallCompile
open GLua GLua.CallFrame GLua.CallFrame.Reg GLua.CallShapes GLua.Adjust GLua.CallFrame.Run

variable {W : Type}

/-! ### Except plumbing, `exec` -/

@[simp] theorem bind_ok {ε α β} (x : α) (f : α → Except ε β) : (Except.ok x >>= f) = f x := rfl
@[simp] theorem bind_error {ε α β} (e : ε) (f : α → Except ε β) : ((Except.error e : Except ε α) >>= f) = .error e := rfl
@[simp] theorem map_ok {ε α β} (x : α) (f : α → β) : (Except.map f (Except.ok x : Except ε α)) = .ok (f x) := rfl

theorem exec_done (env : MEnv W) (K : List Konst) (code : List Instr) (s : MS W) (h : s.done = true) :
    exec env K code s = .ok s := by
  cases code <;> simp [exec, h]

theorem exec_append (env : MEnv W) (K : List Konst) (c1 c2 : List Instr) (s : MS W) :
    exec env K (c1 ++ c2) s = exec env K c1 s >>= exec env K c2 := by
  induction c1 generalizing s with
  | nil => simp [exec]
  | cons i c ih =>
    simp only [List.cons_append, exec]
    by_cases hd : s.done = true
    · simp [hd, exec_done env K c2 s hd]
    · simp only [hd, Bool.false_eq_true, if_false]
      cases step env K i s with
      | error e => rfl
      | ok s1 => simp [ih]

/-- `code` runs from `s` to `s'` without error. -/
def Runs (env : MEnv W) (K : List Konst) (code : List Instr) (s s' : MS W) : Prop := exec env K code s = .ok s'

theorem Runs.nil (env : MEnv W) (K : List Konst) (s : MS W) : Runs env K [] s s := rfl

theorem Runs.append {env : MEnv W} {K : List Konst} {c1 c2 : List Instr} {s s1 s2 : MS W}
    (h1 : Runs env K c1 s s1) (h2 : Runs env K c2 s1 s2) : Runs env K (c1 ++ c2) s s2 := by
  unfold Runs at *
  rw [exec_append, h1]; exact h2

theorem Runs.single {env : MEnv W} {K : List Konst} {i : Instr} {s s' : MS W}
    (hd : s.done = false) (h : step env K i s = .ok s') : Runs env K [i] s s' := by
  unfold Runs
  simp [exec, hd, h]

theorem Runs.cons {env : MEnv W} {K : List Konst} {i : Instr} {c : List Instr} {s s1 s2 : MS W}
    (hd : s.done = false) (h : step env K i s = .ok s1) (h2 : Runs env K c s1 s2) : Runs env K (i :: c) s s2 :=
  Runs.append (c1 := [i]) (Runs.single hd h) h2

/-! ### registers -/

theorem set_arr (r : Reg) (i : Nat) (v : Slot) (j : Nat) : (r.set i v).arr j = if j = i then v else r.arr j := rfl

theorem set_arr_self (r : Reg) (i : Nat) (v : Slot) : (r.set i v).arr i = v := by simp [set_arr]

theorem set_arr_ne (r : Reg) (i : Nat) (v : Slot) (j : Nat) (h : j ≠ i) : (r.set i v).arr j = r.arr j := by
  simp [set_arr, h]

theorem set_top_le (r : Reg) (i : Nat) (v : Slot) : r.top ≤ (r.set i v).top := by
  simp only [Reg.set]; split <;> omega

theorem set_top_gt (r : Reg) (i : Nat) (v : Slot) : i + 1 ≤ (r.set i v).top := by
  simp only [Reg.set]; split <;> omega

/-- registers `base … base+n-1` hold the first `n` values of `vs`, nil where `vs` is too short
    (= the list `adjust vs n`). -/
def ValsAt (r : Reg) (base n : Nat) (vs : List OVal) : Prop :=
  ∀ i, i < n → r.arr (base + i) = some ((vs[i]?).getD none)

theorem ValsAt.mono {r : Reg} {base n m : Nat} {vs : List OVal} (h : ValsAt r base n vs) (hm : m ≤ n) :
    ValsAt r base m vs := fun i hi => h i (by omega)

theorem ValsAt.congr {r r' : Reg} {base n : Nat} {vs : List OVal} (h : ValsAt r base n vs)
    (heq : ∀ j, base ≤ j → j < base + n → r'.arr j = r.arr j) : ValsAt r' base n vs := by
  intro i hi
  rw [heq (base + i) (by omega) (by omega)]
  exact h i hi

theorem valsAt_window {r : Reg} {base : Nat} {vs : List OVal} (h : ValsAt r base vs.length vs) :
    r.window base vs.length = vs.map some := window_all r base vs h

theorem valsAt_of_window {r : Reg} {base : Nat} {vs : List OVal} (h : r.window base vs.length = vs.map some) :
    ValsAt r base vs.length vs := fun i hi => arr_of_window r base vs h i hi

/-- the result window of a call / `...` (`adjust vs want` as a list) read pointwise. -/
theorem valsAt_of_adjust {r : Reg} {base : Nat} {vs : List OVal} {want : Option Nat}
    (h : r.window base (adjust vs want).length = (adjust vs want).map some) :
    ValsAt r base (want.getD vs.length) vs := by
  cases want with
  | none =>
    simp only [adjust, Option.getD_none] at h ⊢
    exact valsAt_of_window h
  | some n =>
    simp only [Option.getD_some]
    intro i hi
    have h1 := arr_of_window r base (adjust vs (some n)) h i (by rw [adjust_length]; exact hi)
    rw [h1, adjust_get vs n i hi]
    rfl

theorem slotsVals_map_some (vs : List OVal) : slotsVals (vs.map some) = some vs := by
  induction vs with
  | nil => rfl
  | cons v r ih => simp [slotsVals, ih]

theorem adjust_len (vs : List OVal) (want : Option Nat) : (adjust vs want).length = want.getD vs.length := by
  cases want with
  | none => simp [adjust]
  | some n => simp [adjust_length]

/-! ### hypotheses about the abstract callees -/

/-- the body oracles behave like function bodies: they keep the call stack, leave the results where they say
    (`RetAvail` = the operand B of their OP_RETURN matches what is there / the top-most values of a host function's
    stack), and do not write below the slot their results go to. -/
structure BodiesOK (env : MEnv W) : Prop where
  lua : ∀ (s1 : St) (cf1 : Frame) (rest : List Frame) (res : List OVal),
    s1.stack = cf1 :: rest → cf1.fn.isG = false → cf1.returnBase ≤ cf1.localBase →
    (env.luaBody s1 res).1.stack = s1.stack ∧ (env.luaBody s1 res).1.maxSp = s1.maxSp ∧
    RetAvail (env.luaBody s1 res).1.reg (cf1.localBase + (env.luaBody s1 res).2.1) (env.luaBody s1 res).2.2 res ∧
    (env.luaBody s1 res).1.reg.window (cf1.localBase + (env.luaBody s1 res).2.1) res.length = res.map some ∧
    (∀ j, j < cf1.returnBase → (env.luaBody s1 res).1.reg.arr j = s1.reg.arr j)
  go : ∀ (s1 : St) (cf1 : Frame) (rest : List Frame) (res : List OVal),
    s1.stack = cf1 :: rest → cf1.fn.isG = true → cf1.returnBase ≤ s1.reg.top →
    (env.goBody s1 res).stack = s1.stack ∧ (env.goBody s1 res).maxSp = s1.maxSp ∧
    cf1.returnBase + res.length ≤ (env.goBody s1 res).reg.top ∧
    (env.goBody s1 res).reg.window ((env.goBody s1 res).reg.top - res.length) res.length = res.map some ∧
    (∀ j, j < cf1.returnBase → (env.goBody s1 res).reg.arr j = s1.reg.arr j)

/-- `patchCode` gives every Lua function at least one register beyond its parameters (`maxreg` starts at
    `max(1, NumParameters)` and `NumUsedRegisters = maxreg + 1`). -/
def InfoWF (env : MEnv W) : Prop :=
  ∀ fv, (env.info fv).isG = false → (env.info fv).np < (env.info fv).nur

/-! ### OP_CALL with an abstract callee -/

/-- the result of running the callee whose frame `initCallFrame` has just set up. -/
theorem runCallee_spec (env : MEnv W) (hB : BodiesOK env) (fv : OVal) (s1 : St) (cf1 : Frame) (rest : List Frame)
    (w : W) (params extra : List OVal)
    (hst : s1.stack = cf1 :: rest) (hrb : cf1.returnBase ≤ cf1.localBase) (hrt : cf1.returnBase ≤ s1.reg.top)
    (hview : calleeView s1 cf1 = some (params, extra)) :
    ∃ s2, runCallee env fv s1 w false = .ok (s2, (env.sem fv params extra w).2) ∧
      s2.stack = rest ∧ s2.maxSp = s1.maxSp ∧
      s2.reg.top = cf1.returnBase + (adjust (env.sem fv params extra w).1 cf1.nret).length ∧
      s2.reg.window cf1.returnBase (adjust (env.sem fv params extra w).1 cf1.nret).length =
        (adjust (env.sem fv params extra w).1 cf1.nret).map some ∧
      (∀ j, j < cf1.returnBase → s2.reg.arr j = s1.reg.arr j) := by
  simp only [runCallee, hst, hview]
  by_cases hG : cf1.fn.isG = true
  · simp only [hG, if_true]
    obtain ⟨h1, h2, h3, h4, h5⟩ := hB.go s1 cf1 rest (env.sem fv params extra w).1 hst hG hrt
    obtain ⟨s3, hs3, hst3, htop3, hwin3, hbel3⟩ :=
      gfunction_returns_topmost (env.goBody s1 (env.sem fv params extra w).1) cf1 rest
        (env.sem fv params extra w).1.length (env.sem fv params extra w).1 (by rw [h1, hst]) rfl h3 h4
    refine ⟨s3, by rw [hs3]; rfl, hst3, ?_, htop3, hwin3, ?_⟩
    · have : s3.maxSp = (env.goBody s1 (env.sem fv params extra w).1).maxSp := by
        simp only [gReturn, h1, hst] at hs3
        injection hs3 with hs3
        rw [← hs3]
      rw [this, h2]
    · intro j hj; rw [hbel3 j hj, h5 j hj]
  · have hG' : cf1.fn.isG = false := by simpa using hG
    simp only [hG', Bool.false_eq_true, if_false]
    obtain ⟨h1, h2, h3, h4, h5⟩ := hB.lua s1 cf1 rest (env.sem fv params extra w).1 hst hG' hrb
    obtain ⟨s3, hs3, hst3, _, htop3, hwin3, hbel3⟩ :=
      opReturn_delivers (env.luaBody s1 (env.sem fv params extra w).1).1 cf1 rest
        (env.luaBody s1 (env.sem fv params extra w).1).2.1 (env.luaBody s1 (env.sem fv params extra w).1).2.2
        (env.sem fv params extra w).1 (by rw [h1, hst]) (by omega) h3 h4
    refine ⟨s3, by rw [hs3]; rfl, hst3, ?_, htop3, hwin3, ?_⟩
    · have : s3.maxSp = (env.luaBody s1 (env.sem fv params extra w).1).1.maxSp := by
        simp only [opReturn, h1, hst] at hs3
        injection hs3 with hs3
        rw [← hs3]
      rw [this, h2]
    · intro j hj; rw [hbel3 j hj, h5 j hj]

/-- what the callee sees after `initCallFrame` is `bind` of the argument registers — for host functions,
    fixed-arity and vararg Lua functions. -/
theorem calleeView_bind (env : MEnv W) (hI : InfoWF env) (fv : OVal) (r : Reg) (RA : Nat)
    (args : List OVal) (cf0 : Frame) (hfn : cf0.fn = env.info fv) (hbase : cf0.base = RA)
    (hlb : cf0.localBase = RA + 1) (hn : cf0.nargs = args.length)
    (ha : ArgsAt r (RA + 1) args) (stack : List Frame) (maxSp : Nat) :
    calleeView { reg := (initCallFrame r cf0 0).1, stack := stack, maxSp := maxSp } (initCallFrame r cf0 0).2.1 =
      some ((bind ((env.toSEnv []).np fv) ((env.toSEnv []).va fv) args).1,
            (bind ((env.toSEnv []).np fv) ((env.toSEnv []).va fv) args).2) ∧
    (initCallFrame r cf0 0).2.1.returnBase = cf0.returnBase ∧ RA + 1 ≤ (initCallFrame r cf0 0).2.1.localBase ∧
    (initCallFrame r cf0 0).2.1.nret = cf0.nret ∧ RA ≤ (initCallFrame r cf0 0).1.top ∧
    (∀ j, j < RA + 1 → (initCallFrame r cf0 0).1.arr j = r.arr j) := by
  rw [← hlb] at ha
  by_cases hG : (env.info fv).isG = true
  · have hG0 : cf0.fn.isG = true := by rw [hfn]; exact hG
    have h := initCallFrame_binds_G r cf0 args 0 hG0 hn ha
    simp only at h
    obtain ⟨h1, h2, h3, h4⟩ := h
    refine ⟨?_, by rw [h1], by rw [h1, hlb]; exact Nat.le_refl _, by rw [h1], by rw [h2]; omega,
      fun j hj => h4 j (by omega)⟩
    simp only [calleeView, MEnv.toSEnv, h1, hG0, hG, if_true, Bool.true_or]
    rw [hn, h3, slotsVals_map_some]
    simp [Adjust.bind, adjust]
  · have hG' : (env.info fv).isG = false := by simpa using hG
    have hG0 : cf0.fn.isG = false := by rw [hfn]; exact hG'
    by_cases hva : (env.info fv).varArg = true
    · have hva0 : cf0.fn.varArg = true := by rw [hfn]; exact hva
      have h := initCallFrame_binds_vararg r cf0 args 0 hG0 hva0 (by omega) hn ha (by rw [hfn]; exact hI fv hG')
      simp only at h
      obtain ⟨h1, h2, h3, h4, _, _, h7⟩ := h
      obtain ⟨hv1, hv2, hv3, hv4⟩ := h4
      refine ⟨?_, by rw [h1], by rw [h1]; show RA + 1 ≤ cf0.localBase + _; omega, by rw [h1],
        by rw [h2]; omega, fun j hj => h7 j (by omega)⟩
      rw [h1] at hv1 hv2 hv4 ⊢
      simp only [calleeView, MEnv.toSEnv, hG0, hva0, hG', hva, Bool.false_eq_true, if_false, if_true, Bool.false_or]
      simp only [hva0, if_true] at hv2 hv4
      rw [hfn] at h3 hv2 hv4
      rw [hfn, h3, slotsVals_map_some, hv2, hv4, slotsVals_map_some]
    · have hva' : (env.info fv).varArg = false := by simpa using hva
      have hva0 : cf0.fn.varArg = false := by rw [hfn]; exact hva'
      have h := initCallFrame_binds_fixed r cf0 args 0 hG0 hva0 hn ha
      simp only at h
      obtain ⟨h1, _, h3, h4, _, h6⟩ := h
      refine ⟨?_, by rw [h1], by rw [h1, hlb]; exact Nat.le_refl _, by rw [h1], by rw [h3]; omega,
        fun j hj => h6 j (by omega)⟩
      simp only [calleeView, MEnv.toSEnv, h1, hG0, hva0, hG', hva', Bool.false_eq_true, if_false, Bool.false_or]
      rw [hfn] at h4
      rw [hfn, h4, slotsVals_map_some]
      simp [Adjust.bind]

theorem callSem_toSEnv (env : MEnv W) (x y : List OVal) (fv : OVal) (args : List OVal) (w : W) :
    callSem (env.toSEnv x) fv args w = callSem (env.toSEnv y) fv args w := rfl

/-- **OP_CALL with an abstract callee** — function value in `R[A]`, argument values `args` in the registers behind it
    (`B-1` of them, or up to `top` for `B = 0`): the callee is run on `bind` of exactly these values (`callSem`),
    the caller finds `adjust results (C-1)` from `R[A]` on (all results for `C = 0`) with `top` just above them,
    the call stack and every register below `R[A]` are as before. -/
theorem execCall_spec (env : MEnv W) (hB : BodiesOK env) (hI : InfoWF env) (extra : List OVal) (s : MS W) (cf : Frame)
    (rest : List Frame) (A B C : Nat) (fv : OVal) (args : List OVal)
    (hst : s.st.stack = cf :: rest) (hroom : s.st.stack.length < s.st.maxSp)
    (hf : s.st.reg.arr (cf.localBase + A) = some fv)
    (ha : ArgsAt s.st.reg (cf.localBase + A + 1) args)
    (hb : if B = 0 then s.st.reg.top = cf.localBase + A + 1 + args.length else args.length = B - 1) :
    ∃ s', execCall env s A B C = .ok s' ∧ s'.st.stack = s.st.stack ∧ s'.st.maxSp = s.st.maxSp ∧
      s'.done = s.done ∧ s'.heap = s.heap ∧
      s'.w = (callSem (env.toSEnv extra) fv args s.w).2 ∧
      s'.st.reg.top = cf.localBase + A + (decodeNRet C).getD (callSem (env.toSEnv extra) fv args s.w).1.length ∧
      ValsAt s'.st.reg (cf.localBase + A) ((decodeNRet C).getD (callSem (env.toSEnv extra) fv args s.w).1.length)
        (callSem (env.toSEnv extra) fv args s.w).1 ∧
      (∀ j, j < cf.localBase + A → s'.st.reg.arr j = s.st.reg.arr j) := by
  have hnargs : decodeNArgs s.st.reg.top (cf.localBase + A) B = args.length := by
    simp only [decodeNArgs]
    by_cases hb0 : B = 0
    · simp only [hb0, if_true] at hb ⊢; omega
    · simp only [hb0, if_false] at hb ⊢; omega
  -- the frame OP_CALL pushes
  obtain ⟨cf0, hcf0⟩ : ∃ cf0 : Frame, Frame.mk (env.info fv) (cf.localBase + A) (cf.localBase + A + 1)
      (cf.localBase + A) (decodeNArgs s.st.reg.top (cf.localBase + A) B) (decodeNRet C) 0 = cf0 := ⟨_, rfl⟩
  have hfn : cf0.fn = env.info fv := by rw [← hcf0]
  have hbase : cf0.base = cf.localBase + A := by rw [← hcf0]
  have hlb : cf0.localBase = cf.localBase + A + 1 := by rw [← hcf0]
  have hrb : cf0.returnBase = cf.localBase + A := by rw [← hcf0]
  have hn : cf0.nargs = args.length := by rw [← hcf0]; exact hnargs
  have hnr : cf0.nret = decodeNRet C := by rw [← hcf0]
  obtain ⟨hview, hrb1, hlb1, hnr1, htop1, hbel1⟩ :=
    calleeView_bind env hI fv s.st.reg (cf.localBase + A) args cf0 hfn hbase hlb hn ha
      ((initCallFrame s.st.reg cf0 0).2.1 :: s.st.stack) s.st.maxSp
  rw [hrb] at hrb1
  have hcall : opCall s.st A B C (env.info fv) false false 0 =
      .ok ({ s.st with reg := (initCallFrame s.st.reg cf0 0).1,
                        stack := (initCallFrame s.st.reg cf0 0).2.1 :: s.st.stack },
           (initCallFrame s.st.reg cf0 0).2.2) := by
    simp only [opCall, hst, pushCallFrame, Bool.false_eq_true, if_false]
    rw [hst] at hroom
    have hne : ¬ ((cf :: rest).length = s.st.maxSp) := by omega
    simp only [hne, if_false, Reg.get]
    rw [hcf0]
  obtain ⟨s2, hrun, hst2, hmax2, htop2, hwin2, hbel2⟩ :=
    runCallee_spec env hB fv
      { s.st with reg := (initCallFrame s.st.reg cf0 0).1, stack := (initCallFrame s.st.reg cf0 0).2.1 :: s.st.stack }
      (initCallFrame s.st.reg cf0 0).2.1 s.st.stack s.w _ _ rfl (by omega) (by rw [hrb1]; exact htop1) hview
  rw [hrb1, hnr1, hnr] at htop2 hwin2
  rw [hrb1] at hbel2
  refine ⟨{ s with st := s2, w := (callSem (env.toSEnv extra) fv args s.w).2 }, ?_, hst2, hmax2, rfl, rfl, rfl, ?_, ?_, ?_⟩
  · simp only [execCall, hst, Reg.get, hf, hcall, bind_ok]
    simp only [hst] at hrun
    rw [hrun]
    rfl
  · rw [htop2, adjust_len]; rfl
  · have := valsAt_of_adjust hwin2
    exact this
  · intro j hj
    rw [hbel2 j hj]
    exact hbel1 j (by omega)

end GLua.CallCompile
