/-
  C02, compile-time half — simulation proofs for `...`, expression lists, calls and method calls.
-/
import GLua.Proofs.CallCompileSim

namespace GLua.CallCompile
open GLua GLua.CallFrame GLua.CallFrame.Reg GLua.CallShapes GLua.Adjust GLua.CallFrame.Run

variable {W : Type}

theorem opVararg_maxSp {s s' : St} {A B : Nat} (h : opVararg s A B = .ok s') : s'.maxSp = s.maxSp := by
  simp only [opVararg] at h
  split at h
  · cases h
  · injection h with h; rw [← h]

theorem decodeNRet_toNat (v : Int) (hv : v ≥ -2) :
    decodeNRet (v + 2).toNat = if v = -2 then none else some (v + 1).toNat := by
  simp only [decodeNRet]
  by_cases h : v = -2
  · subst h; simp
  · have h1 : (v + 2).toNat ≠ 0 := by omega
    simp only [h1, h, if_false]
    congr 1; omega

/-- from "the registers hold `adjust res (C-1)`, `top` just above" (what OP_CALL / OP_VARARG leave) to the context's
    view of the producer's values `vs` (= `res`, or its first value for a parenthesised producer). -/
theorem result_of_adjusted (r : Reg) (base : Nat) (v : Int) (res : List OVal) (p : Bool) (inc : Nat)
    (hv : v ≥ -2) (hmulti : (v = -2 ∨ v ≥ 1) → p = false)
    (htop : r.top = base + (decodeNRet (v + 2).toNat).getD res.length)
    (hvals : ValsAt r base ((decodeNRet (v + 2).toNat).getD res.length) res)
    (hinc : inc = if v < -1 then 0 else (v + 1).toNat) (ex : Bool) :
    Result r base v inc (if p then [first res] else res) ex := by
  rw [decodeNRet_toNat v hv] at htop hvals
  by_cases h2 : v = -2
  · subst h2
    have hp := hmulti (Or.inl rfl)
    subst hp
    simp only [if_true, Option.getD_none] at htop hvals
    simp only [Bool.false_eq_true, if_false]
    refine ⟨by rw [hinc, htop]; simp, fun _ => ⟨htop, hvals, by rw [hinc]; simp⟩, fun h => by omega, fun _ h => by omega⟩
  · simp only [h2, if_false, Option.getD_some] at htop hvals
    have hinc' : inc = (v + 1).toNat := by rw [hinc]; simp; omega
    refine ⟨by rw [hinc', htop]; exact Nat.le_refl _, fun h => absurd h h2, fun h0 => ⟨?_, hinc'⟩, fun _ _ => htop⟩
    cases p with
    | false => exact hvals
    | true =>
      have hv0 : v = 0 := by
        by_cases h1 : v ≥ 1
        · have := hmulti (Or.inr h1); cases this
        · omega
      subst hv0
      intro i hi
      have hi0 : i = 0 := by simp at hi; omega
      subst hi0
      rw [hvals 0 (by simp)]
      simp [first_eq]

/-! ### `...` -/

theorem dots_sound (env : MEnv W) (K : List Konst) (p : Bool) : ExprSound env K (.dots p) := by
  intro rt reg ec cs cf rest loc extra s hp hctx _ hreg _ _ hinv _
  have hsr := savereg_plain hp
  obtain ⟨st', hop, hst', htop', hwin', hbel'⟩ :=
    vararg_spec s.st cf rest reg (2 + ec.varargopt).toNat extra hinv.stack hinv.vframe
  have hmax := opVararg_maxSp hop
  have hcomm : 2 + ec.varargopt = ec.varargopt + 2 := by omega
  have hcode : (compExpr rt (.dots p) reg ec cs).code = [.vararg reg (2 + ec.varargopt).toNat] := by
    simp only [compExpr, compDots, hsr, Nat.lt_irrefl, if_false]; split <;> rfl
  have hinc : (compExpr rt (.dots p) reg ec cs).inc = if ec.varargopt < -1 then 0 else (ec.varargopt + 1).toNat := by
    have hcond : ((rt : Int) > (reg : Int) + 2 + ec.varargopt ∨ ec.varargopt < -1) ↔ ec.varargopt < -1 :=
      ⟨fun h => by rcases h with h | h <;> omega, Or.inr⟩
    simp only [compExpr, compDots, hsr, Nat.lt_irrefl, if_false, hcond]
    split
    · rfl
    · show ((reg : Int) + 1 + ec.varargopt - (reg : Int)).toNat = _
      congr 1; omega
  rw [hcode, hinc]
  refine ⟨{ s with st := st' }, Runs.single hinv.notDone (by simp [step, hinv.stack, hop]),
    ⟨hst', hmax, rfl, hbel', by rw [htop']; omega⟩, rfl, ?_⟩
  simp only [evalMulti, MEnv.toSEnv]
  rw [adjust_len] at htop'
  have hvals := valsAt_of_adjust hwin'
  rw [hcomm] at htop' hvals
  exact result_of_adjusted st'.reg (cf.localBase + reg) ec.varargopt extra p _ hctx.1
    (fun h => by have := hctx.2 h; simpa [Ex.isMulti] using this) htop' hvals rfl _

/-! ### expression lists -/

theorem list_nil_sound (env : MEnv W) (K : List Konst) : ListSound env K [] := by
  intro rt reg cs cf rest loc extra s _ _ _ _ _ htop
  refine ⟨s, Runs.nil env K s, Step.refl s _ htop, rfl, fun i hi => by simp [evalList] at hi, ?_⟩
  simp only [compList, evalList, Bool.false_eq_true, if_false, List.length_nil, Nat.add_zero]
  exact ⟨trivial, trivial, htop⟩

theorem list_cons_sound (env : MEnv W) (K : List Konst) (e : Ex) (es : List Ex)
    (ihe : ExprSound env K e) (ihs : ListSound env K es) : ListSound env K (e :: es) := by
  intro rt reg cs cf rest loc extra s hsc hreg hK hfits hinv htop
  simp only [scopedL, Bool.and_eq_true] at hsc
  by_cases hm : (es.isEmpty && e.isMulti) = true
  · -- an open-ended last producer
    simp only [compList, hm, if_true] at hK hfits ⊢
    simp only [evalList, hm, if_true]
    obtain ⟨s', hrun, hstep, hσ, hres⟩ := ihe rt reg (ecnone (-2)) cs cf rest loc extra s (plain_ecnone _ _)
      ⟨by decide, fun _ => by simp only [Bool.and_eq_true] at hm; exact hm.2⟩ hsc.1 hreg hK hfits hinv htop
    obtain ⟨_, h2, _, _⟩ := hres
    obtain ⟨h2a, h2b, _⟩ := h2 rfl
    exact ⟨s', hrun, hstep, hσ, h2b, h2a⟩
  · simp only [compList, hm, Bool.false_eq_true, if_false] at hK hfits ⊢
    simp only [evalList, hm, Bool.false_eq_true, if_false]
    obtain ⟨r, hr⟩ : ∃ r, compExpr rt e reg (ecnone 0) cs = r := ⟨_, rfl⟩
    rw [hr] at hK hfits ⊢
    obtain ⟨rs, hrs⟩ : ∃ rs, compList rt es (reg + r.inc) r.cs = rs := ⟨_, rfl⟩
    rw [hrs] at hK hfits ⊢
    rw [fits_append] at hfits
    have hK1 : r.cs.consts <+: K := by
      have := compList_mono rt es (reg + r.inc) r.cs
      rw [hrs] at this
      exact this.trans hK
    obtain ⟨s1, hrun1, hstep1, hσ1, hres1⟩ := ihe rt reg (ecnone 0) cs cf rest loc extra s (plain_ecnone _ _)
      ⟨by decide, fun h => by rcases h with h | h <;> (simp only [ecnone] at h; omega)⟩ hsc.1 hreg
      (by rw [hr]; exact hK1) (by rw [hr]; exact hfits.1) hinv htop
    rw [hr] at hrun1 hres1
    obtain ⟨ht1, _, h0, _⟩ := hres1
    obtain ⟨hv1, hinc1⟩ := h0 (by simp [ecnone])
    simp only [ecnone] at hinc1 hv1
    have hinc1' : r.inc = 1 := by rw [hinc1]; rfl
    rw [hinc1'] at hrs ht1
    have hinv1 := hinv.step hstep1 (by omega)
    obtain ⟨s2, hrun2, hstep2, hσ2, hv2, hlast2⟩ := ihs rt (reg + 1) r.cs cf rest loc extra s1 hsc.2 (by omega)
      (by rw [hrs]; exact hK) (by rw [hrs]; exact hfits.2) hinv1 (by omega)
    rw [hrs] at hrun2 hlast2
    rw [hσ1] at hσ2 hv2 hlast2
    refine ⟨s2, Runs.append hrun1 hrun2, hstep1.trans (by rw [← Nat.add_assoc] at hstep2; exact hstep2) (by omega),
      hσ2, ?_, ?_⟩
    · intro i hi
      simp only [List.length_cons] at hi
      cases i with
      | zero =>
        rw [Nat.add_zero, hstep2.below _ (by omega)]
        have := hv1 0 (by decide)
        rw [Nat.add_zero] at this
        rw [this]; simp [first_eq]
      | succ k =>
        have := hv2 k (by omega)
        rw [show cf.localBase + (reg + 1) + k = cf.localBase + reg + (k + 1) by omega] at this
        rw [this]; simp
    · by_cases hl : rs.lastMulti = true
      · simp only [hl, if_true] at hlast2 ⊢
        rw [hlast2]; simp only [List.length_cons]; omega
      · simp only [hl, Bool.false_eq_true, if_false] at hlast2 ⊢
        obtain ⟨h1, h2, h3⟩ := hlast2
        simp only [List.length_cons]
        exact ⟨by omega, by omega, by omega⟩

/-! ### calls -/

theorem finishCall_plain (rt funcreg argc : Nat) (lv : Bool) (ec : ExpCtx) (code : List Instr) (cs : CState)
    (hp : Plain ec funcreg) (hrt : rt ≤ funcreg) (hv : ec.varargopt ≥ -2) :
    (finishCall rt funcreg argc lv ec code cs).code =
      code ++ [.call funcreg (if lv then 0 else argc + 1) (ec.varargopt + 2).toNat] ∧
    (finishCall rt funcreg argc lv ec code cs).inc = if ec.varargopt < -1 then 0 else (ec.varargopt + 1).toNat := by
  have hcond : ((rt : Int) > (funcreg : Int) + 2 + ec.varargopt ∨ ec.varargopt < -1) ↔ ec.varargopt < -1 :=
    ⟨fun h => by rcases h with h | h <;> omega, Or.inr⟩
  simp only [finishCall, shouldmove_plain hp, Bool.false_eq_true, and_false, if_false, hcond]
  split <;> exact ⟨rfl, rfl⟩

/-- the OP_CALL at the end of a compiled call: function value in `R[reg]`, argument values behind it. -/
theorem call_instr_sound (env : MEnv W) (hB : BodiesOK env) (hI : InfoWF env) (K : List Konst)
    (cf : Frame) (rest : List Frame) (rt : Nat) (loc : Nat → OVal) (extra : List OVal) (s : MS W)
    (reg : Nat) (lv : Bool) (argc : Nat) (v : Int) (fv : OVal) (avs : List OVal) (p : Bool) (inc : Nat)
    (hinv : Inv cf rest rt loc extra s) (hv : v ≥ -2) (hmulti : (v = -2 ∨ v ≥ 1) → p = false)
    (hf : s.st.reg.arr (cf.localBase + reg) = some fv)
    (hargs : ValsAt s.st.reg (cf.localBase + reg + 1) avs.length avs)
    (hlast : if lv then s.st.reg.top = cf.localBase + reg + 1 + avs.length
             else avs.length = argc ∧ cf.localBase + reg + 1 + argc ≤ s.st.reg.top)
    (hinc : inc = if v < -1 then 0 else (v + 1).toNat) :
    ∃ s', Runs env K [.call reg (if lv then 0 else argc + 1) (v + 2).toNat] s s' ∧ Step s s' (cf.localBase + reg) ∧
      s'.σ = ⟨(callSem (env.toSEnv extra) fv avs s.w).2, s.heap⟩ ∧
      Result s'.st.reg (cf.localBase + reg) v inc
        (if p then [first (callSem (env.toSEnv extra) fv avs s.w).1] else (callSem (env.toSEnv extra) fv avs s.w).1) true := by
  obtain ⟨s', hex, hst', hmax', hdone', hheap', hw', htop', hvals', hbel'⟩ :=
    execCall_spec env hB hI extra s cf rest reg (if lv then 0 else argc + 1) (v + 2).toNat fv avs hinv.stack hinv.room hf
      ⟨by cases lv <;> simp at hlast <;> omega, hargs⟩
      (by cases lv <;> simp at hlast ⊢ <;> omega)
  refine ⟨s', Runs.single hinv.notDone (by simp [step, hinv.stack, hex]),
    ⟨hst', hmax', hdone', hbel', by rw [htop']; omega⟩, ?_, ?_⟩
  · simp only [MS.σ, hw', hheap']
  · exact result_of_adjusted s'.st.reg (cf.localBase + reg) v _ p inc hv hmulti htop' hvals' hinc true

/-- the state just before the OP_CALL of a compiled call `e`: the code is `pre` followed by that OP_CALL; after `pre`
    the function value `fv` is in `R[reg]` and the argument values `avs` behind it; the Spec's evaluation of `e` is
    "call `fv` with `avs` in that world" (`callSem`). -/
def CallReady (env : MEnv W) (K : List Konst) (cf : Frame) (rest : List Frame) (rt : Nat) (loc : Nat → OVal)
    (extra : List OVal) (s : MS W) (e : Ex) (reg : Nat) (v : Int) (code : List Instr) (inc : Nat) : Prop :=
  ∃ (pre : List Instr) (lv : Bool) (argc : Nat) (s2 : MS W) (fv : OVal) (avs : List OVal),
    code = pre ++ [.call reg (if lv then 0 else argc + 1) (v + 2).toNat] ∧
    inc = (if v < -1 then 0 else (v + 1).toNat) ∧
    Runs env K pre s s2 ∧ Step s s2 (cf.localBase + reg) ∧ Inv cf rest rt loc extra s2 ∧
    s2.st.reg.arr (cf.localBase + reg) = some fv ∧
    ValsAt s2.st.reg (cf.localBase + reg + 1) avs.length avs ∧
    (if lv then s2.st.reg.top = cf.localBase + reg + 1 + avs.length
     else avs.length = argc ∧ cf.localBase + reg + 1 + argc ≤ s2.st.reg.top) ∧
    evalMulti (env.toSEnv extra) loc e s.σ =
      (if e.paren then [first (callSem (env.toSEnv extra) fv avs s2.w).1] else (callSem (env.toSEnv extra) fv avs s2.w).1,
       ⟨(callSem (env.toSEnv extra) fv avs s2.w).2, s2.heap⟩)

/-- from the state before the OP_CALL to the context's view of the call's results -/
theorem call_finish (env : MEnv W) (hB : BodiesOK env) (hI : InfoWF env) (K : List Konst)
    (cf : Frame) (rest : List Frame) (rt : Nat) (loc : Nat → OVal) (extra : List OVal) (s : MS W) (e : Ex) (reg : Nat)
    (v : Int) (code : List Instr) (inc : Nat) (hcall : e.isCall = true) (hctx : CtxOK e v)
    (h : CallReady env K cf rest rt loc extra s e reg v code inc) :
    ∃ s', Runs env K code s s' ∧ Step s s' (cf.localBase + reg) ∧
      s'.σ = (evalMulti (env.toSEnv extra) loc e s.σ).2 ∧
      Result s'.st.reg (cf.localBase + reg) v inc (evalMulti (env.toSEnv extra) loc e s.σ).1 e.isCall := by
  obtain ⟨pre, lv, argc, s2, fv, avs, hcode, hinc, hrun, hstep, hinv2, hf, hargs, hlast, hspec⟩ := h
  have hmulti : (v = -2 ∨ v ≥ 1) → e.paren = false := by
    intro hv
    have := hctx.2 hv
    cases e <;> simp_all [Ex.isMulti, Ex.paren, Ex.isCall]
  obtain ⟨s3, hrun3, hstep3, hσ3, hres3⟩ :=
    call_instr_sound env hB hI K cf rest rt loc extra s2 reg lv argc v fv avs e.paren inc hinv2 hctx.1 hmulti hf hargs
      hlast hinc
  rw [hcode, hspec, hcall]
  exact ⟨s3, Runs.append hrun hrun3, hstep.trans' hstep3 (Nat.le_refl _), hσ3, hres3⟩

theorem call_ready (env : MEnv W) (K : List Konst) (p : Bool) (f : Ex)
    (args : List Ex) (ihf : ExprSound env K f) (iha : ListSound env K args)
    (rt reg : Nat) (ec : ExpCtx) (cs : CState) (cf : Frame) (rest : List Frame) (loc : Nat → OVal)
    (extra : List OVal) (s : MS W)
    (hp : Plain ec reg) (hctx : CtxOK (.call p f args) ec.varargopt) (hsc : (Ex.call p f args).scoped rt = true)
    (hreg : rt ≤ reg) (hK : (compExpr rt (.call p f args) reg ec cs).cs.consts <+: K)
    (hfits : Fits (compExpr rt (.call p f args) reg ec cs).code)
    (hinv : Inv cf rest rt loc extra s) (htop : cf.localBase + reg ≤ s.st.reg.top) :
    CallReady env K cf rest rt loc extra s (.call p f args) reg ec.varargopt
      (compExpr rt (.call p f args) reg ec cs).code (compExpr rt (.call p f args) reg ec cs).inc := by
  simp only [Ex.scoped, Bool.and_eq_true] at hsc
  obtain ⟨r1, hr1⟩ : ∃ r1, compExpr rt f reg (ecnone 0) cs = r1 := ⟨_, rfl⟩
  obtain ⟨r2, hr2⟩ : ∃ r2, compList rt args (reg + r1.inc) r1.cs = r2 := ⟨_, rfl⟩
  have hc : compExpr rt (.call p f args) reg ec cs =
      finishCall rt reg args.length r2.lastMulti ec (r1.code ++ r2.code) r2.cs := by
    simp only [compExpr, hr1, hr2]
  obtain ⟨hcode, hinc⟩ := finishCall_plain rt reg args.length r2.lastMulti ec (r1.code ++ r2.code) r2.cs hp hreg hctx.1
  rw [hc] at hK hfits ⊢
  rw [hcode] at hfits ⊢
  rw [hinc]
  rw [finishCall_consts] at hK
  rw [fits_append, fits_append] at hfits
  have hK1 : r1.cs.consts <+: K := by
    have := compList_mono rt args (reg + r1.inc) r1.cs
    rw [hr2] at this
    exact this.trans hK
  -- the function value
  obtain ⟨s1, hrun1, hstep1, hσ1, hres1⟩ := ihf rt reg (ecnone 0) cs cf rest loc extra s (plain_ecnone _ _)
    ⟨by decide, fun h => by rcases h with h | h <;> (simp only [ecnone] at h; omega)⟩ hsc.1 hreg
    (by rw [hr1]; exact hK1) (by rw [hr1]; exact hfits.1.1) hinv htop
  rw [hr1] at hrun1 hres1
  obtain ⟨ht1, _, h0, _⟩ := hres1
  obtain ⟨hv1, hinc1⟩ := h0 (by simp [ecnone])
  simp only [ecnone] at hinc1 hv1
  have hinc1' : r1.inc = 1 := by rw [hinc1]; rfl
  rw [hinc1'] at hr2 ht1
  have hinv1 := hinv.step hstep1 (by omega)
  -- the arguments
  obtain ⟨s2, hrun2, hstep2, hσ2, hv2, hlast2⟩ := iha rt (reg + 1) r1.cs cf rest loc extra s1 hsc.2 (by omega)
    (by rw [hr2]; exact hK) (by rw [hr2]; exact hfits.1.2) hinv1 (by omega)
  rw [hr2] at hrun2 hlast2
  rw [← Nat.add_assoc] at hstep2 hv2 hlast2
  have hinv2 := hinv1.step hstep2 (by omega)
  have hf2 : s2.st.reg.arr (cf.localBase + reg) = some (first (evalMulti (env.toSEnv extra) loc f s.σ).1) := by
    rw [hstep2.below _ (by omega)]
    have := hv1 0 (by decide)
    rw [Nat.add_zero] at this
    rw [this]; simp [first_eq]
  refine ⟨r1.code ++ r2.code, r2.lastMulti, args.length, s2, _, _, rfl, rfl, Runs.append hrun1 hrun2,
    hstep1.trans hstep2 (by omega), hinv2, hf2, hv2, ?_, ?_⟩
  · cases hl : r2.lastMulti <;> simp only [hl, Bool.false_eq_true, if_false, if_true] at hlast2 ⊢
    · exact ⟨hlast2.1, by omega⟩
    · exact hlast2
  · simp only [evalMulti, Ex.paren]
    rw [← hσ1, ← hσ2]
    rfl

theorem call_sound (env : MEnv W) (hB : BodiesOK env) (hI : InfoWF env) (K : List Konst) (p : Bool) (f : Ex)
    (args : List Ex) (ihf : ExprSound env K f) (iha : ListSound env K args) : ExprSound env K (.call p f args) := by
  intro rt reg ec cs cf rest loc extra s hp hctx hsc hreg hK hfits hinv htop
  exact call_finish env hB hI K cf rest rt loc extra s _ reg ec.varargopt _ _ rfl hctx
    (call_ready env K p f args ihf iha rt reg ec cs cf rest loc extra s hp hctx hsc hreg hK hfits hinv htop)

end GLua.CallCompile
