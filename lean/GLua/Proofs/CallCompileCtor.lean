/-
  C02 — Spec-side reading of a constructor's store log: evaluating the fields of the table being built appends to
  its positional log exactly `posStores n vs` — the values under the consecutive indices n+1, n+2, … in order, each
  index once — whatever nested producers do (they only touch tables allocated later).
-/
import GLua.Proofs.CallCompileTop

namespace GLua.CallCompile
open GLua GLua.CallFrame GLua.CallShapes GLua.Adjust

variable {W : Type}

theorem modifyAt_get_self (h : List TLog) (tid : Nat) (f : TLog → TLog) : (modifyAt h tid f)[tid]? = (h[tid]?).map f := by
  induction h generalizing tid with
  | nil => simp [modifyAt]
  | cons t r ih => cases tid <;> simp [modifyAt, ih]

theorem modifyAt_get_ne (h : List TLog) (tid i : Nat) (f : TLog → TLog) (hne : i ≠ tid) : (modifyAt h tid f)[i]? = h[i]? := by
  induction h generalizing tid i with
  | nil => simp [modifyAt]
  | cons t r ih =>
    cases tid with
    | zero => cases i with
      | zero => exact absurd rfl hne
      | succ k => simp [modifyAt]
    | succ j => cases i with
      | zero => simp [modifyAt]
      | succ k => simp only [modifyAt, List.getElem?_cons_succ]; exact ih j k (by omega)

theorem modifyAt_const_self (h : List TLog) (tid : Nat) (c : TLog) (hc : h[tid]? = some c) : modifyAt h tid (fun _ => c) = h := by
  induction h generalizing tid with
  | nil => rfl
  | cons t r ih =>
    cases tid with
    | zero => simp at hc; simp [modifyAt, hc]
    | succ k => simp only [modifyAt]; rw [ih k (by simpa using hc)]

/-- evaluating a producer does not touch the tables that exist already -/
theorem evalMulti_keeps (env : SEnv W) (loc : Nat → OVal) (e : Ex) (σ : SState W) (tid : Nat) (h : tid < σ.heap.length) :
    (evalMulti env loc e σ).2.heap[tid]? = σ.heap[tid]? ∧ σ.heap.length ≤ (evalMulti env loc e σ).2.heap.length := by
  obtain ⟨c, hc⟩ : ∃ c, σ.heap[tid]? = some c := ⟨σ.heap[tid], by simp [h]⟩
  have hσ : σ.mod tid (fun _ => c) = σ := by
    simp only [SState.mod]; rw [modifyAt_const_self _ _ _ hc]
  obtain ⟨h1, h2⟩ := evalMulti_mod env loc tid (fun _ => c) e σ h
  rw [hσ] at h1
  refine ⟨?_, h2⟩
  have h3 : (evalMulti env loc e σ).2 = (evalMulti env loc e σ).2.mod tid (fun _ => c) := by
    have := congrArg Prod.snd h1; exact this
  rw [h3, hc]
  simp only [SState.mod, modifyAt_get_self]
  have : tid < (evalMulti env loc e σ).2.heap.length := by omega
  simp [this]

/-- the store logs of the table under construction after its field list -/
theorem evalFields_log (env : SEnv W) (loc : Nat → OVal) (tid : Nat) : ∀ (es : List Ex) (keys : List (Option Key)) (n : Nat)
    (σ : SState W), tid < σ.heap.length →
    ∃ (vs : List OVal) (ks : List (OVal × OVal)),
      (evalFields env loc tid keys es n σ).heap[tid]? =
        (σ.heap[tid]?).map (fun t => { arr := t.arr ++ posStores n vs, keyed := t.keyed ++ ks })
  | [], keys, n, σ, h => ⟨[], [], by
      simp only [evalFields, posStores_nil, List.append_nil]
      cases σ.heap[tid]? <;> rfl⟩
  | e :: es, keys, n, σ, h => by
    obtain ⟨hk1, hk2⟩ := evalMulti_keeps env loc e σ tid h
    simp only [evalFields]
    split
    · rename_i k _
      obtain ⟨vs, ks, hrec⟩ := evalFields_log env loc tid es keys.tail n
        (storeKeyed (evalMulti env loc e σ).2 tid k.val (first (evalMulti env loc e σ).1))
        (by simp [storeKeyed]; omega)
      refine ⟨vs, (k.val, first (evalMulti env loc e σ).1) :: ks, ?_⟩
      rw [hrec]
      simp only [storeKeyed, modifyAt_get_self, hk1]
      cases σ.heap[tid]? <;> simp
    · split
      · refine ⟨(evalMulti env loc e σ).1, [], ?_⟩
        simp only [storePos, modifyAt_get_self, hk1, List.append_nil]
      · obtain ⟨vs, ks, hrec⟩ := evalFields_log env loc tid es keys.tail (n + 1)
          (storePos (evalMulti env loc e σ).2 tid n [first (evalMulti env loc e σ).1]) (by simp [storePos]; omega)
        refine ⟨first (evalMulti env loc e σ).1 :: vs, ks, ?_⟩
        rw [hrec]
        simp only [storePos, modifyAt_get_self, hk1]
        have : posStores n (first (evalMulti env loc e σ).1 :: vs) =
            posStores n [first (evalMulti env loc e σ).1] ++ posStores (n + 1) vs := by
          have := posStores_append n [first (evalMulti env loc e σ).1] vs
          simpa using this
        rw [this]
        cases σ.heap[tid]? <;> simp [List.append_assoc]

/-- **the new table of a constructor**: its positional log is `posStores 0 vs` = `[(1, v1), (2, v2), …]` -/
theorem tbl_log (env : SEnv W) (loc : Nat → OVal) (keys : List (Option Key)) (vals : List Ex) (σ : SState W) :
    ∃ (vs : List OVal) (ks : List (OVal × OVal)),
      (evalMulti env loc (.tbl keys vals) σ).2.heap[σ.heap.length]? = some { arr := posStores 0 vs, keyed := ks } := by
  obtain ⟨vs, ks, h⟩ := evalFields_log env loc σ.heap.length vals keys 0 { σ with heap := σ.heap ++ [{}] } (by simp)
  refine ⟨vs, ks, ?_⟩
  simp only [evalMulti]
  rw [h]
  simp

end GLua.CallCompile
