/-
  C02, compile-time half — constructors as producers, and the simulation theorem for EVERY producer, expression list
  and field list (mutual structural recursion over the syntax: any nesting depth, any list length).
-/
import GLua.Proofs.CallCompileTable

namespace GLua.CallCompile
open GLua GLua.CallFrame GLua.CallFrame.Reg GLua.CallShapes GLua.Adjust GLua.CallFrame.Run

variable {W : Type}

theorem tbl_sound (env : MEnv W) (K : List Konst) (keys : List (Option Key)) (vals : List Ex)
    (ihf : FieldsSound env K vals) : ExprSound env K (.tbl keys vals) := by
  intro rt reg ec cs cf rest loc extra s hp hctx hsc hreg hK hfits hinv htop
  have hm : (Ex.tbl keys vals).isMulti = false := rfl
  obtain ⟨r, hr⟩ : ∃ r, compFields rt reg (reg + 1) keys vals (reg + 1) 0 cs = r := ⟨_, rfl⟩
  have hc : compExpr rt (.tbl keys vals) reg ec cs =
      ⟨[Instr.newtable reg (int2Fb r.arraycount) (int2Fb (vals.length - r.arraycount))] ++ r.code, r.cs, 1⟩ := by
    simp only [compExpr, hr, shouldmove_plain hp, Bool.false_eq_true, if_false]
  rw [hc] at hK hfits ⊢
  rw [fits_append] at hfits
  simp only [Ex.scoped] at hsc
  -- OP_NEWTABLE
  obtain ⟨s1, hs1⟩ : ∃ s1 : MS W, s1 = { s with
      st := { s.st with reg := s.st.reg.set (cf.localBase + reg) (some (some (.ref s.heap.length))) },
      heap := s.heap ++ [{}] } := ⟨_, rfl⟩
  have hrun1 : Runs env K [Instr.newtable reg (int2Fb r.arraycount) (int2Fb (vals.length - r.arraycount))] s s1 := by
    apply Runs.single hinv.notDone
    simp [step, hinv.stack, hs1]
  have hstep1 : Step s s1 (cf.localBase + reg) := by
    rw [hs1]
    refine ⟨rfl, rfl, rfl, fun j hj => set_arr_ne _ _ _ _ (by omega), ?_⟩
    have := set_top_gt s.st.reg (cf.localBase + reg) (some (some (.ref s.heap.length)))
    simp only; omega
  have htop1 : cf.localBase + (reg + 1) ≤ s1.st.reg.top := by
    rw [hs1]; have := set_top_gt s.st.reg (cf.localBase + reg) (some (some (.ref s.heap.length))); simp only; omega
  have ht1 : s1.st.reg.arr (cf.localBase + reg) = some (some (.ref s.heap.length)) := by
    rw [hs1]; exact set_arr_self _ _ _
  have hinv1 := hinv.step hstep1 (by omega)
  -- the fields
  obtain ⟨s2, hrun2, hstep2, hσ2⟩ := ihf rt reg keys (reg + 1) 0 cs cf rest loc extra s1 s.heap.length [] hsc hreg
    (by rw [hr]; exact hK) (by rw [hr]; exact hfits.2) hinv1 rfl (fun _ => rfl) (fun _ => rfl) htop1 ht1
    (by rw [hs1]; simp) (fun i hi => by simp at hi)
  rw [hr] at hrun2
  refine ⟨s2, Runs.append hrun1 hrun2, hstep1.trans hstep2 (by omega), ?_, ?_⟩
  · rw [hσ2, posStores_nil, mod_addArr_nil, hs1]
    simp only [evalMulti]
    rfl
  · simp only [evalMulti]
    refine ⟨by have := hstep2.top; omega, fun h2 => ?_, fun h0 => ?_, fun h => by cases h⟩
    · have := hctx.2 (Or.inl h2); rw [hm] at this; cases this
    · have hv0 : ec.varargopt = 0 := by
        by_cases h : ec.varargopt ≥ 1
        · have := hctx.2 (Or.inr h); rw [hm] at this; cases this
        · omega
      rw [hv0]
      refine ⟨?_, rfl⟩
      intro i hi
      have hi0 : i = 0 := by simp at hi; omega
      subst hi0
      rw [Nat.add_zero, hstep2.below _ (by omega), ht1]
      rfl

mutual
/-- **every producer** (any nesting depth) -/
theorem exprSound (env : MEnv W) (hB : BodiesOK env) (hI : InfoWF env) (K : List Konst) : ∀ e : Ex, ExprSound env K e
  | .atom a => atom_sound env K a
  | .dots p => dots_sound env K p
  | .call p f args => call_sound env hB hI K p f args (exprSound env hB hI K f) (listSound env hB hI K args)
  | .mcall p r m args => mcall_sound env hB hI K p r m args (exprSound env hB hI K r) (listSound env hB hI K args)
  | .tbl keys vals => tbl_sound env K keys vals (fieldsSound env hB hI K vals)
/-- **every expression list** (any length) -/
theorem listSound (env : MEnv W) (hB : BodiesOK env) (hI : InfoWF env) (K : List Konst) : ∀ es : List Ex, ListSound env K es
  | [] => list_nil_sound env K
  | e :: es => list_cons_sound env K e es (exprSound env hB hI K e) (listSound env hB hI K es)
/-- **every field list** (any length, every batch boundary) -/
theorem fieldsSound (env : MEnv W) (hB : BodiesOK env) (hI : InfoWF env) (K : List Konst) :
    ∀ es : List Ex, FieldsSound env K es
  | [] => fields_nil_sound env K
  | e :: es => fields_cons_sound env K e es (exprSound env hB hI K e) (fieldsSound env hB hI K es)
end

end GLua.CallCompile
