/-
  C02, compile-time half — the table heap: `modifyAt` algebra, positional store lists, and the FRAME property of the
  Spec evaluation: stores pending for a table that already exists commute with the evaluation of any producer
  (evaluation only appends new tables and writes to those).  Used for constructors, where the machine keeps up to
  `FieldsPerFlush` positional values in registers before it stores them with one OP_SETLIST.
-/
import GLua.Proofs.CallCompileMethod

namespace GLua.CallCompile
open GLua GLua.CallFrame GLua.CallFrame.Reg GLua.CallShapes GLua.Adjust GLua.CallFrame.Run

variable {W : Type}

/-! ### modifyAt -/

@[simp] theorem modifyAt_length (h : List TLog) (tid : Nat) (f : TLog → TLog) : (modifyAt h tid f).length = h.length := by
  induction h generalizing tid with
  | nil => rfl
  | cons t r ih => cases tid <;> simp [modifyAt, ih]

theorem modifyAt_append_lt (h x : List TLog) (tid : Nat) (f : TLog → TLog) (hlt : tid < h.length) :
    modifyAt (h ++ x) tid f = modifyAt h tid f ++ x := by
  induction h generalizing tid with
  | nil => simp at hlt
  | cons t r ih =>
    cases tid with
    | zero => rfl
    | succ k => simp only [List.cons_append, modifyAt]; rw [ih k (by simpa using hlt)]

theorem modifyAt_comm (h : List TLog) (t1 t2 : Nat) (f g : TLog → TLog) (hne : t1 ≠ t2) :
    modifyAt (modifyAt h t1 f) t2 g = modifyAt (modifyAt h t2 g) t1 f := by
  induction h generalizing t1 t2 with
  | nil => rfl
  | cons t r ih =>
    cases t1 with
    | zero =>
      cases t2 with
      | zero => exact absurd rfl hne
      | succ k => rfl
    | succ j =>
      cases t2 with
      | zero => rfl
      | succ k => simp only [modifyAt]; rw [ih j k (by omega)]

theorem modifyAt_modifyAt (h : List TLog) (tid : Nat) (f g : TLog → TLog) :
    modifyAt (modifyAt h tid f) tid g = modifyAt h tid (fun t => g (f t)) := by
  induction h generalizing tid with
  | nil => rfl
  | cons t r ih => cases tid <;> simp [modifyAt, ih]

theorem modifyAt_id (h : List TLog) (tid : Nat) (f : TLog → TLog) (hf : ∀ t, f t = t) : modifyAt h tid f = h := by
  induction h generalizing tid with
  | nil => rfl
  | cons t r ih => cases tid <;> simp [modifyAt, ih, hf]

/-- `f` applied to table `tid` of the state -/
def _root_.GLua.CallShapes.SState.mod (σ : SState W) (tid : Nat) (f : TLog → TLog) : SState W := { σ with heap := modifyAt σ.heap tid f }

@[simp] theorem mod_heap_length (σ : SState W) (tid : Nat) (f : TLog → TLog) :
    (σ.mod tid f).heap.length = σ.heap.length := by simp [SState.mod]

@[simp] theorem mod_w (σ : SState W) (tid : Nat) (f : TLog → TLog) : (σ.mod tid f).w = σ.w := rfl

/-- appending positional stores to a table's log -/
def addArr (l : List (Int × OVal)) : TLog → TLog := fun t => { t with arr := t.arr ++ l }
def addKeyed (k v : OVal) : TLog → TLog := fun t => { t with keyed := t.keyed ++ [(k, v)] }

theorem storePos_eq (σ : SState W) (tid n : Nat) (vs : List OVal) :
    storePos σ tid n vs = σ.mod tid (addArr (posStores n vs)) := rfl

theorem storeKeyed_eq (σ : SState W) (tid : Nat) (k v : OVal) : storeKeyed σ tid k v = σ.mod tid (addKeyed k v) := rfl

theorem mod_mod (σ : SState W) (tid : Nat) (f g : TLog → TLog) : (σ.mod tid f).mod tid g = σ.mod tid (fun t => g (f t)) := by
  simp only [SState.mod, modifyAt_modifyAt]

theorem mod_comm (σ : SState W) (t1 t2 : Nat) (f g : TLog → TLog) (hne : t1 ≠ t2) :
    (σ.mod t1 f).mod t2 g = (σ.mod t2 g).mod t1 f := by
  simp only [SState.mod, modifyAt_comm _ _ _ _ _ hne]

theorem addArr_addArr (a b : List (Int × OVal)) : (fun t => addArr b (addArr a t)) = addArr (a ++ b) := by
  funext t; simp [addArr, List.append_assoc]

theorem addKeyed_addArr (a : List (Int × OVal)) (k v : OVal) :
    (fun t => addKeyed k v (addArr a t)) = (fun t => addArr a (addKeyed k v t)) := by
  funext t; rfl

theorem mod_addArr_nil (σ : SState W) (tid : Nat) : σ.mod tid (addArr []) = σ := by
  simp only [SState.mod]
  rw [modifyAt_id _ _ _ (by intro t; simp [addArr])]

theorem posStores_nil (n : Nat) : posStores n [] = [] := rfl

theorem posStores_append (n : Nat) (a b : List OVal) :
    posStores n (a ++ b) = posStores n a ++ posStores (n + a.length) b := by
  simp only [posStores, List.length_append, List.range_add, List.map_append, List.map_map]
  congr 1
  · apply List.map_congr_left
    intro i hi
    simp only [List.mem_range] at hi
    simp [List.getElem?_append_left hi]
  · apply List.map_congr_left
    intro i _
    simp only [Function.comp]
    have : (a ++ b)[a.length + i]? = b[i]? := by
      rw [List.getElem?_append_right (by omega)]; simp
    rw [this]
    congr 2
    omega

/-! ### the frame property of the Spec evaluation -/

mutual
theorem evalMulti_mod (env : SEnv W) (loc : Nat → OVal) (tid : Nat) (f : TLog → TLog) : ∀ (e : Ex) (σ : SState W),
    tid < σ.heap.length →
    evalMulti env loc e (σ.mod tid f) = ((evalMulti env loc e σ).1, (evalMulti env loc e σ).2.mod tid f) ∧
    σ.heap.length ≤ (evalMulti env loc e σ).2.heap.length
  | .atom a, σ, _ => by simp [evalMulti, SState.mod]
  | .dots p, σ, _ => by simp [evalMulti, SState.mod]
  | .call p fn args, σ, h => by
    obtain ⟨h1, h1'⟩ := evalMulti_mod env loc tid f fn σ h
    obtain ⟨h2, h2'⟩ := evalList_mod env loc tid f args (evalMulti env loc fn σ).2 (by omega)
    simp only [evalMulti, h1, h2]
    exact ⟨rfl, by omega⟩
  | .mcall p recv m args, σ, h => by
    obtain ⟨h1, h1'⟩ := evalMulti_mod env loc tid f recv σ h
    obtain ⟨h2, h2'⟩ := evalList_mod env loc tid f args (evalMulti env loc recv σ).2 (by omega)
    simp only [evalMulti, h1, h2]
    exact ⟨rfl, by omega⟩
  | .tbl keys vals, σ, h => by
    have hne : σ.heap.length ≠ tid := by omega
    have hlen : (σ.mod tid f).heap.length = σ.heap.length := by simp [SState.mod]
    have hext : ({ σ.mod tid f with heap := (σ.mod tid f).heap ++ [{}] } : SState W) =
        ({ σ with heap := σ.heap ++ [{}] } : SState W).mod tid f := by
      simp only [SState.mod]
      rw [modifyAt_append_lt _ _ _ _ h]
    obtain ⟨h3, h3'⟩ := evalFields_mod env loc tid f vals keys 0 σ.heap.length
      ({ σ with heap := σ.heap ++ [{}] } : SState W) (by simp; omega) hne
    simp only [evalMulti, hlen, hext, h3]
    exact ⟨trivial, by simp at h3'; omega⟩
theorem evalList_mod (env : SEnv W) (loc : Nat → OVal) (tid : Nat) (f : TLog → TLog) : ∀ (es : List Ex) (σ : SState W),
    tid < σ.heap.length →
    evalList env loc es (σ.mod tid f) = ((evalList env loc es σ).1, (evalList env loc es σ).2.mod tid f) ∧
    σ.heap.length ≤ (evalList env loc es σ).2.heap.length
  | [], σ, _ => by simp [evalList]
  | e :: es, σ, h => by
    obtain ⟨h1, h1'⟩ := evalMulti_mod env loc tid f e σ h
    simp only [evalList, h1]
    split
    · exact ⟨rfl, h1'⟩
    · obtain ⟨h2, h2'⟩ := evalList_mod env loc tid f es (evalMulti env loc e σ).2 (by omega)
      simp only [h2]
      exact ⟨trivial, by omega⟩
theorem evalFields_mod (env : SEnv W) (loc : Nat → OVal) (tid : Nat) (f : TLog → TLog) :
    ∀ (es : List Ex) (keys : List (Option Key)) (n tid' : Nat) (σ : SState W),
    tid < σ.heap.length → tid' ≠ tid →
    evalFields env loc tid' keys es n (σ.mod tid f) = (evalFields env loc tid' keys es n σ).mod tid f ∧
    σ.heap.length ≤ (evalFields env loc tid' keys es n σ).heap.length
  | [], keys, n, tid', σ, _, _ => by simp [evalFields]
  | e :: es, keys, n, tid', σ, h, hne => by
    obtain ⟨h1, h1'⟩ := evalMulti_mod env loc tid f e σ h
    simp only [evalFields, h1]
    split
    · rw [storeKeyed_eq, storeKeyed_eq, mod_comm _ _ _ _ _ (Ne.symm hne)]
      obtain ⟨h2, h2'⟩ := evalFields_mod env loc tid f es keys.tail n tid'
        ((evalMulti env loc e σ).2.mod tid' (addKeyed _ (first (evalMulti env loc e σ).1))) (by simp; omega) hne
      rw [mod_heap_length] at h2'
      exact ⟨h2, by omega⟩
    · split
      · rw [storePos_eq, storePos_eq, mod_comm _ _ _ _ _ (Ne.symm hne)]
        exact ⟨rfl, by simp; omega⟩
      · rw [storePos_eq, storePos_eq, mod_comm _ _ _ _ _ (Ne.symm hne)]
        obtain ⟨h2, h2'⟩ := evalFields_mod env loc tid f es keys.tail (n + 1) tid'
          ((evalMulti env loc e σ).2.mod tid' (addArr (posStores n [first (evalMulti env loc e σ).1])))
          (by simp; omega) hne
        rw [mod_heap_length] at h2'
        exact ⟨h2, by omega⟩
end

end GLua.CallCompile
