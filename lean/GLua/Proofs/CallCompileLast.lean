/-
  C02, compile-time half — which instruction a compiled producer ends with.  `PropagateKMV/MV` pop the last
  instruction of the code store when it is a LOADK/MOVE into a temporary: that happens exactly for constants and
  local names; calls end with OP_CALL, `...` with OP_VARARG, constructors with NEWTABLE / SETLIST / SETTABLE(KS).
-/
import GLua.Proofs.CallCompileCall

namespace GLua.CallCompile
open GLua GLua.CallFrame GLua.CallShapes

/-- the instructions `PropagateKMV/MV` may pop -/
def Instr.isProp : Instr → Bool
  | .loadk _ _ => true
  | .move _ _ => true
  | _ => false

theorem getLast?_append_ne {α} (a b : List α) (h : b ≠ []) : (a ++ b).getLast? = b.getLast? := by
  rw [List.getLast?_append]
  cases hb : b.getLast? with
  | none => simp [List.getLast?_eq_none_iff] at hb; exact absurd hb h
  | some x => simp

theorem flushInstr_notProp (t ac : Nat) (lv : Bool) : (flushInstr t ac lv).isProp = false := by
  simp only [flushInstr]
  by_cases h1 : lv = true <;> simp only [h1, if_true, Bool.false_eq_true, if_false] <;> split <;> rfl

/-- the field loop of a constructor with at least one field ends with a SETLIST or a SETTABLE(KS). -/
theorem compFields_last (rt tablereg regbase : Nat) : ∀ (es : List Ex) (keys : List (Option Key)) (reg ac : Nat) (cs : CState),
    es ≠ [] → ∃ i, (compFields rt tablereg regbase keys es reg ac cs).code.getLast? = some i ∧ i.isProp = false
  | [], _, _, _, _, h => absurd rfl h
  | e :: es, keys, reg, ac, cs, _ => by
    -- what follows the code of this field
    have hrest : ∀ (front : List Instr) (i : Instr) (keys' : List (Option Key)) (reg' ac' : Nat) (cs' : CState),
        (∃ pre, front = pre ++ [i]) → i.isProp = false →
        ∃ j, (front ++ (compFields rt tablereg regbase keys' es reg' ac' cs').code).getLast? = some j ∧
             j.isProp = false := by
      intro front i keys' reg' ac' cs' hpre hi
      obtain ⟨pre, rfl⟩ := hpre
      cases es with
      | nil => exact ⟨i, by simp [compFields], hi⟩
      | cons e' es' =>
        obtain ⟨j, hj, hjp⟩ := compFields_last rt tablereg regbase (e' :: es') keys' reg' ac' cs' (by simp)
        refine ⟨j, ?_, hjp⟩
        rw [getLast?_append_ne _ _ (by intro h; rw [h] at hj; simp at hj)]
        exact hj
    simp only [compFields]
    split
    · split
      · exact hrest _ _ _ _ _ _ ⟨_, rfl⟩ (flushInstr_notProp _ _ _)
      · split
        · exact hrest _ _ _ _ _ _ ⟨_, rfl⟩ (flushInstr_notProp _ _ _)
        · rename_i hnf
          -- not flushed: this is not the last field
          cases es with
          | nil => exact absurd (by simp; omega) hnf
          | cons e' es' =>
            obtain ⟨j, hj, hjp⟩ := compFields_last rt tablereg regbase (e' :: es') keys.tail
              (reg + (compExpr rt e reg (ecnone 0) cs).inc) (ac + 1) (compExpr rt e reg (ecnone 0) cs).cs (by simp)
            refine ⟨j, ?_, hjp⟩
            rw [getLast?_append_ne _ _ (by intro h; rw [h] at hj; simp at hj)]
            exact hj
    · split
      · have hassoc : ∀ (a b : List Instr) (x y : Instr), a ++ b ++ [x, y] = (a ++ b ++ [x]) ++ [y] := by
          intros; simp
        dsimp only
        rw [hassoc]
        exact hrest _ _ _ _ _ _ ⟨_, rfl⟩ (flushInstr_notProp _ _ _)
      · exact hrest _ _ _ _ _ _ ⟨_, rfl⟩ (by split <;> rfl)

/-- a producer that is not an atom, compiled with `ecnone(v)`, does not end with a LOADK or MOVE. -/
theorem compExpr_last_nonatom (rt : Nat) (e : Ex) (reg : Nat) (v : Int) (cs : CState) (hrt : rt ≤ reg) (hv : v ≥ -2)
    (hna : ∀ a, e ≠ .atom a) :
    ∃ i, (compExpr rt e reg (ecnone v) cs).code.getLast? = some i ∧ i.isProp = false := by
  cases e with
  | atom a => exact absurd rfl (hna a)
  | dots p =>
    refine ⟨.vararg reg (2 + v).toNat, ?_, rfl⟩
    simp only [compExpr, compDots, savereg_plain (plain_ecnone v reg), Nat.lt_irrefl, if_false]
    split <;> rfl
  | call p f args =>
    simp only [compExpr]
    rw [(finishCall_plain rt reg args.length _ (ecnone v) _ _ (plain_ecnone v reg) hrt hv).1]
    exact ⟨_, List.getLast?_concat, rfl⟩
  | mcall p recv m args =>
    simp only [compExpr]
    rw [(finishCall_plain rt reg (args.length + 1) _ (ecnone v) _ _ (plain_ecnone v reg) hrt hv).1]
    exact ⟨_, List.getLast?_concat, rfl⟩
  | tbl keys vals =>
    simp only [compExpr, shouldmove_plain (plain_ecnone v reg), Bool.false_eq_true, if_false]
    cases vals with
    | nil =>
      simp only [compFields, List.append_nil]
      exact ⟨_, rfl, rfl⟩
    | cons e es =>
      obtain ⟨j, hj, hjp⟩ := compFields_last rt reg (reg + 1) (e :: es) keys (reg + 1) 0 cs (by simp)
      refine ⟨j, ?_, hjp⟩
      rw [getLast?_append_ne _ _ (by intro h; rw [h] at hj; simp at hj)]
      exact hj

/-- `propagate` leaves code that does not end with a LOADK/MOVE alone. -/
theorem propagate_notProp (kmv : Bool) (top : Nat) (code : List Instr) (reg inc : Nat) (i : Instr)
    (h : code.getLast? = some i) (hi : i.isProp = false) :
    propagate kmv top code reg inc = (code, reg, reg + inc) := by
  simp only [propagate, h]
  cases i <;> first | rfl | (simp [Instr.isProp] at hi)

end GLua.CallCompile
