/-
  C02, compile-time half — method calls `recv:name(args)`: receiver through `PropagateMV`, the method name through
  `loadRk`, OP_SELF, the explicit arguments from `R[A+2]`, OP_CALL with one more argument: the callee gets
  `methodArgs recv args`.
-/
import GLua.Proofs.CallCompileOperand

namespace GLua.CallCompile
open GLua GLua.CallFrame GLua.CallFrame.Reg GLua.CallShapes GLua.Adjust GLua.CallFrame.Run

variable {W : Type}

theorem loadRk_small (cs : CState) (reg : Nat) (k : Konst) (h : (constIndex cs k).2 ≤ opMaxIndexRk) :
    loadRk cs reg k = ([], (constIndex cs k).1, (constIndex cs k).2 + opBitRk, reg) := by
  simp [loadRk, h]

theorem loadRk_large (cs : CState) (reg : Nat) (k : Konst) (h : ¬ (constIndex cs k).2 ≤ opMaxIndexRk) :
    loadRk cs reg k = ([.loadk reg (constIndex cs k).2], (constIndex cs k).1, reg, reg + 1) := by
  simp [loadRk, h]

theorem loadRk_cs (cs : CState) (reg : Nat) (k : Konst) : (loadRk cs reg k).2.1 = (constIndex cs k).1 := by
  simp only [loadRk]; split <;> rfl

/-- `loadRk` for a method name: afterwards the RK operand reads as that string, the receiver register and
    everything below the next free register are untouched. -/
theorem loadRk_sound (env : MEnv W) (K : List Konst) (cs : CState) (reg1 : Nat) (m : String) (s : MS W) (cf : Frame)
    (rest : List Frame) (hst : s.st.stack = cf :: rest) (hd : s.done = false)
    (hK : (loadRk cs reg1 (.str m)).2.1.consts <+: K) (hfits : Fits (loadRk cs reg1 (.str m)).1)
    (htop : cf.localBase + reg1 ≤ s.st.reg.top) :
    ∃ s', Runs env K (loadRk cs reg1 (.str m)).1 s s' ∧ Step s s' (cf.localBase + reg1) ∧ s'.σ = s.σ ∧ s'.w = s.w ∧
      rkString K s'.st.reg cf.localBase (loadRk cs reg1 (.str m)).2.2.1 = .ok m := by
  rw [loadRk_cs] at hK
  have hk := constIndex_final cs (.str m) K hK
  by_cases h : (constIndex cs (.str m)).2 ≤ opMaxIndexRk
  · rw [loadRk_small cs reg1 _ h]
    refine ⟨s, Runs.nil env K s, Step.refl s _ htop, rfl, rfl, ?_⟩
    simp [rkString, hk]
  · rw [loadRk_large cs reg1 _ h] at hfits ⊢
    have hlt : reg1 < opBitRk := fits_argA (.loadk reg1 _) (hfits _ (List.mem_singleton.mpr rfl))
    refine ⟨{ s with st := { s.st with reg := s.st.reg.set (cf.localBase + reg1) (some (some (.str m))) } },
      Runs.single hd (by simp [step, hst, hk, Konst.val]), ⟨rfl, rfl, rfl, ?_, ?_⟩, rfl, rfl, ?_⟩
    · intro j hj; exact set_arr_ne _ _ _ _ (by omega)
    · have := set_top_gt s.st.reg (cf.localBase + reg1) (some (some (.str m))); simp only; omega
    · have : ¬ reg1 ≥ opBitRk := by omega
      simp [rkString, this, Reg.get, set_arr]

theorem mcall_ready (env : MEnv W) (K : List Konst) (p : Bool) (recv : Ex)
    (m : String) (args : List Ex) (ihr : ExprSound env K recv) (iha : ListSound env K args)
    (rt reg : Nat) (ec : ExpCtx) (cs : CState) (cf : Frame) (rest : List Frame) (loc : Nat → OVal)
    (extra : List OVal) (s : MS W)
    (hp : Plain ec reg) (hctx : CtxOK (.mcall p recv m args) ec.varargopt)
    (hsc : (Ex.mcall p recv m args).scoped rt = true) (hreg : rt ≤ reg)
    (hK : (compExpr rt (.mcall p recv m args) reg ec cs).cs.consts <+: K)
    (hfits : Fits (compExpr rt (.mcall p recv m args) reg ec cs).code)
    (hinv : Inv cf rest rt loc extra s) (htop : cf.localBase + reg ≤ s.st.reg.top) :
    CallReady env K cf rest rt loc extra s (.mcall p recv m args) reg ec.varargopt
      (compExpr rt (.mcall p recv m args) reg ec cs).code (compExpr rt (.mcall p recv m args) reg ec cs).inc := by
  simp only [Ex.scoped, Bool.and_eq_true] at hsc
  obtain ⟨r1, hr1⟩ : ∃ r1, compExpr rt recv reg (ecnone 0) cs = r1 := ⟨_, rfl⟩
  obtain ⟨pr, hpr⟩ : ∃ pr, propagate false rt r1.code reg r1.inc = pr := ⟨_, rfl⟩
  obtain ⟨lk, hlk⟩ : ∃ lk, loadRk r1.cs pr.2.2 (.str m) = lk := ⟨_, rfl⟩
  obtain ⟨reg', hreg'⟩ : ∃ reg', (if reg + 2 > pr.2.1 + 1 then reg + 2 else pr.2.1 + 1) = reg' := ⟨_, rfl⟩
  obtain ⟨r2, hr2⟩ : ∃ r2, compList rt args reg' lk.2.1 = r2 := ⟨_, rfl⟩
  have hc : compExpr rt (.mcall p recv m args) reg ec cs =
      finishCall rt reg (args.length + 1) r2.lastMulti ec (pr.1 ++ lk.1 ++ [.self reg pr.2.1 lk.2.2.1] ++ r2.code) r2.cs := by
    simp only [compExpr, hr1, hpr, hlk, hreg', hr2]
  obtain ⟨hcode, hinc⟩ := finishCall_plain rt reg (args.length + 1) r2.lastMulti ec
    (pr.1 ++ lk.1 ++ [.self reg pr.2.1 lk.2.2.1] ++ r2.code) r2.cs hp hreg hctx.1
  rw [hc] at hK hfits ⊢
  rw [hcode] at hfits ⊢
  rw [hinc]
  rw [finishCall_consts] at hK
  simp only [fits_append] at hfits
  obtain ⟨⟨⟨⟨hf1, hf2⟩, hf3⟩, hf4⟩, hf5⟩ := hfits
  have hK2 : lk.2.1.consts <+: K := by
    have := compList_mono rt args reg' lk.2.1
    rw [hr2] at this
    exact this.trans hK
  have hK1 : r1.cs.consts <+: K := by
    have := loadRk_mono r1.cs pr.2.2 (.str m)
    rw [hlk] at this
    exact this.trans hK2
  -- the receiver
  obtain ⟨s1, hrun1, hstep1, hσ1, htop1, hle1, hle1', hb1, hrk1⟩ :=
    operand_sound env K false recv ihr rt reg cs cf rest loc extra s hsc.1 hreg (by rw [hr1]; exact hK1)
      (by rw [hr1, hpr]; exact hf1) hinv htop
  rw [hr1, hpr] at hrun1 htop1 hle1 hle1' hb1 hrk1
  obtain ⟨hblt, hrecv1⟩ := hrk1.reg (hb1 rfl)
  have hinv1 := hinv.step hstep1 (by omega)
  have hreg2 : reg' = reg + 2 := by rw [← hreg']; have : reg + 2 > pr.2.1 + 1 := by omega
                                    simp [this]
  subst hreg2
  -- the method name
  obtain ⟨s2, hrun2, hstep2, hσ2, hw2, hname2⟩ := loadRk_sound env K r1.cs pr.2.2 m s1 cf rest hinv1.stack hinv1.notDone
    (by rw [hlk]; exact hK2) (by rw [hlk]; exact hf2) htop1
  rw [hlk] at hrun2 hname2
  have hinv2 := hinv1.step hstep2 (by omega)
  have hrecv2 : s2.st.reg.arr (cf.localBase + pr.2.1) =
      some (first (evalMulti (env.toSEnv extra) loc recv s.σ).1) := by
    rw [hstep2.below _ (by omega)]; exact hrecv1
  -- OP_SELF
  obtain ⟨rv, hrv⟩ : ∃ rv, first (evalMulti (env.toSEnv extra) loc recv s.σ).1 = rv := ⟨_, rfl⟩
  rw [hrv] at hrecv2
  obtain ⟨s3, hs3⟩ : ∃ s3 : MS W, s3 = { s2 with st := { s2.st with reg :=
      (s2.st.reg.set (cf.localBase + reg) (some (env.index rv m s2.w))).set (cf.localBase + reg + 1) (some rv) } } :=
    ⟨_, rfl⟩
  have hrun3 : Runs env K [.self reg pr.2.1 lk.2.2.1] s2 s3 := by
    apply Runs.single hinv2.notDone
    simp [step, hinv2.stack, Reg.get, hrecv2, hname2, opSelf, hs3]
  have harr3 : ∀ j, s3.st.reg.arr j = if j = cf.localBase + reg + 1 then some rv
      else if j = cf.localBase + reg then some (env.index rv m s2.w) else s2.st.reg.arr j := by
    intro j; rw [hs3]; simp only [set_arr]
  have htop3 : cf.localBase + reg + 2 ≤ s3.st.reg.top := by
    rw [hs3]; exact set_top_gt _ _ _
  have hstep3 : Step s2 s3 (cf.localBase + reg) := by
    refine ⟨by rw [hs3], by rw [hs3], by rw [hs3], ?_, by omega⟩
    intro j hj
    rw [harr3, if_neg (by omega), if_neg (by omega)]
  have hinv3 := hinv2.step hstep3 (by omega)
  have hσ3 : s3.σ = s2.σ := by rw [hs3]; rfl
  -- the explicit arguments
  obtain ⟨s4, hrun4, hstep4, hσ4, hv4, hlast4⟩ := iha rt (reg + 2) lk.2.1 cf rest loc extra s3 hsc.2 (by omega)
    (by rw [hr2]; exact hK) (by rw [hr2]; exact hf4) hinv3 (by omega)
  rw [hr2] at hrun4 hlast4
  rw [← Nat.add_assoc] at hstep4 hv4 hlast4
  have hinv4 := hinv3.step hstep4 (by omega)
  obtain ⟨avs, havs⟩ : ∃ avs, (evalList (env.toSEnv extra) loc args s3.σ).1 = avs := ⟨_, rfl⟩
  rw [havs] at hv4 hlast4
  have hf4' : s4.st.reg.arr (cf.localBase + reg) = some (env.index rv m s2.w) := by
    rw [hstep4.below _ (by omega), harr3, if_neg (by omega), if_pos rfl]
  have hargs4 : ValsAt s4.st.reg (cf.localBase + reg + 1) (rv :: avs).length (rv :: avs) := by
    intro i hi
    simp only [List.length_cons] at hi
    cases i with
    | zero =>
      rw [Nat.add_zero, hstep4.below _ (by omega), harr3, if_pos rfl]; rfl
    | succ k =>
      have := hv4 k (by omega)
      rw [show cf.localBase + reg + 2 + k = cf.localBase + reg + 1 + (k + 1) by omega] at this
      rw [this]; simp
  have hw : s2.w = (evalMulti (env.toSEnv extra) loc recv s.σ).2.w := by
    rw [hw2, ← hσ1]; rfl
  have h3 : s3.σ = (evalMulti (env.toSEnv extra) loc recv s.σ).2 := by rw [hσ3, hσ2, hσ1]
  have hw4 : s4.w = (evalList (env.toSEnv extra) loc args s3.σ).2.w := by rw [← hσ4]; rfl
  have hh4 : s4.heap = (evalList (env.toSEnv extra) loc args s3.σ).2.heap := by rw [← hσ4]; rfl
  refine ⟨pr.1 ++ lk.1 ++ [.self reg pr.2.1 lk.2.2.1] ++ r2.code, r2.lastMulti, args.length + 1, s4,
    env.index rv m s2.w, rv :: avs, rfl, rfl,
    Runs.append (Runs.append (Runs.append hrun1 hrun2) hrun3) hrun4,
    ((hstep1.trans (hstep2.weaken (Nat.add_le_add_left hle1 _)) (Nat.le_refl _)).trans hstep3 (Nat.le_refl _)).trans hstep4
      (by omega),
    hinv4, hf4', hargs4, ?_, ?_⟩
  · cases hl : r2.lastMulti <;> simp only [hl, Bool.false_eq_true, if_false, if_true, List.length_cons] at hlast4 ⊢
    · exact ⟨by omega, by omega⟩
    · omega
  · simp only [evalMulti, methodArgs, Ex.paren]
    rw [hrv, ← hw, ← h3, havs, hw4, hh4]
    rfl

theorem mcall_sound (env : MEnv W) (hB : BodiesOK env) (hI : InfoWF env) (K : List Konst) (p : Bool) (recv : Ex)
    (m : String) (args : List Ex) (ihr : ExprSound env K recv) (iha : ListSound env K args) :
    ExprSound env K (.mcall p recv m args) := by
  intro rt reg ec cs cf rest loc extra s hp hctx hsc hreg hK hfits hinv htop
  exact call_finish env hB hI K cf rest rt loc extra s _ reg ec.varargopt _ _ rfl hctx
    (mcall_ready env K p recv m args ihr iha rt reg ec cs cf rest loc extra s hp hctx hsc hreg hK hfits hinv htop)

end GLua.CallCompile
