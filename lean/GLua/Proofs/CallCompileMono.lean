/-
  C02, compile-time half — the constant pool only grows (so an index handed out during compilation denotes the
  same constant in the final pool the function runs with), and what `ConstIndex` returns.
-/
import GLua.Proofs.CallCompileBase

namespace GLua.CallCompile
open GLua GLua.CallFrame GLua.CallShapes

theorem findIdx_get (l : List Konst) (k : Konst) (i : Nat) (h : findIdx l k = some i) : l[i]? = some k := by
  induction l generalizing i with
  | nil => simp [findIdx] at h
  | cons c r ih =>
    simp only [findIdx] at h
    by_cases hc : c = k
    · simp only [hc, if_true, Option.some.injEq] at h
      subst h; simp [hc]
    · simp only [hc, if_false, Option.map_eq_some_iff] at h
      obtain ⟨j, hj, rfl⟩ := h
      simpa using ih j hj

@[simp] theorem fail_consts (cs : CState) (m : String) : (cs.fail m).consts = cs.consts := rfl

@[simp] theorem ite_fail_consts (c : Prop) [Decidable c] (cs : CState) (m : String) :
    (if c then cs.fail m else cs).consts = cs.consts := by split <;> rfl

theorem constIndex_mono (cs : CState) (k : Konst) : cs.consts <+: (constIndex cs k).1.consts := by
  simp only [constIndex]
  split
  · exact List.prefix_refl _
  · split <;> simp

theorem constIndex_get (cs : CState) (k : Konst) :
    (constIndex cs k).1.consts[(constIndex cs k).2]? = some k := by
  simp only [constIndex]
  split
  · rename_i i h; exact findIdx_get _ _ _ h
  · split <;> simp

theorem prefix_get {l1 l2 : List Konst} (h : l1 <+: l2) {i : Nat} {k : Konst} (hi : l1[i]? = some k) :
    l2[i]? = some k := by
  obtain ⟨t, rfl⟩ := h
  have hlt : i < l1.length := by
    rcases Nat.lt_or_ge i l1.length with h | h
    · exact h
    · have : l1[i]? = none := by simp; omega
      rw [this] at hi; cases hi
  rw [List.getElem?_append_left hlt]; exact hi

/-- the index `ConstIndex` hands out denotes that constant in every later pool. -/
theorem constIndex_final (cs : CState) (k : Konst) (K : List Konst) (h : (constIndex cs k).1.consts <+: K) :
    K[(constIndex cs k).2]? = some k := prefix_get h (constIndex_get cs k)

theorem compAtom_mono (a : Atom) (sreg : Nat) (cs : CState) : cs.consts <+: (compAtom a sreg cs).2.consts := by
  cases a <;> simp only [compAtom] <;> first | exact constIndex_mono _ _ | exact List.prefix_refl _

theorem compAtomRes_mono (a : Atom) (reg : Nat) (ec : ExpCtx) (cs : CState) :
    cs.consts <+: (compAtomRes a reg ec cs).cs.consts := compAtom_mono _ _ _

theorem compDots_consts (rt reg : Nat) (ec : ExpCtx) (cs : CState) : (compDots rt reg ec cs).cs.consts = cs.consts := by
  simp only [compDots]
  split <;> (try split) <;> simp

theorem finishCall_consts (rt funcreg argc : Nat) (lv : Bool) (ec : ExpCtx) (code : List Instr) (cs : CState) :
    (finishCall rt funcreg argc lv ec code cs).cs.consts = cs.consts := by
  simp only [finishCall]
  split <;> (try split) <;> simp

theorem loadRk_mono (cs : CState) (reg : Nat) (k : Konst) : cs.consts <+: (loadRk cs reg k).2.1.consts := by
  simp only [loadRk]
  split <;> exact constIndex_mono _ _

mutual
theorem compExpr_mono (rt : Nat) : ∀ (e : Ex) (reg : Nat) (ec : ExpCtx) (cs : CState),
    cs.consts <+: (compExpr rt e reg ec cs).cs.consts
  | .atom a, reg, ec, cs => by simp only [compExpr]; exact compAtomRes_mono a reg ec cs
  | .dots _, reg, ec, cs => by simp only [compExpr, compDots_consts]; exact List.prefix_refl _
  | .call _ f args, reg, ec, cs => by
    simp only [compExpr, finishCall_consts]
    exact (compExpr_mono rt f reg (ecnone 0) cs).trans (compList_mono rt args _ _)
  | .mcall _ recv m args, reg, ec, cs => by
    simp only [compExpr, finishCall_consts]
    exact ((compExpr_mono rt recv reg (ecnone 0) cs).trans (loadRk_mono _ _ _)).trans (compList_mono rt args _ _)
  | .tbl keys vals, reg, ec, cs => by
    simp only [compExpr]
    exact compFields_mono rt reg (reg + 1) vals keys (reg + 1) 0 cs
theorem compList_mono (rt : Nat) : ∀ (es : List Ex) (reg : Nat) (cs : CState),
    cs.consts <+: (compList rt es reg cs).cs.consts
  | [], reg, cs => by simp only [compList]; exact List.prefix_refl _
  | e :: es, reg, cs => by
    simp only [compList]
    split
    · exact compExpr_mono rt e reg _ cs
    · exact (compExpr_mono rt e reg _ cs).trans (compList_mono rt es _ _)
theorem compFields_mono (rt tablereg regbase : Nat) : ∀ (es : List Ex) (keys : List (Option Key)) (reg ac : Nat) (cs : CState),
    cs.consts <+: (compFields rt tablereg regbase keys es reg ac cs).cs.consts
  | [], keys, reg, ac, cs => by simp only [compFields]; exact List.prefix_refl _
  | e :: es, keys, reg, ac, cs => by
    simp only [compFields]
    split
    · split
      · exact (compExpr_mono rt e reg _ cs).trans (compFields_mono rt tablereg regbase es _ _ _ _)
      · split
        · exact (compExpr_mono rt e reg _ cs).trans (compFields_mono rt tablereg regbase es _ _ _ _)
        · exact (compExpr_mono rt e reg _ cs).trans (compFields_mono rt tablereg regbase es _ _ _ _)
    · split
      · exact ((compAtomRes_mono _ _ _ cs).trans (compExpr_mono rt e _ _ _)).trans
          (compFields_mono rt tablereg regbase es _ _ _ _)
      · exact ((compAtomRes_mono _ _ _ cs).trans (compExpr_mono rt e _ _ _)).trans
          (compFields_mono rt tablereg regbase es _ _ _ _)
end

end GLua.CallCompile
