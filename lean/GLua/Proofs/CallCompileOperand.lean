/-
  C02, compile-time half — `compileExprWithKMVPropagation / …MV…`: an operand is either compiled into the next
  register, or — a constant with a small pool index, a local name — referenced directly (the LOADK / MOVE just
  emitted is popped again).  `operand_sound`: in both cases the RK operand denotes the producer's first value.
-/
import GLua.Proofs.CallCompileLast

namespace GLua.CallCompile
open GLua GLua.CallFrame GLua.CallFrame.Reg GLua.CallShapes GLua.Adjust GLua.CallFrame.Run

variable {W : Type}

/-! ### register operands fit their field -/

def Instr.argA : Instr → Nat
  | .loadk a _ | .loadnil a _ | .loadbool a _ _ | .move a _ | .moven a _ _ | .getglobal a _ | .setglobal a _
  | .call a _ _ | .tailcall a _ _ | .ret a _ | .vararg a _ | .self a _ _ | .newtable a _ _ | .setlist a _ _ _
  | .settable a _ _ | .settableks a _ _ => a

theorem fits_argA (i : Instr) (h : i.fits = true) : i.argA < opBitRk := by
  have hm : ∀ a : Nat, a % (opMaxArgsA + 1) = a → a < opBitRk := by
    intro a ha
    have : a % 256 = a := ha
    show a < 256
    omega
  cases i <;>
    (simp only [Instr.fits, Instr.mask] at h
     have h' := of_decide_eq_true h
     injection h' with h1
     exact hm _ h1)

/-- the code of a producer compiled into `reg` contains an instruction whose A operand is `reg`. -/
theorem compExpr_regA (rt : Nat) (e : Ex) (reg : Nat) (ec : ExpCtx) (cs : CState) (hp : Plain ec reg) (hrt : rt ≤ reg)
    (hv : ec.varargopt ≥ -2) : ∃ i ∈ (compExpr rt e reg ec cs).code, i.argA = reg := by
  cases e with
  | atom a =>
    simp only [compExpr, compAtomRes, savereg_plain hp]
    cases a <;> simp only [compAtom] <;> exact ⟨_, List.mem_singleton.mpr rfl, rfl⟩
  | dots p =>
    refine ⟨.vararg reg (2 + ec.varargopt).toNat, ?_, rfl⟩
    simp only [compExpr, compDots, savereg_plain hp, Nat.lt_irrefl, if_false]
    split <;> exact List.mem_singleton.mpr rfl
  | call p f args =>
    simp only [compExpr]
    rw [(finishCall_plain rt reg args.length _ ec _ _ hp hrt hv).1]
    exact ⟨_, List.mem_append_right _ (List.mem_singleton.mpr rfl), rfl⟩
  | mcall p recv m args =>
    simp only [compExpr]
    rw [(finishCall_plain rt reg (args.length + 1) _ ec _ _ hp hrt hv).1]
    exact ⟨_, List.mem_append_right _ (List.mem_singleton.mpr rfl), rfl⟩
  | tbl keys vals =>
    simp only [compExpr, shouldmove_plain hp, Bool.false_eq_true, if_false]
    exact ⟨_, List.mem_append_left _ (List.mem_singleton.mpr rfl), rfl⟩

theorem fits_reg (rt : Nat) (e : Ex) (reg : Nat) (ec : ExpCtx) (cs : CState) (hp : Plain ec reg) (hrt : rt ≤ reg)
    (hv : ec.varargopt ≥ -2) (hf : Fits (compExpr rt e reg ec cs).code) : reg < opBitRk := by
  obtain ⟨i, hi, ha⟩ := compExpr_regA rt e reg ec cs hp hrt hv
  rw [← ha]; exact fits_argA i (hf i hi)

/-! ### RK operands -/

/-- the RK operand `x` denotes the value `v`: a constant of the pool, or a register below `next` (which the code
    compiled from `next` on will not touch). -/
def RKHolds (K : List Konst) (r : Reg) (lb x next : Nat) (v : OVal) : Prop :=
  (x ≥ opBitRk ∧ ∃ k, K[x - opBitRk]? = some k ∧ k.val = v) ∨ (x < opBitRk ∧ x < next ∧ r.arr (lb + x) = some v)

theorem RKHolds.congr {K : List Konst} {r r' : Reg} {lb x next : Nat} {v : OVal} (h : RKHolds K r lb x next v)
    (heq : ∀ j, j < lb + next → r'.arr j = r.arr j) : RKHolds K r' lb x next v := by
  rcases h with h | ⟨h1, h2, h3⟩
  · exact Or.inl h
  · exact Or.inr ⟨h1, h2, by rw [heq _ (by omega)]; exact h3⟩

theorem RKHolds.mono {K : List Konst} {r : Reg} {lb x next next' : Nat} {v : OVal} (h : RKHolds K r lb x next v)
    (hn : next ≤ next') : RKHolds K r lb x next' v := by
  rcases h with h | ⟨h1, h2, h3⟩
  · exact Or.inl h
  · exact Or.inr ⟨h1, by omega, h3⟩

theorem RKHolds.rkValue {K : List Konst} {r : Reg} {lb x next : Nat} {v : OVal} (h : RKHolds K r lb x next v) :
    rkValue K r lb x = .ok v := by
  rcases h with ⟨h1, k, hk, hv⟩ | ⟨h1, _, h3⟩
  · simp [CallCompile.rkValue, h1, hk, hv]
  · have : ¬ x ≥ opBitRk := by omega
    simp [CallCompile.rkValue, this, Reg.get, h3]

/-- a register operand (the only kind `PropagateMV` produces) -/
theorem RKHolds.reg {K : List Konst} {r : Reg} {lb x next : Nat} {v : OVal} (h : RKHolds K r lb x next v)
    (hx : x < opBitRk) : x < next ∧ r.arr (lb + x) = some v := by
  rcases h with ⟨h1, _⟩ | ⟨_, h2, h3⟩
  · omega
  · exact ⟨h2, h3⟩

/-- what `compileExprWith(K)MVPropagation` achieves; `p` = its (code, operand, next register). -/
def OperandPost (env : MEnv W) (K : List Konst) (kmv : Bool) (e : Ex) (reg : Nat) (cf : Frame) (loc : Nat → OVal)
    (extra : List OVal) (s : MS W) (p : List Instr × Nat × Nat) : Prop :=
  ∃ s', Runs env K p.1 s s' ∧ Step s s' (cf.localBase + reg) ∧
    s'.σ = (evalMulti (env.toSEnv extra) loc e s.σ).2 ∧
    cf.localBase + p.2.2 ≤ s'.st.reg.top ∧ reg ≤ p.2.2 ∧ p.2.2 ≤ reg + 1 ∧ (kmv = false → p.2.1 < opBitRk) ∧
    RKHolds K s'.st.reg cf.localBase p.2.1 p.2.2 (first (evalMulti (env.toSEnv extra) loc e s.σ).1)

theorem operand_sound (env : MEnv W) (K : List Konst) (kmv : Bool) (e : Ex) (ihe : ExprSound env K e)
    (rt reg : Nat) (cs : CState) (cf : Frame) (rest : List Frame) (loc : Nat → OVal) (extra : List OVal) (s : MS W)
    (hsc : e.scoped rt = true) (hreg : rt ≤ reg)
    (hK : (compExpr rt e reg (ecnone 0) cs).cs.consts <+: K)
    (hfits : Fits (propagate kmv rt (compExpr rt e reg (ecnone 0) cs).code reg (compExpr rt e reg (ecnone 0) cs).inc).1)
    (hinv : Inv cf rest rt loc extra s) (htop : cf.localBase + reg ≤ s.st.reg.top) :
    OperandPost env K kmv e reg cf loc extra s
      (propagate kmv rt (compExpr rt e reg (ecnone 0) cs).code reg (compExpr rt e reg (ecnone 0) cs).inc) := by
  -- the operand is compiled into `reg` (nothing is popped)
  have hkeep : propagate kmv rt (compExpr rt e reg (ecnone 0) cs).code reg (compExpr rt e reg (ecnone 0) cs).inc =
      ((compExpr rt e reg (ecnone 0) cs).code, reg, reg + (compExpr rt e reg (ecnone 0) cs).inc) →
      OperandPost env K kmv e reg cf loc extra s
        (propagate kmv rt (compExpr rt e reg (ecnone 0) cs).code reg (compExpr rt e reg (ecnone 0) cs).inc) := by
    intro hpr
    rw [hpr] at hfits ⊢
    simp only at hfits
    have hrlt := fits_reg rt e reg (ecnone 0) cs (plain_ecnone _ _) hreg (by decide) hfits
    obtain ⟨s', hrun, hstep, hσ, hres⟩ := ihe rt reg (ecnone 0) cs cf rest loc extra s (plain_ecnone _ _)
      ⟨by decide, fun h => by rcases h with h | h <;> (simp only [ecnone] at h; omega)⟩ hsc hreg hK hfits hinv htop
    obtain ⟨ht1, _, h0, _⟩ := hres
    obtain ⟨hv1, hinc1⟩ := h0 (by simp [ecnone])
    have hinc1' : (compExpr rt e reg (ecnone 0) cs).inc = 1 := by rw [hinc1]; rfl
    rw [hinc1'] at ht1 ⊢
    unfold OperandPost
    dsimp only
    refine ⟨s', hrun, hstep, hσ, by omega, by omega, by omega, fun _ => hrlt, Or.inr ⟨hrlt, by omega, ?_⟩⟩
    have := hv1 0 (by decide)
    rw [Nat.add_zero] at this
    rw [this]; simp [first_eq]
  by_cases hat : ∃ a, e = .atom a
  · obtain ⟨a, rfl⟩ := hat
    have hcode : (compExpr rt (.atom a) reg (ecnone 0) cs).code = (compAtom a reg cs).1 := by
      simp only [compExpr, compAtomRes, savereg_plain (plain_ecnone 0 reg)]
    have hcs : (compExpr rt (.atom a) reg (ecnone 0) cs).cs = (compAtom a reg cs).2 := by
      simp only [compExpr, compAtomRes, savereg_plain (plain_ecnone 0 reg)]
    have hinc : (compExpr rt (.atom a) reg (ecnone 0) cs).inc = 1 := by
      simp only [compExpr, compAtomRes, savereg_plain (plain_ecnone 0 reg), Nat.lt_irrefl, if_false]
    -- a constant: referenced as K operand when its index is small (KMV only)
    have hconst : ∀ k : Konst, (compAtom a reg cs).1 = [.loadk reg (constIndex cs k).2] →
        (compAtom a reg cs).2 = (constIndex cs k).1 → evalAtom (env.toSEnv extra) loc s.σ.w a = k.val →
        OperandPost env K kmv (.atom a) reg cf loc extra s
          (propagate kmv rt (compExpr rt (.atom a) reg (ecnone 0) cs).code reg
            (compExpr rt (.atom a) reg (ecnone 0) cs).inc) := by
      intro k hc1 hc2 hval
      by_cases hsmall : kmv = true ∧ (constIndex cs k).2 ≤ opMaxIndexRk
      · have hpr : propagate kmv rt (compExpr rt (.atom a) reg (ecnone 0) cs).code reg
            (compExpr rt (.atom a) reg (ecnone 0) cs).inc = ([], (constIndex cs k).2 + opBitRk, reg) := by
          rw [hcode, hc1]
          simp [propagate, hreg, hsmall.1, hsmall.2]
        rw [hpr]
        rw [hcs, hc2] at hK
        unfold OperandPost
        dsimp only
        refine ⟨s, Runs.nil env K s, Step.refl s _ htop, by simp [evalMulti], htop, Nat.le_refl _, Nat.le_succ _,
          (fun h => by rw [hsmall.1] at h; cases h), Or.inl ⟨Nat.le_add_left _ _, k, ?_, ?_⟩⟩
        · rw [Nat.add_sub_cancel]; exact constIndex_final cs k K hK
        · simp [evalMulti, first, ← hval]
      · apply hkeep
        rw [hcode, hc1]
        simp only [propagate, List.getLast?_singleton]
        have : ¬ (reg ≥ rt ∧ kmv = true ∧ (constIndex cs k).2 ≤ opMaxIndexRk) := fun h => hsmall ⟨h.2.1, h.2.2⟩
        simp [this, hcode, hc1]
    cases a with
    | num n => exact hconst (.num n) rfl rfl rfl
    | str x => exact hconst (.str x) rfl rfl rfl
    | loc r =>
      have hr : r < rt := by simpa [Ex.scoped] using hsc
      have hpr : propagate kmv rt (compExpr rt (.atom (.loc r)) reg (ecnone 0) cs).code reg
          (compExpr rt (.atom (.loc r)) reg (ecnone 0) cs).inc = ([], r, reg) := by
        rw [hcode]
        simp [propagate, compAtom, hreg]
      rw [hpr]
      have hb := hinv.rtBound
      unfold OperandPost
      dsimp only
      refine ⟨s, Runs.nil env K s, Step.refl s _ htop, by simp [evalMulti], htop, Nat.le_refl _, Nat.le_succ _,
        (fun _ => by omega), Or.inr ⟨by omega, by omega, ?_⟩⟩
      rw [hinv.locals r hr]; simp [evalMulti, first, evalAtom]
    | nil => exact hkeep (by rw [hcode]; simp [propagate, compAtom])
    | tru => exact hkeep (by rw [hcode]; simp [propagate, compAtom])
    | fls => exact hkeep (by rw [hcode]; simp [propagate, compAtom])
    | glob g => exact hkeep (by rw [hcode]; simp [propagate, compAtom])
  · obtain ⟨i, hi, hip⟩ := compExpr_last_nonatom rt e reg 0 cs hreg (by decide) (fun a h => hat ⟨a, h⟩)
    exact hkeep (propagate_notProp kmv rt _ reg _ i hi hip)

end GLua.CallCompile
