/-
  C02, compile-time half — `return f(args)` (the tail call) and `compileReturnStmt` as a whole: whatever the shape
  of the return list, the caller finds `adjust (evalList es) NRet` at `ReturnBase` and the frame is gone.
-/
import GLua.Proofs.CallCompileTailRun

namespace GLua.CallCompile
open GLua GLua.CallFrame GLua.CallFrame.Reg GLua.CallShapes GLua.Adjust GLua.CallFrame.Run

variable {W : Type}

theorem callReady_of_isCall (env : MEnv W) (hB : BodiesOK env) (hI : InfoWF env) (K : List Konst) (e : Ex)
    (hcall : e.isCall = true)
    (rt reg : Nat) (ec : ExpCtx) (cs : CState) (cf : Frame) (rest : List Frame) (loc : Nat → OVal)
    (extra : List OVal) (s : MS W)
    (hp : Plain ec reg) (hctx : CtxOK e ec.varargopt) (hsc : e.scoped rt = true) (hreg : rt ≤ reg)
    (hK : (compExpr rt e reg ec cs).cs.consts <+: K) (hfits : Fits (compExpr rt e reg ec cs).code)
    (hinv : Inv cf rest rt loc extra s) (htop : cf.localBase + reg ≤ s.st.reg.top) :
    CallReady env K cf rest rt loc extra s e reg ec.varargopt (compExpr rt e reg ec cs).code (compExpr rt e reg ec cs).inc := by
  cases e with
  | atom a => cases hcall
  | dots p => cases hcall
  | tbl k v => cases hcall
  | call p f args =>
    exact call_ready env K p f args (exprSound env hB hI K f) (listSound env hB hI K args) rt reg ec cs cf rest loc extra s
      hp hctx hsc hreg hK hfits hinv htop
  | mcall p r m args =>
    exact mcall_ready env K p r m args (exprSound env hB hI K r) (listSound env hB hI K args) rt reg ec cs cf rest loc extra s
      hp hctx hsc hreg hK hfits hinv htop

theorem setLastTail_append (pre : List Instr) (a b c : Nat) (cs : CState) :
    setLastTail (pre ++ [.call a b c]) cs = (pre ++ [.tailcall a b c], cs) := by
  simp [setLastTail]

theorem fits_call_tail (a b c : Nat) : (Instr.call a b c).fits = (Instr.tailcall a b c).fits := by
  simp [Instr.fits, Instr.mask]

/-- `return f(args)`: the OP_CALL of the compiled call has become an OP_TAILCALL; the callee gets the same
    arguments a call would give it, its results go to the caller's caller, adjusted to what THAT asked for. -/
theorem ret_tail_sound (env : MEnv W) (hB : BodiesOK env) (hI : InfoWF env) (K : List Konst) (e : Ex)
    (hcall : e.isCall = true) (hpar : e.paren = false)
    (cf : Frame) (rest : List Frame) (rt : Nat) (loc : Nat → OVal) (extra : List OVal) (s : MS W) (cs : CState)
    (hsc : e.scoped rt = true) (hK : (compExpr rt e rt (ecnone (-2)) cs).cs.consts <+: K)
    (hfits : Fits ((setLastTail (compExpr rt e rt (ecnone (-2)) cs).code (compExpr rt e rt (ecnone (-2)) cs).cs).1 ++
      [Instr.ret rt 0]))
    (hinv : Inv cf rest rt loc extra s) (htop : cf.localBase + rt ≤ s.st.reg.top) :
    ∃ s', Runs env K ((setLastTail (compExpr rt e rt (ecnone (-2)) cs).code (compExpr rt e rt (ecnone (-2)) cs).cs).1 ++
        [Instr.ret rt 0]) s s' ∧
      Returned cf rest s s' (evalList (env.toSEnv extra) loc [e] s.σ).1 ∧
      s'.σ = (evalList (env.toSEnv extra) loc [e] s.σ).2 := by
  have hmulti : e.isMulti = true := by
    cases e <;> simp_all [Ex.isMulti, Ex.paren, Ex.isCall]
  obtain ⟨pre0, b0, hcode0, hset0⟩ := setLastTail_call rt e rt cs hcall (Nat.le_refl _)
  rw [hset0] at hfits ⊢
  simp only [fits_append] at hfits
  have hfits0 : Fits (compExpr rt e rt (ecnone (-2)) cs).code := by
    rw [hcode0, fits_append]
    refine ⟨hfits.1.1, fun i hi => ?_⟩
    simp only [List.mem_singleton] at hi
    rw [hi, fits_call_tail]
    exact hfits.1.2 _ (List.mem_singleton.mpr rfl)
  obtain ⟨pre, lv, argc, s2, fv, avs, hcode, _, hrun, hstep, hinv2, hf, hargs, hlast, hspec⟩ :=
    callReady_of_isCall env hB hI K e hcall rt rt (ecnone (-2)) cs cf rest loc extra s (plain_ecnone _ _)
      ⟨by decide, fun _ => hmulti⟩ hsc (Nat.le_refl _) hK hfits0 hinv htop
  -- the two descriptions of the code agree
  have hpre : pre0 = pre ∧ b0 = (if lv then 0 else argc + 1) := by
    rw [hcode0] at hcode
    have h1 := List.append_inj' hcode rfl
    refine ⟨h1.1, ?_⟩
    have h2 := h1.2
    simp only [List.cons.injEq, and_true] at h2
    injection h2 with _ hb _
  obtain ⟨rfl, rfl⟩ := hpre
  have hbl : cf.base < cf.localBase := by
    obtain ⟨h1, _, _, _⟩ := hinv2.vframe; omega
  obtain ⟨s3, hex, hdone, hst3, hheap3, hw3, htop3, hwin3, hbel3⟩ :=
    execTailCall_spec env hB hI extra s2 cf rest rt (if lv then 0 else argc + 1) fv avs hinv2.stack hinv2.room hinv2.rbb hbl
      hf ⟨by cases lv <;> simp at hlast <;> omega, hargs⟩ (by cases lv <;> simp at hlast ⊢ <;> omega)
  have hrun3 : Runs env K [Instr.tailcall rt (if lv then 0 else argc + 1) 0] s2 s3 :=
    Runs.single hinv2.notDone (by simp [step, hinv2.stack, hex])
  have hrun4 : Runs env K [Instr.ret rt 0] s3 s3 := exec_done env K _ s3 hdone
  have hev : evalList (env.toSEnv extra) loc [e] s.σ = evalMulti (env.toSEnv extra) loc e s.σ := by
    simp [evalList, hmulti]
  rw [hev, hspec, hpar]
  simp only [Bool.false_eq_true, if_false]
  refine ⟨s3, Runs.append (Runs.append hrun hrun3) hrun4, ⟨hdone, hst3, htop3, hwin3, ?_⟩, ?_⟩
  · intro j hj
    rw [hbel3 j hj, hstep.below j (by have := hinv.rbase; omega)]
  · simp only [MS.σ, hw3, hheap3]

/-- **every return statement** -/
theorem compReturn_sound (env : MEnv W) (hB : BodiesOK env) (hI : InfoWF env) (K : List Konst) (es : List Ex)
    (cf : Frame) (rest : List Frame) (rt : Nat) (loc : Nat → OVal) (extra : List OVal) (s : MS W) (cs : CState)
    (hsc : scopedL rt es = true) (hK : (compReturn rt es cs).2.consts <+: K) (hfits : Fits (compReturn rt es cs).1)
    (hinv : Inv cf rest rt loc extra s) (htop : cf.localBase + rt ≤ s.st.reg.top) :
    ∃ s', Runs env K (compReturn rt es cs).1 s s' ∧
      Returned cf rest s s' (evalList (env.toSEnv extra) loc es s.σ).1 ∧
      s'.σ = (evalList (env.toSEnv extra) loc es s.σ).2 := by
  -- the general case
  have hgen : compReturn rt es cs = ((compList rt es rt cs).code ++
        [Instr.ret rt (if (compList rt es rt cs).lastMulti then 0 else (compList rt es rt cs).reg - rt + 1)],
        (compList rt es rt cs).cs) →
      ∃ s', Runs env K (compReturn rt es cs).1 s s' ∧
        Returned cf rest s s' (evalList (env.toSEnv extra) loc es s.σ).1 ∧
        s'.σ = (evalList (env.toSEnv extra) loc es s.σ).2 := by
    intro hc
    rw [hc] at hK hfits ⊢
    exact ret_list_sound env hB hI K es cf rest rt loc extra s cs hsc hK ((fits_append.mp hfits).1) hinv htop
  cases es with
  | nil => exact hgen (by simp only [compReturn])
  | cons e rest' =>
    cases rest' with
    | cons e2 rest2 => exact hgen (by simp only [compReturn])
    | nil =>
      simp only [scopedL, Bool.and_true] at hsc
      by_cases hcall : e.isCall = true
      · have hcr : compReturn rt [e] cs =
            if e.paren then ((compExpr rt e rt (ecnone 0) cs).code ++ [Instr.ret rt 0], (compExpr rt e rt (ecnone 0) cs).cs)
            else ((setLastTail (compExpr rt e rt (ecnone (-2)) cs).code (compExpr rt e rt (ecnone (-2)) cs).cs).1 ++ [Instr.ret rt 0],
                  (setLastTail (compExpr rt e rt (ecnone (-2)) cs).code (compExpr rt e rt (ecnone (-2)) cs).cs).2) := by
          cases e with
          | atom a => cases hcall
          | dots p => cases hcall
          | tbl k v => cases hcall
          | call p f args => simp only [compReturn, Ex.isCall, if_true, Ex.paren]
          | mcall p r m args => simp only [compReturn, Ex.isCall, if_true, Ex.paren]
        rw [hcr] at hK hfits ⊢
        by_cases hp : e.paren = true
        · simp only [hp, if_true] at hK hfits ⊢
          have hnm : e.isMulti = false := by cases e <;> simp_all [Ex.isMulti, Ex.paren, Ex.isCall]
          obtain ⟨s', hrun, hret, hσ⟩ := ret_paren_sound env hB hI K e hcall cf rest rt loc extra s cs hsc hK
            ((fits_append.mp hfits).1) hinv htop
          refine ⟨s', hrun, ?_, ?_⟩
          · simpa [evalList, hnm] using hret
          · simpa [evalList, hnm] using hσ
        · have hp' : e.paren = false := by simpa using hp
          simp only [hp', Bool.false_eq_true, if_false] at hK hfits ⊢
          have hKe : (compExpr rt e rt (ecnone (-2)) cs).cs.consts <+: K := by
            obtain ⟨_, _, _, hset⟩ := setLastTail_call rt e rt cs hcall (Nat.le_refl _)
            rw [hset] at hK; exact hK
          exact ret_tail_sound env hB hI K e hcall hp' cf rest rt loc extra s cs hsc hKe hfits hinv htop
      · have hcall' : e.isCall = false := by simpa using hcall
        cases e with
        | call p f args => cases hcall'
        | mcall p r m args => cases hcall'
        | dots p => exact hgen (by simp [compReturn, Ex.isCall])
        | tbl k v => exact hgen (by simp [compReturn, Ex.isCall])
        | atom a =>
          cases a with
          | loc idx =>
            have hc : compReturn rt [.atom (.loc idx)] cs = ([Instr.ret idx 2], cs) := by simp only [compReturn]
            rw [hc]
            have hidx : idx < rt := by simpa [Ex.scoped] using hsc
            obtain ⟨s', hrun, hret, hσ⟩ := ret_local_sound env K idx cf rest rt loc extra s hidx hinv htop
            exact ⟨s', hrun, by simpa [evalList, evalMulti, Ex.isMulti, evalAtom, first] using hret,
              by simpa [evalList, evalMulti, Ex.isMulti] using hσ⟩
          | num n => exact hgen (by simp [compReturn, Ex.isCall])
          | str x => exact hgen (by simp [compReturn, Ex.isCall])
          | nil => exact hgen (by simp [compReturn, Ex.isCall])
          | tru => exact hgen (by simp [compReturn, Ex.isCall])
          | fls => exact hgen (by simp [compReturn, Ex.isCall])
          | glob g => exact hgen (by simp [compReturn, Ex.isCall])

end GLua.CallCompile
