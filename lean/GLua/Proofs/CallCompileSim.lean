/-
  C02, compile-time half — the simulation statements (`ExprSound`, `ListSound`) and their proofs for atoms, `...`,
  expression lists and calls: executing what `compExpr` emits for a producer leaves in the target registers exactly
  the values the manual's evaluation (`CallShapes.evalMulti`) prescribes, adjusted as the context (`varargopt`) asks,
  and has the same effect on the world.
-/
import GLua.Proofs.CallCompileMono

namespace GLua.CallCompile
open GLua GLua.CallFrame GLua.CallFrame.Reg GLua.CallShapes GLua.Adjust GLua.CallFrame.Run

variable {W : Type}

/-! ### invariants -/

def MS.σ (s : MS W) : SState W := ⟨s.w, s.heap⟩

/-- the running function's activation, as compile time sees it: `rt` declared locals in the first `rt` registers
    (values `loc`), the `...` values `extra` in the vararg area of the frame, room for one more call frame. -/
structure Inv (cf : Frame) (rest : List Frame) (rt : Nat) (loc : Nat → OVal) (extra : List OVal) (s : MS W) : Prop where
  stack : s.st.stack = cf :: rest
  room : s.st.stack.length < s.st.maxSp
  notDone : s.done = false
  locals : ∀ r, r < rt → s.st.reg.arr (cf.localBase + r) = some (loc r)
  vframe : VarargFrame s.st.reg cf extra
  rbase : cf.returnBase ≤ cf.localBase
  rbb : cf.returnBase ≤ cf.base                 -- (results go to the caller's function slot or below)
  rtBound : rt ≤ opBitRk

/-- what a code fragment compiled "at register `base`" may change: nothing of the call stack, no register below
    `base`; `top` ends at or above `base`. -/
structure Step (s s' : MS W) (base : Nat) : Prop where
  stack : s'.st.stack = s.st.stack
  maxSp : s'.st.maxSp = s.st.maxSp
  done : s'.done = s.done
  below : ∀ j, j < base → s'.st.reg.arr j = s.st.reg.arr j
  top : base ≤ s'.st.reg.top

theorem Step.refl (s : MS W) (base : Nat) (h : base ≤ s.st.reg.top) : Step s s base :=
  ⟨rfl, rfl, rfl, fun _ _ => rfl, h⟩

theorem Step.trans {s s1 s2 : MS W} {b1 b2 : Nat} (h1 : Step s s1 b1) (h2 : Step s1 s2 b2) (hb : b1 ≤ b2) :
    Step s s2 b1 :=
  ⟨h2.stack.trans h1.stack, h2.maxSp.trans h1.maxSp, h2.done.trans h1.done,
   fun j hj => (h2.below j (by omega)).trans (h1.below j hj), by have := h2.top; omega⟩

/-- a later fragment at a LOWER base (the OP_CALL after its arguments) -/
theorem Step.trans' {s s1 s2 : MS W} {b1 b2 : Nat} (h1 : Step s s1 b1) (h2 : Step s1 s2 b2) (hb : b2 ≤ b1) :
    Step s s2 b2 :=
  ⟨h2.stack.trans h1.stack, h2.maxSp.trans h1.maxSp, h2.done.trans h1.done,
   fun j hj => (h2.below j hj).trans (h1.below j (by omega)), h2.top⟩

theorem Step.weaken {s s' : MS W} {b b' : Nat} (h : Step s s' b) (hb : b' ≤ b) : Step s s' b' :=
  ⟨h.stack, h.maxSp, h.done, fun j hj => h.below j (by omega), by have := h.top; omega⟩

theorem Inv.step {cf : Frame} {rest : List Frame} {rt : Nat} {loc : Nat → OVal} {extra : List OVal} {s s' : MS W}
    {base : Nat} (hi : Inv cf rest rt loc extra s) (h : Step s s' base) (hb : cf.localBase + rt ≤ base) :
    Inv cf rest rt loc extra s' := by
  refine ⟨h.stack.trans hi.stack, by rw [h.stack, h.maxSp]; exact hi.room, h.done.trans hi.notDone, ?_, ?_,
    hi.rbase, hi.rbb, hi.rtBound⟩
  · intro r hr; rw [h.below _ (by omega)]; exact hi.locals r hr
  · obtain ⟨h1, h2, h3, h4⟩ := hi.vframe
    refine ⟨h1, h2, by have := h.top; omega, ?_⟩
    rw [← h4]
    simp only [Reg.window]
    apply List.map_congr_left
    intro i hi'
    simp only [List.mem_range] at hi'
    exact h.below _ (by omega)

/-! ### contexts -/

/-- the expression context does not redirect the result into another register -/
def Plain (ec : ExpCtx) (reg : Nat) : Prop := ec.ctype ≠ ecLocal ∨ ec.reg = regNotDefined ∨ ec.reg = reg

theorem savereg_plain {ec : ExpCtx} {reg : Nat} (h : Plain ec reg) : savereg ec reg = reg := by
  simp only [savereg]
  rcases h with h | h | h
  · simp [h]
  · simp [h]
  · split <;> simp_all

theorem shouldmove_plain {ec : ExpCtx} {reg : Nat} (h : Plain ec reg) : shouldmove ec reg = false := by
  simp only [shouldmove]
  rcases h with h | h | h <;> simp [h]

theorem plain_ecnone (v : Int) (reg : Nat) : Plain (ecnone v) reg := Or.inr (Or.inl rfl)

/-- the contexts in which the compiler puts a producer: open (`-2`) and multi-register (`≥ 1`) ones only for the
    multi-valued producers (`isVarArgReturnExpr`). -/
def CtxOK (e : Ex) (v : Int) : Prop := v ≥ -2 ∧ ((v = -2 ∨ v ≥ 1) → e.isMulti = true)

/-- what the context gets: open (`-2`) — all values and `top` just above them; `v ≥ 0` — `v+1` registers holding
    `adjust vs (v+1)`; `-1` — nothing.  `inc` is the register increment `compileExpr` reports. -/
def Result (r : Reg) (base : Nat) (v : Int) (inc : Nat) (vs : List OVal) (isCall : Bool) : Prop :=
  base + inc ≤ r.top ∧
  (v = -2 → r.top = base + vs.length ∧ ValsAt r base vs.length vs ∧ inc = 0) ∧
  (v ≥ 0 → ValsAt r base (v + 1).toNat vs ∧ inc = (v + 1).toNat) ∧
  (isCall = true → v ≥ 0 → r.top = base + (v + 1).toNat)       -- a call leaves `top` just above its results

def ExprSound (env : MEnv W) (K : List Konst) (e : Ex) : Prop :=
  ∀ (rt reg : Nat) (ec : ExpCtx) (cs : CState) (cf : Frame) (rest : List Frame) (loc : Nat → OVal)
    (extra : List OVal) (s : MS W),
    Plain ec reg → CtxOK e ec.varargopt → e.scoped rt = true → rt ≤ reg →
    (compExpr rt e reg ec cs).cs.consts <+: K → Fits (compExpr rt e reg ec cs).code →
    Inv cf rest rt loc extra s → cf.localBase + reg ≤ s.st.reg.top →
    ∃ s', Runs env K (compExpr rt e reg ec cs).code s s' ∧ Step s s' (cf.localBase + reg) ∧
      s'.σ = (evalMulti (env.toSEnv extra) loc e s.σ).2 ∧
      Result s'.st.reg (cf.localBase + reg) ec.varargopt (compExpr rt e reg ec cs).inc
        (evalMulti (env.toSEnv extra) loc e s.σ).1 e.isCall

/-- expression lists (arguments, return values): the values sit in consecutive registers from `reg`; after an
    open-ended last producer `top` is just above them, otherwise there is one register per expression. -/
def ListSound (env : MEnv W) (K : List Konst) (es : List Ex) : Prop :=
  ∀ (rt reg : Nat) (cs : CState) (cf : Frame) (rest : List Frame) (loc : Nat → OVal)
    (extra : List OVal) (s : MS W),
    scopedL rt es = true → rt ≤ reg →
    (compList rt es reg cs).cs.consts <+: K → Fits (compList rt es reg cs).code →
    Inv cf rest rt loc extra s → cf.localBase + reg ≤ s.st.reg.top →
    ∃ s', Runs env K (compList rt es reg cs).code s s' ∧ Step s s' (cf.localBase + reg) ∧
      s'.σ = (evalList (env.toSEnv extra) loc es s.σ).2 ∧
      ValsAt s'.st.reg (cf.localBase + reg) (evalList (env.toSEnv extra) loc es s.σ).1.length
        (evalList (env.toSEnv extra) loc es s.σ).1 ∧
      (if (compList rt es reg cs).lastMulti then
         s'.st.reg.top = cf.localBase + reg + (evalList (env.toSEnv extra) loc es s.σ).1.length
       else (evalList (env.toSEnv extra) loc es s.σ).1.length = es.length ∧
            (compList rt es reg cs).reg = reg + es.length ∧
            cf.localBase + reg + es.length ≤ s'.st.reg.top)

theorem fits_append {c1 c2 : List Instr} : Fits (c1 ++ c2) ↔ Fits c1 ∧ Fits c2 := by
  simp only [Fits, List.mem_append]
  constructor
  · intro h; exact ⟨fun i hi => h i (Or.inl hi), fun i hi => h i (Or.inr hi)⟩
  · rintro ⟨h1, h2⟩ i (hi | hi)
    · exact h1 i hi
    · exact h2 i hi

theorem first_eq (vs : List OVal) : first vs = (vs[0]?).getD none := by
  cases vs <;> rfl

/-! ### atoms -/

/-- a single instruction that writes one value into `R[a]` -/
theorem single_set (env : MEnv W) (K : List Konst) (i : Instr) (s : MS W) (cf : Frame) (rest : List Frame)
    (hd : s.done = false) (a : Nat) (val : OVal) (v : Int) (e : Ex) (hv : CtxOK e v) (hm : e.isMulti = false)
    (hstep : step env K i s = .ok { s with st := { s.st with reg := s.st.reg.set (cf.localBase + a) (some val) } }) :
    ∃ s', Runs env K [i] s s' ∧ Step s s' (cf.localBase + a) ∧ s'.σ = s.σ ∧
      Result s'.st.reg (cf.localBase + a) v 1 [val] false := by
  refine ⟨_, Runs.single hd hstep, ⟨rfl, rfl, rfl, ?_, ?_⟩, rfl, ?_, ?_, ?_, fun h => by cases h⟩
  · intro j hj; exact set_arr_ne _ _ _ _ (by omega)
  · have := set_top_gt s.st.reg (cf.localBase + a) (some val); simp only; omega
  · exact set_top_gt _ _ _
  · intro h2; have := hv.2 (Or.inl h2); rw [hm] at this; cases this
  · intro h0
    have hv0 : v = 0 := by
      by_cases h : v ≥ 1
      · have := hv.2 (Or.inr h); rw [hm] at this; cases this
      · omega
    subst hv0
    refine ⟨?_, rfl⟩
    intro i hi
    have : i = 0 := by simp at hi; omega
    subst this
    simp [set_arr]

theorem atom_sound (env : MEnv W) (K : List Konst) (a : Atom) : ExprSound env K (.atom a) := by
  intro rt reg ec cs cf rest loc extra s hp hctx hsc hreg hK _ hinv htop
  have hsr := savereg_plain hp
  have hst := hinv.stack
  have hm : (Ex.atom a).isMulti = false := rfl
  simp only [compExpr, compAtomRes, hsr, Nat.lt_irrefl, if_false] at hK ⊢
  simp only [evalMulti]
  cases a with
  | num n =>
    simp only [compAtom] at hK ⊢
    have hk := constIndex_final cs (.num n) K hK
    exact single_set env K _ s cf rest hinv.notDone reg _ _ _ hctx hm (by simp [step, hst, hk, Konst.val, evalAtom])
  | str x =>
    simp only [compAtom] at hK ⊢
    have hk := constIndex_final cs (.str x) K hK
    exact single_set env K _ s cf rest hinv.notDone reg _ _ _ hctx hm (by simp [step, hst, hk, Konst.val, evalAtom])
  | nil =>
    simp only [compAtom]
    exact single_set env K _ s cf rest hinv.notDone reg _ _ _ hctx hm
      (by simp [step, hst, setNils, evalAtom, lnil])
  | tru =>
    simp only [compAtom]
    exact single_set env K _ s cf rest hinv.notDone reg _ _ _ hctx hm (by simp [step, hst, evalAtom])
  | fls =>
    simp only [compAtom]
    exact single_set env K _ s cf rest hinv.notDone reg _ _ _ hctx hm (by simp [step, hst, evalAtom])
  | loc r =>
    simp only [compAtom]
    have hr : r < rt := by simpa [Ex.scoped] using hsc
    exact single_set env K _ s cf rest hinv.notDone reg _ _ _ hctx hm
      (by simp [step, hst, evalAtom, Reg.get, hinv.locals r hr])
  | glob g =>
    simp only [compAtom] at hK ⊢
    have hk := constIndex_final cs (.str g) K hK
    exact single_set env K _ s cf rest hinv.notDone reg _ _ _ hctx hm
      (by simp [step, hst, hk, evalAtom, MEnv.toSEnv, MS.σ])

end GLua.CallCompile
