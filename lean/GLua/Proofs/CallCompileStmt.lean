/-
  C02, compile-time half — statements: call statements, `return` (general list, `return local`, `return (f(…))`),
  local declarations (`compileRegAssignment`: one register per name, the open-ended last producer asked for the
  remaining names, LOADNIL padding, surplus expressions evaluated and dropped).
-/
import GLua.Proofs.CallCompileExpr

namespace GLua.CallCompile
open GLua GLua.CallFrame GLua.CallFrame.Reg GLua.CallShapes GLua.Adjust GLua.CallFrame.Run

variable {W : Type}

/-! ### the running activation at statement boundaries -/

/-- the machine state `s` realises the Spec activation `a`: its declared locals in the first registers, `top` at or
    above them, the same world and heap. -/
structure Sim (cf : Frame) (rest : List Frame) (extra : List OVal) (a : Act W) (s : MS W) : Prop where
  inv : Inv cf rest a.nloc a.loc extra s
  top : cf.localBase + a.nloc ≤ s.st.reg.top
  σ : s.σ = a.σ

/-- the function has returned `vals`: its frame is popped and the caller finds `adjust vals NRet` at `ReturnBase`. -/
structure Returned (cf : Frame) (rest : List Frame) (s0 s' : MS W) (vals : List OVal) : Prop where
  done : s'.done = true
  stack : s'.st.stack = rest
  top : s'.st.reg.top = cf.returnBase + (adjust vals cf.nret).length
  window : s'.st.reg.window cf.returnBase (adjust vals cf.nret).length = (adjust vals cf.nret).map some
  below : ∀ j, j < cf.returnBase → s'.st.reg.arr j = s0.st.reg.arr j

theorem ecVararg_ne : ecVararg ≠ ecLocal := by decide
theorem ecNone_ne : ecNone ≠ ecLocal := by decide

/-! ### OP_RETURN -/

theorem ret_instr_sound (env : MEnv W) (K : List Konst) (cf : Frame) (rest : List Frame) (rt : Nat)
    (loc : Nat → OVal) (extra : List OVal) (s : MS W) (A B : Nat) (vals : List OVal)
    (hinv : Inv cf rest rt loc extra s) (hav : RetAvail s.st.reg (cf.localBase + A) B vals)
    (hv : ValsAt s.st.reg (cf.localBase + A) vals.length vals) :
    ∃ s', Runs env K [.ret A B] s s' ∧ Returned cf rest s s' vals ∧ s'.σ = s.σ := by
  obtain ⟨st', hop, hst', _, htop', hwin', hbel'⟩ :=
    opReturn_delivers s.st cf rest A B vals hinv.stack (by have := hinv.rbase; omega) hav (valsAt_window hv)
  exact ⟨{ s with st := st', done := true }, Runs.single hinv.notDone (by simp [step, hinv.stack, hop]),
    ⟨rfl, hst', htop', hwin', hbel'⟩, rfl⟩

/-- the general case of `compileReturnStmt`: the expression list, then `RETURN a count` -/
theorem ret_list_sound (env : MEnv W) (hB : BodiesOK env) (hI : InfoWF env) (K : List Konst) (es : List Ex)
    (cf : Frame) (rest : List Frame) (rt : Nat) (loc : Nat → OVal) (extra : List OVal) (s : MS W) (cs : CState)
    (hsc : scopedL rt es = true) (hK : (compList rt es rt cs).cs.consts <+: K) (hfits : Fits (compList rt es rt cs).code)
    (hinv : Inv cf rest rt loc extra s) (htop : cf.localBase + rt ≤ s.st.reg.top) :
    ∃ s', Runs env K ((compList rt es rt cs).code ++
        [.ret rt (if (compList rt es rt cs).lastMulti then 0 else (compList rt es rt cs).reg - rt + 1)]) s s' ∧
      Returned cf rest s s' (evalList (env.toSEnv extra) loc es s.σ).1 ∧
      s'.σ = (evalList (env.toSEnv extra) loc es s.σ).2 := by
  obtain ⟨s1, hrun1, hstep1, hσ1, hv1, hlast1⟩ := listSound env hB hI K es rt rt cs cf rest loc extra s hsc
    (Nat.le_refl _) hK hfits hinv htop
  have hinv1 := hinv.step hstep1 (Nat.le_refl _)
  obtain ⟨vals, hvals⟩ : ∃ vals, (evalList (env.toSEnv extra) loc es s.σ).1 = vals := ⟨_, rfl⟩
  rw [hvals] at hv1 hlast1 ⊢
  have hav : RetAvail s1.st.reg (cf.localBase + rt)
      (if (compList rt es rt cs).lastMulti then 0 else (compList rt es rt cs).reg - rt + 1) vals := by
    by_cases hl : (compList rt es rt cs).lastMulti = true
    · simp only [hl, if_true] at hlast1 ⊢
      exact ⟨(fun h => by cases h), (fun h => by omega), fun _ => ⟨by omega, by omega⟩⟩
    · simp only [hl, Bool.false_eq_true, if_false] at hlast1 ⊢
      obtain ⟨h1, h2, h3⟩ := hlast1
      rw [h2]
      refine ⟨fun h => List.length_eq_zero_iff.mp (by omega), fun _ => ⟨by omega, by omega⟩, fun h => by omega⟩
  obtain ⟨s2, hrun2, hret2, hσ2⟩ := ret_instr_sound env K cf rest rt loc extra s1 rt _ vals hinv1 hav hv1
  refine ⟨s2, Runs.append hrun1 hrun2, ⟨hret2.done, hret2.stack, hret2.top, hret2.window, ?_⟩, by rw [hσ2, hσ1]⟩
  intro j hj
  rw [hret2.below j hj, hstep1.below j (by have := hinv.rbase; omega)]

/-- `return x` for a local `x`: `RETURN idx 2`, straight from the local's register -/
theorem ret_local_sound (env : MEnv W) (K : List Konst) (idx : Nat)
    (cf : Frame) (rest : List Frame) (rt : Nat) (loc : Nat → OVal) (extra : List OVal) (s : MS W)
    (hidx : idx < rt) (hinv : Inv cf rest rt loc extra s) (htop : cf.localBase + rt ≤ s.st.reg.top) :
    ∃ s', Runs env K [.ret idx 2] s s' ∧ Returned cf rest s s' [loc idx] ∧ s'.σ = s.σ := by
  apply ret_instr_sound env K cf rest rt loc extra s idx 2 [loc idx] hinv
  · exact ⟨(fun h => by cases h), (fun _ => ⟨rfl, by omega⟩), (fun h => by cases h)⟩
  · intro i hi
    have hi0 : i = 0 := by simp at hi; omega
    subst hi0
    rw [Nat.add_zero, hinv.locals idx hidx]; rfl

/-- `return (f(args))`: the call is compiled for ONE result (C = 2), which leaves `top` just above it, so the open
    `RETURN a 0` returns exactly that one value. -/
theorem ret_paren_sound (env : MEnv W) (hB : BodiesOK env) (hI : InfoWF env) (K : List Konst) (e : Ex)
    (hcall : e.isCall = true)
    (cf : Frame) (rest : List Frame) (rt : Nat) (loc : Nat → OVal) (extra : List OVal) (s : MS W) (cs : CState)
    (hsc : e.scoped rt = true) (hK : (compExpr rt e rt (ecnone 0) cs).cs.consts <+: K)
    (hfits : Fits (compExpr rt e rt (ecnone 0) cs).code)
    (hinv : Inv cf rest rt loc extra s) (htop : cf.localBase + rt ≤ s.st.reg.top) :
    ∃ s', Runs env K ((compExpr rt e rt (ecnone 0) cs).code ++ [.ret rt 0]) s s' ∧
      Returned cf rest s s' [first (evalMulti (env.toSEnv extra) loc e s.σ).1] ∧
      s'.σ = (evalMulti (env.toSEnv extra) loc e s.σ).2 := by
  obtain ⟨s1, hrun1, hstep1, hσ1, hres1⟩ := exprSound env hB hI K e rt rt (ecnone 0) cs cf rest loc extra s
    (plain_ecnone _ _) ⟨by decide, fun h => by rcases h with h | h <;> (simp only [ecnone] at h; omega)⟩ hsc
    (Nat.le_refl _) hK hfits hinv htop
  obtain ⟨_, _, h0, hex⟩ := hres1
  obtain ⟨hv1, _⟩ := h0 (by simp [ecnone])
  have htop1 := hex hcall (by simp [ecnone])
  have hinv1 := hinv.step hstep1 (Nat.le_refl _)
  obtain ⟨s2, hrun2, hret2, hσ2⟩ := ret_instr_sound env K cf rest rt loc extra s1 rt 0
    [first (evalMulti (env.toSEnv extra) loc e s.σ).1] hinv1
    ⟨(fun h => by cases h), (fun h => by omega), fun _ => ⟨by omega, by rw [htop1]; simp [ecnone]⟩⟩
    (by
      intro i hi
      have hi0 : i = 0 := by simp at hi; omega
      subst hi0
      rw [hv1 0 (by decide)]; simp [first_eq])
  refine ⟨s2, Runs.append hrun1 hrun2, ⟨hret2.done, hret2.stack, hret2.top, hret2.window, ?_⟩, by rw [hσ2, hσ1]⟩
  intro j hj
  rw [hret2.below j hj, hstep1.below j (by have := hinv.rbase; omega)]

/-! ### local declarations -/

theorem setNils_arr (r : Reg) (i n j : Nat) :
    (setNils r i n).arr j = if i ≤ j ∧ j < i + n then lnil else r.arr j := by
  induction n generalizing r i with
  | zero => simp only [setNils]; rw [if_neg (by omega)]
  | succ k ih =>
    simp only [setNils, ih, set_arr]
    by_cases h1 : i + 1 ≤ j ∧ j < i + 1 + k
    · rw [if_pos h1, if_pos ⟨by omega, by omega⟩]
    · rw [if_neg h1]
      by_cases h2 : j = i
      · rw [if_pos h2, if_pos ⟨by omega, by omega⟩]
      · rw [if_neg h2, if_neg (by omega)]

theorem setNils_top (r : Reg) (i n : Nat) : r.top ≤ (setNils r i n).top ∧ (0 < n → i + n ≤ (setNils r i n).top) := by
  induction n generalizing r i with
  | zero => simp [setNils]
  | succ k ih =>
    simp only [setNils]
    obtain ⟨h1, h2⟩ := ih (r.set i lnil) (i + 1)
    have h3 := set_top_le r i lnil
    have h4 := set_top_gt r i lnil
    refine ⟨by omega, fun _ => ?_⟩
    by_cases hk : 0 < k
    · have := h2 hk; omega
    · have : k = 0 := by omega
      subst this; simp only [setNils] at h1 ⊢; omega

theorem ctxOK_m1 (e : Ex) : CtxOK e (-1) := ⟨by decide, fun h => by rcases h with h | h <;> omega⟩
theorem ctxOK_0 (e : Ex) : CtxOK e 0 := ⟨by decide, fun h => by rcases h with h | h <;> omega⟩

theorem extraLoop_mono (rt : Nat) : ∀ (es : List Ex) (reg : Nat) (cs : CState),
    cs.consts <+: (extraLoop rt es reg cs).2.consts
  | [], _, _ => List.prefix_refl _
  | e :: es, reg, cs => by
    simp only [extraLoop]
    exact (compExpr_mono rt e reg _ cs).trans (extraLoop_mono rt es _ _)

/-- "extra right exprs": evaluated (the last one for no value, the others for one), nothing is kept -/
theorem extraLoop_sound (env : MEnv W) (hB : BodiesOK env) (hI : InfoWF env) (K : List Konst) :
    ∀ (es : List Ex) (rt reg : Nat) (cs : CState) (cf : Frame) (rest : List Frame) (loc : Nat → OVal)
      (extra : List OVal) (s : MS W),
    scopedL rt es = true → rt ≤ reg → (extraLoop rt es reg cs).2.consts <+: K → Fits (extraLoop rt es reg cs).1 →
    Inv cf rest rt loc extra s → cf.localBase + reg ≤ s.st.reg.top →
    ∃ s', Runs env K (extraLoop rt es reg cs).1 s s' ∧ Step s s' (cf.localBase + reg) ∧
      s'.σ = (evalList (env.toSEnv extra) loc es s.σ).2
  | [], rt, reg, cs, cf, rest, loc, extra, s, _, _, _, _, _, htop =>
    ⟨s, Runs.nil env K s, Step.refl s _ htop, rfl⟩
  | e :: es, rt, reg, cs, cf, rest, loc, extra, s, hsc, hreg, hK, hfits, hinv, htop => by
    simp only [scopedL, Bool.and_eq_true] at hsc
    obtain ⟨r, hr⟩ : ∃ r, compExpr rt e reg ⟨ecNone, reg, if es.isEmpty then -1 else 0⟩ cs = r := ⟨_, rfl⟩
    obtain ⟨l, hl⟩ : ∃ l, extraLoop rt es (reg + r.inc) r.cs = l := ⟨_, rfl⟩
    have hc : extraLoop rt (e :: es) reg cs = (r.code ++ l.1, l.2) := by simp only [extraLoop, hr, hl]
    rw [hc] at hK hfits ⊢
    simp only [fits_append] at hfits
    have hmono : r.cs.consts <+: l.2.consts := by
      rw [← hl]; exact extraLoop_mono rt es _ _
    have hpl : Plain ⟨ecNone, reg, if es.isEmpty then (-1 : Int) else 0⟩ reg := Or.inl ecNone_ne
    cases hes : es with
    | nil =>
      subst hes
      simp only [List.isEmpty_nil, if_true] at hr hpl
      have hl' : l = ([], r.cs) := by rw [← hl]; rfl
      obtain ⟨s1, hrun1, hstep1, hσ1, _⟩ := exprSound env hB hI K e rt reg ⟨ecNone, reg, -1⟩ cs cf rest loc extra s
        hpl (ctxOK_m1 e) hsc.1 hreg
        (by rw [hr]; exact hmono.trans hK) (by rw [hr]; exact hfits.1) hinv htop
      rw [hr] at hrun1
      refine ⟨s1, by rw [hl']; simpa using hrun1, hstep1, ?_⟩
      rw [hσ1]
      simp only [evalList, List.isEmpty_nil, Bool.true_and]
      split <;> rfl
    | cons e' es' =>
      have hne : es.isEmpty = false := by rw [hes]; rfl
      simp only [hne, Bool.false_eq_true, if_false] at hr hpl
      obtain ⟨s1, hrun1, hstep1, hσ1, hres1⟩ := exprSound env hB hI K e rt reg ⟨ecNone, reg, 0⟩ cs cf rest loc extra s
        hpl (ctxOK_0 e) hsc.1 hreg
        (by rw [hr]; exact hmono.trans hK) (by rw [hr]; exact hfits.1) hinv htop
      rw [hr] at hrun1 hres1
      obtain ⟨ht1, _, h0, _⟩ := hres1
      obtain ⟨_, hinc1⟩ := h0 (Int.le_refl _)
      have hinc1' : r.inc = 1 := by rw [hinc1]; rfl
      rw [hinc1'] at hl ht1
      have hinv1 := hinv.step hstep1 (by omega)
      obtain ⟨s2, hrun2, hstep2, hσ2⟩ := extraLoop_sound env hB hI K es rt (reg + 1) r.cs cf rest loc extra s1 hsc.2
        (by omega) (by rw [hl]; exact hK) (by rw [hl]; exact hfits.2) hinv1 (by omega)
      rw [hl] at hrun2
      refine ⟨s2, Runs.append hrun1 hrun2, hstep1.trans (by rw [← Nat.add_assoc] at hstep2; exact hstep2) (by omega), ?_⟩
      rw [hσ2, hσ1, ← hes]
      simp only [evalList, hne, Bool.false_and, Bool.false_eq_true, if_false]

/-- what `compileRegAssignment` does after its first loop (LOADNIL padding, surplus expressions) -/
def finishRA (rt lennames : Nat) (l : List Instr × CState × Nat × Nat × List Ex) : List Instr × CState :=
  ((l.1 ++ (if lennames > l.2.2.1 then [Instr.loadnil l.2.2.2.1 (l.2.2.2.1 + (lennames - l.2.2.1 - 1))] else [])) ++
     (extraLoop rt l.2.2.2.2 (if lennames > l.2.2.1 then l.2.2.2.1 + (lennames - l.2.2.1 - 1) else l.2.2.2.1) l.2.1).1,
   (extraLoop rt l.2.2.2.2 (if lennames > l.2.2.1 then l.2.2.2.1 + (lennames - l.2.2.1 - 1) else l.2.2.2.1) l.2.1).2)

theorem compRegAssignment_eq (rt n : Nat) (es : List Ex) (reg nv : Nat) (cs : CState) :
    compRegAssignment rt n es reg nv cs = finishRA rt n (regAssignLoop rt n nv es 0 reg cs) := rfl

theorem finishRA_cons (rt n : Nat) (c : List Instr) (l : List Instr × CState × Nat × Nat × List Ex) :
    finishRA rt n (c ++ l.1, l.2) = (c ++ (finishRA rt n l).1, (finishRA rt n l).2) := by
  simp [finishRA, List.append_assoc]

theorem finishRA_mono (rt n : Nat) (l : List Instr × CState × Nat × Nat × List Ex) :
    l.2.1.consts <+: (finishRA rt n l).2.consts := extraLoop_mono rt _ _ _

theorem regAssignLoop_mono (rt n nv : Nat) : ∀ (es : List Ex) (na reg : Nat) (cs : CState),
    cs.consts <+: (regAssignLoop rt n nv es na reg cs).2.1.consts
  | [], _, _, _ => List.prefix_refl _
  | e :: es, na, reg, cs => by
    simp only [regAssignLoop]
    split
    · split
      · exact compExpr_mono rt e reg _ cs
      · exact (compExpr_mono rt e reg _ cs).trans (regAssignLoop_mono rt n nv es _ _ _)
    · exact List.prefix_refl _

/-- `compileRegAssignment` from name number `na` on: the remaining `n - na` names get the values of the expression
    list, adjusted (nil-padded by LOADNIL, the open-ended last producer asked for exactly the rest); all
    expressions are evaluated. -/
theorem regAssign_sound (env : MEnv W) (hB : BodiesOK env) (hI : InfoWF env) (K : List Konst) (n : Nat) :
    ∀ (es : List Ex) (rt na reg : Nat) (cs : CState) (cf : Frame) (rest : List Frame) (loc : Nat → OVal)
      (extra : List OVal) (s : MS W),
    scopedL rt es = true → rt ≤ reg → na ≤ n →
    (finishRA rt n (regAssignLoop rt n n es na reg cs)).2.consts <+: K →
    Fits (finishRA rt n (regAssignLoop rt n n es na reg cs)).1 →
    Inv cf rest rt loc extra s → cf.localBase + reg ≤ s.st.reg.top →
    ∃ s', Runs env K (finishRA rt n (regAssignLoop rt n n es na reg cs)).1 s s' ∧ Step s s' (cf.localBase + reg) ∧
      s'.σ = (evalList (env.toSEnv extra) loc es s.σ).2 ∧
      ValsAt s'.st.reg (cf.localBase + reg) (n - na) (evalList (env.toSEnv extra) loc es s.σ).1 ∧
      cf.localBase + reg + (n - na) ≤ s'.st.reg.top
  | [], rt, na, reg, cs, cf, rest, loc, extra, s, _, _, hna, _, _, hinv, htop => by
    by_cases hlt : n > na
    · have hc : finishRA rt n (regAssignLoop rt n n [] na reg cs) = ([.loadnil reg (reg + (n - na - 1))], cs) := by
        simp [finishRA, regAssignLoop, extraLoop, hlt]
      rw [hc]
      obtain ⟨s', hs'⟩ : ∃ s' : MS W, s' = { s with st := { s.st with reg := setNils s.st.reg (cf.localBase + reg) (n - na) } } :=
        ⟨_, rfl⟩
      have hcount : reg + (n - na - 1) + 1 - reg = n - na := by omega
      have ht := setNils_top s.st.reg (cf.localBase + reg) (n - na)
      refine ⟨s', Runs.single hinv.notDone (by simp [step, hinv.stack, hcount, hs']), ⟨by rw [hs'], by rw [hs'], by rw [hs'], ?_, ?_⟩,
        by rw [hs']; rfl, ?_, ?_⟩
      · intro j hj; rw [hs']; simp only [setNils_arr]; rw [if_neg (by omega)]
      · rw [hs']; simp only; omega
      · intro i hi
        rw [hs']; simp only [setNils_arr]
        rw [if_pos ⟨by omega, by omega⟩]
        simp [evalList, lnil]
      · rw [hs']; simp only; have := ht.2 (by omega); omega
    · have hc : finishRA rt n (regAssignLoop rt n n [] na reg cs) = ([], cs) := by
        simp [finishRA, regAssignLoop, extraLoop, hlt]
      rw [hc]
      exact ⟨s, Runs.nil env K s, Step.refl s _ htop, rfl, fun i hi => by omega, by omega⟩
  | e :: es, rt, na, reg, cs, cf, rest, loc, extra, s, hsc, hreg, hna, hK, hfits, hinv, htop => by
    have hsc' := hsc
    simp only [scopedL, Bool.and_eq_true] at hsc'
    by_cases hlt : na < n
    · by_cases hm : (e.isMulti && es.isEmpty) = true
      · -- the open-ended last producer is asked for the remaining names
        have hes : es = [] := by simp only [Bool.and_eq_true, List.isEmpty_iff] at hm; exact hm.2
        subst hes
        obtain ⟨r, hr⟩ : ∃ r, compExpr rt e reg ⟨ecVararg, reg, ((n - na : Nat) : Int) - 1⟩ cs = r := ⟨_, rfl⟩
        have hmul : e.isMulti = true := by simp only [Bool.and_eq_true] at hm; exact hm.1
        have hc : finishRA rt n (regAssignLoop rt n n [e] na reg cs) = (r.code, r.cs) := by
          simp only [regAssignLoop, hlt, if_true, List.isEmpty_nil, Bool.and_true, hmul, hr]
          simp [finishRA, extraLoop]
        rw [hc] at hK hfits ⊢
        obtain ⟨s1, hrun1, hstep1, hσ1, hres1⟩ := exprSound env hB hI K e rt reg ⟨ecVararg, reg, ((n - na : Nat) : Int) - 1⟩
          cs cf rest loc extra s (Or.inl ecVararg_ne)
          ⟨by show ((n - na : Nat) : Int) - 1 ≥ -2; omega,
           fun _ => by simp only [Bool.and_eq_true] at hm; exact hm.1⟩ hsc'.1 hreg
          (by rw [hr]; exact hK) (by rw [hr]; exact hfits) hinv htop
        rw [hr] at hrun1 hres1
        obtain ⟨ht1, _, h0, _⟩ := hres1
        obtain ⟨hv1, hinc1⟩ := h0 (by show ((n - na : Nat) : Int) - 1 ≥ 0; omega)
        have hcnt : (((n - na : Nat) : Int) - 1 + 1).toNat = n - na := by omega
        change ValsAt _ _ (((n - na : Nat) : Int) - 1 + 1).toNat _ at hv1
        change r.inc = (((n - na : Nat) : Int) - 1 + 1).toNat at hinc1
        rw [hcnt] at hv1 hinc1
        rw [hinc1] at ht1
        refine ⟨s1, hrun1, hstep1, ?_, ?_, ht1⟩
        · rw [hσ1]; simp only [evalList, List.isEmpty_nil, Bool.true_and]
          simp only [Bool.and_eq_true] at hm
          simp [hm.1]
        · simp only [evalList, List.isEmpty_nil, Bool.true_and]
          simp only [Bool.and_eq_true] at hm
          simp only [hm.1, if_true]
          exact hv1
      · -- one register for this name
        have hm' : (e.isMulti && es.isEmpty) = false := by simpa using hm
        have hm2 : (es.isEmpty && e.isMulti) = false := by rw [Bool.and_comm]; exact hm'
        obtain ⟨r, hr⟩ : ∃ r, compExpr rt e reg ⟨ecLocal, reg, 0⟩ cs = r := ⟨_, rfl⟩
        obtain ⟨l, hl⟩ : ∃ l, regAssignLoop rt n n es (na + 1) (reg + 1) r.cs = l := ⟨_, rfl⟩
        have hc : finishRA rt n (regAssignLoop rt n n (e :: es) na reg cs) =
            (r.code ++ (finishRA rt n l).1, (finishRA rt n l).2) := by
          rw [← finishRA_cons]
          simp only [regAssignLoop, hlt, if_true, hm', Bool.false_eq_true, if_false, hr, hl]
        rw [hc] at hK hfits ⊢
        simp only [fits_append] at hfits
        have hK1 : r.cs.consts <+: K := by
          have h1 : r.cs.consts <+: l.2.1.consts := by
            rw [← hl]; exact regAssignLoop_mono rt n n es _ _ _
          exact (h1.trans (finishRA_mono rt n l)).trans hK
        obtain ⟨s1, hrun1, hstep1, hσ1, hres1⟩ := exprSound env hB hI K e rt reg ⟨ecLocal, reg, 0⟩ cs cf rest loc extra s
          (Or.inr (Or.inr rfl)) (ctxOK_0 e) hsc'.1 hreg (by rw [hr]; exact hK1) (by rw [hr]; exact hfits.1) hinv htop
        rw [hr] at hrun1 hres1
        obtain ⟨ht1, _, h0, _⟩ := hres1
        obtain ⟨hv1, hinc1⟩ := h0 (Int.le_refl _)
        have hinc1' : r.inc = 1 := by rw [hinc1]; rfl
        rw [hinc1'] at ht1
        have hinv1 := hinv.step hstep1 (by omega)
        obtain ⟨s2, hrun2, hstep2, hσ2, hv2, ht2⟩ := regAssign_sound env hB hI K n es rt (na + 1) (reg + 1) r.cs cf rest loc
          extra s1 hsc'.2 (by omega) (by omega) (by rw [hl]; exact hK) (by rw [hl]; exact hfits.2) hinv1 (by omega)
        rw [hl] at hrun2
        rw [hσ1] at hσ2 hv2
        refine ⟨s2, Runs.append hrun1 hrun2, hstep1.trans (by rw [← Nat.add_assoc] at hstep2; exact hstep2) (by omega),
          ?_, ?_, by omega⟩
        · rw [hσ2]; simp only [evalList, hm2, Bool.false_eq_true, if_false]
        · simp only [evalList, hm2, Bool.false_eq_true, if_false]
          intro i hi
          cases i with
          | zero =>
            rw [Nat.add_zero, hstep2.below _ (by omega)]
            have := hv1 0 (by show 0 < ((0 : Int) + 1).toNat; decide)
            rw [Nat.add_zero] at this
            rw [this]; simp [first_eq]
          | succ k =>
            have := hv2 k (by omega)
            rw [show cf.localBase + (reg + 1) + k = cf.localBase + reg + (k + 1) by omega] at this
            rw [this]; simp
    · -- no names left: the remaining expressions are evaluated and dropped
      have hc : finishRA rt n (regAssignLoop rt n n (e :: es) na reg cs) =
          ((extraLoop rt (e :: es) reg cs).1, (extraLoop rt (e :: es) reg cs).2) := by
        have h1 : ¬ n > na := by omega
        simp [finishRA, regAssignLoop, hlt, h1]
      rw [hc] at hK hfits ⊢
      obtain ⟨s1, hrun1, hstep1, hσ1⟩ := extraLoop_sound env hB hI K (e :: es) rt reg cs cf rest loc extra s hsc hreg hK
        hfits hinv htop
      exact ⟨s1, hrun1, hstep1, hσ1, fun i hi => by omega, by have := hstep1.top; omega⟩

end GLua.CallCompile
