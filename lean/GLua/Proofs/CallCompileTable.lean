/-
  C02, compile-time half — table constructors (`compileTableExpr`): the field loop with its SETLIST flush decisions.
  `fields_cons_sound` / `tbl_sound`: for every field list — any number of positional, keyed and open-ended last
  fields, across every batch boundary, with batch numbers beyond 511 in the extra word — the positional value
  number k is stored under index k, exactly once and in order, and the keyed fields are stored as written.
-/
import GLua.Proofs.CallCompileHeap

namespace GLua.CallCompile
open GLua GLua.CallFrame GLua.CallFrame.Reg GLua.CallShapes GLua.Adjust GLua.CallFrame.Run

variable {W : Type}

theorem allVals_map (l : List Nat) (f : Nat → Int) (g : Nat → OVal) :
    allVals (l.map (fun i => (f i, some (g i)))) = some (l.map (fun i => (f i, g i))) := by
  induction l with
  | nil => rfl
  | cons a r ih => simp [allVals, ih]

/-- what OP_SETLIST stores when the registers behind the table hold `vals`. -/
theorem opSetList_vals (st : St) (cf : Frame) (rest : List Frame) (hst : st.stack = cf :: rest)
    (A B C extra tid : Nat) (vals : List OVal)
    (ht : st.reg.arr (cf.localBase + A) = some (some (.ref tid)))
    (hn : (if B = 0 then st.reg.top - (cf.localBase + A) - 1 else B) = vals.length)
    (hvals : ValsAt st.reg (cf.localBase + A + 1) vals.length vals) :
    opSetList st A B C extra = .ok ((List.range vals.length).map (fun i =>
      ((((if C = 0 then extra else C : Nat) : Int) - 1) * (Generated.FieldsPerFlush : Int) + ((i + 1 : Nat) : Int),
       some ((vals[i]?).getD none)))) := by
  simp only [opSetList, hst, Reg.get, ht, hn]
  congr 1
  apply List.map_congr_left
  intro i hi
  simp only [List.mem_range] at hi
  have := hvals i hi
  rw [show cf.localBase + A + 1 + i = cf.localBase + A + (i + 1) by omega] at this
  rw [this]

/-- the flush of `compileTableExpr`: the SETLIST (with its extra word beyond 511 batches) stores the pending values
    `vals` under the indices that follow the `base` values stored before. -/
theorem flush_sound (env : MEnv W) (K : List Konst) (s : MS W) (cf : Frame) (rest : List Frame)
    (hst : s.st.stack = cf :: rest) (hd : s.done = false) (tablereg tid ac : Nat) (lv : Bool) (vals : List OVal)
    (ht : s.st.reg.arr (cf.localBase + tablereg) = some (some (.ref tid)))
    (hvals : ValsAt s.st.reg (cf.localBase + tablereg + 1) vals.length vals)
    (hcount : if lv then s.st.reg.top = cf.localBase + tablereg + 1 + vals.length
              else 1 ≤ ac ∧ vals.length = (if ac % fieldsPerFlush = 0 then fieldsPerFlush else ac % fieldsPerFlush)) :
    Runs env K [flushInstr tablereg ac lv] s
      { s with heap := (modifyAt s.heap tid
          (addArr (posStores (if lv then ac - ac % fieldsPerFlush else ac - vals.length) vals))) } := by
  have h50 : fieldsPerFlush = 50 := rfl
  have hG : (Generated.FieldsPerFlush : Int) = 50 := rfl
  -- the batch number and the element count of the instruction
  obtain ⟨c, hc⟩ : ∃ c, (if lv then ac / fieldsPerFlush + 1 else (ac - 1) / fieldsPerFlush + 1) = c := ⟨_, rfl⟩
  obtain ⟨b, hb⟩ : ∃ b, (if lv then 0 else (if ac % fieldsPerFlush = 0 then fieldsPerFlush else ac % fieldsPerFlush)) = b :=
    ⟨_, rfl⟩
  have hinstr : flushInstr tablereg ac lv = if c > 511 then .setlist tablereg b 0 (some c) else .setlist tablereg b c none := by
    simp only [flushInstr, ← hc, ← hb]
  have hcpos : 1 ≤ c := by rw [← hc, h50]; split <;> omega
  have hn : (if b = 0 then s.st.reg.top - (cf.localBase + tablereg) - 1 else b) = vals.length := by
    rw [← hb]
    cases lv with
    | true => simp only [if_true] at hcount ⊢; omega
    | false =>
      simp only [Bool.false_eq_true, if_false] at hcount ⊢
      rw [h50] at hcount ⊢
      obtain ⟨_, h2⟩ := hcount
      by_cases h0 : ac % 50 = 0
      · simp only [h0, if_true] at h2 ⊢
        simp only [show (50 : Nat) ≠ 0 by decide, if_false]; omega
      · simp only [h0, if_false] at h2 ⊢
        omega
  have hbase : ∀ i : Nat, ((c : Int) - 1) * 50 + ((i + 1 : Nat) : Int) =
      (((if lv then ac - ac % fieldsPerFlush else ac - vals.length) + i + 1 : Nat) : Int) := by
    intro i
    rw [← hc, h50]
    cases lv with
    | true => simp only [if_true]; omega
    | false =>
      simp only [Bool.false_eq_true, if_false] at hcount ⊢
      rw [h50] at hcount
      have h1 := hcount.1
      have h2 := hcount.2
      split at h2 <;> omega
  have hstores : ∀ (C extra : Nat), (if C = 0 then extra else C) = c →
      opSetList s.st tablereg b C extra = .ok ((List.range vals.length).map (fun i =>
        ((((if lv then ac - ac % fieldsPerFlush else ac - vals.length) + i + 1 : Nat) : Int), some ((vals[i]?).getD none)))) := by
    intro C extra hC
    rw [opSetList_vals s.st cf rest hst tablereg b C extra tid vals ht hn hvals, hC, hG]
    congr 1
    apply List.map_congr_left
    intro i _
    rw [hbase i]
  rw [hinstr]
  by_cases hbig : c > 511
  · simp only [hbig, if_true]
    apply Runs.single hd
    simp only [step, hst, Option.isNone_some, Bool.false_eq_true, and_false, if_false, Option.getD_some]
    rw [hstores 0 c (by simp)]
    simp only [bind_ok, Reg.get, ht, allVals_map]
    rfl
  · simp only [hbig, if_false]
    apply Runs.single hd
    have hc0 : c ≠ 0 := by omega
    simp only [step, hst, hc0, false_and, if_false]
    rw [hstores c _ (by simp [hc0])]
    simp only [bind_ok, Reg.get, ht, allVals_map]
    rfl

/-- OP_SETTABLE / OP_SETTABLEKS with RK operands that denote `k` and `v` -/
theorem settable_sound (env : MEnv W) (K : List Konst) (s : MS W) (cf : Frame) (rest : List Frame)
    (hst : s.st.stack = cf :: rest) (hd : s.done = false) (tablereg tid b c nb nc : Nat) (k v : OVal) (isStr : Bool)
    (ht : s.st.reg.arr (cf.localBase + tablereg) = some (some (.ref tid)))
    (hk : RKHolds K s.st.reg cf.localBase b nb k) (hv : RKHolds K s.st.reg cf.localBase c nc v) :
    Runs env K [if isStr then .settableks tablereg b c else .settable tablereg b c] s
      { s with heap := modifyAt s.heap tid (addKeyed k v) } := by
  apply Runs.single hd
  cases isStr <;> simp [step, hst, Reg.get, ht, hk.rkValue, hv.rkValue] <;> rfl

/-! ### the field loop -/

theorem valsAt_append {r : Reg} {base : Nat} {a b : List OVal} (ha : ValsAt r base a.length a)
    (hb : ValsAt r (base + a.length) b.length b) : ValsAt r base (a ++ b).length (a ++ b) := by
  intro i hi
  simp only [List.length_append] at hi
  by_cases hia : i < a.length
  · rw [ha i hia, List.getElem?_append_left hia]
  · have := hb (i - a.length) (by omega)
    rw [show base + a.length + (i - a.length) = base + i by omega] at this
    rw [this, List.getElem?_append_right (by omega)]

theorem key_val (env : SEnv W) (loc : Nat → OVal) (w : W) (k : Key) : evalAtom env loc w k.atom = k.val := by
  cases k <;> rfl

/-- the field loop from a state in which `pvals` (the positional values of the current batch not yet stored) sit in
    the registers behind the table: afterwards the table's logs are what the Spec's field evaluation produces from
    the state in which those pending values ARE stored. -/
def FieldsSound (env : MEnv W) (K : List Konst) (es : List Ex) : Prop :=
  ∀ (rt tablereg : Nat) (keys : List (Option Key)) (reg ac : Nat) (cs : CState) (cf : Frame) (rest : List Frame)
    (loc : Nat → OVal) (extra : List OVal) (s : MS W) (tid : Nat) (pvals : List OVal),
    scopedL rt es = true → rt ≤ tablereg →
    (compFields rt tablereg (tablereg + 1) keys es reg ac cs).cs.consts <+: K →
    Fits (compFields rt tablereg (tablereg + 1) keys es reg ac cs).code →
    Inv cf rest rt loc extra s →
    reg = tablereg + 1 + pvals.length →
    (es.isEmpty = true → pvals = []) → (es.isEmpty = false → pvals.length = ac % fieldsPerFlush) →
    cf.localBase + reg ≤ s.st.reg.top →
    s.st.reg.arr (cf.localBase + tablereg) = some (some (.ref tid)) → tid < s.heap.length →
    ValsAt s.st.reg (cf.localBase + tablereg + 1) pvals.length pvals →
    ∃ s', Runs env K (compFields rt tablereg (tablereg + 1) keys es reg ac cs).code s s' ∧
      Step s s' (cf.localBase + tablereg + 1) ∧
      s'.σ = evalFields (env.toSEnv extra) loc tid keys es ac
        (s.σ.mod tid (addArr (posStores (ac - pvals.length) pvals)))

theorem fields_nil_sound (env : MEnv W) (K : List Konst) : FieldsSound env K [] := by
  intro rt tablereg keys reg ac cs cf rest loc extra s tid pvals _ _ _ _ _ hreg hnil _ htop _ _ _
  have hp := hnil rfl
  subst hp
  refine ⟨s, Runs.nil env K s, Step.refl s _ (by simp at hreg; omega), ?_⟩
  simp only [evalFields, posStores_nil, mod_addArr_nil]

/-- heap of the machine state = heap component of its Spec view -/
theorem σ_heap (s : MS W) : s.σ.heap = s.heap := rfl
theorem σ_w (s : MS W) : s.σ.w = s.w := rfl

theorem σ_setHeap (s : MS W) (h : List TLog) : ({ s with heap := h } : MS W).σ = { s.σ with heap := h } := rfl

theorem σ_modify (s : MS W) (tid : Nat) (f : TLog → TLog) :
    ({ s with heap := modifyAt s.heap tid f } : MS W).σ = s.σ.mod tid f := rfl

theorem step_setHeap (s : MS W) (h : List TLog) (base : Nat) (hb : base ≤ s.st.reg.top) :
    Step s ({ s with heap := h } : MS W) base := ⟨rfl, rfl, rfl, fun _ _ => rfl, hb⟩

theorem fields_cons_sound (env : MEnv W) (K : List Konst) (e : Ex) (es : List Ex)
    (ihe : ExprSound env K e) (ihs : FieldsSound env K es) : FieldsSound env K (e :: es) := by
  intro rt T keys reg ac cs cf rest loc extra s tid P hsc hrt hK hfits hinv hreg _ hpend htop ht htid hP
  have hPlen : P.length = ac % fieldsPerFlush := hpend rfl
  have h50 : fieldsPerFlush = 50 := rfl
  simp only [scopedL, Bool.and_eq_true] at hsc
  have hTreg : T + 1 ≤ reg := by omega
  have hPle : P.length ≤ ac := by rw [hPlen, h50]; exact Nat.mod_le _ _
  cases hk : keys.headD none with
  | none =>
    by_cases hm : (es.isEmpty && e.isMulti) = true
    · ------------------------------------------------------------ open-ended last field
      have hes : es = [] := by
        simp only [Bool.and_eq_true, List.isEmpty_iff] at hm; exact hm.1
      subst hes
      obtain ⟨r, hr⟩ : ∃ r, compExpr rt e reg (ecnone (-2)) cs = r := ⟨_, rfl⟩
      have hc : compFields rt T (T + 1) keys [e] reg ac cs = ⟨r.code ++ [flushInstr T ac true] ++ [], r.cs, ac⟩ := by
        simp only [compFields, hk, hm, if_true, hr]
      rw [hc] at hK hfits ⊢
      simp only [List.append_nil, fits_append] at hfits ⊢
      obtain ⟨s1, hrun1, hstep1, hσ1, hres1⟩ := ihe rt reg (ecnone (-2)) cs cf rest loc extra s (plain_ecnone _ _)
        ⟨by decide, fun _ => by simp only [Bool.and_eq_true] at hm; exact hm.2⟩ hsc.1 (by omega)
        (by rw [hr]; exact hK) (by rw [hr]; exact hfits.1) hinv htop
      rw [hr] at hrun1
      obtain ⟨_, h2, _, _⟩ := hres1
      obtain ⟨htop1, hv1, _⟩ := h2 rfl
      obtain ⟨vs, hvs⟩ : ∃ vs, (evalMulti (env.toSEnv extra) loc e s.σ).1 = vs := ⟨_, rfl⟩
      rw [hvs] at htop1 hv1
      have hinv1 := hinv.step hstep1 (by omega)
      have hall : ValsAt s1.st.reg (cf.localBase + T + 1) (P ++ vs).length (P ++ vs) := by
        apply valsAt_append
        · exact hP.congr (fun j _ hj => hstep1.below j (by omega))
        · rw [show cf.localBase + T + 1 + P.length = cf.localBase + reg by omega]; exact hv1
      have hrun2 := flush_sound env K s1 cf rest hinv1.stack hinv1.notDone T tid ac true (P ++ vs)
        (by rw [hstep1.below _ (by omega)]; exact ht) hall
        (by simp only [if_true, List.length_append]; omega)
      refine ⟨_, Runs.append hrun1 hrun2, (hstep1.weaken (by omega)).trans (step_setHeap s1 _ _ (by have := hstep1.top; omega))
        (Nat.le_refl _), ?_⟩
      rw [σ_modify]
      simp only [evalFields, hk, hm, if_true]
      obtain ⟨hmod, _⟩ := evalMulti_mod (env.toSEnv extra) loc tid (addArr (posStores (ac - P.length) P)) e s.σ
        (by rw [σ_heap]; exact htid)
      rw [hmod, storePos_eq, mod_mod, addArr_addArr, hvs, ← hσ1]
      rw [posStores_append, ← hPlen, show ac - P.length + P.length = ac by omega]
    · ------------------------------------------------------------ a positional field with one value
      have hm' : (es.isEmpty && e.isMulti) = false := by simpa using hm
      obtain ⟨r, hr⟩ : ∃ r, compExpr rt e reg (ecnone 0) cs = r := ⟨_, rfl⟩
      obtain ⟨s1, hrun1, hstep1, hσ1, hres1⟩ := ihe rt reg (ecnone 0) cs cf rest loc extra s (plain_ecnone _ _)
        ⟨by decide, fun h => by rcases h with h | h <;> (simp only [ecnone] at h; omega)⟩ hsc.1 (by omega)
        (by
          have := compFields_mono rt T (T + 1) es keys.tail
          simp only [compFields, hk, hm', Bool.false_eq_true, if_false] at hK
          split at hK <;> exact (this _ _ _).trans hK)
        (by
          simp only [compFields, hk, hm', Bool.false_eq_true, if_false] at hfits
          split at hfits <;> (simp only [fits_append] at hfits; first | exact hfits.1.1 | exact hfits.1))
        hinv htop
      rw [hr] at hrun1 hres1
      obtain ⟨ht1, _, h0, _⟩ := hres1
      obtain ⟨hv1, hinc1⟩ := h0 (by simp [ecnone])
      have hinc1' : r.inc = 1 := by rw [hinc1]; rfl
      obtain ⟨v, hv⟩ : ∃ v, first (evalMulti (env.toSEnv extra) loc e s.σ).1 = v := ⟨_, rfl⟩
      have hinv1 := hinv.step hstep1 (by omega)
      have hregv : s1.st.reg.arr (cf.localBase + reg) = some v := by
        have := hv1 0 (by decide)
        rw [Nat.add_zero] at this
        rw [this, ← hv]; simp [first_eq]
      have hP1 : ValsAt s1.st.reg (cf.localBase + T + 1) (P ++ [v]).length (P ++ [v]) := by
        apply valsAt_append
        · exact hP.congr (fun j _ hj => hstep1.below j (by omega))
        · intro i hi
          have hi0 : i = 0 := by simp at hi; omega
          subst hi0
          rw [show cf.localBase + T + 1 + P.length + 0 = cf.localBase + reg by omega, hregv]; rfl
      have ht1' : s1.st.reg.arr (cf.localBase + T) = some (some (.ref tid)) := by
        rw [hstep1.below _ (by omega)]; exact ht
      obtain ⟨hmod, hlen⟩ := evalMulti_mod (env.toSEnv extra) loc tid (addArr (posStores (ac - P.length) P)) e s.σ
        (by rw [σ_heap]; exact htid)
      have htid1 : tid < s1.heap.length := by
        have : s1.heap = (evalMulti (env.toSEnv extra) loc e s.σ).2.heap := by rw [← hσ1]; rfl
        rw [this]; rw [σ_heap] at hlen; omega
      -- the Spec side after this field
      have hspec : evalFields (env.toSEnv extra) loc tid keys (e :: es) ac
            (s.σ.mod tid (addArr (posStores (ac - P.length) P))) =
          evalFields (env.toSEnv extra) loc tid keys.tail es (ac + 1)
            (s1.σ.mod tid (addArr (posStores (ac + 1 - (P ++ [v]).length) (P ++ [v])))) := by
        simp only [evalFields, hk, hm', Bool.false_eq_true, if_false]
        rw [hmod, storePos_eq, mod_mod, addArr_addArr, hv, ← hσ1]
        simp only [List.length_append, List.length_cons, List.length_nil]
        rw [show ac + 1 - (P.length + (0 + 1)) = ac - P.length by omega, posStores_append,
          show ac - P.length + P.length = ac by omega]
      rw [hspec]
      by_cases hfl : (ac + 1) % fieldsPerFlush = 0 ∨ (es.isEmpty = true ∧ (ac + 1) % fieldsPerFlush ≠ 0)
      · -- the batch is flushed
        obtain ⟨rs, hrs⟩ : ∃ rs, compFields rt T (T + 1) keys.tail es (T + 1) (ac + 1) r.cs = rs := ⟨_, rfl⟩
        have hc : compFields rt T (T + 1) keys (e :: es) reg ac cs =
            ⟨r.code ++ [flushInstr T (ac + 1) false] ++ rs.code, rs.cs, rs.arraycount⟩ := by
          simp only [compFields, hk, hm', Bool.false_eq_true, if_false, hr, hfl, if_true, hrs]
        rw [hc] at hK hfits ⊢
        simp only [fits_append] at hfits
        have hrun2 := flush_sound env K s1 cf rest hinv1.stack hinv1.notDone T tid (ac + 1) false (P ++ [v]) ht1' hP1
          (by
            simp only [Bool.false_eq_true, if_false, List.length_append, List.length_cons, List.length_nil]
            rw [hPlen, h50]
            refine ⟨by omega, ?_⟩
            split <;> omega)
        simp only [Bool.false_eq_true, if_false] at hrun2
        obtain ⟨s2, hs2⟩ : ∃ s2 : MS W, s2 = { s1 with heap := (modifyAt s1.heap tid
            (addArr (posStores (ac + 1 - (P ++ [v]).length) (P ++ [v])))) } := ⟨_, rfl⟩
        rw [← hs2] at hrun2
        have hstep2 : Step s1 s2 (cf.localBase + T + 1) := by
          rw [hs2]; exact step_setHeap s1 _ _ (by have := hstep1.top; omega)
        have hinv2 := hinv1.step hstep2 (by omega)
        obtain ⟨s3, hrun3, hstep3, hσ3⟩ := ihs rt T keys.tail (T + 1) (ac + 1) r.cs cf rest loc extra s2 tid [] hsc.2 hrt
          (by rw [hrs]; exact hK) (by rw [hrs]; exact hfits.2) hinv2 rfl (fun _ => rfl)
          (fun hne => by
            rcases hfl with h | h
            · simp [h]
            · rw [h.1] at hne; cases hne)
          (by rw [hs2]; have := hstep1.top; simp only; omega)
          (by rw [hs2]; exact ht1') (by rw [hs2]; simp only [modifyAt_length]; exact htid1)
          (fun i hi => by simp at hi)
        rw [hrs] at hrun3
        refine ⟨s3, Runs.append (Runs.append hrun1 hrun2) hrun3,
          ((hstep1.weaken (by omega)).trans hstep2 (Nat.le_refl _)).trans hstep3 (Nat.le_refl _), ?_⟩
        rw [hσ3, posStores_nil, mod_addArr_nil, hs2, σ_modify]
      · -- the value stays pending
        have hes : es.isEmpty = false := by
          cases h : es.isEmpty with
          | false => rfl
          | true =>
            refine absurd ?_ hfl
            by_cases h0 : (ac + 1) % fieldsPerFlush = 0
            · exact Or.inl h0
            · exact Or.inr ⟨h, h0⟩
        obtain ⟨rs, hrs⟩ : ∃ rs, compFields rt T (T + 1) keys.tail es (reg + 1) (ac + 1) r.cs = rs := ⟨_, rfl⟩
        have hc : compFields rt T (T + 1) keys (e :: es) reg ac cs = ⟨r.code ++ rs.code, rs.cs, rs.arraycount⟩ := by
          simp only [compFields, hk, hm', Bool.false_eq_true, if_false, hr, hfl, hinc1', hrs]
        rw [hc] at hK hfits ⊢
        simp only [fits_append] at hfits
        obtain ⟨s3, hrun3, hstep3, hσ3⟩ := ihs rt T keys.tail (reg + 1) (ac + 1) r.cs cf rest loc extra s1 tid (P ++ [v])
          hsc.2 hrt (by rw [hrs]; exact hK) (by rw [hrs]; exact hfits.2) hinv1
          (by simp only [List.length_append, List.length_cons, List.length_nil]; omega)
          (fun h => by rw [hes] at h; cases h)
          (fun _ => by
            simp only [List.length_append, List.length_cons, List.length_nil]
            rw [hPlen, h50]; rw [h50] at hfl; omega)
          (by rw [hinc1'] at ht1; omega) ht1' htid1 hP1
        rw [hrs] at hrun3
        exact ⟨s3, Runs.append hrun1 hrun3, (hstep1.weaken (by omega)).trans hstep3 (Nat.le_refl _), hσ3⟩
  | some k =>
    ------------------------------------------------------------ a keyed field
    obtain ⟨rk, hrk⟩ : ∃ rk, compExpr rt (.atom k.atom) reg (ecnone 0) cs = rk := ⟨_, rfl⟩
    have hrk' : compAtomRes k.atom reg (ecnone 0) cs = rk := by rw [← hrk]; simp only [compExpr]
    obtain ⟨pk, hpk⟩ : ∃ pk, propagate true rt rk.code reg rk.inc = pk := ⟨_, rfl⟩
    obtain ⟨rv, hrv⟩ : ∃ rv, compExpr rt e pk.2.2 (ecnone 0) rk.cs = rv := ⟨_, rfl⟩
    obtain ⟨pv, hpv⟩ : ∃ pv, propagate true rt rv.code pk.2.2 rv.inc = pv := ⟨_, rfl⟩
    obtain ⟨sti, hsti⟩ : ∃ sti : Instr, (if k.isStr then Instr.settableks T pk.2.1 pv.2.1 else Instr.settable T pk.2.1 pv.2.1) = sti :=
      ⟨_, rfl⟩
    -- facts about the code that hold in both branches
    have hcases : ∃ (tailc : List Instr) (rs : FRes) (reg' : Nat),
        compFields rt T (T + 1) keys (e :: es) reg ac cs = ⟨pk.1 ++ pv.1 ++ tailc ++ rs.code, rs.cs, rs.arraycount⟩ ∧
        compFields rt T (T + 1) keys.tail es reg' ac rv.cs = rs ∧
        ((es.isEmpty = true ∧ ac % fieldsPerFlush ≠ 0 ∧ tailc = [sti, flushInstr T ac false] ∧ reg' = T + 1) ∨
         (¬ (es.isEmpty = true ∧ ac % fieldsPerFlush ≠ 0) ∧ tailc = [sti] ∧ reg' = reg)) := by
      by_cases hfl : es.isEmpty = true ∧ ac % fieldsPerFlush ≠ 0
      · exact ⟨_, _, _, by simp only [compFields, hk, hrk', hpk, hrv, hpv, hsti, hfl, and_self, if_true, ne_eq,
            not_false_eq_true], rfl, Or.inl ⟨hfl.1, hfl.2, rfl, rfl⟩⟩
      · exact ⟨_, _, _, by simp only [compFields, hk, hrk', hpk, hrv, hpv, hsti, hfl, if_false], rfl, Or.inr ⟨hfl, rfl, rfl⟩⟩
    obtain ⟨tailc, rs, reg', hc, hrs, hbr⟩ := hcases
    rw [hc] at hK hfits ⊢
    simp only [fits_append] at hfits
    obtain ⟨⟨⟨hf1, hf2⟩, hf3⟩, hf4⟩ := hfits
    have hKv : rv.cs.consts <+: K := by
      have := compFields_mono rt T (T + 1) es keys.tail reg' ac rv.cs
      rw [hrs] at this
      exact this.trans hK
    have hKk : rk.cs.consts <+: K := by
      have := compExpr_mono rt e pk.2.2 (ecnone 0) rk.cs
      rw [hrv] at this
      exact this.trans hKv
    -- the key
    obtain ⟨s1, hrun1, hstep1, hσ1, htop1, hle1, _, _, hkh1⟩ :=
      operand_sound env K true (.atom k.atom) (atom_sound env K k.atom) rt reg cs cf rest loc extra s
        (by cases k <;> rfl) (by omega) (by rw [hrk]; exact hKk) (by rw [hrk, hpk]; exact hf1) hinv htop
    rw [hrk, hpk] at hrun1 htop1 hle1 hkh1
    have hσ1' : s1.σ = s.σ := by rw [hσ1]; simp [evalMulti]
    have hkv : first (evalMulti (env.toSEnv extra) loc (.atom k.atom) s.σ).1 = k.val := by
      simp [evalMulti, first, key_val]
    rw [hkv] at hkh1
    have hinv1 := hinv.step hstep1 (by omega)
    -- the value
    obtain ⟨s2, hrun2, hstep2, hσ2, htop2, hle2, _, _, hvh2⟩ :=
      operand_sound env K true e ihe rt pk.2.2 rk.cs cf rest loc extra s1 hsc.1 (by omega) (by rw [hrv]; exact hKv)
        (by rw [hrv, hpv]; exact hf2) hinv1 htop1
    rw [hrv, hpv] at hrun2 htop2 hle2 hvh2
    rw [hσ1'] at hσ2 hvh2
    have hinv2 := hinv1.step hstep2 (by omega)
    have hkh2 : RKHolds K s2.st.reg cf.localBase pk.2.1 pk.2.2 k.val :=
      hkh1.congr (fun j hj => hstep2.below j hj)
    have hbelow2 : ∀ j, j < cf.localBase + reg → s2.st.reg.arr j = s.st.reg.arr j := fun j hj => by
      rw [hstep2.below j (by omega), hstep1.below j hj]
    have ht2 : s2.st.reg.arr (cf.localBase + T) = some (some (.ref tid)) := by rw [hbelow2 _ (by omega)]; exact ht
    obtain ⟨v, hv⟩ : ∃ v, first (evalMulti (env.toSEnv extra) loc e s.σ).1 = v := ⟨_, rfl⟩
    rw [hv] at hvh2
    -- the store
    have hrun3 := settable_sound env K s2 cf rest hinv2.stack hinv2.notDone T tid pk.2.1 pv.2.1 _ _ k.val v k.isStr ht2 hkh2 hvh2
    rw [hsti] at hrun3
    obtain ⟨s3, hs3⟩ : ∃ s3 : MS W, s3 = { s2 with heap := modifyAt s2.heap tid (addKeyed k.val v) } := ⟨_, rfl⟩
    rw [← hs3] at hrun3
    have hstep3 : Step s2 s3 (cf.localBase + reg) := by
      rw [hs3]; exact step_setHeap s2 _ _ (by omega)
    have hinv3 := hinv2.step hstep3 (by omega)
    have hP3 : ValsAt s3.st.reg (cf.localBase + T + 1) P.length P := by
      rw [hs3]; exact hP.congr (fun j _ hj => hbelow2 j (by omega))
    have ht3 : s3.st.reg.arr (cf.localBase + T) = some (some (.ref tid)) := by rw [hs3]; exact ht2
    obtain ⟨hmod, hlen⟩ := evalMulti_mod (env.toSEnv extra) loc tid (addArr (posStores (ac - P.length) P)) e s.σ
      (by rw [σ_heap]; exact htid)
    have htid2 : tid < s2.heap.length := by
      have : s2.heap = (evalMulti (env.toSEnv extra) loc e s.σ).2.heap := by rw [← hσ2]; rfl
      rw [this]; rw [σ_heap] at hlen; omega
    have htid3 : tid < s3.heap.length := by rw [hs3]; simp only [modifyAt_length]; exact htid2
    have hspec : evalFields (env.toSEnv extra) loc tid keys (e :: es) ac
          (s.σ.mod tid (addArr (posStores (ac - P.length) P))) =
        evalFields (env.toSEnv extra) loc tid keys.tail es ac (s3.σ.mod tid (addArr (posStores (ac - P.length) P))) := by
      simp only [evalFields, hk]
      rw [hmod, storeKeyed_eq, mod_mod, addKeyed_addArr, ← mod_mod, hv, ← hσ2, hs3, σ_modify]
    rw [hspec]
    have hstep03 : Step s s3 (cf.localBase + reg) :=
      (hstep1.trans hstep2 (by omega)).trans hstep3 (Nat.le_refl _)
    rcases hbr with ⟨hlast, hflush, htc, hreg'⟩ | ⟨hnf, htc, hreg'⟩
    · -- the pending values are flushed at the last field
      subst htc hreg'
      have hrun4 := flush_sound env K s3 cf rest hinv3.stack hinv3.notDone T tid ac false P ht3 hP3
        (by
          simp only [Bool.false_eq_true, if_false]
          rw [h50] at hflush ⊢
          refine ⟨by omega, ?_⟩
          rw [hPlen, h50, if_neg hflush])
      simp only [Bool.false_eq_true, if_false] at hrun4
      obtain ⟨s4, hs4⟩ : ∃ s4 : MS W, s4 = { s3 with heap := modifyAt s3.heap tid (addArr (posStores (ac - P.length) P)) } :=
        ⟨_, rfl⟩
      rw [← hs4] at hrun4
      have hstep4 : Step s3 s4 (cf.localBase + T + 1) := by
        rw [hs4]; exact step_setHeap s3 _ _ (by have := hstep3.top; omega)
      have hinv4 := hinv3.step hstep4 (by omega)
      obtain ⟨s5, hrun5, hstep5, hσ5⟩ := ihs rt T keys.tail (T + 1) ac rv.cs cf rest loc extra s4 tid [] hsc.2 hrt
        (by rw [hrs]; exact hK) (by rw [hrs]; exact hf4) hinv4 rfl (fun _ => rfl)
        (fun hne => by rw [hlast] at hne; cases hne)
        (by have := hstep4.top; omega)
        (by rw [hs4]; exact ht3) (by rw [hs4]; simp only [modifyAt_length]; exact htid3) (fun i hi => by simp at hi)
      rw [hrs] at hrun5
      refine ⟨s5, ?_, ((hstep03.weaken (by omega)).trans hstep4 (Nat.le_refl _)).trans hstep5 (Nat.le_refl _), ?_⟩
      · have : pk.1 ++ pv.1 ++ [sti, flushInstr T ac false] ++ rs.code =
            pk.1 ++ pv.1 ++ [sti] ++ [flushInstr T ac false] ++ rs.code := by simp
        rw [this]
        exact Runs.append (Runs.append (Runs.append (Runs.append hrun1 hrun2) hrun3) hrun4) hrun5
      · rw [hσ5, posStores_nil, mod_addArr_nil, hs4, σ_modify]
    · subst htc
      rw [hreg'] at hrs
      obtain ⟨s5, hrun5, hstep5, hσ5⟩ := ihs rt T keys.tail reg ac rv.cs cf rest loc extra s3 tid P hsc.2 hrt
        (by rw [hrs]; exact hK) (by rw [hrs]; exact hf4) hinv3 hreg
        (fun hemp => by
          have : ac % fieldsPerFlush = 0 := by
            cases Nat.decEq (ac % fieldsPerFlush) 0 with
            | isTrue h => exact h
            | isFalse h => exact absurd ⟨hemp, h⟩ hnf
          rw [this] at hPlen
          exact List.length_eq_zero_iff.mp hPlen)
        (fun _ => hPlen) (by have := hstep3.top; omega) ht3 htid3 hP3
      rw [hrs] at hrun5
      exact ⟨s5, Runs.append (Runs.append (Runs.append hrun1 hrun2) hrun3) hrun5,
        (hstep03.weaken (by omega)).trans hstep5 (Nat.le_refl _), hσ5⟩

end GLua.CallCompile
