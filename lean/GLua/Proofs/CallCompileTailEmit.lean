/-
  C02, compile-time half — WHERE the compiler emits OP_TAILCALL: in `return f(args)` / `return o:m(args)` (one
  unparenthesised call as the whole return list) and nowhere else: no producer, list, constructor, local
  declaration, assignment, call statement or other `return` contains one.
-/
import GLua.Proofs.CallCompileCtor

namespace GLua.CallCompile
open GLua GLua.CallFrame GLua.CallShapes

def Instr.isTail : Instr → Bool
  | .tailcall _ _ _ => true
  | _ => false

/-- no OP_TAILCALL in the code -/
def NoTail (code : List Instr) : Prop := ∀ i ∈ code, i.isTail = false

theorem NoTail.nil : NoTail [] := fun _ h => by simp at h

theorem noTail_append {a b : List Instr} : NoTail (a ++ b) ↔ NoTail a ∧ NoTail b := by
  simp only [NoTail, List.mem_append]
  constructor
  · intro h; exact ⟨fun i hi => h i (Or.inl hi), fun i hi => h i (Or.inr hi)⟩
  · rintro ⟨h1, h2⟩ i (hi | hi)
    · exact h1 i hi
    · exact h2 i hi

theorem noTail_single {i : Instr} (h : i.isTail = false) : NoTail [i] := by
  intro j hj; simp at hj; rw [hj]; exact h

theorem noTail_cons {i : Instr} {c : List Instr} (h : i.isTail = false) (hc : NoTail c) : NoTail (i :: c) :=
  noTail_append (a := [i]).mpr ⟨noTail_single h, hc⟩

theorem NoTail.dropLast {c : List Instr} (h : NoTail c) : NoTail c.dropLast :=
  fun i hi => h i (List.dropLast_subset c hi)

theorem noTail_compAtom (a : Atom) (sreg : Nat) (cs : CState) : NoTail (compAtom a sreg cs).1 := by
  cases a <;> exact noTail_single rfl

theorem noTail_compAtomRes (a : Atom) (reg : Nat) (ec : ExpCtx) (cs : CState) : NoTail (compAtomRes a reg ec cs).code :=
  noTail_compAtom _ _ _

theorem noTail_compDots (rt reg : Nat) (ec : ExpCtx) (cs : CState) : NoTail (compDots rt reg ec cs).code := by
  simp only [compDots]
  split
  · exact noTail_cons rfl (noTail_single rfl)
  · split <;> exact noTail_single rfl

theorem noTail_finishCall (rt funcreg argc : Nat) (lv : Bool) (ec : ExpCtx) (code : List Instr) (cs : CState)
    (h : NoTail code) : NoTail (finishCall rt funcreg argc lv ec code cs).code := by
  simp only [finishCall]
  split
  · exact noTail_append.mpr ⟨noTail_append.mpr ⟨h, noTail_single rfl⟩, noTail_single rfl⟩
  · split <;> exact noTail_append.mpr ⟨h, noTail_single rfl⟩

theorem noTail_propagate (kmv : Bool) (top : Nat) (code : List Instr) (reg inc : Nat) (h : NoTail code) :
    NoTail (propagate kmv top code reg inc).1 := by
  simp only [propagate]
  split
  · split
    · exact h.dropLast
    · exact h
  · split
    · exact h.dropLast
    · exact h
  · exact h

theorem noTail_loadRk (cs : CState) (reg : Nat) (k : Konst) : NoTail (loadRk cs reg k).1 := by
  simp only [loadRk]; split
  · exact NoTail.nil
  · exact noTail_single rfl

theorem noTail_flush (t ac : Nat) (lv : Bool) : (flushInstr t ac lv).isTail = false := by
  simp only [flushInstr]
  by_cases h1 : lv = true <;> simp only [h1, if_true, Bool.false_eq_true, if_false] <;> split <;> rfl

mutual
theorem noTail_compExpr (rt : Nat) : ∀ (e : Ex) (reg : Nat) (ec : ExpCtx) (cs : CState), NoTail (compExpr rt e reg ec cs).code
  | .atom a, reg, ec, cs => by simp only [compExpr]; exact noTail_compAtomRes a reg ec cs
  | .dots _, reg, ec, cs => by simp only [compExpr]; exact noTail_compDots rt reg ec cs
  | .call _ f args, reg, ec, cs => by
    simp only [compExpr]
    exact noTail_finishCall _ _ _ _ _ _ _ (noTail_append.mpr ⟨noTail_compExpr rt f _ _ _, noTail_compList rt args _ _⟩)
  | .mcall _ recv m args, reg, ec, cs => by
    simp only [compExpr]
    refine noTail_finishCall _ _ _ _ _ _ _ (noTail_append.mpr ⟨noTail_append.mpr ⟨noTail_append.mpr
      ⟨noTail_propagate _ _ _ _ _ (noTail_compExpr rt recv _ _ _), noTail_loadRk _ _ _⟩, noTail_single rfl⟩,
      noTail_compList rt args _ _⟩)
  | .tbl keys vals, reg, ec, cs => by
    simp only [compExpr]
    have h := noTail_append.mpr ⟨noTail_single (i := Instr.newtable reg
      (int2Fb (compFields rt reg (reg + 1) keys vals (reg + 1) 0 cs).arraycount)
      (int2Fb (vals.length - (compFields rt reg (reg + 1) keys vals (reg + 1) 0 cs).arraycount))) rfl,
      noTail_compFields rt reg (reg + 1) vals keys (reg + 1) 0 cs⟩
    split
    · exact noTail_append.mpr ⟨h, noTail_single rfl⟩
    · exact h
theorem noTail_compList (rt : Nat) : ∀ (es : List Ex) (reg : Nat) (cs : CState), NoTail (compList rt es reg cs).code
  | [], _, _ => by simp only [compList]; exact NoTail.nil
  | e :: es, reg, cs => by
    simp only [compList]
    split
    · exact noTail_compExpr rt e _ _ _
    · exact noTail_append.mpr ⟨noTail_compExpr rt e _ _ _, noTail_compList rt es _ _⟩
theorem noTail_compFields (rt tablereg regbase : Nat) : ∀ (es : List Ex) (keys : List (Option Key)) (reg ac : Nat) (cs : CState),
    NoTail (compFields rt tablereg regbase keys es reg ac cs).code
  | [], _, _, _, _ => by simp only [compFields]; exact NoTail.nil
  | e :: es, keys, reg, ac, cs => by
    simp only [compFields]
    split
    · split
      · exact noTail_append.mpr ⟨noTail_append.mpr ⟨noTail_compExpr rt e _ _ _, noTail_single (noTail_flush _ _ _)⟩,
          noTail_compFields rt tablereg regbase es _ _ _ _⟩
      · split
        · exact noTail_append.mpr ⟨noTail_append.mpr ⟨noTail_compExpr rt e _ _ _, noTail_single (noTail_flush _ _ _)⟩,
            noTail_compFields rt tablereg regbase es _ _ _ _⟩
        · exact noTail_append.mpr ⟨noTail_compExpr rt e _ _ _, noTail_compFields rt tablereg regbase es _ _ _ _⟩
    · rename_i k _
      have hk := noTail_propagate true rt _ reg (compAtomRes k.atom reg (ecnone 0) cs).inc
        (noTail_compAtomRes k.atom reg (ecnone 0) cs)
      have hst : ∀ (k : Key) (b c : Nat), (if k.isStr then Instr.settableks tablereg b c else Instr.settable tablereg b c).isTail = false := by
        intro k b c; split <;> rfl
      split
      · exact noTail_append.mpr ⟨noTail_append.mpr ⟨noTail_append.mpr ⟨hk, noTail_propagate _ _ _ _ _ (noTail_compExpr rt e _ _ _)⟩,
          noTail_cons (hst _ _ _) (noTail_single (noTail_flush _ _ _))⟩, noTail_compFields rt tablereg regbase es _ _ _ _⟩
      · exact noTail_append.mpr ⟨noTail_append.mpr ⟨noTail_append.mpr ⟨hk, noTail_propagate _ _ _ _ _ (noTail_compExpr rt e _ _ _)⟩,
          noTail_single (hst _ _ _)⟩, noTail_compFields rt tablereg regbase es _ _ _ _⟩
end

theorem noTail_extraLoop (rt : Nat) : ∀ (es : List Ex) (reg : Nat) (cs : CState), NoTail (extraLoop rt es reg cs).1
  | [], _, _ => NoTail.nil
  | e :: es, reg, cs => by
    simp only [extraLoop]
    exact noTail_append.mpr ⟨noTail_compExpr rt e _ _ _, noTail_extraLoop rt es _ _⟩

theorem noTail_regAssignLoop (rt n nv : Nat) : ∀ (es : List Ex) (na reg : Nat) (cs : CState),
    NoTail (regAssignLoop rt n nv es na reg cs).1
  | [], _, _, _ => NoTail.nil
  | e :: es, na, reg, cs => by
    simp only [regAssignLoop]
    split
    · split
      · exact noTail_compExpr rt e _ _ _
      · exact noTail_append.mpr ⟨noTail_compExpr rt e _ _ _, noTail_regAssignLoop rt n nv es _ _ _⟩
    · exact NoTail.nil

theorem noTail_compRegAssignment (rt n : Nat) (es : List Ex) (reg nv : Nat) (cs : CState) :
    NoTail (compRegAssignment rt n es reg nv cs).1 := by
  simp only [compRegAssignment]
  refine noTail_append.mpr ⟨noTail_append.mpr ⟨noTail_regAssignLoop rt n nv es 0 reg cs, ?_⟩, noTail_extraLoop rt _ _ _⟩
  split
  · exact noTail_single rfl
  · exact NoTail.nil

theorem noTail_assignRightLoop (rt : Nat) : ∀ (acs : List AssignCtx) (es : List Ex) (reg : Nat) (cs : CState),
    NoTail (assignRightLoop rt acs es reg cs).1
  | [], _, _, _ => by simp only [assignRightLoop]; exact NoTail.nil
  | ac :: acs, [], reg, cs => by
    simp only [assignRightLoop]
    exact noTail_append.mpr ⟨noTail_compAtomRes _ _ _ _, noTail_assignRightLoop rt acs [] _ _⟩
  | ac :: acs, e :: es, reg, cs => by
    simp only [assignRightLoop]
    split
    · exact noTail_compExpr rt e _ _ _
    · exact noTail_append.mpr ⟨noTail_compExpr rt e _ _ _, noTail_assignRightLoop rt acs es _ _⟩

theorem noTail_assignExtraLoop (rt : Nat) : ∀ (es : List Ex) (reg : Nat) (cs : CState), NoTail (assignExtraLoop rt es reg cs).1
  | [], _, _ => NoTail.nil
  | e :: es, reg, cs => by
    simp only [assignExtraLoop]
    exact noTail_append.mpr ⟨noTail_compExpr rt e _ _ _, noTail_assignExtraLoop rt es _ _⟩

theorem noTail_assignStores : ∀ (l : List (Target × AssignCtx)) (reg : Nat) (cs : CState), NoTail (assignStores l reg cs).1
  | [], _, _ => NoTail.nil
  | (t, ac) :: rest, reg, cs => by
    cases t with
    | loc r =>
      simp only [assignStores]
      split
      · exact noTail_cons rfl (noTail_assignStores rest _ _)
      · exact noTail_assignStores rest _ _
    | glob g =>
      simp only [assignStores]
      exact noTail_cons rfl (noTail_assignStores rest _ _)

theorem noTail_compAssign (rt : Nat) (ts : List Target) (es : List Ex) (cs : CState) : NoTail (compAssign rt ts es cs).1 := by
  simp only [compAssign]
  exact noTail_append.mpr ⟨noTail_append.mpr ⟨noTail_assignRightLoop rt _ _ _ _, noTail_assignExtraLoop rt _ _ _⟩,
    noTail_assignStores _ _ _⟩

/-- the return lists that are compiled to a tail call: exactly one producer, a call (plain or method) not in
    parentheses -/
def IsTailReturn (es : List Ex) : Prop := ∃ e, es = [e] ∧ e.isCall = true ∧ e.paren = false

theorem compReturn_general_noTail (rt : Nat) (es : List Ex) (cs : CState) :
    NoTail ((compList rt es rt cs).code ++
      [Instr.ret rt (if (compList rt es rt cs).lastMulti then 0 else (compList rt es rt cs).reg - rt + 1)]) :=
  noTail_append.mpr ⟨noTail_compList rt es rt cs, noTail_single rfl⟩

/-- `setLastTail` of a compiled call: its OP_CALL becomes the OP_TAILCALL -/
theorem setLastTail_call (rt : Nat) (e : Ex) (reg : Nat) (cs : CState) (hcall : e.isCall = true) (hrt : rt ≤ reg) :
    ∃ pre b, (compExpr rt e reg (ecnone (-2)) cs).code = pre ++ [.call reg b 0] ∧
      (setLastTail (compExpr rt e reg (ecnone (-2)) cs).code (compExpr rt e reg (ecnone (-2)) cs).cs) =
        (pre ++ [.tailcall reg b 0], (compExpr rt e reg (ecnone (-2)) cs).cs) := by
  have key : ∀ (pre : List Instr) (b : Nat) (cs' : CState),
      setLastTail (pre ++ [.call reg b 0]) cs' = (pre ++ [.tailcall reg b 0], cs') := by
    intro pre b cs'
    simp [setLastTail]
  cases e with
  | atom a => cases hcall
  | dots p => cases hcall
  | tbl k v => cases hcall
  | call p f args =>
    simp only [compExpr]
    obtain ⟨hc, _⟩ := finishCall_plain rt reg args.length
      (compList rt args (reg + (compExpr rt f reg (ecnone 0) cs).inc) (compExpr rt f reg (ecnone 0) cs).cs).lastMulti
      (ecnone (-2)) ((compExpr rt f reg (ecnone 0) cs).code ++
        (compList rt args (reg + (compExpr rt f reg (ecnone 0) cs).inc) (compExpr rt f reg (ecnone 0) cs).cs).code)
      (compList rt args (reg + (compExpr rt f reg (ecnone 0) cs).inc) (compExpr rt f reg (ecnone 0) cs).cs).cs
      (plain_ecnone _ _) hrt (by decide)
    rw [hc]
    exact ⟨_, _, rfl, key _ _ _⟩
  | mcall p recv m args =>
    simp only [compExpr]
    generalize hcode : (_ : List Instr) ++ (compList rt args _ _).code = code
    generalize hcs : (compList rt args _ _).cs = cs'
    generalize hlv : (compList rt args _ _).lastMulti = lv
    obtain ⟨hc, _⟩ := finishCall_plain rt reg (args.length + 1) lv (ecnone (-2)) code cs' (plain_ecnone _ _) hrt (by decide)
    rw [hc]
    exact ⟨_, _, rfl, key _ _ _⟩

def HasTail (code : List Instr) : Prop := ∃ i ∈ code, i.isTail = true

theorem not_hasTail_of_noTail {code : List Instr} (h : NoTail code) : ¬ HasTail code := by
  rintro ⟨i, hi, ht⟩; rw [h i hi] at ht; cases ht

/-- `compileReturnStmt` emits an OP_TAILCALL exactly for a return list that is one unparenthesised call -/
theorem compReturn_tail_iff (rt : Nat) (es : List Ex) (cs : CState) :
    HasTail (compReturn rt es cs).1 ↔ IsTailReturn es := by
  have hgen : ¬ HasTail ((compList rt es rt cs).code ++
      [Instr.ret rt (if (compList rt es rt cs).lastMulti then 0 else (compList rt es rt cs).reg - rt + 1)]) :=
    not_hasTail_of_noTail (compReturn_general_noTail rt es cs)
  -- a single producer that is a call
  have hcallcase : ∀ e : Ex, e.isCall = true → es = [e] →
      (HasTail (compReturn rt [e] cs).1 ↔ IsTailReturn [e]) := by
    intro e hcall _
    have hcr : compReturn rt [e] cs =
        if e.paren then ((compExpr rt e rt (ecnone 0) cs).code ++ [Instr.ret rt 0], (compExpr rt e rt (ecnone 0) cs).cs)
        else ((setLastTail (compExpr rt e rt (ecnone (-2)) cs).code (compExpr rt e rt (ecnone (-2)) cs).cs).1 ++ [Instr.ret rt 0],
              (setLastTail (compExpr rt e rt (ecnone (-2)) cs).code (compExpr rt e rt (ecnone (-2)) cs).cs).2) := by
      cases e with
      | atom a => cases hcall
      | dots p => cases hcall
      | tbl k v => cases hcall
      | call p f args => simp only [compReturn, Ex.isCall, if_true, Ex.paren]
      | mcall p r m args => simp only [compReturn, Ex.isCall, if_true, Ex.paren]
    rw [hcr]
    by_cases hp : e.paren = true
    · simp only [hp, if_true]
      constructor
      · intro h
        exact absurd h (not_hasTail_of_noTail (noTail_append.mpr ⟨noTail_compExpr rt e _ _ _, noTail_single rfl⟩))
      · rintro ⟨e', he', _, hpar⟩
        have : e' = e := by simp at he'; exact he'.symm
        subst this; rw [hp] at hpar; cases hpar
    · have hp' : e.paren = false := by simpa using hp
      simp only [hp', Bool.false_eq_true, if_false]
      obtain ⟨pre, b, _, hset⟩ := setLastTail_call rt e rt cs hcall (Nat.le_refl _)
      rw [hset]
      constructor
      · intro _; exact ⟨e, rfl, hcall, hp'⟩
      · intro _; exact ⟨.tailcall rt b 0, by simp, rfl⟩
  cases es with
  | nil =>
    have : compReturn rt [] cs = ((compList rt [] rt cs).code ++
        [Instr.ret rt (if (compList rt [] rt cs).lastMulti then 0 else (compList rt [] rt cs).reg - rt + 1)],
        (compList rt [] rt cs).cs) := by simp only [compReturn]
    rw [this]
    exact ⟨fun h => absurd h hgen, fun ⟨e, he, _⟩ => by cases he⟩
  | cons e rest =>
    cases rest with
    | cons e2 rest2 =>
      have : compReturn rt (e :: e2 :: rest2) cs = ((compList rt (e :: e2 :: rest2) rt cs).code ++
          [Instr.ret rt (if (compList rt (e :: e2 :: rest2) rt cs).lastMulti then 0
            else (compList rt (e :: e2 :: rest2) rt cs).reg - rt + 1)], (compList rt (e :: e2 :: rest2) rt cs).cs) := by
        simp only [compReturn]
      rw [this]
      exact ⟨fun h => absurd h hgen, fun ⟨e', he', _⟩ => by simp at he'⟩
    | nil =>
      by_cases hcall : e.isCall = true
      · exact hcallcase e hcall rfl
      · have hcall' : e.isCall = false := by simpa using hcall
        have hno : ¬ IsTailReturn [e] := by
          rintro ⟨e', he', hc, _⟩
          have : e' = e := by simp at he'; exact he'.symm
          subst this; rw [hcall'] at hc; cases hc
        refine ⟨fun h => ?_, fun h => absurd h hno⟩
        exfalso
        -- not a call: `return local` or the general list
        cases e with
        | call p f args => cases hcall'
        | mcall p r m args => cases hcall'
        | dots p =>
          have : compReturn rt [.dots p] cs = ((compList rt [.dots p] rt cs).code ++
              [Instr.ret rt (if (compList rt [.dots p] rt cs).lastMulti then 0 else (compList rt [.dots p] rt cs).reg - rt + 1)],
              (compList rt [.dots p] rt cs).cs) := by simp [compReturn, Ex.isCall]
          rw [this] at h; exact hgen h
        | tbl k v =>
          have : compReturn rt [.tbl k v] cs = ((compList rt [.tbl k v] rt cs).code ++
              [Instr.ret rt (if (compList rt [.tbl k v] rt cs).lastMulti then 0 else (compList rt [.tbl k v] rt cs).reg - rt + 1)],
              (compList rt [.tbl k v] rt cs).cs) := by simp [compReturn, Ex.isCall]
          rw [this] at h; exact hgen h
        | atom a =>
          cases a with
          | loc idx =>
            have : compReturn rt [.atom (.loc idx)] cs = ([Instr.ret idx 2], cs) := by simp only [compReturn]
            rw [this] at h
            exact not_hasTail_of_noTail (noTail_single rfl) h
          | num n =>
            have : compReturn rt [.atom (.num n)] cs = ((compList rt [.atom (.num n)] rt cs).code ++
                [Instr.ret rt (if (compList rt [.atom (.num n)] rt cs).lastMulti then 0 else (compList rt [.atom (.num n)] rt cs).reg - rt + 1)],
                (compList rt [.atom (.num n)] rt cs).cs) := by simp [compReturn, Ex.isCall]
            rw [this] at h; exact hgen h
          | str x =>
            have : compReturn rt [.atom (.str x)] cs = ((compList rt [.atom (.str x)] rt cs).code ++
                [Instr.ret rt (if (compList rt [.atom (.str x)] rt cs).lastMulti then 0 else (compList rt [.atom (.str x)] rt cs).reg - rt + 1)],
                (compList rt [.atom (.str x)] rt cs).cs) := by simp [compReturn, Ex.isCall]
            rw [this] at h; exact hgen h
          | nil =>
            have : compReturn rt [.atom .nil] cs = ((compList rt [.atom .nil] rt cs).code ++
                [Instr.ret rt (if (compList rt [.atom .nil] rt cs).lastMulti then 0 else (compList rt [.atom .nil] rt cs).reg - rt + 1)],
                (compList rt [.atom .nil] rt cs).cs) := by simp [compReturn, Ex.isCall]
            rw [this] at h; exact hgen h
          | tru =>
            have : compReturn rt [.atom .tru] cs = ((compList rt [.atom .tru] rt cs).code ++
                [Instr.ret rt (if (compList rt [.atom .tru] rt cs).lastMulti then 0 else (compList rt [.atom .tru] rt cs).reg - rt + 1)],
                (compList rt [.atom .tru] rt cs).cs) := by simp [compReturn, Ex.isCall]
            rw [this] at h; exact hgen h
          | fls =>
            have : compReturn rt [.atom .fls] cs = ((compList rt [.atom .fls] rt cs).code ++
                [Instr.ret rt (if (compList rt [.atom .fls] rt cs).lastMulti then 0 else (compList rt [.atom .fls] rt cs).reg - rt + 1)],
                (compList rt [.atom .fls] rt cs).cs) := by simp [compReturn, Ex.isCall]
            rw [this] at h; exact hgen h
          | glob g =>
            have : compReturn rt [.atom (.glob g)] cs = ((compList rt [.atom (.glob g)] rt cs).code ++
                [Instr.ret rt (if (compList rt [.atom (.glob g)] rt cs).lastMulti then 0 else (compList rt [.atom (.glob g)] rt cs).reg - rt + 1)],
                (compList rt [.atom (.glob g)] rt cs).cs) := by simp [compReturn, Ex.isCall]
            rw [this] at h; exact hgen h

/-- **no other statement** emits an OP_TAILCALL -/
theorem compStmt_tail_iff (rt : Nat) (st : Stmt) (cs : CState) :
    HasTail (compStmt rt st cs).1 ↔ ∃ es, st = .ret es ∧ IsTailReturn es := by
  cases st with
  | callst e =>
    simp only [compStmt]
    exact ⟨fun h => absurd h (not_hasTail_of_noTail (noTail_compExpr rt e _ _ _)), fun ⟨_, h, _⟩ => by cases h⟩
  | ret es =>
    simp only [compStmt]
    rw [compReturn_tail_iff]
    exact ⟨fun h => ⟨es, rfl, h⟩, fun ⟨es', h, ht⟩ => by cases h; exact ht⟩
  | localDecl n es =>
    simp only [compStmt, compLocal]
    exact ⟨fun h => absurd h (not_hasTail_of_noTail (noTail_compRegAssignment rt n es rt n cs)), fun ⟨_, h, _⟩ => by cases h⟩
  | assign ts es =>
    simp only [compStmt]
    exact ⟨fun h => absurd h (not_hasTail_of_noTail (noTail_compAssign rt ts es cs)), fun ⟨_, h, _⟩ => by cases h⟩

end GLua.CallCompile
