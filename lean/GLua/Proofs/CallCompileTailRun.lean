/-
  C02 — OP_TAILCALL with an abstract callee, at VALUE level (the frame-level statements are `tailcall_reuses_frame`,
  `tailcall_host_pops_both`): the callee — a host function whose frame sits on top of the caller's, or a Lua
  function whose window `initCallFrame` sets up above the arguments and which is then moved down onto the caller's
  base — sees exactly `bind` of the argument registers, and what it returns is delivered to the CALLER'S caller:
  `adjust results cf.NRet` at `cf.ReturnBase`, the running function's frame gone.
-/
import GLua.Proofs.CallCompileTailEmit

namespace GLua.CallCompile
open GLua GLua.CallFrame GLua.CallFrame.Reg GLua.CallShapes GLua.Adjust GLua.CallFrame.Run

variable {W : Type}

theorem gReturn_tail (s : St) (g cf : Frame) (rest : List Frame) (k : Nat) (hst : s.stack = g :: cf :: rest) :
    gReturn s k true = (gReturn s k false).map (fun s' => { s' with stack := rest }) := by
  simp [gReturn, hst, removeCallerFrame]

theorem runCallee_tailG (env : MEnv W) (hB : BodiesOK env) (fv : OVal) (s1 : St) (g cf : Frame) (rest : List Frame) (w : W)
    (hst : s1.stack = g :: cf :: rest) (hG : g.fn.isG = true) (hrt : g.returnBase ≤ s1.reg.top) :
    runCallee env fv s1 w true = (runCallee env fv s1 w false).map (fun q => ({ q.1 with stack := rest }, q.2)) := by
  simp only [runCallee, hst]
  cases hv : calleeView s1 g with
  | none => rfl
  | some px =>
    simp only [hG, if_true]
    obtain ⟨h1, _, _, _, _⟩ := hB.go s1 g (cf :: rest) (env.sem fv px.1 px.2 w).1 hst hG hrt
    rw [gReturn_tail _ g cf rest _ (by rw [h1, hst])]
    cases gReturn (env.goBody s1 (env.sem fv px.1 px.2 w).1) (env.sem fv px.1 px.2 w).1.length false <;> rfl

/-- moving the block `[RA, top)` down to `base` (the `CopyRange` of OP_TAILCALL): windows move with it -/
theorem window_shift (r : Reg) (base RA : Nat) (hb : base ≤ RA) (x len : Nat) (hx : RA ≤ x) (hlen : x + len ≤ r.top) :
    (r.copyRange base (RA : Int) (-1) (r.top - RA)).window (x - (RA - base)) len = r.window x len := by
  simp only [Reg.window]
  apply List.map_congr_left
  intro i hi
  simp only [List.mem_range] at hi
  rw [copyRange_arr r base _ _ _ (Or.inl (by omega)), effLimit_neg1, if_neg (by omega), if_pos ⟨by omega, by omega⟩]
  simp only [srcVal]
  rw [if_neg (by omega)]
  congr 1
  omega

theorem copyRange_below (r : Reg) (base RA : Nat) (hb : base ≤ RA) (n j : Nat) (hj : j < base) :
    (r.copyRange base (RA : Int) (-1) n).arr j = r.arr j := by
  rw [copyRange_arr r base _ _ _ (Or.inl (by omega)), if_neg (by omega), if_neg (by omega)]

/-- the frame record OP_TAILCALL leaves for a Lua callee: the callee's frame `cf3`, moved onto the caller's base -/
def tailFrame (cf3 : Frame) (base RA : Nat) : Frame :=
  { cf3 with base := base, localBase := base + (cf3.localBase - (RA + 1) + 1) }

/-- what a LUA callee sees after OP_TAILCALL's frame set-up and block move: still `bind` of the arguments. -/
theorem calleeView_tail (env : MEnv W) (hI : InfoWF env) (fv : OVal) (r : Reg) (RA base : Nat) (hb : base ≤ RA)
    (args : List OVal) (cf1 : Frame) (hG : (env.info fv).isG = false) (hfn : cf1.fn = env.info fv) (hbase : cf1.base = RA)
    (hlb : cf1.localBase = RA + 1) (hn : cf1.nargs = args.length)
    (ha : ArgsAt r (RA + 1) args) (stack : List Frame) (maxSp : Nat) :
    let reg2 := (initCallFrame r cf1 0).1
    let cf3 := (initCallFrame r cf1 0).2.1
    let reg3 := reg2.copyRange base (RA : Int) (-1) (reg2.top - RA)
    let cf4 : Frame := tailFrame cf3 base RA
    calleeView { reg := reg3, stack := stack, maxSp := maxSp } cf4 =
      some ((bind ((env.toSEnv []).np fv) ((env.toSEnv []).va fv) args).1,
            (bind ((env.toSEnv []).np fv) ((env.toSEnv []).va fv) args).2) ∧
    cf4.returnBase = cf1.returnBase ∧ cf4.nret = cf1.nret ∧ cf4.fn.isG = false ∧ base + 1 ≤ cf4.localBase ∧
    base ≤ reg3.top ∧ (∀ j, j < base → reg3.arr j = r.arr j) := by
  intro reg2 cf3 reg3 cf4
  rw [← hlb] at ha
  have hG0 : cf1.fn.isG = false := by rw [hfn]; exact hG
  have hnp := hI fv hG
  by_cases hva : (env.info fv).varArg = true
  · have hva0 : cf1.fn.varArg = true := by rw [hfn]; exact hva
    have h := initCallFrame_binds_vararg r cf1 args 0 hG0 hva0 (by omega) hn ha (by rw [hfn]; exact hnp)
    simp only at h
    obtain ⟨h1, h2, h3, h4, _, _, h7⟩ := h
    obtain ⟨hv1, hv2, hv3, hv4⟩ := h4
    have hcf3 : cf3 = { cf1 with localBase := cf1.localBase + max cf1.nargs cf1.fn.np } := h1
    have htop2 : reg2.top = cf1.localBase + max cf1.nargs cf1.fn.np + cf1.fn.nur := h2
    rw [h1] at hv1 hv2 hv4
    simp only [hva0, if_true] at hv2 hv4
    have hlb4 : cf4.localBase = cf1.localBase + max cf1.nargs cf1.fn.np - (RA - base) := by
      show base + (cf3.localBase - (RA + 1) + 1) = _
      rw [hcf3]; simp only; omega
    have hw1 : reg3.window cf4.localBase cf1.fn.np = (bind cf1.fn.np true args).1.map some := by
      rw [hlb4, ← h3]
      exact window_shift reg2 base RA hb _ _ (by omega) (by rw [htop2, hfn]; omega)
    have hw2 : reg3.window (base + cf1.fn.np + 1) (cf1.nargs - cf1.fn.np) = (args.drop cf1.fn.np).map some := by
      have := window_shift reg2 base RA hb (RA + cf1.fn.np + 1) (cf1.nargs - cf1.fn.np) (by omega)
        (by rw [htop2]; omega)
      rw [show RA + cf1.fn.np + 1 - (RA - base) = base + cf1.fn.np + 1 by omega] at this
      rw [this]
      rw [hv2, ← hbase]
      exact hv4
    refine ⟨?_, by show cf3.returnBase = _; rw [hcf3], by show cf3.nret = _; rw [hcf3],
      by show cf3.fn.isG = false; rw [hcf3]; exact hG0, by show base + 1 ≤ base + _; omega,
      by show base ≤ base + _; omega, fun j hj => ?_⟩
    · have hfn4 : cf4.fn = env.info fv := by show cf3.fn = _; rw [hcf3]; exact hfn
      have hna4 : cf4.nargs = cf1.nargs := by show cf3.nargs = _; rw [hcf3]
      simp only [calleeView, hfn4, hG, hva, Bool.false_eq_true, if_false, if_true, MEnv.toSEnv, Bool.false_or, hna4]
      rw [hfn] at hw1 hw2
      rw [hw1, slotsVals_map_some]
      show (match some (bind (env.info fv).np true args).1,
        slotsVals (reg3.window (base + (env.info fv).np + 1) (cf1.nargs - (env.info fv).np)) with
        | some p, some x => some (p, x) | _, _ => none) = _
      rw [hw2, slotsVals_map_some]
      simp [Adjust.bind]
    · rw [copyRange_below reg2 base RA hb _ j hj]
      exact h7 j (by omega)
  · have hva' : (env.info fv).varArg = false := by simpa using hva
    have hva0 : cf1.fn.varArg = false := by rw [hfn]; exact hva'
    have h := initCallFrame_binds_fixed r cf1 args 0 hG0 hva0 hn ha
    simp only at h
    obtain ⟨h1, _, h3, h4, _, h6⟩ := h
    have hcf3 : cf3 = cf1 := h1
    have htop2 : reg2.top = cf1.localBase + cf1.fn.nur := h3
    have hlb4 : cf4.localBase = cf1.localBase - (RA - base) := by
      show base + (cf3.localBase - (RA + 1) + 1) = _
      rw [hcf3]; omega
    have hw1 : reg3.window cf4.localBase cf1.fn.np = (bind cf1.fn.np false args).1.map some := by
      rw [hlb4, ← h4]
      exact window_shift reg2 base RA hb _ _ (by omega) (by rw [htop2, hfn]; omega)
    refine ⟨?_, by show cf3.returnBase = _; rw [hcf3], by show cf3.nret = _; rw [hcf3],
      by show cf3.fn.isG = false; rw [hcf3]; exact hG0, by show base + 1 ≤ base + _; omega,
      by show base ≤ base + _; omega, fun j hj => ?_⟩
    · have hfn4 : cf4.fn = env.info fv := by show cf3.fn = _; rw [hcf3]; exact hfn
      simp only [calleeView, hfn4, hG, hva', Bool.false_eq_true, if_false, MEnv.toSEnv, Bool.false_or]
      rw [hfn] at hw1
      rw [hw1, slotsVals_map_some]
      simp [Adjust.bind]
    · rw [copyRange_below reg2 base RA hb _ j hj]
      exact h6 j (by omega)

/-- **OP_TAILCALL with an abstract callee** — function value in `R[A]`, arguments behind it: the callee (host or Lua,
    fixed or vararg) is run on `bind` of exactly these values, the running function's frame is gone (`stack = rest`)
    and ITS caller finds `adjust results cf.NRet` at `cf.ReturnBase`. -/
theorem execTailCall_spec (env : MEnv W) (hB : BodiesOK env) (hI : InfoWF env) (extra : List OVal) (s : MS W) (cf : Frame)
    (rest : List Frame) (A B : Nat) (fv : OVal) (args : List OVal)
    (hst : s.st.stack = cf :: rest) (hroom : s.st.stack.length < s.st.maxSp)
    (hrbb : cf.returnBase ≤ cf.base) (hbl : cf.base < cf.localBase)
    (hf : s.st.reg.arr (cf.localBase + A) = some fv)
    (ha : ArgsAt s.st.reg (cf.localBase + A + 1) args)
    (hb : if B = 0 then s.st.reg.top = cf.localBase + A + 1 + args.length else args.length = B - 1) :
    ∃ s', execTailCall env s A B = .ok s' ∧ s'.done = true ∧ s'.st.stack = rest ∧ s'.heap = s.heap ∧
      s'.w = (callSem (env.toSEnv extra) fv args s.w).2 ∧
      s'.st.reg.top = cf.returnBase + (adjust (callSem (env.toSEnv extra) fv args s.w).1 cf.nret).length ∧
      s'.st.reg.window cf.returnBase (adjust (callSem (env.toSEnv extra) fv args s.w).1 cf.nret).length =
        (adjust (callSem (env.toSEnv extra) fv args s.w).1 cf.nret).map some ∧
      (∀ j, j < cf.returnBase → s'.st.reg.arr j = s.st.reg.arr j) := by
  have hnargs : decodeNArgs s.st.reg.top (cf.localBase + A) B = args.length := by
    simp only [decodeNArgs]
    by_cases hb0 : B = 0
    · simp only [hb0, if_true] at hb ⊢; omega
    · simp only [hb0, if_false] at hb ⊢; omega
  by_cases hG : (env.info fv).isG = true
  · -- a host function: its frame on top of the caller's, both popped when it returns
    obtain ⟨cf0, hcf0⟩ : ∃ cf0 : Frame, Frame.mk (env.info fv) (cf.localBase + A) (cf.localBase + A + 1)
        cf.returnBase (decodeNArgs s.st.reg.top (cf.localBase + A) B) cf.nret 0 = cf0 := ⟨_, rfl⟩
    have hfn : cf0.fn = env.info fv := by rw [← hcf0]
    have hbase : cf0.base = cf.localBase + A := by rw [← hcf0]
    have hlb : cf0.localBase = cf.localBase + A + 1 := by rw [← hcf0]
    have hrb : cf0.returnBase = cf.returnBase := by rw [← hcf0]
    have hn : cf0.nargs = args.length := by rw [← hcf0]; exact hnargs
    have hnr : cf0.nret = cf.nret := by rw [← hcf0]
    obtain ⟨hview, hrb1, hlb1, hnr1, htop1, hbel1⟩ :=
      calleeView_bind env hI fv s.st.reg (cf.localBase + A) args cf0 hfn hbase hlb hn ha
        ((initCallFrame s.st.reg cf0 0).2.1 :: s.st.stack) s.st.maxSp
    have hisG1 : (initCallFrame s.st.reg cf0 0).2.1.fn.isG = true := by
      have : (initCallFrame s.st.reg cf0 0).2.1 = cf0 := by
        simp only [initCallFrame, hfn, hG, if_true]
      rw [this, hfn]; exact hG
    have hcall : opTailCallG s.st A B (env.info fv) false =
        .ok { s.st with reg := (initCallFrame s.st.reg cf0 0).1,
                        stack := (initCallFrame s.st.reg cf0 0).2.1 :: s.st.stack } := by
      simp only [opTailCallG, hst, pushCallFrame, Bool.false_eq_true, if_false]
      rw [hst] at hroom
      have hne : ¬ ((cf :: rest).length = s.st.maxSp) := by omega
      simp only [hne, if_false, Reg.get]
      rw [hcf0]
      rfl
    obtain ⟨s2, hrun, hst2, _, htop2, hwin2, hbel2⟩ :=
      runCallee_spec env hB fv
        { s.st with reg := (initCallFrame s.st.reg cf0 0).1, stack := (initCallFrame s.st.reg cf0 0).2.1 :: s.st.stack }
        (initCallFrame s.st.reg cf0 0).2.1 s.st.stack s.w _ _ rfl (by rw [hrb1, hrb]; omega)
        (by rw [hrb1, hrb]; simp only; omega) hview
    rw [hrb1, hrb, hnr1, hnr] at htop2 hwin2
    rw [hrb1, hrb] at hbel2
    have htail := runCallee_tailG env hB fv
      { s.st with reg := (initCallFrame s.st.reg cf0 0).1, stack := (initCallFrame s.st.reg cf0 0).2.1 :: s.st.stack }
      (initCallFrame s.st.reg cf0 0).2.1 cf rest s.w (by simp only [hst]) hisG1 (by rw [hrb1, hrb]; simp only; omega)
    rw [hrun] at htail
    refine ⟨{ s with st := { s2 with stack := rest }, w := (callSem (env.toSEnv extra) fv args s.w).2, done := true },
      ?_, rfl, rfl, rfl, rfl, htop2, hwin2, ?_⟩
    · simp only [execTailCall, hst, Reg.get, hf, hG, if_true, hcall, bind_ok]
      simp only [hst] at htail
      rw [htail]
      rfl
    · intro j hj
      show s2.reg.arr j = _
      rw [hbel2 j hj]
      exact hbel1 j (by omega)
  · -- a Lua function: the caller's frame record is reused
    have hG' : (env.info fv).isG = false := by simpa using hG
    obtain ⟨cf1, hcf1⟩ : ∃ cf1 : Frame, Frame.mk (env.info fv) (cf.localBase + A) (cf.localBase + A + 1)
        cf.returnBase (decodeNArgs s.st.reg.top (cf.localBase + A) B) cf.nret (cf.tailCall + 1) = cf1 := ⟨_, rfl⟩
    have hfn : cf1.fn = env.info fv := by rw [← hcf1]
    have hbase : cf1.base = cf.localBase + A := by rw [← hcf1]
    have hlb : cf1.localBase = cf.localBase + A + 1 := by rw [← hcf1]
    have hrb : cf1.returnBase = cf.returnBase := by rw [← hcf1]
    have hn : cf1.nargs = args.length := by rw [← hcf1]; exact hnargs
    have hnr : cf1.nret = cf.nret := by rw [← hcf1]
    obtain ⟨hview, hrb4, hnr4, hG4, hlb4, htop4, hbel4⟩ :=
      calleeView_tail env hI fv s.st.reg (cf.localBase + A) cf.base (by omega) args cf1 hG' hfn hbase hlb hn ha
        (tailFrame (initCallFrame s.st.reg cf1 0).2.1 cf.base (cf.localBase + A) :: rest) s.st.maxSp
    have hcall : opTailCallLua s.st A B (env.info fv) false 0 =
        .ok ({ s.st with
                reg := (initCallFrame s.st.reg cf1 0).1.copyRange cf.base ((cf.localBase + A : Nat) : Int) (-1)
                        ((initCallFrame s.st.reg cf1 0).1.top - (cf.localBase + A)),
                stack := tailFrame (initCallFrame s.st.reg cf1 0).2.1 cf.base (cf.localBase + A) :: rest },
             (initCallFrame s.st.reg cf1 0).2.2) := by
      simp only [opTailCallLua, opTailCallLuaGen, hst, Bool.false_eq_true, if_false, tailFrame]
      rw [hcf1]
    obtain ⟨s2, hrun, hst2, _, htop2, hwin2, hbel2⟩ :=
      runCallee_spec env hB fv _ _ rest s.w _ _ rfl (by rw [hrb4, hrb]; omega)
        (by rw [hrb4, hrb]; simp only; omega) hview
    rw [hrb4, hrb, hnr4, hnr] at htop2 hwin2
    rw [hrb4, hrb] at hbel2
    refine ⟨{ s with st := s2, w := (callSem (env.toSEnv extra) fv args s.w).2, done := true },
      ?_, rfl, hst2, rfl, rfl, htop2, hwin2, ?_⟩
    · simp only [execTailCall, hst, Reg.get, hf, hG', Bool.false_eq_true, if_false, hcall, bind_ok]
      rw [hrun]
      rfl
    · intro j hj
      rw [hbel2 j hj]
      exact hbel4 j (by omega)

end GLua.CallCompile
