/-
  C02, compile-time half — packaging for Props/C02.lean: execution of the ENCODED code (`Instr.mask`, the operand
  truncation of `AddABC`) under the guard `Fits`, windows instead of pointwise register facts, and a canonical
  environment showing that the hypotheses about the abstract callees are satisfiable.
-/
import GLua.Proofs.CallCompileStmt

namespace GLua.CallCompile
open GLua GLua.CallFrame GLua.CallFrame.Reg GLua.CallShapes GLua.Adjust GLua.CallFrame.Run

variable {W : Type}

theorem fits_map_mask (code : List Instr) (h : Fits code) : code.map Instr.mask = code := by
  induction code with
  | nil => rfl
  | cons i c ih =>
    have hi : i.mask = i := of_decide_eq_true (h i (List.mem_cons_self ..))
    simp only [List.map_cons, hi]
    rw [ih (fun j hj => h j (List.mem_cons_of_mem _ hj))]

/-- running the encoded words = running the model's instructions, when no operand was truncated -/
theorem Runs.masked {env : MEnv W} {K : List Konst} {code : List Instr} {s s' : MS W} (h : Runs env K code s s')
    (hf : Fits code) : exec env K (code.map Instr.mask) s = .ok s' := by
  rw [fits_map_mask code hf]; exact h

theorem ValsAt.window {r : Reg} {base n : Nat} {vs : List OVal} (h : ValsAt r base n vs) :
    r.window base n = (adjust vs (some n)).map some := window_eq_adjust r base n vs h

/-! ### a canonical environment (non-vacuity of `BodiesOK`) -/

def setRegs (r : Reg) (a : Nat) : List OVal → Reg
  | [] => r
  | v :: vs => setRegs (r.set a (some v)) (a + 1) vs

def pushAll (r : Reg) : List OVal → Reg
  | [] => r
  | v :: vs => pushAll (r.push (some v)) vs

theorem setRegs_arr (vs : List OVal) : ∀ (r : Reg) (a j : Nat),
    (setRegs r a vs).arr j = if a ≤ j ∧ j < a + vs.length then some ((vs[j - a]?).getD none) else r.arr j := by
  induction vs with
  | nil => intro r a j; simp only [setRegs, List.length_nil]; rw [if_neg (by omega)]
  | cons v vs ih =>
    intro r a j
    simp only [setRegs, ih, set_arr, List.length_cons]
    by_cases h1 : a + 1 ≤ j ∧ j < a + 1 + vs.length
    · rw [if_pos h1, if_pos ⟨by omega, by omega⟩]
      have : j - a = (j - (a + 1)) + 1 := by omega
      rw [this]; simp
    · rw [if_neg h1]
      by_cases h2 : j = a
      · subst h2; rw [if_pos rfl, if_pos ⟨by omega, by omega⟩]; simp
      · rw [if_neg h2, if_neg (by omega)]

theorem setRegs_top (vs : List OVal) : ∀ (r : Reg) (a : Nat),
    r.top ≤ (setRegs r a vs).top ∧ (vs ≠ [] → a + vs.length ≤ (setRegs r a vs).top) := by
  induction vs with
  | nil => intro r a; exact ⟨Nat.le_refl _, fun h => absurd rfl h⟩
  | cons v vs ih =>
    intro r a
    simp only [setRegs, List.length_cons]
    obtain ⟨h1, h2⟩ := ih (r.set a (some v)) (a + 1)
    have h3 := set_top_le r a (some v)
    have h4 := set_top_gt r a (some v)
    refine ⟨by omega, fun _ => ?_⟩
    cases vs with
    | nil => simp only [setRegs, List.length_nil] at h1 ⊢; omega
    | cons v' vs' => have := h2 (by simp); simp only [List.length_cons] at this ⊢; omega

theorem pushAll_spec (vs : List OVal) : ∀ (r : Reg),
    (pushAll r vs).top = r.top + vs.length ∧
    (∀ j, (pushAll r vs).arr j = if r.top ≤ j ∧ j < r.top + vs.length then some ((vs[j - r.top]?).getD none) else r.arr j) := by
  induction vs with
  | nil => intro r; exact ⟨rfl, fun j => by simp only [pushAll, List.length_nil]; rw [if_neg (by omega)]⟩
  | cons v vs ih =>
    intro r
    obtain ⟨h1, h2⟩ := ih (r.push (some v))
    simp only [pushAll, List.length_cons]
    have hp : (r.push (some v)).top = r.top + 1 := rfl
    have hpa : ∀ j, (r.push (some v)).arr j = if j = r.top then some v else r.arr j := fun j => rfl
    refine ⟨by rw [h1, hp]; omega, fun j => ?_⟩
    rw [h2]
    simp only [hp, hpa]
    by_cases h3 : r.top + 1 ≤ j ∧ j < r.top + 1 + vs.length
    · rw [if_pos h3, if_pos ⟨by omega, by omega⟩]
      have : j - r.top = (j - (r.top + 1)) + 1 := by omega
      rw [this]; simp
    · rw [if_neg h3]
      by_cases h4 : j = r.top
      · subst h4; rw [if_pos rfl, if_pos ⟨by omega, by omega⟩]; simp
      · rw [if_neg h4, if_neg (by omega)]

/-- a Lua body that leaves its results in its first registers and returns them with a counted OP_RETURN -/
def canonLuaBody (s1 : St) (res : List OVal) : St × Nat × Nat :=
  match s1.stack with
  | [] => (s1, 0, res.length + 1)
  | cf :: _ => ({ s1 with reg := setRegs s1.reg cf.localBase res }, 0, res.length + 1)

/-- a host body that pushes its results -/
def canonGoBody (s1 : St) (res : List OVal) : St := { s1 with reg := pushAll s1.reg res }

/-- the environment with the canonical bodies -/
def canonEnv (getGlobal : W → String → OVal) (setGlobal : W → String → OVal → W) (index : OVal → String → W → OVal)
    (info : OVal → FnInfo) (sem : OVal → List OVal → List OVal → W → List OVal × W) : MEnv W :=
  { getGlobal := getGlobal, setGlobal := setGlobal, index := index, info := info, sem := sem,
    luaBody := canonLuaBody, goBody := canonGoBody }

theorem canonEnv_bodiesOK (getGlobal : W → String → OVal) (setGlobal : W → String → OVal → W)
    (index : OVal → String → W → OVal) (info : OVal → FnInfo)
    (sem : OVal → List OVal → List OVal → W → List OVal × W) :
    BodiesOK (canonEnv getGlobal setGlobal index info sem) := by
  constructor
  · intro s1 cf1 rest res hst _ hrb
    simp only [canonEnv, canonLuaBody, hst, Nat.add_zero]
    have hs := setRegs_arr res s1.reg cf1.localBase
    have ht := setRegs_top res s1.reg cf1.localBase
    refine ⟨trivial, trivial, ⟨fun h => List.length_eq_zero_iff.mp (by omega), fun h => ⟨by omega, ?_⟩, fun h => by omega⟩, ?_, ?_⟩
    · have : res ≠ [] := by intro h0; rw [h0] at h; simp at h
      have := ht.2 this
      simp only [Nat.add_sub_cancel]; omega
    · apply window_all
      intro i hi
      rw [hs, if_pos ⟨by omega, by omega⟩, Nat.add_sub_cancel_left]
    · intro j hj
      rw [hs, if_neg (by omega)]
  · intro s1 cf1 rest res _ _ hrt
    simp only [canonEnv, canonGoBody]
    obtain ⟨h1, h2⟩ := pushAll_spec res s1.reg
    refine ⟨trivial, trivial, by rw [h1]; omega, ?_, ?_⟩
    · rw [h1, Nat.add_sub_cancel]
      apply window_all
      intro i hi
      rw [h2, if_pos ⟨by omega, by omega⟩, Nat.add_sub_cancel_left]
    · intro j hj
      rw [h2, if_neg (by omega)]

end GLua.CallCompile
