/-
  Lemmas about Model/CallFrame.lean (registry block moves), used by Props/C02.lean.
-/
import GLua.Model.CallFrame
import GLua.Spec.Adjust

namespace GLua.CallFrame
open GLua GLua.Adjust

namespace Reg

@[simp] theorem copyLoop_top (regv : Nat) (start lim : Int) (n : Nat) (r : Reg) :
    (copyLoop regv start lim n r).top = r.top := by
  induction n with
  | zero => rfl
  | succ k ih => simp [copyLoop, ih]

/-- the value iteration `i` of `CopyRange` reads when nothing it reads has been overwritten before. -/
def srcVal (r : Reg) (start lim : Int) (i : Nat) : Slot :=
  if start + (i : Int) ≥ lim ∨ start + (i : Int) < 0 then lnil else r.arr (start + (i : Int)).toNat

/-- `CopyRange`'s loop without smearing: when the destination does not run ahead of the source
    (`regv ≤ start`) or lies at/above the read limit, slot `regv+i` receives the original source value. -/
theorem copyLoop_arr (regv : Nat) (start lim : Int) (r : Reg)
    (h : (regv : Int) ≤ start ∨ lim ≤ (regv : Int)) (n : Nat) (j : Nat) :
    (copyLoop regv start lim n r).arr j =
      if regv ≤ j ∧ j < regv + n then srcVal r start lim (j - regv) else r.arr j := by
  induction n generalizing j with
  | zero =>
    simp only [copyLoop]
    rw [if_neg (by omega)]
  | succ k ih =>
    simp only [copyLoop, upd]
    by_cases hj : j = regv + k
    · subst hj
      simp only [if_true]
      have h1 : regv ≤ regv + k ∧ regv + k < regv + (k + 1) := ⟨by omega, by omega⟩
      simp only [h1, and_self, if_true, srcVal, Nat.add_sub_cancel_left]
      split
      · rfl
      · rename_i hc
        rw [ih]
        have : ¬ (regv ≤ (start + (k : Int)).toNat ∧ (start + (k : Int)).toNat < regv + k) := by omega
        simp [this]
    · simp only [hj, if_false]
      rw [ih]
      by_cases hc : regv ≤ j ∧ j < regv + k
      · have : regv ≤ j ∧ j < regv + (k + 1) := ⟨hc.1, by omega⟩
        simp [hc, this]
      · have : ¬ (regv ≤ j ∧ j < regv + (k + 1)) := by omega
        simp [hc, this]

theorem copyRange_top (r : Reg) (regv : Nat) (s l : Int) (n : Nat) : (r.copyRange regv s l n).top = regv + n := rfl

theorem copyRange_arr (r : Reg) (regv : Nat) (start limit : Int) (n : Nat)
    (h : (regv : Int) ≤ start ∨ r.effLimit limit ≤ (regv : Int)) (j : Nat) :
    (r.copyRange regv start limit n).arr j =
      if regv + n ≤ j ∧ j < r.top then goNil
      else if regv ≤ j ∧ j < regv + n then srcVal r start (r.effLimit limit) (j - regv) else r.arr j := by
  simp only [copyRange]
  split
  · rfl
  · exact copyLoop_arr regv start _ r h n j

theorem effLimit_neg1 (r : Reg) : r.effLimit (-1) = (r.top : Int) := by simp [effLimit]

theorem effLimit_le_top (r : Reg) (l : Nat) (h : l ≤ r.top) : r.effLimit (l : Int) = (l : Int) := by
  simp only [effLimit]
  have h1 : ¬ ((l : Int) = -1) := by omega
  have h2 : ¬ ((l : Int) > (r.top : Int)) := by omega
  simp [h1, h2]

/-- pointwise description of a window = list equality with `adjust`. -/
theorem window_eq_adjust (r : Reg) (a n : Nat) (vals : List OVal)
    (h : ∀ i, i < n → r.arr (a + i) = some ((vals[i]?).getD none)) :
    r.window a n = (adjust vals (some n)).map some := by
  apply List.ext_getElem?
  intro i
  by_cases hi : i < n
  · simp only [window, List.getElem?_map, adjust_get vals n i hi]
    simp [hi, h i hi]
  · have h1 : (r.window a n)[i]? = none := by simp [window]; omega
    have h2 : ((adjust vals (some n)).map some)[i]? = none := by
      simp [adjust_length]; omega
    rw [h1, h2]

theorem window_all (r : Reg) (a : Nat) (vals : List OVal)
    (h : ∀ i, i < vals.length → r.arr (a + i) = some ((vals[i]?).getD none)) :
    r.window a vals.length = vals.map some := by
  have := window_eq_adjust r a vals.length vals h
  simpa [adjust] using this

theorem window_get (r : Reg) (a n i : Nat) (hi : i < n) : (r.window a n)[i]? = some (r.arr (a + i)) := by
  simp [window, hi]

/-- reading a window that is known as a list -/
theorem arr_of_window (r : Reg) (a : Nat) (vals : List OVal) (h : r.window a vals.length = vals.map some)
    (i : Nat) (hi : i < vals.length) : r.arr (a + i) = some ((vals[i]?).getD none) := by
  have h1 := window_get r a vals.length i hi
  rw [h] at h1
  simp only [List.getElem?_map] at h1
  have : vals[i]? = some vals[i] := by simp [hi]
  rw [this] at h1
  simp only [Option.map_some, Option.some.injEq] at h1
  rw [← h1, this]; rfl

end Reg
/-! ### initCallFrame -/

@[simp] theorem moveParams_top (lb nargs k : Nat) (r : Reg) : (moveParams lb nargs k r).top = r.top := by
  induction k with
  | zero => rfl
  | succ k ih => simp [moveParams, ih]

/-- the relocation loop in closed form (no overlap because `k ≤ nargs`). -/
theorem moveParams_arr (lb nargs : Nat) (r : Reg) (k : Nat) (hk : k ≤ nargs) (j : Nat) :
    (moveParams lb nargs k r).arr j =
      if lb ≤ j ∧ j < lb + k then lnil
      else if lb + nargs ≤ j ∧ j < lb + nargs + k then r.arr (j - nargs) else r.arr j := by
  induction k generalizing j with
  | zero =>
    simp only [moveParams]
    rw [if_neg (by omega), if_neg (by omega)]
  | succ k ih =>
    have ihk := ih (by omega)
    simp only [moveParams, upd]
    by_cases h1 : j = lb + k
    · subst h1; rw [if_pos rfl, if_pos ⟨by omega, by omega⟩]
    · rw [if_neg h1]
      by_cases h2 : j = lb + nargs + k
      · subst h2
        rw [if_pos rfl, if_neg (by omega), if_pos ⟨by omega, by omega⟩]
        rw [ihk, if_neg (by omega), if_neg (by omega)]
        congr 1; omega
      · rw [if_neg h2, ihk]
        by_cases h3 : lb ≤ j ∧ j < lb + k
        · rw [if_pos h3, if_pos (show lb ≤ j ∧ j < lb + (k + 1) from ⟨h3.1, by omega⟩)]
        · rw [if_neg h3, if_neg (show ¬ (lb ≤ j ∧ j < lb + (k + 1)) by omega)]
          by_cases h4 : lb + nargs ≤ j ∧ j < lb + nargs + k
          · rw [if_pos h4, if_pos (show lb + nargs ≤ j ∧ j < lb + nargs + (k + 1) from ⟨h4.1, by omega⟩)]
          · rw [if_neg h4, if_neg (show ¬ (lb + nargs ≤ j ∧ j < lb + nargs + (k + 1)) by omega)]

/-- the arguments of a call as they sit in the registry when the frame is set up. -/
def ArgsAt (r : Reg) (lb : Nat) (args : List OVal) : Prop :=
  lb + args.length ≤ r.top ∧ ∀ i, i < args.length → r.arr (lb + i) = some ((args[i]?).getD none)

theorem padMissing_spec (r : Reg) (lb np : Nat) (args : List OVal) (h : ArgsAt r lb args) :
    let p := padMissing r lb args.length np
    p.2 = max args.length np ∧ lb + p.2 ≤ p.1.top ∧ p.1.top ≤ max r.top (lb + np) ∧
    (∀ i, i < p.2 → p.1.arr (lb + i) = some ((args[i]?).getD none)) ∧
    (∀ j, j < lb → p.1.arr j = r.arr j) := by
  obtain ⟨htop, harg⟩ := h
  simp only [padMissing]
  by_cases hc : args.length < np
  · simp only [hc, if_true]
    refine ⟨by omega, by omega, by omega, ?_, ?_⟩
    · intro i hi
      by_cases hia : i < args.length
      · rw [if_neg (by omega)]; exact harg i hia
      · rw [if_pos ⟨by omega, by omega⟩]
        have : args[i]? = none := by simp; omega
        simp [this, lnil]
    · intro j hj; rw [if_neg (by omega)]
  · simp only [hc, if_false]
    refine ⟨by omega, by omega, by omega, ?_, ?_⟩
    · intro i hi
      exact harg i (by omega)
    · intro j _; trivial

theorem initFixed_spec (r1 : Reg) (lb np nargs nur : Nat) :
    (initFixed r1 lb np nargs nur).top = lb + nur ∧
    (∀ i, i < np → (initFixed r1 lb np nargs nur).arr (lb + i) = r1.arr (lb + i)) ∧
    (∀ i, np ≤ i → i < nur → (initFixed r1 lb np nargs nur).arr (lb + i) = lnil) ∧
    (∀ j, j < lb → (initFixed r1 lb np nargs nur).arr j = r1.arr j) := by
  refine ⟨rfl, ?_, ?_, ?_⟩
  · intro i hi; simp only [initFixed]; rw [if_neg (by omega)]
  · intro i h1 h2; simp only [initFixed]
    by_cases hc : nargs < nur
    · simp only [hc, if_true]; rw [if_pos ⟨by omega, by omega⟩]
    · simp only [hc, if_false]; rw [if_pos ⟨by omega, by omega⟩]
  · intro j hj; simp only [initFixed]; rw [if_neg (by omega)]

/-- pointwise content of the registry after the vararg branch. -/
theorem initVararg_spec (r1 : Reg) (cf : Frame) (N argId : Nat)
    (hN : cf.fn.np ≤ N) (htop : cf.localBase + N ≤ r1.top) (hnur : cf.fn.np < cf.fn.nur) :
    let res := initVararg r1 cf N argId
    res.2.1 = { cf with localBase := cf.localBase + N } ∧
    res.1.top = cf.localBase + N + cf.fn.nur ∧
    (∀ i, i < cf.fn.np → res.1.arr (cf.localBase + N + i) = r1.arr (cf.localBase + i)) ∧
    (∀ i, cf.fn.np ≤ i → i < N → res.1.arr (cf.localBase + i) = r1.arr (cf.localBase + i)) ∧
    (∀ i, i < cf.fn.np → res.1.arr (cf.localBase + i) = lnil) ∧
    (∀ i, cf.fn.np < i → i < cf.fn.nur → res.1.arr (cf.localBase + N + i) = lnil) ∧
    (∀ j, j < cf.localBase → res.1.arr j = r1.arr j) ∧
    (if cf.fn.needsArg then
        res.1.arr (cf.localBase + N + cf.fn.np) = some (some (.ref argId)) ∧
        ∃ a, res.2.2 = some a ∧ a.id = argId ∧ a.n = N - cf.fn.np ∧
          a.items = (List.range (N - cf.fn.np)).map (fun i => r1.arr (cf.localBase + cf.fn.np + i))
      else res.1.arr (cf.localBase + N + cf.fn.np) = lnil ∧ res.2.2 = none) := by
  have hmp := fun r2 => moveParams_arr cf.localBase N r2 cf.fn.np hN
  simp only [initVararg, compatVarArg, if_true]
  refine ⟨trivial, rfl, ?_, ?_, ?_, ?_, ?_, ?_⟩
  · intro i hi
    simp only [Reg.setTop, upd, moveParams_top, hmp]
    simp (disch := omega) only [if_pos, if_neg]
    congr 1; omega
  · intro i h1 h2
    simp only [Reg.setTop, upd, moveParams_top, hmp]
    simp (disch := omega) only [if_pos, if_neg]
  · intro i hi
    simp only [Reg.setTop, upd, moveParams_top, hmp]
    simp (disch := omega) only [if_pos, if_neg]
  · intro i h1 h2
    simp only [Reg.setTop, upd, moveParams_top, hmp]
    simp (disch := omega) only [if_pos, if_neg]
  · intro j hj
    simp only [Reg.setTop, upd, moveParams_top, hmp]
    simp (disch := omega) only [if_pos, if_neg]
  · have hslot : ∀ v : Slot × Option ArgTbl,
        (if cf.localBase + N + cf.fn.nur ≤ cf.localBase + N + cf.fn.np ∧
            cf.localBase + N + cf.fn.np < cf.localBase + N + cf.fn.np + 1 then goNil
         else v.1) = v.1 := by
      intro v; rw [if_neg (by omega)]
    by_cases hna : cf.fn.needsArg = true
    · simp only [hna, if_true, argValue]
      refine ⟨?_, _, rfl, rfl, rfl, ?_⟩
      · simp only [Reg.setTop, upd, moveParams_top]
        simp (disch := omega) only [if_pos, if_neg]
        rfl
      · apply List.map_congr_left
        intro i hi
        simp only [List.mem_range] at hi
        simp only [Reg.get, Reg.setTop, upd, moveParams_top, hmp]
        simp (disch := omega) only [if_pos, if_neg]
    · have hna' : cf.fn.needsArg = false := by simpa using hna
      simp only [hna', argValue, Bool.false_eq_true, if_false]
      refine ⟨?_, trivial⟩
      simp only [Reg.setTop, upd, moveParams_top]
      simp (disch := omega) only [if_pos, if_neg]
      rfl

end GLua.CallFrame
