/-
  Run-time theorems of C02 about Model/CallFrame.lean (result delivery, frame set-up, OP_VARARG / OP_SELF / OP_SETLIST,
  proper tail calls).  They are STATED in Props/C02.lean (same names, same statements); the proofs live here so that
  the compile-side proofs (Proofs/CallCompile*.lean) can use them.
-/
import GLua.Proofs.CallFrame

namespace GLua.CallFrame.Run
open GLua GLua.CallFrame GLua.CallFrame.Reg GLua.Adjust

/-! ### result delivery: copyReturnValues / OP_RETURN -/

/-- what the `B` operand of OP_RETURN says about the values `vals` available from register `start` on:
    `B = 1` none, `B ≥ 2` exactly `B-1` registers (below top), `B = 0` everything up to top. -/
def RetAvail (r : Reg) (start b : Nat) (vals : List OVal) : Prop :=
  (b = 1 → vals = []) ∧ (b ≥ 2 → vals.length = b - 1 ∧ start + (b - 1) ≤ r.top) ∧
  (b = 0 → start ≤ r.top ∧ vals.length = r.top - start)

/-- **copyReturnValues_adjusts** — for the three encodings of the available count (`B = 1`, `B > 1`, `B = 0`) and
    every wanted count `n`: the destination window is exactly `adjust vals n` (truncated / nil-padded, no stale
    register content), `top = regv + n`, nothing below `regv` changes, and everything between the new and the
    old top is cleared. -/
theorem copyReturnValues_adjusts (r : Reg) (regv start n b : Nat) (vals : List OVal)
    (hle : regv ≤ start) (hav : RetAvail r start b vals)
    (hv : r.window start vals.length = vals.map some) :
    (copyReturnValues r regv start n b).top = regv + n ∧
    (copyReturnValues r regv start n b).window regv n = (adjust vals (some n)).map some ∧
    (∀ j, j < regv → (copyReturnValues r regv start n b).arr j = r.arr j) ∧
    (∀ j, regv + n ≤ j → j < r.top → (copyReturnValues r regv start n b).arr j = goNil) := by
  obtain ⟨h1, h2, h0⟩ := hav
  have hsrc := arr_of_window r start vals hv
  have hcond : ((regv : Nat) : Int) ≤ ((start : Nat) : Int) ∨ r.effLimit (-1) ≤ ((regv : Nat) : Int) := Or.inl (by omega)
  by_cases hb1 : b = 1
  · -- B = 1: FillNil
    have hvals := h1 hb1
    subst hvals
    simp only [copyReturnValues, hb1, if_true]
    refine ⟨rfl, ?_, ?_, ?_⟩
    · apply window_eq_adjust
      intro i hi
      simp only [fillNil]
      rw [if_pos ⟨by omega, by omega⟩]; simp [lnil]
    · intro j hj
      simp only [fillNil]
      rw [if_neg (by omega), if_neg (by omega)]
    · intro j hj1 hj2
      simp only [fillNil]
      rw [if_neg (by omega), if_pos ⟨hj1, hj2⟩]
  · simp only [copyReturnValues, hb1, if_false]
    -- the CopyRange part, pointwise
    have hcr : ∀ j, (r.copyRange regv (start : Int) (-1) n).arr j =
        if regv + n ≤ j ∧ j < r.top then goNil
        else if regv ≤ j ∧ j < regv + n then srcVal r (start : Int) (r.top : Int) (j - regv) else r.arr j := by
      intro j
      rw [copyRange_arr r regv _ _ n hcond j, effLimit_neg1]
    by_cases hb0 : b = 0
    · -- B = 0: everything up to top
      obtain ⟨hst, hlen⟩ := h0 hb0
      have hnf : ¬ (b > 1 ∧ n > b - 1) := by omega
      simp only [hnf, if_false]
      refine ⟨rfl, ?_, ?_, ?_⟩
      · apply window_eq_adjust
        intro i hi
        rw [hcr, if_neg (by omega), if_pos ⟨by omega, by omega⟩]
        simp only [srcVal, Nat.add_sub_cancel_left]
        by_cases hiv : i < vals.length
        · rw [if_neg (by omega)]
          have : ((start : Int) + (i : Int)).toNat = start + i := by omega
          rw [this]; exact hsrc i hiv
        · rw [if_pos (Or.inl (by omega))]
          have : vals[i]? = none := by simp; omega
          simp [this, lnil]
      · intro j hj; rw [hcr, if_neg (by omega), if_neg (by omega)]
      · intro j hj1 hj2; rw [hcr, if_pos ⟨hj1, hj2⟩]
    · -- B ≥ 2
      have hb2 : b ≥ 2 := by omega
      obtain ⟨hlen, htop⟩ := h2 hb2
      by_cases hn : b > 1 ∧ n > b - 1
      · simp only [hn, and_self, if_true]
        refine ⟨by simp only [fillNil]; omega, ?_, ?_, ?_⟩
        · apply window_eq_adjust
          intro i hi
          simp only [fillNil]
          by_cases hiv : i < vals.length
          · rw [if_neg (by omega), if_neg (by simp only [copyRange_top]; omega)]
            rw [hcr, if_neg (by omega), if_pos ⟨by omega, by omega⟩]
            simp only [srcVal, Nat.add_sub_cancel_left]
            rw [if_neg (by omega)]
            have : ((start : Int) + (i : Int)).toNat = start + i := by omega
            rw [this]; exact hsrc i hiv
          · rw [if_pos ⟨by omega, by omega⟩]
            have : vals[i]? = none := by simp; omega
            simp [this, lnil]
        · intro j hj
          simp only [fillNil]
          rw [if_neg (by omega), if_neg (by simp only [copyRange_top]; omega)]
          rw [hcr, if_neg (by omega), if_neg (by omega)]
        · intro j hj1 hj2
          simp only [fillNil]
          rw [if_neg (by omega), if_neg (by simp only [copyRange_top]; omega)]
          rw [hcr, if_pos ⟨hj1, hj2⟩]
      · simp only [hn, if_false]
        have hnle : n ≤ b - 1 := by omega
        refine ⟨rfl, ?_, ?_, ?_⟩
        · apply window_eq_adjust
          intro i hi
          rw [hcr, if_neg (by omega), if_pos ⟨by omega, by omega⟩]
          simp only [srcVal, Nat.add_sub_cancel_left]
          rw [if_neg (by omega)]
          have : ((start : Int) + (i : Int)).toNat = start + i := by omega
          rw [this]; exact hsrc i (by omega)
        · intro j hj; rw [hcr, if_neg (by omega), if_neg (by omega)]
        · intro j hj1 hj2; rw [hcr, if_pos ⟨hj1, hj2⟩]

/-- **opReturn_delivers** — OP_RETURN pops exactly one frame and leaves at the frame's `ReturnBase` the returned
    values adjusted to the caller's wish `cf.NRet` (`none` = MultRet = all of them). -/
theorem opReturn_delivers (s : St) (cf : Frame) (rest : List Frame) (A B : Nat) (vals : List OVal)
    (hst : s.stack = cf :: rest) (hle : cf.returnBase ≤ cf.localBase + A)
    (hav : RetAvail s.reg (cf.localBase + A) B vals)
    (hv : s.reg.window (cf.localBase + A) vals.length = vals.map some) :
    ∃ s', opReturn s A B = .ok s' ∧ s'.stack = rest ∧ s'.sp + 1 = s.sp ∧
      s'.reg.top = cf.returnBase + (adjust vals cf.nret).length ∧
      s'.reg.window cf.returnBase (adjust vals cf.nret).length = (adjust vals cf.nret).map some ∧
      (∀ j, j < cf.returnBase → s'.reg.arr j = s.reg.arr j) := by
  have hn : decodeNRetVals s.reg.top (cf.localBase + A) B = vals.length := by
    obtain ⟨h1, h2, h0⟩ := hav
    simp only [decodeNRetVals]
    by_cases hb0 : B = 0
    · simp [hb0, (h0 hb0).2]
    · by_cases hb1 : B = 1
      · simp [hb1, h1 hb1]
      · simp [hb0, (h2 (by omega)).1]
  refine ⟨_, by simp only [opReturn, hst]; rfl, by rfl, by simp [St.sp, hst], ?_⟩
  have key := copyReturnValues_adjusts s.reg cf.returnBase (cf.localBase + A)
    (cf.nret.getD (decodeNRetVals s.reg.top (cf.localBase + A) B)) B vals hle hav hv
  have hlen : (adjust vals cf.nret).length = cf.nret.getD vals.length := by
    cases hc : cf.nret with
    | none => simp [adjust]
    | some n => simp [adjust_length]
  have hadj : adjust vals cf.nret = adjust vals (some (cf.nret.getD vals.length)) := by
    cases hc : cf.nret with
    | none => simp [adjust]
    | some n => simp
  rw [hn] at key
  simp only [hn]
  rw [hlen]
  refine ⟨key.1, ?_, key.2.2.1⟩
  rw [hadj]; exact key.2.1

/-! ### host functions: callGFunction -/

/-- **gfunction_returns_topmost** — a host function that returns `k` (and has at least `k` values above the
    slot its results go to) delivers exactly its top-most `k` stack values, adjusted to the frame's `NRet`, at
    `ReturnBase`; its frame is popped; nothing below `ReturnBase` changes. -/
theorem gfunction_returns_topmost (s : St) (frame : Frame) (rest : List Frame) (k : Nat) (vals : List OVal)
    (hst : s.stack = frame :: rest) (hk : vals.length = k) (hroom : frame.returnBase + k ≤ s.reg.top)
    (hv : s.reg.window (s.reg.top - k) k = vals.map some) :
    ∃ s', gReturn s k false = .ok s' ∧ s'.stack = rest ∧
      s'.reg.top = frame.returnBase + (adjust vals frame.nret).length ∧
      s'.reg.window frame.returnBase (adjust vals frame.nret).length = (adjust vals frame.nret).map some ∧
      (∀ j, j < frame.returnBase → s'.reg.arr j = s.reg.arr j) := by
  subst hk
  have hsrc := arr_of_window s.reg (s.reg.top - vals.length) vals hv
  have hstart : ((s.reg.top : Int) - (vals.length : Int)) = ((s.reg.top - vals.length : Nat) : Int) := by omega
  have hcond : ((frame.returnBase : Nat) : Int) ≤ ((s.reg.top - vals.length : Nat) : Int) ∨
      s.reg.effLimit (-1) ≤ ((frame.returnBase : Nat) : Int) := Or.inl (by omega)
  have hlen : (adjust vals frame.nret).length = frame.nret.getD vals.length := by
    cases hc : frame.nret with
    | none => simp [adjust]
    | some n => simp [adjust_length]
  have hadj : adjust vals frame.nret = adjust vals (some (frame.nret.getD vals.length)) := by
    cases hc : frame.nret with
    | none => simp [adjust]
    | some n => simp
  refine ⟨_, by simp only [gReturn, hst]; rfl, by rfl, ?_, ?_, ?_⟩
  · simp only [copyRange_top, hlen]
  · simp only [hlen]
    rw [hadj]
    apply window_eq_adjust
    intro i hi
    rw [hstart, copyRange_arr _ _ _ _ _ hcond, effLimit_neg1, if_neg (by omega), if_pos ⟨by omega, by omega⟩]
    simp only [srcVal, Nat.add_sub_cancel_left]
    by_cases hiv : i < vals.length
    · rw [if_neg (by omega)]
      have : (((s.reg.top - vals.length : Nat) : Int) + (i : Int)).toNat = s.reg.top - vals.length + i := by omega
      rw [this]; exact hsrc i hiv
    · rw [if_pos (Or.inl (by omega))]
      have : vals[i]? = none := by simp; omega
      simp [this, lnil]
  · intro j hj
    rw [hstart, copyRange_arr _ _ _ _ _ hcond, if_neg (by omega), if_neg (by omega)]

/-! ### OP_VARARG -/

/-- the frame of a running vararg function as `initCallFrame` leaves it: the extra arguments sit between the
    (nil-ed) original parameter slots and `LocalBase`. -/
def VarargFrame (r : Reg) (cf : Frame) (extra : List OVal) : Prop :=
  cf.base + cf.fn.np + 1 + extra.length = cf.localBase ∧ cf.nargs - cf.fn.np = extra.length ∧
  cf.localBase ≤ r.top ∧ r.window (cf.base + cf.fn.np + 1) extra.length = extra.map some

/-- **vararg_spec** — `OP_VARARG A B` leaves in `R[A]…` exactly `adjust extra (B-1)` (all of them for `B = 0`),
    `top` just above the last one, registers below `R[A]` untouched. -/
theorem vararg_spec (s : St) (cf : Frame) (rest : List Frame) (A B : Nat) (extra : List OVal)
    (hst : s.stack = cf :: rest) (hf : VarargFrame s.reg cf extra) :
    ∃ s', opVararg s A B = .ok s' ∧ s'.stack = s.stack ∧
      s'.reg.top = cf.localBase + A + (adjust extra (decodeNRet B)).length ∧
      s'.reg.window (cf.localBase + A) (adjust extra (decodeNRet B)).length = (adjust extra (decodeNRet B)).map some ∧
      (∀ j, j < cf.localBase + A → s'.reg.arr j = s.reg.arr j) := by
  obtain ⟨hlb, hna, htop, hv⟩ := hf
  have hsrc := arr_of_window s.reg _ extra hv
  have hwant : (if B = 0 then cf.nargs - cf.fn.np else B - 1) = (adjust extra (decodeNRet B)).length := by
    by_cases hb : B = 0
    · simp [hb, decodeNRet, adjust, hna]
    · simp [hb, decodeNRet, adjust_length]
  have hadj : adjust extra (decodeNRet B) = adjust extra (some (adjust extra (decodeNRet B)).length) := by
    by_cases hb : B = 0
    · simp [hb, decodeNRet, adjust]
    · simp [hb, decodeNRet, adjust_length]
  have hlim : s.reg.effLimit ((cf.localBase : Nat) : Int) = ((cf.localBase : Nat) : Int) := effLimit_le_top _ _ htop
  have hcond : (((cf.localBase + A : Nat)) : Int) ≤ ((cf.base + cf.fn.np + 1 : Nat) : Int) ∨
      s.reg.effLimit ((cf.localBase : Nat) : Int) ≤ ((cf.localBase + A : Nat) : Int) := Or.inr (by rw [hlim]; omega)
  generalize hm : (adjust extra (decodeNRet B)).length = m at hwant hadj ⊢
  refine ⟨_, by simp only [opVararg, hst]; rfl, by rw [hst], ?_, ?_, ?_⟩
  · simp only [copyRange_top, hwant]
  · simp only [hwant]
    rw [hadj]
    apply window_eq_adjust
    intro i hi
    rw [copyRange_arr _ _ _ _ _ hcond, hlim, if_neg (by omega), if_pos ⟨by omega, by omega⟩]
    simp only [srcVal, Nat.add_sub_cancel_left]
    by_cases hiv : i < extra.length
    · rw [if_neg (by omega)]
      have : (((cf.base + cf.fn.np + 1 : Nat) : Int) + (i : Int)).toNat = cf.base + cf.fn.np + 1 + i := by omega
      rw [this]; exact hsrc i hiv
    · rw [if_pos (Or.inl (by omega))]
      have : extra[i]? = none := by simp; omega
      simp [this, lnil]
  · intro j hj
    simp only [hwant]
    rw [copyRange_arr _ _ _ _ _ hcond, if_neg (by omega), if_neg (by omega)]

/-! ### OP_SELF, OP_SETLIST -/

/-- **self_inserts_receiver** — `OP_SELF A B C` puts the method in `R[A]` and the receiver `R[B]` in `R[A+1]`, i.e.
    in front of the explicit arguments that follow from `R[A+2]`: `obj:m(args)` calls `m` with
    `methodArgs obj args`; every other register keeps its value. -/
theorem self_inserts_receiver (s : St) (cf : Frame) (rest : List Frame) (A B : Nat) (method : Slot)
    (hst : s.stack = cf :: rest) :
    ∃ s', opSelf s A B method = .ok s' ∧ s'.stack = s.stack ∧
      s'.reg.arr (cf.localBase + A + 1) = s.reg.arr (cf.localBase + B) ∧
      (A + 1 ≠ A → s'.reg.arr (cf.localBase + A) = method) ∧
      (∀ j, j ≠ cf.localBase + A → j ≠ cf.localBase + A + 1 → s'.reg.arr j = s.reg.arr j) ∧
      (∀ (args : List OVal) (recv : OVal), s.reg.arr (cf.localBase + B) = some recv →
        (∀ i, i < args.length → s.reg.arr (cf.localBase + A + 2 + i) = some ((args[i]?).getD none)) →
        s'.reg.window (cf.localBase + A + 1) (args.length + 1) = (methodArgs recv args).map some) := by
  refine ⟨_, by simp only [opSelf, hst]; rfl, by rw [hst], ?_, ?_, ?_, ?_⟩
  · simp [Reg.set, Reg.get, upd]
  · intro _; simp [Reg.set, Reg.get, upd]
  · intro j h1 h2; simp [Reg.set, Reg.get, upd, h1, h2]
  · intro args recv hr hargs
    have := window_all (((s.reg.set (cf.localBase + A) method).set (cf.localBase + A + 1) (s.reg.get (cf.localBase + B))))
      (cf.localBase + A + 1) (methodArgs recv args) (by
        intro i hi
        simp only [methodArgs, List.length_cons] at hi
        cases i with
        | zero => simp [Reg.set, Reg.get, upd, hr, methodArgs]
        | succ i =>
          have h3 : cf.localBase + A + 1 + (i + 1) = cf.localBase + A + 2 + i := by omega
          simp only [Reg.set, Reg.get, upd, methodArgs, h3]
          rw [if_neg (by omega), if_neg (by omega)]
          simpa using hargs i (by omega))
    simpa [methodArgs] using this

/-- **setlist_fills** — `OP_SETLIST A B C` performs exactly the stores `t[(C'-1)·FieldsPerFlush + i] := R[A+i]` for
    `i = 1 … n`, in order, where `n = B`, or "up to top" for `B = 0`, and `C'` is `C`, or the following code word for
    `C = 0`. -/
theorem setlist_fills (s : St) (cf : Frame) (rest : List Frame) (A B C extra tid : Nat)
    (hst : s.stack = cf :: rest) (ht : s.reg.arr (cf.localBase + A) = some (some (.ref tid))) :
    ∃ stores, opSetList s A B C extra = .ok stores ∧
      stores.length = (if B = 0 then s.reg.top - (cf.localBase + A) - 1 else B) ∧
      ∀ i, i < stores.length →
        stores[i]? = some ((((if C = 0 then extra else C : Nat) : Int) - 1) * (Generated.FieldsPerFlush : Int) + ((i + 1 : Nat) : Int),
                           s.reg.arr (cf.localBase + A + (i + 1))) := by
  refine ⟨_, by simp only [opSetList, hst, Reg.get, ht]; rfl, by simp, ?_⟩
  intro i hi
  simp only [List.length_map, List.length_range] at hi
  simp [Reg.get, hi]

/-! ### frame set-up: initCallFrame -/

/-- **initCallFrame_binds (fixed arity)** — for a Lua function without `...`: the parameter registers hold
    `bind np false args` = the arguments adjusted to `np` (missing ones nil, surplus dropped), every other
    register of the window is LNil (a Lua value, never Go nil), `top = LocalBase + NumUsedRegisters`, the frame
    record and everything below `LocalBase` are unchanged. -/
theorem initCallFrame_binds_fixed (r : Reg) (cf : Frame) (args : List OVal) (argId : Nat)
    (hG : cf.fn.isG = false) (hva : cf.fn.varArg = false)
    (hn : cf.nargs = args.length) (ha : ArgsAt r cf.localBase args) :
    let res := initCallFrame r cf argId
    res.2.1 = cf ∧ res.2.2.isNone ∧
    res.1.top = cf.localBase + cf.fn.nur ∧
    res.1.window cf.localBase cf.fn.np = (bind cf.fn.np false args).1.map some ∧
    (∀ i, cf.fn.np ≤ i → i < cf.fn.nur → res.1.arr (cf.localBase + i) = lnil) ∧
    (∀ j, j < cf.localBase → res.1.arr j = r.arr j) := by
  have hp := padMissing_spec r cf.localBase cf.fn.np args ha
  simp only at hp
  rw [← hn] at hp
  obtain ⟨hp2, _, _, hparg, hpbelow⟩ := hp
  have hf := initFixed_spec (padMissing r cf.localBase cf.nargs cf.fn.np).1 cf.localBase cf.fn.np
    (padMissing r cf.localBase cf.nargs cf.fn.np).2 cf.fn.nur
  obtain ⟨hf1, hf2, hf3, hf4⟩ := hf
  simp only [initCallFrame, hG, hva, Bool.false_eq_true, if_false, Bool.not_false, if_true]
  refine ⟨trivial, rfl, hf1, ?_, hf3, ?_⟩
  · simp only [Adjust.bind]
    apply window_eq_adjust
    intro i hi
    rw [hf2 i hi]
    exact hparg i (by omega)
  · intro j hj
    rw [hf4 j hj, hpbelow j hj]

/-- **initCallFrame_binds (vararg)** — for a Lua function with `...` (`np < NumUsedRegisters`, which patchCode
    guarantees): `LocalBase` moves past the arguments; the parameter registers hold the arguments adjusted to
    `np`; the extra arguments `(bind np true args).2 = args.drop np` stay where OP_VARARG will read them
    (`VarargFrame`, hence `vararg_spec` applies); with `VarArgNeedsArg` the register behind the parameters holds a
    fresh table `{extra…, n = #extra}`, otherwise LNil; all further registers are LNil;
    `top = LocalBase + NumUsedRegisters`; nothing below the old `LocalBase` changes. -/
theorem initCallFrame_binds_vararg (r : Reg) (cf : Frame) (args : List OVal) (argId : Nat)
    (hG : cf.fn.isG = false) (hva : cf.fn.varArg = true) (hb : cf.base + 1 = cf.localBase)
    (hn : cf.nargs = args.length) (ha : ArgsAt r cf.localBase args) (hnur : cf.fn.np < cf.fn.nur) :
    let res := initCallFrame r cf argId
    let lb' := cf.localBase + max cf.nargs cf.fn.np
    res.2.1 = { cf with localBase := lb' } ∧
    res.1.top = lb' + cf.fn.nur ∧
    res.1.window lb' cf.fn.np = (bind cf.fn.np true args).1.map some ∧
    VarargFrame res.1 res.2.1 (bind cf.fn.np true args).2 ∧
    (if cf.fn.needsArg then
        res.1.arr (lb' + cf.fn.np) = some (some (.ref argId)) ∧
        ∃ a, res.2.2 = some a ∧ a.n = (bind cf.fn.np true args).2.length ∧
             a.items = (bind cf.fn.np true args).2.map some
      else res.1.arr (lb' + cf.fn.np) = lnil ∧ res.2.2 = none) ∧
    (∀ i, cf.fn.np < i → i < cf.fn.nur → res.1.arr (lb' + i) = lnil) ∧
    (∀ j, j < cf.localBase → res.1.arr j = r.arr j) := by
  have hp := padMissing_spec r cf.localBase cf.fn.np args ha
  simp only at hp
  rw [← hn] at hp
  obtain ⟨hp2, hptop, _, hparg, hpbelow⟩ := hp
  have hv := initVararg_spec (padMissing r cf.localBase cf.nargs cf.fn.np).1 cf
    (padMissing r cf.localBase cf.nargs cf.fn.np).2 argId (by omega) hptop hnur
  simp only at hv
  rw [hp2] at hv hparg
  obtain ⟨hv1, hv2, hv3, hv4, hv5, hv6, hv7, hv8⟩ := hv
  simp only [initCallFrame, hG, hva, Bool.false_eq_true, if_false, Bool.not_true]
  rw [hp2]
  have hextra : ∀ i, i < (args.drop cf.fn.np).length →
      (initVararg (padMissing r cf.localBase cf.nargs cf.fn.np).1 cf (max cf.nargs cf.fn.np) argId).1.arr
        (cf.localBase + cf.fn.np + i) = some (((args.drop cf.fn.np)[i]?).getD none) := by
    intro i hi
    simp only [List.length_drop] at hi
    have h1 := hv4 (cf.fn.np + i) (by omega) (by omega)
    have h2 := hparg (cf.fn.np + i) (by omega)
    rw [show cf.localBase + (cf.fn.np + i) = cf.localBase + cf.fn.np + i by omega] at h1 h2
    rw [h1, h2, List.getElem?_drop]
  refine ⟨hv1, hv2, ?_, ?_, ?_, hv6, ?_⟩
  · simp only [Adjust.bind]
    apply window_eq_adjust
    intro i hi
    rw [hv3 i hi]
    exact hparg i (by omega)
  · simp only [Adjust.bind, hva, if_true, VarargFrame, hv1, hv2, List.length_drop]
    refine ⟨by omega, by omega, by omega, ?_⟩
    have := window_all _ (cf.base + cf.fn.np + 1) (args.drop cf.fn.np) (by
      intro i hi
      rw [show cf.base + cf.fn.np + 1 + i = cf.localBase + cf.fn.np + i by omega]
      exact hextra i hi)
    simpa [List.length_drop] using this
  · by_cases hna : cf.fn.needsArg = true
    · simp only [hna, if_true] at hv8 ⊢
      obtain ⟨h81, a, ha1, _, ha3, ha4⟩ := hv8
      refine ⟨h81, a, ha1, ?_, ?_⟩
      · simp only [Adjust.bind, hva, if_true, List.length_drop, ha3]; omega
      · simp only [Adjust.bind, hva, if_true, ha4]
        apply List.ext_getElem?
        intro i
        by_cases hi : i < args.length - cf.fn.np
        · have h2 := hparg (cf.fn.np + i) (by omega)
          rw [show cf.localBase + (cf.fn.np + i) = cf.localBase + cf.fn.np + i by omega] at h2
          have hi' : i < max cf.nargs cf.fn.np - cf.fn.np := by omega
          simp only [List.getElem?_map, List.getElem?_range hi', Option.map_some, h2, List.getElem?_drop]
          have : args[cf.fn.np + i]? = some args[cf.fn.np + i] := by simp
          simp [this]
        · have h1 : ((List.range (max cf.nargs cf.fn.np - cf.fn.np)).map
              (fun i => (padMissing r cf.localBase cf.nargs cf.fn.np).1.arr (cf.localBase + cf.fn.np + i)))[i]? = none := by
            simp; omega
          have h2 : ((args.drop cf.fn.np).map some)[i]? = none := by simp; omega
          rw [h1, h2]
    · have hna' : cf.fn.needsArg = false := by simpa using hna
      simp only [hna', Bool.false_eq_true, if_false] at hv8 ⊢
      exact hv8
  · intro j hj
    rw [hv7 j hj, hpbelow j hj]

/-- **initCallFrame_binds (host function)** — a Go callee sees exactly the supplied arguments as its stack
    `1..nargs` (`top = LocalBase + nargs`), nothing else changes below them. -/
theorem initCallFrame_binds_G (r : Reg) (cf : Frame) (args : List OVal) (argId : Nat)
    (hG : cf.fn.isG = true) (hn : cf.nargs = args.length) (ha : ArgsAt r cf.localBase args) :
    let res := initCallFrame r cf argId
    res.2.1 = cf ∧ res.1.top = cf.localBase + args.length ∧
    res.1.window cf.localBase args.length = args.map some ∧
    (∀ j, j < cf.localBase → res.1.arr j = r.arr j) := by
  obtain ⟨htop, harg⟩ := ha
  simp only [initCallFrame, hG, if_true]
  refine ⟨trivial, by simp only [Reg.setTop, hn], ?_, ?_⟩
  · apply window_all
    intro i hi
    simp only [Reg.setTop]
    rw [if_neg (by omega), if_neg (by omega)]
    exact harg i hi
  · intro j hj
    simp only [Reg.setTop]
    rw [if_neg (by omega), if_neg (by omega)]

/-! ### proper tail calls -/

/-- shape of the frame and `top` after `initCallFrame` for a Lua callee, for *any* registry contents. -/
theorem initCallFrame_shape (r : Reg) (cf : Frame) (argId : Nat) (hG : cf.fn.isG = false) :
    (initCallFrame r cf argId).2.1 =
      { cf with localBase := cf.localBase + (if cf.fn.varArg then max cf.nargs cf.fn.np else 0) } ∧
    (initCallFrame r cf argId).1.top = (initCallFrame r cf argId).2.1.localBase + cf.fn.nur := by
  by_cases hva : cf.fn.varArg = true
  · by_cases hc : cf.nargs < cf.fn.np
    · have hm : max cf.nargs cf.fn.np = cf.fn.np := by omega
      simp [initCallFrame, hG, hva, padMissing, hc, initVararg, compatVarArg, Reg.setTop, hm]
    · have hm : max cf.nargs cf.fn.np = cf.nargs := by omega
      simp [initCallFrame, hG, hva, padMissing, hc, initVararg, compatVarArg, Reg.setTop, hm]
  · have hva' : cf.fn.varArg = false := by simpa using hva
    simp [initCallFrame, hG, hva', initFixed]

/-- **tailcall_reuses_frame** — `OP_TAILCALL` to a Lua function (any register contents, any operands, also through
    `__call`): the call stack keeps its depth — the caller's frame record is overwritten in place —, `Base`,
    `ReturnBase` and `NRet` are the caller's, `LocalBase` is a function of the caller's `Base` and the callee's own
    shape only (`Base + 1`, plus `max(nargs, np)` for a vararg callee), and `top = LocalBase + NumUsedRegisters`:
    nothing accumulates from one tail call to the next. -/
theorem tailcall_reuses_frame (s : St) (cf : Frame) (rest : List Frame) (A B : Nat) (callee : FnInfo)
    (isMeta : Bool) (argId : Nat) (hst : s.stack = cf :: rest) (hG : callee.isG = false) :
    ∃ s' atb cf', opTailCallLua s A B callee isMeta argId = .ok (s', atb) ∧
      s'.stack = cf' :: rest ∧ s'.sp = s.sp ∧ s'.maxSp = s.maxSp ∧
      cf'.fn = callee ∧ cf'.base = cf.base ∧ cf'.returnBase = cf.returnBase ∧ cf'.nret = cf.nret ∧
      cf'.tailCall = cf.tailCall + 1 ∧
      cf'.nargs = decodeNArgs s.reg.top (cf.localBase + A) B + (if isMeta then 1 else 0) ∧
      cf'.localBase = cf.base + 1 + (if callee.varArg then max cf'.nargs callee.np else 0) ∧
      s'.reg.top = cf'.localBase + callee.nur := by
  cases isMeta with
  | false =>
    have hsh := initCallFrame_shape s.reg
      { cf with fn := callee, base := cf.localBase + A, localBase := cf.localBase + A + 1,
                nargs := decodeNArgs s.reg.top (cf.localBase + A) B, tailCall := cf.tailCall + 1 } argId hG
    obtain ⟨h1, h2⟩ := hsh
    dsimp only at h1 h2
    refine ⟨_, _, _, by simp only [opTailCallLua, opTailCallLuaGen, hst]; rfl, by rfl, by simp [St.sp, hst], by rfl,
      ?_, ?_, ?_, ?_, ?_, ?_, ?_, ?_⟩
    all_goals simp only [Bool.false_eq_true, if_false, h1, h2, copyRange_top, Nat.add_zero]
    all_goals (try (split <;> omega))
  | true =>
    have hsh := initCallFrame_shape (s.reg.insert (s.reg.get (cf.localBase + A)) (cf.localBase + A + 1))
      { cf with fn := callee, base := cf.localBase + A, localBase := cf.localBase + A + 1,
                nargs := decodeNArgs s.reg.top (cf.localBase + A) B + 1, tailCall := cf.tailCall + 1 } argId hG
    obtain ⟨h1, h2⟩ := hsh
    dsimp only at h1 h2
    refine ⟨_, _, _, by simp only [opTailCallLua, opTailCallLuaGen, hst]; rfl, by rfl, by simp [St.sp, hst], by rfl,
      ?_, ?_, ?_, ?_, ?_, ?_, ?_, ?_⟩
    all_goals simp only [if_true, Bool.false_eq_true, if_false, h1, h2, copyRange_top]
    all_goals (try (split <;> omega))

/-- a run of a function that keeps tail-calling Lua functions: between two tail calls the body may change the
    registers arbitrarily (`reg'`) but not the call stack. -/
inductive TailChain : St → St → Prop where
  | refl (s : St) : TailChain s s
  | step {s s1 s2 : St} (reg' : Reg) (A B : Nat) (callee : FnInfo) (isMeta : Bool) (argId : Nat) (atb : Option ArgTbl) :
      TailChain s s1 → callee.isG = false →
      opTailCallLua { s1 with reg := reg' } A B callee isMeta argId = .ok (s2, atb) → TailChain s s2

/-- **tailcall_constant_space** — by induction on the number of successive tail calls: the call-stack depth `Sp`,
    the frames below, and the running frame's `Base`/`ReturnBase`/`NRet` never change, and after every tail call
    `top = LocalBase + NumUsedRegisters` with `LocalBase ≤ Base + 1 + max(nargs, np)` of the *last* callee only —
    `return f(args)` can repeat without bound without consuming call-stack space or registry space. -/
theorem tailcall_constant_space {s s' : St} (h : TailChain s s') (cf : Frame) (rest : List Frame)
    (hst : s.stack = cf :: rest) :
    s'.sp = s.sp ∧ ∃ cf', s'.stack = cf' :: rest ∧ cf'.base = cf.base ∧ cf'.returnBase = cf.returnBase ∧
      cf'.nret = cf.nret ∧
      (s' = s ∨ (cf'.localBase ≤ cf.base + 1 + max cf'.nargs cf'.fn.np ∧ s'.reg.top = cf'.localBase + cf'.fn.nur)) := by
  induction h with
  | refl => exact ⟨rfl, cf, hst, rfl, rfl, rfl, Or.inl rfl⟩
  | @step s1 s2 reg' A B callee isMeta argId atb _ hG hop ih =>
    obtain ⟨hsp1, cf1, hst1, hb1, hr1, hn1, _⟩ := ih
    obtain ⟨s3, atb3, cf3, hop3, hst3, hsp3, _, hfn, hb3, hr3, hn3, _, _, hlb3, htop3⟩ :=
      tailcall_reuses_frame { s1 with reg := reg' } cf1 rest A B callee isMeta argId hst1 hG
    rw [hop] at hop3
    simp only [Except.ok.injEq, Prod.mk.injEq] at hop3
    obtain ⟨rfl, _⟩ := hop3
    refine ⟨by rw [hsp3]; simpa [St.sp] using hsp1, cf3, hst3, by omega, by rw [hr3, hr1], by rw [hn3, hn1],
      Or.inr ⟨?_, by rw [htop3, hfn]⟩⟩
    rw [hlb3, hb1, hfn]
    split <;> omega

/-- **tailcall_host_pops_both** — `OP_TAILCALL` to a host function: while the Go function runs its frame sits on top
    of the caller's (`Sp + 1`, carrying the caller's `ReturnBase` and `NRet`); when it returns, the caller's frame
    is removed as well and the results are delivered to the caller's caller: `Sp` ends one *below* where it was. -/
theorem tailcall_host_pops_both (s : St) (cf : Frame) (rest : List Frame) (A B : Nat) (callee : FnInfo) (isMeta : Bool)
    (s1 : St) (hst : s.stack = cf :: rest) (h1 : opTailCallG s A B callee isMeta = .ok s1) :
    ∃ g, s1.stack = g :: cf :: rest ∧ g.returnBase = cf.returnBase ∧ g.nret = cf.nret ∧
      ∀ (reg' : Reg) (k : Nat), ∃ s2, gReturn { s1 with reg := reg' } k true = .ok s2 ∧ s2.stack = rest ∧ s2.sp + 1 = s.sp := by
  simp only [opTailCallG, hst, pushCallFrame] at h1
  cases isMeta <;> simp only [Bool.false_eq_true, if_false, if_true] at h1 <;>
    (split at h1
     · simp [Except.map] at h1
     · simp only [Except.map] at h1
       injection h1 with h1
       subst h1
       refine ⟨_, rfl, ?_, ?_, ?_⟩
       · simp only [initCallFrame]; split <;> simp [initVararg, initFixed] <;> (try split) <;> rfl
       · simp only [initCallFrame]; split <;> simp [initVararg, initFixed] <;> (try split) <;> rfl
       · intro reg' k
         exact ⟨_, by simp only [gReturn, removeCallerFrame]; rfl, rfl, by simp [St.sp, hst]⟩)

end GLua.CallFrame.Run
