/-
  Lemmas for C12 (call-frame stacks): both implementations simulate the Spec list step by step.
-/
import GLua.Model.CallStack

namespace GLua.CallStack
open GLua GLua.LimitsSpec

theorem FPS_eq : FPS = 8 := rfl

theorem upd_same {α} (f : Nat → α) (i : Nat) (x : α) : upd f i x i = x := by simp [upd]
theorem upd_ne {α} (f : Nat → α) (i j : Nat) (x : α) (h : j ≠ i) : upd f i x j = f j := by simp [upd, h]

/-- `omega` after reducing projections of structure literals. -/
macro "somega" : tactic => `(tactic| (try dsimp only at *) <;> omega)

/-! ## small list facts -/

theorem getLast?_eq_some_iff_getElem? {α} (l : List α) (f : α) :
    l.getLast? = some f → l ≠ [] ∧ l[l.length - 1]? = some f := by
  intro h
  rw [List.getLast?_eq_getElem?] at h
  refine ⟨?_, h⟩
  intro hl; subst hl; simp at h

theorem getElem?_dropLast_some {α} (l : List α) (i : Nat) (f : α) :
    l.dropLast[i]? = some f → l[i]? = some f := by
  rw [List.dropLast_eq_take, List.getElem?_take]
  split
  · exact id
  · intro h; cases h

theorem getElem?_take_some {α} (l : List α) (n i : Nat) (f : α) :
    (l.take n)[i]? = some f → l[i]? = some f ∧ i < n := by
  rw [List.getElem?_take]
  split
  · intro h; exact ⟨h, by assumption⟩
  · intro h; cases h

theorem getElem?_append_single {α} (l : List α) (x : α) (i : Nat) (f : α) :
    (l ++ [x])[i]? = some f → (i < l.length ∧ l[i]? = some f) ∨ (i = l.length ∧ x = f) := by
  intro h
  by_cases hi : i < l.length
  · left; rw [List.getElem?_append_left hi] at h; exact ⟨hi, h⟩
  · right
    rw [List.getElem?_append_right (by omega)] at h
    have : i - l.length = 0 := by
      by_cases h0 : i - l.length = 0
      · exact h0
      · rw [List.getElem?_eq_none (by simp; omega)] at h; cases h
    rw [this] at h
    simp at h
    exact ⟨by omega, h⟩

theorem getElem?_some_lt {α} (l : List α) (i : Nat) (f : α) (h : l[i]? = some f) : i < l.length := by
  by_cases hi : i < l.length
  · exact hi
  · rw [List.getElem?_eq_none (by omega)] at h; cases h

/-! ## fixed stack -/

namespace Fixed

/-- abstraction relation: the stack holds exactly the frames of `l`, in order, and has `cap` slots. -/
def Rel (cap : Nat) (s : Fixed) (l : List Frame) : Prop :=
  s.len = cap ∧ s.sp = l.length ∧ l.length ≤ cap ∧ ∀ i f, l[i]? = some f → s.array i = f

theorem rel_new (size : Nat) : Rel size (new size) [] := by
  refine ⟨rfl, rfl, Nat.zero_le _, ?_⟩
  intro i f h; simp at h

theorem step_refines {cap : Nat} {s : Fixed} {l l' : List Frame} {op : Op} {o : Obs}
    (h : Rel cap s l) (hs : LimitsSpec.step cap l op = some (l', o)) :
    ∃ s', s.step op = .ok (s', o) ∧ Rel cap s' l' := by
  obtain ⟨hlen, hsp, hle, harr⟩ := h
  cases op with
  | push tag =>
    simp only [LimitsSpec.step] at hs
    split at hs
    · rename_i hlt
      simp only [Option.some.injEq, Prod.mk.injEq] at hs
      obtain ⟨rfl, rfl⟩ := hs
      refine ⟨{ s with array := upd s.array s.sp ⟨tag, s.sp⟩, sp := s.sp + 1 }, ?_, ?_⟩
      · simp [step, push, hsp, hlen, hlt, Except.map]
      · refine ⟨hlen, by simp [hsp], by simp; omega, ?_⟩
        intro i f hi
        rcases getElem?_append_single _ _ _ _ hi with ⟨hlt', hget⟩ | ⟨rfl, rfl⟩
        · have : i ≠ s.sp := by omega
          simp [upd, this, harr i f hget]
        · simp [upd, hsp]
    · cases hs
  | pop =>
    simp only [LimitsSpec.step] at hs
    split at hs
    · rename_i f hf
      simp only [Option.some.injEq, Prod.mk.injEq] at hs
      obtain ⟨rfl, rfl⟩ := hs
      obtain ⟨hne, hget⟩ := getLast?_eq_some_iff_getElem? _ _ hf
      have hpos : 0 < l.length := List.length_pos_iff.mpr hne
      refine ⟨{ s with sp := s.sp - 1 }, ?_, ?_⟩
      · have h1 : ¬ s.sp = 0 := by omega
        have h2 : s.sp - 1 < s.len := by omega
        have hget' : l[s.sp - 1]? = some f := by rw [hsp]; exact hget
        simp [step, pop, h1, h2, harr _ _ hget']
      · refine ⟨hlen, by simp [hsp], by simp; omega, ?_⟩
        intro i g hi
        exact harr i g (getElem?_dropLast_some _ _ _ hi)
    · cases hs
  | last =>
    simp only [LimitsSpec.step] at hs
    split at hs
    · rename_i f hf
      simp only [Option.some.injEq, Prod.mk.injEq] at hs
      obtain ⟨rfl, rfl⟩ := hs
      obtain ⟨hne, hget⟩ := getLast?_eq_some_iff_getElem? _ _ hf
      have hpos : 0 < l.length := List.length_pos_iff.mpr hne
      refine ⟨s, ?_, ⟨hlen, hsp, hle, harr⟩⟩
      have h1 : ¬ s.sp = 0 := by omega
      have h2 : s.sp - 1 < s.len := by omega
      have hget' : l[s.sp - 1]? = some f := by rw [hsp]; exact hget
      simp [step, last, h1, h2, harr _ _ hget', Except.map]
    · rename_i hf
      simp only [Option.some.injEq, Prod.mk.injEq] at hs
      obtain ⟨rfl, rfl⟩ := hs
      have : l = [] := by
        cases l with
        | nil => rfl
        | cons a r => simp [List.getLast?_cons] at hf
      subst this
      refine ⟨s, ?_, ⟨hlen, hsp, hle, harr⟩⟩
      have h1 : s.sp = 0 := by simpa using hsp
      simp [step, last, h1, Except.map]
  | «at» i =>
    simp only [LimitsSpec.step] at hs
    split at hs
    · rename_i f hf
      simp only [Option.some.injEq, Prod.mk.injEq] at hs
      obtain ⟨rfl, rfl⟩ := hs
      have hi := getElem?_some_lt _ _ _ hf
      refine ⟨s, ?_, ⟨hlen, hsp, hle, harr⟩⟩
      have h2 : i < s.len := by omega
      simp [step, atSp, h2, harr _ _ hf, Except.map]
    · cases hs
  | setSp n =>
    simp only [LimitsSpec.step] at hs
    split at hs
    · rename_i hn
      simp only [Option.some.injEq, Prod.mk.injEq] at hs
      obtain ⟨rfl, rfl⟩ := hs
      refine ⟨s.setSp n, by simp [step], ?_⟩
      refine ⟨hlen, by simp [setSp, Nat.min_eq_left hn], by simp; omega, ?_⟩
      intro i f hi
      exact harr i f (getElem?_take_some _ _ _ _ hi).1
    · cases hs
  | sp =>
    simp only [LimitsSpec.step, Option.some.injEq, Prod.mk.injEq] at hs
    obtain ⟨rfl, rfl⟩ := hs
    exact ⟨s, by simp [step, getSp, hsp], ⟨hlen, hsp, hle, harr⟩⟩
  | isFull =>
    simp only [LimitsSpec.step, Option.some.injEq, Prod.mk.injEq] at hs
    obtain ⟨rfl, rfl⟩ := hs
    exact ⟨s, by simp [step, isFull, hsp, hlen], ⟨hlen, hsp, hle, harr⟩⟩
  | isEmpty =>
    simp only [LimitsSpec.step, Option.some.injEq, Prod.mk.injEq] at hs
    obtain ⟨rfl, rfl⟩ := hs
    exact ⟨s, by simp [step, isEmpty, hsp], ⟨hlen, hsp, hle, harr⟩⟩

end Fixed

/-! ## auto-growing stack -/

namespace Auto

/-- representation invariant of the segmented stack. -/
def Inv (s : Auto) : Prop :=
  0 < s.nseg ∧ s.nseg ≤ 65536 ∧ s.segIdx < s.nseg ∧ s.segSp ≤ 8 ∧ ∀ i, i ≤ s.segIdx → ∃ seg, s.segs i = some seg

/-- abstraction relation: frame `i` of `l` lives in slot `i % 8` of segment `i / 8`. -/
def Rel (cap : Nat) (s : Auto) (l : List Frame) : Prop :=
  Inv s ∧ cap = 8 * s.nseg ∧ s.segSp + s.segIdx * 8 = l.length ∧
  ∀ i f, l[i]? = some f → ∃ seg, s.segs (i / 8) = some seg ∧ seg (i % 8) = some f

theorem rel_new (size : Nat) (h1 : 0 < size) (h2 : size ≤ 524288) :
    ∃ s, new size = .ok s ∧ Rel (capacity true FPS size) s [] := by
  have hn : 0 < (size + 7) / 8 := by omega
  refine ⟨⟨(size + 7) / 8, upd (fun _ => none) 0 (some poolSeg), 0, 0⟩, ?_, ?_⟩
  · simp [new, FPS_eq, hn]
  · refine ⟨⟨hn, by dsimp only; omega, hn, by dsimp only; omega, ?_⟩, ?_, by simp, ?_⟩
    · intro i hi
      have : i = 0 := by dsimp only at hi; omega
      subst this
      exact ⟨poolSeg, by simp [upd]⟩
    · simp [capacity, FPS_eq]
    · intro i f h; simp at h

/-- the `SetSp` loop frees exactly the segments above `d`. -/
theorem unwind_spec (nseg d : Nat) : ∀ (k : Nat) (segs : Nat → Option Seg), d ≤ k → k < nseg →
    unwind nseg d segs k = .ok ((fun i => if d < i ∧ i ≤ k then none else segs i), d) := by
  intro k
  induction k with
  | zero =>
    intro segs hd _
    have : d = 0 := by omega
    subst this
    simp only [unwind]
    congr 2
    funext i
    have : ¬ (0 < i ∧ i ≤ 0) := by omega
    simp only [this, if_false]
  | succ k ih =>
    intro segs hd hk
    simp only [unwind]
    by_cases hle : k + 1 ≤ d
    · have : d = k + 1 := by omega
      subst this
      simp only [Nat.le_refl, if_true]
      congr 2
      funext i
      have : ¬ (k + 1 < i ∧ i ≤ k + 1) := by omega
      simp only [this, if_false]
    · simp only [hle, if_false, hk, if_true]
      rw [ih _ (by omega) (by omega)]
      congr 2
      funext i
      by_cases h1 : d < i ∧ i ≤ k
      · have : d < i ∧ i ≤ k + 1 := by omega
        simp [h1, this]
      · by_cases h2 : i = k + 1
        · subst h2
          have : d < k + 1 ∧ k + 1 ≤ k + 1 := by omega
          simp [h1, this, upd]
        · have : ¬ (d < i ∧ i ≤ k + 1) := by omega
          simp [h1, this, upd, h2]

theorem isFull_eq (s : Auto) (n : Nat) (hidx : s.segIdx < s.nseg) (hsp8 : s.segSp ≤ 8)
    (hsp : s.segSp + s.segIdx * 8 = n) : s.isFull = (n == 8 * s.nseg) := by
  simp only [isFull, FPS_eq]
  rw [Bool.eq_iff_iff]
  simp
  omega

theorem read_live {s : Auto} {i j : Nat} {seg : Seg} {f : Frame} (hi : i < s.nseg) (hj : j < 8)
    (hs : s.segs i = some seg) (hf : seg j = some f) : s.read i j = .ok (.frame f) := by
  simp [read, hi, hs, FPS_eq, hj, hf]

theorem step_refines {cap : Nat} {s : Auto} {l l' : List Frame} {op : Op} {o : Obs}
    (h : Rel cap s l) (hs : LimitsSpec.step cap l op = some (l', o)) :
    ∃ s', s.step op = .ok (s', o) ∧ Rel cap s' l' := by
  obtain ⟨⟨hn0, hn1, hidx, hsp8, halloc⟩, hcap, hsp, harr⟩ := h
  cases op with
  | push tag =>
    simp only [LimitsSpec.step] at hs
    split at hs
    · rename_i hlt
      simp only [Option.some.injEq, Prod.mk.injEq] at hs
      obtain ⟨rfl, rfl⟩ := hs
      by_cases hfull : s.segSp ≥ 8
      · -- a new segment is linked
        have hseg : s.segSp = 8 := by omega
        have h1 : s.segIdx + 1 < s.nseg := by omega
        have hu1 : u16 (s.nseg - 1) = s.nseg - 1 := by simp [u16]; omega
        have hu2 : u16 (s.segIdx + 1) = s.segIdx + 1 := by simp [u16]; omega
        refine ⟨{ s with segs := upd s.segs (s.segIdx + 1) (some (upd poolSeg 0 (some ⟨tag, 0 + 8 * (s.segIdx + 1)⟩))),
                         segIdx := s.segIdx + 1, segSp := 1 }, ?_, ?_⟩
        · have h3 : s.segIdx < s.nseg - 1 := by omega
          simp [step, push, hidx, FPS_eq, hfull, hu1, hu2, h3, h1, Except.map]
        · refine ⟨⟨hn0, hn1, h1, by somega, ?_⟩, hcap, by simp only [List.length_append, List.length_singleton]; somega, ?_⟩
          · intro i hi
            by_cases hie : i = s.segIdx + 1
            · subst hie; exact ⟨_, upd_same _ _ _⟩
            · obtain ⟨seg, hseg'⟩ := halloc i (by somega)
              exact ⟨seg, by simp [upd, hie, hseg']⟩
          · intro i f hi
            rcases getElem?_append_single _ _ _ _ hi with ⟨hlt', hget⟩ | ⟨rfl, rfl⟩
            · obtain ⟨seg, hs1, hs2⟩ := harr i f hget
              have : i / 8 ≠ s.segIdx + 1 := by omega
              exact ⟨seg, by simp [upd, this, hs1], hs2⟩
            · have e1 : l.length / 8 = s.segIdx + 1 := by omega
              have e2 : l.length % 8 = 0 := by omega
              refine ⟨upd poolSeg 0 (some ⟨tag, 0 + 8 * (s.segIdx + 1)⟩), by rw [e1]; exact upd_same _ _ _, ?_⟩
              simp only [upd, e2, if_true, Option.some.injEq, Frame.mk.injEq, true_and]
              omega
      · -- room in the current segment
        obtain ⟨seg, hseg⟩ := halloc s.segIdx (Nat.le_refl _)
        refine ⟨{ s with segs := upd s.segs s.segIdx (some (upd seg s.segSp (some ⟨tag, s.segSp + 8 * s.segIdx⟩))),
                         segSp := s.segSp + 1 }, ?_, ?_⟩
        · simp [step, push, hidx, FPS_eq, hfull, hseg, Except.map]
        · refine ⟨⟨hn0, hn1, hidx, by somega, ?_⟩, hcap, by simp only [List.length_append, List.length_singleton]; somega, ?_⟩
          · intro i hi
            by_cases hie : i = s.segIdx
            · subst hie; exact ⟨_, upd_same _ _ _⟩
            · obtain ⟨seg', hseg'⟩ := halloc i hi
              exact ⟨seg', by simp [upd, hie, hseg']⟩
          · intro i f hi
            rcases getElem?_append_single _ _ _ _ hi with ⟨hlt', hget⟩ | ⟨rfl, rfl⟩
            · obtain ⟨seg', hs1, hs2⟩ := harr i f hget
              by_cases hie : i / 8 = s.segIdx
              · rw [hie] at hs1
                rw [hseg] at hs1
                cases hs1
                have : i % 8 ≠ s.segSp := by omega
                exact ⟨_, by rw [hie]; exact upd_same _ _ _, by simp [upd, this, hs2]⟩
              · exact ⟨seg', by simp [upd, hie, hs1], hs2⟩
            · have e1 : l.length / 8 = s.segIdx := by omega
              have e2 : l.length % 8 = s.segSp := by omega
              refine ⟨_, by rw [e1]; exact upd_same _ _ _, ?_⟩
              simp only [upd, e2, if_true, Option.some.injEq, Frame.mk.injEq, true_and]
              omega
    · cases hs
  | pop =>
    simp only [LimitsSpec.step] at hs
    split at hs
    · rename_i f hf
      simp only [Option.some.injEq, Prod.mk.injEq] at hs
      obtain ⟨rfl, rfl⟩ := hs
      obtain ⟨hne, hget⟩ := getLast?_eq_some_iff_getElem? _ _ hf
      have hpos : 0 < l.length := List.length_pos_iff.mpr hne
      obtain ⟨seg, hs1, hs2⟩ := harr _ _ hget
      by_cases hz : s.segSp = 0
      · -- the current segment is released
        have hi0 : ¬ s.segIdx = 0 := by omega
        have e1 : (l.length - 1) / 8 = s.segIdx - 1 := by omega
        have e2 : (l.length - 1) % 8 = 7 := by omega
        rw [e1] at hs1; rw [e2] at hs2
        have hne' : s.segIdx - 1 ≠ s.segIdx := by omega
        refine ⟨{ s with segs := upd s.segs s.segIdx none, segIdx := s.segIdx - 1, segSp := 7 }, ?_, ?_⟩
        · have hr : Auto.read { s with segs := upd s.segs s.segIdx none, segIdx := s.segIdx - 1, segSp := 7 }
              (s.segIdx - 1) 7 = .ok (.frame f) :=
            read_live (by simp; omega) (by omega) (by simp [upd, hne', hs1]) hs2
          simp [step, pop, hidx, hz, hi0, FPS_eq, hr, Except.map]
        · refine ⟨⟨hn0, hn1, by simp; omega, by simp, ?_⟩, hcap, by simp; omega, ?_⟩
          · intro i hi
            simp at hi
            obtain ⟨seg', hseg'⟩ := halloc i (by omega)
            have : i ≠ s.segIdx := by omega
            exact ⟨seg', by simp [upd, this, hseg']⟩
          · intro i g hi
            have hlt := getElem?_some_lt _ _ _ hi
            simp at hlt
            obtain ⟨seg', h1, h2⟩ := harr i g (getElem?_dropLast_some _ _ _ hi)
            have : i / 8 ≠ s.segIdx := by omega
            exact ⟨seg', by simp [upd, this, h1], h2⟩
      · have e1 : (l.length - 1) / 8 = s.segIdx := by omega
        have e2 : (l.length - 1) % 8 = s.segSp - 1 := by omega
        rw [e1] at hs1; rw [e2] at hs2
        refine ⟨{ s with segSp := s.segSp - 1 }, ?_, ?_⟩
        · have hr : Auto.read { s with segSp := s.segSp - 1 } s.segIdx (s.segSp - 1) = .ok (.frame f) :=
            read_live (by simpa using hidx) (by omega) (by simpa using hs1) hs2
          simp [step, pop, hidx, hz, hr, Except.map]
        · refine ⟨⟨hn0, hn1, hidx, by simp; omega, halloc⟩, hcap, by simp; omega, ?_⟩
          intro i g hi
          exact harr i g (getElem?_dropLast_some _ _ _ hi)
    · cases hs
  | last =>
    simp only [LimitsSpec.step] at hs
    split at hs
    · rename_i f hf
      simp only [Option.some.injEq, Prod.mk.injEq] at hs
      obtain ⟨rfl, rfl⟩ := hs
      obtain ⟨hne, hget⟩ := getLast?_eq_some_iff_getElem? _ _ hf
      have hpos : 0 < l.length := List.length_pos_iff.mpr hne
      obtain ⟨seg, hs1, hs2⟩ := harr _ _ hget
      refine ⟨s, ?_, ⟨⟨hn0, hn1, hidx, hsp8, halloc⟩, hcap, hsp, harr⟩⟩
      by_cases hz : s.segSp = 0
      · have hi0 : ¬ s.segIdx = 0 := by omega
        have e1 : (l.length - 1) / 8 = s.segIdx - 1 := by omega
        have e2 : (l.length - 1) % 8 = 7 := by omega
        rw [e1] at hs1; rw [e2] at hs2
        have hr : s.read (s.segIdx - 1) 7 = .ok (.frame f) := read_live (by omega) (by omega) hs1 hs2
        simp [step, last, hidx, hz, hi0, FPS_eq, hr, Except.map]
      · have e1 : (l.length - 1) / 8 = s.segIdx := by omega
        have e2 : (l.length - 1) % 8 = s.segSp - 1 := by omega
        rw [e1] at hs1; rw [e2] at hs2
        have hr : s.read s.segIdx (s.segSp - 1) = .ok (.frame f) := read_live hidx (by omega) hs1 hs2
        simp [step, last, hidx, hz, hr, Except.map]
    · rename_i hf
      simp only [Option.some.injEq, Prod.mk.injEq] at hs
      obtain ⟨rfl, rfl⟩ := hs
      have : l = [] := by
        cases l with
        | nil => rfl
        | cons a r => simp [List.getLast?_cons] at hf
      subst this
      simp at hsp
      have hz1 : s.segSp = 0 := by omega
      have hz2 : s.segIdx = 0 := by omega
      refine ⟨s, ?_, ⟨⟨hn0, hn1, hidx, hsp8, halloc⟩, hcap, by simp; omega, harr⟩⟩
      simp [step, last, hn0, hz1, hz2, Except.map]
  | «at» i =>
    simp only [LimitsSpec.step] at hs
    split at hs
    · rename_i f hf
      simp only [Option.some.injEq, Prod.mk.injEq] at hs
      obtain ⟨rfl, rfl⟩ := hs
      have hi := getElem?_some_lt _ _ _ hf
      obtain ⟨seg, hs1, hs2⟩ := harr _ _ hf
      refine ⟨s, ?_, ⟨⟨hn0, hn1, hidx, hsp8, halloc⟩, hcap, hsp, harr⟩⟩
      have hu : u16 (i / 8) = i / 8 := by simp [u16]; omega
      have hr : s.read (i / 8) (i % 8) = .ok (.frame f) := read_live (by omega) (by omega) hs1 hs2
      simp [step, atSp, FPS_eq, hu, hr, Except.map]
    · cases hs
  | setSp n =>
    simp only [LimitsSpec.step] at hs
    split at hs
    · rename_i hn
      simp only [Option.some.injEq, Prod.mk.injEq] at hs
      obtain ⟨rfl, rfl⟩ := hs
      by_cases hge : n ≥ s.segSp + s.segIdx * 8
      · -- nothing to unwind
        have hnl : n = l.length := by omega
        refine ⟨s, by simp [step, setSp, getSp, FPS_eq, hge, Except.map], ?_⟩
        subst hnl
        simp only [List.take_length]
        exact ⟨⟨hn0, hn1, hidx, hsp8, halloc⟩, hcap, hsp, harr⟩
      · have hu : u16 (n / 8) = n / 8 := by simp [u16]; omega
        have hd : n / 8 ≤ s.segIdx := by omega
        have hun := unwind_spec s.nseg (n / 8) s.segIdx s.segs hd hidx
        refine ⟨{ s with segs := (fun i => if n / 8 < i ∧ i ≤ s.segIdx then none else s.segs i),
                         segIdx := n / 8, segSp := n % 8 }, ?_, ?_⟩
        · simp [step, setSp, getSp, setSpOrig, FPS_eq, hge, hu, hun, Except.map]
        · refine ⟨⟨hn0, hn1, by simp; omega, by simp; omega, ?_⟩, hcap, ?_, ?_⟩
          · intro i hi
            simp at hi
            obtain ⟨seg', hseg'⟩ := halloc i (by omega)
            have : ¬ (n / 8 < i ∧ i ≤ s.segIdx) := by omega
            exact ⟨seg', by simp [this, hseg']⟩
          · simp [Nat.min_eq_left hn]; omega
          · intro i f hi
            obtain ⟨hget, hlt⟩ := getElem?_take_some _ _ _ _ hi
            obtain ⟨seg', h1, h2⟩ := harr i f hget
            have : ¬ (n / 8 < i / 8 ∧ i / 8 ≤ s.segIdx) := by omega
            exact ⟨seg', by simp [this, h1], h2⟩
    · cases hs
  | sp =>
    simp only [LimitsSpec.step, Option.some.injEq, Prod.mk.injEq] at hs
    obtain ⟨rfl, rfl⟩ := hs
    exact ⟨s, by simp [step, getSp, FPS_eq, hsp], ⟨⟨hn0, hn1, hidx, hsp8, halloc⟩, hcap, hsp, harr⟩⟩
  | isFull =>
    simp only [LimitsSpec.step, Option.some.injEq, Prod.mk.injEq] at hs
    obtain ⟨rfl, rfl⟩ := hs
    refine ⟨s, ?_, ⟨⟨hn0, hn1, hidx, hsp8, halloc⟩, hcap, hsp, harr⟩⟩
    simp [step, isFull_eq s l.length hidx hsp8 hsp, hcap]
  | isEmpty =>
    simp only [LimitsSpec.step, Option.some.injEq, Prod.mk.injEq] at hs
    obtain ⟨rfl, rfl⟩ := hs
    refine ⟨s, ?_, ⟨⟨hn0, hn1, hidx, hsp8, halloc⟩, hcap, hsp, harr⟩⟩
    simp only [step, isEmpty, Except.ok.injEq, Prod.mk.injEq, true_and, Obs.bool.injEq]
    rw [Bool.eq_iff_iff]
    simp only [Bool.and_eq_true, beq_iff_eq]
    omega

end Auto

end GLua.CallStack
