import GLua.Model.Cancel

/-
  Lemmas about the cancellation mechanism model (GLua/Model/Cancel.lean).
-/
namespace GLua.Cancel

/-! ### contexts -/

theorem isDone_of_mem {cs : List Ctx} {a c : Ctx} (h : a ∈ cs) (hp : a.isPrefixOf c = true) :
    isDone cs c = true := by
  unfold isDone
  exact List.any_eq_true.mpr ⟨a, h, hp⟩

theorem isDone_cons {cs : List Ctx} {c : Ctx} (x : Ctx) (h : isDone cs c = true) :
    isDone (x :: cs) c = true := by
  unfold isDone at *
  simp only [List.any_cons, h, Bool.or_true]

/-! ### armed threads -/

/-- the thread polls (`mainLoopWithContext`) a context that is `a` or a descendant of `a`. -/
def Armed (a : Ctx) (t : Thread) : Prop :=
  t.loop = .withCtx ∧ ∃ c, t.ctx = some c ∧ a.isPrefixOf c = true

def FrameOK (sys : Sys) : Frame → Prop
  | .act th loop _ => loop = .withCtx ∧ th < sys.threads.length
  | .pcall th _ => th < sys.threads.length
  | .handling _ => True
  | .trun _ _ => True

/-- every thread is armed under `a` and every activation on the Go stack runs the polling loop. -/
structure SysArmed (a : Ctx) (sys : Sys) (stack : List Frame) : Prop where
  armed : ∀ t ∈ sys.threads, Armed a t
  frames : ∀ f ∈ stack, FrameOK sys f

theorem Sys.thread_mem {sys : Sys} {th : Nat} (h : th < sys.threads.length) : sys.thread th ∈ sys.threads := by
  unfold Sys.thread
  simp only [List.getD_eq_getElem?_getD, List.getElem?_eq_getElem h, Option.getD_some]
  exact List.getElem_mem h

theorem killTh_length (sys : Sys) (th : Nat) : (killTh sys th).threads.length = sys.threads.length := by
  simp [killTh]

theorem killTh_armed {a : Ctx} {sys : Sys} (th : Nat) (h : ∀ t ∈ sys.threads, Armed a t) :
    ∀ t ∈ (killTh sys th).threads, Armed a t := by
  intro t ht
  simp only [killTh] at ht
  rcases List.mem_or_eq_of_mem_set ht with h1 | h1
  · exact h t h1
  · subst h1
    by_cases hlt : th < sys.threads.length
    · have := h _ (Sys.thread_mem hlt)
      exact this
    · -- out of range: `set` is the identity, but the membership proof still gives us the element
      have hset : sys.threads.set th { sys.thread th with dead := true } = sys.threads :=
        List.set_eq_of_length_le (Nat.le_of_not_lt hlt)
      rw [hset] at ht
      exact h _ ht

theorem killTh_cancelled {a : Ctx} {sys : Sys} (th : Nat) (h : a ∈ sys.cancelled) : a ∈ (killTh sys th).cancelled := by
  simp only [killTh]
  split
  · split
    · exact h
    · exact List.mem_cons_of_mem _ h
  · exact h

theorem FrameOK_killTh {sys : Sys} (th : Nat) {f : Frame} (h : FrameOK sys f) : FrameOK (killTh sys th) f := by
  cases f <;> simp_all [FrameOK, killTh_length]

theorem SysArmed.kill {a : Ctx} {sys : Sys} {st : List Frame} (th : Nat) (h : SysArmed a sys st) :
    SysArmed a (killTh sys th) st :=
  ⟨killTh_armed th h.armed, fun f hf => FrameOK_killTh th (h.frames f hf)⟩

theorem SysArmed.tail {a : Ctx} {sys : Sys} {f : Frame} {st : List Frame} (h : SysArmed a sys (f :: st)) :
    SysArmed a sys st :=
  ⟨h.armed, fun g hg => h.frames g (List.mem_cons_of_mem _ hg)⟩

theorem SysArmed.loopOf {a : Ctx} {sys : Sys} {st : List Frame} (h : SysArmed a sys st) {th : Nat}
    (hlt : th < sys.threads.length) : sys.loopOf th = .withCtx :=
  (h.armed _ (Sys.thread_mem hlt)).1

theorem SysArmed.poll {a : Ctx} {sys : Sys} {st : List Frame} (h : SysArmed a sys st) (hc : a ∈ sys.cancelled) {th : Nat}
    (hlt : th < sys.threads.length) : pollIter .withCtx (sys.ctxOf th) sys.cancelled = .raise := by
  obtain ⟨_, c, hc', hp⟩ := h.armed _ (Sys.thread_mem hlt)
  simp only [pollIter, Sys.ctxOf, hc', isDone_of_mem hc hp, if_true]

/-! ### `settle` -/

def Mode.isRaising : Mode → Bool
  | .raising _ => true
  | _ => false

/-- what `settle` guarantees about its output, for every mode. -/
structure SettleOK (a : Ctx) (st : List Frame) (m : Mode) (o : Settled) : Prop where
  inv : SysArmed a o.sys o.stack
  noInstr : ∀ e ∈ o.events, isInstr e = false
  noPoll : ∀ e ∈ o.events, isPoll e = false
  phi_le : phi o.stack ≤ phi st
  phi_lt : m.isRaising = true → o.result = none → phi o.stack + 1 ≤ phi st
  running : o.result = none → ∃ th r, o.stack = .act th .withCtx false :: r
  finished : o.result ≠ none → o.stack = []

theorem SettleOK.pre {a : Ctx} {st st' : List Frame} {m m' : Mode} {o : Settled} (ev : Event)
    (h : SettleOK a st m o) (hi : isInstr ev = false) (hp : isPoll ev = false)
    (hle : phi st + (if m'.isRaising = true then 1 else 0) ≤ phi st') :
    SettleOK a st' m' (o.pre ev) where
  inv := h.inv
  noInstr := by
    intro e he
    simp only [Settled.pre, List.mem_cons] at he
    rcases he with rfl | he
    · exact hi
    · exact h.noInstr e he
  noPoll := by
    intro e he
    simp only [Settled.pre, List.mem_cons] at he
    rcases he with rfl | he
    · exact hp
    · exact h.noPoll e he
  phi_le := by
    have := h.phi_le
    simp only [Settled.pre]
    split at hle <;> omega
  phi_lt := by
    intro hm _
    have := h.phi_le
    simp only [Settled.pre]
    rw [if_pos hm] at hle
    omega
  running := h.running
  finished := h.finished

theorem SettleOK.addEvent {a : Ctx} {st : List Frame} {m : Mode} {o : Settled} (ev : Event)
    (h : SettleOK a st m o) (hi : isInstr ev = false) (hp : isPoll ev = false) :
    SettleOK a st m (o.pre ev) where
  inv := h.inv
  noInstr := by
    intro e he
    simp only [Settled.pre, List.mem_cons] at he
    rcases he with rfl | he
    · exact hi
    · exact h.noInstr e he
  noPoll := by
    intro e he
    simp only [Settled.pre, List.mem_cons] at he
    rcases he with rfl | he
    · exact hp
    · exact h.noPoll e he
  phi_le := h.phi_le
  phi_lt := h.phi_lt
  running := h.running
  finished := h.finished

theorem SettleOK.weaken {a : Ctx} {st st' : List Frame} {m m' : Mode} {o : Settled}
    (h : SettleOK a st m o)
    (hle : phi st + (if m'.isRaising = true then 1 else 0) ≤ phi st') :
    SettleOK a st' m' o where
  inv := h.inv
  noInstr := h.noInstr
  noPoll := h.noPoll
  phi_le := by
    have := h.phi_le
    split at hle <;> omega
  phi_lt := by
    intro hm _
    have := h.phi_le
    rw [if_pos hm] at hle
    omega
  running := h.running
  finished := h.finished

/-- raising through a frame of weight 0 keeps the strict decrease obtained below it. -/
theorem SettleOK.through {a : Ctx} {st st' : List Frame} {e : Err} {o : Settled}
    (h : SettleOK a st (.raising e) o) (hle : phi st ≤ phi st') :
    SettleOK a st' (.raising e) o where
  inv := h.inv
  noInstr := h.noInstr
  noPoll := h.noPoll
  phi_le := Nat.le_trans h.phi_le hle
  phi_lt := by
    intro _ hr
    have := h.phi_lt rfl hr
    omega
  running := h.running
  finished := h.finished

theorem settle_ok (a : Ctx) : ∀ (st : List Frame) (sys : Sys) (m : Mode),
    SysArmed a sys st → SettleOK a st m (settle sys m st) := by
  intro st
  induction st with
  | nil =>
    intro sys m h
    cases m <;> simp only [settle] <;>
      exact ⟨⟨h.armed, by simp⟩, by simp [isInstr], by simp [isPoll], by simp, by simp, by simp, by simp⟩
  | cons f r ih =>
    intro sys m h
    have hr := h.tail
    have hf := h.frames f (List.mem_cons_self)
    cases m with
    | raising e =>
      cases f with
      | act th l g =>
        simp only [settle]
        exact (ih sys (.raising e) hr).through (by simp [phi, Mode.isRaising])
      | pcall th hd =>
        cases hd with
        | none =>
          simp only [settle]
          exact (ih sys (.retG (some e)) hr).weaken (by simp [phi, Mode.isRaising])
        | go =>
          simp only [settle]
          exact (ih sys (.retG (some .lua)) hr).pre _ (by simp [isInstr]) (by simp [isPoll]) (by simp [phi, Mode.isRaising])
        | lua =>
          simp only [settle]
          have hlt : th < sys.threads.length := hf
          refine ⟨⟨h.armed, ?_⟩, by simp, by simp, by simp [phi], by simp [phi], ?_, by simp⟩
          · intro g hg
            simp only [List.mem_cons] at hg
            rcases hg with rfl | rfl | hg
            · exact ⟨hr.loopOf hlt, hlt⟩
            · trivial
            · exact hr.frames g hg
          · intro _
            exact ⟨th, _, by rw [hr.loopOf hlt]⟩
      | handling th =>
        simp only [settle]
        exact (ih sys (.retG (some e)) hr).weaken (by simp [phi, Mode.isRaising])
      | trun th w =>
        cases w with
        | false =>
          simp only [settle]
          exact (ih _ (.retG (some e)) (hr.kill th)).pre _ (by simp [isInstr]) (by simp [isPoll]) (by simp [phi, Mode.isRaising])
        | true =>
          simp only [settle]
          exact ((ih _ (.raising e) (hr.kill th)).through (by simp [phi])).addEvent _ (by simp [isInstr]) (by simp [isPoll])
    | retG v =>
      cases f with
      | act th l g =>
        cases g with
        | false =>
          simp only [settle]
          have hl : l = .withCtx := hf.1
          subst hl
          exact ⟨h, by simp, by simp, Nat.le_refl _, by simp [Mode.isRaising], fun _ => ⟨th, r, rfl⟩, by simp⟩
        | true =>
          simp only [settle]
          exact (ih sys .retN hr).weaken (by simp [phi, Mode.isRaising])
      | pcall th hd =>
        simp only [settle]
        exact (ih sys (.retG none) hr).weaken (by cases hd <;> simp [phi, Mode.isRaising])
      | handling th =>
        simp only [settle]
        exact (ih sys (.retG (some .lua)) hr).weaken (by simp [phi, Mode.isRaising])
      | trun th w =>
        simp only [settle]
        exact (ih _ (.retG none) (hr.kill th)).pre _ (by simp [isInstr]) (by simp [isPoll]) (by simp [phi, Mode.isRaising])
    | retN =>
      cases f with
      | act th l g =>
        cases g with
        | false =>
          simp only [settle]
          have hl : l = .withCtx := hf.1
          subst hl
          exact ⟨h, by simp, by simp, Nat.le_refl _, by simp [Mode.isRaising], fun _ => ⟨th, r, rfl⟩, by simp⟩
        | true =>
          simp only [settle]
          exact (ih sys .retN hr).weaken (by simp [phi, Mode.isRaising])
      | pcall th hd =>
        simp only [settle]
        exact (ih sys (.retG none) hr).weaken (by cases hd <;> simp [phi, Mode.isRaising])
      | handling th =>
        simp only [settle]
        exact (ih sys (.retG (some .lua)) hr).weaken (by simp [phi, Mode.isRaising])
      | trun th w =>
        simp only [settle]
        exact (ih _ (.retG none) (hr.kill th)).pre _ (by simp [isInstr]) (by simp [isPoll]) (by simp [phi, Mode.isRaising])

theorem settle_cancelled {a : Ctx} : ∀ (st : List Frame) (sys : Sys) (m : Mode),
    a ∈ sys.cancelled → a ∈ (settle sys m st).sys.cancelled := by
  intro st
  induction st with
  | nil => intro sys m h; cases m <;> simpa [settle] using h
  | cons f r ih =>
    intro sys m h
    have hk := fun th => killTh_cancelled (a := a) (sys := sys) th h
    cases m with
    | raising e =>
      cases f with
      | act th l g => simp only [settle]; exact ih _ _ h
      | pcall th hd => cases hd <;> simp only [settle, Settled.pre] <;> first | exact ih _ _ h | exact h
      | handling th => simp only [settle]; exact ih _ _ h
      | trun th w => cases w <;> simp only [settle, Settled.pre] <;> first | exact ih _ _ h | exact ih _ _ (hk th)
    | retG v =>
      cases f with
      | act th l g => cases g <;> simp only [settle] <;> first | exact ih _ _ h | exact h
      | pcall th hd => simp only [settle]; exact ih _ _ h
      | handling th => simp only [settle]; exact ih _ _ h
      | trun th w => simp only [settle, Settled.pre]; exact ih _ _ (hk th)
    | retN =>
      cases f with
      | act th l g => cases g <;> simp only [settle] <;> first | exact ih _ _ h | exact h
      | pcall th hd => simp only [settle]; exact ih _ _ h
      | handling th => simp only [settle]; exact ih _ _ h
      | trun th w => simp only [settle, Settled.pre]; exact ih _ _ (hk th)

theorem phi_le_two_depth : ∀ st : List Frame, phi st ≤ 2 * depth st
  | [] => by simp [phi, depth]
  | f :: r => by
    have := phi_le_two_depth r
    cases f with
    | act _ _ _ => simp only [phi, depth]; exact this
    | pcall _ h => cases h <;> simp only [phi, depth] <;> omega
    | handling _ => simp only [phi, depth]; omega
    | trun _ _ => simp only [phi, depth]; omega

/-! ### the machine once the context is done -/

/-- the configuration of a machine whose attached context `a` is done. -/
structure StDone (a : Ctx) (s : St) : Prop where
  sys : SysArmed a s.sys s.stack
  cancelled : a ∈ s.sys.cancelled
  notBlocked : s.blockedOn = none
  running : s.result = none → ∃ th r, s.stack = .act th .withCtx false :: r
  finished : s.result ≠ none → s.stack = []

def isExt : Action → Bool
  | .extCancel _ => true
  | _ => false

/-- potential of a configuration: upper bound on the dispatch attempts still to come. -/
def mu (s : St) : Nat := if s.result.isSome then 0 else phi s.stack + 1

theorem SysArmed.addCancel {a : Ctx} {sys : Sys} {st : List Frame} (c : Ctx) (h : SysArmed a sys st) :
    SysArmed a { sys with cancelled := c :: sys.cancelled } st :=
  ⟨h.armed, fun f hf => by
    have := h.frames f hf
    cases f <;> simpa [FrameOK] using this⟩

theorem step_running {s : St} {act : Action} {th : Nat} {loop : Loop} {r : List Frame}
    (hnone : s.result = none) (hnb : s.blockedOn = none) (hst : s.stack = .act th loop false :: r)
    (hext : isExt act = false) : step act s = iter act s th loop r := by
  cases act <;> simp_all [step, isExt]

/-- One loop iteration after done: the poll raises; no instruction is dispatched, no host function runs;
    the configuration stays "done"; the potential drops by the one poll that was made. -/
theorem step_done {a : Ctx} {s : St} (act : Action) (h : StDone a s) :
    StDone a (step act s).1 ∧
    (∀ e ∈ (step act s).2, isInstr e = false) ∧
    countPolls (step act s).2 + mu (step act s).1 ≤ mu s ∧
    (isExt act = false → s.result = none → countPolls (step act s).2 = 1) := by
  by_cases hres : s.result.isSome = true
  · -- already returned
    have : step act s = (s, []) := by simp [step, hres]
    rw [this]
    refine ⟨h, by simp, by simp [countPolls], ?_⟩
    intro _ hn
    simp [hn] at hres
  · have hnone : s.result = none := by
      cases hs : s.result with
      | none => rfl
      | some v => simp [hs] at hres
    obtain ⟨th, r, hst⟩ := h.running hnone
    have hnb := h.notBlocked
    by_cases hext : isExt act = true
    · cases act <;> simp [isExt] at hext
      rename_i c
      have : step (.extCancel c) s = ({ s with sys := { s.sys with cancelled := c :: s.sys.cancelled } }, []) := by
        simp [step, hnone, hnb]
      rw [this]
      refine ⟨⟨h.sys.addCancel c, List.mem_cons_of_mem _ h.cancelled, hnb, h.running, h.finished⟩, by simp, ?_, by simp [isExt]⟩
      simp [countPolls, mu]
    · have hext : isExt act = false := by simpa using hext
      rw [step_running hnone hnb hst hext]
      have hsys := h.sys
      rw [hst] at hsys
      have hlt : th < s.sys.threads.length := (hsys.frames _ List.mem_cons_self).2
      have ok := settle_ok a r s.sys (.raising .cancelled) hsys.tail
      have hiter : iter act s th .withCtx r = (ofSettled (settle s.sys (.raising .cancelled) r),
          .poll th true :: (settle s.sys (.raising .cancelled) r).events) := by
        simp only [iter, hsys.poll h.cancelled hlt]
      rw [hiter]
      have hcount : countPolls (Event.poll th true :: (settle s.sys (.raising .cancelled) r).events) = 1 := by
        unfold countPolls
        rw [List.filter_cons_of_pos (by simp [isPoll])]
        have : List.filter isPoll (settle s.sys (.raising .cancelled) r).events = [] := by
          apply List.filter_eq_nil_iff.mpr
          intro e he
          simp [ok.noPoll e he]
        simp [this]
      refine ⟨⟨ok.inv, settle_cancelled _ _ _ h.cancelled, rfl, fun hr => ok.running hr, fun hr => ok.finished hr⟩, ?_, ?_, fun _ _ => hcount⟩
      · intro e he
        simp only [List.mem_cons] at he
        rcases he with rfl | he
        · rfl
        · exact ok.noInstr e he
      · rw [hcount]
        have hmus : mu s = phi r + 1 := by simp [mu, hnone, hst, phi]
        rw [hmus]
        cases hv : (settle s.sys (.raising .cancelled) r).result with
        | none =>
          have := ok.phi_lt rfl hv
          simp only [mu, ofSettled, hv]
          simp
          omega
        | some v =>
          simp only [mu, ofSettled, hv]
          simp

theorem run_done {a : Ctx} : ∀ (acts : List Action) (s : St), StDone a s →
    StDone a (run acts s).1 ∧
    (∀ e ∈ (run acts s).2, isInstr e = false) ∧
    countPolls (run acts s).2 + mu (run acts s).1 ≤ mu s
  | [], s, h => by simp [run, countPolls, h]
  | act :: as, s, h => by
    obtain ⟨h1, h2, h3, _⟩ := step_done act h
    obtain ⟨i1, i2, i3⟩ := run_done as (step act s).1 h1
    simp only [run]
    refine ⟨i1, ?_, ?_⟩
    · intro e he
      rcases List.mem_append.mp he with he | he
      · exact h2 e he
      · exact i2 e he
    · have : countPolls ((step act s).2 ++ (run as (step act s).1).2) =
          countPolls (step act s).2 + countPolls (run as (step act s).1).2 := by
        simp [countPolls, List.filter_append]
      rw [this]
      omega

/-- liveness: every iteration that is not an external event makes progress, so the call returns. -/
theorem run_done_returns {a : Ctx} : ∀ (acts : List Action) (s : St), StDone a s →
    (∀ x ∈ acts, isExt x = false) → mu s ≤ acts.length → (run acts s).1.result.isSome = true
  | [], s, _, _, hl => by
    simp only [List.length_nil, Nat.le_zero] at hl
    simp only [run]
    unfold mu at hl
    split at hl
    · assumption
    · omega
  | act :: as, s, h, hx, hl => by
    obtain ⟨h1, _, h3, h4⟩ := step_done act h
    simp only [run]
    by_cases hres : s.result.isSome = true
    · have hmu : mu s = 0 := by simp [mu, hres]
      apply run_done_returns as _ h1 (fun x hx' => hx x (List.mem_cons_of_mem _ hx'))
      omega
    · have hnone : s.result = none := by
        cases hs : s.result with
        | none => rfl
        | some v => simp [hs] at hres
      have hc := h4 (hx act List.mem_cons_self) hnone
      apply run_done_returns as _ h1 (fun x hx' => hx x (List.mem_cons_of_mem _ hx'))
      simp only [List.length_cons] at hl
      omega

/-! ### before cancellation: the context `a` stays attached -/

/-- SetContext / RemoveContext by a host function detach `a` (or attach something else). -/
def reattaches : Action → Bool
  | .host (.setContext _) => true
  | .host .removeContext => true
  | _ => false

/-- the machine runs with context `a` attached to every state (every coroutine was created from an armed
    state, i.e. after the context was attached); nothing is said about `a` being done or not. -/
structure Attached (a : Ctx) (s : St) : Prop where
  sys : SysArmed a s.sys s.stack
  running : s.result = none → ∃ th r, s.stack = .act th .withCtx false :: r
  finished : s.result ≠ none → s.stack = []
  blocked : ∀ th bc, s.blockedOn = some (th, bc) → ∃ c, bc = some c ∧ a.isPrefixOf c = true

theorem isPrefixOf_append {a c : List Nat} (x : List Nat) (h : a.isPrefixOf c = true) :
    a.isPrefixOf (c ++ x) = true := by
  rw [List.isPrefixOf_iff_prefix] at *
  exact List.IsPrefix.trans h (List.prefix_append c x)

theorem newThread_armed {a : Ctx} {t : Thread} (n : Nat) (w : Bool) (h : Armed a t) : Armed a (newThread t n w) := by
  obtain ⟨_, c, hc, hp⟩ := h
  simp only [newThread, hc]
  exact ⟨rfl, _, rfl, isPrefixOf_append _ hp⟩

theorem FrameOK_mono {sys sys' : Sys} {f : Frame} (hl : sys.threads.length ≤ sys'.threads.length)
    (h : FrameOK sys f) : FrameOK sys' f := by
  cases f <;> simp_all [FrameOK] <;> omega

theorem pushLayers_ok {a : Ctx} {sys : Sys} (harm : ∀ t ∈ sys.threads, Armed a t) :
    ∀ (ls : List Layer) (cur : Nat) (st : List Frame), cur < sys.threads.length → layersValid sys ls = true →
      (∀ f ∈ st, FrameOK sys f) → (∃ th r, st = .act th .withCtx false :: r) →
      (∀ f ∈ pushLayers sys cur ls st, FrameOK sys f) ∧ (∃ th r, pushLayers sys cur ls st = .act th .withCtx false :: r) := by
  intro ls
  induction ls with
  | nil => intro cur st _ _ hf ht; exact ⟨hf, ht⟩
  | cons l ls ih =>
    intro cur st hcur hv hf _
    have hloop : ∀ t, t < sys.threads.length → sys.loopOf t = .withCtx :=
      fun t ht => (harm _ (Sys.thread_mem ht)).1
    simp only [layersValid, List.all_cons, Bool.and_eq_true] at hv
    have hv' : layersValid sys ls = true := hv.2
    have top : ∀ (t : Nat) (rest : List Frame), t < sys.threads.length → (∀ f ∈ rest, FrameOK sys f) →
        (∀ f ∈ pushLayers sys t ls (.act t (sys.loopOf t) (!ls.isEmpty) :: rest), FrameOK sys f) ∧
        (∃ th r, pushLayers sys t ls (.act t (sys.loopOf t) (!ls.isEmpty) :: rest) = .act th .withCtx false :: r) := by
      intro t rest ht hrest
      have hall : ∀ f ∈ (Frame.act t (sys.loopOf t) (!ls.isEmpty) :: rest), FrameOK sys f := by
        intro f hf'
        simp only [List.mem_cons] at hf'
        rcases hf' with rfl | hf'
        · exact ⟨hloop t ht, ht⟩
        · exact hrest f hf'
      cases ls with
      | nil => exact ⟨hall, t, rest, by simp [pushLayers, hloop t ht]⟩
      | cons l2 ls2 =>
        -- the new top is produced by the recursive call; its own top requirement is vacuous for a non-empty rest
        have := ih t (.act t (sys.loopOf t) (!(l2 :: ls2).isEmpty) :: rest) ht hv' hall
        cases l2 <;> simp only [pushLayers] at this ⊢ <;>
          exact pushLayers_top_aux harm _ _ _ _ (by first | exact hcur | exact ht) hv' hall
    cases l with
    | pcall h =>
      simp only [pushLayers]
      apply top cur _ hcur
      intro f hf'
      simp only [List.mem_cons] at hf'
      rcases hf' with rfl | hf'
      · exact hcur
      · exact hf f hf'
    | ucall =>
      simp only [pushLayers]
      exact top cur _ hcur hf
    | resume t =>
      simp only [pushLayers]
      have ht : t < sys.threads.length := by simpa using hv.1
      apply top t _ ht
      intro f hf'
      simp only [List.mem_cons] at hf'
      rcases hf' with rfl | hf'
      · trivial
      · exact hf f hf'
where
  pushLayers_top_aux {a : Ctx} {sys : Sys} (harm : ∀ t ∈ sys.threads, Armed a t) :
      ∀ (ls : List Layer) (l : Layer) (cur : Nat) (st : List Frame), cur < sys.threads.length →
        layersValid sys (l :: ls) = true → (∀ f ∈ st, FrameOK sys f) →
        (∀ f ∈ pushLayers sys cur (l :: ls) st, FrameOK sys f) ∧
        (∃ th r, pushLayers sys cur (l :: ls) st = .act th .withCtx false :: r) := by
    intro ls
    induction ls with
    | nil =>
      intro l cur st hcur hv hf
      have hloop : ∀ t, t < sys.threads.length → sys.loopOf t = .withCtx :=
        fun t ht => (harm _ (Sys.thread_mem ht)).1
      simp only [layersValid, List.all_cons, List.all_nil, Bool.and_true] at hv
      cases l with
      | pcall h =>
        simp only [pushLayers, List.isEmpty_nil, Bool.not_true]
        refine ⟨?_, cur, _, by rw [hloop cur hcur]⟩
        intro f hf'
        simp only [List.mem_cons] at hf'
        rcases hf' with rfl | rfl | hf'
        · exact ⟨hloop cur hcur, hcur⟩
        · exact hcur
        · exact hf f hf'
      | ucall =>
        simp only [pushLayers, List.isEmpty_nil, Bool.not_true]
        refine ⟨?_, cur, _, by rw [hloop cur hcur]⟩
        intro f hf'
        simp only [List.mem_cons] at hf'
        rcases hf' with rfl | hf'
        · exact ⟨hloop cur hcur, hcur⟩
        · exact hf f hf'
      | resume t =>
        have ht : t < sys.threads.length := by simpa using hv
        simp only [pushLayers, List.isEmpty_nil, Bool.not_true]
        refine ⟨?_, t, _, by rw [hloop t ht]⟩
        intro f hf'
        simp only [List.mem_cons] at hf'
        rcases hf' with rfl | rfl | hf'
        · exact ⟨hloop t ht, ht⟩
        · trivial
        · exact hf f hf'
    | cons l2 ls ih =>
      intro l cur st hcur hv hf
      have hloop : ∀ t, t < sys.threads.length → sys.loopOf t = .withCtx :=
        fun t ht => (harm _ (Sys.thread_mem ht)).1
      have hv2 : layersValid sys (l2 :: ls) = true := by
        simp only [layersValid, List.all_cons, Bool.and_eq_true] at hv ⊢
        exact hv.2
      cases l with
      | pcall h =>
        simp only [pushLayers]
        apply ih l2 cur _ hcur hv2
        intro f hf'
        simp only [List.mem_cons] at hf'
        rcases hf' with rfl | rfl | hf'
        · exact ⟨hloop cur hcur, hcur⟩
        · exact hcur
        · exact hf f hf'
      | ucall =>
        simp only [pushLayers]
        apply ih l2 cur _ hcur hv2
        intro f hf'
        simp only [List.mem_cons] at hf'
        rcases hf' with rfl | hf'
        · exact ⟨hloop cur hcur, hcur⟩
        · exact hf f hf'
      | resume t =>
        have ht : t < sys.threads.length := by
          simp only [layersValid, List.all_cons, Bool.and_eq_true] at hv
          simpa using hv.1
        simp only [pushLayers]
        apply ih l2 t _ ht hv2
        intro f hf'
        simp only [List.mem_cons] at hf'
        rcases hf' with rfl | rfl | hf'
        · exact ⟨hloop t ht, ht⟩
        · trivial
        · exact hf f hf'

theorem Attached.ofSettled {a : Ctx} {st : List Frame} {m : Mode} {o : Settled} (ok : SettleOK a st m o) :
    Attached a (ofSettled o) :=
  ⟨ok.inv, fun hr => ok.running hr, fun hr => ok.finished hr, by intro th bc h; simp [GLua.Cancel.ofSettled] at h⟩

theorem SysArmed.setCancelled {a : Ctx} {sys : Sys} {st : List Frame} (cs : List Ctx) (h : SysArmed a sys st) :
    SysArmed a { sys with cancelled := cs } st :=
  ⟨h.armed, fun f hf => by
    have := h.frames f hf
    cases f <;> simpa [FrameOK] using this⟩

/-- the dispatched instruction keeps `a` attached unless it is a SetContext / RemoveContext host call. -/
theorem dispatchStep_attached {a : Ctx} {s : St} {th : Nat} {r : List Frame} (act : Action)
    (h : Attached a s) (hst : s.stack = .act th .withCtx false :: r) (hnb : s.blockedOn = none)
    (hre : reattaches act = false) : Attached a (dispatchStep act s th .withCtx r).1 := by
  have hsys := h.sys
  rw [hst] at hsys
  have hlt : th < s.sys.threads.length := (hsys.frames _ List.mem_cons_self).2
  cases act with
  | instr => exact h
  | extCancel c => exact h
  | ret => exact Attached.ofSettled (settle_ok a r s.sys .retN hsys.tail)
  | err => exact Attached.ofSettled (settle_ok a r s.sys (.raising .lua) hsys.tail)
  | yield =>
    simp only [dispatchStep]
    split
    · rename_i t w r'
      split
      · exact Attached.ofSettled (settle_ok a r' s.sys (.retG none) hsys.tail.tail)
      · exact Attached.ofSettled (settle_ok a _ s.sys (.raising .lua) hsys.tail)
    · exact Attached.ofSettled (settle_ok a r s.sys (.raising .lua) hsys.tail)
  | enter ls =>
    simp only [dispatchStep]
    split
    · rename_i hv
      have hp := pushLayers_ok h.sys.armed ls th s.stack hlt hv h.sys.frames ⟨th, r, hst⟩
      exact ⟨⟨h.sys.armed, hp.1⟩, fun _ => hp.2, fun hr => by
        have := h.finished hr
        obtain ⟨t', r', he⟩ := hp.2
        rw [hst] at this
        simp at this, fun th' bc hb => h.blocked th' bc hb⟩
    · exact h
  | host op =>
    cases op with
    | emit => exact h
    | setContext c => simp [reattaches] at hre
    | removeContext => simp [reattaches] at hre
    | cancel c =>
      exact ⟨h.sys.setCancelled _, h.running, h.finished, h.blocked⟩
    | newThread w =>
      simp only [dispatchStep, applyHost]
      refine ⟨⟨?_, ?_⟩, h.running, h.finished, h.blocked⟩
      · intro t ht
        simp only [List.mem_append, List.mem_singleton] at ht
        have hcr := h.sys.armed _ (Sys.thread_mem hlt)
        rcases ht with ht | rfl
        · rcases List.mem_or_eq_of_mem_set ht with h1 | h1
          · exact h.sys.armed t h1
          · subst h1
            split
            · exact hcr
            · exact hcr
        · exact newThread_armed _ _ hcr
      · intro f hf
        exact FrameOK_mono (by simp) (h.sys.frames f hf)
    | block k ready =>
      simp only [dispatchStep, applyHost]
      split
      · exact h
      · refine ⟨h.sys, h.running, h.finished, ?_⟩
        intro th' bc hb
        simp only [Option.some.injEq, Prod.mk.injEq] at hb
        obtain ⟨_, c, hc, hp⟩ := h.sys.armed _ (Sys.thread_mem hlt)
        exact ⟨c, by rw [← hb.2]; exact hc, hp⟩

theorem step_attached {a : Ctx} {s : St} (act : Action) (h : Attached a s) (hre : reattaches act = false) :
    Attached a (step act s).1 := by
  by_cases hres : s.result.isSome = true
  · have : step act s = (s, []) := by simp [step, hres]
    rw [this]; exact h
  · have hnone : s.result = none := by
      cases hs : s.result with
      | none => rfl
      | some v => simp [hs] at hres
    obtain ⟨th, r, hst⟩ := h.running hnone
    cases hb : s.blockedOn with
    | some b =>
      obtain ⟨bt, bc⟩ := b
      cases act <;> simp only [step, hres, hb, Bool.false_eq_true, if_false] <;> try exact h
      rename_i c
      split
      · exact ⟨h.sys.setCancelled _, h.running, h.finished, by simp⟩
      · exact ⟨h.sys.setCancelled _, h.running, h.finished, fun th' bc' hb' => h.blocked th' bc' (by simpa [hb] using hb')⟩
    | none =>
      by_cases hext : isExt act = true
      · cases act <;> simp [isExt] at hext
        rename_i c
        simp only [step, hres, hb, Bool.false_eq_true, if_false]
        exact ⟨h.sys.setCancelled _, h.running, h.finished, fun th' bc' hb' => h.blocked th' bc' (by simpa [hb] using hb')⟩
      · have hext : isExt act = false := by simpa using hext
        rw [step_running hnone hb hst hext]
        have hsys := h.sys
        rw [hst] at hsys
        simp only [iter]
        split
        · exact Attached.ofSettled (settle_ok a r s.sys (.raising .cancelled) hsys.tail)
        · exact Attached.ofSettled (settle_ok a r s.sys (.raising .goPanic) hsys.tail)
        · exact dispatchStep_attached act h hst hb hre

theorem run_attached {a : Ctx} : ∀ (acts : List Action) (s : St), Attached a s →
    (∀ x ∈ acts, reattaches x = false) → Attached a (run acts s).1
  | [], _, h, _ => by simpa [run] using h
  | act :: as, s, h, hx => by
    simp only [run]
    exact run_attached as _ (step_attached act h (hx act List.mem_cons_self))
      (fun x hx' => hx x (List.mem_cons_of_mem _ hx'))

/-- the moment of cancellation: an external `cancel()` of the attached context turns any attached
    configuration — also one blocked in a channel operation — into a "done" configuration with the same stack. -/
theorem cancel_establishes_done {a : Ctx} {s : St} (h : Attached a s) (hnone : s.result = none) :
    StDone a (step (.extCancel a) s).1 ∧ (step (.extCancel a) s).1.stack = s.stack := by
  have hres : ¬ s.result.isSome = true := by simp [hnone]
  cases hb : s.blockedOn with
  | none =>
    simp only [step, hres, hb, Bool.false_eq_true, if_false]
    exact ⟨⟨h.sys.setCancelled _, List.mem_cons_self, rfl, h.running, h.finished⟩, trivial⟩
  | some b =>
    obtain ⟨bt, bc⟩ := b
    obtain ⟨c, hc, hp⟩ := h.blocked bt bc hb
    have hret : blockingReturns bc (a :: s.sys.cancelled) false = true := by
      subst hc
      simp only [blockingReturns, Bool.false_or]
      exact isDone_of_mem List.mem_cons_self hp
    simp only [step, hres, hb, Bool.false_eq_true, if_false, hret, if_true]
    exact ⟨⟨h.sys.setCancelled _, List.mem_cons_self, rfl, h.running, h.finished⟩, trivial⟩

theorem initSt_attached (a : Ctx) : Attached a (initSt a) := by
  refine ⟨⟨?_, ?_⟩, fun _ => ⟨0, _, rfl⟩, by simp [initSt], by simp [initSt]⟩
  · intro t ht
    simp only [initSt, List.mem_singleton] at ht
    subst ht
    exact ⟨rfl, a, rfl, by rw [List.isPrefixOf_iff_prefix]; exact List.prefix_refl a⟩
  · intro f hf
    simp only [initSt, List.mem_cons, List.not_mem_nil, or_false] at hf
    rcases hf with rfl | rfl <;> simp [FrameOK, initSt]

/-! ### the error that comes out -/

/-- outermost protected call whose result is the error that reaches it: DoString / PCall without handler,
    PCall with a Lua handler (the handler itself is cancelled), LState.Resume. -/
def okRoot : Frame → Bool
  | .pcall _ .none => true
  | .pcall _ .lua => true
  | .handling _ => true
  | .trun _ false => true
  | _ => false

/-- the outermost activation runs a Lua function directly under such a root. -/
def Rooted (st : List Frame) : Prop :=
  ∃ pre th l b, st = pre ++ [.act th l false, b] ∧ okRoot b = true

def ResultOK (st : List Frame) (res : Option (Option Err)) : Prop :=
  (res = none ∧ Rooted st) ∨ res = some (some .cancelled)

theorem settle_rooted (th : Nat) (l : Loop) (b : Frame) (hb : okRoot b = true) :
    ∀ (pre : List Frame) (sys : Sys) (m : Mode), (∀ e, m = .raising e → e = .cancelled) →
      ResultOK (settle sys m (pre ++ [.act th l false, b])).stack (settle sys m (pre ++ [.act th l false, b])).result := by
  intro pre
  induction pre with
  | nil =>
    intro sys m hm
    cases m with
    | raising e =>
      have := hm e rfl
      subst this
      cases b with
      | act _ _ _ => simp [okRoot] at hb
      | pcall t h =>
        cases h with
        | none => right; simp [settle]
        | go => simp [okRoot] at hb
        | lua => left; simp only [List.nil_append, settle]; exact ⟨trivial, [], t, _, .handling t, rfl, rfl⟩
      | handling t => right; simp [settle]
      | trun t w =>
        cases w with
        | false => right; simp [settle, Settled.pre]
        | true => simp [okRoot] at hb
    | retG v => left; simp only [List.nil_append, settle]; exact ⟨trivial, [], th, l, b, rfl, hb⟩
    | retN => left; simp only [List.nil_append, settle]; exact ⟨trivial, [], th, l, b, rfl, hb⟩
  | cons f pre ih =>
    intro sys m hm
    have keep : ∀ (x : Frame), Rooted (x :: (pre ++ [.act th l false, b])) := fun x => ⟨x :: pre, th, l, b, rfl, hb⟩
    cases m with
    | raising e =>
      have := hm e rfl
      subst this
      cases f with
      | act t l' g => simp only [List.cons_append, settle]; exact ih sys _ hm
      | pcall t h =>
        cases h with
        | none => simp only [List.cons_append, settle]; exact ih sys _ (by intro e he; cases he)
        | go => simp only [List.cons_append, settle, Settled.pre]; exact ih sys _ (by intro e he; cases he)
        | lua =>
          left
          simp only [List.cons_append, settle]
          exact ⟨trivial, .act t (sys.loopOf t) false :: .handling t :: pre, th, l, b, rfl, hb⟩
      | handling t => simp only [List.cons_append, settle]; exact ih sys _ (by intro e he; cases he)
      | trun t w =>
        cases w with
        | false => simp only [List.cons_append, settle, Settled.pre]; exact ih _ _ (by intro e he; cases he)
        | true => simp only [List.cons_append, settle, Settled.pre]; exact ih _ _ hm
    | retG v =>
      cases f with
      | act t l' g =>
        cases g with
        | false => left; simp only [List.cons_append, settle]; exact ⟨trivial, keep _⟩
        | true => simp only [List.cons_append, settle]; exact ih sys _ (by intro e he; cases he)
      | pcall t h => simp only [List.cons_append, settle]; exact ih sys _ (by intro e he; cases he)
      | handling t => simp only [List.cons_append, settle]; exact ih sys _ (by intro e he; cases he)
      | trun t w => simp only [List.cons_append, settle, Settled.pre]; exact ih _ _ (by intro e he; cases he)
    | retN =>
      cases f with
      | act t l' g =>
        cases g with
        | false => left; simp only [List.cons_append, settle]; exact ⟨trivial, keep _⟩
        | true => simp only [List.cons_append, settle]; exact ih sys _ (by intro e he; cases he)
      | pcall t h => simp only [List.cons_append, settle]; exact ih sys _ (by intro e he; cases he)
      | handling t => simp only [List.cons_append, settle]; exact ih sys _ (by intro e he; cases he)
      | trun t w => simp only [List.cons_append, settle, Settled.pre]; exact ih _ _ (by intro e he; cases he)

theorem step_done_result {a : Ctx} {s : St} (act : Action) (h : StDone a s) (hr : ResultOK s.stack s.result) :
    ResultOK (step act s).1.stack (step act s).1.result := by
  by_cases hres : s.result.isSome = true
  · have : step act s = (s, []) := by simp [step, hres]
    rw [this]; exact hr
  · have hnone : s.result = none := by
      cases hs : s.result with
      | none => rfl
      | some v => simp [hs] at hres
    obtain ⟨th, r, hst⟩ := h.running hnone
    have hnb := h.notBlocked
    by_cases hext : isExt act = true
    · cases act <;> simp [isExt] at hext
      simp only [step, hres, hnb, Bool.false_eq_true, if_false]
      exact hr
    · have hext : isExt act = false := by simpa using hext
      rw [step_running hnone hnb hst hext]
      have hsys := h.sys
      rw [hst] at hsys
      have hlt : th < s.sys.threads.length := (hsys.frames _ List.mem_cons_self).2
      simp only [iter, hsys.poll h.cancelled hlt, ofSettled]
      rcases hr with ⟨_, pre, th', l', b, hpre, hb⟩ | hr
      · have := settle_rooted th' l' b hb pre s.sys (.raising .cancelled) (by intro e he; cases he; rfl)
        rw [← hpre, hst] at this
        simpa only [settle] using this
      · rw [hnone] at hr; cases hr

theorem run_done_result {a : Ctx} : ∀ (acts : List Action) (s : St), StDone a s → ResultOK s.stack s.result →
    ResultOK (run acts s).1.stack (run acts s).1.result
  | [], _, _, hr => by simpa [run] using hr
  | act :: as, s, h, hr => by
    simp only [run]
    exact run_done_result as _ (step_done act h).1 (step_done_result act h hr)

/-! ### transparency of the poll -/

/-- As long as the polled context is not done, an iteration of `mainLoopWithContext` reaches exactly the
    configuration an iteration of `mainLoop` reaches, with the same events except the poll itself. -/
theorem iter_transparent (act : Action) (s : St) (th : Nat) (r : List Frame) (c : Ctx)
    (hc : s.sys.ctxOf th = some c) (hnd : isDone s.sys.cancelled c = false) :
    (iter act s th .withCtx r).1 = (iter act s th .plain r).1 ∧
    (iter act s th .withCtx r).2 = .poll th false :: (iter act s th .plain r).2 := by
  have h1 : pollIter .withCtx (s.sys.ctxOf th) s.sys.cancelled = .dispatch true := by
    simp [pollIter, hc, hnd]
  have h2 : pollIter .plain (s.sys.ctxOf th) s.sys.cancelled = .dispatch false := by
    simp [pollIter]
  have hd : dispatchStep act s th .withCtx r = dispatchStep act s th .plain r := by
    cases act <;> rfl
  simp only [iter, h1, h2, hd]
  simp

end GLua.Cancel
