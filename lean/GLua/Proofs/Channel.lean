/-
  Lemmas for C13: the history invariant of the Go-channel LTS (`GLua.Chan.step`).
  Core Lean only (no Mathlib).
-/
import GLua.Model.Channel

namespace GLua.Chan
set_option linter.unusedSectionVars false
variable {α : Type} [DecidableEq α]

/-! ### projections of a history distribute over append -/

theorem sentVals_append (c : Cid) (a b : List (Obs α)) :
    sentVals c (a ++ b) = sentVals c a ++ sentVals c b := by
  induction a with
  | nil => rfl
  | cons o r ih =>
    cases o <;> simp only [List.cons_append, sentVals, ih]
    split <;> simp

theorem rcvdVals_append (c : Cid) (a b : List (Obs α)) :
    rcvdVals c (a ++ b) = rcvdVals c a ++ rcvdVals c b := by
  induction a with
  | nil => rfl
  | cons o r ih =>
    cases o <;> simp only [List.cons_append, rcvdVals, ih]
    split <;> simp

theorem rcvdBy_append (c : Cid) (a b : List (Obs α)) :
    rcvdBy c (a ++ b) = rcvdBy c a ++ rcvdBy c b := by
  induction a with
  | nil => rfl
  | cons o r ih =>
    cases o <;> simp only [List.cons_append, rcvdBy, ih]
    split <;> simp

theorem wasClosed_append (c : Cid) (a b : List (Obs α)) :
    wasClosed c (a ++ b) = (wasClosed c a || wasClosed c b) := by
  induction a with
  | nil => simp [wasClosed]
  | cons o r ih =>
    cases o <;> simp only [List.cons_append, wasClosed, ih]
    split <;> simp

theorem rcvdBy_snd (c : Cid) (obs : List (Obs α)) :
    (rcvdBy c obs).map Prod.snd = rcvdVals c obs := by
  induction obs with
  | nil => rfl
  | cons o r ih =>
    cases o <;> simp only [rcvdBy, rcvdVals, ih]
    split <;> simp [ih]

/-! ### the invariant -/

/-- per-channel invariant tying the configuration to the observed history -/
structure ChanInv (caps : Cid → Nat) (σ : Cfg α) (obs : List (Obs α)) (c : Cid) : Prop where
  cap : (σ.ch c).cap = caps c
  room : (σ.ch c).buf.length ≤ caps c
  /-- received ++ still queued = sent, as sequences -/
  fifo : rcvdVals c obs ++ (σ.ch c).buf = sentVals c obs
  closed : (σ.ch c).closed = wasClosed c obs

theorem setCh_same (f : Cid → Ch α) (c : Cid) (x : Ch α) : setCh f c x c = x := by simp [setCh]
theorem setCh_other (f : Cid → Ch α) (c c' : Cid) (x : Ch α) (h : c' ≠ c) : setCh f c x c' = f c' := by
  simp [setCh, h]

theorem inv_init (caps : Cid → Nat) (c : Cid) : ChanInv caps (Cfg.init caps : Cfg α) [] c :=
  ⟨rfl, Nat.zero_le _, rfl, rfl⟩

/-- a label that leaves the channels alone and whose observations mention neither sends, receives nor closes of `c` -/
theorem inv_frame {caps : Cid → Nat} {σ σ' : Cfg α} {obs extra : List (Obs α)} {c : Cid}
    (h : ChanInv caps σ obs c) (hch : σ'.ch c = σ.ch c)
    (hs : sentVals c extra = []) (hr : rcvdVals c extra = []) (hc : wasClosed c extra = false) :
    ChanInv caps σ' (obs ++ extra) c := by
  refine ⟨by rw [hch]; exact h.cap, by rw [hch]; exact h.room, ?_, ?_⟩
  · rw [rcvdVals_append, sentVals_append, hs, hr, hch]; simpa using h.fifo
  · rw [wasClosed_append, hc, hch]; simpa using h.closed

theorem inv_step {caps : Cid → Nat} {σ σ' : Cfg α} {obs : List (Obs α)} (ev : Ev α)
    (hinv : ∀ c, ChanInv caps σ obs c) (hstep : step σ ev = some σ') :
    ∀ c, ChanInv caps σ' (obs ++ obsOf σ ev) c := by
  intro c
  have h := hinv c
  cases ev with
  | call g cases =>
    simp only [step] at hstep
    split at hstep
    · cases hstep
    · cases hstep
      exact inv_frame h rfl rfl rfl rfl
  | fire g i o =>
    simp only [step] at hstep
    split at hstep
    · cases hstep
    · rename_i cases hp
      split at hstep
      · cases hstep
      · rename_i cs hcs
        have hcase : caseAt σ g i = some cs := by simp [caseAt, hp, hcs]
        cases cs with
        | dflt =>
          have hd' : (Case.dflt : Case α).isDflt = true := rfl
          rw [hd'] at hstep
          simp only [if_true] at hstep
          split at hstep
          · rename_i hd
            cases hstep
            obtain ⟨ho, _⟩ := hd
            subst ho
            refine inv_frame h rfl ?_ ?_ ?_ <;> simp [obsOf, hcase, sentVals, rcvdVals, wasClosed]
          · cases hstep
        | send c' v =>
          have hd' : ∀ x, (x : Case α).isDflt = true ↔ x = .dflt := by intro x; cases x <;> simp [Case.isDflt]
          simp only [hd', reduceCtorEq, if_false] at hstep
          split at hstep
          · rename_i hso
            cases hstep
            simp only [soloOut] at hso
            split at hso
            · -- send on a closed channel: panic, nothing changes
              rename_i hcl
              cases hso
              refine inv_frame h ?_ ?_ ?_ ?_
              · simp [soloApply, hcl]
              all_goals simp [obsOf, hcase, sentVals, rcvdVals, wasClosed]
            · rename_i hcl
              split at hso
              · rename_i hroom
                cases hso
                by_cases hc : c = c'
                · subst hc
                  have hcap := h.cap
                  refine ⟨?_, ?_, ?_, ?_⟩
                  · simp [soloApply, hcl, setCh_same, hcap]
                  · simp only [soloApply, hcl, Bool.false_eq_true, if_false, setCh_same, List.length_append,
                      List.length_cons, List.length_nil]
                    omega
                  · simp only [soloApply, hcl, Bool.false_eq_true, if_false, setCh_same, rcvdVals_append,
                      sentVals_append, obsOf, hcase, sentVals, rcvdVals, if_true, List.append_nil]
                    rw [← List.append_assoc, h.fifo]
                  · simp only [soloApply, hcl, Bool.false_eq_true, if_false, setCh_same, wasClosed_append]
                    simp [obsOf, hcase, wasClosed, ← h.closed, hcl]
                · refine inv_frame h ?_ ?_ ?_ ?_
                  · simp [soloApply, hcl, setCh_other _ _ _ _ hc]
                  · simp [obsOf, hcase, sentVals, Ne.symm hc]
                  · simp [obsOf, hcase, rcvdVals]
                  · simp [obsOf, hcase, wasClosed]
              · cases hso
          · cases hstep
        | recv c' =>
          have hd' : ∀ x, (x : Case α).isDflt = true ↔ x = .dflt := by intro x; cases x <;> simp [Case.isDflt]
          simp only [hd', reduceCtorEq, if_false] at hstep
          split at hstep
          · rename_i hso
            cases hstep
            simp only [soloOut] at hso
            split at hso
            · rename_i v r hbuf
              cases hso
              by_cases hc : c = c'
              · subst hc
                refine ⟨?_, ?_, ?_, ?_⟩
                · simp [soloApply, hbuf, setCh_same, h.cap]
                · have := h.room
                  simp only [soloApply, hbuf, setCh_same]
                  rw [hbuf] at this
                  simp only [List.length_cons] at this
                  omega
                · simp only [soloApply, hbuf, setCh_same, rcvdVals_append, sentVals_append, obsOf, hcase,
                    sentVals, rcvdVals, if_true, List.append_nil]
                  rw [← h.fifo, hbuf]; simp
                · simp only [soloApply, hbuf, setCh_same, wasClosed_append]
                  simp [obsOf, hcase, wasClosed, ← h.closed]
              · refine inv_frame h ?_ ?_ ?_ ?_
                · simp [soloApply, hbuf, setCh_other _ _ _ _ hc]
                · simp [obsOf, hcase, sentVals]
                · simp [obsOf, hcase, rcvdVals, Ne.symm hc]
                · simp [obsOf, hcase, wasClosed]
            · rename_i hbuf
              split at hso
              · cases hso
                refine inv_frame h ?_ ?_ ?_ ?_
                · simp [soloApply, hbuf]
                all_goals simp [obsOf, hcase, sentVals, rcvdVals, wasClosed]
              · cases hso
          · cases hstep
  | sync gs i gr j =>
    simp only [step] at hstep
    split at hstep
    · rename_i cs1 cs2 hp1 hp2
      split at hstep
      · rename_i c1 v c2 h1 h2
        split at hstep
        · rename_i hg
          cases hstep
          obtain ⟨_, hcc, hopen, hcap0⟩ := hg
          subst hcc
          have hcase : caseAt σ gs i = some (.send c1 v) := by simp [caseAt, hp1, h1]
          by_cases hc : c = c1
          · subst hc
            have hroom := h.room
            have hcap := h.cap
            have hbuf : (σ.ch c).buf = [] := by
              have : (σ.ch c).buf.length = 0 := by omega
              exact List.eq_nil_of_length_eq_zero this
            refine ⟨h.cap, h.room, ?_, ?_⟩
            · have hf := h.fifo
              rw [hbuf, List.append_nil] at hf
              simp only [rcvdVals_append, sentVals_append, obsOf, hcase, sentVals, rcvdVals, if_true, hbuf,
                List.append_nil, hf]
            · simp [wasClosed_append, obsOf, hcase, wasClosed, ← h.closed]
          · refine inv_frame h rfl ?_ ?_ ?_
            · simp [obsOf, hcase, sentVals, Ne.symm hc]
            · simp [obsOf, hcase, rcvdVals, Ne.symm hc]
            · simp [obsOf, hcase, wasClosed]
        · cases hstep
      · cases hstep
    · cases hstep
  | close g c' =>
    simp only [step] at hstep
    split at hstep
    · cases hstep
    · split at hstep
      · cases hstep
      · rename_i hcl
        cases hstep
        by_cases hc : c = c'
        · subst hc
          refine ⟨?_, ?_, ?_, ?_⟩
          · simp [setCh_same, h.cap]
          · simp [setCh_same, h.room]
          · simp only [setCh_same, rcvdVals_append, sentVals_append, obsOf, sentVals, rcvdVals, List.append_nil]
            exact h.fifo
          · simp [setCh_same, wasClosed_append, obsOf, wasClosed]
        · refine inv_frame h ?_ rfl rfl ?_
          · simp [setCh_other _ _ _ _ hc]
          · simp [obsOf, wasClosed, Ne.symm hc]
  | closePanic g c' =>
    simp only [step] at hstep
    split at hstep
    · cases hstep
    · split at hstep
      · cases hstep
        exact inv_frame h rfl rfl rfl (by simp [obsOf, wasClosed])
      · cases hstep

theorem reach_inv {caps : Cid → Nat} {σ : Cfg α} {obs : List (Obs α)} (h : Reach caps σ obs) :
    ∀ c, ChanInv caps σ obs c := by
  induction h with
  | init => exact inv_init caps
  | step ev _ hs ih => exact inv_step ev ih hs

/-! ### small list facts (core has most; kept local to avoid Mathlib) -/

theorem pair_unique_of_nodup_snd {β γ : Type} (l : List (β × γ)) (h : (l.map Prod.snd).Nodup)
    {a a' : β} {b : γ} (h1 : (a, b) ∈ l) (h2 : (a', b) ∈ l) : a = a' := by
  induction l with
  | nil => cases h1
  | cons x r ih =>
    simp only [List.map_cons, List.nodup_cons] at h
    obtain ⟨hx, hr⟩ := h
    rcases List.mem_cons.mp h1 with e1 | m1 <;> rcases List.mem_cons.mp h2 with e2 | m2
    · rw [← e1] at e2; exact (Prod.mk.inj e2).1.symm
    · exfalso; apply hx; rw [← e1]; exact List.mem_map.mpr ⟨(a', b), m2, rfl⟩
    · exfalso; apply hx; rw [← e2]; exact List.mem_map.mpr ⟨(a, b), m1, rfl⟩
    · exact ih hr m1 m2

end GLua.Chan
