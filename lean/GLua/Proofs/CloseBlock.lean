/-
  compile_establishes_discipline, goto-free fragment: plain blocks (`do … end`, the branches of `if`).
-/
import GLua.Proofs.CloseMain

namespace GLua.CloseC
open GLua

theorem AllowedB.unfilter {Λ : List (Nat × AState)} {caps : List Nat} :
    ∀ {bs : List Block} (t : Nat), Chain bs → topOf bs ≤ t → AllowedB Λ (caps.filter (· < t)) bs → AllowedB Λ caps bs
  | [], _, _, _, _ => trivial
  | b :: rest, t, hc, ht, h => by
    simp only [topOf] at ht
    refine ⟨fun l hl => ?_, AllowedB.unfilter t (chain_tail hc) (by have := chain_base hc; omega) h.2⟩
    obtain ⟨τ, h1, h2⟩ := h.1 l hl
    exact ⟨τ, h1, fun r hr hlt => h2 r (by simp only [List.mem_filter, decide_eq_true_eq]; exact ⟨hr, by omega⟩) hlt⟩

/-- entering a block that is not a loop body keeps everything -/
theorem enter_plain_rel {fc : FC} (hr : Rel fc) : Rel (fc.enterBlock none 0) := by
  cases hb : fc.blocks with
  | nil => exact absurd hb hr.geo.ne
  | cons b rest =>
    have htop : fc.regTop = b.base + b.nnames := by have := hr.geo.top; rw [hb] at this; exact this
    have hch := hr.geo.chain
    refine ⟨⟨by simp, ?_, ?_, hr.geo.keys⟩, ?_⟩
    · simp only [enterBlock_blocks, hb]
      rw [hb] at hch
      exact ⟨htop, hch⟩
    · simp [topOf]
    · simp only [enterBlock_blocks, enterBlock_ltypes, enterBlock_cur]
      have hg := hr.good
      cases hc : fc.cur with
      | none =>
        rw [hc] at hg
        exact ⟨fun l hl => by simp at hl, hg⟩
      | some s =>
        rw [hc] at hg
        have hg' : Good fc.ltypes fc.blocks s := hg
        refine ⟨?_, ?_, ?_, ⟨fun l hl => by simp at hl, hg'.i3⟩⟩
        · intro r hr'
          simp only [namedRegs, Nat.sub_self, List.range_zero, List.map_nil, List.append_nil] at hr'
          exact hg'.lv r hr'
        · intro r hr'
          have := hg'.i1 r hr'
          rw [← hr.geo.top] at this
          simpa [topOf] using this
        · intro r hr' hlb
          have := hg'.i2 r hr' (by simpa [loopBase] using hlb)
          simp only [ownerFlag]
          have hnot : ¬ (fc.regTop ≤ r ∧ r < fc.regTop + 0) := by omega
          simp only [Bool.and_eq_true, decide_eq_true_eq, hnot, if_false]
          exact this

theorem block_post {b : Stmt} (ih : IH b) (fc fc' : FC) (hr : Rel fc) (hg : fc.gotos = [])
    (ha : AllowedB fc.ltypes ((freeCaps fc.regTop b).1.filter (· < fc.regTop)) fc.blocks)
    (h : blockWith fc false (fun fc => compileChunk fc b true .skip) = .ok fc') : Post fc (.doBlock b) fc' := by
  simp only [blockWith, Bool.false_eq_true, if_false, bind, Except.bind] at h
  cases h1 : compileChunk (fc.enterBlock none) b true .skip with
  | error e => simp [h1] at h
  | ok fc2 =>
    simp only [h1] at h
    have hr1 := enter_plain_rel hr
    have ha0 : AllowedB fc.ltypes (freeCaps fc.regTop b).1 fc.blocks :=
      AllowedB.unfilter fc.regTop hr.geo.chain (Nat.le_of_eq hr.geo.top.symm) ha
    have ha1 : AllowedB (fc.enterBlock none).ltypes (freeCaps (fc.enterBlock none).regTop b).1 (fc.enterBlock none).blocks := by
      simp only [enterBlock_blocks, enterBlock_ltypes, enterBlock_regTop]
      exact ⟨fun l hl => by simp at hl, ha0⟩
    have p := ih _ _ _ fc2 hr1 (by simpa using hg) ha1 h1
    -- the shape of the stack after the body
    have hbe := p.bext
    simp only [enterBlock_blocks] at hbe
    cases hb2 : fc2.blocks with
    | nil => rw [hb2] at hbe; exact hbe.elim
    | cons b2 tl =>
      cases hfb : fc.blocks with
      | nil => exact absurd hfb hr.geo.ne
      | cons fb frest =>
        rw [hb2, hfb] at hbe
        cases tl with
        | nil => exact hbe.tail.elim
        | cons p2 rest2 =>
          have hch2 := p.rel.geo.chain
          rw [leaveBlock_spec hb2 hch2 (p.gotos (by simpa using hg))] at h
          simp only [Except.ok.injEq] at h
          subst h
          have hbase : b2.base = fc.regTop := hbe.1
          have hbrk : b2.brk = none := hbe.2.2.2.1
          have htext : TExt fc.blocks (p2 :: rest2) := by rw [hfb]; exact hbe.tail
          have hgood : GoodO fc2.ltypes (p2 :: rest2) (closeCur fc2.cur b2) := by
            have := p.rel.good
            rw [hb2] at this hch2
            exact pop_goodO hch2 hbrk this
          refine ⟨⟨popped_geo p.rel.geo hb2, ?_⟩, ?_, ?_, ?_, ?_, ?_⟩
          · simp only [popped_blocks, popped_ltypes, popped_cur]; exact hgood
          · exact ((enterBlock_adv fc none 0).trans p.adv).trans (popped_adv b2 p2 rest2 (p.gotos (by simpa using hg)))
          · simp only [popped_blocks]; exact htext.toBExt
          · simp only [popped_regTop, freeCaps]; exact hbase
          · intro r hr'
            unfold curD at hr'
            rw [popped_cur] at hr'
            cases hc2 : fc2.cur with
            | none =>
              have : closeCur none b2 = none := by unfold closeCur; split <;> rfl
              simp [hc2, this] at hr'
            | some s2 =>
              have hcc : closeCur (some s2) b2 = some (if b2.ref then s2.closeAt b2.base else s2) := by
                unfold closeCur; split <;> rfl
              rw [hc2, hcc] at hgood
              rw [hc2, hcc] at hr'
              replace hr' : r ∈ (if b2.ref then s2.closeAt b2.base else s2).d := hr'
              have hlt : r < fc.regTop := by
                have := hgood.i1 r hr'
                rw [htext.topOf, ← hr.geo.top] at this; exact this
              have hin : r ∈ s2.d := by
                split at hr'
                · simp only [AState.closeAt, List.mem_filter] at hr'; exact hr'.1
                · exact hr'
              rcases p.prov r (by simpa [curD, hc2] using hin) with h3 | h3
              · left; simpa [curD] using h3
              · right
                simp only [freeCaps, List.mem_filter, decide_eq_true_eq]
                exact ⟨by simpa using h3, hlt⟩
          · intro r hr'
            simp only [freeCaps, List.mem_filter, decide_eq_true_eq] at hr'
            have := p.flag r (by simpa using hr'.1)
            rw [hb2, ownerFlag_lt_base (by omega)] at this
            simpa using this

theorem post_doBlock {b : Stmt} (ih : IH b) : IH (.doBlock b) := by
  intro fc tail rest fc' hr hg ha h
  refine block_post ih fc fc' hr hg ha ?_
  simp only [compileChunk] at h
  simpa [blockWith] using h

end GLua.CloseC
