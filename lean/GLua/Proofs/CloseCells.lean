/-
  Cell-semantics side of the close-discipline soundness proof: what the abstract scan state means for a state of
  Spec/Cells (`Gam`), the well-formedness of reachable cell states (`CWf`), and one lemma per request.
-/
import GLua.Model.CloseCheck

namespace GLua.CloseC
open GLua GLua.Cells

/-- run a trace, forgetting the observations -/
def exec : CSt → List Op → Option CSt
  | c, [] => some c
  | c, op :: rest =>
    match Cells.step c op with
    | none => none
    | some (c1, _) => exec c1 rest

theorem run_isSome (c : CSt) (tr : List Op) : (Cells.run c tr).isSome = (exec c tr).isSome := by
  induction tr generalizing c with
  | nil => simp [Cells.run, exec]
  | cons op rest ih =>
    simp only [Cells.run, exec]
    cases h : Cells.step c op with
    | none => simp
    | some p =>
      obtain ⟨c1, o⟩ := p
      simp only
      have := ih c1
      cases h2 : Cells.run c1 rest with
      | none => simp [h2] at this ⊢; exact this
      | some q => simp [h2] at this ⊢; exact this

theorem exec_append (c : CSt) (a b : List Op) : exec c (a ++ b) = (exec c a).bind (fun c' => exec c' b) := by
  induction a generalizing c with
  | nil => simp [exec]
  | cons op rest ih =>
    simp only [List.cons_append, exec]
    cases h : Cells.step c op with
    | none => simp
    | some p => simp [ih]

/-- well-formedness of a cell state: names and captures point into the heap, two names never share a cell -/
structure CWf (c : CSt) : Prop where
  reg  : ∀ r cell, c.regCell r = some cell → cell < c.cells.length
  cap  : ∀ cell ∈ c.caps, cell < c.cells.length
  capd : ∀ cell ∈ c.captured, cell < c.cells.length
  inj  : ∀ r1 r2 cell, c.regCell r1 = some cell → c.regCell r2 = some cell → r1 = r2

theorem cwf_init : CWf CSt.init := by
  constructor <;> simp [CSt.init]

/-- meaning of a scan state: the registers in `lv` name a live variable instance; a register outside `d` names
    no instance that a closure refers to -/
structure Gam (s : AState) (c : CSt) : Prop where
  live  : ∀ r ∈ s.lv, ∃ cell, c.regCell r = some cell
  clean : ∀ r, r ∉ s.d → ∀ cell, c.regCell r = some cell → cell ∉ c.captured

theorem subList_iff (a b : List Nat) : subList a b = true ↔ ∀ x ∈ a, x ∈ b := by
  simp [subList, List.all_eq_true]

theorem le_iff (s τ : AState) : s.le τ = true ↔ (∀ x ∈ τ.lv, x ∈ s.lv) ∧ (∀ x ∈ s.d, x ∈ τ.d) := by
  simp [AState.le, subList_iff]

theorem le_refl (s : AState) : s.le s = true := by simp [le_iff]

theorem gam_weaken {s τ : AState} {c : CSt} (h : s.le τ = true) (g : Gam s c) : Gam τ c := by
  rw [le_iff] at h
  exact ⟨fun r hr => g.live r (h.1 r hr), fun r hr => g.clean r (fun hd => hr (h.2 r hd))⟩

/-! ### one request at a time -/

theorem step_declare {s : AState} {c : CSt} (r : Nat) (v : OVal) (hw : CWf c) (hg : Gam s c) (hr : r ∉ s.d) :
    ∃ c', Cells.step c (.declare r v) = some (c', none) ∧ CWf c' ∧ Gam (s.declare r) c' ∧ c'.caps = c.caps := by
  let fresh : CSt := { c with cells := c.cells ++ [v],
                              regCell := fun x => if x = r then some c.cells.length else c.regCell x }
  have hstep : Cells.step c (.declare r v) = some (fresh, none) := by
    simp only [Cells.step]
    cases hc : c.regCell r with
    | none => rfl
    | some cell =>
      have := hg.clean r hr cell hc
      simp [this, fresh]
  refine ⟨fresh, hstep, ?_, ?_, rfl⟩
  · constructor
    · intro x cell hx
      simp only [fresh] at hx ⊢
      split at hx
      · cases hx; simp
      · have := hw.reg x cell hx; simp; omega
    · intro cell hc; have := hw.cap cell hc; simp [fresh]; omega
    · intro cell hc; have := hw.capd cell hc; simp [fresh]; omega
    · intro r1 r2 cell h1 h2
      simp only [fresh] at h1 h2
      split at h1 <;> split at h2
      · omega
      · cases h1; have := hw.reg r2 _ h2; omega
      · cases h2; have := hw.reg r1 _ h1; omega
      · exact hw.inj r1 r2 cell h1 h2
  · constructor
    · intro x hx
      simp only [AState.declare, List.mem_cons] at hx
      by_cases hxr : x = r
      · exact ⟨c.cells.length, by simp [fresh, hxr]⟩
      · obtain ⟨cell, hc⟩ := hg.live x (hx.resolve_left hxr)
        exact ⟨cell, by simp [fresh, hxr, hc]⟩
    · intro x hx cell hc
      simp only [AState.declare] at hx
      simp only [fresh] at hc ⊢
      split at hc
      · cases hc; intro hin; have := hw.capd _ hin; omega
      · exact hg.clean x hx cell hc

theorem step_write {s : AState} {c : CSt} (r : Nat) (v : OVal) (hw : CWf c) (hg : Gam s c) (hr : r ∈ s.lv) :
    ∃ c', Cells.step c (.write r v) = some (c', none) ∧ CWf c' ∧ Gam s c' ∧ c'.caps = c.caps := by
  obtain ⟨cell, hc⟩ := hg.live r hr
  refine ⟨{ c with cells := c.cells.set cell v }, by simp [Cells.step, hc], ?_, ?_, rfl⟩
  · constructor
    · intro x cl hx; simpa using hw.reg x cl hx
    · intro cl hx; simpa using hw.cap cl hx
    · intro cl hx; simpa using hw.capd cl hx
    · exact hw.inj
  · exact ⟨hg.live, hg.clean⟩

theorem step_read {s : AState} {c : CSt} (r : Nat) (hw : CWf c) (hg : Gam s c) (hr : r ∈ s.lv) :
    ∃ o, Cells.step c (.read r) = some (c, o) := by
  obtain ⟨cell, hc⟩ := hg.live r hr
  have := hw.reg r cell hc
  exact ⟨some c.cells[cell], by simp [Cells.step, hc, this]⟩

theorem step_capture {s : AState} {c : CSt} (r : Nat) (hw : CWf c) (hg : Gam s c) (hr : r ∈ s.lv) :
    ∃ c', Cells.step c (.capture r) = some (c', none) ∧ CWf c' ∧ Gam { s with d := r :: s.d } c' ∧
      c'.caps.length = c.caps.length + 1 := by
  obtain ⟨cell, hc⟩ := hg.live r hr
  refine ⟨{ c with captured := cell :: c.captured, caps := c.caps ++ [cell] }, by simp [Cells.step, hc], ?_, ?_, by simp⟩
  · constructor
    · exact hw.reg
    · intro cl hx
      simp only [List.mem_append, List.mem_singleton] at hx
      rcases hx with hx | hx
      · exact hw.cap cl hx
      · subst hx; exact hw.reg r _ hc
    · intro cl hx
      simp only [List.mem_cons] at hx
      rcases hx with hx | hx
      · subst hx; exact hw.reg r _ hc
      · exact hw.capd cl hx
    · exact hw.inj
  · constructor
    · exact hg.live
    · intro x hx cl hcl
      simp only [List.mem_cons, not_or] at hx
      simp only [List.mem_cons, not_or]
      refine ⟨?_, hg.clean x hx.2 cl hcl⟩
      intro e; subst e
      exact hx.1 (hw.inj x r cl hcl hc)

theorem step_close {s : AState} {c : CSt} (k : Nat) (hw : CWf c) (hg : Gam s c) :
    ∃ c', Cells.step c (.close k) = some (c', none) ∧ CWf c' ∧ Gam (s.closeAt k) c' ∧ c'.caps = c.caps := by
  refine ⟨{ c with regCell := fun x => if k ≤ x then none else c.regCell x }, rfl, ?_, ?_, rfl⟩
  · constructor
    · intro x cl hx
      simp only at hx
      split at hx
      · cases hx
      · exact hw.reg x cl hx
    · exact hw.cap
    · exact hw.capd
    · intro r1 r2 cl h1 h2
      simp only at h1 h2
      split at h1
      · cases h1
      · split at h2
        · cases h2
        · exact hw.inj r1 r2 cl h1 h2
  · constructor
    · intro x hx
      simp only [AState.closeAt, List.mem_filter, decide_eq_true_eq] at hx
      obtain ⟨cell, hc⟩ := hg.live x hx.1
      exact ⟨cell, by simp [hc]; omega⟩
    · intro x hx cl hcl
      simp only at hcl
      split at hcl
      · cases hcl
      · rename_i hk
        simp only [AState.closeAt, List.mem_filter, decide_eq_true_eq, not_and] at hx
        exact hg.clean x (fun hd => hx hd (by omega)) cl hcl

theorem step_uvread {c : CSt} (i : Nat) (hw : CWf c) (hi : i < c.caps.length) :
    ∃ o, Cells.step c (.uvread i) = some (c, o) := by
  have h1 : c.caps[i]? = some c.caps[i] := by simp [hi]
  have := hw.cap c.caps[i] (List.getElem_mem hi)
  exact ⟨some c.cells[c.caps[i]], by simp [Cells.step, h1, this]⟩

theorem step_uvwrite {s : AState} {c : CSt} (i : Nat) (v : OVal) (hw : CWf c) (hg : Gam s c) (hi : i < c.caps.length) :
    ∃ c', Cells.step c (.uvwrite i v) = some (c', none) ∧ CWf c' ∧ Gam s c' ∧ c'.caps = c.caps := by
  have h1 : c.caps[i]? = some c.caps[i] := by simp [hi]
  refine ⟨{ c with cells := c.cells.set c.caps[i] v }, by simp [Cells.step, h1], ?_, ⟨hg.live, hg.clean⟩, rfl⟩
  constructor
  · intro x cl hx; simpa using hw.reg x cl hx
  · intro cl hx; simpa using hw.cap cl hx
  · intro cl hx; simpa using hw.capd cl hx
  · exact hw.inj

end GLua.CloseC
