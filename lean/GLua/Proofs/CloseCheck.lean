/-
  Soundness of the close-discipline checker against the abstract machine:
  on code accepted by `closeDiscipline`, every path emits a trace on which the cell semantics is defined.
-/
import GLua.Proofs.CloseCells

namespace GLua.CloseC
open GLua GLua.Cells

/-! ### lists of requests -/

theorem exec_reads {s : AState} {c : CSt} (hw : CWf c) (hg : Gam s c) :
    ∀ rs : List Nat, (∀ r ∈ rs, r ∈ s.lv) → exec c (rs.map .read) = some c
  | [], _ => rfl
  | r :: rest, h => by
    obtain ⟨o, ho⟩ := step_read r hw hg (h r (List.mem_cons_self ..))
    simp only [List.map_cons, exec, ho]
    exact exec_reads hw hg rest (fun x hx => h x (List.mem_cons_of_mem _ hx))

theorem exec_uvreads {c : CSt} (hw : CWf c) :
    ∀ l : List Nat, (∀ i ∈ l, i < c.caps.length) → exec c (l.map .uvread) = some c
  | [], _ => rfl
  | i :: rest, h => by
    obtain ⟨o, ho⟩ := step_uvread i hw (h i (List.mem_cons_self ..))
    simp only [List.map_cons, exec, ho]
    exact exec_uvreads hw rest (fun x hx => h x (List.mem_cons_of_mem _ hx))

theorem exec_uvwrites {s : AState} (v : OVal) :
    ∀ (l : List Nat) (c : CSt), CWf c → Gam s c → (∀ i ∈ l, i < c.caps.length) →
      ∃ c', exec c (l.map (fun i => .uvwrite i v)) = some c' ∧ CWf c' ∧ Gam s c' ∧ c'.caps = c.caps
  | [], c, hw, hg, _ => ⟨c, rfl, hw, hg, rfl⟩
  | i :: rest, c, hw, hg, h => by
    obtain ⟨c1, h1, hw1, hg1, hc1⟩ := step_uvwrite i v hw hg (h i (List.mem_cons_self ..))
    obtain ⟨c2, h2, hw2, hg2, hc2⟩ := exec_uvwrites v rest c1 hw1 hg1
      (fun x hx => by rw [hc1]; exact h x (List.mem_cons_of_mem _ hx))
    exact ⟨c2, by simp only [List.map_cons, exec, h1, h2], hw2, hg2, by rw [hc2, hc1]⟩

theorem exec_captures :
    ∀ (rs : List Nat) (s : AState) (c : CSt), CWf c → Gam s c → (∀ r ∈ rs, r ∈ s.lv) →
      ∃ c', exec c (rs.map .capture) = some c' ∧ CWf c' ∧ Gam { s with d := rs ++ s.d } c' ∧
        c'.caps.length = c.caps.length + rs.length
  | [], s, c, hw, hg, _ => ⟨c, rfl, hw, by simpa using hg, by simp⟩
  | r :: rest, s, c, hw, hg, h => by
    obtain ⟨c1, h1, hw1, hg1, hc1⟩ := step_capture r hw hg (h r (List.mem_cons_self ..))
    obtain ⟨c2, h2, hw2, hg2, hc2⟩ := exec_captures rest { s with d := r :: s.d } c1 hw1 hg1
      (fun x hx => h x (List.mem_cons_of_mem _ hx))
    refine ⟨c2, by simp only [List.map_cons, exec, h1, h2], hw2, ?_, by rw [hc2, hc1]; simp; omega⟩
    refine gam_weaken ?_ hg2
    rw [le_iff]
    refine ⟨fun x hx => hx, fun x hx => ?_⟩
    simp only [List.mem_append, List.mem_cons] at hx ⊢
    rcases hx with h | h | h <;> simp [h]

theorem exec_declares :
    ∀ (rs : List Nat) (s : AState) (c : CSt), CWf c → Gam s c → (∀ r ∈ rs, r ∉ s.d) →
      ∃ c', exec c (rs.map (fun r => .declare r none)) = some c' ∧ CWf c' ∧ Gam { s with lv := rs ++ s.lv } c' ∧
        c'.caps = c.caps
  | [], s, c, hw, hg, _ => ⟨c, rfl, hw, by simpa using hg, rfl⟩
  | r :: rest, s, c, hw, hg, h => by
    obtain ⟨c1, h1, hw1, hg1, hc1⟩ := step_declare r none hw hg (h r (List.mem_cons_self ..))
    obtain ⟨c2, h2, hw2, hg2, hc2⟩ := exec_declares rest (s.declare r) c1 hw1 hg1
      (fun x hx => h x (List.mem_cons_of_mem _ hx))
    refine ⟨c2, by simp only [List.map_cons, exec, h1, h2], hw2, ?_, by rw [hc2, hc1]⟩
    refine gam_weaken ?_ hg2
    rw [le_iff]
    refine ⟨fun x hx => ?_, fun x hx => hx⟩
    simp only [AState.declare, List.mem_append, List.mem_cons] at hx ⊢
    rcases hx with (h | h) | h <;> simp [h]

end GLua.CloseC
