/-
  compile_establishes_discipline, goto-free fragment: the two `for` loops.
-/
import GLua.Proofs.CloseIf

namespace GLua.CloseC
open GLua

/-- the block of a for loop with n registered names (three hidden control variables first) -/
def forBlock (fc : FC) (n : Nat) : Block :=
  { base := fc.regTop, nnames := n, hidden := 3, brk := some fc.labelId, firstGoto := fc.gotos.length }

/-- the named registers of a for block: the loop variables -/
def loopVars (fc : FC) (n : Nat) : List Nat := (List.range (n - 3)).map (fun i => fc.regTop + 3 + i)

/-- the state in which the body of a for loop is compiled -/
theorem for_enter {fc fcE : FC} {b : Stmt} {n : Nat} {X : List Nat} (hr : Rel fc)
    (ha : AllowedB fc.ltypes X fc.blocks) (hXlt : ∀ r ∈ X, r < fc.regTop)
    (hXsub : ∀ r ∈ (freeCaps (fc.regTop + n) b).1, r < fc.regTop → r ∈ X)
    (hbl : fcE.blocks = forBlock fc n :: fc.blocks) (htop : fcE.regTop = fc.regTop + n)
    (hE : Ext fc.ltypes fcE.ltypes) (hlk : lookupTy fcE.ltypes fc.labelId = some ⟨namedRegs fc.blocks, curD fc ++ X⟩)
    (hkeys : ∀ l t, (l, t) ∈ fcE.ltypes → l < fcE.labelId)
    (hcur : fcE.cur = some ⟨loopVars fc n ++ namedRegs fc.blocks, curD fc ++ X⟩) :
    Rel fcE ∧ AllowedB fcE.ltypes (freeCaps fcE.regTop b).1 fcE.blocks := by
  have hd := (Rel.dprops hr).ext hE
  have haE : AllowedB fcE.ltypes X fc.blocks := AllowedB.mono hE (fun _ h => h) (BExt.refl _) ha
  have hX : ∀ r ∈ X, r < topOf fc.blocks := fun r h => by rw [← hr.geo.top]; exact hXlt r h
  refine ⟨⟨⟨by rw [hbl]; simp, ?_, ?_, hkeys⟩, ?_⟩, ?_⟩
  · rw [hbl]
    cases hb : fc.blocks with
    | nil => exact absurd hb hr.geo.ne
    | cons b0 rest0 =>
      have := hr.geo.top; rw [hb] at this
      have hc := hr.geo.chain; rw [hb] at hc
      exact ⟨this, hc⟩
  · rw [hbl, htop]; rfl
  · rw [hcur, hbl]
    refine body_good (extra := loopVars fc n) hr.geo.chain hd hX haE hr.geo.top rfl hlk (fun r h => h) (fun r h => h) ?_
    intro r hr'
    simp only [namedRegs, forBlock, List.mem_append] at hr' ⊢
    rcases hr' with h | h
    · exact Or.inr h
    · exact Or.inl h
  · rw [hbl, htop]
    refine ⟨fun l hl => ?_, ?_⟩
    · simp only [forBlock, Option.some.injEq] at hl
      subst hl
      exact ⟨_, hlk, fun r hr' hlt => List.mem_append.mpr (Or.inr (hXsub r hr' hlt))⟩
    · refine AllowedB.unfilter fc.regTop hr.geo.chain (Nat.le_of_eq hr.geo.top.symm) ?_
      refine AllowedB.mono (Ext.refl _) (fun r hr' => ?_) (BExt.refl _) haE
      simp only [List.mem_filter, decide_eq_true_eq] at hr'
      exact hXsub r hr'.1 hr'.2

/-- leaving the body of a loop -/
theorem loop_leave {fc fcE fc2 : FC} {b : Stmt} {nb : Block} (hr : Rel fc) (p : Post fcE b fc2)
    (hbl : fcE.blocks = nb :: fc.blocks) (hg2 : fc2.gotos = []) :
    ∃ b2 p2 rest2, fc2.blocks = b2 :: p2 :: rest2 ∧ b2.base = nb.base ∧ b2.brk = nb.brk ∧ TExt fc.blocks (p2 :: rest2) ∧
      fc2.leaveBlock = .ok (if b2.ref then some b2.base else none, fc2.popped b2 p2 rest2) := by
  obtain ⟨b2, p2, rest2, hb2, hbase, hbrk, htext⟩ := body_blocks p.bext hbl hr.geo.ne
  exact ⟨b2, p2, rest2, hb2, hbase, hbrk, htext, leaveBlock_spec hb2 p.rel.geo.chain hg2⟩

/-- at the end of a loop body (behind the CLOSE of LeaveBlock) control may pass to a label typed like the loop -/
theorem loop_back_le {fc fcE fc2 : FC} {b : Stmt} {b2 p2 : Block} {rest2 : List Block} {X : List Nat} {l : Nat}
    (p : Post fcE b fc2) (hb2 : fc2.blocks = b2 :: p2 :: rest2) (hbrk : b2.brk = some l)
    (htext : TExt fc.blocks (p2 :: rest2)) (hbase : b2.base = fc.regTop)
    (hcurE : curD fcE = curD fc ++ X) (hXsub : ∀ r ∈ (freeCaps fcE.regTop b).1, r < fc.regTop → r ∈ X) :
    ∀ s, closeCur fc2.cur b2 = some s → s.le ⟨namedRegs fc.blocks, curD fc ++ X⟩ = true := by
  intro s hs
  cases hc2 : fc2.cur with
  | none => rw [hc2, closeCur_none] at hs; cases hs
  | some s2 =>
    rw [hc2, closeCur_some] at hs
    cases hs
    have hgd2 : Good fc2.ltypes fc2.blocks s2 := by have := p.rel.good; rw [hc2] at this; exact this
    have hch2 := p.rel.geo.chain
    rw [hb2] at hgd2 hch2
    refine body_end_le hch2 hbrk hgd2 (fun r hr' => by rw [htext.named]; exact hr') (fun r hr' hlt => ?_)
    rcases p.prov r (by simpa [curD, hc2] using hr') with h3 | h3
    · rw [hcurE] at h3; exact h3
    · exact List.mem_append.mpr (Or.inr (hXsub r h3 (by omega)))

/-- the registers the loop captures below it are flagged once the body is compiled -/
theorem loop_flags {fcE fc2 : FC} {b : Stmt} {b2 p2 : Block} {rest2 : List Block} {X : List Nat} {t : Nat}
    (p : Post fcE b fc2) (hb2 : fc2.blocks = b2 :: p2 :: rest2) (hbase : b2.base = t)
    (hX : ∀ r ∈ X, r ∈ (freeCaps fcE.regTop b).1 ∧ r < t) : ∀ r ∈ X, ownerFlag (p2 :: rest2) r = true := by
  intro r hr'
  have := p.flag r (hX r hr').1
  rw [hb2, ownerFlag_lt_base (by have := (hX r hr').2; omega)] at this
  exact this

/-! ### numeric for -/

def numForEnter (fc : FC) (b : Stmt) : FC :=
  let τ := fc.loopTy (.numFor b)
  let fc1 := (fc.newLabel τ).2
  let fc2 : FC := { fc1 with blocks := forBlock fc 3 :: fc.blocks, regTop := fc.regTop + 3 }
  let fc3 := ((fc2.newLabel τ).2.newLabel { τ with lv := (fc.regTop + 3) :: τ.lv }).2
  let fc4 := (fc3.emit .other).emit (.forprep (fc.labelId + 1))
  let fc5 : FC := { fc4 with blocks := forBlock fc 4 :: fc.blocks, regTop := fc.regTop + 4 }
  fc5.emit (.lbl (fc.labelId + 2))

theorem compile_numFor_eq (fc : FC) (b : Stmt) (tail : Bool) (rest : Stmt) :
    compileChunk fc (.numFor b) tail rest = (do
      let fc2 ← compileChunk (numForEnter fc b) b true .skip
      let (_, fc3) ← fc2.leaveBlock
      .ok (((fc3.emit (.lbl (fc.labelId + 1))).emit (.forloop fc.regTop (fc.labelId + 2))).emit (.lbl fc.labelId))) := by
  simp only [compileChunk]
  rfl

/-- three fresh labels -/
theorem three_labels (Λ : List (Nat × AState)) (L : Nat) (τ1 τ2 τ3 : AState) (hk : ∀ l t, (l, t) ∈ Λ → l < L) :
    let Λ' := Λ ++ [(L, τ1)] ++ [(L + 1, τ2)] ++ [(L + 2, τ3)]
    lookupTy Λ' L = some τ1 ∧ lookupTy Λ' (L + 1) = some τ2 ∧ lookupTy Λ' (L + 2) = some τ3 ∧
      (∀ l t, (l, t) ∈ Λ' → l < L + 3) ∧ Ext Λ Λ' := by
  intro Λ'
  have h1 : lookupTy (Λ ++ [(L, τ1)]) L = some τ1 := lookupTy_append_new (fun k t hm => by have := hk k t hm; omega)
  have hk1 : ∀ l t, (l, t) ∈ Λ ++ [(L, τ1)] → l < L + 1 := by
    intro l t hm
    simp only [List.mem_append, List.mem_singleton, Prod.mk.injEq] at hm
    rcases hm with hm | ⟨rfl, _⟩
    · have := hk l t hm; omega
    · omega
  have h2 : lookupTy (Λ ++ [(L, τ1)] ++ [(L + 1, τ2)]) (L + 1) = some τ2 :=
    lookupTy_append_new (fun k t hm => by have := hk1 k t hm; omega)
  have hk2 : ∀ l t, (l, t) ∈ Λ ++ [(L, τ1)] ++ [(L + 1, τ2)] → l < L + 2 := by
    intro l t hm
    rw [List.mem_append] at hm
    rcases hm with hm | hm
    · have := hk1 l t hm; omega
    · simp only [List.mem_singleton, Prod.mk.injEq] at hm; omega
  have h3 : lookupTy Λ' (L + 2) = some τ3 := lookupTy_append_new (fun k t hm => by have := hk2 k t hm; omega)
  refine ⟨lookupTy_append_left (lookupTy_append_left h1), lookupTy_append_left h2, h3, ?_, ?_⟩
  · intro l t hm
    rw [List.mem_append] at hm
    rcases hm with hm | hm
    · have := hk2 l t hm; omega
    · simp only [List.mem_singleton, Prod.mk.injEq] at hm; omega
  · exact Ext.trans (ext_append _ _) (Ext.trans (ext_append _ _) (ext_append _ _))

theorem scan_other (Λ : List (Nat × AState)) (gs : List GotoDesc) (σ : Option AState) :
    scanStep Λ gs σ .other = some σ := by cases σ <;> rfl

theorem scan_forprep {Λ : List (Nat × AState)} (gs : List GotoDesc) {σ : Option AState} {l : Nat} {τ : AState}
    (hτ : lookupTy Λ l = some τ) (hle : ∀ s, σ = some s → s.le τ = true) :
    scanStep Λ gs σ (.forprep l) = some none := by
  cases σ with
  | none => rfl
  | some s => simp [scanStep, scanItem, hτ, hle s rfl]

/-- facts about the state in which the body of a numeric for is compiled -/
structure NumForEnter (fc : FC) (b : Stmt) (fcE : FC) : Prop where
  rel    : Rel fcE
  adv    : Adv fc fcE
  blocks : fcE.blocks = forBlock fc 4 :: fc.blocks
  top    : fcE.regTop = fc.regTop + 4
  curd   : curD fcE = curD fc ++ (freeCaps fc.regTop (.numFor b)).1
  lkE    : lookupTy fcE.ltypes fc.labelId = some (fc.loopTy (.numFor b))
  lkF    : lookupTy fcE.ltypes (fc.labelId + 1) = some (fc.loopTy (.numFor b))
  lkB    : lookupTy fcE.ltypes (fc.labelId + 2) =
             some { fc.loopTy (.numFor b) with lv := (fc.regTop + 3) :: (fc.loopTy (.numFor b)).lv }
  allow  : AllowedB fcE.ltypes (freeCaps fcE.regTop b).1 fcE.blocks

theorem numFor_enter {fc : FC} {b : Stmt} (hr : Rel fc)
    (ha : AllowedB fc.ltypes (freeCaps fc.regTop (.numFor b)).1 fc.blocks) : NumForEnter fc b (numForEnter fc b) := by
  let τ := fc.loopTy (.numFor b)
  let τb : AState := { τ with lv := (fc.regTop + 3) :: τ.lv }
  obtain ⟨hlE, hlF, hlB, hkeys, hext⟩ := three_labels fc.ltypes fc.labelId τ τ τb hr.geo.keys
  have hlt : (numForEnter fc b).ltypes = fc.ltypes ++ [(fc.labelId, τ)] ++ [(fc.labelId + 1, τ)] ++ [(fc.labelId + 2, τb)] := rfl
  have hcur : (numForEnter fc b).cur = some τb := by
    show (scanStep _ _ _ (.lbl (fc.labelId + 2))).getD none = some τb
    have hnone : ∀ (Λ : List (Nat × AState)) (gs : List GotoDesc) (σ : Option AState) (l : Nat),
        (scanStep Λ gs σ (.forprep l)).getD none = none := by
      intro Λ gs σ l
      cases σ with
      | none => rfl
      | some s =>
        simp only [scanStep, scanItem]
        split
        · split <;> rfl
        · rfl
    have : ∀ (Λ : List (Nat × AState)) (gs : List GotoDesc), lookupTy Λ (fc.labelId + 2) = some τb →
        (scanStep Λ gs none (.lbl (fc.labelId + 2))).getD none = some τb := by
      intro Λ gs h; simp [scanStep, h]
    simp only [FC.emit, hnone]
    exact this _ _ hlB
  have hX : ∀ r ∈ (freeCaps fc.regTop (.numFor b)).1, r < fc.regTop := fun r hr' => by
    simp only [freeCaps, List.mem_filter, decide_eq_true_eq] at hr'; exact hr'.2
  have hcur' : (numForEnter fc b).cur =
      some ⟨loopVars fc 4 ++ namedRegs fc.blocks, curD fc ++ (freeCaps fc.regTop (.numFor b)).1⟩ := by
    rw [hcur]; rfl
  obtain ⟨hrel, hallow⟩ := for_enter (b := b) (n := 4) hr ha hX
    (fun r hr' hlt' => by simp only [freeCaps, List.mem_filter, decide_eq_true_eq]; exact ⟨hr', hlt'⟩)
    rfl rfl (by rw [hlt]; exact hext) (by rw [hlt]; exact hlE) (by rw [hlt]; exact hkeys) hcur'
  refine ⟨hrel, ?_, rfl, rfl, by simp [curD, hcur]; rfl, by rw [hlt]; exact hlE, by rw [hlt]; exact hlF,
    by rw [hlt]; exact hlB, hallow⟩
  refine ⟨⟨[.other, .forprep (fc.labelId + 1), .lbl (fc.labelId + 2)], by simp [numForEnter, FC.emit, FC.newLabel], ?_⟩,
    ⟨[(fc.labelId, τ)] ++ ([(fc.labelId + 1, τ)] ++ [(fc.labelId + 2, τb)]), by rw [hlt]; simp only [List.append_assoc]⟩,
    rfl, by show fc.labelId ≤ fc.labelId + 3; omega⟩
  intro Λ hΛ
  rw [hcur]
  have e1 := hΛ _ _ (by rw [hlt]; exact hlF)
  have e2 := hΛ _ _ (by rw [hlt]; exact hlB)
  simp only [scan, scan_other, scan_forprep _ e1 (fun s hs => entry_le hr hs _)]
  simp [scanStep, e2]

theorem scan_forloop {Λ : List (Nat × AState)} (gs : List GotoDesc) {τ τb : AState} {a l : Nat}
    (hτ : lookupTy Λ l = some τb) (h1 : a + 3 ∉ τ.d) (h2 : (τ.declare (a + 3)).le τb = true) :
    scanStep Λ gs (some τ) (.forloop a l) = some (some τ) := by
  simp [scanStep, scanItem, hτ, h1, h2]

theorem post_numFor {b : Stmt} (ih : IH b) : IH (.numFor b) := by
  intro fc tail rest fc' hr hg ha h
  rw [compile_numFor_eq] at h
  simp only [bind, Except.bind] at h
  have we := numFor_enter (b := b) hr ha
  cases h1 : compileChunk (numForEnter fc b) b true .skip with
  | error e => simp [h1] at h
  | ok fc2 =>
    simp only [h1] at h
    have hgE : (numForEnter fc b).gotos = [] := by rw [we.adv.gotos, hg]
    have p := ih _ _ _ fc2 we.rel hgE we.allow h1
    have hg2 : fc2.gotos = [] := p.gotos hgE
    obtain ⟨b2, p2, rest2, hb2, hbase, hbrk, htext, hleave⟩ := loop_leave hr p we.blocks hg2
    simp only [forBlock] at hbase hbrk
    rw [hleave] at h
    simp only [Except.ok.injEq] at h
    let τ := fc.loopTy (.numFor b)
    have hext2 : Ext (numForEnter fc b).ltypes fc2.ltypes := p.adv.ext
    have hadv3 := popped_adv (fc := fc2) b2 p2 rest2 hg2
    have hgeo3 := popped_geo p.rel.geo hb2
    have hX : ∀ r ∈ (freeCaps fc.regTop (.numFor b)).1, r < fc.regTop := fun r hr' => by
      simp only [freeCaps, List.mem_filter, decide_eq_true_eq] at hr'; exact hr'.2
    have hXsub : ∀ r ∈ (freeCaps (numForEnter fc b).regTop b).1, r < fc.regTop → r ∈ (freeCaps fc.regTop (.numFor b)).1 := by
      intro r hr' hlt
      rw [we.top] at hr'
      simp only [freeCaps, List.mem_filter, decide_eq_true_eq]; exact ⟨hr', hlt⟩
    have hflag := loop_flags (X := (freeCaps fc.regTop (.numFor b)).1) p hb2 hbase (fun r hr' => by
      simp only [freeCaps, List.mem_filter, decide_eq_true_eq] at hr'
      rw [we.top]; exact hr')
    have hextall : Ext fc.ltypes fc2.ltypes := Ext.trans we.adv.ext hext2
    -- lbl fllabel
    obtain ⟨hrelF, hadvF, hcurF⟩ := rel_at_label (fc1 := fc2.popped b2 p2 rest2) hr hgeo3 (by simpa using htext)
      (by simpa using hextall) _ hX ha (by simpa using hflag) (fc.labelId + 1)
      (by simp only [popped_ltypes]; exact hext2 _ _ we.lkF)
      (by rw [popped_cur]; exact loop_back_le p hb2 hbrk htext hbase we.curd hXsub)
    -- forloop
    have hscanL : scanStep ((fc2.popped b2 p2 rest2).emit (.lbl (fc.labelId + 1))).ltypes
        ((fc2.popped b2 p2 rest2).emit (.lbl (fc.labelId + 1))).gotos
        ((fc2.popped b2 p2 rest2).emit (.lbl (fc.labelId + 1))).cur (.forloop fc.regTop (fc.labelId + 2)) = some (some τ) := by
      rw [hcurF]
      refine scan_forloop _ (by simp only [emit_ltypes, popped_ltypes]; exact hext2 _ _ we.lkB) ?_ ?_
      · intro hm
        have hgd := hrelF.good
        rw [hcurF] at hgd
        have := Good.i1 hgd _ hm
        simp only [emit_blocks, popped_blocks] at this
        rw [htext.topOf, ← hr.geo.top] at this
        omega
      · exact le_refl _
    obtain ⟨hadvL, hcurL⟩ := emit_adv _ _ hscanL
    -- lbl endlabel
    have hscanN : scanStep (((fc2.popped b2 p2 rest2).emit (.lbl (fc.labelId + 1))).emit (.forloop fc.regTop (fc.labelId + 2))).ltypes
        (((fc2.popped b2 p2 rest2).emit (.lbl (fc.labelId + 1))).emit (.forloop fc.regTop (fc.labelId + 2))).gotos
        (((fc2.popped b2 p2 rest2).emit (.lbl (fc.labelId + 1))).emit (.forloop fc.regTop (fc.labelId + 2))).cur
        (.lbl fc.labelId) = some (some τ) := by
      rw [hcurL]
      exact scan_lbl _ (by simp only [emit_ltypes, popped_ltypes]; exact hext2 _ _ we.lkE)
        (fun s hs => by cases hs; exact le_refl _)
    obtain ⟨hadvN, hcurN⟩ := emit_adv _ _ hscanN
    subst h
    refine ⟨⟨⟨hgeo3.ne, hgeo3.chain, hgeo3.top, hgeo3.keys⟩, ?_⟩, ?_, ?_, ?_, ?_, ?_⟩
    · rw [hcurN]
      have := hrelF.good
      rw [hcurF] at this
      exact this
    · exact ((we.adv.trans p.adv).trans hadv3).trans ((hadvF.trans hadvL).trans hadvN)
    · simp only [emit_blocks, popped_blocks]; exact htext.toBExt
    · simp only [emit_regTop, popped_regTop, freeCaps]; exact hbase
    · intro r hr'
      unfold curD at hr'
      rw [hcurN] at hr'
      exact List.mem_append.mp hr'
    · intro r hr'
      simp only [emit_blocks, popped_blocks]
      exact hflag r hr'

end GLua.CloseC
