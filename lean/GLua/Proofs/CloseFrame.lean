/-
  How the compiler state moves: the frame relation on block stacks (names are only added to the current block,
  RefUpvalue flags only rise), code only grows and the grown part scans (`Adv`), and what each primitive of
  funcContext leaves unchanged.
-/
import GLua.Proofs.CloseInv

namespace GLua.CloseC
open GLua

/-! ### frame relation -/

/-- same blocks, some RefUpvalue flags may have been set -/
def TExt : List Block → List Block → Prop
  | [], [] => True
  | b :: r, b' :: r' =>
    b'.base = b.base ∧ b'.nnames = b.nnames ∧ b'.hidden = b.hidden ∧ b'.brk = b.brk ∧ (b.ref = true → b'.ref = true) ∧ TExt r r'
  | _, _ => False

/-- the current block may also have got more names -/
def BExt : List Block → List Block → Prop
  | [], [] => True
  | b :: r, b' :: r' =>
    b'.base = b.base ∧ b.nnames ≤ b'.nnames ∧ b'.hidden = b.hidden ∧ b'.brk = b.brk ∧ (b.ref = true → b'.ref = true) ∧ TExt r r'
  | _, _ => False

theorem TExt.refl : ∀ bs : List Block, TExt bs bs
  | [] => trivial
  | _ :: r => ⟨rfl, rfl, rfl, rfl, id, TExt.refl r⟩

theorem TExt.trans : ∀ {a b c : List Block}, TExt a b → TExt b c → TExt a c
  | [], [], [], _, _ => trivial
  | _ :: _, _ :: _, _ :: _, h1, h2 =>
    ⟨h2.1.trans h1.1, h2.2.1.trans h1.2.1, h2.2.2.1.trans h1.2.2.1, h2.2.2.2.1.trans h1.2.2.2.1,
     fun h => h2.2.2.2.2.1 (h1.2.2.2.2.1 h), TExt.trans h1.2.2.2.2.2 h2.2.2.2.2.2⟩
  | [], [], _ :: _, _, h2 => h2.elim
  | [], _ :: _, _, h1, _ => h1.elim
  | _ :: _, [], _, h1, _ => h1.elim
  | _ :: _, _ :: _, [], _, h2 => h2.elim

theorem TExt.toBExt : ∀ {a b : List Block}, TExt a b → BExt a b
  | [], [], _ => trivial
  | _ :: _, _ :: _, h => ⟨h.1, Nat.le_of_eq h.2.1.symm, h.2.2.1, h.2.2.2.1, h.2.2.2.2.1, h.2.2.2.2.2⟩
  | [], _ :: _, h => h.elim
  | _ :: _, [], h => h.elim

theorem BExt.refl (bs : List Block) : BExt bs bs := (TExt.refl bs).toBExt

theorem BExt.trans : ∀ {a b c : List Block}, BExt a b → BExt b c → BExt a c
  | [], [], [], _, _ => trivial
  | _ :: _, _ :: _, _ :: _, h1, h2 =>
    ⟨h2.1.trans h1.1, Nat.le_trans h1.2.1 h2.2.1, h2.2.2.1.trans h1.2.2.1, h2.2.2.2.1.trans h1.2.2.2.1,
     fun h => h2.2.2.2.2.1 (h1.2.2.2.2.1 h), TExt.trans h1.2.2.2.2.2 h2.2.2.2.2.2⟩
  | [], [], _ :: _, _, h2 => h2.elim
  | [], _ :: _, _, h1, _ => h1.elim
  | _ :: _, [], _, h1, _ => h1.elim
  | _ :: _, _ :: _, [], _, h2 => h2.elim

theorem TExt.named : ∀ {a b : List Block}, TExt a b → namedRegs b = namedRegs a
  | [], [], _ => rfl
  | _ :: _, _ :: _, h => by
    simp only [namedRegs, h.1, h.2.1, h.2.2.1, TExt.named h.2.2.2.2.2]
  | [], _ :: _, h => h.elim
  | _ :: _, [], h => h.elim

theorem TExt.topOf : ∀ {a b : List Block}, TExt a b → topOf b = topOf a
  | [], [], _ => rfl
  | _ :: _, _ :: _, h => by simp only [GLua.CloseC.topOf, h.1, h.2.1]
  | [], _ :: _, h => h.elim
  | _ :: _, [], h => h.elim

theorem TExt.chain : ∀ {a b : List Block}, TExt a b → Chain a → Chain b
  | [], [], _, _ => trivial
  | [x], [y], h, hc => by
    have : x.base = 0 := hc
    show y.base = 0
    rw [h.1]; exact this
  | x :: p :: r, y :: q :: r', h, hc => by
    have h2 := h.2.2.2.2.2
    refine ⟨?_, TExt.chain h2 hc.2⟩
    rw [h.1, h2.1, h2.2.1]; exact hc.1
  | [], _ :: _, h, _ => h.elim
  | _ :: _, [], h, _ => h.elim
  | [_], _ :: _ :: _, h, _ => h.2.2.2.2.2.elim
  | _ :: _ :: _, [_], h, _ => h.2.2.2.2.2.elim

theorem TExt.loopBase : ∀ {a b : List Block}, TExt a b → loopBase b = loopBase a
  | [], [], _ => rfl
  | _ :: _, _ :: _, h => by
    simp only [GLua.CloseC.loopBase, h.1, h.2.2.2.1, TExt.loopBase h.2.2.2.2.2]
  | [], _ :: _, h => h.elim
  | _ :: _, [], h => h.elim

theorem TExt.ownerFlag : ∀ {a b : List Block}, TExt a b → ∀ r, ownerFlag a r = true → ownerFlag b r = true
  | [], [], _, _, h => h
  | x :: _, y :: _, h, r, hr => by
    simp only [GLua.CloseC.ownerFlag, h.1, h.2.1] at hr ⊢
    split
    · rename_i hc; simp only [hc, if_true] at hr; exact h.2.2.2.2.1 hr
    · rename_i hc; simp only [hc] at hr; exact TExt.ownerFlag h.2.2.2.2.2 r hr
  | [], _ :: _, h, _, _ => h.elim
  | _ :: _, [], h, _, _ => h.elim

theorem TExt.loopsOK {Λ : List (Nat × AState)} {D : List Nat} : ∀ {a b : List Block}, TExt a b → LoopsOK Λ D a → LoopsOK Λ D b
  | [], [], _, _ => trivial
  | _ :: _, _ :: _, h, hl => by
    refine ⟨fun l hb => ?_, TExt.loopsOK h.2.2.2.2.2 hl.2⟩
    obtain ⟨τ, h1, h2, h3⟩ := hl.1 l (by rw [← h.2.2.2.1]; exact hb)
    exact ⟨τ, h1, by rw [TExt.named h.2.2.2.2.2]; exact h2, by rw [h.1]; exact h3⟩
  | [], _ :: _, h, _ => h.elim
  | _ :: _, [], h, _ => h.elim

theorem TExt.good {Λ Λ' : List (Nat × AState)} {a b : List Block} {s : AState} (h : TExt a b) (hE : Ext Λ Λ')
    (hg : Good Λ a s) : Good Λ' b s :=
  ⟨by rw [h.named]; exact hg.lv, by rw [h.topOf]; exact hg.i1,
   fun r hr hb => h.ownerFlag r (hg.i2 r hr (by rw [← h.loopBase]; exact hb)),
   h.loopsOK (loopsOK_mono hE (fun _ hr => hr) hg.i3)⟩

theorem TExt.goodO {Λ Λ' : List (Nat × AState)} {a b : List Block} {σ : Option AState} (h : TExt a b) (hE : Ext Λ Λ')
    (hg : GoodO Λ a σ) : GoodO Λ' b σ := by
  cases σ with
  | none => exact h.loopsOK (loopsOK_mono hE (fun _ hr => hr) hg)
  | some s => exact h.good hE hg

/-! facts about `BExt` -/

theorem BExt.tail {x y : Block} {r r' : List Block} (h : BExt (x :: r) (y :: r')) : TExt r r' := h.2.2.2.2.2

theorem BExt.named_sub : ∀ {a b : List Block}, BExt a b → ∀ r ∈ namedRegs a, r ∈ namedRegs b
  | [], [], _, _, h => h
  | x :: _, y :: _, h, r, hr => by
    simp only [namedRegs, List.mem_append, List.mem_map, List.mem_range] at hr ⊢
    rcases hr with hr | ⟨i, hi, rfl⟩
    · left; rw [TExt.named h.tail]; exact hr
    · right; exact ⟨i, by have := h.2.1; have := h.2.2.1; omega, by rw [h.1, h.2.2.1]⟩
  | [], _ :: _, h, _, _ => h.elim
  | _ :: _, [], h, _, _ => h.elim

theorem BExt.loopBase : ∀ {a b : List Block}, BExt a b → loopBase b = loopBase a
  | [], [], _ => rfl
  | _ :: _, _ :: _, h => by
    simp only [GLua.CloseC.loopBase, h.1, h.2.2.2.1, TExt.loopBase h.tail]
  | [], _ :: _, h => h.elim
  | _ :: _, [], h => h.elim

theorem ownerFlag_true_lt {bs : List Block} (hc : Chain bs) {r : Nat} (h : ownerFlag bs r = true) : r < topOf bs := by
  by_cases hlt : r < topOf bs
  · exact hlt
  · have := ownerFlag_ge_top hc r (by omega)
    rw [this] at h; cases h

theorem BExt.ownerFlag : ∀ {a b : List Block}, BExt a b → Chain a → ∀ r, ownerFlag a r = true → ownerFlag b r = true
  | [], [], _, _, _, h => h
  | x :: xs, y :: _, h, hch, r, hr => by
    simp only [GLua.CloseC.ownerFlag] at hr ⊢
    by_cases hc : (x.base ≤ r && r < x.base + x.nnames) = true
    · simp only [hc, if_true] at hr
      have hc' : (y.base ≤ r && r < y.base + y.nnames) = true := by
        simp only [Bool.and_eq_true, decide_eq_true_eq] at hc ⊢
        have := h.1; have := h.2.1; omega
      simp only [hc', if_true]; exact h.2.2.2.2.1 hr
    · simp only [hc] at hr
      have hlt := ownerFlag_true_lt (chain_tail hch) hr
      have hb := chain_base hch
      have hc' : ¬ ((y.base ≤ r && r < y.base + y.nnames) = true) := by
        simp only [Bool.and_eq_true, decide_eq_true_eq]
        have := h.1; omega
      simp only [hc']
      exact TExt.ownerFlag h.tail r hr
  | [], _ :: _, h, _, _, _ => h.elim
  | _ :: _, [], h, _, _, _ => h.elim

end GLua.CloseC
