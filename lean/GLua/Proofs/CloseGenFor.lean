/-
  compile_establishes_discipline, goto-free fragment: the generic `for`.
-/
import GLua.Proofs.CloseFor

namespace GLua.CloseC
open GLua

theorem registerN_spec : ∀ (n : Nat) (fc : FC) (b : Block) (rest : List Block), fc.blocks = b :: rest →
    registerN n fc = .ok { fc with blocks := { b with nnames := b.nnames + n } :: rest, regTop := fc.regTop + n }
  | 0, fc, b, rest, h => by
    simp only [registerN, Nat.add_zero]
    cases fc
    simp only at h
    simp [h]
  | n + 1, fc, b, rest, h => by
    simp only [registerN, FC.registerLocalVar, h, bind, Except.bind]
    rw [registerN_spec n _ { b with nnames := b.nnames + 1 } rest rfl]
    simp only [Except.ok.injEq]
    congr 1
    · simp only [Nat.add_assoc, Nat.add_comm 1 n]
    · simp only [Nat.add_assoc, Nat.add_comm 1 n]

def genForPre (fc : FC) (n : Nat) (b : Stmt) : FC :=
  let τ := fc.loopTy (.genFor n b)
  let fc1 := ((fc.newLabel τ).2.newLabel τ).2
  let fc2 : FC := { fc1 with blocks := forBlock fc 3 :: fc.blocks, regTop := fc.regTop + 3 }
  let fc3 := (fc2.newLabel { τ with lv := tforRegs fc.regTop n ++ τ.lv }).2
  (fc3.emit .other).emit (.jmp (fc.labelId + 1))

def genForEnter (fc : FC) (n : Nat) (b : Stmt) : FC :=
  ({ genForPre fc n b with blocks := forBlock fc (3 + n) :: fc.blocks, regTop := fc.regTop + 3 + n } : FC).emit
    (.lbl (fc.labelId + 2))

theorem compile_genFor_eq (fc : FC) (n : Nat) (b : Stmt) (tail : Bool) (rest : Stmt) :
    compileChunk fc (.genFor n b) tail rest = (do
      let fc2 ← compileChunk (genForEnter fc n b) b true .skip
      let (_, fc3) ← fc2.leaveBlock
      .ok (((fc3.emit (.lbl (fc.labelId + 1))).emit (.tforloop fc.regTop n (fc.labelId + 2))).emit (.lbl fc.labelId))) := by
  have hreg : registerN n (genForPre fc n b) =
      .ok { genForPre fc n b with blocks := forBlock fc (3 + n) :: fc.blocks, regTop := fc.regTop + 3 + n } :=
    registerN_spec n (genForPre fc n b) (forBlock fc 3) fc.blocks rfl
  simp only [compileChunk]
  show (do
      let fcR ← registerN n (genForPre fc n b)
      let fc2 ← compileChunk (fcR.emit (.lbl (fc.labelId + 2))) b true .skip
      let (_, fc3) ← fc2.leaveBlock
      Except.ok (((fc3.emit (.lbl (fc.labelId + 1))).emit (.tforloop fc.regTop n (fc.labelId + 2))).emit (.lbl fc.labelId))) = _
  rw [hreg]
  rfl

theorem loopVars_eq (fc : FC) (n : Nat) : loopVars fc (3 + n) = tforRegs fc.regTop n := by
  simp [loopVars, tforRegs]

/-- facts about the state in which the body of a generic for is compiled -/
structure GenForEnter (fc : FC) (n : Nat) (b : Stmt) (fcE : FC) : Prop where
  rel    : Rel fcE
  adv    : Adv fc fcE
  blocks : fcE.blocks = forBlock fc (3 + n) :: fc.blocks
  top    : fcE.regTop = fc.regTop + 3 + n
  curd   : curD fcE = curD fc ++ (freeCaps fc.regTop (.genFor n b)).1
  lkE    : lookupTy fcE.ltypes fc.labelId = some (fc.loopTy (.genFor n b))
  lkF    : lookupTy fcE.ltypes (fc.labelId + 1) = some (fc.loopTy (.genFor n b))
  lkB    : lookupTy fcE.ltypes (fc.labelId + 2) =
             some { fc.loopTy (.genFor n b) with lv := tforRegs fc.regTop n ++ (fc.loopTy (.genFor n b)).lv }
  allow  : AllowedB fcE.ltypes (freeCaps fcE.regTop b).1 fcE.blocks

theorem genFor_enter {fc : FC} {n : Nat} {b : Stmt} (hr : Rel fc)
    (ha : AllowedB fc.ltypes (freeCaps fc.regTop (.genFor n b)).1 fc.blocks) : GenForEnter fc n b (genForEnter fc n b) := by
  let τ := fc.loopTy (.genFor n b)
  let τb : AState := { τ with lv := tforRegs fc.regTop n ++ τ.lv }
  obtain ⟨hlE, hlF, hlB, hkeys, hext⟩ := three_labels fc.ltypes fc.labelId τ τ τb hr.geo.keys
  have hlt : (genForEnter fc n b).ltypes = fc.ltypes ++ [(fc.labelId, τ)] ++ [(fc.labelId + 1, τ)] ++ [(fc.labelId + 2, τb)] := rfl
  have hcur : (genForEnter fc n b).cur = some τb := by
    show (scanStep _ _ _ (.lbl (fc.labelId + 2))).getD none = some τb
    have hnone : ∀ (Λ : List (Nat × AState)) (gs : List GotoDesc) (σ : Option AState) (l : Nat),
        (scanStep Λ gs σ (.jmp l)).getD none = none := by
      intro Λ gs σ l
      cases σ with
      | none => rfl
      | some s =>
        simp only [scanStep, scanItem]
        split
        · split <;> rfl
        · rfl
    have : ∀ (Λ : List (Nat × AState)) (gs : List GotoDesc), lookupTy Λ (fc.labelId + 2) = some τb →
        (scanStep Λ gs none (.lbl (fc.labelId + 2))).getD none = some τb := by
      intro Λ gs h; simp [scanStep, h]
    simp only [genForPre, FC.emit, hnone]
    exact this _ _ hlB
  have hX : ∀ r ∈ (freeCaps fc.regTop (.genFor n b)).1, r < fc.regTop := fun r hr' => by
    simp only [freeCaps, List.mem_filter, decide_eq_true_eq] at hr'; exact hr'.2
  have hcur' : (genForEnter fc n b).cur =
      some ⟨loopVars fc (3 + n) ++ namedRegs fc.blocks, curD fc ++ (freeCaps fc.regTop (.genFor n b)).1⟩ := by
    rw [hcur, loopVars_eq]; rfl
  obtain ⟨hrel, hallow⟩ := for_enter (b := b) (n := 3 + n) hr ha hX
    (fun r hr' hlt' => by
      simp only [freeCaps, List.mem_filter, decide_eq_true_eq]
      rw [← Nat.add_assoc] at hr'
      exact ⟨hr', hlt'⟩)
    rfl (by show fc.regTop + 3 + n = fc.regTop + (3 + n); omega) (by rw [hlt]; exact hext) (by rw [hlt]; exact hlE)
    (by rw [hlt]; exact hkeys) hcur'
  refine ⟨hrel, ?_, rfl, rfl, by simp [curD, hcur]; rfl, by rw [hlt]; exact hlE, by rw [hlt]; exact hlF,
    by rw [hlt]; exact hlB, hallow⟩
  refine ⟨⟨[.other, .jmp (fc.labelId + 1), .lbl (fc.labelId + 2)], by simp [genForEnter, genForPre, FC.emit, FC.newLabel], ?_⟩,
    ⟨[(fc.labelId, τ)] ++ ([(fc.labelId + 1, τ)] ++ [(fc.labelId + 2, τb)]), by rw [hlt]; simp only [List.append_assoc]⟩,
    rfl, by show fc.labelId ≤ fc.labelId + 3; omega⟩
  intro Λ hΛ
  rw [hcur]
  have e1 := hΛ _ _ (by rw [hlt]; exact hlF)
  have e2 := hΛ _ _ (by rw [hlt]; exact hlB)
  simp only [scan, scan_other, scan_jmp _ e1 (fun s hs => entry_le hr hs _)]
  simp [scanStep, e2]

theorem scan_tforloop {Λ : List (Nat × AState)} (gs : List GotoDesc) {τ τb : AState} {a c l : Nat}
    (hτ : lookupTy Λ l = some τb) (h1 : ∀ r ∈ tforRegs a c, r ∉ τ.d)
    (h2 : ({ τ with lv := tforRegs a c ++ τ.lv } : AState).le τb = true) :
    scanStep Λ gs (some τ) (.tforloop a c l) = some (some τ) := by
  simp [scanStep, scanItem, hτ, h2]
  exact h1

theorem post_genFor {n : Nat} {b : Stmt} (ih : IH b) : IH (.genFor n b) := by
  intro fc tail rest fc' hr hg ha h
  rw [compile_genFor_eq] at h
  simp only [bind, Except.bind] at h
  have we := genFor_enter (n := n) (b := b) hr ha
  cases h1 : compileChunk (genForEnter fc n b) b true .skip with
  | error e => simp [h1] at h
  | ok fc2 =>
    simp only [h1] at h
    have hgE : (genForEnter fc n b).gotos = [] := by rw [we.adv.gotos, hg]
    have p := ih _ _ _ fc2 we.rel hgE we.allow h1
    have hg2 : fc2.gotos = [] := p.gotos hgE
    obtain ⟨b2, p2, rest2, hb2, hbase, hbrk, htext, hleave⟩ := loop_leave hr p we.blocks hg2
    simp only [forBlock] at hbase hbrk
    rw [hleave] at h
    simp only [Except.ok.injEq] at h
    let τ := fc.loopTy (.genFor n b)
    have hext2 : Ext (genForEnter fc n b).ltypes fc2.ltypes := p.adv.ext
    have hadv3 := popped_adv (fc := fc2) b2 p2 rest2 hg2
    have hgeo3 := popped_geo p.rel.geo hb2
    have hX : ∀ r ∈ (freeCaps fc.regTop (.genFor n b)).1, r < fc.regTop := fun r hr' => by
      simp only [freeCaps, List.mem_filter, decide_eq_true_eq] at hr'; exact hr'.2
    have hXsub : ∀ r ∈ (freeCaps (genForEnter fc n b).regTop b).1, r < fc.regTop →
        r ∈ (freeCaps fc.regTop (.genFor n b)).1 := by
      intro r hr' hlt
      rw [we.top] at hr'
      simp only [freeCaps, List.mem_filter, decide_eq_true_eq]; exact ⟨hr', hlt⟩
    have hflag := loop_flags (X := (freeCaps fc.regTop (.genFor n b)).1) p hb2 hbase (fun r hr' => by
      simp only [freeCaps, List.mem_filter, decide_eq_true_eq] at hr'
      rw [we.top]; exact hr')
    have hextall : Ext fc.ltypes fc2.ltypes := Ext.trans we.adv.ext hext2
    -- lbl fllabel
    obtain ⟨hrelF, hadvF, hcurF⟩ := rel_at_label (fc1 := fc2.popped b2 p2 rest2) hr hgeo3 (by simpa using htext)
      (by simpa using hextall) _ hX ha (by simpa using hflag) (fc.labelId + 1)
      (by simp only [popped_ltypes]; exact hext2 _ _ we.lkF)
      (by rw [popped_cur]; exact loop_back_le p hb2 hbrk htext hbase we.curd hXsub)
    -- tforloop
    have hscanL : scanStep ((fc2.popped b2 p2 rest2).emit (.lbl (fc.labelId + 1))).ltypes
        ((fc2.popped b2 p2 rest2).emit (.lbl (fc.labelId + 1))).gotos
        ((fc2.popped b2 p2 rest2).emit (.lbl (fc.labelId + 1))).cur (.tforloop fc.regTop n (fc.labelId + 2)) = some (some τ) := by
      rw [hcurF]
      refine scan_tforloop _ (by simp only [emit_ltypes, popped_ltypes]; exact hext2 _ _ we.lkB) ?_ ?_
      · intro r hr' hm
        have hgd := hrelF.good
        rw [hcurF] at hgd
        have := Good.i1 hgd _ hm
        simp only [emit_blocks, popped_blocks] at this
        rw [htext.topOf, ← hr.geo.top] at this
        simp only [tforRegs, List.mem_map, List.mem_range] at hr'
        obtain ⟨i, _, rfl⟩ := hr'
        omega
      · exact le_refl _
    obtain ⟨hadvL, hcurL⟩ := emit_adv _ _ hscanL
    -- lbl endlabel
    have hscanN : scanStep (((fc2.popped b2 p2 rest2).emit (.lbl (fc.labelId + 1))).emit (.tforloop fc.regTop n (fc.labelId + 2))).ltypes
        (((fc2.popped b2 p2 rest2).emit (.lbl (fc.labelId + 1))).emit (.tforloop fc.regTop n (fc.labelId + 2))).gotos
        (((fc2.popped b2 p2 rest2).emit (.lbl (fc.labelId + 1))).emit (.tforloop fc.regTop n (fc.labelId + 2))).cur
        (.lbl fc.labelId) = some (some τ) := by
      rw [hcurL]
      exact scan_lbl _ (by simp only [emit_ltypes, popped_ltypes]; exact hext2 _ _ we.lkE)
        (fun s hs => by cases hs; exact le_refl _)
    obtain ⟨hadvN, hcurN⟩ := emit_adv _ _ hscanN
    subst h
    refine ⟨⟨⟨hgeo3.ne, hgeo3.chain, hgeo3.top, hgeo3.keys⟩, ?_⟩, ?_, ?_, ?_, ?_, ?_⟩
    · rw [hcurN]
      have := hrelF.good
      rw [hcurF] at this
      exact this
    · exact ((we.adv.trans p.adv).trans hadv3).trans ((hadvF.trans hadvL).trans hadvN)
    · simp only [emit_blocks, popped_blocks]; exact htext.toBExt
    · simp only [emit_regTop, popped_regTop, freeCaps]; exact hbase
    · intro r hr'
      unfold curD at hr'
      rw [hcurN] at hr'
      exact List.mem_append.mp hr'
    · intro r hr'
      simp only [emit_blocks, popped_blocks]
      exact hflag r hr'

end GLua.CloseC
