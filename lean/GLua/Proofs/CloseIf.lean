/-
  compile_establishes_discipline, goto-free fragment: `if`.
-/
import GLua.Proofs.CloseWhile

namespace GLua.CloseC
open GLua

theorem isEmpty_freeCaps : ∀ (s : Stmt) (t : Nat), s.isEmpty = true → freeCaps t s = ([], t)
  | .skip, _, _ => rfl
  | .seq a b, t, h => by
    simp only [Stmt.isEmpty, Bool.and_eq_true] at h
    simp only [freeCaps, isEmpty_freeCaps a t h.1, isEmpty_freeCaps b t h.2, List.append_nil]
  | .localDecl _, _, h => by simp [Stmt.isEmpty] at h
  | .localFn _ _, _, h => by simp [Stmt.isEmpty] at h
  | .capture _, _, h => by simp [Stmt.isEmpty] at h
  | .assign _ _, _, h => by simp [Stmt.isEmpty] at h
  | .use, _, h => by simp [Stmt.isEmpty] at h
  | .poke _, _, h => by simp [Stmt.isEmpty] at h
  | .doBlock _, _, h => by simp [Stmt.isEmpty] at h
  | .ifThen _ _, _, h => by simp [Stmt.isEmpty] at h
  | .whileLoop _, _, h => by simp [Stmt.isEmpty] at h
  | .repeatLoop _ _, _, h => by simp [Stmt.isEmpty] at h
  | .numFor _, _, h => by simp [Stmt.isEmpty] at h
  | .genFor _ _, _, h => by simp [Stmt.isEmpty] at h
  | .brk, _, h => by simp [Stmt.isEmpty] at h
  | .label _, _, h => by simp [Stmt.isEmpty] at h
  | .goto _, _, h => by simp [Stmt.isEmpty] at h
  | .ret, _, h => by simp [Stmt.isEmpty] at h

theorem blockWith_post {b : Stmt} (ih : IH b) (fc fc' : FC) (hr : Rel fc) (hg : fc.gotos = [])
    (ha : AllowedB fc.ltypes ((freeCaps fc.regTop b).1.filter (· < fc.regTop)) fc.blocks)
    (h : blockWith fc b.isEmpty (fun fc => compileChunk fc b true .skip) = .ok fc') : Post fc (.doBlock b) fc' := by
  cases he : b.isEmpty with
  | false => rw [he] at h; exact block_post ih fc fc' hr hg ha h
  | true =>
    rw [he] at h
    simp only [blockWith, if_true, Except.ok.injEq] at h
    subst h
    refine ⟨hr, Adv.refl _, BExt.refl _, rfl, fun r h => Or.inl h, fun r h => ?_⟩
    simp [freeCaps, isEmpty_freeCaps b _ he] at h

theorem BExt.toTExt : ∀ {a b : List Block}, BExt a b → topOf a = topOf b → TExt a b
  | [], [], _, _ => trivial
  | x :: _, y :: _, h, ht => by
    simp only [topOf] at ht
    exact ⟨h.1, by have := h.1; omega, h.2.2.1, h.2.2.2.1, h.2.2.2.2.1, h.tail⟩
  | [], _ :: _, h, _ => h.elim
  | _ :: _, [], h, _ => h.elim

/-- a block statement leaves the stack as it was, up to flags -/
theorem Post.text_doBlock {fc fc' : FC} {b : Stmt} (p : Post fc (.doBlock b) fc') (hr : Rel fc) : TExt fc.blocks fc'.blocks := by
  refine p.bext.toTExt ?_
  rw [← hr.geo.top, ← p.rel.geo.top, p.top]
  rfl

theorem compile_if_eq (fc : FC) (t e : Stmt) (tail : Bool) (rest : Stmt) :
    compileChunk fc (.ifThen t e) tail rest = (do
      let fcB := ((fc.newLabel (fc.loopTy (.ifThen t .skip))).2.newLabel (fc.loopTy (.ifThen t e))).2
      let fcC := fcB.emit (.cjmp fc.labelId)
      let fcD ← blockWith fcC t.isEmpty (fun fc => compileChunk fc t true .skip)
      let fcE := if e.isEmpty then fcD else fcD.emit (.jmp (fc.labelId + 1))
      let fcF := fcE.emit (.lbl fc.labelId)
      if e.isEmpty then .ok fcF else do
        let fcG ← blockWith fcF false (fun fc => compileChunk fc e true .skip)
        .ok (fcG.emit (.lbl (fc.labelId + 1)))) := by
  simp only [compileChunk]
  rfl

/-- placing a label typed like a loop label at a point where the stack is the old one up to flags -/
theorem rel_at_label {fc0 fc1 : FC} (hr0 : Rel fc0) (geo1 : Geo fc1) (ht : TExt fc0.blocks fc1.blocks)
    (hE : Ext fc0.ltypes fc1.ltypes) (X : List Nat) (hX : ∀ r ∈ X, r < fc0.regTop) (ha : AllowedB fc0.ltypes X fc0.blocks)
    (hf : ∀ r ∈ X, ownerFlag fc1.blocks r = true) (l : Nat)
    (hτ : lookupTy fc1.ltypes l = some { lv := namedRegs fc0.blocks, d := curD fc0 ++ X })
    (hle : ∀ s, fc1.cur = some s → s.le { lv := namedRegs fc0.blocks, d := curD fc0 ++ X } = true) :
    Rel (fc1.emit (.lbl l)) ∧ Adv fc1 (fc1.emit (.lbl l)) ∧
      (fc1.emit (.lbl l)).cur = some { lv := namedRegs fc0.blocks, d := curD fc0 ++ X } := by
  obtain ⟨hadv, hcur⟩ := emit_adv fc1 _ (scan_lbl _ hτ hle)
  refine ⟨⟨⟨geo1.ne, geo1.chain, geo1.top, geo1.keys⟩, ?_⟩, hadv, hcur⟩
  rw [hcur]
  exact exit_good hr0.geo.chain (Rel.dprops hr0) hE ht (fun r h => by rw [← hr0.geo.top]; exact hX r h) ha hf

/-- a state fits a label typed like a loop label when its captured registers are among the label's -/
theorem state_le_label {Λ : List (Nat × AState)} {bs0 bs1 : List Block} {s1 : AState} {D : List Nat}
    (hg : Good Λ bs1 s1) (hn : ∀ r ∈ namedRegs bs0, r ∈ namedRegs bs1) (hd : ∀ r ∈ s1.d, r ∈ D) :
    s1.le { lv := namedRegs bs0, d := D } = true := by
  rw [le_iff]
  exact ⟨fun x hx => hg.lv x (hn x hx), hd⟩

theorem post_if {t e : Stmt} (iht : IH t) (ihe : IH e) : IH (.ifThen t e) := by
  intro fc tail rest fc' hr hg ha h
  rw [compile_if_eq] at h
  simp only [bind, Except.bind] at h
  -- the two label types
  have hX1eq : (freeCaps fc.regTop (.ifThen t .skip)).1 = (freeCaps fc.regTop t).1.filter (· < fc.regTop) := by
    simp [freeCaps]
  have hτelse : fc.loopTy (.ifThen t .skip) =
      { lv := namedRegs fc.blocks, d := curD fc ++ (freeCaps fc.regTop t).1.filter (· < fc.regTop) } := by
    simp only [FC.loopTy, hX1eq]
  have hτend : fc.loopTy (.ifThen t e) =
      { lv := namedRegs fc.blocks, d := curD fc ++ (freeCaps fc.regTop (.ifThen t e)).1 } := rfl
  have hsub1 : ∀ r ∈ (freeCaps fc.regTop t).1.filter (· < fc.regTop), r ∈ (freeCaps fc.regTop (.ifThen t e)).1 := by
    intro r hr'
    simp only [freeCaps, List.mem_filter, List.mem_append, decide_eq_true_eq] at hr' ⊢
    exact ⟨Or.inl hr'.1, hr'.2⟩
  have hsub2 : ∀ r ∈ (freeCaps fc.regTop e).1.filter (· < fc.regTop), r ∈ (freeCaps fc.regTop (.ifThen t e)).1 := by
    intro r hr'
    simp only [freeCaps, List.mem_filter, List.mem_append, decide_eq_true_eq] at hr' ⊢
    exact ⟨Or.inr hr'.1, hr'.2⟩
  have hXlt : ∀ r ∈ (freeCaps fc.regTop (.ifThen t e)).1, r < fc.regTop := by
    intro r hr'
    simp only [freeCaps, List.mem_filter, decide_eq_true_eq] at hr'
    exact hr'.2
  obtain ⟨hlE, hlN, hkeys⟩ := two_labels fc (fc.loopTy (.ifThen t .skip)) (fc.loopTy (.ifThen t e)) hr.geo.keys
  generalize hfcB : ((fc.newLabel (fc.loopTy (.ifThen t .skip))).2.newLabel (fc.loopTy (.ifThen t e))).2 = fcB at h hlE hlN hkeys
  have hadvB : Adv fc fcB := by rw [← hfcB]; exact (newLabel_adv fc _).trans (newLabel_adv _ _)
  have hblB : fcB.blocks = fc.blocks := by rw [← hfcB]; rfl
  have hcurB : fcB.cur = fc.cur := by rw [← hfcB]; rfl
  have hregB : fcB.regTop = fc.regTop := by rw [← hfcB]; rfl
  have hidB : fcB.labelId = fc.labelId + 2 := by rw [← hfcB]; rfl
  have hextB : Ext fc.ltypes fcB.ltypes := hadvB.ext
  rw [hτelse] at hlE
  rw [hτend] at hlN
  -- cjmp elselabel
  have hscanC : scanStep fcB.ltypes fcB.gotos fcB.cur (.cjmp fc.labelId) = some fcB.cur :=
    scan_cjmp _ hlE (fun s hs => entry_le hr (by rw [← hcurB]; exact hs) _)
  obtain ⟨hadvC, hcurC⟩ := emit_adv fcB _ hscanC
  have hrelC : Rel (fcB.emit (.cjmp fc.labelId)) := by
    refine ⟨⟨by simpa [hblB] using hr.geo.ne, by simpa [hblB] using hr.geo.chain,
      by simpa [hblB, hregB] using hr.geo.top, by simpa [hidB] using hkeys⟩, ?_⟩
    rw [hcurC, hcurB]
    simp only [emit_blocks, emit_ltypes, hblB]
    exact (TExt.refl _).goodO hextB hr.good
  have hgC : (fcB.emit (.cjmp fc.labelId)).gotos = [] := by rw [hadvC.gotos, hadvB.gotos, hg]
  have haC : AllowedB (fcB.emit (.cjmp fc.labelId)).ltypes
      ((freeCaps (fcB.emit (.cjmp fc.labelId)).regTop t).1.filter (· < (fcB.emit (.cjmp fc.labelId)).regTop))
      (fcB.emit (.cjmp fc.labelId)).blocks := by
    simp only [emit_ltypes, emit_regTop, emit_blocks, hregB, hblB]
    exact AllowedB.mono hextB hsub1 (BExt.refl _) ha
  cases hD : blockWith (fcB.emit (.cjmp fc.labelId)) t.isEmpty (fun fc => compileChunk fc t true .skip) with
  | error err => simp [hD] at h
  | ok fcD =>
    simp only [hD] at h
    have pT := blockWith_post iht _ fcD hrelC hgC haC hD
    have htextD : TExt fc.blocks fcD.blocks := by
      have := pT.text_doBlock hrelC
      simpa [hblB] using this
    have hextD : Ext fc.ltypes fcD.ltypes := Ext.trans hextB (Ext.trans hadvC.ext pT.adv.ext)
    have hgD : fcD.gotos = [] := pT.gotos hgC
    have hlE_D : lookupTy fcD.ltypes fc.labelId = some _ := (Ext.trans hadvC.ext pT.adv.ext) _ _ hlE
    have hlN_D : lookupTy fcD.ltypes (fc.labelId + 1) = some _ := (Ext.trans hadvC.ext pT.adv.ext) _ _ hlN
    have hflagT : ∀ r ∈ (freeCaps fc.regTop t).1.filter (· < fc.regTop), ownerFlag fcD.blocks r = true := by
      intro r hr'
      exact pT.flag r (by simpa [freeCaps, hregB] using hr')
    -- what may be captured behind the then-branch
    have hprovD : ∀ s, fcD.cur = some s → ∀ r ∈ s.d, r ∈ curD fc ++ (freeCaps fc.regTop t).1.filter (· < fc.regTop) := by
      intro s hs r hr'
      rcases pT.prov r (by simpa [curD, hs] using hr') with h3 | h3
      · exact List.mem_append.mpr (Or.inl (by simpa [curD, hcurC, hcurB] using h3))
      · exact List.mem_append.mpr (Or.inr (by simpa [freeCaps, hregB] using h3))
    have hnamedD : ∀ r ∈ namedRegs fc.blocks, r ∈ namedRegs fcD.blocks := fun r hr' => by rw [htextD.named]; exact hr'
    cases he : e.isEmpty with
    | true =>
      simp only [he, if_true, Except.ok.injEq] at h
      subst h
      have hle : ∀ s, fcD.cur = some s →
          s.le ⟨namedRegs fc.blocks, curD fc ++ (freeCaps fc.regTop t).1.filter (· < fc.regTop)⟩ = true := by
        intro s hs
        have hgd : Good fcD.ltypes fcD.blocks s := by have := pT.rel.good; rw [hs] at this; exact this
        exact state_le_label hgd hnamedD (hprovD s hs)
      obtain ⟨hrel, hadvF, hcurF⟩ := rel_at_label hr pT.rel.geo htextD hextD _
        (fun r hr' => by simp only [List.mem_filter, decide_eq_true_eq] at hr'; exact hr'.2)
        (AllowedB.mono (Ext.refl _) hsub1 (BExt.refl _) ha) hflagT fc.labelId hlE_D hle
      refine ⟨hrel, ((hadvB.trans hadvC).trans pT.adv).trans hadvF, by simpa using htextD.toBExt, ?_, ?_, ?_⟩
      · simp only [emit_regTop, freeCaps]
        rw [pT.top]; simp [freeCaps, hregB]
      · intro r hr'
        unfold curD at hr'
        rw [hcurF] at hr'
        rcases List.mem_append.mp hr' with h3 | h3
        · exact Or.inl h3
        · exact Or.inr (hsub1 r h3)
      · intro r hr'
        simp only [emit_blocks]
        apply hflagT
        simp only [freeCaps, isEmpty_freeCaps e _ he, List.append_nil] at hr'
        exact hr'
    | false =>
      simp only [he, Bool.false_eq_true, if_false] at h
      -- jmp endlabel
      have hscanE : scanStep fcD.ltypes fcD.gotos fcD.cur (.jmp (fc.labelId + 1)) = some none := by
        refine scan_jmp _ hlN_D (fun s hs => ?_)
        have hgd : Good fcD.ltypes fcD.blocks s := by have := pT.rel.good; rw [hs] at this; exact this
        refine state_le_label hgd hnamedD (fun r hr' => ?_)
        rcases List.mem_append.mp (hprovD s hs r hr') with h3 | h3
        · exact List.mem_append.mpr (Or.inl h3)
        · exact List.mem_append.mpr (Or.inr (hsub1 r h3))
      obtain ⟨hadvE, hcurE⟩ := emit_adv fcD _ hscanE
      have hgeoE : Geo (fcD.emit (.jmp (fc.labelId + 1))) :=
        ⟨pT.rel.geo.ne, pT.rel.geo.chain, pT.rel.geo.top, pT.rel.geo.keys⟩
      obtain ⟨hrelF, hadvF, hcurF⟩ := rel_at_label (fc1 := fcD.emit (.jmp (fc.labelId + 1))) hr hgeoE
        (by simpa using htextD) (by simpa using hextD) _
        (fun r hr' => by simp only [List.mem_filter, decide_eq_true_eq] at hr'; exact hr'.2)
        (AllowedB.mono (Ext.refl _) hsub1 (BExt.refl _) ha) (by simpa using hflagT) fc.labelId (by simpa using hlE_D)
        (fun s hs => by rw [hcurE] at hs; cases hs)
      generalize hfcF : (fcD.emit (.jmp (fc.labelId + 1))).emit (.lbl fc.labelId) = fcF at h hrelF hadvF hcurF
      have hblF : fcF.blocks = fcD.blocks := by rw [← hfcF]; rfl
      have hregF : fcF.regTop = fc.regTop := by
        rw [← hfcF]; simp only [emit_regTop]; rw [pT.top]; simp [freeCaps, hregB]
      have hltF : fcF.ltypes = fcD.ltypes := by rw [← hfcF]; rfl
      have hgF : fcF.gotos = [] := by rw [← hfcF]; simpa using hgD
      have haF : AllowedB fcF.ltypes ((freeCaps fcF.regTop e).1.filter (· < fcF.regTop)) fcF.blocks := by
        rw [hregF, hltF, hblF]
        exact AllowedB.mono hextD hsub2 htextD.toBExt ha
      cases hG : blockWith fcF false (fun fc => compileChunk fc e true .skip) with
      | error err => simp [hG] at h
      | ok fcG =>
        simp only [hG, Except.ok.injEq] at h
        subst h
        have pE := block_post ihe fcF fcG hrelF hgF haF hG
        have htextG : TExt fc.blocks fcG.blocks := by
          have := pE.text_doBlock hrelF
          rw [hblF] at this
          exact htextD.trans this
        have hextG : Ext fc.ltypes fcG.ltypes := Ext.trans hextD (by rw [← hltF]; exact pE.adv.ext)
        have hlN_G : lookupTy fcG.ltypes (fc.labelId + 1) =
            some ⟨namedRegs fc.blocks, curD fc ++ (freeCaps fc.regTop (.ifThen t e)).1⟩ := by
          have := pE.adv.ext; rw [hltF] at this; exact this _ _ hlN_D
        have hflagAll : ∀ r ∈ (freeCaps fc.regTop (.ifThen t e)).1, ownerFlag fcG.blocks r = true := by
          intro r hr'
          simp only [freeCaps, List.mem_filter, List.mem_append, decide_eq_true_eq] at hr'
          rcases hr'.1 with h3 | h3
          · have h4 := hflagT r (by simp only [List.mem_filter, decide_eq_true_eq]; exact ⟨h3, hr'.2⟩)
            have := pE.text_doBlock hrelF
            rw [hblF] at this
            exact this.ownerFlag r h4
          · exact pE.flag r (by simp only [freeCaps, hregF, List.mem_filter, decide_eq_true_eq]; exact ⟨h3, hr'.2⟩)
        have hle : ∀ s, fcG.cur = some s →
            s.le ⟨namedRegs fc.blocks, curD fc ++ (freeCaps fc.regTop (.ifThen t e)).1⟩ = true := by
          intro s hs
          have hgd : Good fcG.ltypes fcG.blocks s := by have := pE.rel.good; rw [hs] at this; exact this
          refine state_le_label hgd (fun r hr' => by rw [htextG.named]; exact hr') (fun r hr' => ?_)
          rcases pE.prov r (by simpa [curD, hs] using hr') with h3 | h3
          · have : r ∈ curD fc ++ (freeCaps fc.regTop t).1.filter (· < fc.regTop) := by
              simpa [curD, hcurF] using h3
            rcases List.mem_append.mp this with h4 | h4
            · exact List.mem_append.mpr (Or.inl h4)
            · exact List.mem_append.mpr (Or.inr (hsub1 r h4))
          · exact List.mem_append.mpr (Or.inr (hsub2 r (by simpa [freeCaps, hregF] using h3)))
        obtain ⟨hrel, hadvH, hcurH⟩ := rel_at_label hr pE.rel.geo htextG hextG _ hXlt ha hflagAll (fc.labelId + 1) hlN_G hle
        refine ⟨hrel, ((((hadvB.trans hadvC).trans pT.adv).trans hadvE).trans hadvF).trans (pE.adv.trans hadvH),
          by simpa using htextG.toBExt, ?_, ?_, ?_⟩
        · simp only [emit_regTop, freeCaps]
          rw [pE.top]; simp [freeCaps, hregF]
        · intro r hr'
          unfold curD at hr'
          rw [hcurH] at hr'
          exact List.mem_append.mp hr'
        · intro r hr'
          simp only [emit_blocks]
          exact hflagAll r hr'

end GLua.CloseC
