/-
  Invariants of the compile model (Model/CloseCompile.lean) that make its output pass `closeDiscipline`:
  block-stack geometry, ownership of registers, and the relation between the RefUpvalue flags and the ghost
  scan state.  Basic lemmas.
-/
import GLua.Proofs.CloseSound

namespace GLua.CloseC
open GLua

/-! ### label types only grow -/

def Ext (Λ Λ' : List (Nat × AState)) : Prop := ∀ l τ, lookupTy Λ l = some τ → lookupTy Λ' l = some τ

theorem Ext.refl (Λ : List (Nat × AState)) : Ext Λ Λ := fun _ _ h => h
theorem Ext.trans {a b c : List (Nat × AState)} (h1 : Ext a b) (h2 : Ext b c) : Ext a c :=
  fun l τ h => h2 l τ (h1 l τ h)

theorem lookupTy_append_left {Λ Λ2 : List (Nat × AState)} {l : Nat} {τ : AState} (h : lookupTy Λ l = some τ) :
    lookupTy (Λ ++ Λ2) l = some τ := by
  induction Λ with
  | nil => simp [lookupTy] at h
  | cons p r ih =>
    obtain ⟨k, t⟩ := p
    simp only [List.cons_append, lookupTy] at h ⊢
    split
    · simpa [*] using h
    · rename_i hk; simp only [hk, if_false] at h; exact ih h

theorem ext_append (Λ Λ2 : List (Nat × AState)) : Ext Λ (Λ ++ Λ2) := fun _ _ h => lookupTy_append_left h

theorem lookupTy_mem {Λ : List (Nat × AState)} {l : Nat} {τ : AState} (h : lookupTy Λ l = some τ) : (l, τ) ∈ Λ := by
  induction Λ with
  | nil => simp [lookupTy] at h
  | cons p r ih =>
    obtain ⟨k, t⟩ := p
    simp only [lookupTy] at h
    split at h
    · rename_i hk; cases h; subst hk; exact List.mem_cons_self ..
    · exact List.mem_cons_of_mem _ (ih h)

theorem lookupTy_append_new {Λ : List (Nat × AState)} {l : Nat} {τ : AState} (hfresh : ∀ k t, (k, t) ∈ Λ → k ≠ l) :
    lookupTy (Λ ++ [(l, τ)]) l = some τ := by
  induction Λ with
  | nil => simp [lookupTy]
  | cons p r ih =>
    obtain ⟨k, t⟩ := p
    simp only [List.cons_append, lookupTy]
    have : k ≠ l := hfresh k t (List.mem_cons_self ..)
    simp only [this, if_false]
    exact ih (fun k' t' hm => hfresh k' t' (List.mem_cons_of_mem _ hm))

/-- a successful scan step stays the same step under more label types (the goto table is only consulted by the
    goto items, which the lemma leaves to the caller: it is stated for a fixed table) -/
theorem scanStep_ext {Λ Λ' : List (Nat × AState)} (gs : List GotoDesc) (hE : Ext Λ Λ') {σ σ' : Option AState} {it : Item}
    (h : scanStep Λ gs σ it = some σ') : scanStep Λ' gs σ it = some σ' := by
  cases σ with
  | none =>
    cases it <;> simp only [scanStep] at h ⊢ <;> try exact h
    case lbl l =>
      cases hl : lookupTy Λ l with
      | none => simp [hl] at h
      | some τ => rw [hE l τ hl]; simpa [hl] using h
  | some s =>
    simp only [scanStep] at h ⊢
    cases it <;> simp only [scanItem] at h ⊢ <;> try exact h
    all_goals
      rename_i l
      cases hl : lookupTy Λ l with
      | none => simp [hl] at h
      | some τ => rw [hE l τ hl]; simpa [hl] using h

theorem scan_ext {Λ Λ' : List (Nat × AState)} (gs : List GotoDesc) (hE : Ext Λ Λ') :
    ∀ (code : List Item) (σ σ' : Option AState), scan Λ gs σ code = some σ' → scan Λ' gs σ code = some σ'
  | [], _, _, h => h
  | it :: rest, σ, σ', h => by
    simp only [scan] at h ⊢
    cases h1 : scanStep Λ gs σ it with
    | none => simp [h1] at h
    | some σ1 =>
      rw [scanStep_ext gs hE h1]
      simp only [h1] at h
      exact scan_ext gs hE rest σ1 σ' h

/-! ### geometry of the block stack -/

/-- every block starts where its parent's names end; the function block starts at 0 -/
def Chain : List Block → Prop
  | [] => True
  | [b] => b.base = 0
  | b :: p :: rest => b.base = p.base + p.nnames ∧ Chain (p :: rest)

def topOf : List Block → Nat
  | [] => 0
  | b :: _ => b.base + b.nnames

theorem chain_tail {b : Block} {rest : List Block} (h : Chain (b :: rest)) : Chain rest := by
  cases rest with
  | nil => trivial
  | cons p r => exact h.2

theorem chain_base {b : Block} {rest : List Block} (h : Chain (b :: rest)) : b.base = topOf rest := by
  cases rest with
  | nil => exact h
  | cons p r => exact h.1

theorem localVarsCount_eq : ∀ {bs : List Block}, Chain bs → localVarsCount bs = topOf bs
  | [], _ => rfl
  | [b], h => by simp only [localVarsCount, topOf]; have : b.base = 0 := h; omega
  | b :: p :: rest, h => by
    have ih := localVarsCount_eq (chain_tail h)
    simp only [localVarsCount, topOf] at ih ⊢
    have := h.1
    omega

theorem named_lt : ∀ {bs : List Block}, Chain bs → ∀ r ∈ namedRegs bs, r < topOf bs
  | [], _, r, hr => by simp [namedRegs] at hr
  | b :: rest, h, r, hr => by
    simp only [namedRegs, List.mem_append, List.mem_map, List.mem_range] at hr
    simp only [topOf]
    rcases hr with hr | ⟨i, hi, rfl⟩
    · have := named_lt (chain_tail h) r hr
      have := chain_base h
      omega
    · omega

/-- RefUpvalue of the block that owns register r (false when no block does) -/
def ownerFlag : List Block → Nat → Bool
  | [], _ => false
  | b :: rest, r => if b.base ≤ r && r < b.base + b.nnames then b.ref else ownerFlag rest r

/-- base of the innermost loop body around the current point (0 outside loops) -/
def loopBase : List Block → Nat
  | [] => 0
  | b :: rest => if b.brk.isSome then b.base else loopBase rest

theorem loopBase_le : ∀ {bs : List Block}, Chain bs → loopBase bs ≤ topOf bs
  | [], _ => Nat.le_refl _
  | b :: rest, h => by
    simp only [loopBase, topOf]
    split
    · omega
    · have := loopBase_le (chain_tail h)
      have := chain_base h
      omega

theorem ownerFlag_lt_base {b : Block} {rest : List Block} {r : Nat} (h : r < b.base) :
    ownerFlag (b :: rest) r = ownerFlag rest r := by
  simp only [ownerFlag]
  have : ¬ (b.base ≤ r) := by omega
  simp [this]

theorem ownerFlag_ge_top : ∀ {bs : List Block}, Chain bs → ∀ r, topOf bs ≤ r → ownerFlag bs r = false
  | [], _, _, _ => rfl
  | b :: rest, h, r, hr => by
    simp only [topOf] at hr
    simp only [ownerFlag]
    have : ¬ (r < b.base + b.nnames) := by omega
    simp only [this, decide_false, Bool.and_false]
    have := chain_base h
    exact ownerFlag_ge_top (chain_tail h) r (by omega)

/-- a register at or above the base of the current block is owned by the current block -/
theorem ownerFlag_head {b : Block} {rest : List Block} {r : Nat} (h1 : b.base ≤ r) (h2 : r < b.base + b.nnames) :
    ownerFlag (b :: rest) r = b.ref := by
  simp [ownerFlag, h1, h2]

/-! ### the relation between compiler state and ghost scan state -/

/-- the break label of every enclosing loop has a type that (i) only promises locals declared outside the loop
    and (ii) admits every register below the loop that may be captured now -/
def LoopsOK (Λ : List (Nat × AState)) (D : List Nat) : List Block → Prop
  | [] => True
  | b :: rest =>
    (∀ l, b.brk = some l → ∃ τ, lookupTy Λ l = some τ ∧ (∀ r ∈ τ.lv, r ∈ namedRegs rest) ∧
      (∀ r ∈ D, r < b.base → r ∈ τ.d)) ∧ LoopsOK Λ D rest

theorem loopsOK_mono {Λ Λ' : List (Nat × AState)} {D D' : List Nat} (hE : Ext Λ Λ') (hD : ∀ r ∈ D', r ∈ D) :
    ∀ {bs : List Block}, LoopsOK Λ D bs → LoopsOK Λ' D' bs
  | [], _ => trivial
  | b :: rest, h => by
    refine ⟨fun l hl => ?_, loopsOK_mono hE hD h.2⟩
    obtain ⟨τ, h1, h2, h3⟩ := h.1 l hl
    exact ⟨τ, hE l τ h1, h2, fun r hr hb => h3 r (hD r hr) hb⟩

/-- what a scan state must satisfy at a point where the block stack is `bs` -/
structure Good (Λ : List (Nat × AState)) (bs : List Block) (s : AState) : Prop where
  lv : ∀ r ∈ namedRegs bs, r ∈ s.lv
  i1 : ∀ r ∈ s.d, r < topOf bs
  i2 : ∀ r ∈ s.d, loopBase bs ≤ r → ownerFlag bs r = true
  i3 : LoopsOK Λ s.d bs

structure Geo (fc : FC) : Prop where
  ne    : fc.blocks ≠ []
  chain : Chain fc.blocks
  top   : fc.regTop = topOf fc.blocks
  keys  : ∀ l τ, (l, τ) ∈ fc.ltypes → l < fc.labelId

/-- `GoodO`: `Good` for a reachable point; the loop labels are typed also at an unreachable one -/
def GoodO (Λ : List (Nat × AState)) (bs : List Block) : Option AState → Prop
  | some s => Good Λ bs s
  | none => LoopsOK Λ [] bs

structure Rel (fc : FC) : Prop where
  geo  : Geo fc
  good : GoodO fc.ltypes fc.blocks fc.cur

theorem Good.loops_nil {Λ : List (Nat × AState)} {bs : List Block} {s : AState} (h : Good Λ bs s) : LoopsOK Λ [] bs :=
  loopsOK_mono (Ext.refl _) (fun r hr => by simp at hr) h.i3

theorem GoodO.loops_nil {Λ : List (Nat × AState)} {bs : List Block} {σ : Option AState} (h : GoodO Λ bs σ) :
    LoopsOK Λ [] bs := by
  cases σ with
  | none => exact h
  | some s => exact Good.loops_nil h

theorem Rel.loops (fc : FC) (h : Rel fc) : LoopsOK fc.ltypes (curD fc) fc.blocks := by
  have := h.good
  unfold curD
  cases hc : fc.cur with
  | none => rw [hc] at this; exact this
  | some s => rw [hc] at this; exact this.i3

end GLua.CloseC
