/-
  compile_establishes_discipline, goto-free fragment: what the loops share — the type of the loop labels fits
  the point where the loop starts, the body's entry, the back edge and the point behind the loop.
-/
import GLua.Proofs.CloseBlock

namespace GLua.CloseC
open GLua

/-- what `Rel` says about the registers that may be captured at the current point -/
structure DProps (Λ : List (Nat × AState)) (bs : List Block) (D : List Nat) : Prop where
  i1 : ∀ r ∈ D, r < topOf bs
  i2 : ∀ r ∈ D, loopBase bs ≤ r → ownerFlag bs r = true
  i3 : LoopsOK Λ D bs

theorem Rel.dprops {fc : FC} (hr : Rel fc) : DProps fc.ltypes fc.blocks (curD fc) := by
  have hg := hr.good
  unfold curD
  cases hc : fc.cur with
  | none =>
    rw [hc] at hg
    exact ⟨fun r h => by simp at h, fun r h => by simp at h, hg⟩
  | some s =>
    rw [hc] at hg
    exact ⟨hg.i1, hg.i2, hg.i3⟩

/-- the entry state fits the type of a label of the loop -/
theorem entry_le {fc : FC} (hr : Rel fc) {s : AState} (hc : fc.cur = some s) (X : List Nat) :
    s.le { lv := namedRegs fc.blocks, d := curD fc ++ X } = true := by
  have hg : Good fc.ltypes fc.blocks s := by have := hr.good; rw [hc] at this; exact this
  rw [le_iff]
  exact ⟨hg.lv, fun x hx => List.mem_append.mpr (Or.inl (by simpa [curD, hc] using hx))⟩

/-- behind the loop (and at every label of it that lies outside the body): the label type is a good state for the
    old block stack, once everything the loop captures is flagged -/
theorem exit_good {Λ Λ' : List (Nat × AState)} {bs bs' : List Block} {D X : List Nat} (hc : Chain bs)
    (hd : DProps Λ bs D) (hE : Ext Λ Λ') (ht : TExt bs bs') (hX : ∀ r ∈ X, r < topOf bs)
    (ha : AllowedB Λ X bs) (hf : ∀ r ∈ X, ownerFlag bs' r = true) :
    Good Λ' bs' { lv := namedRegs bs, d := D ++ X } := by
  refine ⟨by rw [ht.named]; exact fun r h => h, ?_, ?_, ?_⟩
  · intro r hr
    rw [ht.topOf]
    rcases List.mem_append.mp hr with h | h
    · exact hd.i1 r h
    · exact hX r h
  · intro r hr hb
    rcases List.mem_append.mp hr with h | h
    · exact ht.ownerFlag r (hd.i2 r h (by rw [← ht.loopBase]; exact hb))
    · exact hf r h
  · refine ht.loopsOK (loopsOK_mono hE (fun r hr => ?_) (loopsOK_union hd.i3 ha))
    simp only [List.mem_append] at hr ⊢
    exact hr.symm

/-- the body's entry: a new loop block on top of the old stack -/
theorem body_good {Λ : List (Nat × AState)} {bs : List Block} {D X extra : List Nat} {nb : Block} {l : Nat} {τb : AState}
    (hc : Chain bs) (hd : DProps Λ bs D) (hX : ∀ r ∈ X, r < topOf bs) (ha : AllowedB Λ X bs)
    (hbase : nb.base = topOf bs) (hbrk : nb.brk = some l) (hτ : lookupTy Λ l = some τb)
    (hτlv : ∀ r ∈ τb.lv, r ∈ namedRegs bs) (hτd : ∀ r ∈ D ++ X, r ∈ τb.d)
    (hextra : ∀ r ∈ namedRegs (nb :: bs), r ∈ extra ++ namedRegs bs) :
    Good Λ (nb :: bs) { lv := extra ++ namedRegs bs, d := D ++ X } := by
  have hlt : ∀ r ∈ D ++ X, r < nb.base := fun r hr => by
    rw [hbase]
    rcases List.mem_append.mp hr with h | h
    · exact hd.i1 r h
    · exact hX r h
  refine ⟨hextra, ?_, ?_, ⟨?_, ?_⟩⟩
  · intro r hr; have := hlt r hr; simp only [topOf]; omega
  · intro r hr hb
    have := hlt r hr
    simp only [loopBase, hbrk, Option.isSome_some, if_true] at hb
    omega
  · intro l' hl'
    rw [hbrk] at hl'; cases hl'
    exact ⟨τb, hτ, hτlv, fun r hr _ => hτd r hr⟩
  · refine loopsOK_mono (Ext.refl _) (fun r hr => ?_) (loopsOK_union hd.i3 ha)
    simp only [List.mem_append] at hr ⊢
    exact hr.symm

/-- the end of a loop body, behind the CLOSE that LeaveBlock / CloseUpvalues emit when the block has captured
    locals: control may pass to any label typed like the loop's labels -/
theorem body_end_le {Λ : List (Nat × AState)} {b2 p2 : Block} {rest2 : List Block} {s2 τ : AState} {l : Nat}
    (hc : Chain (b2 :: p2 :: rest2)) (hbrk : b2.brk = some l) (hg : Good Λ (b2 :: p2 :: rest2) s2)
    (hτlv : ∀ r ∈ τ.lv, r ∈ namedRegs (p2 :: rest2)) (hτd : ∀ r ∈ s2.d, r < b2.base → r ∈ τ.d) :
    (if b2.ref then s2.closeAt b2.base else s2).le τ = true := by
  have hbase : b2.base = topOf (p2 :: rest2) := chain_base hc
  have hnamed : ∀ r ∈ namedRegs (p2 :: rest2), r ∈ s2.lv := fun r hr =>
    hg.lv r (by simp only [namedRegs, List.mem_append] at hr ⊢; exact Or.inl hr)
  rw [le_iff]
  split
  · simp only [AState.closeAt, List.mem_filter, decide_eq_true_eq]
    exact ⟨fun x hx => ⟨hnamed x (hτlv x hx), by rw [hbase]; exact named_lt hc.2 x (hτlv x hx)⟩,
      fun x hx => hτd x hx.1 hx.2⟩
  · rename_i hf
    have hf' : b2.ref = false := by simpa using hf
    refine ⟨fun x hx => hnamed x (hτlv x hx), fun x hx => ?_⟩
    by_cases hlt : x < b2.base
    · exact hτd x hx hlt
    · exfalso
      have h1 := hg.i1 x hx
      have h2 := hg.i2 x hx (by simp only [loopBase, hbrk, Option.isSome_some, if_true]; omega)
      simp only [topOf] at h1
      rw [ownerFlag_head (by omega) h1, hf'] at h2
      cases h2

theorem closeCur_some (s : AState) (b : Block) :
    closeCur (some s) b = some (if b.ref then s.closeAt b.base else s) := by
  unfold closeCur; split <;> rfl

theorem closeCur_none (b : Block) : closeCur none b = none := by
  unfold closeCur; split <;> rfl

/-- scan steps of the label / jump items -/
theorem scan_lbl {Λ : List (Nat × AState)} (gs : List GotoDesc) {σ : Option AState} {l : Nat} {τ : AState}
    (hτ : lookupTy Λ l = some τ) (hle : ∀ s, σ = some s → s.le τ = true) :
    scanStep Λ gs σ (.lbl l) = some (some τ) := by
  cases σ with
  | none => simp [scanStep, hτ]
  | some s => simp [scanStep, scanItem, hτ, hle s rfl]

theorem scan_jmp {Λ : List (Nat × AState)} (gs : List GotoDesc) {σ : Option AState} {l : Nat} {τ : AState}
    (hτ : lookupTy Λ l = some τ) (hle : ∀ s, σ = some s → s.le τ = true) :
    scanStep Λ gs σ (.jmp l) = some none := by
  cases σ with
  | none => rfl
  | some s => simp [scanStep, scanItem, hτ, hle s rfl]

theorem scan_cjmp {Λ : List (Nat × AState)} (gs : List GotoDesc) {σ : Option AState} {l : Nat} {τ : AState}
    (hτ : lookupTy Λ l = some τ) (hle : ∀ s, σ = some s → s.le τ = true) :
    scanStep Λ gs σ (.cjmp l) = some σ := by
  cases σ with
  | none => rfl
  | some s => simp [scanStep, scanItem, hτ, hle s rfl]

end GLua.CloseC
