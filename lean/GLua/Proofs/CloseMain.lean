/-
  compile_establishes_discipline, goto-free fragment: the statement cases.
-/
import GLua.Proofs.CloseOps

namespace GLua.CloseC
open GLua

/-- the induction hypothesis for a sub-statement -/
def IH (s : Stmt) : Prop :=
  ∀ (fc : FC) (tail : Bool) (rest : Stmt) (fc' : FC), Rel fc → fc.gotos = [] →
    AllowedB fc.ltypes (freeCaps fc.regTop s).1 fc.blocks → compileChunk fc s tail rest = .ok fc' → Post fc s fc'

theorem Post.gotos {fc fc' : FC} {s : Stmt} (h : Post fc s fc') (hg : fc.gotos = []) : fc'.gotos = [] := by
  rw [h.adv.gotos, hg]

theorem post_skip (fc : FC) (hr : Rel fc) : Post fc .skip fc :=
  ⟨hr, Adv.refl fc, BExt.refl _, rfl, fun r h => Or.inl h, fun r h => by simp [freeCaps] at h⟩

theorem post_seq {a b : Stmt} (iha : IH a) (ihb : IH b) : IH (.seq a b) := by
  intro fc tail rest fc' hr hg ha h
  simp only [compileChunk, bind, Except.bind] at h
  cases h1 : compileChunk fc a (tail && b.onlyLabels) (.seq b rest) with
  | error e => simp [h1] at h
  | ok fc1 =>
    simp only [h1] at h
    have hsub1 : ∀ r ∈ (freeCaps fc.regTop a).1, r ∈ (freeCaps fc.regTop (.seq a b)).1 := fun r hr' => by
      simp only [freeCaps, List.mem_append]; exact Or.inl hr'
    have p1 := iha fc _ _ fc1 hr hg (AllowedB.mono (Ext.refl _) hsub1 (BExt.refl _) ha) h1
    have hsub2 : ∀ r ∈ (freeCaps fc1.regTop b).1, r ∈ (freeCaps fc.regTop (.seq a b)).1 := fun r hr' => by
      simp only [freeCaps, List.mem_append]; rw [p1.top] at hr'; exact Or.inr hr'
    have p2 := ihb fc1 _ _ fc' p1.rel (p1.gotos hg) (AllowedB.mono p1.adv.ext hsub2 p1.bext ha) h
    refine ⟨p2.rel, p1.adv.trans p2.adv, p1.bext.trans p2.bext, ?_, ?_, ?_⟩
    · rw [p2.top, p1.top]; rfl
    · intro r hr'
      rcases p2.prov r hr' with h2 | h2
      · rcases p1.prov r h2 with h3 | h3
        · exact Or.inl h3
        · exact Or.inr (hsub1 r h3)
      · exact Or.inr (hsub2 r h2)
    · intro r hr'
      simp only [freeCaps, List.mem_append] at hr'
      rcases hr' with h2 | h2
      · exact p2.bext.ownerFlag p1.rel.geo.chain r (p1.flag r h2)
      · rw [← p1.top] at h2; exact p2.flag r h2

@[simp] theorem regd_cur (fc : FC) (b : Block) (rest : List Block) : (fc.regd b rest).cur = fc.cur := rfl
@[simp] theorem regd_ltypes (fc : FC) (b : Block) (rest : List Block) : (fc.regd b rest).ltypes = fc.ltypes := rfl
@[simp] theorem regd_gotos (fc : FC) (b : Block) (rest : List Block) : (fc.regd b rest).gotos = fc.gotos := rfl
@[simp] theorem regd_regTop (fc : FC) (b : Block) (rest : List Block) : (fc.regd b rest).regTop = fc.regTop + 1 := rfl
@[simp] theorem regd_blocks (fc : FC) (b : Block) (rest : List Block) :
    (fc.regd b rest).blocks = { b with nnames := b.nnames + 1 } :: rest := rfl

theorem regd_adv (fc : FC) (b : Block) (rest : List Block) : Adv fc (fc.regd b rest) :=
  Adv.silent rfl rfl rfl ⟨[], by simp⟩ (Nat.le_refl _)

/-- registering a local and storing into it: the state `s.declare top` fits the grown block -/
theorem regd_good {fc : FC} (hr : Rel fc) {b : Block} {rest : List Block} (hb : fc.blocks = b :: rest) {s : AState}
    (hs : Good fc.ltypes fc.blocks s) : Good fc.ltypes (fc.regd b rest).blocks (s.declare fc.regTop) := by
  have hc := hr.geo.chain
  have htop : fc.regTop = b.base + b.nnames := by have := hr.geo.top; rw [hb] at this; exact this
  rw [hb] at hc hs
  refine (regd_bext b rest).good hc (Ext.refl _) hs (fun r hr' => ?_) (fun r hr' => hr')
  simp only [AState.declare, List.mem_cons]
  rcases regd_named hr' with h | h
  · exact Or.inr (hs.lv r h)
  · exact Or.inl (by rw [htop]; exact h)

/-- the registered, not yet stored-to register: the old state still fits (the hidden control registers of a for loop) -/
theorem regd_good_hidden {fc : FC} (hr : Rel fc) {b : Block} {rest : List Block} (hb : fc.blocks = b :: rest) {s : AState}
    (hs : Good fc.ltypes fc.blocks s) (hh : b.nnames < b.hidden) : Good fc.ltypes (fc.regd b rest).blocks s := by
  have hc := hr.geo.chain
  rw [hb] at hc hs
  refine (regd_bext b rest).good hc (Ext.refl _) hs (fun r hr' => ?_) (fun r hr' => hr')
  rcases regd_named hr' with h | h
  · exact hs.lv r h
  · exfalso
    simp only [regd_blocks, namedRegs, List.mem_append, List.mem_map, List.mem_range] at hr'
    rcases hr' with h1 | ⟨i, hi, h2⟩
    · have := named_lt (chain_tail hc) r h1
      have := chain_base hc
      omega
    · omega

/-- RegisterLocalVar followed by the store that starts the new variable -/
structure DeclRes (fc fc' : FC) : Prop where
  rel   : Rel fc'
  adv   : Adv fc fc'
  bext  : BExt fc.blocks fc'.blocks
  top   : fc'.regTop = fc.regTop + 1
  curd  : curD fc' = curD fc

theorem declare_step {fc : FC} (hr : Rel fc) (v : OVal) :
    ∃ b rs, fc.blocks = b :: rs ∧ fc.registerLocalVar = .ok (fc.regTop, fc.regd b rs) ∧
      DeclRes fc ((fc.regd b rs).emit (.declare fc.regTop v)) := by
  obtain ⟨b, rs, hb, hreg⟩ := register_spec hr.geo
  refine ⟨b, rs, hb, hreg, ?_⟩
  have hgeo1 := regd_geo hr.geo hb
  have hscan : scanStep (fc.regd b rs).ltypes (fc.regd b rs).gotos (fc.regd b rs).cur (.declare fc.regTop v) =
      some (fc.cur.map (·.declare fc.regTop)) := by
    simp only [regd_cur]
    cases hc : fc.cur with
    | none => rfl
    | some s =>
      have hgd : Good fc.ltypes fc.blocks s := by have := hr.good; rw [hc] at this; exact this
      have hnm : fc.regTop ∉ s.d := by
        intro hm; have := hgd.i1 _ hm; rw [← hr.geo.top] at this; omega
      simp [scanStep, scanItem, hnm]
  obtain ⟨hadv, hcur⟩ := emit_adv _ _ hscan
  refine ⟨⟨⟨hgeo1.ne, hgeo1.chain, hgeo1.top, hgeo1.keys⟩, ?_⟩, (regd_adv fc b rs).trans hadv, ?_, rfl, ?_⟩
  · show GoodO fc.ltypes (fc.regd b rs).blocks _
    rw [hcur]
    cases hc : fc.cur with
    | none =>
      have := hr.good; rw [hc, hb] at this
      exact (regd_bext b rs).loopsOK this
    | some s =>
      have hgd : Good fc.ltypes fc.blocks s := by have := hr.good; rw [hc] at this; exact this
      exact regd_good hr hb hgd
  · show BExt fc.blocks (fc.regd b rs).blocks
    rw [hb]; exact regd_bext b rs
  · unfold curD
    rw [hcur]
    cases hc : fc.cur with
    | none => rfl
    | some s => rfl

theorem post_localDecl (v : Int) : IH (.localDecl v) := by
  intro fc tail rest fc' hr hg _ h
  obtain ⟨b, rs, hb, hreg, res⟩ := declare_step hr (some (.int v))
  simp only [compileChunk, hreg, bind, Except.bind] at h
  cases h
  exact ⟨res.rel, res.adv, res.bext, res.top, fun r hr' => Or.inl (by rw [← res.curd]; exact hr'),
    fun r hr' => by simp [freeCaps] at hr'⟩

theorem post_use : IH .use := by
  intro fc tail rest fc' hr hg _ h
  simp only [compileChunk] at h
  cases h
  refine post_emit_same hr _ _ ?_ rfl
  cases hc : fc.cur with
  | none => rfl
  | some s =>
    have hgd : Good fc.ltypes fc.blocks s := by have := hr.good; rw [hc] at this; exact this
    have : subList (namedRegs fc.blocks) s.lv = true := by rw [subList_iff]; exact hgd.lv
    simp [scanStep, scanItem, this]

theorem post_poke (v : Int) : IH (.poke v) := by
  intro fc tail rest fc' hr hg _ h
  simp only [compileChunk] at h
  cases h
  refine post_emit_same hr _ _ ?_ rfl
  cases hc : fc.cur <;> rfl

theorem post_assign (r : Nat) (v : Int) : IH (.assign r v) := by
  intro fc tail rest fc' hr hg _ h
  simp only [compileChunk] at h
  split at h
  · rename_i hn
    cases h
    refine post_emit_same hr _ _ ?_ rfl
    cases hc : fc.cur with
    | none => rfl
    | some s =>
      have hgd : Good fc.ltypes fc.blocks s := by have := hr.good; rw [hc] at this; exact this
      have : r ∈ s.lv := hgd.lv r ((isNamed_iff _ _).mp hn)
      simp [scanStep, scanItem, this]
  · cases h

/-- an emit after which the code is unreachable -/
theorem post_emit_dead {fc : FC} (hr : Rel fc) (s : Stmt) (it : Item)
    (hscan : scanStep fc.ltypes fc.gotos fc.cur it = some none)
    (hf : freeCaps fc.regTop s = ([], fc.regTop)) : Post fc s (fc.emit it) := by
  obtain ⟨hadv, hcur⟩ := emit_adv fc it hscan
  refine ⟨rel_emit hr it hcur hr.good.loops_nil, hadv, BExt.refl _, by simp [hf], ?_, by simp [hf]⟩
  intro r hr'
  simp [curD, hcur] at hr'

theorem post_ret : IH .ret := by
  intro fc tail rest fc' hr hg _ h
  simp only [compileChunk] at h
  cases h
  refine post_emit_dead hr _ _ ?_ rfl
  cases hc : fc.cur <;> rfl

theorem post_capture (caps : List Nat) : IH (.capture caps) := by
  intro fc tail rest fc' hr hg ha h
  simp only [compileChunk] at h
  have res := closure_spec hr ha h
  exact ⟨res.rel, res.adv, res.text.toBExt, res.top, res.prov, res.flag⟩

theorem post_localFn (caps : List Nat) (self : Bool) : IH (.localFn caps self) := by
  intro fc tail rest fc' hr hg ha h
  obtain ⟨b, rs, hb, hreg, res⟩ := declare_step hr (some (.ref 0))
  simp only [compileChunk, hreg, bind, Except.bind] at h
  have ha' : AllowedB ((fc.regd b rs).emit (.declare fc.regTop (some (.ref 0)))).ltypes
      (caps ++ if self = true then [fc.regTop] else []) ((fc.regd b rs).emit (.declare fc.regTop (some (.ref 0)))).blocks :=
    AllowedB.mono res.adv.ext (fun r hr' => hr') res.bext ha
  have cres := closure_spec res.rel ha' h
  refine ⟨cres.rel, res.adv.trans cres.adv, res.bext.trans cres.text.toBExt, by rw [cres.top, res.top]; rfl, ?_, cres.flag⟩
  intro r hr'
  rcases cres.prov r hr' with h1 | h1
  · left; rw [← res.curd]; exact h1
  · right; exact h1

@[simp] theorem optClose_blocks (fc : FC) (cl : Option Nat) : (fc.optClose cl).blocks = fc.blocks := by cases cl <;> rfl
@[simp] theorem optClose_ltypes (fc : FC) (cl : Option Nat) : (fc.optClose cl).ltypes = fc.ltypes := by cases cl <;> rfl
@[simp] theorem optClose_gotos (fc : FC) (cl : Option Nat) : (fc.optClose cl).gotos = fc.gotos := by cases cl <;> rfl
@[simp] theorem optClose_regTop (fc : FC) (cl : Option Nat) : (fc.optClose cl).regTop = fc.regTop := by cases cl <;> rfl
@[simp] theorem optClose_labelId (fc : FC) (cl : Option Nat) : (fc.optClose cl).labelId = fc.labelId := by cases cl <;> rfl

theorem optClose_adv (fc : FC) (cl : Option Nat) :
    Adv fc (fc.optClose cl) ∧ (fc.optClose cl).cur = fc.cur.map (·.closeBy cl) := by
  cases cl with
  | none => exact ⟨Adv.refl fc, by simp only [FC.optClose]; cases fc.cur <;> rfl⟩
  | some a =>
    have := emit_adv fc (.close a) (scanStep_close _ _ _ _)
    exact ⟨this.1, by simp only [FC.optClose]; rw [this.2]; cases fc.cur <;> rfl⟩

theorem post_brk : IH .brk := by
  intro fc tail rest fc' hr hg _ h
  simp only [compileChunk, FC.compileBreak, bind, Except.bind] at h
  cases hw : breakWalk fc.labelBreak false fc.blocks with
  | error e => simp [hw] at h
  | ok p =>
    obtain ⟨cl, label⟩ := p
    simp only [hw] at h
    cases h
    obtain ⟨h1, h1c⟩ := optClose_adv fc cl
    have hscan : scanStep (fc.optClose cl).ltypes (fc.optClose cl).gotos (fc.optClose cl).cur (.jmp label) = some none := by
      rw [h1c, optClose_ltypes]
      cases hc : fc.cur with
      | none => rfl
      | some s =>
        have hgd : Good fc.ltypes fc.blocks s := by have := hr.good; rw [hc] at this; exact this
        obtain ⟨τ, hτ, hle⟩ := breakWalk_sound fc.blocks fc.labelBreak false cl label hr.geo.chain hgd.lv hgd.i3
          (fun r hr' hb _ => hgd.i2 r hr' hb) (fun _ => hgd.i1) hw
        simp [scanStep, scanItem, hτ, hle]
    obtain ⟨hadv, hcur⟩ := emit_adv (fc.optClose cl) _ hscan
    refine ⟨⟨⟨?_, ?_, ?_, ?_⟩, ?_⟩, h1.trans hadv, ?_, ?_, ?_, fun r hr' => by simp [freeCaps] at hr'⟩
    · simp only [emit_blocks, optClose_blocks]; exact hr.geo.ne
    · simp only [emit_blocks, optClose_blocks]; exact hr.geo.chain
    · simp only [emit_blocks, emit_regTop, optClose_blocks, optClose_regTop]; exact hr.geo.top
    · simp only [emit_ltypes, emit_labelId, optClose_ltypes, optClose_labelId]; exact hr.geo.keys
    · rw [hcur]; simp only [emit_blocks, emit_ltypes, optClose_blocks, optClose_ltypes]; exact hr.good.loops_nil
    · simp only [emit_blocks, optClose_blocks]; exact BExt.refl _
    · simp only [emit_regTop, optClose_regTop]; rfl
    · intro r hr'; simp [curD, hcur] at hr'

end GLua.CloseC
