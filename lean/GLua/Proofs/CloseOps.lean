/-
  The block-level primitives of the compile model: RegisterLocalVar, the closure arm (markRef), CloseUpvalues,
  LeaveBlock, the walk of compileBreakStmt.
-/
import GLua.Proofs.CloseStmt

namespace GLua.CloseC
open GLua

/-! ### more on the frame relation -/

theorem BExt.topOf_le : ∀ {a b : List Block}, BExt a b → topOf a ≤ topOf b
  | [], [], _ => Nat.le_refl _
  | _ :: _, _ :: _, h => by simp only [topOf]; have := h.1; have := h.2.1; omega
  | [], _ :: _, h => h.elim
  | _ :: _, [], h => h.elim

theorem BExt.loopsOK {Λ : List (Nat × AState)} {D : List Nat} : ∀ {a b : List Block}, BExt a b → LoopsOK Λ D a → LoopsOK Λ D b
  | [], [], _, _ => trivial
  | _ :: _, _ :: _, h, hl => by
    refine ⟨fun l hb => ?_, TExt.loopsOK h.tail hl.2⟩
    obtain ⟨τ, h1, h2, h3⟩ := hl.1 l (by rw [← h.2.2.2.1]; exact hb)
    exact ⟨τ, h1, by rw [TExt.named h.tail]; exact h2, by rw [h.1]; exact h3⟩
  | [], _ :: _, h, _ => h.elim
  | _ :: _, [], h, _ => h.elim

theorem BExt.good {Λ Λ' : List (Nat × AState)} {a b : List Block} {s s' : AState} (h : BExt a b) (hc : Chain a)
    (hE : Ext Λ Λ') (hg : Good Λ a s) (hlv : ∀ r ∈ namedRegs b, r ∈ s'.lv) (hd : ∀ r ∈ s'.d, r ∈ s.d) : Good Λ' b s' :=
  ⟨hlv, fun r hr => Nat.lt_of_lt_of_le (hg.i1 r (hd r hr)) h.topOf_le,
   fun r hr hb => h.ownerFlag hc r (hg.i2 r (hd r hr) (by rw [← h.loopBase]; exact hb)),
   h.loopsOK (loopsOK_mono hE hd hg.i3)⟩

theorem BExt.chain : ∀ {a b : List Block}, BExt a b → Chain a → Chain b
  | [], [], _, _ => trivial
  | [x], [y], h, hc => by
    have : x.base = 0 := hc
    show y.base = 0
    rw [h.1]; exact this
  | x :: p :: r, y :: q :: r', h, hc => by
    have h2 := h.tail
    refine ⟨?_, TExt.chain h2 hc.2⟩
    rw [h.1, h2.1, h2.2.1]; exact hc.1
  | [], _ :: _, h, _ => h.elim
  | _ :: _, [], h, _ => h.elim
  | [_], _ :: _ :: _, h, _ => h.tail.elim
  | _ :: _ :: _, [_], h, _ => h.tail.elim

theorem loopsOK_union {Λ : List (Nat × AState)} {D caps : List Nat} :
    ∀ {bs : List Block}, LoopsOK Λ D bs → AllowedB Λ caps bs → LoopsOK Λ (caps ++ D) bs
  | [], _, _ => trivial
  | b :: rest, h, ha => by
    refine ⟨fun l hl => ?_, loopsOK_union h.2 ha.2⟩
    obtain ⟨τ, h1, h2, h3⟩ := h.1 l hl
    obtain ⟨τ', h1', h3'⟩ := ha.1 l hl
    rw [h1] at h1'; cases h1'
    refine ⟨τ, h1, h2, fun r hr hb => ?_⟩
    rcases List.mem_append.mp hr with hr | hr
    · exact h3' r hr hb
    · exact h3 r hr hb

/-! ### RegisterLocalVar -/

def FC.regd (fc : FC) (b : Block) (rest : List Block) : FC :=
  { fc with blocks := { b with nnames := b.nnames + 1 } :: rest, regTop := fc.regTop + 1 }

theorem register_spec {fc : FC} (hr : Geo fc) :
    ∃ b rest, fc.blocks = b :: rest ∧ fc.registerLocalVar = .ok (fc.regTop, fc.regd b rest) := by
  cases hb : fc.blocks with
  | nil => exact absurd hb hr.ne
  | cons b rest =>
    refine ⟨b, rest, rfl, ?_⟩
    have := hr.top
    rw [hb] at this
    simp only [FC.registerLocalVar, hb, FC.regd, topOf] at this ⊢
    rw [this]

theorem regd_bext (b : Block) (rest : List Block) : BExt (b :: rest) ({ b with nnames := b.nnames + 1 } :: rest) :=
  ⟨rfl, Nat.le_succ _, rfl, rfl, id, TExt.refl _⟩

theorem regd_geo {fc : FC} (hr : Geo fc) {b : Block} {rest : List Block} (hb : fc.blocks = b :: rest) : Geo (fc.regd b rest) := by
  refine ⟨by simp [FC.regd], ?_, ?_, hr.keys⟩
  · have := hr.chain; rw [hb] at this
    exact (regd_bext b rest).chain this
  · have := hr.top; rw [hb] at this
    simp only [FC.regd, topOf] at this ⊢; omega

theorem regd_named {b : Block} {rest : List Block} {r : Nat}
    (h : r ∈ namedRegs ({ b with nnames := b.nnames + 1 } :: rest)) : r ∈ namedRegs (b :: rest) ∨ r = b.base + b.nnames := by
  simp only [namedRegs, List.mem_append, List.mem_map, List.mem_range] at h ⊢
  rcases h with h | ⟨i, hi, rfl⟩
  · exact Or.inl (Or.inl h)
  · by_cases hlt : i < b.nnames - b.hidden
    · exact Or.inl (Or.inr ⟨i, hlt, rfl⟩)
    · right; omega

/-! ### the closure arm -/

theorem markRef_text (r : Nat) : ∀ bs : List Block, TExt bs (markRef r bs)
  | [] => trivial
  | b :: rest => by
    simp only [markRef]
    split
    · exact ⟨rfl, rfl, rfl, rfl, fun _ => rfl, TExt.refl _⟩
    · exact ⟨rfl, rfl, rfl, rfl, id, markRef_text r rest⟩

theorem markRefs_text : ∀ (caps : List Nat) (bs : List Block), TExt bs (markRefs caps bs)
  | [], bs => TExt.refl bs
  | r :: rest, bs => by
    simp only [markRefs, List.foldl_cons]
    exact TExt.trans (markRef_text r bs) (markRefs_text rest (markRef r bs))

theorem markRef_flag (r : Nat) : ∀ bs : List Block, (∃ b ∈ bs, b.base ≤ r ∧ r < b.base + b.nnames) → ownerFlag (markRef r bs) r = true
  | [], h => by obtain ⟨b, hb, _⟩ := h; simp at hb
  | b :: rest, h => by
    simp only [markRef]
    split
    · rename_i hc
      simp only [ownerFlag, hc, if_true]
    · rename_i hc
      simp only [ownerFlag, hc]
      apply markRef_flag r rest
      obtain ⟨b', hb', h1, h2⟩ := h
      rcases List.mem_cons.mp hb' with rfl | hb'
      · exfalso; apply hc; simp [h1, h2]
      · exact ⟨b', hb', h1, h2⟩

theorem named_owned : ∀ {bs : List Block} {r : Nat}, r ∈ namedRegs bs → ∃ b ∈ bs, b.base ≤ r ∧ r < b.base + b.nnames
  | [], r, h => by simp [namedRegs] at h
  | b :: rest, r, h => by
    simp only [namedRegs, List.mem_append, List.mem_map, List.mem_range] at h
    rcases h with h | ⟨i, hi, rfl⟩
    · obtain ⟨b', hb', h1⟩ := named_owned h
      exact ⟨b', List.mem_cons_of_mem _ hb', h1⟩
    · exact ⟨b, List.mem_cons_self .., by omega, by omega⟩

theorem markRefs_flag : ∀ (caps : List Nat) (bs : List Block), (∀ r ∈ caps, r ∈ namedRegs bs) →
    ∀ r ∈ caps, ownerFlag (markRefs caps bs) r = true
  | [], _, _, r, hr => by simp at hr
  | c :: rest, bs, hn, r, hr => by
    simp only [markRefs, List.foldl_cons]
    have hn' : ∀ r ∈ rest, r ∈ namedRegs (markRef c bs) := fun r hr => by
      rw [(markRef_text c bs).named]; exact hn r (List.mem_cons_of_mem _ hr)
    rcases List.mem_cons.mp hr with rfl | hr
    · exact (markRefs_text rest (markRef r bs)).ownerFlag r (markRef_flag r bs (named_owned (hn r (List.mem_cons_self ..))))
    · exact markRefs_flag rest (markRef c bs) hn' r hr

theorem isNamed_iff (bs : List Block) (r : Nat) : isNamed bs r = true ↔ r ∈ namedRegs bs := by
  simp [isNamed]

/-- result of the closure arm -/
structure ClosureRes (fc : FC) (caps : List Nat) (fc' : FC) : Prop where
  rel   : Rel fc'
  adv   : Adv fc fc'
  text  : TExt fc.blocks fc'.blocks
  top   : fc'.regTop = fc.regTop
  prov  : ∀ r ∈ curD fc', r ∈ curD fc ∨ r ∈ caps
  flag  : ∀ r ∈ caps, ownerFlag fc'.blocks r = true

theorem closure_spec {fc fc' : FC} {caps : List Nat} (hr : Rel fc) (ha : AllowedB fc.ltypes caps fc.blocks)
    (h : fc.closure caps = .ok fc') : ClosureRes fc caps fc' := by
  by_cases hall : caps.all (isNamed fc.blocks) = true
  · simp only [FC.closure, checkCaps, hall, if_true, bind, Except.bind] at h
    cases h
    have hnamed : ∀ r ∈ caps, r ∈ namedRegs fc.blocks := fun r hr' => by
      rw [← isNamed_iff]; exact (List.all_eq_true.mp hall) r hr'
    have htext := markRefs_text caps fc.blocks
    have hflag := markRefs_flag caps fc.blocks hnamed
    -- the scan step
    have hscan : scanStep fc.ltypes fc.gotos fc.cur (.capture caps) =
        some (fc.cur.map fun s => { s with d := caps ++ s.d }) := by
      cases hc : fc.cur with
      | none => rfl
      | some s =>
        have hg : Good fc.ltypes fc.blocks s := by have := hr.good; rw [hc] at this; exact this
        have : subList caps s.lv = true := by
          rw [subList_iff]; exact fun x hx => hg.lv x (hnamed x hx)
        simp [scanStep, scanItem, this]
    obtain ⟨hadv, hcur⟩ := emit_adv fc _ hscan
    refine ⟨⟨⟨?_, ?_, ?_, ?_⟩, ?_⟩, ⟨hadv.scans, hadv.lext, hadv.gotos, hadv.lid⟩, htext, rfl, ?_, hflag⟩
    · intro he
      have := htext
      simp only [emit_blocks] at he
      rw [he] at this
      cases hb : fc.blocks with
      | nil => exact hr.geo.ne hb
      | cons b rest => rw [hb] at this; exact this
    · exact htext.chain hr.geo.chain
    · show fc.regTop = topOf (markRefs caps fc.blocks)
      rw [htext.topOf]; exact hr.geo.top
    · exact hr.geo.keys
    · show GoodO fc.ltypes (markRefs caps fc.blocks) (fc.emit (.capture caps)).cur
      rw [hcur]
      cases hc : fc.cur with
      | none =>
        have := hr.good; rw [hc] at this
        exact htext.loopsOK this
      | some s =>
        have hg : Good fc.ltypes fc.blocks s := by have := hr.good; rw [hc] at this; exact this
        refine ⟨by rw [htext.named]; exact hg.lv, ?_, ?_, htext.loopsOK (loopsOK_union hg.i3 ha)⟩
        · intro r hr'
          rw [htext.topOf]
          rcases List.mem_append.mp hr' with hr' | hr'
          · exact named_lt hr.geo.chain r (hnamed r hr')
          · exact hg.i1 r hr'
        · intro r hr' hb
          rcases List.mem_append.mp hr' with hr' | hr'
          · exact hflag r hr'
          · exact htext.ownerFlag r (hg.i2 r hr' (by rw [← htext.loopBase]; exact hb))
    · intro r hr'
      show r ∈ curD fc ∨ r ∈ caps
      replace hr' : r ∈ curD (fc.emit (.capture caps)) := hr'
      unfold curD at hr' ⊢
      rw [hcur] at hr'
      cases hc : fc.cur with
      | none => simp [hc] at hr'
      | some s =>
        simp only [hc, Option.map_some, List.mem_append] at hr' ⊢
        rcases hr' with h1 | h1
        · exact Or.inr h1
        · exact Or.inl h1
  · simp [FC.closure, checkCaps, hall, bind, Except.bind] at h

/-! ### CloseUpvalues / LeaveBlock -/

theorem scanStep_close (Λ : List (Nat × AState)) (gs : List GotoDesc) (σ : Option AState) (a : Nat) :
    scanStep Λ gs σ (.close a) = some (σ.map (·.closeAt a)) := by
  cases σ <;> rfl

/-- the ghost state behind the optional CLOSE of a block -/
def closeCur (σ : Option AState) (b : Block) : Option AState := if b.ref then σ.map (·.closeAt b.base) else σ

theorem closeUpvalues_spec {fc : FC} {b p : Block} {rest : List Block} (hb : fc.blocks = b :: p :: rest)
    (hc : Chain fc.blocks) :
    fc.closeUpvalues = .ok (if b.ref then some b.base else none, if b.ref then fc.emit (.close b.base) else fc) := by
  rw [hb] at hc
  have hbase : b.base = p.base + p.nnames := hc.1
  simp only [FC.closeUpvalues, hb, Block.lastIndex]
  split
  · rw [hbase]
  · rfl

theorem closeUpvalues_adv {fc : FC} (b : Block) :
    Adv fc (if b.ref then fc.emit (.close b.base) else fc) ∧
      (if b.ref then fc.emit (.close b.base) else fc).cur = closeCur fc.cur b := by
  unfold closeCur
  split
  · exact emit_adv fc _ (scanStep_close _ _ _ _)
  · exact ⟨Adv.refl fc, rfl⟩

def FC.popped (fc : FC) (b p : Block) (rest : List Block) : FC :=
  { (if b.ref then fc.emit (.close b.base) else fc) with gotos := [], blocks := p :: rest, regTop := b.base }

theorem leaveBlock_spec {fc : FC} {b p : Block} {rest : List Block} (hb : fc.blocks = b :: p :: rest)
    (hc : Chain fc.blocks) (hg : fc.gotos = []) :
    fc.leaveBlock = .ok (if b.ref then some b.base else none, fc.popped b p rest) := by
  have hbase : b.base = p.base + p.nnames := by rw [hb] at hc; exact hc.1
  rw [FC.leaveBlock, closeUpvalues_spec hb hc]
  cases hf : b.ref
  · simp [bind, Except.bind, hb, hg, resolveWithParent, FC.popped, Block.lastIndex, hbase, hf]
  · simp [bind, Except.bind, hb, hg, resolveWithParent, FC.popped, Block.lastIndex, hbase, hf]

@[simp] theorem popped_blocks (fc : FC) (b p : Block) (rest : List Block) : (fc.popped b p rest).blocks = p :: rest := rfl
@[simp] theorem popped_regTop (fc : FC) (b p : Block) (rest : List Block) : (fc.popped b p rest).regTop = b.base := rfl
@[simp] theorem popped_ltypes (fc : FC) (b p : Block) (rest : List Block) : (fc.popped b p rest).ltypes = fc.ltypes := by
  unfold FC.popped; split <;> rfl
@[simp] theorem popped_labelId (fc : FC) (b p : Block) (rest : List Block) : (fc.popped b p rest).labelId = fc.labelId := by
  unfold FC.popped; split <;> rfl
theorem popped_cur (fc : FC) (b p : Block) (rest : List Block) : (fc.popped b p rest).cur = closeCur fc.cur b := by
  have := (closeUpvalues_adv (fc := fc) b).2
  unfold FC.popped
  exact this

theorem popped_adv {fc : FC} (b p : Block) (rest : List Block) (hg : fc.gotos = []) : Adv fc (fc.popped b p rest) := by
  have h1 := (closeUpvalues_adv (fc := fc) b).1
  refine Adv.trans h1 (Adv.silent rfl rfl ?_ ⟨[], by simp [FC.popped]⟩ (Nat.le_refl _))
  show ([] : List GotoDesc) = _
  rw [h1.gotos, hg]

theorem popped_geo {fc : FC} (hr : Geo fc) {b p : Block} {rest : List Block} (hb : fc.blocks = b :: p :: rest) :
    Geo (fc.popped b p rest) := by
  have hc := hr.chain
  rw [hb] at hc
  refine ⟨by simp, by simpa using hc.2, by simpa [topOf] using hc.1, by simpa using hr.keys⟩

/-- leaving a block that is not a loop body: the scan state behind the optional CLOSE fits the parent chain -/
theorem pop_good {Λ : List (Nat × AState)} {b p : Block} {rest : List Block} {s : AState}
    (hc : Chain (b :: p :: rest)) (hbrk : b.brk = none) (hg : Good Λ (b :: p :: rest) s) :
    Good Λ (p :: rest) (if b.ref then s.closeAt b.base else s) := by
  have hbase : b.base = topOf (p :: rest) := chain_base hc
  have hlb : loopBase (b :: p :: rest) = loopBase (p :: rest) := by simp [loopBase, hbrk]
  have hnamed : ∀ r ∈ namedRegs (p :: rest), r ∈ s.lv := fun r hr =>
    hg.lv r (by simp only [namedRegs, List.mem_append] at hr ⊢; exact Or.inl hr)
  -- without the flag nothing of the block may be captured
  have hlow : b.ref = false → ∀ r ∈ s.d, r < b.base := by
    intro hf r hr
    by_cases hlt : r < b.base
    · exact hlt
    · exfalso
      have h1 := hg.i1 r hr
      have h2 := hg.i2 r hr (by rw [hlb]; have := loopBase_le hc.2; omega)
      simp only [topOf] at h1
      rw [ownerFlag_head (by omega) h1, hf] at h2
      cases h2
  have hown : ∀ r ∈ s.d, r < b.base → loopBase (p :: rest) ≤ r → ownerFlag (p :: rest) r = true := by
    intro r hr hlt hb
    have := hg.i2 r hr (by rw [hlb]; exact hb)
    rwa [ownerFlag_lt_base hlt] at this
  split
  · rename_i hf
    refine ⟨fun r hr => ?_, fun r hr => ?_, fun r hr hb => ?_, loopsOK_mono (Ext.refl _) (fun r hr => ?_) hg.i3.2⟩
    · simp only [AState.closeAt, List.mem_filter, decide_eq_true_eq]
      exact ⟨hnamed r hr, by rw [hbase]; exact named_lt hc.2 r hr⟩
    · simp only [AState.closeAt, List.mem_filter, decide_eq_true_eq] at hr
      rw [← hbase]; exact hr.2
    · simp only [AState.closeAt, List.mem_filter, decide_eq_true_eq] at hr
      exact hown r hr.1 hr.2 hb
    · simp only [AState.closeAt, List.mem_filter, decide_eq_true_eq] at hr
      exact hr.1
  · rename_i hf
    have hf' : b.ref = false := by simpa using hf
    exact ⟨hnamed, fun r hr => by rw [← hbase]; exact hlow hf' r hr, fun r hr hb => hown r hr (hlow hf' r hr) hb, hg.i3.2⟩

theorem pop_goodO {Λ : List (Nat × AState)} {b p : Block} {rest : List Block} {σ : Option AState}
    (hc : Chain (b :: p :: rest)) (hbrk : b.brk = none) (hg : GoodO Λ (b :: p :: rest) σ) :
    GoodO Λ (p :: rest) (closeCur σ b) := by
  cases σ with
  | none =>
    have : closeCur none b = none := by unfold closeCur; split <;> rfl
    rw [this]; exact hg.2
  | some s =>
    have : closeCur (some s) b = some (if b.ref then s.closeAt b.base else s) := by
      unfold closeCur; split <;> rfl
    rw [this]; exact pop_good hc hbrk hg

/-! ### compileBreakStmt -/

theorem breakWalk_label {Λ : List (Nat × AState)} {D : List Nat} :
    ∀ (bs : List Block) (lb acc : Bool) (cl : Option Nat) (l : Nat), breakWalk lb acc bs = .ok (cl, l) → LoopsOK Λ D bs →
      ∃ τ, lookupTy Λ l = some τ
  | [], _, _, _, _, h, _ => by simp [breakWalk] at h
  | b :: rest, lb, acc, cl, l, h, hl => by
    simp only [breakWalk] at h
    cases hb : b.brk with
    | none => simp only [hb] at h; exact breakWalk_label rest lb _ cl l h hl.2
    | some label =>
      simp only [hb] at h
      obtain ⟨τ, h1, _, _⟩ := hl.1 label hb
      have : label = l := by
        split at h
        · split at h
          · cases h
          · cases h; rfl
        · cases h; rfl
      subst this
      exact ⟨τ, h1⟩

theorem breakWalk_sound {Λ : List (Nat × AState)} {s : AState} :
    ∀ (bs : List Block) (lb acc : Bool) (cl : Option Nat) (l : Nat),
      Chain bs → (∀ r ∈ namedRegs bs, r ∈ s.lv) → LoopsOK Λ s.d bs →
      (∀ r ∈ s.d, loopBase bs ≤ r → r < topOf bs → ownerFlag bs r = true) →
      (acc = false → ∀ r ∈ s.d, r < topOf bs) →
      breakWalk lb acc bs = .ok (cl, l) →
      ∃ τ, lookupTy Λ l = some τ ∧ (s.closeBy cl).le τ = true
  | [], _, _, _, _, _, _, _, _, _, h => by simp [breakWalk] at h
  | b :: rest, lb, acc, cl, l, hc, hlv, hl, hown, hacc, h => by
    have hbase : b.base = topOf rest := chain_base hc
    have hnrest : ∀ r ∈ namedRegs rest, r ∈ s.lv := fun r hr =>
      hlv r (by simp only [namedRegs, List.mem_append]; exact Or.inl hr)
    -- no flag so far and none on this block: nothing captured at or above its base
    have hlow : (acc || b.ref || (lb && !b.labels.isEmpty)) = false → ∀ r ∈ s.d, r < b.base := by
      intro hf r hr
      simp only [Bool.or_eq_false_iff] at hf
      replace hf := hf.1
      by_cases hlt : r < b.base
      · exact hlt
      · exfalso
        have h1 := hacc hf.1 r hr
        have hlb : loopBase (b :: rest) ≤ r := by
          have := loopBase_le hc
          simp only [loopBase]
          split
          · omega
          · have := loopBase_le (chain_tail hc); omega
        have h2 := hown r hr hlb h1
        simp only [topOf] at h1
        rw [ownerFlag_head (by omega) h1, hf.2] at h2
        cases h2
    simp only [breakWalk] at h
    cases hb : b.brk with
    | none =>
      simp only [hb] at h
      refine breakWalk_sound rest lb _ cl l (chain_tail hc) hnrest hl.2 ?_ ?_ h
      · intro r hr hlb hlt
        have := hown r hr (by simpa [loopBase, hb] using hlb) (by simp only [topOf]; omega)
        rwa [ownerFlag_lt_base (by omega)] at this
      · intro hf r hr
        rw [← hbase]; exact hlow hf r hr
    | some label =>
      simp only [hb] at h
      obtain ⟨τ, h1, h2, h3⟩ := hl.1 label hb
      by_cases hf : (acc || b.ref || (lb && !b.labels.isEmpty)) = true
      · simp only [hf, if_true] at h
        cases hrest : rest with
        | nil => simp [hrest] at h
        | cons p r' =>
          simp only [hrest] at h
          cases h
          refine ⟨τ, h1, ?_⟩
          have hpl : p.lastIndex = b.base := by rw [hbase, hrest]; rfl
          rw [le_iff]
          simp only [AState.closeBy, AState.closeAt, hpl, List.mem_filter, decide_eq_true_eq]
          refine ⟨fun x hx => ⟨hnrest x (h2 x hx), by rw [hbase]; exact named_lt (chain_tail hc) x (h2 x hx)⟩,
            fun x hx => h3 x hx.1 hx.2⟩
      · have hf' : (acc || b.ref || (lb && !b.labels.isEmpty)) = false := by simpa using hf
        simp only [hf'] at h
        cases h
        refine ⟨τ, h1, ?_⟩
        rw [le_iff]
        simp only [AState.closeBy]
        exact ⟨fun x hx => hnrest x (h2 x hx), fun x hx => h3 x hx (hlow hf' x hx)⟩

end GLua.CloseC
