/-
  The primitives of funcContext in the compile model: what they change, and that the code they add scans.
-/
import GLua.Proofs.CloseFrame

namespace GLua.CloseC
open GLua

/-- the code grew, the grown part scans from the old ghost state to the new one; label types only grew -/
structure Adv (fc fc' : FC) : Prop where
  scans : ∃ delta, fc'.code = fc.code ++ delta ∧ ∀ Λ, Ext fc'.ltypes Λ → scan Λ fc'.gotos fc.cur delta = some fc'.cur
  lext  : ∃ ext, fc'.ltypes = fc.ltypes ++ ext
  gotos : fc'.gotos = fc.gotos
  lid   : fc.labelId ≤ fc'.labelId

theorem Adv.refl (fc : FC) : Adv fc fc :=
  ⟨⟨[], by simp, fun _ _ => rfl⟩, ⟨[], by simp⟩, rfl, Nat.le_refl _⟩

theorem Adv.ext {a b : FC} (h : Adv a b) : Ext a.ltypes b.ltypes := by
  obtain ⟨e, he⟩ := h.lext
  rw [he]; exact ext_append _ _

theorem Adv.trans {a b c : FC} (h1 : Adv a b) (h2 : Adv b c) : Adv a c := by
  obtain ⟨d1, hc1, hs1⟩ := h1.scans
  obtain ⟨d2, hc2, hs2⟩ := h2.scans
  obtain ⟨e1, he1⟩ := h1.lext
  obtain ⟨e2, he2⟩ := h2.lext
  refine ⟨⟨d1 ++ d2, by rw [hc2, hc1, List.append_assoc], fun Λ hΛ => ?_⟩, ⟨e1 ++ e2, by rw [he2, he1, List.append_assoc]⟩,
    h2.gotos.trans h1.gotos, Nat.le_trans h1.lid h2.lid⟩
  have hg : c.gotos = b.gotos := h2.gotos
  have t1 := hs1 Λ (Ext.trans h2.ext hΛ)
  have t2 := hs2 Λ hΛ
  rw [hg] at t2 ⊢
  rw [scan_append, t1]
  exact t2

/-! ### fields -/

@[simp] theorem emit_blocks (fc : FC) (it : Item) : (fc.emit it).blocks = fc.blocks := rfl
@[simp] theorem emit_regTop (fc : FC) (it : Item) : (fc.emit it).regTop = fc.regTop := rfl
@[simp] theorem emit_labelId (fc : FC) (it : Item) : (fc.emit it).labelId = fc.labelId := rfl
@[simp] theorem emit_gotos (fc : FC) (it : Item) : (fc.emit it).gotos = fc.gotos := rfl
@[simp] theorem emit_ltypes (fc : FC) (it : Item) : (fc.emit it).ltypes = fc.ltypes := rfl
@[simp] theorem emit_code (fc : FC) (it : Item) : (fc.emit it).code = fc.code ++ [it] := rfl

@[simp] theorem newLabel_blocks (fc : FC) (τ : AState) : (fc.newLabel τ).2.blocks = fc.blocks := rfl
@[simp] theorem newLabel_regTop (fc : FC) (τ : AState) : (fc.newLabel τ).2.regTop = fc.regTop := rfl
@[simp] theorem newLabel_gotos (fc : FC) (τ : AState) : (fc.newLabel τ).2.gotos = fc.gotos := rfl
@[simp] theorem newLabel_code (fc : FC) (τ : AState) : (fc.newLabel τ).2.code = fc.code := rfl
@[simp] theorem newLabel_cur (fc : FC) (τ : AState) : (fc.newLabel τ).2.cur = fc.cur := rfl
@[simp] theorem newLabel_labelId (fc : FC) (τ : AState) : (fc.newLabel τ).2.labelId = fc.labelId + 1 := rfl
@[simp] theorem newLabel_ltypes (fc : FC) (τ : AState) : (fc.newLabel τ).2.ltypes = fc.ltypes ++ [(fc.labelId, τ)] := rfl
@[simp] theorem newLabel_id (fc : FC) (τ : AState) : (fc.newLabel τ).1 = fc.labelId := rfl

@[simp] theorem enterBlock_regTop (fc : FC) (l : Option Nat) (h : Nat) : (fc.enterBlock l h).regTop = fc.regTop := rfl
@[simp] theorem enterBlock_gotos (fc : FC) (l : Option Nat) (h : Nat) : (fc.enterBlock l h).gotos = fc.gotos := rfl
@[simp] theorem enterBlock_code (fc : FC) (l : Option Nat) (h : Nat) : (fc.enterBlock l h).code = fc.code := rfl
@[simp] theorem enterBlock_cur (fc : FC) (l : Option Nat) (h : Nat) : (fc.enterBlock l h).cur = fc.cur := rfl
@[simp] theorem enterBlock_labelId (fc : FC) (l : Option Nat) (h : Nat) : (fc.enterBlock l h).labelId = fc.labelId := rfl
@[simp] theorem enterBlock_ltypes (fc : FC) (l : Option Nat) (h : Nat) : (fc.enterBlock l h).ltypes = fc.ltypes := rfl
@[simp] theorem enterBlock_blocks (fc : FC) (l : Option Nat) (h : Nat) :
    (fc.enterBlock l h).blocks =
      { base := fc.regTop, nnames := 0, hidden := h, brk := l, firstGoto := fc.gotos.length } :: fc.blocks := rfl

/-- a step that adds no code and keeps the ghost state -/
theorem Adv.silent {fc fc' : FC} (hc : fc'.code = fc.code) (hcur : fc'.cur = fc.cur) (hg : fc'.gotos = fc.gotos)
    (hl : ∃ ext, fc'.ltypes = fc.ltypes ++ ext) (hid : fc.labelId ≤ fc'.labelId) : Adv fc fc' :=
  ⟨⟨[], by simp [hc], fun _ _ => by simp [scan, hcur]⟩, hl, hg, hid⟩

theorem newLabel_adv (fc : FC) (τ : AState) : Adv fc (fc.newLabel τ).2 :=
  Adv.silent rfl rfl rfl ⟨_, rfl⟩ (Nat.le_succ _)

theorem enterBlock_adv (fc : FC) (l : Option Nat) (h : Nat) : Adv fc (fc.enterBlock l h) :=
  Adv.silent rfl rfl rfl ⟨[], by simp⟩ (Nat.le_refl _)

/-- emitting an item whose check passes -/
theorem emit_adv (fc : FC) (it : Item) {σ' : Option AState} (h : scanStep fc.ltypes fc.gotos fc.cur it = some σ') :
    Adv fc (fc.emit it) ∧ (fc.emit it).cur = σ' := by
  have hcur : (fc.emit it).cur = σ' := by simp [FC.emit, h]
  refine ⟨⟨⟨[it], rfl, fun Λ hΛ => ?_⟩, ⟨[], by simp⟩, rfl, Nat.le_refl _⟩, hcur⟩
  rw [scan_single, hcur]
  exact scanStep_ext _ hΛ h

/-- the new label gets the type it was created with -/
theorem newLabel_lookup (fc : FC) (τ : AState) (hk : ∀ l t, (l, t) ∈ fc.ltypes → l < fc.labelId) :
    lookupTy (fc.newLabel τ).2.ltypes fc.labelId = some τ := by
  simp only [newLabel_ltypes]
  exact lookupTy_append_new (fun k t hm => by have := hk k t hm; omega)

end GLua.CloseC
