/-
  compile_establishes_discipline, goto-free fragment: `repeat … until` (the until expression is compiled inside the
  body's block and may capture its locals; the break target is the CLOSE of the block).
-/
import GLua.Proofs.CloseGenFor

namespace GLua.CloseC
open GLua

theorem four_labels (Λ : List (Nat × AState)) (L : Nat) (τ1 τ2 τ3 τ4 : AState) (hk : ∀ l t, (l, t) ∈ Λ → l < L) :
    let Λ' := Λ ++ [(L, τ1)] ++ [(L + 1, τ2)] ++ [(L + 2, τ3)] ++ [(L + 3, τ4)]
    lookupTy Λ' L = some τ1 ∧ lookupTy Λ' (L + 1) = some τ2 ∧ lookupTy Λ' (L + 2) = some τ3 ∧
      lookupTy Λ' (L + 3) = some τ4 ∧ (∀ l t, (l, t) ∈ Λ' → l < L + 4) ∧ Ext Λ Λ' := by
  intro Λ'
  obtain ⟨h1, h2, h3, hk3, hE⟩ := three_labels Λ L τ1 τ2 τ3 hk
  have h4 : lookupTy Λ' (L + 3) = some τ4 := lookupTy_append_new (fun k t hm => by have := hk3 k t hm; omega)
  refine ⟨lookupTy_append_left h1, lookupTy_append_left h2, lookupTy_append_left h3, h4, ?_, Ext.trans hE (ext_append _ _)⟩
  intro l t hm
  rw [List.mem_append] at hm
  rcases hm with hm | hm
  · have := hk3 l t hm; omega
  · simp only [List.mem_singleton, Prod.mk.injEq] at hm; omega

/-- the type of the break target of a repeat loop: the body's own captured locals are not closed yet -/
def thenTy (fc : FC) (b : Stmt) (cc : List Nat) : AState :=
  { lv := namedRegs fc.blocks, d := curD fc ++ (freeCaps fc.regTop b).1 ++ cc }

def repBlock (fc : FC) : Block :=
  { base := fc.regTop, nnames := 0, hidden := 0, brk := some (fc.labelId + 1), firstGoto := fc.gotos.length }

def repEnter (fc : FC) (b : Stmt) (cc : List Nat) : FC :=
  let τ := fc.loopTy (.repeatLoop b cc)
  let τt := thenTy fc b cc
  let fcL := ((((fc.newLabel τ).2.newLabel τt).2.newLabel τt).2.newLabel τ).2
  (fcL.emit (.lbl fc.labelId)).enterBlock (some (fc.labelId + 1))

theorem compile_repeat_eq (fc : FC) (b : Stmt) (cc : List Nat) (tail : Bool) (rest : Stmt) :
    compileChunk fc (.repeatLoop b cc) tail rest = (do
      let fc2 ← compileChunk (repEnter fc b cc) b false .skip
      let fc3 ← (if cc.isEmpty then .ok fc2 else fc2.closure cc)
      let fc5 := (fc3.emit (.cjmp (if fc3.headRef then fc.labelId + 2 else fc.labelId))).emit (.lbl (fc.labelId + 1))
      let (n, fc6) ← fc5.leaveBlock
      .ok (fc6.repeatTail fc.labelId (fc.labelId + 2) (fc.labelId + 3) n)) := by
  simp only [compileChunk]
  rfl

/-- what the repeat loop captures below itself -/
def repX (fc : FC) (b : Stmt) (cc : List Nat) : List Nat := (freeCaps fc.regTop (.repeatLoop b cc)).1

theorem repX_mem {fc : FC} {b : Stmt} {cc : List Nat} {r : Nat} :
    r ∈ repX fc b cc ↔ (r ∈ (freeCaps fc.regTop b).1 ∨ r ∈ cc) ∧ r < fc.regTop := by
  simp only [repX, freeCaps, List.mem_filter, List.mem_append, decide_eq_true_eq]

theorem thenTy_d {fc : FC} {b : Stmt} {cc : List Nat} {r : Nat} :
    r ∈ (thenTy fc b cc).d ↔ r ∈ curD fc ∨ r ∈ (freeCaps fc.regTop b).1 ∨ r ∈ cc := by
  simp [thenTy]

structure RepEnter (fc : FC) (b : Stmt) (cc : List Nat) (fcE : FC) : Prop where
  rel    : Rel fcE
  adv    : Adv fc fcE
  blocks : fcE.blocks = repBlock fc :: fc.blocks
  top    : fcE.regTop = fc.regTop
  curd   : curD fcE = curD fc ++ repX fc b cc
  lkI    : lookupTy fcE.ltypes fc.labelId = some (fc.loopTy (.repeatLoop b cc))
  lkT    : lookupTy fcE.ltypes (fc.labelId + 1) = some (thenTy fc b cc)
  lkE    : lookupTy fcE.ltypes (fc.labelId + 2) = some (thenTy fc b cc)
  lkO    : lookupTy fcE.ltypes (fc.labelId + 3) = some (fc.loopTy (.repeatLoop b cc))
  allow  : AllowedB fcE.ltypes (freeCaps fcE.regTop b).1 fcE.blocks

theorem rep_enter {fc : FC} {b : Stmt} {cc : List Nat} (hr : Rel fc)
    (ha : AllowedB fc.ltypes (repX fc b cc) fc.blocks) : RepEnter fc b cc (repEnter fc b cc) := by
  let τ := fc.loopTy (.repeatLoop b cc)
  let τt := thenTy fc b cc
  obtain ⟨hlI, hlT, hlE, hlO, hkeys, hext⟩ := four_labels fc.ltypes fc.labelId τ τt τt τ hr.geo.keys
  let fcL := ((((fc.newLabel τ).2.newLabel τt).2.newLabel τt).2.newLabel τ).2
  have hlt : fcL.ltypes = fc.ltypes ++ [(fc.labelId, τ)] ++ [(fc.labelId + 1, τt)] ++ [(fc.labelId + 2, τt)] ++ [(fc.labelId + 3, τ)] := rfl
  have hadvL : Adv fc fcL :=
    ((newLabel_adv fc τ).trans (newLabel_adv _ τt)).trans ((newLabel_adv _ τt).trans (newLabel_adv _ τ))
  have hscan : scanStep fcL.ltypes fcL.gotos fcL.cur (.lbl fc.labelId) = some (some τ) :=
    scan_lbl _ (by rw [hlt]; exact hlI) (fun s hs => entry_le hr hs _)
  obtain ⟨hadvC, hcurC⟩ := emit_adv fcL _ hscan
  have hextL : Ext fc.ltypes fcL.ltypes := by rw [hlt]; exact hext
  have hd := (Rel.dprops hr).ext hextL
  have haL : AllowedB fcL.ltypes (repX fc b cc) fc.blocks := AllowedB.mono hextL (fun _ h => h) (BExt.refl _) ha
  have hX : ∀ r ∈ repX fc b cc, r < topOf fc.blocks := fun r hr' => by
    rw [← hr.geo.top]; exact (repX_mem.mp hr').2
  have hτtd : ∀ r ∈ curD fc ++ repX fc b cc, r ∈ τt.d := by
    intro r hr'
    rw [thenTy_d]
    rcases List.mem_append.mp hr' with h | h
    · exact Or.inl h
    · exact Or.inr (repX_mem.mp h).1
  refine ⟨⟨⟨by simp [repEnter], ?_, ?_, ?_⟩, ?_⟩, ?_, rfl, rfl, ?_, by show lookupTy fcL.ltypes _ = _; rw [hlt]; exact hlI,
    by show lookupTy fcL.ltypes _ = _; rw [hlt]; exact hlT, by show lookupTy fcL.ltypes _ = _; rw [hlt]; exact hlE,
    by show lookupTy fcL.ltypes _ = _; rw [hlt]; exact hlO, ?_⟩
  · show Chain (repBlock fc :: fc.blocks)
    cases hb : fc.blocks with
    | nil => exact absurd hb hr.geo.ne
    | cons b0 rest0 =>
      have := hr.geo.top; rw [hb] at this
      have hc := hr.geo.chain; rw [hb] at hc
      exact ⟨this, hc⟩
  · show fc.regTop = topOf (repBlock fc :: fc.blocks)
    simp [topOf, repBlock]
  · show ∀ l t, (l, t) ∈ fcL.ltypes → l < fc.labelId + 4
    rw [hlt]; exact hkeys
  · show GoodO fcL.ltypes (repBlock fc :: fc.blocks) (repEnter fc b cc).cur
    have : (repEnter fc b cc).cur = some τ := hcurC
    rw [this]
    refine body_good (extra := []) (τb := τt) hr.geo.chain hd hX haL hr.geo.top rfl (by rw [hlt]; exact hlT)
      (fun r h => h) hτtd ?_
    intro r hr'
    simpa [namedRegs, repBlock] using hr'
  · exact (hadvL.trans hadvC).trans (enterBlock_adv _ _ _)
  · show curD (repEnter fc b cc) = _
    have : (repEnter fc b cc).cur = some τ := hcurC
    simp [curD, this]; rfl
  · show AllowedB fcL.ltypes (freeCaps fc.regTop b).1 (repBlock fc :: fc.blocks)
    refine ⟨fun l hl => ?_, ?_⟩
    · simp only [repBlock, Option.some.injEq] at hl
      subst hl
      refine ⟨τt, by rw [hlt]; exact hlT, fun r hr' _ => ?_⟩
      rw [thenTy_d]; exact Or.inr (Or.inl hr')
    · refine AllowedB.unfilter fc.regTop hr.geo.chain (Nat.le_of_eq hr.geo.top.symm) ?_
      refine AllowedB.mono (Ext.refl _) (fun r hr' => ?_) (BExt.refl _) haL
      simp only [List.mem_filter, decide_eq_true_eq] at hr'
      exact repX_mem.mpr ⟨Or.inl hr'.1, hr'.2⟩

/-- the optional closure of the until expression -/
theorem opt_closure {fc fc' : FC} {cc : List Nat} (hr : Rel fc) (ha : AllowedB fc.ltypes cc fc.blocks)
    (h : (if cc.isEmpty then Except.ok fc else fc.closure cc) = .ok fc') : ClosureRes fc cc fc' := by
  cases he : cc.isEmpty with
  | true =>
    rw [he] at h
    simp only [if_true, Except.ok.injEq] at h
    subst h
    have : cc = [] := by simpa using he
    subst this
    exact ⟨hr, Adv.refl _, TExt.refl _, rfl, fun r h => Or.inl h, fun r h => by simp at h⟩
  | false =>
    rw [he] at h
    simp only [Bool.false_eq_true, if_false] at h
    exact closure_spec hr ha h

theorem scan_close' (Λ : List (Nat × AState)) (gs : List GotoDesc) (s : AState) (a : Nat) :
    scanStep Λ gs (some s) (.close a) = some (some (s.closeAt a)) := rfl

theorem post_repeat {b : Stmt} {cc : List Nat} (ih : IH b) : IH (.repeatLoop b cc) := by
  intro fc tail rest fc' hr hg ha h
  rw [compile_repeat_eq] at h
  simp only [bind, Except.bind] at h
  have ha' : AllowedB fc.ltypes (repX fc b cc) fc.blocks := ha
  have we := rep_enter (b := b) (cc := cc) hr ha'
  let τ := fc.loopTy (.repeatLoop b cc)
  let τt := thenTy fc b cc
  have hτ : τ = ⟨namedRegs fc.blocks, curD fc ++ repX fc b cc⟩ := rfl
  cases h1 : compileChunk (repEnter fc b cc) b false .skip with
  | error e => simp [h1] at h
  | ok fc2 =>
    simp only [h1] at h
    have hgE : (repEnter fc b cc).gotos = [] := by rw [we.adv.gotos, hg]
    have p := ih _ _ _ fc2 we.rel hgE we.allow h1
    have hg2 : fc2.gotos = [] := p.gotos hgE
    obtain ⟨b2, p2, rest2, hb2, hbase2, hbrk2, htext2⟩ := body_blocks p.bext we.blocks hr.geo.ne
    simp only [repBlock] at hbase2 hbrk2
    have hext2 : Ext (repEnter fc b cc).ltypes fc2.ltypes := p.adv.ext
    have hextall2 : Ext fc.ltypes fc2.ltypes := Ext.trans we.adv.ext hext2
    -- the until expression
    have hacc : AllowedB fc2.ltypes cc fc2.blocks := by
      rw [hb2]
      refine ⟨fun l hl => ?_, ?_⟩
      · rw [hbrk2] at hl
        simp only [Option.some.injEq] at hl
        subst hl
        exact ⟨τt, hext2 _ _ we.lkT, fun r hr' _ => thenTy_d.mpr (Or.inr (Or.inr hr'))⟩
      · have h0 : AllowedB fc.ltypes cc fc.blocks := by
          refine AllowedB.unfilter fc.regTop hr.geo.chain (Nat.le_of_eq hr.geo.top.symm) ?_
          refine AllowedB.mono (Ext.refl _) (fun r hr' => ?_) (BExt.refl _) ha'
          simp only [List.mem_filter, decide_eq_true_eq] at hr'
          exact repX_mem.mpr ⟨Or.inr hr'.1, hr'.2⟩
        exact AllowedB.mono hextall2 (fun _ h => h) htext2.toBExt h0
    cases h3 : (if cc.isEmpty then Except.ok fc2 else fc2.closure cc) with
    | error e => rw [h3] at h; cases h
    | ok fc3 =>
      simp only [h3] at h
      have cres := opt_closure p.rel hacc h3
      have hg3 : fc3.gotos = [] := by rw [cres.adv.gotos]; exact hg2
      have hext3 : Ext fc2.ltypes fc3.ltypes := cres.adv.ext
      have hextE3 : Ext (repEnter fc b cc).ltypes fc3.ltypes := Ext.trans hext2 hext3
      -- the stack
      have ht23 := cres.text
      rw [hb2] at ht23
      cases hb3 : fc3.blocks with
      | nil => rw [hb3] at ht23; exact ht23.elim
      | cons b3 tl3 =>
        rw [hb3] at ht23
        cases tl3 with
        | nil => exact ht23.2.2.2.2.2.elim
        | cons p3 rest3 =>
          have hbase3 : b3.base = fc.regTop := ht23.1.trans hbase2
          have hbrk3 : b3.brk = some (fc.labelId + 1) := ht23.2.2.2.1.trans hbrk2
          have htext3 : TExt fc.blocks (p3 :: rest3) := htext2.trans ht23.2.2.2.2.2
          have hch3 := cres.rel.geo.chain
          rw [hb3] at hch3
          have hhead : fc3.headRef = b3.ref := by simp [FC.headRef, hb3]
          -- where the captured registers of the state behind the until expression come from
          have hprov3 : ∀ s, fc3.cur = some s → ∀ r ∈ s.d, r ∈ τt.d := by
            intro s hs r hr'
            rw [thenTy_d]
            rcases cres.prov r (by simpa [curD, hs] using hr') with h4 | h4
            · rcases p.prov r h4 with h5 | h5
              · rw [we.curd] at h5
                rcases List.mem_append.mp h5 with h6 | h6
                · exact Or.inl h6
                · exact Or.inr (repX_mem.mp h6).1
              · rw [we.top] at h5; exact Or.inr (Or.inl h5)
            · exact Or.inr (Or.inr h4)
          have hτtd_low : ∀ r ∈ τt.d, r < fc.regTop → r ∈ τ.d := by
            intro r hr' hlt
            rw [hτ]
            rcases thenTy_d.mp hr' with h4 | h4
            · exact List.mem_append.mpr (Or.inl h4)
            · exact List.mem_append.mpr (Or.inr (repX_mem.mpr ⟨h4, hlt⟩))
          have hnamed3 : ∀ r ∈ namedRegs fc.blocks, r ∈ namedRegs fc3.blocks := by
            intro r hr'
            rw [hb3]
            show r ∈ namedRegs (p3 :: rest3) ++ _
            exact List.mem_append.mpr (Or.inl (by rw [htext3.named]; exact hr'))
          have hle_then : ∀ s, fc3.cur = some s → s.le τt = true := by
            intro s hs
            have hgd : Good fc3.ltypes fc3.blocks s := by have := cres.rel.good; rw [hs] at this; exact this
            exact state_le_label hgd hnamed3 (hprov3 s hs)
          -- cjmp
          have hscanJ : scanStep fc3.ltypes fc3.gotos fc3.cur (.cjmp (if fc3.headRef then fc.labelId + 2 else fc.labelId)) =
              some fc3.cur := by
            rw [hhead]
            cases hf : b3.ref with
            | true =>
              simp only [if_true]
              exact scan_cjmp _ (hextE3 _ _ we.lkE) hle_then
            | false =>
              simp only [Bool.false_eq_true, if_false]
              refine scan_cjmp _ (hextE3 _ _ we.lkI) (fun s hs => ?_)
              have hgd : Good fc3.ltypes fc3.blocks s := by have := cres.rel.good; rw [hs] at this; exact this
              rw [hb3] at hgd
              have := body_end_le (τ := τ) hch3 hbrk3 hgd (fun r hr' => by rw [htext3.named]; exact hr')
                (fun r hr' hlt => hτtd_low r (hprov3 s hs r hr') (by omega))
              simpa [hf] using this
          obtain ⟨hadvJ, hcurJ⟩ := emit_adv fc3 _ hscanJ
          -- lbl thenlabel
          have hscanT : scanStep (fc3.emit (.cjmp (if fc3.headRef then fc.labelId + 2 else fc.labelId))).ltypes
              (fc3.emit (.cjmp (if fc3.headRef then fc.labelId + 2 else fc.labelId))).gotos
              (fc3.emit (.cjmp (if fc3.headRef then fc.labelId + 2 else fc.labelId))).cur (.lbl (fc.labelId + 1)) =
              some (some τt) := by
            rw [hcurJ]
            exact scan_lbl _ (hextE3 _ _ we.lkT) hle_then
          obtain ⟨hadvT, hcurT⟩ := emit_adv _ _ hscanT
          generalize hfc5 : (fc3.emit (.cjmp (if fc3.headRef then fc.labelId + 2 else fc.labelId))).emit (.lbl (fc.labelId + 1)) = fc5
            at h hadvT hcurT
          have hb5 : fc5.blocks = b3 :: p3 :: rest3 := by rw [← hfc5]; simpa using hb3
          have hl5 : fc5.ltypes = fc3.ltypes := by rw [← hfc5]; rfl
          have hg5 : fc5.gotos = [] := by rw [← hfc5]; simpa using hg3
          have hgeo5 : Geo fc5 := by
            rw [← hfc5]
            exact ⟨cres.rel.geo.ne, cres.rel.geo.chain, cres.rel.geo.top, cres.rel.geo.keys⟩
          rw [leaveBlock_spec hb5 (by rw [hb5]; exact hch3) hg5] at h
          simp only [Except.ok.injEq] at h
          have hadv6 := popped_adv (fc := fc5) b3 p3 rest3 hg5
          have hgeo6 := popped_geo hgeo5 hb5
          have hcur6 : (fc5.popped b3 p3 rest3).cur = closeCur (some τt) b3 := by rw [popped_cur, hcurT]
          -- everything captured by the loop is flagged; what is below the loop is flagged in the parent chain
          have hflagA : ∀ r, (r ∈ (freeCaps fc.regTop b).1 ∨ r ∈ cc) → ownerFlag (b3 :: p3 :: rest3) r = true := by
            intro r hr'
            rcases hr' with h4 | h4
            · have := p.flag r (by rw [we.top]; exact h4)
              have := cres.text.ownerFlag r this
              rwa [hb3] at this
            · have := cres.flag r h4
              rwa [hb3] at this
          have hflagX : ∀ r ∈ repX fc b cc, ownerFlag (p3 :: rest3) r = true := by
            intro r hr'
            have := hflagA r (repX_mem.mp hr').1
            rwa [ownerFlag_lt_base (by have := (repX_mem.mp hr').2; omega)] at this
          have hXlt : ∀ r ∈ repX fc b cc, r < fc.regTop := fun r hr' => (repX_mem.mp hr').2
          have hadvPre : Adv fc fc5 := by
            rw [← hfc5] at hadvT ⊢
            exact (((we.adv.trans p.adv).trans cres.adv).trans hadvJ).trans hadvT
          have hextall5 : Ext fc.ltypes fc5.ltypes := hadvPre.ext
          cases hf : b3.ref with
          | false =>
            -- no captured local in the block: it is left without CLOSE and the code ends here
            simp only [hf, Bool.false_eq_true, if_false, FC.repeatTail] at h
            subst h
            have hcur6' : (fc5.popped b3 p3 rest3).cur = some τt := by
              rw [hcur6, closeCur_some]; simp [hf]
            -- nothing at or above the block's base is captured
            have hAlt : ∀ r, (r ∈ (freeCaps fc.regTop b).1 ∨ r ∈ cc) → r < fc.regTop := by
              intro r hr'
              by_cases hlt : r < fc.regTop
              · exact hlt
              · exfalso
                have h5 := hflagA r hr'
                have h6 := ownerFlag_true_lt hch3 h5
                simp only [topOf] at h6
                rw [ownerFlag_head (by omega) h6, hf] at h5
                cases h5
            have hτt_eq : ∀ r, r ∈ τt.d ↔ r ∈ curD fc ++ repX fc b cc := by
              intro r
              rw [thenTy_d, List.mem_append, repX_mem]
              constructor
              · rintro (h4 | h4)
                · exact Or.inl h4
                · exact Or.inr ⟨h4, hAlt r h4⟩
              · rintro (h4 | h4)
                · exact Or.inl h4
                · exact Or.inr h4.1
            have hgood : Good fc5.ltypes (p3 :: rest3) ⟨namedRegs fc.blocks, curD fc ++ repX fc b cc⟩ :=
              exit_good hr.geo.chain (Rel.dprops hr) hextall5 htext3
                (fun r h => by rw [← hr.geo.top]; exact hXlt r h) ha' hflagX
            refine ⟨⟨hgeo6, ?_⟩, hadvPre.trans hadv6, by simpa using htext3.toBExt, ?_, ?_, ?_⟩
            · rw [hcur6']
              simp only [popped_blocks, popped_ltypes]
              exact hgood.sub (fun r h => h) (fun r h => (hτt_eq r).mp h)
            · simp only [popped_regTop, freeCaps]; exact hbase3
            · intro r hr'
              unfold curD at hr'
              rw [hcur6'] at hr'
              exact List.mem_append.mp ((hτt_eq r).mp hr')
            · intro r hr'
              simp only [popped_blocks]
              exact hflagX r hr'
          | true =>
            simp only [hf, if_true, FC.repeatTail] at h
            have hcur6' : (fc5.popped b3 p3 rest3).cur = some (τt.closeAt fc.regTop) := by
              rw [hcur6, closeCur_some]; simp [hf, hbase3]
            -- behind the CLOSE the state fits the loop's labels
            have hle_closed : (τt.closeAt fc.regTop).le τ = true := by
              rw [le_iff]
              simp only [AState.closeAt, List.mem_filter, decide_eq_true_eq]
              refine ⟨fun x hx => ⟨hx, ?_⟩, fun x hx => hτtd_low x hx.1 hx.2⟩
              have := named_lt hr.geo.chain x hx
              rw [← hr.geo.top] at this; exact this
            have hlk6 : ∀ l t, lookupTy (repEnter fc b cc).ltypes l = some t → lookupTy (fc5.popped b3 p3 rest3).ltypes l = some t := by
              intro l t hl
              simp only [popped_ltypes, hl5]
              exact hextE3 _ _ hl
            -- jmp outlabel
            have hs1 : scanStep (fc5.popped b3 p3 rest3).ltypes (fc5.popped b3 p3 rest3).gotos (fc5.popped b3 p3 rest3).cur
                (.jmp (fc.labelId + 3)) = some none := by
              rw [hcur6']
              exact scan_jmp _ (hlk6 _ _ we.lkO) (fun s hs => by cases hs; exact hle_closed)
            obtain ⟨ha1, hc1⟩ := emit_adv _ _ hs1
            -- lbl elselabel
            have hs2 : scanStep ((fc5.popped b3 p3 rest3).emit (.jmp (fc.labelId + 3))).ltypes
                ((fc5.popped b3 p3 rest3).emit (.jmp (fc.labelId + 3))).gotos
                ((fc5.popped b3 p3 rest3).emit (.jmp (fc.labelId + 3))).cur (.lbl (fc.labelId + 2)) = some (some τt) := by
              rw [hc1]
              exact scan_lbl _ (hlk6 _ _ we.lkE) (fun s hs => by cases hs)
            obtain ⟨ha2, hc2⟩ := emit_adv _ _ hs2
            -- close n
            have hs3 : scanStep (((fc5.popped b3 p3 rest3).emit (.jmp (fc.labelId + 3))).emit (.lbl (fc.labelId + 2))).ltypes
                (((fc5.popped b3 p3 rest3).emit (.jmp (fc.labelId + 3))).emit (.lbl (fc.labelId + 2))).gotos
                (((fc5.popped b3 p3 rest3).emit (.jmp (fc.labelId + 3))).emit (.lbl (fc.labelId + 2))).cur (.close b3.base) =
                some (some (τt.closeAt fc.regTop)) := by
              rw [hc2, hbase3]; rfl
            obtain ⟨ha3, hc3⟩ := emit_adv _ _ hs3
            -- jmp initlabel
            have hs4 : scanStep ((((fc5.popped b3 p3 rest3).emit (.jmp (fc.labelId + 3))).emit (.lbl (fc.labelId + 2))).emit (.close b3.base)).ltypes
                ((((fc5.popped b3 p3 rest3).emit (.jmp (fc.labelId + 3))).emit (.lbl (fc.labelId + 2))).emit (.close b3.base)).gotos
                ((((fc5.popped b3 p3 rest3).emit (.jmp (fc.labelId + 3))).emit (.lbl (fc.labelId + 2))).emit (.close b3.base)).cur
                (.jmp fc.labelId) = some none := by
              rw [hc3]
              exact scan_jmp _ (hlk6 _ _ we.lkI) (fun s hs => by cases hs; exact hle_closed)
            obtain ⟨ha4, hc4⟩ := emit_adv _ _ hs4
            generalize hfc9 : ((((fc5.popped b3 p3 rest3).emit (.jmp (fc.labelId + 3))).emit (.lbl (fc.labelId + 2))).emit (.close b3.base)).emit (.jmp fc.labelId) = fc9
              at h ha4 hc4
            have hgeo9 : Geo fc9 := by
              rw [← hfc9]; exact ⟨hgeo6.ne, hgeo6.chain, hgeo6.top, hgeo6.keys⟩
            have hb9 : fc9.blocks = p3 :: rest3 := by rw [← hfc9]; rfl
            have hl9 : fc9.ltypes = fc5.ltypes := by rw [← hfc9]; simp
            obtain ⟨hrel, ha5, hc5⟩ := rel_at_label (fc1 := fc9) hr hgeo9 (by rw [hb9]; exact htext3)
              (by rw [hl9]; exact hextall5) (repX fc b cc) hXlt ha' (by rw [hb9]; exact hflagX) (fc.labelId + 3)
              (by rw [hl9, hl5]; exact hextE3 _ _ we.lkO) (fun s hs => by rw [hc4] at hs; cases hs)
            subst h
            refine ⟨hrel, (hadvPre.trans hadv6).trans ((((ha1.trans ha2).trans ha3).trans ha4).trans ha5),
              by simp only [emit_blocks, hb9]; exact htext3.toBExt, ?_, ?_, ?_⟩
            · simp only [emit_regTop, freeCaps]
              rw [← hfc9]; simp only [emit_regTop, popped_regTop]; exact hbase3
            · intro r hr'
              unfold curD at hr'
              rw [hc5] at hr'
              exact List.mem_append.mp hr'
            · intro r hr'
              simp only [emit_blocks, hb9]
              exact hflagX r hr'

end GLua.CloseC
