/-
  Soundness of `closeDiscipline` (continued): the scan invariant along every machine path.
-/
import GLua.Proofs.CloseCheck

namespace GLua.CloseC
open GLua GLua.Cells

theorem scan_append (Λ : List (Nat × AState)) (gs : List GotoDesc) (σ : Option AState) (a b : List Item) :
    scan Λ gs σ (a ++ b) = (scan Λ gs σ a).bind (fun σ' => scan Λ gs σ' b) := by
  induction a generalizing σ with
  | nil => simp [scan]
  | cons it rest ih =>
    simp only [List.cons_append, scan]
    cases scanStep Λ gs σ it with
    | none => simp
    | some σ' => simp [ih]

theorem scan_split {Λ : List (Nat × AState)} {gs : List GotoDesc} {σ0 : Option AState} {code : List Item}
    {x : Option AState} (h : scan Λ gs σ0 code = some x) (n : Nat) :
    ∃ y, scan Λ gs σ0 (code.take n) = some y ∧ scan Λ gs y (code.drop n) = some x := by
  have e : code = code.take n ++ code.drop n := (List.take_append_drop n code).symm
  rw [e, scan_append] at h
  cases h1 : scan Λ gs σ0 (code.take n) with
  | none => simp [h1] at h
  | some y => exact ⟨y, rfl, by simpa [h1] using h⟩

theorem scan_single (Λ : List (Nat × AState)) (gs : List GotoDesc) (σ : Option AState) (it : Item) :
    scan Λ gs σ [it] = scanStep Λ gs σ it := by
  simp only [scan]
  cases scanStep Λ gs σ it <;> rfl

/-- the scan reaches instruction `pc` in state σ: the instruction passes its check -/
theorem scan_next {Λ : List (Nat × AState)} {gs : List GotoDesc} {σ0 : Option AState} {code : List Item}
    {x σ : Option AState} {pc : Nat} {it : Item} (h : scan Λ gs σ0 code = some x)
    (hit : code[pc]? = some it) (hs : scan Λ gs σ0 (code.take pc) = some σ) :
    ∃ σ', scanStep Λ gs σ it = some σ' ∧ scan Λ gs σ0 (code.take (pc + 1)) = some σ' := by
  obtain ⟨y, hy, _⟩ := scan_split h (pc + 1)
  have e : code.take (pc + 1) = code.take pc ++ [it] := by
    rw [List.take_succ, hit]; rfl
  rw [e, scan_append, hs] at hy
  simp only [Option.bind_some, scan_single] at hy
  exact ⟨y, hy, by rw [e, scan_append, hs]; simpa [scan_single] using hy⟩

/-- behind the marker of label l the scan state is the type of l -/
theorem scan_label {Λ : List (Nat × AState)} {gs : List GotoDesc} {σ0 : Option AState} {code : List Item}
    {x : Option AState} {p l : Nat} {τ : AState} (h : scan Λ gs σ0 code = some x)
    (hit : code[p]? = some (.lbl l)) (hτ : lookupTy Λ l = some τ) :
    scan Λ gs σ0 (code.take (p + 1)) = some (some τ) := by
  obtain ⟨σ, hσ, _⟩ := scan_split h p
  obtain ⟨σ', h1, h2⟩ := scan_next h hit hσ
  rw [h2]
  cases σ with
  | none => simp [scanStep, hτ] at h1; rw [← h1]
  | some s =>
    simp only [scanStep, scanItem, hτ] at h1
    split at h1
    · rw [← h1]
    · cases h1

theorem finalize_lbl {gs : List GotoDesc} {it : Item} {l : Nat} (h : isLbl l (finalizeItem gs it) = true) :
    it = .lbl l := by
  cases it with
  | lbl k => simp [finalizeItem, isLbl] at h; rw [h]
  | hole g =>
    simp only [finalizeItem] at h
    cases hg : gs[g]? with
    | none => simp [hg, isLbl] at h
    | some d =>
      simp only [hg] at h
      cases hc : d.close <;> simp [hc, isLbl] at h
  | gjmp g =>
    simp only [finalizeItem] at h
    cases hg : gs[g]? with
    | none => simp [hg, isLbl] at h
    | some d =>
      simp only [hg] at h
      cases hc : d.target <;> simp [hc, isLbl] at h
  | _ => simp [finalizeItem, isLbl] at h

theorem findLbl_spec {gs : List GotoDesc} {code : List Item} {l p : Nat}
    (h : findLbl (code.map (finalizeItem gs)) l = some p) : code[p]? = some (.lbl l) := by
  simp only [findLbl] at h
  split at h
  · rename_i hlt
    cases h
    have hp := List.findIdx_getElem (w := hlt)
    simp only [List.getElem_map] at hp
    have hlt' : List.findIdx (isLbl l) (code.map (finalizeItem gs)) < code.length := by simpa using hlt
    rw [List.getElem?_eq_getElem hlt']
    exact congrArg some (finalize_lbl hp)
  · cases h

/-- invariant of the machine: the scan reaches `pc` reachable, in a state that describes the cell state -/
def MInv (Λ : List (Nat × AState)) (gs : List GotoDesc) (code : List Item) (σ0 : AState) (m : MSt) (c : CSt) : Prop :=
  ∃ s, scan Λ gs (some σ0) (code.take m.pc) = some (some s) ∧ Gam s c ∧ CWf c ∧ c.caps.length = m.ncaps

section
variable {Λ : List (Nat × AState)} {gs : List GotoDesc} {code : List Item} {σ0 : AState} {x : Option AState}

theorem jump_sound (hall : scan Λ gs (some σ0) code = some x) {m : MSt} {c c0 : CSt} {l : Nat} {τ : AState} {tr : List Op}
    (hτ : lookupTy Λ l = some τ) (he : exec c0 tr = some c) (hg : Gam τ c) (hw : CWf c) (hc : c.caps.length = m.ncaps) :
    match jumpTo (code.map (finalizeItem gs)) m l tr with
    | .next m' tr' => ∃ c', exec c0 tr' = some c' ∧ MInv Λ gs code σ0 m' c'
    | .halt tr' => (exec c0 tr').isSome = true
    | .stuck _ => True := by
  simp only [jumpTo]
  cases hf : findLbl (code.map (finalizeItem gs)) l with
  | none => trivial
  | some p =>
    have hit := findLbl_spec hf
    exact ⟨c, he, τ, scan_label hall hit hτ, hg, hw, hc⟩

theorem sound_step (hall : scan Λ gs (some σ0) code = some x) (hgo : ∀ d ∈ gs, gotoOK Λ d = true)
    {m : MSt} {c : CSt} (hI : MInv Λ gs code σ0 m c) (ch : Bool) :
    match step (code.map (finalizeItem gs)) m ch with
    | .next m' tr => ∃ c', exec c tr = some c' ∧ MInv Λ gs code σ0 m' c'
    | .halt tr => (exec c tr).isSome = true
    | .stuck _ => True := by
  obtain ⟨s, hs, hg, hw, hc⟩ := hI
  simp only [step, List.getElem?_map]
  cases hit : code[m.pc]? with
  | none => simp
  | some it =>
    obtain ⟨σ', h1, h2⟩ := scan_next hall hit hs
    simp only [scanStep] at h1
    simp only [Option.map_some]
    cases it with
    | declare r v =>
      simp only [scanItem] at h1
      split at h1
      · cases h1
      · rename_i hr
        cases h1
        obtain ⟨c', hst, hw', hg', hc'⟩ := step_declare r v hw hg (by simpa using hr)
        exact ⟨c', by simp [exec, hst], _, h2, hg', hw', by rw [hc']; exact hc⟩
    | write r v =>
      simp only [scanItem] at h1
      split at h1
      · rename_i hr
        cases h1
        obtain ⟨c', hst, hw', hg', hc'⟩ := step_write r v hw hg (by simpa using hr)
        exact ⟨c', by simp [exec, hst], _, h2, hg', hw', by rw [hc']; exact hc⟩
      · cases h1
    | use rs =>
      simp only [scanItem] at h1
      split at h1
      · rename_i hr
        cases h1
        rw [subList_iff] at hr
        refine ⟨c, ?_, _, h2, hg, hw, hc⟩
        simp only [exec_append, exec_reads hw hg rs hr, Option.bind_some]
        exact exec_uvreads hw _ (fun i hi => by rw [hc]; simpa using hi)
      · cases h1
    | poke v =>
      simp only [scanItem] at h1
      cases h1
      obtain ⟨c', he, hw', hg', hc'⟩ := exec_uvwrites (s := s) v (List.range m.ncaps) c hw hg
        (fun i hi => by rw [hc]; simpa using hi)
      exact ⟨c', by simpa [finalizeItem] using he, _, h2, hg', hw', by rw [hc']; exact hc⟩
    | capture rs =>
      simp only [scanItem] at h1
      split at h1
      · rename_i hr
        cases h1
        rw [subList_iff] at hr
        obtain ⟨c', he, hw', hg', hc'⟩ := exec_captures rs s c hw hg hr
        exact ⟨c', by simpa [finalizeItem] using he, _, h2, hg', hw', by rw [hc', hc]⟩
      · cases h1
    | close a =>
      simp only [scanItem] at h1
      cases h1
      obtain ⟨c', hst, hw', hg', hc'⟩ := step_close a hw hg
      exact ⟨c', by simp [exec, hst], _, h2, hg', hw', by rw [hc']; exact hc⟩
    | nop =>
      simp only [scanItem] at h1
      cases h1
      exact ⟨c, by simp [exec], _, h2, hg, hw, hc⟩
    | other =>
      simp only [scanItem] at h1
      cases h1
      exact ⟨c, by simp [exec], _, h2, hg, hw, hc⟩
    | lbl l =>
      simp only [scanItem] at h1
      split at h1
      · rename_i τ hτ
        split at h1
        · rename_i hle
          cases h1
          exact ⟨c, by simp [exec], _, h2, gam_weaken hle hg, hw, hc⟩
        · cases h1
      · cases h1
    | jmp l =>
      simp only [scanItem] at h1
      split at h1
      · rename_i τ hτ
        split at h1
        · rename_i hle
          simp only [finalizeItem]
          exact jump_sound hall hτ (by simp [exec]) (gam_weaken hle hg) hw hc
        · cases h1
      · cases h1
    | forprep l =>
      simp only [scanItem] at h1
      split at h1
      · rename_i τ hτ
        split at h1
        · rename_i hle
          simp only [finalizeItem]
          exact jump_sound hall hτ (by simp [exec]) (gam_weaken hle hg) hw hc
        · cases h1
      · cases h1
    | cjmp l =>
      simp only [scanItem] at h1
      split at h1
      · rename_i τ hτ
        split at h1
        · rename_i hle
          cases h1
          simp only [finalizeItem]
          cases ch with
          | true => exact jump_sound hall hτ (by simp [exec]) (gam_weaken hle hg) hw hc
          | false => exact ⟨c, by simp [exec], _, h2, hg, hw, hc⟩
        · cases h1
      · cases h1
    | forloop a l =>
      simp only [scanItem] at h1
      split at h1
      · rename_i τ hτ
        split at h1
        · rename_i hcond
          cases h1
          simp only [Bool.and_eq_true, Bool.not_eq_true', List.contains_eq_mem, decide_eq_false_iff_not] at hcond
          simp only [finalizeItem]
          cases ch with
          | true =>
            obtain ⟨c', hst, hw', hg', hc'⟩ := step_declare (a + 3) none hw hg (by simpa using hcond.1)
            exact jump_sound hall hτ (by simp [exec, hst]) (gam_weaken hcond.2 hg') hw' (by rw [hc']; exact hc)
          | false => exact ⟨c, by simp [exec], _, h2, hg, hw, hc⟩
        · cases h1
      · cases h1
    | tforloop a cn l =>
      simp only [scanItem] at h1
      split at h1
      · rename_i τ hτ
        split at h1
        · rename_i hcond
          cases h1
          simp only [Bool.and_eq_true, List.all_eq_true, Bool.not_eq_true', List.contains_eq_mem,
            decide_eq_false_iff_not] at hcond
          simp only [finalizeItem]
          cases ch with
          | true =>
            obtain ⟨c', he, hw', hg', hc'⟩ := exec_declares (tforRegs a cn) s c hw hg (fun r hr => by simpa using hcond.1 r hr)
            exact jump_sound hall hτ he (gam_weaken hcond.2 hg') hw' (by rw [hc']; exact hc)
          | false => exact ⟨c, by simp [exec], _, h2, hg, hw, hc⟩
        · cases h1
      · cases h1
    | ret =>
      simp [finalizeItem, exec, Cells.step]
    | hole g =>
      simp only [scanItem] at h1
      split at h1
      · rename_i d hd
        split at h1
        · rename_i hcond
          cases h1
          simp only [Bool.and_eq_true] at hcond
          have hgd := gam_weaken hcond.2 hg
          simp only [finalizeItem, hd]
          cases hcl : d.close with
          | none =>
            simp only [hcl, AState.closeBy] at h2
            exact ⟨c, by simp [exec], _, h2, hgd, hw, hc⟩
          | some a =>
            simp only [hcl, AState.closeBy] at h2
            obtain ⟨c', hst, hw', hg', hc'⟩ := step_close a hw hgd
            exact ⟨c', by simp [exec, hst], _, h2, hg', hw', by rw [hc']; exact hc⟩
        · cases h1
      · cases h1
    | gjmp g =>
      simp only [scanItem] at h1
      split at h1
      · rename_i d hd
        split at h1
        · rename_i hcond
          simp only [Bool.and_eq_true] at hcond
          have hgd := gam_weaken hcond.2 hg
          have hok := hgo d (List.mem_of_getElem? hd)
          simp only [gotoOK, hcond.1, Bool.not_true, Bool.false_or] at hok
          simp only [finalizeItem, hd]
          cases ht : d.target with
          | none => simp [ht] at hok
          | some l =>
            simp only [ht] at hok ⊢
            cases hτ : lookupTy Λ l with
            | none => simp [hτ] at hok
            | some τ =>
              simp only [hτ] at hok
              exact jump_sound hall hτ (by simp [exec]) (gam_weaken hok hgd) hw hc
        · cases h1
      · cases h1

/-- every path of accepted code is disciplined -/
theorem sound_path (hall : scan Λ gs (some σ0) code = some x) (hgo : ∀ d ∈ gs, gotoOK Λ d = true) :
    ∀ (path : List Bool) (m : MSt) (c : CSt), MInv Λ gs code σ0 m c →
      (exec c (runPath (code.map (finalizeItem gs)) m path).1).isSome = true
  | [], _, _, _ => by simp [runPath, exec]
  | ch :: rest, m, c, hI => by
    have hs := sound_step hall hgo hI ch
    simp only [runPath]
    cases hst : step (code.map (finalizeItem gs)) m ch with
    | next m' tr =>
      simp only [hst] at hs
      obtain ⟨c', he, hI'⟩ := hs
      simp only [exec_append, he, Option.bind_some]
      exact sound_path hall hgo rest m' c' hI'
    | halt tr => simp only [hst] at hs; exact hs
    | stuck w => simp [exec]

end

/-- **soundness of the checker**: on a compiled function accepted by `closeDiscipline`, the trace of every path
    (any number of steps, any choice at every conditional jump) is defined in the cell semantics. -/
theorem closeDiscipline_sound (nparams : Nat) (fc : FC) (h : closeDiscipline nparams fc = true) (path : List Bool) :
    (Cells.run CSt.init (traceOf nparams fc path)).isSome = true := by
  simp only [closeDiscipline, Bool.and_eq_true, beq_iff_eq, List.all_eq_true] at h
  obtain ⟨hscan, hgo⟩ := h
  rw [run_isSome, traceOf, exec_append]
  have hg0 : Gam ({ lv := [], d := [] } : AState) CSt.init :=
    ⟨fun r hr => by simp at hr, fun r _ cell hc => by simp [CSt.init] at hc⟩
  obtain ⟨c, he, hw, hg, hc⟩ := exec_declares (List.range nparams) _ _ cwf_init hg0 (fun r _ => by simp)
  rw [paramDecls, he, Option.bind_some]
  refine sound_path hscan hgo path {} c ⟨initState nparams, by simp [scan], ?_, hw, by rw [hc]; rfl⟩
  simpa [initState] using hg

end GLua.CloseC
