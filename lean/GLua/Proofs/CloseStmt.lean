/-
  The compile model establishes the close discipline: statement by statement, the emitted code scans
  (Model/CloseCheck.lean) and the invariants of Proofs/CloseInv.lean are kept.  Goto-free fragment.
-/
import GLua.Proofs.ClosePrim

namespace GLua.CloseC
open GLua

/-- no label and no goto anywhere in the statement -/
def NoGoto : Stmt → Bool
  | .seq a b => NoGoto a && NoGoto b
  | .doBlock b => NoGoto b
  | .ifThen a b => NoGoto a && NoGoto b
  | .whileLoop b => NoGoto b
  | .repeatLoop b _ => NoGoto b
  | .numFor b => NoGoto b
  | .genFor _ b => NoGoto b
  | .label _ => false
  | .goto _ => false
  | _ => true

/-- the registers `caps` (about to be captured) that lie below an enclosing loop are admitted by the type of its
    break label -/
def AllowedB (Λ : List (Nat × AState)) (caps : List Nat) : List Block → Prop
  | [] => True
  | b :: rest =>
    (∀ l, b.brk = some l → ∃ τ, lookupTy Λ l = some τ ∧ ∀ r ∈ caps, r < b.base → r ∈ τ.d) ∧ AllowedB Λ caps rest

theorem AllowedB.mono {Λ Λ' : List (Nat × AState)} {caps caps' : List Nat} (hE : Ext Λ Λ') (hc : ∀ r ∈ caps', r ∈ caps) :
    ∀ {bs bs' : List Block}, BExt bs bs' → AllowedB Λ caps bs → AllowedB Λ' caps' bs'
  | [], [], _, _ => trivial
  | x :: xs, y :: ys, hb, h => by
    refine ⟨fun l hl => ?_, ?_⟩
    · obtain ⟨τ, h1, h2⟩ := h.1 l (by rw [← hb.2.2.2.1]; exact hl)
      exact ⟨τ, hE l τ h1, fun r hr hlt => h2 r (hc r hr) (by rw [← hb.1]; exact hlt)⟩
    · exact AllowedB.mono hE hc hb.tail.toBExt h.2
  | [], _ :: _, hb, _ => hb.elim
  | _ :: _, [], hb, _ => hb.elim

/-- what compiling statement s from state fc to state fc' guarantees -/
structure Post (fc : FC) (s : Stmt) (fc' : FC) : Prop where
  rel   : Rel fc'
  adv   : Adv fc fc'
  bext  : BExt fc.blocks fc'.blocks
  top   : fc'.regTop = (freeCaps fc.regTop s).2
  prov  : ∀ r ∈ curD fc', r ∈ curD fc ∨ r ∈ (freeCaps fc.regTop s).1
  flag  : ∀ r ∈ (freeCaps fc.regTop s).1, ownerFlag fc'.blocks r = true

/-! ### Rel after an emit that keeps the blocks -/

theorem rel_emit {fc : FC} (hr : Rel fc) (it : Item) {σ' : Option AState}
    (hcur : (fc.emit it).cur = σ') (hg : GoodO fc.ltypes fc.blocks σ') : Rel (fc.emit it) :=
  ⟨⟨hr.geo.ne, hr.geo.chain, hr.geo.top, hr.geo.keys⟩, by rw [hcur]; exact hg⟩

theorem Good.sub {Λ : List (Nat × AState)} {bs : List Block} {s s' : AState} (h : Good Λ bs s)
    (hlv : ∀ r ∈ s.lv, r ∈ s'.lv) (hd : ∀ r ∈ s'.d, r ∈ s.d) : Good Λ bs s' :=
  ⟨fun r hr => hlv r (h.lv r hr), fun r hr => h.i1 r (hd r hr), fun r hr => h.i2 r (hd r hr),
   loopsOK_mono (Ext.refl _) hd h.i3⟩

theorem curD_some {fc : FC} {s : AState} (h : fc.cur = some s) : curD fc = s.d := by simp [curD, h]
theorem curD_none {fc : FC} (h : fc.cur = none) : curD fc = [] := by simp [curD, h]

/-- an emit that does not change the ghost state (or keeps it unreachable) -/
theorem post_emit_same {fc : FC} (hr : Rel fc) (s : Stmt) (it : Item)
    (hscan : scanStep fc.ltypes fc.gotos fc.cur it = some fc.cur)
    (hf : freeCaps fc.regTop s = ([], fc.regTop)) : Post fc s (fc.emit it) := by
  obtain ⟨hadv, hcur⟩ := emit_adv fc it hscan
  refine ⟨rel_emit hr it hcur hr.good, hadv, BExt.refl _, by simp [hf], ?_, by simp [hf]⟩
  intro r hr'
  left
  simpa [curD, hcur] using hr'

end GLua.CloseC
