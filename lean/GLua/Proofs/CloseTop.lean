/-
  compile_establishes_discipline, goto-free fragment: the induction over statements and the function level.
-/
import GLua.Proofs.CloseRepeat

namespace GLua.CloseC
open GLua

theorem chunk_post : ∀ (s : Stmt), NoGoto s = true → IH s
  | .skip, _ => fun fc _ _ fc' hr _ _ h => by
    simp only [compileChunk, Except.ok.injEq] at h; subst h; exact post_skip fc hr
  | .seq a b, h => by
    simp only [NoGoto, Bool.and_eq_true] at h
    exact post_seq (chunk_post a h.1) (chunk_post b h.2)
  | .localDecl v, _ => post_localDecl v
  | .localFn caps self, _ => post_localFn caps self
  | .capture caps, _ => post_capture caps
  | .assign r v, _ => post_assign r v
  | .use, _ => post_use
  | .poke v, _ => post_poke v
  | .doBlock b, h => post_doBlock (chunk_post b (by simpa [NoGoto] using h))
  | .ifThen t e, h => by
    simp only [NoGoto, Bool.and_eq_true] at h
    exact post_if (chunk_post t h.1) (chunk_post e h.2)
  | .whileLoop b, h => post_while (chunk_post b (by simpa [NoGoto] using h))
  | .repeatLoop b cc, h => post_repeat (chunk_post b (by simpa [NoGoto] using h))
  | .numFor b, h => post_numFor (chunk_post b (by simpa [NoGoto] using h))
  | .genFor n b, h => post_genFor (chunk_post b (by simpa [NoGoto] using h))
  | .brk, _ => post_brk
  | .label _, h => by simp [NoGoto] at h
  | .goto _, h => by simp [NoGoto] at h
  | .ret, _ => post_ret

theorem init_rel (np : Nat) (lb : Bool) : Rel (FC.init np lb) := by
  refine ⟨⟨by simp [FC.init], rfl, by simp [FC.init, topOf], fun l τ h => by simp [FC.init] at h⟩, ?_⟩
  show Good [] [{ base := 0, nnames := np }] { lv := List.range np, d := [] }
  refine ⟨?_, fun r h => by simp at h, fun r h => by simp at h, ⟨fun l hl => by simp at hl, trivial⟩⟩
  intro r hr
  simp only [namedRegs, List.nil_append, List.mem_map, List.mem_range] at hr
  obtain ⟨i, hi, rfl⟩ := hr
  simp only [List.mem_range]
  omega

/-- **the compile model establishes the close discipline** (goto-free programs), for compileBreakStmt before and
    after b47a12e: the compiled function is accepted by the checker. -/
theorem compile_accepts_nogoto_with (lb : Bool) (np : Nat) (s : Stmt) (fc : FC) (hng : NoGoto s = true)
    (h : compileFunctionWith lb np s = .ok fc) : closeDiscipline np fc = true := by
  simp only [compileFunctionWith, bind, Except.bind] at h
  cases h1 : compileChunk (FC.init np lb) s true .skip with
  | error e => simp [h1] at h
  | ok fc1 =>
    simp only [h1] at h
    have p := chunk_post s hng (FC.init np lb) true .skip fc1 (init_rel np lb) rfl
      ⟨fun l hl => by simp [FC.init] at hl, trivial⟩ h1
    have hg1 : fc1.gotos = [] := p.gotos rfl
    split at h
    · simp only [Except.ok.injEq] at h
      subst h
      obtain ⟨delta, hcode, hscan⟩ := p.adv.scans
      simp only [closeDiscipline, emit_code, emit_ltypes, emit_gotos, Bool.and_eq_true, beq_iff_eq, hg1, List.all_nil, and_true]
      have hc0 : (FC.init np lb).code = [] := rfl
      rw [hcode, hc0, List.nil_append, scan_append]
      have := hscan fc1.ltypes (Ext.refl _)
      rw [hg1] at this
      have hcur0 : (FC.init np lb).cur = some (initState np) := rfl
      rw [hcur0] at this
      rw [this]
      simp only [Option.bind_some, scan_single]
      cases fc1.cur <;> rfl
    · cases h

theorem compile_accepts_nogoto (np : Nat) (s : Stmt) (fc : FC) (hng : NoGoto s = true)
    (h : compileFunction np s = .ok fc) : closeDiscipline np fc = true :=
  compile_accepts_nogoto_with true np s fc hng h

end GLua.CloseC
