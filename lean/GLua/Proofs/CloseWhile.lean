/-
  compile_establishes_discipline, goto-free fragment: `while`.
-/
import GLua.Proofs.CloseLoop

namespace GLua.CloseC
open GLua

theorem DProps.ext {Λ Λ' : List (Nat × AState)} {bs : List Block} {D : List Nat} (h : DProps Λ bs D) (hE : Ext Λ Λ') :
    DProps Λ' bs D := ⟨h.i1, h.i2, loopsOK_mono hE (fun _ hr => hr) h.i3⟩

/-- two fresh labels of the same type -/
theorem two_labels (fc : FC) (τ1 τ2 : AState) (hk : ∀ l t, (l, t) ∈ fc.ltypes → l < fc.labelId) :
    lookupTy ((fc.newLabel τ1).2.newLabel τ2).2.ltypes fc.labelId = some τ1 ∧
    lookupTy ((fc.newLabel τ1).2.newLabel τ2).2.ltypes (fc.labelId + 1) = some τ2 ∧
    (∀ l t, (l, t) ∈ ((fc.newLabel τ1).2.newLabel τ2).2.ltypes → l < fc.labelId + 2) := by
  have hk1 : ∀ l t, (l, t) ∈ (fc.newLabel τ1).2.ltypes → l < (fc.newLabel τ1).2.labelId := by
    intro l t hm
    simp only [newLabel_ltypes, newLabel_labelId, List.mem_append, List.mem_singleton, Prod.mk.injEq] at hm ⊢
    rcases hm with hm | ⟨rfl, _⟩
    · have := hk l t hm; omega
    · omega
  refine ⟨lookupTy_append_left (newLabel_lookup fc τ1 hk), newLabel_lookup _ τ2 hk1, ?_⟩
  intro l t hm
  simp only [newLabel_ltypes, newLabel_labelId, List.mem_append, List.mem_singleton, Prod.mk.injEq] at hm
  rcases hm with (hm | ⟨rfl, _⟩) | ⟨rfl, _⟩
  · have := hk l t hm; omega
  · omega
  · omega

def whileEnter (fc : FC) (b : Stmt) : FC :=
  let τ := fc.loopTy (.whileLoop b)
  ((((fc.newLabel τ).2.newLabel τ).2.emit (.lbl (fc.labelId + 1))).emit (.cjmp fc.labelId)).enterBlock (some fc.labelId)

theorem compile_while_eq (fc : FC) (b : Stmt) (tail : Bool) (rest : Stmt) :
    compileChunk fc (.whileLoop b) tail rest = (do
      let fc2 ← compileChunk (whileEnter fc b) b true .skip
      let (_, fc3) ← fc2.closeUpvalues
      let (_, fc5) ← (fc3.emit (.jmp (fc.labelId + 1))).leaveBlock
      .ok (fc5.emit (.lbl fc.labelId))) := by
  simp only [compileChunk]
  rfl

/-- the state in which the body of a `while` is compiled -/
structure WhileEnter (fc : FC) (b : Stmt) (fcE : FC) : Prop where
  rel    : Rel fcE
  adv    : Adv fc fcE
  blocks : fcE.blocks = { base := fc.regTop, nnames := 0, hidden := 0, brk := some fc.labelId, firstGoto := fc.gotos.length } :: fc.blocks
  top    : fcE.regTop = fc.regTop
  cur    : fcE.cur = some (fc.loopTy (.whileLoop b))
  lkE    : lookupTy fcE.ltypes fc.labelId = some (fc.loopTy (.whileLoop b))
  lkC    : lookupTy fcE.ltypes (fc.labelId + 1) = some (fc.loopTy (.whileLoop b))
  allow  : AllowedB fcE.ltypes (freeCaps fcE.regTop b).1 fcE.blocks

theorem while_enter {fc : FC} {b : Stmt} (hr : Rel fc)
    (ha : AllowedB fc.ltypes (freeCaps fc.regTop (.whileLoop b)).1 fc.blocks) : WhileEnter fc b (whileEnter fc b) := by
  let τ := fc.loopTy (.whileLoop b)
  obtain ⟨hlE, hlC, hkeys⟩ := two_labels fc τ τ hr.geo.keys
  let fcB := ((fc.newLabel τ).2.newLabel τ).2
  have hadvB : Adv fc fcB := (newLabel_adv fc τ).trans (newLabel_adv _ τ)
  have hextB : Ext fc.ltypes fcB.ltypes := hadvB.ext
  -- lbl condlabel
  have hscanC : scanStep fcB.ltypes fcB.gotos fcB.cur (.lbl (fc.labelId + 1)) = some (some τ) :=
    scan_lbl _ hlC (fun s hs => entry_le hr hs _)
  obtain ⟨hadvC, hcurC⟩ := emit_adv fcB _ hscanC
  -- cjmp elselabel
  have hscanD : scanStep (fcB.emit (.lbl (fc.labelId + 1))).ltypes (fcB.emit (.lbl (fc.labelId + 1))).gotos
      (fcB.emit (.lbl (fc.labelId + 1))).cur (.cjmp fc.labelId) = some (some τ) := by
    rw [hcurC]
    exact scan_cjmp _ hlE (fun s hs => by cases hs; exact le_refl _)
  obtain ⟨hadvD, hcurD⟩ := emit_adv _ _ hscanD
  have hd := (Rel.dprops hr).ext hextB
  have haB : AllowedB fcB.ltypes (freeCaps fc.regTop (.whileLoop b)).1 fc.blocks :=
    AllowedB.mono hextB (fun _ h => h) (BExt.refl _) ha
  have hX : ∀ r ∈ (freeCaps fc.regTop (.whileLoop b)).1, r < topOf fc.blocks := fun r hr' => by
    simp only [freeCaps, List.mem_filter, decide_eq_true_eq] at hr'
    rw [← hr.geo.top]; exact hr'.2
  refine ⟨⟨⟨by simp [whileEnter], ?_, ?_, ?_⟩, ?_⟩, ?_, rfl, rfl, hcurD, hlE, hlC, ?_⟩
  · show Chain (_ :: fc.blocks)
    cases hb : fc.blocks with
    | nil => exact absurd hb hr.geo.ne
    | cons b0 rest0 =>
      have := hr.geo.top; rw [hb] at this
      have hc := hr.geo.chain; rw [hb] at hc
      exact ⟨this, hc⟩
  · show fc.regTop = topOf (_ :: fc.blocks)
    simp [topOf]
  · exact hkeys
  · show GoodO fcB.ltypes (_ :: fc.blocks) (whileEnter fc b).cur
    have : (whileEnter fc b).cur = some τ := hcurD
    rw [this]
    refine body_good (extra := []) hr.geo.chain hd hX haB hr.geo.top rfl hlE (fun r h => h) (fun r h => h) ?_
    intro r hr'
    simpa [namedRegs] using hr'
  · exact (hadvB.trans hadvC).trans (hadvD.trans (enterBlock_adv _ _ _))
  · show AllowedB fcB.ltypes (freeCaps fc.regTop b).1 (_ :: fc.blocks)
    refine ⟨fun l hl => ?_, ?_⟩
    · simp only [Option.some.injEq] at hl
      subst hl
      refine ⟨τ, hlE, fun r hr' hlt => ?_⟩
      show r ∈ curD fc ++ (freeCaps fc.regTop (.whileLoop b)).1
      simp only [freeCaps, List.mem_append, List.mem_filter, decide_eq_true_eq]
      exact Or.inr ⟨hr', hlt⟩
    · refine AllowedB.unfilter fc.regTop hr.geo.chain (Nat.le_of_eq hr.geo.top.symm) ?_
      simpa [freeCaps] using haB

/-- shape of the block stack after the body of a loop -/
theorem body_blocks {fcE fc2 : FC} {nb : Block} {bs : List Block} (hbe : BExt fcE.blocks fc2.blocks)
    (hE : fcE.blocks = nb :: bs) (hne : bs ≠ []) :
    ∃ b2 p2 rest2, fc2.blocks = b2 :: p2 :: rest2 ∧ b2.base = nb.base ∧ b2.brk = nb.brk ∧ TExt bs (p2 :: rest2) := by
  rw [hE] at hbe
  cases hb2 : fc2.blocks with
  | nil => rw [hb2] at hbe; exact hbe.elim
  | cons b2 tl =>
    rw [hb2] at hbe
    cases tl with
    | nil =>
      cases bs with
      | nil => exact absurd rfl hne
      | cons _ _ => exact hbe.tail.elim
    | cons p2 rest2 => exact ⟨b2, p2, rest2, rfl, hbe.1, hbe.2.2.2.1, hbe.tail⟩

theorem post_while {b : Stmt} (ih : IH b) : IH (.whileLoop b) := by
  intro fc tail rest fc' hr hg ha h
  rw [compile_while_eq] at h
  simp only [bind, Except.bind] at h
  have we := while_enter (b := b) hr ha
  cases h1 : compileChunk (whileEnter fc b) b true .skip with
  | error e => simp [h1] at h
  | ok fc2 =>
    simp only [h1] at h
    have hgE : (whileEnter fc b).gotos = [] := by rw [we.adv.gotos, hg]
    have p := ih _ _ _ fc2 we.rel hgE we.allow h1
    obtain ⟨b2, p2, rest2, hb2, hbase, hbrk, htext⟩ := body_blocks p.bext we.blocks hr.geo.ne
    simp only at hbase hbrk
    have hch2 := p.rel.geo.chain
    have hg2 : fc2.gotos = [] := p.gotos hgE
    let τ := fc.loopTy (.whileLoop b)
    have hext2 : Ext (whileEnter fc b).ltypes fc2.ltypes := p.adv.ext
    have hlE2 : lookupTy fc2.ltypes fc.labelId = some τ := hext2 _ _ we.lkE
    have hlC2 : lookupTy fc2.ltypes (fc.labelId + 1) = some τ := hext2 _ _ we.lkC
    -- CloseUpvalues
    rw [closeUpvalues_spec hb2 hch2] at h
    simp only at h
    obtain ⟨hadv3, hcur3⟩ := closeUpvalues_adv (fc := fc2) b2
    generalize hfc3 : (if b2.ref then fc2.emit (.close b2.base) else fc2) = fc3 at h hadv3 hcur3
    have hb3 : fc3.blocks = fc2.blocks := by rw [← hfc3]; split <;> rfl
    have hl3 : fc3.ltypes = fc2.ltypes := by rw [← hfc3]; split <;> rfl
    have hg3 : fc3.gotos = [] := by rw [hadv3.gotos]; exact hg2
    have hr3 : fc3.regTop = fc2.regTop := by rw [← hfc3]; split <;> rfl
    have hi3 : fc3.labelId = fc2.labelId := by rw [← hfc3]; split <;> rfl
    -- the back edge
    have hτlv : ∀ r ∈ τ.lv, r ∈ namedRegs (p2 :: rest2) := fun r hr' => by rw [htext.named]; exact hr'
    have hscan4 : scanStep fc3.ltypes fc3.gotos fc3.cur (.jmp (fc.labelId + 1)) = some none := by
      rw [hl3]
      refine scan_jmp _ hlC2 (fun s hs => ?_)
      rw [hcur3] at hs
      cases hc2 : fc2.cur with
      | none => rw [hc2, closeCur_none] at hs; cases hs
      | some s2 =>
        rw [hc2, closeCur_some] at hs
        cases hs
        have hgd2 : Good fc2.ltypes fc2.blocks s2 := by have := p.rel.good; rw [hc2] at this; exact this
        rw [hb2] at hgd2 hch2
        refine body_end_le hch2 hbrk hgd2 hτlv (fun r hr' hlt => ?_)
        rcases p.prov r (by simpa [curD, hc2] using hr') with h3 | h3
        · simpa [curD, we.cur] using h3
        · show r ∈ curD fc ++ (freeCaps fc.regTop (.whileLoop b)).1
          simp only [freeCaps, List.mem_append, List.mem_filter, decide_eq_true_eq]
          rw [we.top] at h3
          exact Or.inr ⟨h3, by omega⟩
    obtain ⟨hadv4, hcur4⟩ := emit_adv fc3 _ hscan4
    -- LeaveBlock
    have hb4 : (fc3.emit (.jmp (fc.labelId + 1))).blocks = b2 :: p2 :: rest2 := by simp [hb3, hb2]
    have hch4 : Chain (fc3.emit (.jmp (fc.labelId + 1))).blocks := by rw [hb4, ← hb2]; exact hch2
    rw [leaveBlock_spec hb4 hch4 (by simpa using hg3)] at h
    simp only [Except.ok.injEq] at h
    have hadv5 := popped_adv (fc := fc3.emit (.jmp (fc.labelId + 1))) b2 p2 rest2 (by simpa using hg3)
    have hcur5 : ((fc3.emit (.jmp (fc.labelId + 1))).popped b2 p2 rest2).cur = none := by
      rw [popped_cur, hcur4, closeCur_none]
    have hl5 : ((fc3.emit (.jmp (fc.labelId + 1))).popped b2 p2 rest2).ltypes = fc2.ltypes := by simp [hl3]
    have hscan6 : scanStep ((fc3.emit (.jmp (fc.labelId + 1))).popped b2 p2 rest2).ltypes
        ((fc3.emit (.jmp (fc.labelId + 1))).popped b2 p2 rest2).gotos
        ((fc3.emit (.jmp (fc.labelId + 1))).popped b2 p2 rest2).cur (.lbl fc.labelId) = some (some τ) := by
      rw [hl5, hcur5]
      exact scan_lbl _ hlE2 (fun s hs => by cases hs)
    obtain ⟨hadv6, hcur6⟩ := emit_adv _ _ hscan6
    subst h
    -- everything the loop captures below it is flagged
    have hflag : ∀ r ∈ (freeCaps fc.regTop (.whileLoop b)).1, ownerFlag (p2 :: rest2) r = true := by
      intro r hr'
      simp only [freeCaps, List.mem_filter, decide_eq_true_eq] at hr'
      have := p.flag r (by rw [we.top]; exact hr'.1)
      rw [hb2, ownerFlag_lt_base (by omega)] at this
      exact this
    have hX : ∀ r ∈ (freeCaps fc.regTop (.whileLoop b)).1, r < topOf fc.blocks := fun r hr' => by
      simp only [freeCaps, List.mem_filter, decide_eq_true_eq] at hr'
      rw [← hr.geo.top]; exact hr'.2
    have hextall : Ext fc.ltypes fc2.ltypes := Ext.trans we.adv.ext hext2
    have hgeo4 : Geo (fc3.emit (.jmp (fc.labelId + 1))) :=
      ⟨by simp [hb3, hb2], by simpa using hch4, by simp only [emit_regTop, emit_blocks, hr3, hb3]; exact p.rel.geo.top,
       by simp only [emit_ltypes, emit_labelId, hl3, hi3]; exact p.rel.geo.keys⟩
    have hgeo5 := popped_geo hgeo4 hb4
    refine ⟨⟨⟨hgeo5.ne, hgeo5.chain, hgeo5.top, hgeo5.keys⟩, ?_⟩, ?_, ?_, ?_, ?_, ?_⟩
    · rw [hcur6]
      simp only [emit_blocks, emit_ltypes, popped_blocks, hl5]
      exact exit_good hr.geo.chain (Rel.dprops hr) hextall htext hX ha hflag
    · exact (((we.adv.trans p.adv).trans hadv3).trans hadv4).trans (hadv5.trans hadv6)
    · simp only [emit_blocks, popped_blocks]; exact htext.toBExt
    · simp only [emit_regTop, popped_regTop, freeCaps]; exact hbase
    · intro r hr'
      unfold curD at hr'
      rw [hcur6] at hr'
      exact List.mem_append.mp hr'
    · intro r hr'
      simp only [emit_blocks, popped_blocks]
      exact hflag r hr'

end GLua.CloseC
