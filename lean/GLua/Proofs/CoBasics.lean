/-
  C06 — lemmas of the second layer (deepening): whole-thread ("full") descriptions of the effect of
  XMoveTo / switchToParentThread / coResume on a world, the relocation arithmetic of `initCallFrame` for fixed AND
  vararg bodies in the list model, and what `enterLua` emits afterwards.  Core Lean only.
-/
import GLua.Proofs.Coroutine

namespace GLua.Co
open GLua GLua.CoScript

/-! ### lists -/

theorem range_map_eq_adjust (r : List OVal) (start n : Nat) (h : start ≤ r.length) :
    ((List.range n).map fun i => if start + i ≥ r.length then none else r.getD (start + i) none)
      = adjust (r.drop start) (some n) := by
  apply List.ext_getElem?
  intro i
  simp only [adjust, List.getElem?_map, List.length_drop]
  by_cases hi : i < n
  · simp only [List.getElem?_range hi, Option.map_some]
    by_cases h2 : start + i < r.length
    · have : ¬ (start + i ≥ r.length) := by omega
      rw [if_neg this, List.getElem?_append_left (by simp; omega)]
      simp [hi, List.getElem?_drop, List.getD, h2]
    · have : start + i ≥ r.length := by omega
      rw [if_pos this, List.getElem?_append_right (by simp; omega)]
      rw [List.getElem?_replicate, if_pos (by simp; omega)]
  · simp [hi]
    omega

theorem regSetTop_snoc_none (A : List OVal) (k : Nat) :
    regSetTop (A ++ [none]) (A.length + k) = A ++ List.replicate k none := by
  cases k with
  | zero => simp [regSetTop]
  | succ k =>
    simp only [regSetTop, List.length_append, List.length_singleton]
    rw [List.take_of_length_le (by simp)]
    rw [show A.length + (k + 1) - (A.length + 1) = k by omega, List.append_assoc]
    rfl

theorem adjust_none (vs : List OVal) : adjust vs none = vs := rfl

theorem adjust_nil (k : Nat) : adjust [] (some k) = List.replicate k none := by simp [adjust]

/-- `copyRange` with the source window inside the old top: the registers below `regv` are kept (padded with LNil
    if `regv` is above the old top), then come the `n` copied values = the source adjusted to `n`. -/
theorem copyRange_eq (r : List OVal) (regv start n : Nat) (h : start ≤ r.length) :
    copyRange r regv start n = regSetTop r regv ++ adjust (r.drop start) (some n) := by
  simp only [copyRange, range_map_eq_adjust r start n h]

@[simp] theorem trace_setTh (w : World) (t : Nat) (x : Thread) : (w.setTh t x).trace = w.trace := rfl

/-! ### XMoveTo, whole threads -/

theorem xMoveTo_full (w : World) (src dst n : Nat) (hne : src ≠ dst) (hs : src < w.threads.length)
    (hd : dst < w.threads.length) (hb : (w.th src).lbase ≤ (w.th src).reg.length) :
    (xMoveTo w src dst n).th dst =
        { w.th dst with reg := (w.th dst).reg ++
            (w.th src).reg.drop ((w.th src).reg.length - min n (w.th src).getTop) } ∧
    (xMoveTo w src dst n).th src =
        { w.th src with reg := (w.th src).reg.take ((w.th src).reg.length - min n (w.th src).getTop) } ∧
    (∀ t, t ≠ src → t ≠ dst → (xMoveTo w src dst n).th t = w.th t) ∧
    (xMoveTo w src dst n).current = w.current ∧ (xMoveTo w src dst n).trace = w.trace ∧
    (xMoveTo w src dst n).threads.length = w.threads.length := by
  have hw' : xMoveTo w src dst n = (w.setTh dst ((w.th dst).pushAll (xMoveVals (w.th src) n))).setTh src
      ((w.th src).setTop ((w.th src).getTop - min n (w.th src).getTop)) := by
    simp only [xMoveTo, if_neg hne]
  refine ⟨?_, ?_, ?_, ?_, ?_, ?_⟩
  · rw [hw', th_setTh_ne _ _ _ _ hne, th_setTh_eq _ _ _ hd]
    simp only [Thread.pushAll, xMoveVals_eq_drop _ _ hb]
  · rw [hw', th_setTh_eq _ _ _ (by simpa using hs)]
    simp only [Thread.setTop]
    rw [regSetTop_of_le _ _ (by simp only [Thread.getTop]; omega)]
    congr 2
    simp only [Thread.getTop] at *; omega
  · intro t h1 h2
    rw [hw', th_setTh_ne _ _ _ _ (Ne.symm h1), th_setTh_ne _ _ _ _ (Ne.symm h2)]
  · rw [hw']; rfl
  · rw [hw']; rfl
  · rw [hw']; simp

/-! ### switchToParentThread, whole threads -/

theorem switch_full (w : World) (l p nargs : Nat) (haserror kill : Bool) (g : Frame) (ks : List Frame)
    (hl : l < w.threads.length) (hp : p < w.threads.length) (hne : l ≠ p)
    (hpar : (w.th l).parent = some p) (hcur : (w.th l).cur = true) (hfr : (w.th l).frames = g :: ks)
    (hlb : g.localBase ≤ (w.th l).reg.length)
    (hoff : g.localBase - g.returnBase ≤ (w.th l).reg.length - min nargs (w.th l).getTop) :
    ∃ w', switchToParentThread w l nargs haserror kill = .ok w' ∧
      w'.current = p ∧ w'.threads.length = w.threads.length ∧ w'.trace = w.trace ∧
      w'.th p = { w.th p with reg := (w.th p).reg ++ (if (w.th l).wrapped then [] else [some (.bool !haserror)]) ++
                        (w.th l).reg.drop ((w.th l).reg.length - min nargs (w.th l).getTop) } ∧
      w'.th l = { w.th l with
                  parent := none, yieldNRet := g.nret, frames := ks, cur := !ks.isEmpty,
                  reg := (w.th l).reg.take ((w.th l).reg.length - min nargs (w.th l).getTop - (g.localBase - g.returnBase)),
                  dead := (w.th l).dead || kill } ∧
      (∀ t, t ≠ l → t ≠ p → w'.th t = w.th t) := by
  let L := w.th l
  let w2 : World := ({ w with current := p } : World).setTh l { L with parent := none }
  let w3 : World := if !L.wrapped then w2.setTh p ((w2.th p).push (some (.bool !haserror))) else w2
  have hlen2 : w2.threads.length = w.threads.length := by simp [w2, World.setTh]
  have hlen3 : w3.threads.length = w.threads.length := by
    simp only [w3]; split <;> simp [hlen2]
  have h2l : w2.th l = { L with parent := none } := th_setTh_eq _ _ _ (by simpa using hl)
  have h2p : w2.th p = w.th p := by
    simp only [w2]; rw [th_setTh_ne _ _ _ _ hne]; rfl
  have h2t : ∀ t, t ≠ l → w2.th t = w.th t := by
    intro t ht; simp only [w2]; rw [th_setTh_ne _ _ _ _ (Ne.symm ht)]; rfl
  have h3l : w3.th l = { L with parent := none } := by
    simp only [w3]; split
    · rw [th_setTh_ne _ _ _ _ (Ne.symm hne), h2l]
    · exact h2l
  have h3p : w3.th p = { w.th p with reg := (w.th p).reg ++ (if L.wrapped then [] else [some (.bool !haserror)]) } := by
    simp only [w3]
    cases hw : L.wrapped
    · simp only [Bool.not_false, if_true]
      rw [th_setTh_eq _ _ _ (by simpa [hlen2] using hp), h2p]
      simp [Thread.push]
    · simp [h2p]
  have h3t : ∀ t, t ≠ l → t ≠ p → w3.th t = w.th t := by
    intro t h1 h2
    simp only [w3]; split
    · rw [th_setTh_ne _ _ _ _ (Ne.symm h2)]; exact h2t t h1
    · exact h2t t h1
  have h3cur : w3.current = p := by simp only [w3]; split <;> rfl
  have h3tr : w3.trace = w.trace := by simp only [w3]; split <;> rfl
  have hlbL : L.lbase = g.localBase := (lbase_of_cur L g ks hcur hfr).1
  have hlb3 : (w3.th l).lbase = g.localBase := by
    rw [h3l]; exact (lbase_of_cur _ g ks (by simpa using hcur) (by simpa using hfr)).1
  have hreg3 : (w3.th l).reg = L.reg := by rw [h3l]
  have htop3 : (w3.th l).getTop = L.getTop := by
    simp only [Thread.getTop, hlb3, hreg3, hlbL]
  have hx := xMoveTo_full w3 l p nargs hne (by simpa [hlen3] using hl) (by simpa [hlen3] using hp)
    (by rw [hlb3, hreg3]; exact hlb)
  obtain ⟨hxd, hxs, hxt, hxc, hxtr, hxl⟩ := hx
  rw [htop3, hreg3] at hxd hxs
  let w4 := xMoveTo w3 l p nargs
  have h4l : w4.th l = { L with parent := none, reg := L.reg.take (L.reg.length - min nargs L.getTop) } := by
    show (xMoveTo w3 l p nargs).th l = _
    rw [hxs, h3l]
  have hcf : (w4.th l).curFrame = some g := by
    rw [h4l]
    simp only [Thread.curFrame]
    rw [show L.cur = true from hcur, show L.frames = g :: ks from hfr]
    rfl
  have hlen4 : (w4.th l).reg.length = L.reg.length - min nargs L.getTop := by
    rw [h4l]; simp
  have hoff' : ¬ ((w4.th l).reg.length < g.localBase - g.returnBase) := by
    rw [hlen4]; exact Nat.not_lt.mpr hoff
  let L4 := w4.th l
  let L5 : Thread := { L4 with
    yieldNRet := g.nret
    frames := L4.frames.tail
    cur := !L4.frames.tail.isEmpty
    reg := regSetTop L4.reg (L4.reg.length - (g.localBase - g.returnBase))
    dead := L4.dead || kill }
  refine ⟨w4.setTh l L5, ?_, ?_⟩
  · simp only [switchToParentThread, hpar]
    show (match (w4.th l).curFrame with | none => _ | some cf => _) = _
    rw [hcf]
    exact if_neg hoff'
  · have hl4 : l < w4.threads.length := by
      show l < (xMoveTo w3 l p nargs).threads.length
      rw [hxl, hlen3]; exact hl
    refine ⟨hxc.trans h3cur, ?_, ?_, ?_, ?_, ?_⟩
    · rw [length_setTh]; exact hxl.trans hlen3
    · show (xMoveTo w3 l p nargs).trace = _
      rw [hxtr, h3tr]
    · rw [th_setTh_ne _ _ _ _ hne]
      show (xMoveTo w3 l p nargs).th p = _
      rw [hxd, h3p]
    · rw [th_setTh_eq _ _ _ hl4]
      show ({ L4 with yieldNRet := g.nret, frames := L4.frames.tail, cur := !L4.frames.tail.isEmpty,
                      reg := regSetTop L4.reg (L4.reg.length - (g.localBase - g.returnBase)),
                      dead := L4.dead || kill } : Thread) = _
      have e4 : L4 = { w.th l with
          parent := none
          reg := (w.th l).reg.take ((w.th l).reg.length - min nargs (w.th l).getTop) } := h4l
      rw [e4]
      simp only
      rw [regSetTop_of_le _ _ (by omega), List.take_take]
      rw [hfr]
      simp only [List.tail_cons, List.length_take]
      congr 2
      omega
    · intro t h1 h2
      rw [th_setTh_ne _ _ _ _ (Ne.symm h1)]
      exact (hxt t h1 h2).trans (h3t t h1 h2)

/-! ### `initCallFrame` in the list model: fixed and vararg bodies -/

/-- `initCallFrame` of a Lua function (fixed arity or vararg), arguments `args` above `pre`:
    * fixed: `LocalBase` stays; the parameter registers hold the arguments adjusted to `np`;
    * vararg: `LocalBase` moves past `max(nargs, np)` slots: the old parameter slots are LNil, the surplus arguments
      stay where they were (in order), the parameters are relocated to the new `LocalBase`;
    the window is filled with LNil up to `NumUsedRegisters`, nothing below the old `LocalBase` changes. -/
theorem initCallFrameLua_eq (pre args : List OVal) (f : Frame) (np nused : Nat) (va : Bool)
    (hlb : f.localBase = pre.length) (hn : f.nargs = args.length) (hu : np ≤ nused) :
    initCallFrameLua (pre ++ args) f np va nused =
      if va then
        (pre ++ List.replicate np none ++ args.drop np ++ adjust args (some np) ++ List.replicate (nused - np) none,
         { f with localBase := pre.length + max args.length np })
      else
        (pre ++ adjust args (some np) ++ List.replicate (nused - np) none, f) := by
  cases va with
  | false =>
    have h := initCallFrameLua_fixed pre args f np nused hlb hn hu
    simp only [Bool.false_eq_true, if_false]
    exact Prod.ext h.2 h.1
  | true =>
    simp only [if_true]
    cases f with
    | mk isG base localBase returnBase nargs nret gk fid idx code recv =>
    simp only at hlb hn
    subst hlb hn
    -- the registry after "default any missing arguments to nil"
    have hr1 : (if args.length < np then regSetTop (pre ++ args) (pre.length + np) else pre ++ args)
        = pre ++ (args ++ List.replicate (np - args.length) none) := by
      split
      · rename_i h
        rw [regSetTop_append_adjust]
        simp only [adjust]
        rw [List.take_of_length_le (by omega)]
      · rename_i h
        have : np - args.length = 0 := by omega
        simp [this]
    simp only [initCallFrameLua, Bool.not_true, Bool.false_eq_true, if_false]
    rw [hr1]
    have hparams : ((pre ++ (args ++ List.replicate (np - args.length) none)).drop pre.length).take np
        = adjust args (some np) := by
      rw [List.drop_left]
      simp only [adjust]
      by_cases h : np ≤ args.length
      · rw [List.take_append_of_le_length h]
        simp [Nat.sub_eq_zero_of_le h]
      · have h' : args.length ≤ np := by omega
        rw [List.take_of_length_le (by simp; omega)]
        rw [List.take_of_length_le h']
    have hextras : ((pre ++ (args ++ List.replicate (np - args.length) none)).drop (pre.length + np)).take
        (max args.length np - np) = args.drop np := by
      rw [← List.drop_drop, List.drop_left]
      by_cases h : np ≤ args.length
      · have h0 : np - args.length = 0 := by omega
        rw [h0]
        simp only [List.replicate_zero, List.append_nil]
        rw [List.take_of_length_le (by simp; omega)]
      · have h' : args.length ≤ np := by omega
        rw [List.drop_of_length_le (by simp; omega), List.drop_of_length_le h']
        simp
    have htake : (pre ++ (args ++ List.replicate (np - args.length) none)).take pre.length = pre := by simp
    rw [hparams, hextras, htake]
    congr 1
    have hA : (pre ++ List.replicate np none ++ args.drop np ++ adjust args (some np)).length
        = pre.length + max args.length np + np := by
      simp only [List.length_append, List.length_replicate, List.length_drop, adjust_length]; omega
    have := regSetTop_snoc_none (pre ++ List.replicate np none ++ args.drop np ++ adjust args (some np)) (nused - np)
    rw [hA, show pre.length + max args.length np + np + (nused - np) = pre.length + max args.length np + nused by omega]
      at this
    exact this

/-- what the body reads after `initCallFrame`: the named parameters (adjusted to `np`) at the new `LocalBase`, and
    — for a vararg function — the surplus arguments, in order, where OP_VARARG copies them from. -/
theorem initCallFrameLua_binds (pre args : List OVal) (f : Frame) (np nused : Nat) (va : Bool)
    (hlb : f.localBase = pre.length) (hb : f.base + 1 = f.localBase) (hn : f.nargs = args.length) (hu : np ≤ nused) :
    let res := initCallFrameLua (pre ++ args) f np va nused
    readRegs res.1 res.2.localBase np = .ok (adjust args (some np)) ∧
    (va = true → varargVals res.1 res.2 np = args.drop np) ∧
    res.1.take pre.length = pre ∧ res.1.length = res.2.localBase + nused ∧
    res.2 = { f with localBase := if va then pre.length + max args.length np else pre.length } := by
  intro res
  have he : res = _ := initCallFrameLua_eq pre args f np nused va hlb hn hu
  cases va with
  | false =>
    simp only [Bool.false_eq_true, if_false] at he ⊢
    rw [he]
    refine ⟨?_, fun h => absurd h (by simp), ?_, ?_, ?_⟩
    · have := readRegs_mid pre (adjust args (some np)) (List.replicate (nused - np) none)
      rw [adjust_length] at this
      rw [hlb]; exact this
    · simp [List.append_assoc]
    · simp only [List.length_append, adjust_length, List.length_replicate, hlb]; omega
    · cases f; simp_all
  | true =>
    simp only [if_true] at he ⊢
    rw [he]
    have hA : (pre ++ List.replicate np none ++ args.drop np).length = pre.length + max args.length np := by
      simp only [List.length_append, List.length_replicate, List.length_drop]; omega
    refine ⟨?_, fun _ => ?_, ?_, ?_, rfl⟩
    · have := readRegs_mid (pre ++ List.replicate np none ++ args.drop np) (adjust args (some np))
        (List.replicate (nused - np) none)
      rw [adjust_length, hA] at this
      exact this
    · -- OP_VARARG: CopyRange RA cf.Base+np+1 cf.LocalBase nvarargs
      simp only [varargVals]
      apply List.ext_getElem?
      intro i
      simp only [List.getElem?_map, hn]
      by_cases hi : i < args.length - np
      · simp only [List.getElem?_range hi, Option.map_some]
        have hsrc : f.base + np + 1 + i = pre.length + np + i := by omega
        rw [hsrc]
        have h1 : ¬ (pre.length + np + i ≥ pre.length + max args.length np ∨
            pre.length + np + i ≥ (pre ++ List.replicate np none ++ args.drop np ++ adjust args (some np) ++
              List.replicate (nused - np) none).length) := by
          simp only [List.length_append, List.length_replicate, List.length_drop, adjust_length]; omega
        rw [if_neg h1]
        have h2 : (pre ++ List.replicate np none ++ args.drop np ++ adjust args (some np) ++
              List.replicate (nused - np) none).getD (pre.length + np + i) none = (args.drop np).getD i none := by
          simp only [List.getD]
          rw [List.append_assoc, List.append_assoc, List.getElem?_append_right (by simp)]
          simp only [List.length_append, List.length_replicate]
          rw [show pre.length + np + i - (pre.length + np) = i by omega]
          rw [List.getElem?_append_left (by simp; omega)]
        rw [h2]
        simp only [List.getD, List.getElem?_drop]
        have : np + i < args.length := by omega
        simp [this]
      · rw [List.getElem?_eq_none (by simp; omega), List.getElem?_eq_none (by simp; omega)]
        rfl
    · simp [List.append_assoc]
    · simp only [List.length_append, adjust_length, List.length_replicate, List.length_drop]; omega

/-- `enterLua` right after `initCallFrame`: the token the function emits on entry is the manual's parameter
    binding of the arguments (`entryVals` = named parameters, and for `...` the count and the surplus values). -/
theorem enterLua_after_init (p : Prog) (w : World) (t : Nat) (pre args : List OVal) (f : Frame) (ks : List Frame)
    (hlb : f.localBase = pre.length) (hb : f.base + 1 = f.localBase) (hn : f.nargs = args.length)
    (hu : (p.fn f.fid).np ≤ (p.fn f.fid).nused)
    (hreg : (w.th t).reg = (initCallFrameLua (pre ++ args) f (p.fn f.fid).np (p.fn f.fid).vararg (p.fn f.fid).nused).1)
    (hfr : (w.th t).frames =
      (initCallFrameLua (pre ++ args) f (p.fn f.fid).np (p.fn f.fid).vararg (p.fn f.fid).nused).2 :: ks) :
    enterLua p w t = (w.emit ("P" ++ toString f.fid) (entryVals (p.fn f.fid) args), .run t) := by
  have hbind := initCallFrameLua_binds pre args f (p.fn f.fid).np (p.fn f.fid).nused (p.fn f.fid).vararg hlb hb hn hu
  simp only at hbind
  obtain ⟨h1, h2, _, _, h5⟩ := hbind
  have hfid : (initCallFrameLua (pre ++ args) f (p.fn f.fid).np (p.fn f.fid).vararg (p.fn f.fid).nused).2.fid = f.fid := by
    rw [h5]
  simp only [enterLua, hfr, hfid, hreg, h1]
  cases hva : (p.fn f.fid).vararg with
  | false => simp [entryVals, bindParams, hva]
  | true =>
    rw [hva] at h2
    have h2' := h2 rfl
    simp [entryVals, bindParams, hva, h2']

/-! ### coResume, whole threads -/

theorem adjustResumedValues_full (cfg : Cfg) (T : Thread) (pre vs : List OVal) (h : T.reg = pre ++ vs)
    (hfix : cfg.adjustFix = true) :
    adjustResumedValues cfg T vs.length = { T with reg := pre ++ adjust vs T.yieldNRet } := by
  unfold adjustResumedValues
  simp only [hfix, Bool.not_true, Bool.false_eq_true, if_false]
  cases hy : T.yieldNRet with
  | none =>
    simp only [adjust]; rw [← h]
    cases T; simp only at hy; subst hy; rfl
  | some k =>
    simp only [h, List.length_append]
    rw [show pre.length + vs.length - vs.length + k = pre.length + k by omega, regSetTop_append_adjust]

/-- a later `coResume` (thread already started), as whole-thread equalities. -/
theorem coResumeEnter_started_full (cfg : Cfg) (w : World) (l th : Nat) (body : Option (Nat × Bool × Nat))
    (hl : l < w.threads.length) (hth : th < w.threads.length) (hne : l ≠ th)
    (hcur : (w.th th).cur = true) (hlb : (w.th l).lbase + 1 ≤ (w.th l).reg.length)
    (hfix : cfg.adjustFix = true) :
    ∃ w', coResumeEnter cfg w l th body = .ok (w', 1) ∧ w'.current = th ∧
      w'.threads.length = w.threads.length ∧ w'.trace = w.trace ∧
      w'.th th = { w.th th with
                   parent := some l
                   reg := (w.th th).reg ++ adjust ((w.th l).reg.drop ((w.th l).lbase + 1)) (w.th th).yieldNRet } ∧
      w'.th l = { w.th l with reg := (w.th l).reg.take ((w.th l).lbase + 1) } ∧
      (∀ t, t ≠ l → t ≠ th → w'.th t = w.th t) := by
  let w2 : World := { (w.setTh th { w.th th with parent := some l }) with current := th }
  have hlen2 : w2.threads.length = w.threads.length := by simp [w2, World.setTh]
  have h2th : w2.th th = { w.th th with parent := some l } := by
    show (w.setTh th _).th th = _
    exact th_setTh_eq _ _ _ hth
  have h2l : w2.th l = w.th l := by
    show (w.setTh th _).th l = _
    exact th_setTh_ne _ _ _ _ (Ne.symm hne)
  have h2t : ∀ t, t ≠ th → w2.th t = w.th t := by
    intro t ht
    show (w.setTh th _).th t = _
    exact th_setTh_ne _ _ _ _ (Ne.symm ht)
  have hcur2 : (w2.th th).cur = true := by rw [h2th]; exact hcur
  let nargs := (w2.th l).getTop - 1
  have hnargs : nargs = (w.th l).reg.length - (w.th l).lbase - 1 := by
    simp only [nargs, h2l, Thread.getTop]
  have hx := xMoveTo_full w2 l th nargs hne (by simpa [hlen2] using hl) (by simpa [hlen2] using hth)
    (by rw [h2l]; omega)
  obtain ⟨hxd, hxs, hxt, hxc, hxtr, hxl⟩ := hx
  have hk : min nargs (w2.th l).getTop = nargs := by simp only [nargs]; omega
  rw [hk, h2l] at hxd hxs
  have hdrop : (w.th l).reg.length - nargs = (w.th l).lbase + 1 := by omega
  rw [hdrop] at hxd hxs
  let w3 := xMoveTo w2 l th nargs
  let vs := (w.th l).reg.drop ((w.th l).lbase + 1)
  have hvs : vs.length = nargs := by simp only [vs, List.length_drop]; omega
  have h3th : w3.th th = { w.th th with parent := some l, reg := (w.th th).reg ++ vs } := by
    show (xMoveTo w2 l th nargs).th th = _
    rw [hxd, h2th]
  have ha := adjustResumedValues_full cfg (w3.th th) (w.th th).reg vs (by rw [h3th]) hfix
  rw [hvs] at ha
  have hth3 : th < w3.threads.length := by
    show th < (xMoveTo w2 l th nargs).threads.length
    rw [hxl, hlen2]; exact hth
  let w4 := w3.setTh th (adjustResumedValues cfg (w3.th th) nargs)
  have h4l : w4.th l = w3.th l := th_setTh_ne _ _ _ _ (Ne.symm hne)
  have h4th : w4.th th = adjustResumedValues cfg (w3.th th) nargs := th_setTh_eq _ _ _ hth3
  have h3l : w3.th l = { w.th l with reg := (w.th l).reg.take ((w.th l).lbase + 1) } := hxs
  have hlbase : (w4.th l).lbase = (w.th l).lbase := by
    rw [h4l, h3l]; rfl
  have htop : (w4.th l).getTop = 1 := by
    simp only [Thread.getTop, hlbase]
    rw [h4l, h3l]; simp only [List.length_take]; omega
  refine ⟨w4, ?_, ?_, ?_, ?_, ?_, ?_, ?_⟩
  · have : coResumeEnter cfg w l th body = .ok (w4, (w4.th l).getTop) := by
      have hc : ¬ ((!(w2.th th).cur) = true) := by rw [hcur2]; simp
      unfold coResumeEnter
      exact if_neg hc
    rw [this, htop]
  · show (xMoveTo w2 l th nargs).current = th
    rw [hxc]
  · show (w3.setTh th _).threads.length = _
    rw [length_setTh]
    show (xMoveTo w2 l th nargs).threads.length = _
    rw [hxl, hlen2]
  · show (xMoveTo w2 l th nargs).trace = _
    rw [hxtr]; rfl
  · rw [h4th, ha, h3th]
  · rw [h4l, h3l]
  · intro t h1 h2
    rw [show w4.th t = w3.th t from th_setTh_ne _ _ _ _ (Ne.symm h2)]
    show (xMoveTo w2 l th nargs).th t = _
    rw [hxt t h1 h2, h2t t h2]

/-- first `coResume` of a fresh thread whose body is a Lua function (fixed arity or vararg), whole threads. -/
theorem coResumeEnter_first_full (cfg : Cfg) (w : World) (l th np nused fid : Nat) (va wr : Bool) (code : List Act)
    (hl : l < w.threads.length) (hth : th < w.threads.length) (hne : l ≠ th)
    (hT : w.th th = newThread wr false fid code) (hlb : (w.th l).lbase + 1 ≤ (w.th l).reg.length) :
    ∃ w', coResumeEnter cfg w l th (some (np, va, nused)) = .ok (w', 1) ∧ w'.current = th ∧
      w'.threads.length = w.threads.length ∧ w'.trace = w.trace ∧
      w'.th th = { newThread wr false fid code with
                   parent := some l
                   cur := true
                   reg := (initCallFrameLua ([none] ++ (w.th l).reg.drop ((w.th l).lbase + 1))
                            { fid := fid, code := code, nargs := ((w.th l).reg.drop ((w.th l).lbase + 1)).length }
                            np va nused).1
                   frames := [(initCallFrameLua ([none] ++ (w.th l).reg.drop ((w.th l).lbase + 1))
                            { fid := fid, code := code, nargs := ((w.th l).reg.drop ((w.th l).lbase + 1)).length }
                            np va nused).2] } ∧
      w'.th l = { w.th l with reg := (w.th l).reg.take ((w.th l).lbase + 1) } ∧
      (∀ t, t ≠ l → t ≠ th → w'.th t = w.th t) := by
  let w2 : World := { (w.setTh th { w.th th with parent := some l }) with current := th }
  have hlen2 : w2.threads.length = w.threads.length := by simp [w2, World.setTh]
  have h2th : w2.th th = { w.th th with parent := some l } := by
    show (w.setTh th _).th th = _
    exact th_setTh_eq _ _ _ hth
  have h2l : w2.th l = w.th l := by
    show (w.setTh th _).th l = _
    exact th_setTh_ne _ _ _ _ (Ne.symm hne)
  have h2t : ∀ t, t ≠ th → w2.th t = w.th t := by
    intro t ht
    show (w.setTh th _).th t = _
    exact th_setTh_ne _ _ _ _ (Ne.symm ht)
  let cf : Frame := { fid := fid, code := code }
  have hfr2 : (w2.th th).frames = [cf] := by rw [h2th, hT]; rfl
  have hcur2 : (w2.th th).cur = false := by rw [h2th, hT]; rfl
  let nargs := (w2.th l).getTop - 1
  let T3 : Thread := ({ w2.th th with cur := true } : Thread).setTop 0
  have hT3 : T3 = { newThread wr false fid code with parent := some l, cur := true, reg := [none] } := by
    simp only [T3, Thread.setTop, Thread.lbase, Thread.curFrame, hfr2]
    rw [h2th, hT]; rfl
  let w3 := w2.setTh th T3
  have hlen3 : w3.threads.length = w.threads.length := by simp [w3, hlen2]
  have h3th : w3.th th = T3 := th_setTh_eq _ _ _ (by simpa [hlen2] using hth)
  have h3l : w3.th l = w.th l := by
    show (w2.setTh th T3).th l = _
    rw [th_setTh_ne _ _ _ _ (Ne.symm hne), h2l]
  have h3t : ∀ t, t ≠ th → w3.th t = w.th t := by
    intro t ht
    show (w2.setTh th T3).th t = _
    rw [th_setTh_ne _ _ _ _ (Ne.symm ht), h2t t ht]
  have hx := xMoveTo_full w3 l th nargs hne (by simpa [hlen3] using hl) (by simpa [hlen3] using hth)
    (by rw [h3l]; omega)
  obtain ⟨hxd, hxs, hxt, hxc, hxtr, hxl⟩ := hx
  have hnargs : nargs = (w.th l).reg.length - (w.th l).lbase - 1 := by
    simp only [nargs, h2l, Thread.getTop]
  have hk : min nargs (w3.th l).getTop = nargs := by
    rw [h3l]; simp only [Thread.getTop]; omega
  rw [hk, h3l] at hxd hxs
  have hdrop : (w.th l).reg.length - nargs = (w.th l).lbase + 1 := by omega
  rw [hdrop, h3th, hT3] at hxd
  rw [hdrop] at hxs
  let w4 := xMoveTo w3 l th nargs
  let vs := (w.th l).reg.drop ((w.th l).lbase + 1)
  have hvs : vs.length = nargs := by simp only [vs, List.length_drop]; omega
  let T := w4.th th
  have hTeq : T = { newThread wr false fid code with parent := some l, cur := true, reg := [none] ++ vs } := hxd
  let cf' : Frame := { cf with nargs := nargs }
  let w5 := w4.setTh th { T with reg := (initCallFrameLua T.reg cf' np va nused).1,
                                 frames := (initCallFrameLua T.reg cf' np va nused).2 :: [] }
  have hth4 : th < w4.threads.length := by
    show th < (xMoveTo w3 l th nargs).threads.length
    rw [hxl, hlen3]; exact hth
  have h5th : w5.th th = _ := th_setTh_eq _ _ _ hth4
  have h5l : w5.th l = w4.th l := th_setTh_ne _ _ _ _ (Ne.symm hne)
  have h4l : w4.th l = { w.th l with reg := (w.th l).reg.take ((w.th l).lbase + 1) } := hxs
  have hlbase : (w5.th l).lbase = (w.th l).lbase := by
    rw [h5l, h4l]; rfl
  have htop : (w5.th l).getTop = 1 := by
    simp only [Thread.getTop, hlbase]
    rw [h5l, h4l]; simp only [List.length_take]; omega
  refine ⟨w5, ?_, ?_, ?_, ?_, ?_, ?_, ?_⟩
  · have hc : (!(w2.th th).cur) = true := by rw [hcur2]; rfl
    have : coResumeEnter cfg w l th (some (np, va, nused)) = .ok (w5, (w5.th l).getTop) := by
      unfold coResumeEnter
      rw [if_pos hc]
      show (match (w2.th th).frames with | [] => _ | cf :: rest => _) = _
      rw [hfr2]
    rw [this, htop]
  · show (xMoveTo w3 l th nargs).current = th
    rw [hxc]; rfl
  · show (w4.setTh th _).threads.length = _
    rw [length_setTh]
    show (xMoveTo w3 l th nargs).threads.length = _
    rw [hxl, hlen3]
  · show (xMoveTo w3 l th nargs).trace = _
    rw [hxtr]; rfl
  · rw [h5th]
    have e1 : T.reg = [none] ++ vs := by rw [hTeq]
    rw [e1, hTeq]
    have e2 : cf' = { fid := fid, code := code, nargs := vs.length } := by simp only [cf', cf, hvs]
    rw [e2]
  · rw [h5l, h4l]
  · intro t h1 h2
    rw [show w5.th t = w4.th t from th_setTh_ne _ _ _ _ (Ne.symm h2)]
    show (xMoveTo w3 l th nargs).th t = _
    rw [hxt t h1 h2, h3t t h2]

end GLua.Co

