/-
  C06 — isolation: the frame condition of the interpreter step (`step_same`) — for EVERY world, control state and
  configuration, a step touches only the running thread, its resumer (Parent) and the coroutine it resumes.
  Core Lean only.
-/
import GLua.Proofs.CoBasics
namespace GLua.Co
open GLua GLua.CoScript

@[simp] theorem th_emit (w : World) (l : String) (vs : List OVal) (x : Nat) : (w.emit l vs).th x = w.th x := rfl
@[simp] theorem th_setCurrent (w : World) (c x : Nat) : ({ w with current := c } : World).th x = w.th x := rfl

@[simp] theorem th_mk_threads (w : World) (c : Nat) (tr : Trace) (x : Nat) :
    (World.mk w.threads c tr).th x = w.th x := rfl

theorem th_setTh_self (w : World) (t : Nat) (T : Thread) :
    (w.setTh t T).th t = T ∨ ((w.setTh t T).th t = w.th t ∧ w.th t = {}) := by
  by_cases h : t < w.threads.length
  · exact Or.inl (th_setTh_eq w t T h)
  · right
    have h' : w.threads.length ≤ t := Nat.le_of_not_lt h
    constructor
    · simp [World.th, World.setTh, List.getD, h']
    · simp [World.th, List.getD, h']

theorem xMoveTo_same (w : World) (s d n x : Nat) (h1 : s ≠ x) (h2 : d ≠ x) : (xMoveTo w s d n).th x = w.th x := by
  unfold xMoveTo
  split
  · rfl
  · simp only []
    rw [th_setTh_ne _ _ _ _ h1, th_setTh_ne _ _ _ _ h2]

theorem switch_same (w w' : World) (l nargs : Nat) (he k : Bool) (x : Nat)
    (h : switchToParentThread w l nargs he k = .ok w') (h1 : l ≠ x) (h2 : (w.th l).parent ≠ some x) :
    w'.th x = w.th x := by
  cases hp : (w.th l).parent with
  | none => simp [switchToParentThread, hp] at h
  | some p =>
    have hpx : p ≠ x := fun e => h2 (by rw [hp, e])
    simp only [switchToParentThread, hp] at h
    repeat' split at h
    all_goals first | (cases h; done) | skip
    all_goals (injection h with h; subst h; simp [th_setTh_ne, xMoveTo_same, h1, hpx])

theorem coResumeEnter_same (cfg : Cfg) (w w' : World) (l th n x : Nat) (body : Option (Nat × Bool × Nat))
    (h : coResumeEnter cfg w l th body = .ok (w', n)) (h1 : l ≠ x) (h2 : th ≠ x) : w'.th x = w.th x := by
  simp only [coResumeEnter] at h
  repeat' split at h
  all_goals first | (cases h; done) | skip
  all_goals (injection h with h; injection h with h h'; subst h; simp [th_setTh_ne, xMoveTo_same, h1, h2])

theorem afterThreadRun_world (w : World) (p : Nat) : (afterThreadRun w p).1 = w := by
  unfold afterThreadRun
  repeat' split
  all_goals rfl

theorem enterLua_same (p : Prog) (w : World) (t x : Nat) : ((enterLua p w t).1).th x = w.th x := by
  unfold enterLua
  simp only []
  repeat' split
  all_goals rfl

theorem afterThreadRun_same (w : World) (p x : Nat) : ((afterThreadRun w p).1).th x = w.th x := by
  rw [afterThreadRun_world]

theorem doResume_same (cfg : Cfg) (p : Prog) (w : World) (l j x : Nat) (h1 : l ≠ x) (h2 : j ≠ x) :
    ((doResume cfg p w l j).1).th x = w.th x := by
  unfold doResume
  split
  · split <;> simp [th_setTh_ne, h1]
  · simp only []
    split
    · rfl
    · rename_i w' top hce
      have hs := coResumeEnter_same cfg w w' l j top x _ hce h1 h2
      repeat' split
      all_goals simp [afterThreadRun_same, enterLua_same, th_setTh_ne, h1, h2, hs]

/-- a thread updated in place keeps the Parent link the footprint is computed from. -/
theorem parent_setTh_self (w : World) (t : Nat) (T : Thread) (hT : T.parent = (w.th t).parent) :
    ((w.setTh t T).th t).parent = (w.th t).parent := by
  rcases th_setTh_self w t T with h | ⟨h, _⟩
  · rw [h, hT]
  · rw [h]

theorem parent_setTh_self' (w : World) (t : Nat) (T : Thread) (x : Nat) (hT : T.parent = (w.th t).parent)
    (h2 : (w.th t).parent ≠ some x) : ((w.setTh t T).th t).parent ≠ some x := by
  rw [parent_setTh_self w t T hT]; exact h2

theorem opReturn_same (w : World) (t ra b x : Nat) (h1 : t ≠ x) (h2 : (w.th t).parent ≠ some x) :
    ((opReturn w t ra b).1).th x = w.th x := by
  unfold opReturn
  simp only []
  split
  · rfl
  · split
    · split
      · simp [th_setTh_ne, h1]
      · rename_i w' hsw
        rw [afterThreadRun_same]
        have := switch_same _ w' t _ _ _ x hsw h1 (parent_setTh_self' _ _ _ _ (by rfl) h2)
        rw [this, th_setTh_ne _ _ _ _ h1]
    · repeat' split
      all_goals simp [th_setTh_ne, h1]

theorem gReturn_same (cfg : Cfg) (w : World) (t n x : Nat) (h1 : t ≠ x) (h2 : (w.th t).parent ≠ some x) :
    ((gReturn cfg w t n).1).th x = w.th x := by
  unfold gReturn
  simp only []
  split
  · rfl
  · split
    · split
      · rfl
      · rename_i w' hsw
        rw [afterThreadRun_same]
        exact switch_same _ w' t _ _ _ x hsw h1 h2
    · repeat' split
      all_goals simp [afterThreadRun_same, th_setTh_ne, h1]

theorem doRaise_same (cfg : Cfg) (w : World) (t : Nat) (v : OVal) (x : Nat) (h1 : t ≠ x)
    (h2 : (w.th t).parent ≠ some x) : ((doRaise cfg w t v).1).th x = w.th x := by
  unfold doRaise
  simp only []
  split
  · simp [th_setTh_ne, h1]
  · split
    · split <;> rfl
    · rename_i p hp
      split
      · split <;> simp [th_setTh_ne, h1]
      · split
        · simp [th_setTh_ne, h1]
        · rename_i w' hsw
          rw [afterThreadRun_same]
          have := switch_same _ w' t _ _ _ x hsw h1 (parent_setTh_self' _ _ _ _ (by rfl) h2)
          rw [this, th_setTh_ne _ _ _ _ h1]

/-- the coroutine the next act of a frame resumes (if it is a resume / wrapped call / generator step). -/
def Frame.target (f : Frame) : Option Nat :=
  match f.recv with
  | .forin _ j _ _ => some j
  | .none =>
    match f.code with
    | .resume j _ _ _ _ :: _ => some j
    | .forin j _ :: _ => some j
    | _ => none
  | _ => none

/-- the threads a step in control state `c` may touch: the thread that runs, its resumer (Parent), and the
    coroutine it resumes. -/
def touched (w : World) : Ctl → Nat → Prop
  | .fin _, _ => False
  | .gret t _, x => x = t ∨ (w.th t).parent = some x
  | .raise t _, x => x = t ∨ (w.th t).parent = some x
  | .run t, x => x = t ∨ (w.th t).parent = some x ∨ (w.th t).frames.head?.bind Frame.target = some x

set_option hygiene false in
/-- closes one branch of `step`: the resulting world is `w` with thread `t` (and perhaps its Parent, through
    `switchToParentThread`, or the resumed coroutine `j`) replaced. -/
macro "frame_close" : tactic => `(tactic| first
  | (simp [th_setTh_ne, h1]; done)
  | (rw [afterThreadRun_same]
     refine (switch_same _ _ _ _ _ _ x (by assumption) h1
       (parent_setTh_self' _ _ _ _ ?_ h2)).trans (by simp [th_setTh_ne, h1])
     first | (simp [pushG, advance, Thread.setTop, Thread.pushAll]; done)
           | (simp [pushG, advance, Thread.setTop, Thread.pushAll]; split <;> rfl))
  | (rw [opReturn_same _ _ _ _ _ h1 (parent_setTh_self' _ _ _ _ (by rfl) h2)]; simp [th_setTh_ne, h1]; done)
  | (rw [doResume_same _ _ _ _ _ _ h1 hj]; simp [th_setTh_ne, h1]; done)
  | (rw [enterLua_same]; simp [th_setTh_ne, h1]; done))

instance (w : World) (c : Ctl) (x : Nat) : Decidable (touched w c x) := by
  unfold touched; split <;> infer_instance

theorem step_run_same (cfg : Cfg) (p : Prog) (w : World) (t x : Nat) (h1 : t ≠ x) (h2 : (w.th t).parent ≠ some x)
    (h3 : (w.th t).frames.head?.bind Frame.target ≠ some x) : ((step cfg p w (.run t)).1).th x = w.th x := by
  unfold step
  simp only []
  split
  · rfl
  · rename_i f ks hfr
    simp only [hfr, List.head?_cons, Option.bind_some] at h3
    split
    · rfl
    · split
      · -- recv emit
        repeat' split
        all_goals simp [th_setTh_ne, h1]
      · -- tailret
        rw [opReturn_same _ _ _ _ _ h1 (parent_setTh_self' _ _ _ _ (by rfl) h2), th_setTh_ne _ _ _ _ h1]
      · -- forin
        rename_i l j nvars ra hrecv
        have hj : j ≠ x := fun e => h3 (by simp [Frame.target, hrecv, e])
        repeat' split
        all_goals frame_close
      · -- recv none: next act
        rename_i hrecv
        split
        · exact opReturn_same _ _ _ _ _ h1 h2
        · rename_i a rest hcode
          cases a with
          | yield tail a vals want =>
            simp only []
            repeat' split
            all_goals frame_close
          | resume j prot a vals want =>
            have hj : j ≠ x := fun e => h3 (by simp [Frame.target, hrecv, hcode, e])
            simp only []
            frame_close
          | ret a vals => simp only []; frame_close
          | err v => simp only []; frame_close
          | status j => simp only []; frame_close
          | running => simp only []; frame_close
          | call g a vals want => simp only []; frame_close
          | forin j nvars =>
            have hj : j ≠ x := fun e => h3 (by simp [Frame.target, hrecv, hcode, e])
            simp only []
            split <;> frame_close
          | hyield a hargs vals want =>
            simp only []
            repeat' split
            all_goals frame_close

/-- **frame condition of a step** (every state, every configuration): a thread that is neither the running one, nor
    its resumer, nor the coroutine being resumed is left exactly as it was — registers, frames, flags. -/
theorem step_same (cfg : Cfg) (p : Prog) (w : World) (c : Ctl) (x : Nat) (h : ¬ touched w c x) :
    ((step cfg p w c).1).th x = w.th x := by
  cases c with
  | fin t => rfl
  | gret t n =>
    simp only [touched, not_or] at h
    exact gReturn_same cfg w t n x (Ne.symm h.1) h.2
  | raise t v =>
    simp only [touched, not_or] at h
    exact doRaise_same cfg w t v x (Ne.symm h.1) h.2
  | run t =>
    simp only [touched, not_or] at h
    exact step_run_same cfg p w t x (Ne.symm h.1) h.2.1 h.2.2

end GLua.Co
