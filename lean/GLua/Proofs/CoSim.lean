/-
  C06 — history-level simulation, the theorem: from the initial states, by induction over ANY number of Model steps
  (= any event history the script produces), the Model state stays related to a Spec state reached by some number of
  Spec steps; hence the observable traces agree and a finished Model run is a finished Spec run with the same tokens.
  Core Lean only.
-/
import GLua.Proofs.CoSimAll

set_option linter.unusedSimpArgs false
set_option linter.unusedVariables false
namespace GLua.CoSim
open GLua GLua.CoScript GLua.Co

/-! ### runs of the Model machine -/

theorem mstep_fin (cfg : Cfg) (p : Prog) (w : World) (t : String) : step cfg p w (.fin t) = (w, .fin t) := by
  simp [step]

theorem mrun_fin (cfg : Cfg) (p : Prog) (n : Nat) (w : World) (t : String) : Co.run cfg p n w (.fin t) = (w, .fin t) := by
  cases n <;> simp [Co.run]

/-- `run (n+1)` = one more `step` at the end (a finished machine stays put). -/
theorem mrun_succ (cfg : Cfg) (p : Prog) (n : Nat) (w : World) (c : Co.Ctl) :
    Co.run cfg p (n + 1) w c = step cfg p (Co.run cfg p n w c).1 (Co.run cfg p n w c).2 := by
  induction n generalizing w c with
  | zero =>
    cases c <;> simp [Co.run, mstep_fin]
  | succ n ih =>
    cases c with
    | fin t => simp [Co.run, mstep_fin]
    | run t =>
      show Co.run cfg p (n + 1) (step cfg p w (.run t)).1 (step cfg p w (.run t)).2 = _
      rw [ih]; rfl
    | gret t k =>
      show Co.run cfg p (n + 1) (step cfg p w (.gret t k)).1 (step cfg p w (.gret t k)).2 = _
      rw [ih]; rfl
    | raise t v =>
      show Co.run cfg p (n + 1) (step cfg p w (.raise t v)).1 (step cfg p w (.raise t v)).2 = _
      rw [ih]; rfl

/-! ### the initial states are related -/

theorem init_live (p : Prog) (hp : okProg p = true) : Live p (initWorld p) (.run 0) (CoSpec.initSt p) .exec := by
  have hmain := okProg_main p hp
  have hfn := okProg_fn p hp 0
  have hco0 := okProg_co0 p hp
  have hcos : ∀ j, ∃ f, (p.co j).body = some f := okProg_co p hp
  obtain ⟨f1, hf1⟩ := hcos 1
  obtain ⟨f2, hf2⟩ := hcos 2
  obtain ⟨f3, hf3⟩ := hcos 3
  obtain ⟨f4, hf4⟩ := hcos 4
  have hthreads : (initWorld p).threads =
      [{ reg := regSetTop [] (1 + (p.fn 0).nused), cur := true, seen := true,
         frames := [{ fid := 0, code := (p.fn 0).acts }] },
       newThread (p.co 1).wrapped false f1 (p.fn f1).acts, newThread (p.co 2).wrapped false f2 (p.fn f2).acts,
       newThread (p.co 3).wrapped false f3 (p.fn f3).acts, newThread (p.co 4).wrapped false f4 (p.fn f4).acts] := by
    simp [initWorld, Prog.maxCo, List.range, List.range.loop, hf1, hf2, hf3, hf4]
  have hcos' : (CoSpec.initSt p).cos =
      [{ st := .running, started := true, k := [{ fid := 0, rest := (p.fn 0).acts }] }, {}, {}, {}, {}] := by
    simp [CoSpec.initSt, CoSpec.enter, CoSpec.St.setCo, CoSpec.St.co, Prog.maxCo, List.range, List.range.loop]
  have hchain : (CoSpec.initSt p).chain = [0] := by simp [CoSpec.initSt, CoSpec.enter, CoSpec.St.setCo]
  have htrace : (initWorld p).trace = (CoSpec.initSt p).trace := by
    simp [initWorld, CoSpec.initSt, CoSpec.enter, CoSpec.St.setCo, entryVals, bindParams, hmain.1, hmain.2, adjust]
    rfl
  have hth : ∀ t, (initWorld p).th t = (initWorld p).threads.getD t {} := fun t => rfl
  have hco : ∀ t, (CoSpec.initSt p).co t = (CoSpec.initSt p).cos.getD t {} := fun t => rfl
  refine ⟨by rw [hthreads]; rfl, by rw [hcos']; rfl, htrace, 0, [], hchain, rfl, by decide, by simp, ?_, ?_, ?_, ?_, ?_⟩
  · exact ⟨rfl, by rw [hth, hthreads]; rfl⟩
  · rw [hth, hthreads, hco, hcos']
    exact ⟨rfl, rfl, rfl, by rw [hco0]; rfl, rfl⟩
  · rw [hco, hcos']; rfl
  · rw [hth, hthreads, hco, hcos']
    refine .exec { fid := 0, code := (p.fn 0).acts } [] rfl ⟨rfl, ⟨rfl, rfl, Nat.zero_le _, hfn.2, trivial⟩, ⟨rfl, rfl⟩⟩ rfl ?_
    simp [regSetTop]
  · intro t ht hnin
    have ht0 : t ≠ 0 := fun e => hnin (by rw [e]; exact List.mem_cons_self ..)
    have ht5 : t < 5 := ht
    rw [hth, hthreads, hco, hcos']
    have : t = 1 ∨ t = 2 ∨ t = 3 ∨ t = 4 := by omega
    rcases this with e | e | e | e <;> subst e
    · exact ⟨rfl, Or.inl ⟨f1, hf1, rfl, rfl, rfl, rfl⟩⟩
    · exact ⟨rfl, Or.inl ⟨f2, hf2, rfl, rfl, rfl, rfl⟩⟩
    · exact ⟨rfl, Or.inl ⟨f3, hf3, rfl, rfl, rfl, rfl⟩⟩
    · exact ⟨rfl, Or.inl ⟨f4, hf4, rfl, rfl, rfl, rfl⟩⟩

/-! ### the simulation over whole histories -/

/-- after ANY number `n` of Model steps the state is related to the Spec state after some number `m` of Spec steps. -/
theorem sim_run (p : Prog) (hp : okProg p = true) (n : Nat) :
    ∃ m, Sim p (Co.run Cfg.fixed p n (initWorld p) (.run 0)).1 (Co.run Cfg.fixed p n (initWorld p) (.run 0)).2
      (CoSpec.run p m (CoSpec.initSt p) .exec).1 (CoSpec.run p m (CoSpec.initSt p) .exec).2 := by
  induction n with
  | zero => exact ⟨0, (init_live p hp).trace, Or.inr (init_live p hp)⟩
  | succ n ih =>
    obtain ⟨m, htr, hs⟩ := ih
    rw [mrun_succ]
    rcases hs with ⟨tok, h1, h2, h3⟩ | hL
    · refine ⟨m, ?_⟩
      rw [h1, mstep_fin]
      exact ⟨htr, Or.inl ⟨tok, rfl, h2, h3⟩⟩
    · obtain ⟨m', hm', _⟩ := sim_step hp hL
      exact ⟨m + m', by rw [srun_add]; exact hm'⟩

/-- a finished Model run is a finished Spec run with the same observable trace. -/
theorem sim_fin (p : Prog) (hp : okProg p = true) (n : Nat) (w : World) (tok : String)
    (h : Co.run Cfg.fixed p n (initWorld p) (.run 0) = (w, .fin tok)) :
    FinTok tok ∧ ∃ m s, CoSpec.run p m (CoSpec.initSt p) .exec = (s, .fin tok) ∧ s.trace = w.trace := by
  obtain ⟨m, htr, hs⟩ := sim_run p hp n
  rw [h] at htr hs
  rcases hs with ⟨tok', h1, h2, h3⟩ | hL
  · injection h1 with h1; subst h1
    exact ⟨h3, m, _, Prod.ext rfl h2, htr.symm⟩
  · obtain ⟨c, rest, _, _, _, _, _, _, _, _, _, _, hhead⟩ := hL.head
    cases hhead

theorem live_spec_not_fin {p : Prog} {w : World} {mc : Co.Ctl} {s : CoSpec.St} {tok : String} :
    ¬ Live p w mc s (.fin tok) := by
  intro hL
  obtain ⟨c, rest, _, _, _, _, _, _, _, _, _, _, hhead⟩ := hL.head
  cases hhead

/-- a finished Spec run stays finished with more fuel. -/
theorem srun_stable (p : Prog) (m k : Nat) (s s' : CoSpec.St) (c : CoSpec.Ctl) (t : String)
    (h : CoSpec.run p m s c = (s', .fin t)) : CoSpec.run p (m + k) s c = (s', .fin t) := by
  rw [srun_add, h, srun_fin]

theorem srun_stable1 (p : Prog) (m : Nat) (s : CoSpec.St) (c : CoSpec.Ctl) (t : String)
    (h : (CoSpec.run p m s c).2 = .fin t) : CoSpec.run p (m + 1) s c = CoSpec.run p m s c := by
  rw [srun_add]
  rw [show CoSpec.run p m s c = ((CoSpec.run p m s c).1, .fin t) from Prod.ext rfl h, srun_fin]

theorem mrun_succ' (cfg : Cfg) (p : Prog) (n : Nat) (w : World) (c : Co.Ctl) :
    Co.run cfg p (n + 1) w c = Co.run cfg p n (step cfg p w c).1 (step cfg p w c).2 := by
  cases c with
  | fin t => simp [Co.run, mstep_fin, mrun_fin]
  | run t => rfl
  | gret t k => rfl
  | raise t v => rfl

theorem mrun_add (cfg : Cfg) (p : Prog) (a b : Nat) (w : World) (c : Co.Ctl) :
    Co.run cfg p (a + b) w c = Co.run cfg p b (Co.run cfg p a w c).1 (Co.run cfg p a w c).2 := by
  induction a generalizing w c with
  | zero => simp [Co.run]
  | succ a ih =>
    rw [show a + 1 + b = (a + b) + 1 by omega, mrun_succ', mrun_succ', ih]

theorem live_model_not_fin {p : Prog} {w : World} {s : CoSpec.St} {sc : CoSpec.Ctl} {tok : String} :
    ¬ Live p w (.fin tok) s sc := by
  intro hL
  obtain ⟨c, rest, _, _, _, _, _, _, _, _, _, _, hhead⟩ := hL.head
  cases hhead

/-- from a related unfinished state, after at most `stut + 1` Model steps the Spec has made at least one step. -/
theorem sim_advance (p : Prog) (hp : okProg p = true) (k : Nat) :
    ∀ (w : World) (mc : Co.Ctl) (s : CoSpec.St) (sc : CoSpec.Ctl), Live p w mc s sc → stut w mc ≤ k →
      ∃ n m, 1 ≤ m ∧ Sim p (Co.run Cfg.fixed p n w mc).1 (Co.run Cfg.fixed p n w mc).2
        (CoSpec.run p m s sc).1 (CoSpec.run p m s sc).2 := by
  induction k with
  | zero =>
    intro w mc s sc hL hk
    obtain ⟨m, hm, hm0⟩ := sim_step hp hL
    by_cases hz : m = 0
    · have := hm0 hz; omega
    · exact ⟨1, m, by omega, by rw [mrun_succ']; exact hm⟩
  | succ k ih =>
    intro w mc s sc hL hk
    obtain ⟨m, hm, hm0⟩ := sim_step hp hL
    by_cases hz : m = 0
    · subst hz
      have hlt := hm0 rfl
      rcases hm.2 with ⟨tok, _, h2, _⟩ | hL2
      · exact absurd (show Live p w mc s (.fin tok) from h2 ▸ hL) live_spec_not_fin
      · obtain ⟨n', m', hm', hs'⟩ := ih _ _ _ _ hL2 (by omega)
        exact ⟨n' + 1, m', hm', by rw [mrun_succ']; exact hs'⟩
    · exact ⟨1, m, by omega, by rw [mrun_succ']; exact hm⟩

/-- **progress** (the converse direction): the Spec machine never gets ahead for ever — for every number `m` of Spec
    steps there is a number `n` of Model steps after which the Model is related to the Spec state after at least `m`
    steps.  (Between two Spec steps the Model makes at most three steps.) -/
theorem sim_progress (p : Prog) (hp : okProg p = true) (m : Nat) :
    ∃ n m', m ≤ m' ∧
      Sim p (Co.run Cfg.fixed p n (initWorld p) (.run 0)).1 (Co.run Cfg.fixed p n (initWorld p) (.run 0)).2
        (CoSpec.run p m' (CoSpec.initSt p) .exec).1 (CoSpec.run p m' (CoSpec.initSt p) .exec).2 := by
  induction m with
  | zero => exact ⟨0, 0, Nat.le_refl _, (init_live p hp).trace, Or.inr (init_live p hp)⟩
  | succ m ih =>
    obtain ⟨n, m', hle, htr, hs⟩ := ih
    by_cases hlt : m + 1 ≤ m'
    · exact ⟨n, m', hlt, htr, hs⟩
    · have hmm : m' = m := by omega
      subst hmm
      rcases hs with ⟨tok, h1, h2, h3⟩ | hL
      · -- both finished: the Spec stays where it is
        refine ⟨n, m' + 1, Nat.le_refl _, ?_⟩
        rw [srun_stable1 p m' _ _ tok h2]
        exact ⟨htr, Or.inl ⟨tok, h1, h2, h3⟩⟩
      · obtain ⟨n', k, hk, hsim⟩ := sim_advance p hp _ _ _ _ _ hL (Nat.le_refl _)
        refine ⟨n + n', m' + k, by omega, ?_⟩
        rw [mrun_add, srun_add]
        exact hsim

/-- a finished Spec run is a finished Model run with the same observable trace. -/
theorem sim_fin_conv (p : Prog) (hp : okProg p = true) (m : Nat) (s : CoSpec.St) (tok : String)
    (h : CoSpec.run p m (CoSpec.initSt p) .exec = (s, .fin tok)) :
    ∃ n w, Co.run Cfg.fixed p n (initWorld p) (.run 0) = (w, .fin tok) ∧ w.trace = s.trace := by
  obtain ⟨n, m', hle, htr, hs⟩ := sim_progress p hp m
  obtain ⟨k, rfl⟩ : ∃ k, m' = m + k := ⟨m' - m, by omega⟩
  rw [srun_stable p m k _ _ _ _ h] at htr hs
  rcases hs with ⟨tok', h1, h2, _⟩ | hL
  · injection h2 with h2; subst h2
    exact ⟨n, _, Prod.ext rfl h1, htr⟩
  · exact absurd hL live_spec_not_fin


/-! ### the Parent chain of every reachable state -/

/-- Parent links from the running thread down to the main thread (which has no Parent). -/
def ParentChain (w : World) : List Nat → Prop
  | [] => False
  | [c] => c = 0 ∧ (w.th c).parent = none
  | c :: c' :: r => c ≠ 0 ∧ (w.th c).parent = some c' ∧ ParentChain w (c' :: r)

theorem ParentChain_of_tail (p : Prog) (w : World) (s : CoSpec.St) (c : Nat) (rest : List Nat)
    (h : ChainTail p w s c rest) : ParentChain w (c :: rest) := by
  induction rest generalizing c with
  | nil => exact h
  | cons c' rest ih => exact ⟨h.1, h.2.1, ih c' h.2.2.2.2⟩

theorem chain_of_live {p : Prog} {w : World} {mc : Co.Ctl} {s : CoSpec.St} {sc : CoSpec.Ctl} (hL : Live p w mc s sc) :
    ∃ chain : List Nat, chain.Nodup ∧ chain.head? = some w.current ∧ ParentChain w chain ∧
      (∀ t, t < 5 → t ∉ chain → (w.th t).parent = none) ∧
      (∀ t l, 1 ≤ t → t ≤ 4 → (status Cfg.fixed w l t = "running" ↔ t = w.current) ∧
                               (status Cfg.fixed w l t = "normal" ↔ t ∈ chain.tail)) := by
  obtain ⟨c, rest, hch, hcur, hc, hnd, htail, hbase, hrun, _, hidle⟩ := hL.chain
  refine ⟨c :: rest, hnd, by simp [hcur], ParentChain_of_tail p w s c rest htail, fun t ht hn => (hidle t ht hn).1, ?_⟩
  intro t l h1 h4
  rcases classify hL hch t h1 h4 with htc | ⟨hm, htc, _, hb, hpar⟩ | ⟨hn, htc, hpar, hid⟩
  · subst htc
    have hnin : t ∉ rest := (List.nodup_cons.mp hnd).1
    simp [status, Cfg.fixed, hcur, hbase.dead, hnin]
  · have hct : ¬ c = t := fun e => htc e.symm
    simp [status, Cfg.fixed, hcur, hct, htc, hb.dead, hpar, hm]
  · have hct : ¬ c = t := fun e => htc e.symm
    have hnr : t ∉ rest := fun hm => hn (List.mem_cons_of_mem _ hm)
    by_cases hd : (w.th t).dead = true
    · simp [status, Cfg.fixed, hd, hnr, htc, hcur]
    · simp [status, Cfg.fixed, hd, hcur, hct, htc, hpar, hnr]

/-- every reachable, unfinished state of the Model machine has a well-formed Parent chain. -/
theorem chain_run (p : Prog) (hp : okProg p = true) (n : Nat) :
    (∃ tok, (Co.run Cfg.fixed p n (initWorld p) (.run 0)).2 = .fin tok) ∨
    ∃ chain : List Nat, chain.Nodup ∧
      chain.head? = some (Co.run Cfg.fixed p n (initWorld p) (.run 0)).1.current ∧
      ParentChain (Co.run Cfg.fixed p n (initWorld p) (.run 0)).1 chain ∧
      (∀ t, t < 5 → t ∉ chain → ((Co.run Cfg.fixed p n (initWorld p) (.run 0)).1.th t).parent = none) ∧
      (∀ t l, 1 ≤ t → t ≤ 4 →
        (status Cfg.fixed (Co.run Cfg.fixed p n (initWorld p) (.run 0)).1 l t = "running" ↔
            t = (Co.run Cfg.fixed p n (initWorld p) (.run 0)).1.current) ∧
        (status Cfg.fixed (Co.run Cfg.fixed p n (initWorld p) (.run 0)).1 l t = "normal" ↔ t ∈ chain.tail)) := by
  obtain ⟨m, _, hs⟩ := sim_run p hp n
  rcases hs with ⟨tok, h1, _, _⟩ | hL
  · exact Or.inl ⟨tok, h1⟩
  · exact Or.inr (chain_of_live hL)

/-! ### wrap, on reachable states -/

/-- an error that reaches the body frame of a wrapped coroutine: the coroutine dies (Dead, no Parent), CurrentThread
    is its resumer again and the SAME value is raised there. -/
theorem wrap_error_of_live {p : Prog} {w : World} {s : CoSpec.St} {sc : CoSpec.Ctl} {c : Nat} {v : OVal}
    (hL : Live p w (.raise c v) s sc) (hw : (p.co c).wrapped = true) (hc0 : c ≠ 0)
    (hnp : ∀ f ∈ (w.th c).frames, f.gk ≠ .pcall) :
    ∃ pp, (w.th c).parent = some pp ∧
      step Cfg.fixed p w (.raise c v) =
        ({ (w.setTh c { (w.th c).push v with parent := none, dead := true }) with current := pp }, .raise pp v) := by
  obtain ⟨c', rest, hch, _, _, _, _, _, _, htail, hbase, _, hhead⟩ := hL.head
  have hcc : c = c' := by cases hhead <;> rfl
  subst hcc
  cases rest with
  | nil => exact absurd htail.1 hc0
  | cons pp rest0 =>
    exact ⟨pp, htail.2.1, mdoRaise_wrapped w c pp v hnp htail.2.1 (by rw [hbase.wrapped, hw])⟩

theorem live_raise_lt {p : Prog} {w : World} {s : CoSpec.St} {sc : CoSpec.Ctl} {c : Nat} {v : OVal}
    (hL : Live p w (.raise c v) s sc) : c < w.threads.length := by
  obtain ⟨c', _, _, _, _, _, hcw, _, _, _, _, _, hhead⟩ := hL.head
  cases hhead <;> exact hcw

/-- calling a dead wrapped coroutine: refused — the error "cannot resume dead coroutine" is raised in the caller. -/
theorem wrap_dead_call_of_live {p : Prog} {w : World} {s : CoSpec.St} {sc : CoSpec.Ctl} {c : Nat}
    (hL : Live p w (.run c) s sc) (f : Frame) (fs : List Frame) (j a : Nat) (vals : List OVal) (want : Want)
    (rest' : List Act) (hfr : (w.th c).frames = f :: fs) (hr : f.recv = .none)
    (hcode : f.code = .resume j false a vals want :: rest') (h1 : 1 ≤ j) (h4 : j ≤ 4)
    (hd : (w.th j).dead = true) (hw : (p.co j).wrapped = true) :
    (step Cfg.fixed p w (.run c)).2 = .raise c (sym "dead") := by
  obtain ⟨c', rest, hch, _, hwc, _, hcw, _, _, _, hbase, _, hhead⟩ := hL.head
  have hcc : c = c' := by cases hhead <;> rfl
  subst hcc
  have hG : f.isG = false := by
    cases hhead with
    | exec f' fs' hfr' hst _ _ => rw [hfr] at hfr'; injection hfr' with e1 e2; subst e1; exact hst.ok.notG
    | deliver f' fs' _ _ hfr' hst _ _ _ _ _ => rw [hfr] at hfr'; injection hfr' with e1 e2; subst e1; exact hst.ok.notG
    | deliverP f' fs' _ _ _ _ hfr' hst _ _ _ _ => rw [hfr] at hfr'; injection hfr' with e1 e2; subst e1; exact hst.ok.notG
    | caught f' fs' _ _ _ _ hfr' hst _ _ _ _ => rw [hfr] at hfr'; injection hfr' with e1 e2; subst e1; exact hst.ok.notG
  have hjc : j ≠ c := fun e => by rw [e, hbase.dead] at hd; cases hd
  have hwrj : (w.th j).wrapped = (p.co j).wrapped := by
    rcases classify hL hch j h1 h4 with e | ⟨_, _, _, hb, _⟩ | ⟨_, _, _, hid⟩
    · exact absurd e hjc
    · exact hb.wrapped
    · rcases hid with ⟨_, _, hT, _⟩ | ⟨_, _, _, hwr, _⟩ | ⟨hb, _⟩
      · rw [hT]; rfl
      · exact hwr
      · exact hb.wrapped
  have hcj : ¬ w.current = j := by rw [hwc]; exact Ne.symm hjc
  have hcheck : ∀ T1 : Thread, resumeCheck Cfg.fixed (w.setTh c T1) j = some .dead := by
    intro T1
    simp [resumeCheck, hcj, th_setTh_ne _ _ _ _ (Ne.symm hjc), hd]
  rw [mstep_resume Cfg.fixed p w c j a vals want f fs rest' hfr hG hr hcode, mdoResume_refused p _ c j .dead (hcheck _),
    th_setTh_ne _ _ _ _ (Ne.symm hjc), hwrj, hw]
  rfl

end GLua.CoSim
