/-
  C06 — history-level simulation: `sim_step` collects the cases — EVERY step of the Model machine from a state related
  to a Spec state is matched by 0, 1 or several Spec steps into a related state; when the Spec does not move (a Go
  frame is popped, or `PCall` recovers) the measure `stut` decreases, so the Model cannot stutter for ever.
  Core Lean only.
-/
import GLua.Proofs.CoSimResume
import GLua.Proofs.CoSimProt
import GLua.Proofs.CoSimForin

set_option linter.unusedSimpArgs false
set_option linter.unusedVariables false
namespace GLua.CoSim
open GLua GLua.CoScript GLua.Co

/-- how many Model steps can follow without a Spec step: Go frames on top of the running thread's stack still to be
    popped (`gret`), resp. `PCall`'s recovery followed by the pop of `pcall`'s frame (`raise`). -/
def stut (w : World) : Co.Ctl → Nat
  | .raise _ _ => 2
  | .gret t _ => ((w.th t).frames.takeWhile (·.isG)).length
  | _ => 0

theorem sim_of_step {p : Prog} {w w' : World} {mc mc' : Co.Ctl} {s : CoSpec.St} {sc : CoSpec.Ctl}
    (h : Sim p w' mc' (CoSpec.step p s sc).1 (CoSpec.step p s sc).2) :
    ∃ m, Sim p w' mc' (CoSpec.run p m s sc).1 (CoSpec.run p m s sc).2 ∧
      (m = 0 → stut w' mc' < stut w mc) :=
  ⟨1, by rw [srun_one]; exact h, fun h0 => absurd h0 (by decide)⟩

/-- **one step of the Model machine, from related states, is matched by zero, one or several steps of the Spec
    machine, ending in related states** — for every program of the covered fragment, every related pair of states.
    When the Spec stands still (m = 0) the measure `stut` decreases. -/
theorem sim_step {p : Prog} (hp : okProg p = true) {w : World} {mc : Co.Ctl} {s : CoSpec.St} {sc : CoSpec.Ctl}
    (hL : Live p w mc s sc) :
    ∃ m, Sim p (step Cfg.fixed p w mc).1 (step Cfg.fixed p w mc).2 (CoSpec.run p m s sc).1 (CoSpec.run p m s sc).2 ∧
      (m = 0 → stut (step Cfg.fixed p w mc).1 (step Cfg.fixed p w mc).2 < stut w mc) := by
  obtain ⟨c, rest, hch, hscur, _, _, _, _, _, _, _, _, hhead⟩ := hL.head
  cases hhead with
  | exec f fs hfr hst hr hlb =>
    cases hcode : f.code with
    | nil => exact sim_of_step (sim_retnil hL hch hfr hst hr hlb hcode)
    | cons a rest' =>
      have hok := hst.ok.code a (by rw [hcode]; exact List.mem_cons_self ..)
      cases a with
      | yield tail a vals want =>
        by_cases hc0 : c = 0
        · exact sim_of_step (sim_yield_outside hL hch hfr hst hr hlb tail a vals want rest' hcode hc0)
        · exact sim_of_step (sim_yield hL hch hfr hst hr hlb tail a vals want rest' hcode hc0)
      | resume j prot a vals want =>
        simp only [okAct, Bool.and_eq_true, decide_eq_true_eq] at hok
        cases prot with
        | false => exact sim_of_step (sim_resume hp hL hch hfr hst hr hlb j a vals want rest' hcode hok.1 hok.2)
        | true => exact sim_of_step (sim_resumeP hp hL hch hfr hst hr hlb j a vals want rest' hcode hok.1 hok.2)
      | ret a vals => exact sim_of_step (sim_ret hL hch hfr hst hr hlb a vals rest' hcode)
      | err v => exact sim_of_step (sim_err hL hch hfr hst hr hlb v rest' hcode)
      | status j =>
        simp only [okAct, Bool.and_eq_true, decide_eq_true_eq] at hok
        exact sim_of_step (sim_status hL hch hfr hst hr hlb j rest' hcode hok.1 hok.2)
      | running => exact sim_of_step (sim_running hL hch hfr hst hr hlb rest' hcode)
      | call g a vals want => exact sim_of_step (sim_call hp hL hch hfr hst hr hlb g a vals want rest' hcode)
      | forin j nvars =>
        simp only [okAct, Bool.and_eq_true, decide_eq_true_eq] at hok
        exact sim_of_step (sim_forin hp hL hch hfr hst hr hlb j nvars rest' hcode hok.1.1 hok.1.2 hok.2)
      | hyield a hargs vals want => simp [okAct] at hok
  | deliver f fs ra vs hfr hst hr hra hlb hle hvs =>
    cases hrecv : f.recv with
    | none => exact absurd hrecv hr
    | emit l want ra' =>
      rw [hrecv] at hra hvs
      simp only [recvRa, Option.some.injEq] at hra
      subst hra
      exact sim_of_step (sim_emit hL hch hfr hst l want ra' hrecv hlb hle hvs)
    | tailret ra' =>
      rw [hrecv] at hra hvs
      simp only [recvRa, Option.some.injEq] at hra
      subst hra
      exact sim_of_step (sim_tailret hL hch hfr hst ra' hrecv hlb hle hvs)
    | forin l j nv ra' =>
      have hb := hst.ok.recv
      rw [hrecv] at hb hra hvs
      simp only [recvRa, Option.some.injEq] at hra
      subst hra
      exact sim_of_step (sim_forin_deliver hp hL hch hfr hst l j nv ra' hrecv hlb hle hvs hb.1 hb.2.1 hb.2.2)
  | deliverP f fs l want ra vs hfr hst hr hlb hle hvs =>
    exact sim_of_step (sim_emitP hL hch hfr hst l want ra hr hlb hle _ hvs
      (sstep_emitP p s c vs (kfOfP f true) (fs.map kfOf) l want hscur hst.k (kfOfP_emit f l want ra hr)))
  | caught f fs l want ra v hfr hst hr hlb hle hvs =>
    exact sim_of_step (sim_emitP hL hch hfr hst l want ra hr hlb hle _ hvs
      (sstep_caught p s c v (kfOfP f true) (fs.map kfOf) l want hscur hst.k (kfOfP_emit f l want ra hr)))
  | gret g f fs want ra n hfr hst hr hlb hg hrb hnr hn =>
    have hthis : (step Cfg.fixed p w (.gret c n)).2 = .run c := by
      show (gReturn Cfg.fixed w c n).2 = _
      rw [mstep_gret Cfg.fixed w c n g f fs hfr hst.ok.notG]
    have hst0 : stut (step Cfg.fixed p w (.gret c n)).1 (step Cfg.fixed p w (.gret c n)).2 < stut w (.gret c n) := by
      rw [hthis]
      simp [stut, hfr, List.takeWhile, hg, hst.ok.notG]
    rcases hr with ⟨l, hr⟩ | ⟨l, j, nv, hr, hw⟩
    · exact ⟨0, sim_gret hL hch g l want ra hfr hst hr hlb hrb hnr hn rfl, fun _ => hst0⟩
    · subst hw
      exact ⟨0, (sim_gret_forin hL hch g l j nv ra hfr hst hr hlb hrb hnr hn rfl).1, fun _ => hst0⟩
  | gretInner inner pc f fs l want ra n hfr hst hr hlb hpc hg hrb hnr hn =>
    obtain ⟨n', h1, h2, h3⟩ := sim_gretInner hL hch inner pc l want ra hfr hst hr hlb hpc hrb hnr hn rfl
    refine ⟨0, h1, fun _ => ?_⟩
    rw [h2]
    simp only [stut, h3, hfr]
    simp [List.takeWhile, hg, hpc.isG, hst.ok.notG]
  | gretPc pc f fs l want ra n vs hfr hst hr hlb hpc hn hvs =>
    obtain ⟨h1, h2⟩ := sim_gretPc hL hch pc l want ra hfr hst hr hlb hpc hn hvs
    refine ⟨0, h1, fun _ => ?_⟩
    rw [h2]
    simp [stut, hfr, List.takeWhile, hpc.isG, hst.ok.notG]
  | gretPcErr pc f fs l want ra v hfr hst hr hlb hpc hn hvs =>
    obtain ⟨h1, h2⟩ := sim_gretPcErr hL hch pc l want ra hfr hst hr hlb hpc hn hvs
    refine ⟨0, h1, fun _ => ?_⟩
    rw [h2]
    simp [stut, hfr, List.takeWhile, hpc.isG, hst.ok.notG]
  | raiseP v inner pc f fs l want ra hfr hst hr hlb hpc hgk =>
    obtain ⟨h1, h2, h3⟩ := sim_raiseP hL hch inner pc l want ra hfr hst hr hlb hpc hgk
    refine ⟨0, h1, fun _ => ?_⟩
    rw [h2]
    simp only [stut, h3]
    decide
  | raise v b g ks hfr hrb hlb hnp hk hprot =>
    obtain ⟨m, hm0, hm⟩ := sim_raise hL hch g ks hfr hrb hlb hnp hk hprot
    exact ⟨m, hm, fun h0 => absurd h0 hm0⟩

end GLua.CoSim
