/-
  C06 — history-level simulation, definitions.

  The Model machine is the script interpreter of GLua/Model/Coroutine.lean (worlds: Parent links, Dead flags,
  CurrentThread, register stacks, call-frame stacks; control states run/gret/raise/fin), the Spec machine is the
  manual's coroutines of GLua/Spec/CoSpec.lean (per coroutine: status, started, stack of pending activations; the
  resume chain as a stack; control states exec/deliver/raise/fin).

  `Live` is the abstraction relation between a Model state and a Spec state.  Its parts:
    * the resume chain `c :: rest` of the Spec is exactly the Parent chain of the Model, starting at CurrentThread,
      without repetition, ending in the main thread 0 (`ChainTail`); every thread on it except the first is "normal":
      blocked in the Go function `coResume` whose frame will receive the results (`NormalT`);
    * every thread off the chain has no Parent and is a fresh thread (body not started), a dead thread, or a thread
      suspended in a yield whose popped call frame wanted `yieldNRet` results at the register where the stack now
      ends (`Idle`);
    * the running thread's frames/registers represent the Spec's control state (`HeadRel`): about to execute the
      same act, or holding the values that the Spec is about to deliver — adjusted where the receiving call site reads
      them — or unwinding the same error value.
  Core Lean only.
-/
import GLua.Proofs.CoFrame
import GLua.Spec.CoSpec

namespace GLua.CoSim
open GLua GLua.CoScript GLua.Co

/-! ### the fragment of scripts the simulation theorem covers (explicit decidable guard) -/

theorem find_mem {α} (q : α → Bool) (l : List α) (x : α) (h : l.find? q = some x) : x ∈ l :=
  List.mem_of_find?_eq_some h

theorem okProg_fn (p : Prog) (h : okProg p = true) (f : Nat) :
    (p.fn f).np ≤ (p.fn f).nused ∧ ∀ a ∈ (p.fn f).acts, okAct a = true := by
  simp only [okProg, Bool.and_eq_true, List.all_eq_true, decide_eq_true_eq] at h
  unfold Prog.fn
  split
  · rename_i x hx
    have := h.1.1.1 x (find_mem _ _ _ hx)
    exact ⟨this.1, this.2⟩
  · exact ⟨by decide, by intro a ha; cases ha⟩

theorem okProg_co (p : Prog) (h : okProg p = true) (j : Nat) : ∃ f, (p.co j).body = some f := by
  simp only [okProg, Bool.and_eq_true, List.all_eq_true, decide_eq_true_eq] at h
  unfold Prog.co
  split
  · rename_i x hx
    have := (h.1.1.2 x (find_mem _ _ _ hx)).2
    cases hb : x.2.body with
    | none => rw [hb] at this; cases this
    | some f => exact ⟨f, rfl⟩
  · exact ⟨_, rfl⟩

theorem okProg_co0 (p : Prog) (h : okProg p = true) : (p.co 0).wrapped = false := by
  simp only [okProg, Bool.and_eq_true, List.all_eq_true, decide_eq_true_eq] at h
  unfold Prog.co
  split
  · rename_i x hx
    have h1 := (h.1.1.2 x (find_mem _ _ _ hx)).1.1
    have h2 := List.find?_some hx
    simp only [decide_eq_true_eq] at h2
    omega
  · rfl

theorem okProg_main (p : Prog) (h : okProg p = true) : (p.fn 0).np = 0 ∧ (p.fn 0).vararg = false := by
  simp only [okProg, Bool.and_eq_true, decide_eq_true_eq, Bool.not_eq_true'] at h
  exact ⟨h.1.2, h.2⟩

/-! ### abstraction of frames -/

abbrev N : Nat := 5

def recvOf : Co.Recv → CoSpec.Recv
  | .none => .none
  | .emit l want _ => .emit l want false
  | .tailret _ => .tailret
  | .forin l j nv _ => .forin l j nv

/-- the pending activation a Lua frame of the Model stands for. -/
def kfOf (f : Frame) : CoSpec.KF := { fid := f.fid, idx := f.idx, rest := f.code, recv := recvOf f.recv }

/-- with `prot` the pending call of the frame is a `pcall(coroutine.resume, …)` / `pcall(f_j, …)`: in the Model that is
    visible in the Go frames above the Lua frame (`[coResume, pcall]`), in the Spec it is a flag of the activation. -/
def recvOfP (r : Co.Recv) : Bool → CoSpec.Recv
  | false => recvOf r
  | true => match r with
    | .emit l want _ => .emit l want true
    | r => recvOf r

def kfOfP (f : Frame) (prot : Bool) : CoSpec.KF :=
  { fid := f.fid, idx := f.idx, rest := f.code, recv := recvOfP f.recv prot }

/-- the register where the frame's pending call delivers its results. -/
def recvRa : Co.Recv → Option Nat
  | .none => none
  | .emit _ _ ra => some ra
  | .tailret ra => some ra
  | .forin _ _ _ ra => some ra

/-- the number of results the pending call of the frame wants (`none` = all). -/
def recvWant : Co.Recv → Want
  | .none => none
  | .emit _ w _ => w
  | .tailret _ => none
  | .forin _ _ nv _ => some nv

def recvPlain : Co.Recv → Prop
  | .forin _ j nv _ => 1 ≤ j ∧ j ≤ 4 ∧ 1 ≤ nv
  | _ => True

/-- the pending call of a frame is a resume whose results go to `ra`, `want` of them: a `coroutine.resume` / wrapped
    call in an expression, or the iterator call of a for-in loop (wants exactly its loop variables). -/
def ResRecv (r : Co.Recv) (want : Want) (ra : Nat) : Prop :=
  (∃ l, r = .emit l want ra) ∨ (∃ l j nv, r = .forin l j nv ra ∧ want = some nv)

/-- a Lua frame of the interpreter (not a Go function's frame). -/
structure LuaOK (f : Frame) : Prop where
  notG : f.isG = false
  gk   : f.gk = .none
  rb   : f.returnBase ≤ f.localBase
  code : ∀ a ∈ f.code, okAct a = true
  recv : recvPlain f.recv

/-- the frames below a frame whose results go to register `rb` (`nret` wanted): each is a Lua frame waiting in an
    ordinary call at exactly that register for exactly that many results; the outermost is the body frame
    (ReturnBase 0, MultRet). -/
def Callers : Nat → Want → List Frame → Prop
  | rb, nret, [] => rb = 0 ∧ nret = none
  | rb, nret, f :: fs => LuaOK f ∧ (∃ l, f.recv = .emit l nret rb) ∧ f.localBase ≤ rb ∧ Callers f.returnBase f.nret fs

/-- what every started, live thread satisfies. -/
structure Base (T : Thread) (C : CoSpec.Co) (d : CoDef) : Prop where
  dead    : T.dead = false
  cur     : T.cur = true
  seen    : T.seen = true
  wrapped : T.wrapped = d.wrapped
  started : C.started = true

/-- a Lua stack `f :: fs` of the Model and the Spec's stack of pending activations. -/
structure StackP (T : Thread) (C : CoSpec.Co) (f : Frame) (fs : List Frame) (prot : Bool) : Prop where
  k    : C.k = kfOfP f prot :: fs.map kfOf
  ok   : LuaOK f
  call : Callers f.returnBase f.nret fs

abbrev Stack (T : Thread) (C : CoSpec.Co) (f : Frame) (fs : List Frame) : Prop := StackP T C f fs false

/-- a fresh thread (`coroutine.create` / `coroutine.wrap` done, never resumed). -/
def Unstarted (p : Prog) (T : Thread) (C : CoSpec.Co) (d : CoDef) : Prop :=
  ∃ f, d.body = some f ∧ T = newThread d.wrapped false f (p.fn f).acts ∧ C.st = .suspended ∧ C.started = false ∧ C.k = []

def DeadT (T : Thread) (C : CoSpec.Co) (d : CoDef) : Prop :=
  T.dead = true ∧ T.parent = none ∧ T.seen = true ∧ T.wrapped = d.wrapped ∧ C.st = .dead ∧ C.started = true

/-- suspended in a yield: the yield's frame is popped, the stack ends where its results will go, `yieldNRet`
    remembers how many it wanted. -/
def Susp (T : Thread) (C : CoSpec.Co) (d : CoDef) : Prop :=
  Base T C d ∧ T.parent = none ∧ C.st = .suspended ∧
  ∃ f fs, T.frames = f :: fs ∧ Stack T C f fs ∧ f.recv ≠ .none ∧
    recvRa f.recv = some T.reg.length ∧ T.yieldNRet = recvWant f.recv ∧ f.localBase ≤ T.reg.length

def Idle (p : Prog) (T : Thread) (C : CoSpec.Co) (d : CoDef) : Prop :=
  Unstarted p T C d ∨ DeadT T C d ∨ Susp T C d

/-- "normal": blocked in `coResume` (frame `g`), whose results go to register `ra` of the Lua frame below. -/
def NormalPlain (T : Thread) (C : CoSpec.Co) : Prop :=
  ∃ g f fs want ra, T.frames = g :: f :: fs ∧ Stack T C f fs ∧ ResRecv f.recv want ra ∧ f.localBase ≤ ra ∧
    g.isG = true ∧ g.returnBase = ra ∧ g.localBase = ra + 1 ∧ g.nret = want ∧ g.gk = .resume 1 ∧
    T.reg.length = ra + 2

/-- the frame of `pcall` whose results go to register `ra` (`want` of them). -/
structure PcallFrame (pc : Frame) (ra : Nat) (want : Want) : Prop where
  isG : pc.isG = true
  gk  : pc.gk = .pcall
  rb  : pc.returnBase = ra
  lb  : pc.localBase = ra + 1
  nr  : pc.nret = want

/-- blocked in `coResume` called through `pcall`: two Go frames above the Lua frame. -/
def NormalProt (T : Thread) (C : CoSpec.Co) : Prop :=
  ∃ inner pc f fs l want ra, T.frames = inner :: pc :: f :: fs ∧ StackP T C f fs true ∧ f.recv = .emit l want ra ∧
    f.localBase ≤ ra ∧ PcallFrame pc ra want ∧
    inner.isG = true ∧ inner.returnBase = ra + 1 ∧ inner.localBase = ra + 2 ∧ inner.nret = none ∧
    inner.gk = .resume 1 ∧ T.reg.length = ra + 3

def NormalT (T : Thread) (C : CoSpec.Co) (d : CoDef) : Prop :=
  Base T C d ∧ C.st = .normal ∧ (NormalPlain T C ∨ NormalProt T C)

/-- the Parent chain below thread `c`. -/
def ChainTail (p : Prog) (w : World) (s : CoSpec.St) : Nat → List Nat → Prop
  | c, [] => c = 0 ∧ (w.th c).parent = none
  | c, c' :: rest => c ≠ 0 ∧ (w.th c).parent = some c' ∧ c' < N ∧
      NormalT (w.th c') (s.co c') (p.co c') ∧ ChainTail p w s c' rest

def NoProt (kf : CoSpec.KF) : Prop := ∀ l want, kf.recv ≠ .emit l want true

/-- the running thread `t` against the Spec's control state. -/
inductive HeadRel (t : Nat) (T : Thread) (C : CoSpec.Co) : Co.Ctl → CoSpec.Ctl → Prop
  /-- about to execute the next act of the innermost Lua frame -/
  | exec (f : Frame) (fs : List Frame) (hfr : T.frames = f :: fs) (hst : Stack T C f fs)
      (hr : f.recv = .none) (hlb : f.localBase ≤ T.reg.length) : HeadRel t T C (.run t) .exec
  /-- the results of the pending call of the innermost Lua frame are in its registers -/
  | deliver (f : Frame) (fs : List Frame) (ra : Nat) (vs : List OVal) (hfr : T.frames = f :: fs) (hst : Stack T C f fs)
      (hr : f.recv ≠ .none) (hra : recvRa f.recv = some ra) (hlb : f.localBase ≤ ra) (hle : ra ≤ T.reg.length)
      (hvs : T.reg.drop ra = adjust vs (recvWant f.recv)) : HeadRel t T C (.run t) (.deliver vs)
  /-- the Go function `coResume` returns the top `n` values -/
  | gret (g f : Frame) (fs : List Frame) (want : Want) (ra n : Nat) (hfr : T.frames = g :: f :: fs)
      (hst : Stack T C f fs) (hr : ResRecv f.recv want ra) (hlb : f.localBase ≤ ra)
      (hg : g.isG = true) (hrb : g.returnBase = ra) (hnr : g.nret = want) (hn : n ≤ T.reg.length) :
      HeadRel t T C (.gret t n) (.deliver (T.reg.drop (T.reg.length - n)))
  /-- (pcall) the results of a protected resume are in the registers: `true` first -/
  | deliverP (f : Frame) (fs : List Frame) (l : String) (want : Want) (ra : Nat) (vs : List OVal)
      (hfr : T.frames = f :: fs) (hst : StackP T C f fs true) (hr : f.recv = .emit l want ra) (hlb : f.localBase ≤ ra)
      (hle : ra ≤ T.reg.length) (hvs : T.reg.drop ra = adjust (some (.bool true) :: vs) want) :
      HeadRel t T C (.run t) (.deliver vs)
  /-- (pcall) a caught error is in the registers as (false, v) -/
  | caught (f : Frame) (fs : List Frame) (l : String) (want : Want) (ra : Nat) (v : OVal)
      (hfr : T.frames = f :: fs) (hst : StackP T C f fs true) (hr : f.recv = .emit l want ra) (hlb : f.localBase ≤ ra)
      (hle : ra ≤ T.reg.length) (hvs : T.reg.drop ra = adjust [some (.bool false), v] want) :
      HeadRel t T C (.run t) (.raise v true)
  /-- (pcall) `coResume`, called by `pcall`, returns the top `n` values -/
  | gretInner (inner pc f : Frame) (fs : List Frame) (l : String) (want : Want) (ra n : Nat)
      (hfr : T.frames = inner :: pc :: f :: fs) (hst : StackP T C f fs true) (hr : f.recv = .emit l want ra)
      (hlb : f.localBase ≤ ra) (hpc : PcallFrame pc ra want) (hg : inner.isG = true) (hrb : inner.returnBase = ra + 1)
      (hnr : inner.nret = none) (hn : n ≤ T.reg.length) :
      HeadRel t T C (.gret t n) (.deliver (T.reg.drop (T.reg.length - n)))
  /-- (pcall) `pcall` returns (true, values) -/
  | gretPc (pc f : Frame) (fs : List Frame) (l : String) (want : Want) (ra n : Nat) (vs : List OVal)
      (hfr : T.frames = pc :: f :: fs) (hst : StackP T C f fs true) (hr : f.recv = .emit l want ra)
      (hlb : f.localBase ≤ ra) (hpc : PcallFrame pc ra want) (hn : n ≤ T.reg.length)
      (hvs : T.reg.drop (T.reg.length - n) = some (.bool true) :: vs) :
      HeadRel t T C (.gret t n) (.deliver vs)
  /-- (pcall) `pcall` returns (false, v) after `PCall`'s recovery -/
  | gretPcErr (pc f : Frame) (fs : List Frame) (l : String) (want : Want) (ra : Nat) (v : OVal)
      (hfr : T.frames = pc :: f :: fs) (hst : StackP T C f fs true) (hr : f.recv = .emit l want ra)
      (hlb : f.localBase ≤ ra) (hpc : PcallFrame pc ra want) (hn : 2 ≤ T.reg.length)
      (hvs : T.reg.drop (T.reg.length - 2) = [some (.bool false), v]) :
      HeadRel t T C (.gret t 2) (.raise v true)
  /-- (pcall) an error value reaches `coResume` called by `pcall` -/
  | raiseP (v : OVal) (inner pc f : Frame) (fs : List Frame) (l : String) (want : Want) (ra : Nat)
      (hfr : T.frames = inner :: pc :: f :: fs) (hst : StackP T C f fs true) (hr : f.recv = .emit l want ra)
      (hlb : f.localBase ≤ ra) (hpc : PcallFrame pc ra want) (hgk : inner.gk ≠ .pcall) :
      HeadRel t T C (.raise t v) (.raise v true)
  /-- an error value unwinds the thread -/
  | raise (v : OVal) (b : Bool) (g : Frame) (ks : List Frame) (hfr : T.frames = g :: ks) (hrb : g.returnBase ≤ g.localBase)
      (hlb : g.localBase ≤ T.reg.length) (hnp : ∀ f ∈ T.frames, f.gk ≠ .pcall)
      (hk : C.k ≠ []) (hprot : ∀ kf ∈ C.k, NoProt kf) : HeadRel t T C (.raise t v) (.raise v b)

/-- the abstraction relation on live (not finished) states. -/
structure Live (p : Prog) (w : World) (mc : Co.Ctl) (s : CoSpec.St) (sc : CoSpec.Ctl) : Prop where
  lenw  : w.threads.length = N
  lens  : s.cos.length = N
  trace : w.trace = s.trace
  chain : ∃ c rest, s.chain = c :: rest ∧ w.current = c ∧ c < N ∧ (c :: rest).Nodup ∧ ChainTail p w s c rest ∧
            Base (w.th c) (s.co c) (p.co c) ∧ (s.co c).st = .running ∧
            HeadRel c (w.th c) (s.co c) mc sc ∧
            ∀ t, t < N → t ∉ c :: rest → (w.th t).parent = none ∧ Idle p (w.th t) (s.co t) (p.co t)

/-- the final tokens of a regular end: the chunk returned values, or failed with an error value (never a Go panic
    `gopanic:…`, never `STUCK…`). -/
def FinTok (tok : String) : Prop := (∃ vs, tok = "R:" ++ showVals vs) ∨ (∃ v, tok = "X:" ++ OVal.show v)

/-- **the simulation relation**: equal traces, and either both machines have finished with the same (regular) final
    token or the states are related by `Live`. -/
def Sim (p : Prog) (w : World) (mc : Co.Ctl) (s : CoSpec.St) (sc : CoSpec.Ctl) : Prop :=
  w.trace = s.trace ∧ ((∃ tok, mc = .fin tok ∧ sc = .fin tok ∧ FinTok tok) ∨ Live p w mc s sc)

/-! ### Spec worlds as lists -/

theorem co_setCo_eq (s : CoSpec.St) (c : Nat) (x : CoSpec.Co) (h : c < s.cos.length) : (s.setCo c x).co c = x := by
  simp [CoSpec.St.co, CoSpec.St.setCo, List.getD, h]

theorem co_setCo_ne (s : CoSpec.St) (c c' : Nat) (x : CoSpec.Co) (h : c ≠ c') : (s.setCo c x).co c' = s.co c' := by
  simp [CoSpec.St.co, CoSpec.St.setCo, List.getD, List.getElem?_set_ne h]

@[simp] theorem length_setCo (s : CoSpec.St) (c : Nat) (x : CoSpec.Co) : (s.setCo c x).cos.length = s.cos.length := by
  simp [CoSpec.St.setCo]

@[simp] theorem chain_setCo (s : CoSpec.St) (c : Nat) (x : CoSpec.Co) : (s.setCo c x).chain = s.chain := rfl
@[simp] theorem trace_setCo (s : CoSpec.St) (c : Nat) (x : CoSpec.Co) : (s.setCo c x).trace = s.trace := rfl
@[simp] theorem co_setTrace (s : CoSpec.St) (tr : Trace) (c : Nat) : ({ s with trace := tr } : CoSpec.St).co c = s.co c := rfl
@[simp] theorem co_setChain (s : CoSpec.St) (ch : List Nat) (c : Nat) : ({ s with chain := ch } : CoSpec.St).co c = s.co c := rfl

/-! ### congruence: the relation of a thread depends on that thread only -/

theorem ChainTail_congr (p : Prog) (w w' : World) (s s' : CoSpec.St) (c : Nat) (rest : List Nat)
    (hpar : (w'.th c).parent = (w.th c).parent)
    (hw : ∀ x ∈ rest, w'.th x = w.th x) (hs : ∀ x ∈ rest, s'.co x = s.co x)
    (h : ChainTail p w s c rest) : ChainTail p w' s' c rest := by
  induction rest generalizing c with
  | nil => exact ⟨h.1, by rw [hpar]; exact h.2⟩
  | cons c' rest ih =>
    obtain ⟨h1, h2, h3, h4, h5⟩ := h
    refine ⟨h1, by rw [hpar]; exact h2, h3, ?_, ?_⟩
    · rw [hw c' (List.mem_cons_self ..), hs c' (List.mem_cons_self ..)]; exact h4
    · exact ih c' (by rw [hw c' (List.mem_cons_self ..)])
        (fun x hx => hw x (List.mem_cons_of_mem _ hx)) (fun x hx => hs x (List.mem_cons_of_mem _ hx)) h5

theorem ChainTail_lt (p : Prog) (w : World) (s : CoSpec.St) (c : Nat) (rest : List Nat)
    (h : ChainTail p w s c rest) : ∀ x ∈ rest, x < N := by
  induction rest generalizing c with
  | nil => intro x hx; cases hx
  | cons c' rest ih =>
    intro x hx
    cases hx with
    | head => exact h.2.2.1
    | tail _ hx => exact ih c' h.2.2.2.2 x hx

/-- the chain ends in the main thread -/
theorem ChainTail_zero (p : Prog) (w : World) (s : CoSpec.St) (c : Nat) (rest : List Nat)
    (h : ChainTail p w s c rest) : (0 : Nat) ∈ c :: rest := by
  induction rest generalizing c with
  | nil => rw [h.1]; exact List.mem_cons_self ..
  | cons c' rest ih => exact List.mem_cons_of_mem _ (ih c' h.2.2.2.2)

/-- every thread on the chain except the last has a Parent; the main thread has none -/
theorem ChainTail_parent (p : Prog) (w : World) (s : CoSpec.St) (c : Nat) (rest : List Nat)
    (h : ChainTail p w s c rest) : ∀ x ∈ c :: rest, ((w.th x).parent.isSome ↔ x ≠ 0) := by
  induction rest generalizing c with
  | nil =>
    intro x hx
    simp only [List.mem_singleton] at hx
    subst hx
    rw [h.2, h.1]; simp
  | cons c' rest ih =>
    intro x hx
    cases hx with
    | head => rw [h.2.1]; simp [h.1]
    | tail _ hx => exact ih c' h.2.2.2.2 x hx

/-- the statuses of the threads on the chain below the head are "normal" -/
theorem ChainTail_normal (p : Prog) (w : World) (s : CoSpec.St) (c : Nat) (rest : List Nat)
    (h : ChainTail p w s c rest) : ∀ x ∈ rest, (s.co x).st = .normal ∧ (w.th x).dead = false := by
  induction rest generalizing c with
  | nil => intro x hx; cases hx
  | cons c' rest ih =>
    intro x hx
    cases hx with
    | head => exact ⟨h.2.2.2.1.2.1, h.2.2.2.1.1.dead⟩
    | tail _ hx => exact ih c' h.2.2.2.2 x hx

theorem ChainTail_base (p : Prog) (w : World) (s : CoSpec.St) (c : Nat) (rest : List Nat)
    (h : ChainTail p w s c rest) : ∀ x ∈ rest, Base (w.th x) (s.co x) (p.co x) := by
  induction rest generalizing c with
  | nil => intro x hx; cases hx
  | cons c' rest ih =>
    intro x hx
    cases hx with
    | head => exact h.2.2.2.1.1
    | tail _ hx => exact ih c' h.2.2.2.2 x hx

/-! ### re-establishing `Live` after the three kinds of transitions -/

/-- only the running thread changed (and it stays the running thread). -/
theorem live_head {p : Prog} {w w' : World} {s s' : CoSpec.St} {mc mc' : Co.Ctl} {sc sc' : CoSpec.Ctl}
    {c : Nat} {rest : List Nat}
    (hL : Live p w mc s sc) (hch : s.chain = c :: rest)
    (hlw : w'.threads.length = w.threads.length) (hls : s'.cos.length = s.cos.length)
    (htr : w'.trace = s'.trace) (hcur : w'.current = w.current) (hchain : s'.chain = s.chain)
    (how : ∀ x, x ≠ c → w'.th x = w.th x) (hos : ∀ x, x ≠ c → s'.co x = s.co x)
    (hpar : (w'.th c).parent = (w.th c).parent)
    (hbase : Base (w'.th c) (s'.co c) (p.co c)) (hst : (s'.co c).st = .running)
    (hhead : HeadRel c (w'.th c) (s'.co c) mc' sc') : Live p w' mc' s' sc' := by
  obtain ⟨c0, rest0, h1, h2, h3, h4, h5, _, _, _, h9⟩ := hL.chain
  rw [hch] at h1
  injection h1 with e1 e2
  subst e1 e2
  have hnotin : c ∉ rest := (List.nodup_cons.mp h4).1
  have hne : ∀ x ∈ rest, x ≠ c := fun x hx e => hnotin (e ▸ hx)
  refine ⟨hlw.trans hL.lenw, hls.trans hL.lens, htr, c, rest, hchain.trans hch, hcur.trans h2, h3, h4, ?_, hbase, hst,
    hhead, ?_⟩
  · exact ChainTail_congr p w w' s s' c rest hpar (fun x hx => how x (hne x hx)) (fun x hx => hos x (hne x hx)) h5
  · intro t ht hnin
    have htc : t ≠ c := fun e => hnin (e ▸ List.mem_cons_self ..)
    rw [how t htc, hos t htc]
    exact h9 t ht hnin

/-- the running thread `c` switched back to its resumer `pp` (yield, return or error). -/
theorem live_back {p : Prog} {w w' : World} {s s' : CoSpec.St} {mc mc' : Co.Ctl} {sc sc' : CoSpec.Ctl}
    {c pp : Nat} {rest : List Nat}
    (hL : Live p w mc s sc) (hch : s.chain = c :: pp :: rest)
    (hlw : w'.threads.length = w.threads.length) (hls : s'.cos.length = s.cos.length)
    (htr : w'.trace = s'.trace) (hcur : w'.current = pp) (hchain : s'.chain = pp :: rest)
    (how : ∀ x, x ≠ c → x ≠ pp → w'.th x = w.th x) (hos : ∀ x, x ≠ c → x ≠ pp → s'.co x = s.co x)
    (hpar : (w'.th pp).parent = (w.th pp).parent)
    (hidle : (w'.th c).parent = none ∧ Idle p (w'.th c) (s'.co c) (p.co c))
    (hbase : Base (w'.th pp) (s'.co pp) (p.co pp)) (hst : (s'.co pp).st = .running)
    (hhead : HeadRel pp (w'.th pp) (s'.co pp) mc' sc') : Live p w' mc' s' sc' := by
  obtain ⟨c0, rest0, h1, h2, h3, h4, h5, _, _, _, h9⟩ := hL.chain
  rw [hch] at h1
  injection h1 with e1 e2
  subst e1 e2
  have hnd := List.nodup_cons.mp h4
  have hnd2 := List.nodup_cons.mp hnd.2
  have hcne : ∀ x ∈ rest, x ≠ c := fun x hx e => hnd.1 (e ▸ List.mem_cons_of_mem _ hx)
  have hpne : ∀ x ∈ rest, x ≠ pp := fun x hx e => hnd2.1 (e ▸ hx)
  have hcpp : c ≠ pp := fun e => hnd.1 (e ▸ List.mem_cons_self ..)
  obtain ⟨_, _, hpplt, _, h5'⟩ := h5
  refine ⟨hlw.trans hL.lenw, hls.trans hL.lens, htr, pp, rest, hchain, hcur, hpplt, hnd.2, ?_, hbase, hst, hhead, ?_⟩
  · exact ChainTail_congr p w w' s s' pp rest hpar (fun x hx => how x (hcne x hx) (hpne x hx))
      (fun x hx => hos x (hcne x hx) (hpne x hx)) h5'
  · intro t ht hnin
    by_cases htc : t = c
    · subst htc; exact hidle
    · have htp : t ≠ pp := fun e => hnin (e ▸ List.mem_cons_self ..)
      rw [how t htc htp, hos t htc htp]
      apply h9 t ht
      intro hmem
      cases hmem with
      | head => exact htc rfl
      | tail _ hm => exact hnin hm

/-- the running thread `c` resumed the idle thread `j`. -/
theorem live_enter {p : Prog} {w w' : World} {s s' : CoSpec.St} {mc mc' : Co.Ctl} {sc sc' : CoSpec.Ctl}
    {c j : Nat} {rest : List Nat}
    (hL : Live p w mc s sc) (hch : s.chain = c :: rest) (hj : j < N) (hjn : j ∉ c :: rest)
    (hlw : w'.threads.length = w.threads.length) (hls : s'.cos.length = s.cos.length)
    (htr : w'.trace = s'.trace) (hcur : w'.current = j) (hchain : s'.chain = j :: c :: rest)
    (how : ∀ x, x ≠ c → x ≠ j → w'.th x = w.th x) (hos : ∀ x, x ≠ c → x ≠ j → s'.co x = s.co x)
    (hparc : (w'.th c).parent = (w.th c).parent) (hparj : (w'.th j).parent = some c)
    (hnorm : NormalT (w'.th c) (s'.co c) (p.co c))
    (hbase : Base (w'.th j) (s'.co j) (p.co j)) (hst : (s'.co j).st = .running)
    (hhead : HeadRel j (w'.th j) (s'.co j) mc' sc') : Live p w' mc' s' sc' := by
  obtain ⟨c0, rest0, h1, h2, h3, h4, h5, _, _, _, h9⟩ := hL.chain
  rw [hch] at h1
  injection h1 with e1 e2
  subst e1 e2
  have hnd := List.nodup_cons.mp h4
  have hcne : ∀ x ∈ rest, x ≠ c := fun x hx e => hnd.1 (e ▸ hx)
  have hjne : ∀ x ∈ rest, x ≠ j := fun x hx e => hjn (e ▸ List.mem_cons_of_mem _ hx)
  have hjc : j ≠ c := fun e => hjn (e ▸ List.mem_cons_self ..)
  have hj0 : j ≠ 0 := fun e => hjn (e ▸ ChainTail_zero p w s c rest h5)
  refine ⟨hlw.trans hL.lenw, hls.trans hL.lens, htr, j, c :: rest, hchain, hcur, hj, List.nodup_cons.mpr ⟨hjn, h4⟩,
    ⟨hj0, hparj, h3, hnorm, ?_⟩, hbase, hst, hhead, ?_⟩
  · exact ChainTail_congr p w w' s s' c rest hparc (fun x hx => how x (hcne x hx) (hjne x hx))
      (fun x hx => hos x (hcne x hx) (hjne x hx)) h5
  · intro t ht hnin
    have htj : t ≠ j := fun e => hnin (e ▸ List.mem_cons_self ..)
    have htc : t ≠ c := fun e => hnin (e ▸ List.mem_cons_of_mem _ (List.mem_cons_self ..))
    rw [how t htc htj, hos t htc htj]
    exact h9 t ht (fun hm => hnin (List.mem_cons_of_mem _ hm))

/-- data of the running thread. -/
theorem Live.head {p : Prog} {w : World} {s : CoSpec.St} {mc : Co.Ctl} {sc : CoSpec.Ctl} (hL : Live p w mc s sc) :
    ∃ c rest, s.chain = c :: rest ∧ s.cur = c ∧ w.current = c ∧ c < N ∧ c < w.threads.length ∧ c < s.cos.length ∧
      c ∉ rest ∧ ChainTail p w s c rest ∧ Base (w.th c) (s.co c) (p.co c) ∧ (s.co c).st = .running ∧
      HeadRel c (w.th c) (s.co c) mc sc := by
  obtain ⟨c, rest, h1, h2, h3, h4, h5, h6, h7, h8, _⟩ := hL.chain
  exact ⟨c, rest, h1, by simp [CoSpec.St.cur, h1], h2, h3, by rw [hL.lenw]; exact h3, by rw [hL.lens]; exact h3,
    (List.nodup_cons.mp h4).1, h5, h6, h7, h8⟩

end GLua.CoSim
