/-
  C06 — history-level simulation, for-in over a wrapped coroutine (`for x1,…,xn in f_j do … end`): the iterator call
  is a resume of `co_j` with (nil, nil) resp. (nil, control) whose results go to the loop variables; the loop ends when
  the first result is nil (TFORLOOP's test).  Core Lean only.
-/
import GLua.Proofs.CoSimResume
import GLua.Proofs.CoSimProt

set_option linter.unusedSimpArgs false
set_option linter.unusedVariables false
namespace GLua.CoSim
open GLua GLua.CoScript GLua.Co

theorem setCo_self (s : CoSpec.St) (c : Nat) (h : c < s.cos.length) : s.setCo c (s.co c) = s := by
  cases s with
  | mk cos chain trace =>
    simp only [CoSpec.St.setCo, CoSpec.St.co]
    congr 1
    apply List.ext_getElem?
    intro i
    by_cases hi : i = c
    · subst hi
      simp [List.getD, List.getElem?_set_self (by simpa using h), List.getElem?_eq_getElem (by simpa using h)]
    · rw [List.getElem?_set_ne (Ne.symm hi)]

/-- a token emitted on both sides keeps the states related. -/
theorem live_emit {p : Prog} {w : World} {mc : Co.Ctl} {s : CoSpec.St} {sc : CoSpec.Ctl} (hL : Live p w mc s sc)
    (l : String) (xs : List OVal) : Live p (w.emit l xs) mc { s with trace := s.trace.emit l xs } sc := by
  obtain ⟨h1, h2, h3, c, rest, a1, a2, a3, a4, a5, a6, a7, a8, a9⟩ := hL
  exact ⟨h1, h2, by show w.trace.emit l xs = s.trace.emit l xs; rw [h3], c, rest, a1, a2, a3, a4,
    ChainTail_congr p w _ s _ c rest rfl (fun _ _ => rfl) (fun _ _ => rfl) a5, a6, a7, a8, a9⟩

/-! ### the loop starts -/

theorem mstep_forin_skip (cfg : Cfg) (p : Prog) (w : World) (t j nvars : Nat) (f : Frame) (ks : List Frame)
    (rest : List Act) (hfr : (w.th t).frames = f :: ks) (hG : f.isG = false) (hr : f.recv = .none)
    (hc : f.code = .forin j nvars :: rest) (hw : (p.co j).wrapped = false) :
    step cfg p w (.run t) = (w.setTh t (advance (w.th t) f rest .none ks), .run t) := by
  simp only [step, hfr, hr, hc, hw]
  rw [if_neg (by rw [hG]; simp)]
  rfl

theorem sstep_forin_skip (p : Prog) (s : CoSpec.St) (c j nvars : Nat) (kf : CoSpec.KF) (ks : List CoSpec.KF)
    (rest : List Act) (hcur : s.cur = c) (hk : (s.co c).k = kf :: ks) (hrest : kf.rest = .forin j nvars :: rest)
    (hw : (p.co j).wrapped = false) :
    CoSpec.step p s .exec =
      (s.setCo c { s.co c with k := { kf with idx := kf.idx + 1, rest := rest, recv := .none } :: ks }, .exec) := by
  simp only [CoSpec.step, hcur, hk, hrest, hw]
  rfl

theorem mstep_forin (cfg : Cfg) (p : Prog) (w : World) (t j nvars : Nat) (f : Frame) (ks : List Frame)
    (rest : List Act) (hfr : (w.th t).frames = f :: ks) (hG : f.isG = false) (hr : f.recv = .none)
    (hc : f.code = .forin j nvars :: rest) (hw : (p.co j).wrapped = true) :
    step cfg p w (.run t) =
      doResume cfg p (w.setTh t (resumeT (w.th t)
        { f with idx := f.idx + 1, code := rest,
                 recv := .forin (Co.lbl f.fid f.idx) j nvars (f.localBase + (p.fn f.fid).np + 3) } ks j 2
        (f.localBase + (p.fn f.fid).np + 3) [none, none] (some nvars))) t j := by
  simp only [step, hfr, hr, hc, hw]
  rw [if_neg (by rw [hG]; simp)]
  simp only [if_true]
  congr 2
  simp only [pushG, advance, resumeT]
  have h1 : (regSetTop (w.th t).reg (f.localBase + (p.fn f.fid).np + 3) ++ [none] ++ [none, none]).take
      (f.localBase + (p.fn f.fid).np + 3 + 1) = regSetTop (w.th t).reg (f.localBase + (p.fn f.fid).np + 3) ++ [none] := by
    rw [List.take_left' (by simp [regSetTop_length])]
  have h2 : (regSetTop (w.th t).reg (f.localBase + (p.fn f.fid).np + 3) ++ [none] ++ [none, none]).drop
      (f.localBase + (p.fn f.fid).np + 3 + 1) = [none, none] := by
    rw [List.drop_left' (by simp [regSetTop_length])]
  rw [h1, h2]
  simp

theorem sstep_forin (p : Prog) (s : CoSpec.St) (c j nvars : Nat) (kf : CoSpec.KF) (ks : List CoSpec.KF)
    (rest : List Act) (hcur : s.cur = c) (hk : (s.co c).k = kf :: ks) (hrest : kf.rest = .forin j nvars :: rest)
    (hw : (p.co j).wrapped = true) :
    CoSpec.step p s .exec =
      CoSpec.doResume p
        (s.setCo c { s.co c with
          k := { kf with
                 idx := kf.idx + 1
                 rest := rest
                 recv := .forin (CoSpec.lbl kf.fid kf.idx) j nvars } :: ks })
        j [none, none] := by
  simp only [CoSpec.step, hcur, hk, hrest, hw]
  rfl

section
variable {p : Prog} {w : World} {s : CoSpec.St} {c : Nat} {rest : List Nat} {f : Frame} {fs : List Frame}

theorem sim_forin (hp : okProg p = true) (hL : Live p w (.run c) s .exec) (hch : s.chain = c :: rest)
    (hfr : (w.th c).frames = f :: fs) (hst : Stack (w.th c) (s.co c) f fs) (hr : f.recv = .none)
    (hlb : f.localBase ≤ (w.th c).reg.length) (j nvars : Nat) (rest' : List Act)
    (hcode : f.code = .forin j nvars :: rest') (h1 : 1 ≤ j) (h4 : j ≤ 4) (hnv : 1 ≤ nvars) :
    Sim p (step Cfg.fixed p w (.run c)).1 (step Cfg.fixed p w (.run c)).2
      (CoSpec.step p s .exec).1 (CoSpec.step p s .exec).2 := by
  obtain ⟨c', rest0, hch', hcur, hwc, hcN, hcw, hcs, _, _, hbase, hrun, _⟩ := hL.head
  rw [hch] at hch'; injection hch' with e1 e2; subst e1 e2
  cases hw : (p.co j).wrapped with
  | false =>
    rw [mstep_forin_skip Cfg.fixed p w c j nvars f fs rest' hfr hst.ok.notG hr hcode hw,
      sstep_forin_skip p s c j nvars (kfOf f) (fs.map kfOf) rest' hcur hst.k hcode hw]
    refine ⟨hL.trace, Or.inr ?_⟩
    exact live_head_set hL hch rfl rfl rfl rfl hL.trace rfl
      ⟨hbase.dead, hbase.cur, hbase.seen, hbase.wrapped, hbase.started⟩ hrun
      (.exec { f with idx := f.idx + 1, code := rest', recv := .none } fs rfl
        ⟨rfl, LuaOK_adv hst.ok _ _ _ hcode trivial, hst.call⟩ rfl hlb)
  | true =>
    let ra := f.localBase + (p.fn f.fid).np + 3
    have hR := resumerReady_plain (fs := fs) hL hch
      { f with idx := f.idx + 1, code := rest', recv := .forin (Co.lbl f.fid f.idx) j nvars ra } j 2 ra [none, none]
      (some nvars) (LuaOK_adv hst.ok _ _ _ hcode ⟨h1, h4, hnv⟩) hst.call (Or.inr ⟨_, j, nvars, rfl, rfl⟩)
      (by show f.localBase ≤ f.localBase + (p.fn f.fid).np + 3; omega)
    have := sim_doResume hp hL hch hR j h1 h4
    rw [(resumeT_args (w.th c) _ fs j 2 ra [none, none] (some nvars)).1] at this
    rw [mstep_forin Cfg.fixed p w c j nvars f fs rest' hfr hst.ok.notG hr hcode hw,
      sstep_forin p s c j nvars (kfOf f) (fs.map kfOf) rest' hcur hst.k hcode hw]
    exact this

/-! ### the iterator's results arrive: loop test, loop body token, next iterator call -/

theorem mstep_forin_end (cfg : Cfg) (p : Prog) (w : World) (t j nvars ra : Nat) (l : String) (f : Frame)
    (ks : List Frame) (hfr : (w.th t).frames = f :: ks) (hG : f.isG = false) (hr : f.recv = .forin l j nvars ra)
    (hlen : (w.th t).reg.length = ra + nvars) (hnil : (w.th t).reg.getD ra none = none) :
    step cfg p w (.run t) = (w.setTh t { w.th t with frames := { f with recv := .none } :: ks }, .run t) := by
  have hreg : regSetTop (w.th t).reg (ra + nvars) = (w.th t).reg := by
    rw [regSetTop_of_le _ _ (by omega), ← hlen, List.take_length]
  simp only [step, hfr, hr]
  rw [if_neg (by rw [hG]; simp)]
  simp only [hreg, hnil]

theorem mstep_forin_next (cfg : Cfg) (p : Prog) (w : World) (t j nvars ra : Nat) (l : String) (f : Frame)
    (ks : List Frame) (x : Val) (hfr : (w.th t).frames = f :: ks) (hG : f.isG = false)
    (hr : f.recv = .forin l j nvars ra)
    (hlen : (w.th t).reg.length = ra + nvars) (hx : (w.th t).reg.getD ra none = some x) :
    step cfg p w (.run t) =
      doResume cfg p ((w.emit l ((w.th t).reg.drop ra)).setTh t
        (resumeT (w.th t) f ks j 2 ra [none, some x] (some nvars))) t j := by
  have hreg : regSetTop (w.th t).reg (ra + nvars) = (w.th t).reg := by
    rw [regSetTop_of_le _ _ (by omega), ← hlen, List.take_length]
  have hrd : readRegs (w.th t).reg ra nvars = .ok ((w.th t).reg.drop ra) := by
    simp only [readRegs]
    rw [if_pos (by omega), List.take_of_length_le (by simp; omega)]
  simp only [step, hfr, hr]
  rw [if_neg (by rw [hG]; simp)]
  simp only [hreg, hx, hrd]
  congr 2
  simp only [pushG, resumeT, hfr]
  have h1 : (regSetTop (w.th t).reg ra ++ [none] ++ [none, some x]).take (ra + 1)
      = regSetTop (w.th t).reg ra ++ [none] := by
    rw [List.take_left' (by simp [regSetTop_length])]
  have h2 : (regSetTop (w.th t).reg ra ++ [none] ++ [none, some x]).drop (ra + 1) = [none, some x] := by
    rw [List.drop_left' (by simp [regSetTop_length])]
  rw [h1, h2]
  simp

theorem sstep_forin_end (p : Prog) (s : CoSpec.St) (c j nvars : Nat) (l : String) (vs : List OVal) (kf : CoSpec.KF)
    (ks : List CoSpec.KF) (hcur : s.cur = c) (hk : (s.co c).k = kf :: ks) (hrecv : kf.recv = .forin l j nvars)
    (hnil : vs.headD none = none) :
    CoSpec.step p s (.deliver vs) = (s.setCo c { s.co c with k := { kf with recv := .none } :: ks }, .exec) := by
  simp only [CoSpec.step, hcur, hk, hrecv, hnil]

theorem sstep_forin_next (p : Prog) (s : CoSpec.St) (c j nvars : Nat) (l : String) (vs : List OVal) (kf : CoSpec.KF)
    (ks : List CoSpec.KF) (x : Val) (hcur : s.cur = c) (hk : (s.co c).k = kf :: ks) (hrecv : kf.recv = .forin l j nvars)
    (hx : vs.headD none = some x) :
    CoSpec.step p s (.deliver vs) =
      CoSpec.doResume p { s with trace := s.trace.emit l (adjust vs (some nvars)) } j [none, some x] := by
  simp only [CoSpec.step, hcur, hk, hrecv, hx]

theorem getD_adjust_zero (vs : List OVal) (n : Nat) (hn : 1 ≤ n) : (adjust vs (some n)).getD 0 none = vs.headD none := by
  cases vs with
  | nil =>
    cases n with
    | zero => omega
    | succ n => simp [adjust, List.replicate]
  | cons v r =>
    cases n with
    | zero => omega
    | succ n => simp [adjust]

theorem sim_forin_deliver (hp : okProg p = true) (hL : Live p w (.run c) s (.deliver vs)) (hch : s.chain = c :: rest)
    (hfr : (w.th c).frames = f :: fs) (hst : Stack (w.th c) (s.co c) f fs) (l : String) (j nvars ra : Nat)
    (hr : f.recv = .forin l j nvars ra) (hlb : f.localBase ≤ ra) (hle : ra ≤ (w.th c).reg.length)
    (hvs : (w.th c).reg.drop ra = adjust vs (some nvars)) (h1 : 1 ≤ j) (h4 : j ≤ 4) (hnv : 1 ≤ nvars) :
    Sim p (step Cfg.fixed p w (.run c)).1 (step Cfg.fixed p w (.run c)).2
      (CoSpec.step p s (.deliver vs)).1 (CoSpec.step p s (.deliver vs)).2 := by
  obtain ⟨c', rest0, hch', hcur, hwc, hcN, hcw, hcs, _, _, hbase, hrun, _⟩ := hL.head
  rw [hch] at hch'; injection hch' with e1 e2; subst e1 e2
  have hlen : (w.th c).reg.length = ra + nvars := by
    have := congrArg List.length hvs
    rw [List.length_drop, adjust_length] at this; omega
  have hhead : (w.th c).reg.getD ra none = vs.headD none := by
    have h0 : ((w.th c).reg.drop ra).getD 0 none = (w.th c).reg.getD ra none := by
      simp [List.getD, List.getElem?_drop]
    rw [← h0, hvs, getD_adjust_zero vs nvars hnv]
  have hkrecv : (kfOf f).recv = .forin l j nvars := by simp [kfOf, recvOf, hr]
  cases hx : vs.headD none with
  | none =>
    rw [mstep_forin_end Cfg.fixed p w c j nvars ra l f fs hfr hst.ok.notG hr hlen (by rw [hhead, hx]),
      sstep_forin_end p s c j nvars l vs (kfOf f) (fs.map kfOf) hcur hst.k hkrecv hx]
    refine ⟨hL.trace, Or.inr ?_⟩
    exact live_head_set hL hch rfl rfl rfl rfl hL.trace rfl
      ⟨hbase.dead, hbase.cur, hbase.seen, hbase.wrapped, hbase.started⟩ hrun
      (.exec { f with recv := .none } fs rfl
        ⟨rfl, ⟨hst.ok.notG, hst.ok.gk, hst.ok.rb, hst.ok.code, trivial⟩, hst.call⟩ rfl (by
          show f.localBase ≤ (w.th c).reg.length; omega))
  | some x =>
    rw [mstep_forin_next Cfg.fixed p w c j nvars ra l f fs x hfr hst.ok.notG hr hlen (by rw [hhead, hx]),
      sstep_forin_next p s c j nvars l vs (kfOf f) (fs.map kfOf) x hcur hst.k hkrecv hx, hvs]
    -- the token of the loop body, then the next iterator call as a resume
    have hL' := live_emit hL l (adjust vs (some nvars))
    have hch' : ({ s with trace := s.trace.emit l (adjust vs (some nvars)) } : CoSpec.St).chain = c :: rest := hch
    have hR := resumerReady_plain (fs := fs) hL' hch' f j 2 ra [none, some x] (some nvars) hst.ok hst.call
      (Or.inr ⟨l, j, nvars, hr, rfl⟩) hlb
    have := sim_doResume hp hL' hch' hR j h1 h4
    rw [(resumeT_args ((w.emit l (adjust vs (some nvars))).th c) f fs j 2 ra [none, some x] (some nvars)).1] at this
    have hself : ({ s with trace := s.trace.emit l (adjust vs (some nvars)) } : CoSpec.St).setCo c
        { ({ s with trace := s.trace.emit l (adjust vs (some nvars)) } : CoSpec.St).co c with
          k := kfOf f :: fs.map kfOf } = { s with trace := s.trace.emit l (adjust vs (some nvars)) } := by
      have hk' : ({ ({ s with trace := s.trace.emit l (adjust vs (some nvars)) } : CoSpec.St).co c with
          k := kfOf f :: fs.map kfOf } : CoSpec.Co) = ({ s with trace := s.trace.emit l (adjust vs (some nvars)) } : CoSpec.St).co c := by
        show ({ s.co c with k := kfOf f :: fs.map kfOf } : CoSpec.Co) = s.co c
        have := hst.k
        cases hco : s.co c with
        | mk st started k =>
          rw [hco] at this
          simp only at this
          simp [this]
          rfl
      rw [hk']
      exact setCo_self _ c (by simpa using hcs)
    rw [hself] at this
    exact this

/-- popping `coResume`'s frame into a for-in frame (the Spec does not move). -/
theorem sim_gret_forin (hL : Live p w (.gret c n) s (.deliver vs)) (hch : s.chain = c :: rest) (g : Frame)
    (l : String) (j nv ra : Nat)
    (hfr : (w.th c).frames = g :: f :: fs) (hst : Stack (w.th c) (s.co c) f fs)
    (hr : f.recv = .forin l j nv ra) (hlb : f.localBase ≤ ra)
    (hrb : g.returnBase = ra) (hnr : g.nret = some nv) (hn : n ≤ (w.th c).reg.length)
    (hvs : vs = (w.th c).reg.drop ((w.th c).reg.length - n)) :
    Sim p (step Cfg.fixed p w (.gret c n)).1 (step Cfg.fixed p w (.gret c n)).2 s (.deliver vs) ∧
      (step Cfg.fixed p w (.gret c n)).2 = .run c := by
  refine sim_gret_gen hL hch g (some nv) ra false hfr hst hrb hnr hn vs hvs ?_
  intro T' hT'fr hT'reg
  refine .deliver f fs ra vs hT'fr ⟨hst.k, hst.ok, hst.call⟩ (by rw [hr]; simp) (by rw [hr]; rfl) hlb ?_ ?_
  · rw [hT'reg]; simp [regSetTop_length]
  · rw [hT'reg, List.drop_left' (regSetTop_length _ _), hr]; rfl
end

end GLua.CoSim
