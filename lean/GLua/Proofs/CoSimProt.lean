/-
  C06 — history-level simulation, the steps around `pcall(coroutine.resume, …)` / `pcall(f_j, …)`: popping `coResume`'s
  frame below which `pcall`'s frame waits (basePCall inserts `true`), popping `pcall`'s frame, an error value reaching
  `coResume` under `pcall` (PCall's recovery: frames cut back to pcall's, registers cut to its base, (false, v) pushed),
  and the delivery of (true, values…) / (false, v) to the script.  Core Lean only.
-/
import GLua.Proofs.CoSimStep

set_option linter.unusedSimpArgs false
set_option linter.unusedVariables false
namespace GLua.CoSim
open GLua GLua.CoScript GLua.Co

theorem setTh_setTh (w : World) (t : Nat) (x y : Thread) : (w.setTh t x).setTh t y = w.setTh t y := by
  simp [World.setTh, List.set_set]

/-- `coResume` returns to `basePCall`: L.Insert(LTrue, 1); return L.GetTop(). -/
theorem mstep_gret_pcall (cfg : Cfg) (w : World) (t n : Nat) (inner pc : Frame) (ks : List Frame)
    (hfr : (w.th t).frames = inner :: pc :: ks) (hG : pc.isG = true) (hgk : pc.gk = .pcall) :
    gReturn cfg w t n =
      (w.setTh t { w.th t with
          reg := (copyRange (w.th t).reg inner.returnBase ((w.th t).reg.length - n) (inner.nret.getD n)).take pc.localBase
                  ++ [(some (Val.bool true) : OVal)] ++
                 (copyRange (w.th t).reg inner.returnBase ((w.th t).reg.length - n) (inner.nret.getD n)).drop pc.localBase
          frames := pc :: ks, cur := true },
       .gret t (((copyRange (w.th t).reg inner.returnBase ((w.th t).reg.length - n) (inner.nret.getD n)).take pc.localBase
                  ++ [(some (Val.bool true) : OVal)] ++
                 (copyRange (w.th t).reg inner.returnBase ((w.th t).reg.length - n) (inner.nret.getD n)).drop pc.localBase).length
                - pc.localBase)) := by
  simp only [gReturn, hfr, List.length_cons]
  rw [if_neg (by omega)]
  simp [hG, hgk, Thread.getTop, Thread.lbase, Thread.curFrame, setTh_setTh]

/-- an error under `pcall`: PCall's recovery. -/
theorem mdoRaise_caught (cfg : Cfg) (w : World) (t : Nat) (v : OVal) (inner pc : Frame) (ks : List Frame)
    (hfr : (w.th t).frames = inner :: pc :: ks) (hi : inner.gk ≠ .pcall) (hgk : pc.gk = .pcall) :
    doRaise cfg w t v =
      (w.setTh t { w.th t with frames := pc :: ks, cur := true,
                               reg := regSetTop (w.th t).reg pc.localBase ++ [(some (Val.bool false) : OVal), v] }, .gret t 2) := by
  simp only [doRaise, hfr]
  have h1 : (inner :: pc :: ks).takeWhile (fun f => decide (f.gk ≠ .pcall)) = [inner] := by
    simp [List.takeWhile, hi, hgk]
  rw [h1]
  rfl

theorem sstep_emitP (p : Prog) (s : CoSpec.St) (c : Nat) (vs : List OVal) (kf : CoSpec.KF) (ks : List CoSpec.KF)
    (l : String) (want : Want)
    (hcur : s.cur = c) (hk : (s.co c).k = kf :: ks) (hrecv : kf.recv = .emit l want true) :
    CoSpec.step p s (.deliver vs) =
      ({ (s.setCo c { s.co c with k := { kf with recv := .none } :: ks }) with
          trace := s.trace.emit l (adjust ((some (Val.bool true) : OVal) :: vs) want) }, .exec) := by
  simp only [CoSpec.step, hcur, hk, hrecv]
  rfl

theorem sstep_caught (p : Prog) (s : CoSpec.St) (c : Nat) (v : OVal) (kf : CoSpec.KF) (ks : List CoSpec.KF)
    (l : String) (want : Want)
    (hcur : s.cur = c) (hk : (s.co c).k = kf :: ks) (hrecv : kf.recv = .emit l want true) :
    CoSpec.step p s (.raise v true) =
      ({ (s.setCo c { s.co c with k := { kf with recv := .none } :: ks }) with
          trace := s.trace.emit l (adjust [(some (Val.bool false) : OVal), v] want) }, .exec) := by
  simp only [CoSpec.step, hcur, hk, hrecv]
  rfl

section
variable {p : Prog} {w : World} {s : CoSpec.St} {c : Nat} {rest : List Nat} {f : Frame} {fs : List Frame}

theorem kfOfP_emit (f : Frame) (l : String) (want : Want) (ra : Nat) (hr : f.recv = .emit l want ra) :
    (kfOfP f true).recv = .emit l want true := by
  simp [kfOfP, recvOfP, hr]

theorem kfOf_clear (f : Frame) (b : Bool) :
    kfOf { f with recv := .none } = { kfOfP f b with recv := .none } := by
  cases b <;> rfl

/-- the script receives (true, values…) or (false, v), adjusted to what it wants. -/
theorem sim_emitP {sc : CoSpec.Ctl} (hL : Live p w (.run c) s sc) (hch : s.chain = c :: rest)
    (hfr : (w.th c).frames = f :: fs) (hst : StackP (w.th c) (s.co c) f fs true) (l : String) (want : Want) (ra : Nat)
    (hr : f.recv = .emit l want ra) (hlb : f.localBase ≤ ra) (hle : ra ≤ (w.th c).reg.length)
    (xs : List OVal) (hvs : (w.th c).reg.drop ra = adjust xs want)
    (hspec : CoSpec.step p s sc =
      ({ (s.setCo c { s.co c with k := { kfOfP f true with recv := .none } :: fs.map kfOf }) with
          trace := s.trace.emit l (adjust xs want) }, .exec)) :
    Sim p (step Cfg.fixed p w (.run c)).1 (step Cfg.fixed p w (.run c)).2
      (CoSpec.step p s sc).1 (CoSpec.step p s sc).2 := by
  obtain ⟨c', rest0, hch', hcur, hwc, hcN, hcw, hcs, _, _, hbase, hrun, _⟩ := hL.head
  rw [hch] at hch'; injection hch' with e1 e2; subst e1 e2
  have hxs : (match want with
            | none => Except.ok ((w.th c).reg.drop ra)
            | some k => readRegs (w.th c).reg ra k) = .ok (adjust xs want) := by
    cases want with
    | none => simp only [hvs]
    | some k =>
      simp only [readRegs]
      have hlen : (w.th c).reg.length = ra + k := by
        have := congrArg List.length hvs
        rw [List.length_drop, adjust_length] at this; omega
      rw [if_pos (by omega), hvs, take_adjust_self]
  rw [mstep_emit Cfg.fixed p w c f fs l want ra _ hfr hst.ok.notG hr hxs, hspec]
  have htr : ((w.setTh c { w.th c with frames := { f with recv := .none } :: fs }).emit l (adjust xs want)).trace =
      s.trace.emit l (adjust xs want) := by
    show w.trace.emit _ _ = _; rw [hL.trace]
  refine ⟨htr, Or.inr ?_⟩
  exact live_head_set hL hch rfl rfl rfl rfl htr rfl
    ⟨hbase.dead, hbase.cur, hbase.seen, hbase.wrapped, hbase.started⟩ hrun
    (.exec { f with recv := .none } fs rfl
      ⟨by rfl, ⟨hst.ok.notG, hst.ok.gk, hst.ok.rb, hst.ok.code, trivial⟩, hst.call⟩ rfl (by
        show f.localBase ≤ (w.th c).reg.length; omega))
end

section
variable {p : Prog} {w : World} {s : CoSpec.St} {sc : CoSpec.Ctl} {c : Nat} {rest : List Nat} {f : Frame} {fs : List Frame}

/-- popping a Go frame whose results go to register `ra` of the Lua frame below (the Spec does not move). -/
theorem sim_gret_gen (hL : Live p w (.gret c n) s sc) (hch : s.chain = c :: rest) (g : Frame)
    (want : Want) (ra : Nat) (prot : Bool)
    (hfr : (w.th c).frames = g :: f :: fs) (hst : StackP (w.th c) (s.co c) f fs prot)
    (hrb : g.returnBase = ra) (hnr : g.nret = want) (hn : n ≤ (w.th c).reg.length)
    (xs : List OVal) (hxs : xs = (w.th c).reg.drop ((w.th c).reg.length - n))
    (hhead : ∀ T', T'.frames = f :: fs → T'.reg = regSetTop (w.th c).reg ra ++ adjust xs want →
      HeadRel c T' (s.co c) (.run c) sc) :
    Sim p (step Cfg.fixed p w (.gret c n)).1 (step Cfg.fixed p w (.gret c n)).2 s sc ∧
      (step Cfg.fixed p w (.gret c n)).2 = .run c := by
  obtain ⟨c', rest0, hch', hcur, hwc, hcN, hcw, hcs, _, _, hbase, hrun, _⟩ := hL.head
  rw [hch] at hch'; injection hch' with e1 e2; subst e1 e2
  show Sim p (gReturn Cfg.fixed w c n).1 (gReturn Cfg.fixed w c n).2 _ _ ∧ (gReturn Cfg.fixed w c n).2 = _
  rw [mstep_gret Cfg.fixed w c n g f fs hfr hst.ok.notG]
  refine ⟨⟨hL.trace, Or.inr ?_⟩, rfl⟩
  have hlen : xs.length = n := by rw [hxs, List.length_drop]; omega
  refine live_head hL hch (by simp) rfl hL.trace rfl rfl ?_ (fun _ _ => rfl) ?_ ?_ hrun ?_
  · intro x hx; exact th_setTh_ne _ _ _ _ (Ne.symm hx)
  · rw [th_setTh_eq _ _ _ hcw]
  · rw [th_setTh_eq _ _ _ hcw]
    exact ⟨hbase.dead, rfl, hbase.seen, hbase.wrapped, hbase.started⟩
  · rw [th_setTh_eq _ _ _ hcw]
    apply hhead _ rfl
    show copyRange _ _ _ _ = _
    rw [copyRange_eq _ _ _ _ (by omega), ← hxs, hrb, hnr]
    cases want with
    | none => show _ ++ adjust xs (some n) = _; rw [← hlen, adjust_self]; rfl
    | some k => rfl

/-- `pcall` returns (true, values…) into the Lua frame. -/
theorem sim_gretPc (hL : Live p w (.gret c n) s (.deliver vs)) (hch : s.chain = c :: rest) (pc : Frame)
    (l : String) (want : Want) (ra : Nat)
    (hfr : (w.th c).frames = pc :: f :: fs) (hst : StackP (w.th c) (s.co c) f fs true)
    (hr : f.recv = .emit l want ra) (hlb : f.localBase ≤ ra) (hpc : PcallFrame pc ra want)
    (hn : n ≤ (w.th c).reg.length)
    (hvs : (w.th c).reg.drop ((w.th c).reg.length - n) = (some (Val.bool true) : OVal) :: vs) :
    Sim p (step Cfg.fixed p w (.gret c n)).1 (step Cfg.fixed p w (.gret c n)).2 s (.deliver vs) ∧
      (step Cfg.fixed p w (.gret c n)).2 = .run c := by
  refine sim_gret_gen hL hch pc want ra true hfr hst hpc.rb hpc.nr hn ((some (Val.bool true) : OVal) :: vs) hvs.symm ?_
  intro T' hT'fr hT'reg
  refine .deliverP f fs l want ra vs hT'fr ⟨hst.k, hst.ok, hst.call⟩ hr hlb ?_ ?_
  · rw [hT'reg]; simp [regSetTop_length]
  · rw [hT'reg, List.drop_left' (regSetTop_length _ _)]

/-- `pcall` returns (false, v) into the Lua frame. -/
theorem sim_gretPcErr (hL : Live p w (.gret c 2) s (.raise v true)) (hch : s.chain = c :: rest) (pc : Frame)
    (l : String) (want : Want) (ra : Nat)
    (hfr : (w.th c).frames = pc :: f :: fs) (hst : StackP (w.th c) (s.co c) f fs true)
    (hr : f.recv = .emit l want ra) (hlb : f.localBase ≤ ra) (hpc : PcallFrame pc ra want)
    (hn : 2 ≤ (w.th c).reg.length)
    (hvs : (w.th c).reg.drop ((w.th c).reg.length - 2) = [(some (Val.bool false) : OVal), v]) :
    Sim p (step Cfg.fixed p w (.gret c 2)).1 (step Cfg.fixed p w (.gret c 2)).2 s (.raise v true) ∧
      (step Cfg.fixed p w (.gret c 2)).2 = .run c := by
  refine sim_gret_gen hL hch pc want ra true hfr hst hpc.rb hpc.nr hn [(some (Val.bool false) : OVal), v] hvs.symm ?_
  intro T' hT'fr hT'reg
  refine .caught f fs l want ra v hT'fr ⟨hst.k, hst.ok, hst.call⟩ hr hlb ?_ ?_
  · rw [hT'reg]; simp [regSetTop_length]
  · rw [hT'reg, List.drop_left' (regSetTop_length _ _)]

/-- `coResume` returns to `pcall`, which puts `true` in front of its values. -/
theorem sim_gretInner (hL : Live p w (.gret c n) s (.deliver vs)) (hch : s.chain = c :: rest) (inner pc : Frame)
    (l : String) (want : Want) (ra : Nat)
    (hfr : (w.th c).frames = inner :: pc :: f :: fs) (hst : StackP (w.th c) (s.co c) f fs true)
    (hr : f.recv = .emit l want ra) (hlb : f.localBase ≤ ra) (hpc : PcallFrame pc ra want)
    (hrb : inner.returnBase = ra + 1) (hnr : inner.nret = none) (hn : n ≤ (w.th c).reg.length)
    (hvs : vs = (w.th c).reg.drop ((w.th c).reg.length - n)) :
    ∃ n', Sim p (step Cfg.fixed p w (.gret c n)).1 (step Cfg.fixed p w (.gret c n)).2 s (.deliver vs) ∧
      (step Cfg.fixed p w (.gret c n)).2 = .gret c n' ∧
      (((step Cfg.fixed p w (.gret c n)).1.th c).frames.takeWhile (·.isG)).length = 1 := by
  obtain ⟨c', rest0, hch', hcur, hwc, hcN, hcw, hcs, _, _, hbase, hrun, _⟩ := hL.head
  rw [hch] at hch'; injection hch' with e1 e2; subst e1 e2
  have hlen : vs.length = n := by rw [hvs, List.length_drop]; omega
  have hcr : copyRange (w.th c).reg inner.returnBase ((w.th c).reg.length - n) (inner.nret.getD n)
      = regSetTop (w.th c).reg (ra + 1) ++ vs := by
    rw [copyRange_eq _ _ _ _ (by omega), ← hvs, hrb, hnr]
    show _ ++ adjust vs (some n) = _
    rw [← hlen, adjust_self]
  have hstep := mstep_gret_pcall Cfg.fixed w c n inner pc (f :: fs) hfr hpc.isG hpc.gk
  rw [hcr, hpc.lb, List.take_left' (regSetTop_length _ _), List.drop_left' (regSetTop_length _ _)] at hstep
  have hl2 : (regSetTop (w.th c).reg (ra + 1) ++ [(some (Val.bool true) : OVal)] ++ vs).length - (ra + 1) = n + 1 := by
    simp [regSetTop_length]; omega
  rw [hl2] at hstep
  refine ⟨n + 1, ?_, ?_, ?_⟩
  · show Sim p (gReturn Cfg.fixed w c n).1 (gReturn Cfg.fixed w c n).2 _ _
    rw [hstep]
    refine ⟨hL.trace, Or.inr ?_⟩
    refine live_head hL hch (by simp) rfl hL.trace rfl rfl ?_ (fun _ _ => rfl) ?_ ?_ hrun ?_
    · intro x hx; exact th_setTh_ne _ _ _ _ (Ne.symm hx)
    · rw [th_setTh_eq _ _ _ hcw]
    · rw [th_setTh_eq _ _ _ hcw]
      exact ⟨hbase.dead, rfl, hbase.seen, hbase.wrapped, hbase.started⟩
    · rw [th_setTh_eq _ _ _ hcw]
      refine .gretPc pc f fs l want ra (n + 1) vs (by rfl) ⟨hst.k, hst.ok, hst.call⟩ hr hlb hpc ?_ ?_
      · show n + 1 ≤ (regSetTop (w.th c).reg (ra + 1) ++ [(some (Val.bool true) : OVal)] ++ vs).length
        simp [regSetTop_length]; omega
      · show (regSetTop (w.th c).reg (ra + 1) ++ [(some (Val.bool true) : OVal)] ++ vs).drop _ = _
        rw [List.append_assoc, List.drop_left' (by simp [regSetTop_length]; omega)]
        rfl
  · show (gReturn Cfg.fixed w c n).2 = _
    rw [hstep]
  · show (((gReturn Cfg.fixed w c n).1.th c).frames.takeWhile (·.isG)).length = 1
    rw [hstep, th_setTh_eq _ _ _ hcw]
    simp [List.takeWhile, hpc.isG, hst.ok.notG]

/-- an error value reaches `coResume` under `pcall`: `PCall` recovers (the Spec does not move: it catches in one step). -/
theorem sim_raiseP (hL : Live p w (.raise c v) s (.raise v true)) (hch : s.chain = c :: rest) (inner pc : Frame)
    (l : String) (want : Want) (ra : Nat)
    (hfr : (w.th c).frames = inner :: pc :: f :: fs) (hst : StackP (w.th c) (s.co c) f fs true)
    (hr : f.recv = .emit l want ra) (hlb : f.localBase ≤ ra) (hpc : PcallFrame pc ra want)
    (hgk : inner.gk ≠ .pcall) :
    Sim p (step Cfg.fixed p w (.raise c v)).1 (step Cfg.fixed p w (.raise c v)).2 s (.raise v true) ∧
      (step Cfg.fixed p w (.raise c v)).2 = .gret c 2 ∧
      (((step Cfg.fixed p w (.raise c v)).1.th c).frames.takeWhile (·.isG)).length = 1 := by
  obtain ⟨c', rest0, hch', hcur, hwc, hcN, hcw, hcs, _, _, hbase, hrun, _⟩ := hL.head
  rw [hch] at hch'; injection hch' with e1 e2; subst e1 e2
  have hstep := mdoRaise_caught Cfg.fixed w c v inner pc (f :: fs) hfr hgk hpc.gk
  refine ⟨?_, ?_, ?_⟩
  · show Sim p (doRaise Cfg.fixed w c v).1 (doRaise Cfg.fixed w c v).2 _ _
    rw [hstep]
    refine ⟨hL.trace, Or.inr ?_⟩
    refine live_head hL hch (by simp) rfl hL.trace rfl rfl ?_ (fun _ _ => rfl) ?_ ?_ hrun ?_
    · intro x hx; exact th_setTh_ne _ _ _ _ (Ne.symm hx)
    · rw [th_setTh_eq _ _ _ hcw]
    · rw [th_setTh_eq _ _ _ hcw]
      exact ⟨hbase.dead, rfl, hbase.seen, hbase.wrapped, hbase.started⟩
    · rw [th_setTh_eq _ _ _ hcw]
      refine .gretPcErr pc f fs l want ra v (by rfl) ⟨hst.k, hst.ok, hst.call⟩ hr hlb hpc ?_ ?_
      · show 2 ≤ (regSetTop (w.th c).reg pc.localBase ++ [(some (Val.bool false) : OVal), v]).length
        simp
      · show (regSetTop (w.th c).reg pc.localBase ++ [(some (Val.bool false) : OVal), v]).drop _ = _
        rw [List.drop_left' (by simp [regSetTop_length])]
  · show (doRaise Cfg.fixed w c v).2 = _
    rw [hstep]
  · show (((doRaise Cfg.fixed w c v).1.th c).frames.takeWhile (·.isG)).length = 1
    rw [hstep, th_setTh_eq _ _ _ hcw]
    simp [List.takeWhile, hpc.isG, hst.ok.notG]
end

end GLua.CoSim
