/-
  C06 — history-level simulation, `coroutine.resume` / wrapped call.  The part of `coResume` after the Go frame has been
  set up (`doResume`) is simulated generically in the resumer's frame shape (`sim_doResume`): the three refusals, the
  first resume (parameter binding), a later resume (values become the results of the pending yield).  Two
  instantiations: the plain call (`[coResume]` above the Lua frame) and the call through `pcall`
  (`[coResume, pcall]`).  Core Lean only.
-/
import GLua.Proofs.CoSimStep

set_option linter.unusedSimpArgs false
set_option linter.unusedVariables false
namespace GLua.CoSim
open GLua GLua.CoScript GLua.Co

/-- where a coroutine 1..4 stands with respect to the resume chain. -/
theorem classify {p : Prog} {w : World} {s : CoSpec.St} {mc : Co.Ctl} {sc : CoSpec.Ctl} {c : Nat} {rest : List Nat}
    (hL : Live p w mc s sc) (hch : s.chain = c :: rest) (j : Nat) (h1 : 1 ≤ j) (h4 : j ≤ 4) :
    j = c ∨
    (j ∈ rest ∧ j ≠ c ∧ (s.co j).st = .normal ∧ Base (w.th j) (s.co j) (p.co j) ∧ (w.th j).parent.isSome = true) ∨
    (j ∉ c :: rest ∧ j ≠ c ∧ (w.th j).parent = none ∧ Idle p (w.th j) (s.co j) (p.co j)) := by
  obtain ⟨c', rest0, hch', hcur, hc, hnd, htail, hbase, hrun, _, hidle⟩ := hL.chain
  rw [hch] at hch'; injection hch' with e1 e2; subst e1 e2
  have hjN : j < N := by show j < 5; omega
  by_cases hin : j ∈ c :: rest
  · cases hin with
    | head => exact Or.inl rfl
    | tail _ hm =>
      right; left
      have hjc : j ≠ c := fun e => (List.nodup_cons.mp hnd).1 (e ▸ hm)
      exact ⟨hm, hjc, (ChainTail_normal p w s c rest htail j hm).1, ChainTail_base p w s c rest htail j hm,
        (ChainTail_parent p w s c rest htail j (List.mem_cons_of_mem _ hm)).mpr (by omega)⟩
  · right; right
    have hjc : j ≠ c := fun e => hin (e ▸ List.mem_cons_self ..)
    exact ⟨hin, hjc, (hidle j hjN hin).1, (hidle j hjN hin).2⟩

theorem mdoResume_refused (p : Prog) (w : World) (l j : Nat) (r : Refusal)
    (hcheck : resumeCheck Cfg.fixed w j = some r) :
    doResume Cfg.fixed p w l j =
      if (w.th j).wrapped then (w, .raise l (sym r.name))
      else (w.setTh l (((w.th l).push (some (.bool false))).push (sym r.name)), .gret l 2) := by
  simp only [doResume, hcheck]

theorem sdoResume_refused (p : Prog) (s : CoSpec.St) (j : Nat) (vs : List OVal)
    (hst : (s.co j).st ≠ .suspended) :
    CoSpec.doResume p s j vs =
      if (p.co j).wrapped then (s, .raise (sym (CoSpec.refusal (s.co j).st)) true)
      else (s, .deliver [some (.bool false), sym (CoSpec.refusal (s.co j).st)]) := by
  simp only [CoSpec.doResume]
  rw [if_pos hst]

theorem mdoResume_ok (p : Prog) (w w2 : World) (l j : Nat) (g fj : Frame) (r rj : List Frame)
    (hcheck : resumeCheck Cfg.fixed w j = none)
    (hce : coResumeEnter Cfg.fixed w l j ((p.co j).body.map fun f => ((p.fn f).np, (p.fn f).vararg, (p.fn f).nused))
            = .ok (w2, 1))
    (hl : l < w2.threads.length) (hj : j < w2.threads.length) (hne : l ≠ j)
    (hfl : (w2.th l).frames = g :: r) (hcl : (w2.th l).cur = true)
    (hfj : (w2.th j).frames = fj :: rj) (hG : fj.isG = false) :
    doResume Cfg.fixed p w l j =
      if !(w.th j).cur then
        enterLua p ((w2.setTh l { w2.th l with frames := { g with gk := .resume 1 } :: r }).setTh j
                      { w2.th j with seen := true }) j
      else ((w2.setTh l { w2.th l with frames := { g with gk := .resume 1 } :: r }).setTh j
                      { w2.th j with seen := true }, .run j) := by
  simp only [doResume, hcheck, hce, hfl]
  rw [if_pos hcl]
  simp only [th_setTh_ne _ _ _ _ hne]
  rw [th_setTh_eq _ _ _ (by simpa using hj)]
  simp only [hfj, hG]
  simp

theorem sdoResume_first (p : Prog) (s : CoSpec.St) (c j fb : Nat) (vs : List OVal)
    (hcur : s.cur = c) (hc : c < s.cos.length) (hj : j < s.cos.length) (hne : c ≠ j)
    (hst : (s.co j).st = .suspended) (hns : (s.co j).started = false) (hbody : (p.co j).body = some fb) :
    ∃ s', CoSpec.doResume p s j vs = (s', .exec) ∧ s'.chain = j :: s.chain ∧
      s'.trace = s.trace.emit ("P" ++ toString fb) (entryVals (p.fn fb) vs) ∧ s'.cos.length = s.cos.length ∧
      s'.co c = { s.co c with st := .normal } ∧
      s'.co j = { s.co j with st := .running, started := true,
                              k := { fid := fb, rest := (p.fn fb).acts } :: (s.co j).k } ∧
      (∀ x, x ≠ c → x ≠ j → s'.co x = s.co x) := by
  have h : CoSpec.doResume p s j vs =
      (CoSpec.enter p { ((s.setCo c { s.co c with st := .normal }).setCo j
          { (s.setCo c { s.co c with st := .normal }).co j with st := .running, started := true }) with
            chain := j :: s.chain } j fb vs, .exec) := by
    simp only [CoSpec.doResume, hcur]
    rw [if_neg (by rw [hst]; simp)]
    simp only [hns, hbody, Bool.not_false, if_true]
    rfl
  refine ⟨_, h, ?_, ?_, ?_, ?_, ?_, ?_⟩
  · simp [CoSpec.enter]
  · simp [CoSpec.enter]
  · simp [CoSpec.enter]
  · simp only [CoSpec.enter, co_setTrace, co_setChain]
    rw [co_setCo_ne _ _ _ _ (Ne.symm hne)]
    show ((s.setCo c _).setCo j _).co c = _
    rw [co_setCo_ne _ _ _ _ (Ne.symm hne), co_setCo_eq _ _ _ hc]
  · simp only [CoSpec.enter, co_setTrace, co_setChain]
    rw [co_setCo_eq _ _ _ (by simpa using hj)]
    show ({ ((s.setCo c _).setCo j _).co j with k := _ } : CoSpec.Co) = _
    rw [co_setCo_eq _ _ _ (by simpa using hj), co_setCo_ne _ _ _ _ hne]
  · intro x h1 h2
    simp only [CoSpec.enter, co_setTrace, co_setChain]
    rw [co_setCo_ne _ _ _ _ (Ne.symm h2)]
    show ((s.setCo c _).setCo j _).co x = _
    rw [co_setCo_ne _ _ _ _ (Ne.symm h2), co_setCo_ne _ _ _ _ (Ne.symm h1)]

theorem sdoResume_later (p : Prog) (s : CoSpec.St) (c j : Nat) (vs : List OVal)
    (hcur : s.cur = c) (hc : c < s.cos.length) (hj : j < s.cos.length) (hne : c ≠ j)
    (hst : (s.co j).st = .suspended) (hns : (s.co j).started = true) :
    ∃ s', CoSpec.doResume p s j vs = (s', .deliver vs) ∧ s'.chain = j :: s.chain ∧
      s'.trace = s.trace ∧ s'.cos.length = s.cos.length ∧
      s'.co c = { s.co c with st := .normal } ∧
      s'.co j = { s.co j with st := .running, started := true } ∧
      (∀ x, x ≠ c → x ≠ j → s'.co x = s.co x) := by
  have h : CoSpec.doResume p s j vs =
      ({ ((s.setCo c { s.co c with st := .normal }).setCo j
          { (s.setCo c { s.co c with st := .normal }).co j with st := .running, started := true }) with
            chain := j :: s.chain }, .deliver vs) := by
    simp only [CoSpec.doResume, hcur]
    rw [if_neg (by rw [hst]; simp)]
    simp only [hns, Bool.not_true, Bool.false_eq_true, if_false]
    rfl
  refine ⟨_, h, ?_, ?_, ?_, ?_, ?_, ?_⟩
  · rfl
  · rfl
  · simp
  · simp only [co_setChain]
    rw [co_setCo_ne _ _ _ _ (Ne.symm hne), co_setCo_eq _ _ _ hc]
  · simp only [co_setChain]
    rw [co_setCo_eq _ _ _ (by simpa using hj), co_setCo_ne _ _ _ _ hne]
  · intro x h1 h2
    simp only [co_setChain]
    rw [co_setCo_ne _ _ _ _ (Ne.symm h2), co_setCo_ne _ _ _ _ (Ne.symm h1)]


/-! ### `doResume`, generic in the shape of the resumer's Go frames -/

section
variable {p : Prog} {w : World} {s : CoSpec.St} {mc : Co.Ctl} {sc : CoSpec.Ctl} {c : Nat} {rest : List Nat}

/-- what the instantiations provide about the resumer's thread `T1` (Go frame(s) of `coResume` pushed, arguments above
    the thread object) and the Spec's activation stack `C1` (act consumed, results awaited). -/
structure ResumerReady (p : Prog) (w : World) (c : Nat) (T1 : Thread) (C1 : CoSpec.Co) (ghead : Frame)
    (grest : List Frame) : Prop where
  base  : Base T1 C1 (p.co c)
  run   : C1.st = .running
  par   : T1.parent = (w.th c).parent
  fr    : T1.frames = ghead :: grest
  lb    : T1.lbase + 1 ≤ T1.reg.length
  norm  : NormalT { T1 with reg := T1.reg.take (T1.lbase + 1), frames := { ghead with gk := .resume 1 } :: grest }
            { C1 with st := .normal } (p.co c)
  raise : ∀ msg, HeadRel c T1 C1 (.raise c msg) (.raise msg true)
  gret  : ∀ x y, HeadRel c ((T1.push x).push y) C1 (.gret c 2) (.deliver [x, y])

theorem sim_doResume_refused (hL : Live p w mc s sc) (hch : s.chain = c :: rest)
    {T1 : Thread} {C1 : CoSpec.Co} {ghead : Frame} {grest : List Frame} (hR : ResumerReady p w c T1 C1 ghead grest)
    (j : Nat) (vals : List OVal) (r : Refusal)
    (hcheck : resumeCheck Cfg.fixed (w.setTh c T1) j = some r)
    (hname : r.name = CoSpec.refusal ((s.setCo c C1).co j).st) (hnot : ((s.setCo c C1).co j).st ≠ .suspended)
    (hwr : ((w.setTh c T1).th j).wrapped = (p.co j).wrapped) :
    Sim p (doResume Cfg.fixed p (w.setTh c T1) c j).1 (doResume Cfg.fixed p (w.setTh c T1) c j).2
      (CoSpec.doResume p (s.setCo c C1) j vals).1 (CoSpec.doResume p (s.setCo c C1) j vals).2 := by
  obtain ⟨c', rest0, hch', hcur, hwc, hcN, hcw, hcs, _, _, hbase, hrun, _⟩ := hL.head
  rw [hch] at hch'; injection hch' with e1 e2; subst e1 e2
  rw [mdoResume_refused p _ c j r hcheck, sdoResume_refused p _ j vals hnot, hwr, ← hname]
  have h1c : (w.setTh c T1).th c = T1 := th_setTh_eq _ _ _ hcw
  cases hw : (p.co j).wrapped with
  | true =>
    simp only [if_true]
    exact ⟨hL.trace, Or.inr (live_head_set hL hch rfl rfl rfl rfl hL.trace hR.par hR.base hR.run (hR.raise _))⟩
  | false =>
    simp only [Bool.false_eq_true, if_false]
    refine ⟨hL.trace, Or.inr ?_⟩
    rw [h1c]
    have hw2 : ((w.setTh c T1).setTh c ((T1.push (some (.bool false))).push (sym r.name))).threads
        = (w.setTh c ((T1.push (some (.bool false))).push (sym r.name))).threads := by
      simp [World.setTh, List.set_set]
    exact live_head_set hL hch hw2 rfl rfl rfl hL.trace hR.par
      ⟨hR.base.dead, hR.base.cur, hR.base.seen, hR.base.wrapped, hR.base.started⟩ hR.run (hR.gret _ _)

/-- what `coResume` leaves of the resumer: arguments gone, saved top recorded in the Go frame. -/
theorem resumer_after (hL : Live p w mc s sc) (hch : s.chain = c :: rest)
    {T1 : Thread} {C1 : CoSpec.Co} {ghead : Frame} {grest : List Frame} (hR : ResumerReady p w c T1 C1 ghead grest) :
    (({ T1 with reg := T1.reg.take (T1.lbase + 1), frames := { ghead with gk := .resume 1 } :: grest } : Thread).parent
      = (w.th c).parent) := hR.par

theorem sim_doResume_first (hp : okProg p = true) (hL : Live p w mc s sc) (hch : s.chain = c :: rest)
    {T1 : Thread} {C1 : CoSpec.Co} {ghead : Frame} {grest : List Frame} (hR : ResumerReady p w c T1 C1 ghead grest)
    (j : Nat) (hjN : j < N) (hjn : j ∉ c :: rest) (hjc : j ≠ c) (hparj : (w.th j).parent = none)
    (hun : Unstarted p (w.th j) (s.co j) (p.co j)) :
    Sim p (doResume Cfg.fixed p (w.setTh c T1) c j).1 (doResume Cfg.fixed p (w.setTh c T1) c j).2
      (CoSpec.doResume p (s.setCo c C1) j (T1.reg.drop (T1.lbase + 1))).1
      (CoSpec.doResume p (s.setCo c C1) j (T1.reg.drop (T1.lbase + 1))).2 := by
  obtain ⟨c', rest0, hch', hcur, hwc, hcN, hcw, hcs, _, _, hbase, hrun, _⟩ := hL.head
  rw [hch] at hch'; injection hch' with e1 e2; subst e1 e2
  obtain ⟨fb, hbody, hTj, hstj, hnsj, hkj⟩ := hun
  have hjw : j < w.threads.length := by rw [hL.lenw]; exact hjN
  have hjs : j < s.cos.length := by rw [hL.lens]; exact hjN
  let vals := T1.reg.drop (T1.lbase + 1)
  let w1 := w.setTh c T1
  have h1c : w1.th c = T1 := th_setTh_eq _ _ _ hcw
  have h1j : w1.th j = w.th j := th_setTh_ne _ _ _ _ (Ne.symm hjc)
  have h1x : ∀ x, x ≠ c → w1.th x = w.th x := fun x hx => th_setTh_ne _ _ _ _ (Ne.symm hx)
  have hlen1w : w1.threads.length = w.threads.length := by simp [w1]
  -- the checks of coResume pass
  have hcheck : resumeCheck Cfg.fixed w1 j = none := by
    have hcj : ¬ w1.current = j := by show ¬ w.current = j; rw [hwc]; exact Ne.symm hjc
    simp [resumeCheck, hcj, h1j, hTj, newThread]
  -- coResume up to threadRun
  have hlb1 : (w1.th c).lbase + 1 ≤ (w1.th c).reg.length := by rw [h1c]; exact hR.lb
  obtain ⟨w2, hce, h2cur, h2len, h2tr, h2j, h2c, h2x⟩ :=
    coResumeEnter_first_full Cfg.fixed w1 c j (p.fn fb).np (p.fn fb).nused fb (p.fn fb).vararg (p.co j).wrapped
      (p.fn fb).acts (by rw [hlen1w]; exact hcw) (by rw [hlen1w]; exact hjw) (Ne.symm hjc) (by rw [h1j, hTj]) hlb1
  rw [h1c] at h2j h2c
  let cf : Frame := { fid := fb, code := (p.fn fb).acts, nargs := vals.length }
  have hfn := okProg_fn p hp fb
  have hbind := initCallFrameLua_binds [none] vals cf (p.fn fb).np (p.fn fb).nused (p.fn fb).vararg rfl rfl rfl hfn.1
  simp only at hbind
  obtain ⟨_, _, _, hb4, hb5⟩ := hbind
  let res := initCallFrameLua ([none] ++ vals) cf (p.fn fb).np (p.fn fb).vararg (p.fn fb).nused
  have h2cfr : (w2.th c).frames = ghead :: grest := by rw [h2c]; exact hR.fr
  have h2ccur : (w2.th c).cur = true := by rw [h2c]; exact hR.base.cur
  have h2jfr : (w2.th j).frames = [res.2] := by rw [h2j]
  have hresG : res.2.isG = false := by show (initCallFrameLua _ _ _ _ _).2.isG = false; rw [hb5]
  have hdo := mdoResume_ok p w1 w2 c j ghead res.2 grest [] hcheck (by rw [hbody]; exact hce)
    (by rw [h2len, hlen1w]; exact hcw) (by rw [h2len, hlen1w]; exact hjw) (Ne.symm hjc) h2cfr h2ccur h2jfr hresG
  have hfirst : (!(w1.th j).cur) = true := by rw [h1j, hTj]; rfl
  rw [if_pos hfirst] at hdo
  let w4 := (w2.setTh c { w2.th c with frames := { ghead with gk := .resume 1 } :: grest }).setTh j
              { w2.th j with seen := true }
  have hc2 : c < w2.threads.length := by rw [h2len, hlen1w]; exact hcw
  have hj2 : j < w2.threads.length := by rw [h2len, hlen1w]; exact hjw
  have h4j : w4.th j = { w2.th j with seen := true } := th_setTh_eq _ _ _ (by simpa using hj2)
  have h4c : w4.th c = { w2.th c with frames := { ghead with gk := .resume 1 } :: grest } := by
    show ((w2.setTh c _).setTh j _).th c = _
    rw [th_setTh_ne _ _ _ _ hjc, th_setTh_eq _ _ _ hc2]
  have h4x : ∀ x, x ≠ c → x ≠ j → w4.th x = w.th x := by
    intro x hx1 hx2
    show ((w2.setTh c _).setTh j _).th x = _
    rw [th_setTh_ne _ _ _ _ (Ne.symm hx2), th_setTh_ne _ _ _ _ (Ne.symm hx1), h2x x hx1 hx2, h1x x hx1]
  have hent := enterLua_after_init p w4 j [none] vals cf [] rfl rfl rfl hfn.1
    (by rw [h4j, h2j]) (by rw [h4j, h2j])
  -- the Spec side
  let s1 := s.setCo c C1
  have hs1c : s1.co c = C1 := co_setCo_eq _ _ _ hcs
  have hs1j : s1.co j = s.co j := co_setCo_ne _ _ _ _ (Ne.symm hjc)
  obtain ⟨s', hsd, hs'ch, hs'tr, hs'len, hs'c, hs'j, hs'x⟩ :=
    sdoResume_first p s1 c j fb vals (by simp [s1, CoSpec.St.cur, hch]) (by simpa [s1] using hcs)
      (by simpa [s1] using hjs) (Ne.symm hjc) (by rw [hs1j]; exact hstj) (by rw [hs1j]; exact hnsj) hbody
  show Sim p (doResume Cfg.fixed p w1 c j).1 (doResume Cfg.fixed p w1 c j).2
    (CoSpec.doResume p s1 j vals).1 (CoSpec.doResume p s1 j vals).2
  rw [hdo, hent, hsd]
  have htr : (w4.emit ("P" ++ toString cf.fid) (entryVals (p.fn cf.fid) vals)).trace = s'.trace := by
    rw [hs'tr]
    show (w4.trace).emit _ _ = _
    have : w4.trace = w.trace := by
      show w2.trace = _
      rw [h2tr]; rfl
    rw [this, hL.trace]; rfl
  refine ⟨htr, Or.inr ?_⟩
  rw [hs1c] at hs'c
  rw [hs1j] at hs'j
  refine live_enter hL hch hjN hjn (by show w4.threads.length = _; simp [w4, h2len, hlen1w])
    (by rw [hs'len]; simp [s1]) htr (by show w2.current = j; exact h2cur) (by rw [hs'ch]; simp [s1, hch])
    (fun x h1 h2 => h4x x h1 h2) ?_ ?_ ?_ ?_ ?_ ?_ ?_
  · intro x h1 h2
    rw [hs'x x h1 h2]; exact co_setCo_ne _ _ _ _ (Ne.symm h1)
  · show (w4.th c).parent = _
    rw [h4c, h2c]; exact hR.par
  · show (w4.th j).parent = _
    rw [h4j, h2j]
  · show NormalT (w4.th c) (s'.co c) _
    rw [h4c, h2c, hs'c]
    exact hR.norm
  · show Base (w4.th j) (s'.co j) _
    rw [h4j, h2j, hs'j]
    exact ⟨rfl, rfl, rfl, rfl, rfl⟩
  · rw [hs'j]
  · show HeadRel j (w4.th j) (s'.co j) _ _
    rw [h4j, h2j, hs'j]
    refine .exec res.2 [] (by rfl) ⟨?_, ?_, ?_⟩ ?_ ?_
    · show _ :: (s.co j).k = _
      rw [hkj]
      show _ = [kfOf (initCallFrameLua _ _ _ _ _).2]
      rw [hb5]; rfl
    · show LuaOK (initCallFrameLua _ _ _ _ _).2
      rw [hb5]
      exact ⟨rfl, rfl, Nat.zero_le _, hfn.2, trivial⟩
    · show Callers (initCallFrameLua _ _ _ _ _).2.returnBase (initCallFrameLua _ _ _ _ _).2.nret []
      rw [hb5]; exact ⟨rfl, rfl⟩
    · show (initCallFrameLua _ _ _ _ _).2.recv = _
      rw [hb5]
    · show (initCallFrameLua _ _ _ _ _).2.localBase ≤ (initCallFrameLua _ _ _ _ _).1.length
      rw [hb4]; omega

theorem sim_doResume_later (hL : Live p w mc s sc) (hch : s.chain = c :: rest)
    {T1 : Thread} {C1 : CoSpec.Co} {ghead : Frame} {grest : List Frame} (hR : ResumerReady p w c T1 C1 ghead grest)
    (j : Nat) (hjN : j < N) (hjn : j ∉ c :: rest) (hjc : j ≠ c) (hparj : (w.th j).parent = none)
    (hsu : Susp (w.th j) (s.co j) (p.co j)) :
    Sim p (doResume Cfg.fixed p (w.setTh c T1) c j).1 (doResume Cfg.fixed p (w.setTh c T1) c j).2
      (CoSpec.doResume p (s.setCo c C1) j (T1.reg.drop (T1.lbase + 1))).1
      (CoSpec.doResume p (s.setCo c C1) j (T1.reg.drop (T1.lbase + 1))).2 := by
  obtain ⟨c', rest0, hch', hcur, hwc, hcN, hcw, hcs, _, _, hbase, hrun, _⟩ := hL.head
  rw [hch] at hch'; injection hch' with e1 e2; subst e1 e2
  obtain ⟨hbj, _, hstj, fj, fsj, hfrj, hstkj, hrj, hraj, hyj, hlbj⟩ := hsu
  have hjw : j < w.threads.length := by rw [hL.lenw]; exact hjN
  have hjs : j < s.cos.length := by rw [hL.lens]; exact hjN
  let vals := T1.reg.drop (T1.lbase + 1)
  let w1 := w.setTh c T1
  have h1c : w1.th c = T1 := th_setTh_eq _ _ _ hcw
  have h1j : w1.th j = w.th j := th_setTh_ne _ _ _ _ (Ne.symm hjc)
  have h1x : ∀ x, x ≠ c → w1.th x = w.th x := fun x hx => th_setTh_ne _ _ _ _ (Ne.symm hx)
  have hlen1w : w1.threads.length = w.threads.length := by simp [w1]
  have hcheck : resumeCheck Cfg.fixed w1 j = none := by
    have hcj : ¬ w1.current = j := by show ¬ w.current = j; rw [hwc]; exact Ne.symm hjc
    simp [resumeCheck, hcj, h1j, hbj.dead, hparj]
  have hlb1 : (w1.th c).lbase + 1 ≤ (w1.th c).reg.length := by rw [h1c]; exact hR.lb
  obtain ⟨w2, hce, h2cur, h2len, h2tr, h2j, h2c, h2x⟩ :=
    coResumeEnter_started_full Cfg.fixed w1 c j
      ((p.co j).body.map fun f => ((p.fn f).np, (p.fn f).vararg, (p.fn f).nused))
      (by rw [hlen1w]; exact hcw) (by rw [hlen1w]; exact hjw) (Ne.symm hjc) (by rw [h1j]; exact hbj.cur) hlb1 rfl
  rw [h1c, h1j] at h2j
  rw [h1c] at h2c
  have h2cfr : (w2.th c).frames = ghead :: grest := by rw [h2c]; exact hR.fr
  have h2ccur : (w2.th c).cur = true := by rw [h2c]; exact hR.base.cur
  have h2jfr : (w2.th j).frames = fj :: fsj := by rw [h2j]; exact hfrj
  have hdo := mdoResume_ok p w1 w2 c j ghead fj grest fsj hcheck hce
    (by rw [h2len, hlen1w]; exact hcw) (by rw [h2len, hlen1w]; exact hjw) (Ne.symm hjc) h2cfr h2ccur h2jfr
    hstkj.ok.notG
  have hfirst : ¬ ((!(w1.th j).cur) = true) := by rw [h1j, hbj.cur]; simp
  rw [if_neg hfirst] at hdo
  let w4 := (w2.setTh c { w2.th c with frames := { ghead with gk := .resume 1 } :: grest }).setTh j
              { w2.th j with seen := true }
  have hc2 : c < w2.threads.length := by rw [h2len, hlen1w]; exact hcw
  have hj2 : j < w2.threads.length := by rw [h2len, hlen1w]; exact hjw
  have h4j : w4.th j = { w2.th j with seen := true } := th_setTh_eq _ _ _ (by simpa using hj2)
  have h4c : w4.th c = { w2.th c with frames := { ghead with gk := .resume 1 } :: grest } := by
    show ((w2.setTh c _).setTh j _).th c = _
    rw [th_setTh_ne _ _ _ _ hjc, th_setTh_eq _ _ _ hc2]
  have h4x : ∀ x, x ≠ c → x ≠ j → w4.th x = w.th x := by
    intro x hx1 hx2
    show ((w2.setTh c _).setTh j _).th x = _
    rw [th_setTh_ne _ _ _ _ (Ne.symm hx2), th_setTh_ne _ _ _ _ (Ne.symm hx1), h2x x hx1 hx2, h1x x hx1]
  -- the Spec side
  let s1 := s.setCo c C1
  have hs1c : s1.co c = C1 := co_setCo_eq _ _ _ hcs
  have hs1j : s1.co j = s.co j := co_setCo_ne _ _ _ _ (Ne.symm hjc)
  obtain ⟨s', hsd, hs'ch, hs'tr, hs'len, hs'c, hs'j, hs'x⟩ :=
    sdoResume_later p s1 c j vals (by simp [s1, CoSpec.St.cur, hch]) (by simpa [s1] using hcs)
      (by simpa [s1] using hjs) (Ne.symm hjc) (by rw [hs1j]; exact hstj) (by rw [hs1j]; exact hbj.started)
  show Sim p (doResume Cfg.fixed p w1 c j).1 (doResume Cfg.fixed p w1 c j).2
    (CoSpec.doResume p s1 j vals).1 (CoSpec.doResume p s1 j vals).2
  rw [hdo, hsd]
  have htr : w4.trace = s'.trace := by
    rw [hs'tr]
    show w2.trace = _
    rw [h2tr]; show w.trace = s.trace; exact hL.trace
  refine ⟨htr, Or.inr ?_⟩
  rw [hs1c] at hs'c
  rw [hs1j] at hs'j
  refine live_enter hL hch hjN hjn (by show w4.threads.length = _; simp [w4, h2len, hlen1w])
    (by rw [hs'len]; simp [s1]) htr (by show w2.current = j; exact h2cur) (by rw [hs'ch]; simp [s1, hch])
    (fun x h1 h2 => h4x x h1 h2) ?_ ?_ ?_ ?_ ?_ ?_ ?_
  · intro x h1 h2
    rw [hs'x x h1 h2]; exact co_setCo_ne _ _ _ _ (Ne.symm h1)
  · rw [h4c, h2c]; exact hR.par
  · rw [h4j, h2j]
  · rw [h4c, h2c, hs'c]; exact hR.norm
  · rw [h4j, h2j, hs'j]
    exact ⟨hbj.dead, hbj.cur, rfl, hbj.wrapped, rfl⟩
  · rw [hs'j]
  · rw [h4j, h2j, hs'j]
    refine .deliver fj fsj (w.th j).reg.length vals hfrj ⟨hstkj.k, hstkj.ok, hstkj.call⟩ hrj hraj hlbj
      (by simp) ?_
    show ((w.th j).reg ++ adjust vals (w.th j).yieldNRet).drop _ = _
    rw [List.drop_left, hyj]

/-- `coroutine.resume(co_j, vals)` / `f_j(vals)` after the Go frame(s) are set up: all outcomes. -/
theorem sim_doResume (hp : okProg p = true) (hL : Live p w mc s sc) (hch : s.chain = c :: rest)
    {T1 : Thread} {C1 : CoSpec.Co} {ghead : Frame} {grest : List Frame} (hR : ResumerReady p w c T1 C1 ghead grest)
    (j : Nat) (h1 : 1 ≤ j) (h4 : j ≤ 4) :
    Sim p (doResume Cfg.fixed p (w.setTh c T1) c j).1 (doResume Cfg.fixed p (w.setTh c T1) c j).2
      (CoSpec.doResume p (s.setCo c C1) j (T1.reg.drop (T1.lbase + 1))).1
      (CoSpec.doResume p (s.setCo c C1) j (T1.reg.drop (T1.lbase + 1))).2 := by
  obtain ⟨c', rest0, hch', hcur, hwc, hcN, hcw, hcs, _, _, hbase, hrun, _⟩ := hL.head
  rw [hch] at hch'; injection hch' with e1 e2; subst e1 e2
  have hjN : j < N := by show j < 5; omega
  have h1c : (w.setTh c T1).th c = T1 := th_setTh_eq _ _ _ hcw
  rcases classify hL hch j h1 h4 with hjc | ⟨hm, hjc, hstj, hbj, hparj⟩ | ⟨hjn, hjc, hparj, hid⟩
  · -- resuming itself: "cannot resume non-suspended coroutine" (running)
    subst hjc
    have hsj : ((s.setCo j C1).co j).st = .running := by rw [co_setCo_eq _ _ _ hcs]; exact hR.run
    refine sim_doResume_refused hL hch hR j _ .running ?_ ?_ ?_ ?_
    · simp [resumeCheck, hwc]
    · rw [hsj]; rfl
    · rw [hsj]; simp
    · rw [h1c]; exact hR.base.wrapped
  · -- resuming a coroutine that is waiting in a resume (normal)
    have hcj : ¬ w.current = j := by rw [hwc]; exact Ne.symm hjc
    have hsj : ((s.setCo c C1).co j).st = .normal := by rw [co_setCo_ne _ _ _ _ (Ne.symm hjc)]; exact hstj
    refine sim_doResume_refused hL hch hR j _ .normal ?_ ?_ ?_ ?_
    · simp [resumeCheck, hcj, th_setTh_ne _ _ _ _ (Ne.symm hjc), hbj.dead, hparj, Cfg.fixed]
    · rw [hsj]; rfl
    · rw [hsj]; simp
    · rw [th_setTh_ne _ _ _ _ (Ne.symm hjc)]; exact hbj.wrapped
  · rcases hid with hun | ⟨hd, _, _, hwrj, hstj, _⟩ | hsu
    · exact sim_doResume_first hp hL hch hR j hjN hjn hjc hparj hun
    · -- dead
      have hcj : ¬ w.current = j := by rw [hwc]; exact Ne.symm hjc
      have hsj : ((s.setCo c C1).co j).st = .dead := by rw [co_setCo_ne _ _ _ _ (Ne.symm hjc)]; exact hstj
      refine sim_doResume_refused hL hch hR j _ .dead ?_ ?_ ?_ ?_
      · simp [resumeCheck, hcj, th_setTh_ne _ _ _ _ (Ne.symm hjc), hd]
      · rw [hsj]; rfl
      · rw [hsj]; simp
      · rw [th_setTh_ne _ _ _ _ (Ne.symm hjc)]; exact hwrj
    · exact sim_doResume_later hL hch hR j hjN hjn hjc hparj hsu
end

/-! ### instantiation 1: the plain call — one Go frame (`coResume`) above the Lua frame -/

/-- the resumer's thread when `coResume` starts: the Go frame at `ra` holds [function slot | thread, args…]; `f'` is
    the Lua frame below (already advanced, waiting for the results at `ra`). -/
def resumeT (T : Thread) (f' : Frame) (ks : List Frame) (j nargs ra : Nat) (vals : List OVal) (want : Want) : Thread :=
  { T with
    reg := regSetTop T.reg ra ++ [none, some (.ref j)] ++ vals
    cur := true
    frames := { isG := true, base := ra, localBase := ra + 1, returnBase := ra, nargs := nargs, nret := want,
                gk := .resume 0 } :: f' :: ks }

theorem mstep_resume (cfg : Cfg) (p : Prog) (w : World) (t j a : Nat) (vals : List OVal) (want : Want) (f : Frame)
    (ks : List Frame) (rest : List Act)
    (hfr : (w.th t).frames = f :: ks) (hG : f.isG = false) (hr : f.recv = .none)
    (hc : f.code = .resume j false a vals want :: rest) :
    step cfg p w (.run t) =
      doResume cfg p (w.setTh t (resumeT (w.th t)
        { f with idx := f.idx + 1, code := rest, recv := .emit (Co.lbl f.fid f.idx) want (f.localBase + a) } ks j
        (if (p.co j).wrapped then vals.length else vals.length + 1) (f.localBase + a) vals want)) t j := by
  simp only [step, hfr, hr, hc]
  rw [if_neg (by rw [hG]; simp)]
  congr 2
  simp only [setupResume, Bool.false_eq_true, if_false, pushG, advance, resumeT]
  cases (p.co j).wrapped with
  | false => simp
  | true =>
    simp only [if_true]
    have h1 : (regSetTop (w.th t).reg (f.localBase + a) ++ [none] ++ vals).take (f.localBase + a + 1)
        = regSetTop (w.th t).reg (f.localBase + a) ++ [none] := by
      rw [List.take_left' (by simp [regSetTop_length])]
    have h2 : (regSetTop (w.th t).reg (f.localBase + a) ++ [none] ++ vals).drop (f.localBase + a + 1) = vals := by
      rw [List.drop_left' (by simp [regSetTop_length])]
    rw [h1, h2]
    simp

theorem sstep_resume (p : Prog) (s : CoSpec.St) (c j a : Nat) (vals : List OVal) (want : Want)
    (kf : CoSpec.KF) (ks : List CoSpec.KF) (rest : List Act)
    (hcur : s.cur = c) (hk : (s.co c).k = kf :: ks) (hrest : kf.rest = .resume j false a vals want :: rest) :
    CoSpec.step p s .exec =
      CoSpec.doResume p
        (s.setCo c { s.co c with
          k := { kf with
                 idx := kf.idx + 1
                 rest := rest
                 recv := .emit (CoSpec.lbl kf.fid kf.idx) want false } :: ks })
        j vals := by
  simp only [CoSpec.step, hcur, hk, hrest]

theorem resumeT_lbase (T : Thread) (f' : Frame) (ks : List Frame) (j nargs ra : Nat) (vals : List OVal) (want : Want) :
    (resumeT T f' ks j nargs ra vals want).lbase = ra + 1 := by
  simp [resumeT, Thread.lbase, Thread.curFrame]

theorem resumeT_args (T : Thread) (f' : Frame) (ks : List Frame) (j nargs ra : Nat) (vals : List OVal) (want : Want) :
    (resumeT T f' ks j nargs ra vals want).reg.drop ((resumeT T f' ks j nargs ra vals want).lbase + 1) = vals ∧
    (resumeT T f' ks j nargs ra vals want).reg.take ((resumeT T f' ks j nargs ra vals want).lbase + 1)
      = regSetTop T.reg ra ++ [none, some (.ref j)] := by
  rw [resumeT_lbase]
  simp only [resumeT]
  constructor
  · rw [List.drop_left' (by simp [regSetTop_length])]
  · rw [List.take_left' (by simp [regSetTop_length])]

section
variable {p : Prog} {w : World} {s : CoSpec.St} {c : Nat} {rest : List Nat} {fs : List Frame}

theorem resumerReady_plain {mc : Co.Ctl} {sc : CoSpec.Ctl} (hL : Live p w mc s sc) (hch : s.chain = c :: rest)
    (f' : Frame) (j nargs ra : Nat) (vals : List OVal) (want : Want)
    (hok : LuaOK f') (hcall : Callers f'.returnBase f'.nret fs) (hres : ResRecv f'.recv want ra)
    (hlb : f'.localBase ≤ ra) :
    ResumerReady p w c (resumeT (w.th c) f' fs j nargs ra vals want)
      { s.co c with k := kfOf f' :: fs.map kfOf }
      { isG := true, base := ra, localBase := ra + 1, returnBase := ra, nargs := nargs, nret := want, gk := .resume 0 }
      (f' :: fs) := by
  obtain ⟨c', rest0, hch', hcur, hwc, hcN, hcw, hcs, _, _, hbase, hrun, _⟩ := hL.head
  rw [hch] at hch'; injection hch' with e1 e2; subst e1 e2
  let T1 := resumeT (w.th c) f' fs j nargs ra vals want
  have hstk : Stack T1 { s.co c with k := kfOf f' :: fs.map kfOf } f' fs := ⟨rfl, hok, hcall⟩
  have hlen1 : T1.reg.length = ra + 2 + vals.length := by
    simp [T1, resumeT, regSetTop_length]; omega
  have hgk : ∀ g ∈ T1.frames, g.gk ≠ .pcall := by
    intro g hg
    simp only [T1, resumeT] at hg
    cases hg with
    | head => simp
    | tail _ hg =>
      cases hg with
      | head => rw [hok.gk]; simp
      | tail _ hg => exact Callers_gk hcall g hg
  have hargs := resumeT_args (w.th c) f' fs j nargs ra vals want
  refine ⟨⟨hbase.dead, rfl, hbase.seen, hbase.wrapped, hbase.started⟩, hrun, rfl, rfl, ?_, ?_, ?_, ?_⟩
  · rw [resumeT_lbase, hlen1]; omega
  · rw [hargs.2]
    refine ⟨⟨hbase.dead, rfl, hbase.seen, hbase.wrapped, hbase.started⟩, rfl, Or.inl ⟨_, f', fs, want, ra, rfl,
      ⟨hstk.k, hstk.ok, hstk.call⟩, hres, hlb, rfl, rfl, rfl, rfl, rfl, ?_⟩⟩
    simp [regSetTop_length]
  · intro msg
    refine .raise msg true _ _ (by rfl) (by show ra ≤ ra + 1; omega)
      (by rw [hlen1]; show ra + 1 ≤ _; omega) hgk (by simp) ?_
    intro kf hkf
    cases hkf with
    | head => exact NoProt_kfOf f'
    | tail _ hkf =>
      obtain ⟨f'', _, rfl⟩ := List.mem_map.mp hkf
      exact NoProt_kfOf f''
  · intro x y
    have hT2reg : ((T1.push x).push y).reg = T1.reg ++ [x, y] := by simp [Thread.push]
    have hgr := HeadRel.gret (t := c) (T := (T1.push x).push y)
      (C := { s.co c with k := kfOf f' :: fs.map kfOf })
      _ f' fs want ra 2 (by rfl) ⟨hstk.k, hstk.ok, hstk.call⟩ hres hlb rfl rfl rfl (by rw [hT2reg]; simp)
    rw [hT2reg] at hgr
    simp only [List.length_append, List.length_cons, List.length_nil, Nat.add_sub_cancel, List.drop_left] at hgr
    exact hgr

/-- `coroutine.resume(co_j, vals)` / `f_j(vals)` (not under pcall): all outcomes. -/
theorem sim_resume {f : Frame} (hp : okProg p = true) (hL : Live p w (.run c) s .exec) (hch : s.chain = c :: rest)
    (hfr : (w.th c).frames = f :: fs) (hst : Stack (w.th c) (s.co c) f fs) (hr : f.recv = .none)
    (hlb : f.localBase ≤ (w.th c).reg.length) (j a : Nat) (vals : List OVal) (want : Want) (rest' : List Act)
    (hcode : f.code = .resume j false a vals want :: rest') (h1 : 1 ≤ j) (h4 : j ≤ 4) :
    Sim p (step Cfg.fixed p w (.run c)).1 (step Cfg.fixed p w (.run c)).2
      (CoSpec.step p s .exec).1 (CoSpec.step p s .exec).2 := by
  have hcur : s.cur = c := by simp [CoSpec.St.cur, hch]
  have hR := resumerReady_plain (fs := fs) hL hch
    { f with idx := f.idx + 1, code := rest', recv := .emit (Co.lbl f.fid f.idx) want (f.localBase + a) } j
    (if (p.co j).wrapped then vals.length else vals.length + 1) (f.localBase + a) vals want
    (LuaOK_adv hst.ok _ _ _ hcode trivial) hst.call (Or.inl ⟨_, rfl⟩) (by show f.localBase ≤ f.localBase + a; omega)
  have := sim_doResume hp hL hch hR j h1 h4
  rw [(resumeT_args (w.th c) _ fs j _ (f.localBase + a) vals want).1] at this
  rw [mstep_resume Cfg.fixed p w c j a vals want f fs rest' hfr hst.ok.notG hr hcode,
    sstep_resume p s c j a vals want (kfOf f) (fs.map kfOf) rest' hcur hst.k hcode]
  exact this
end

/-! ### instantiation 2: the call through `pcall` — two Go frames (`coResume`, `pcall`) above the Lua frame -/

/-- the resumer's thread when `coResume`, called by `pcall`, starts:
    registers [pcall's function slot | coResume's slot, thread, args…]. -/
def resumeTP (T : Thread) (f : Frame) (rest : List Act) (ks : List Frame) (j : Nat) (wr : Bool) (a : Nat)
    (vals : List OVal) (want : Want) : Thread :=
  { T with
    reg := regSetTop T.reg (f.localBase + a) ++ [none, none, some (.ref j)] ++ vals
    cur := true
    frames := { isG := true, base := f.localBase + a + 1, localBase := f.localBase + a + 2,
                returnBase := f.localBase + a + 1, nargs := if wr then vals.length else vals.length + 1,
                nret := none, gk := .resume 0 } ::
              { isG := true, base := f.localBase + a, localBase := f.localBase + a + 1, returnBase := f.localBase + a,
                nargs := if wr then vals.length + 1 else vals.length + 2, nret := want, gk := .pcall } ::
              { f with idx := f.idx + 1, code := rest, recv := .emit (Co.lbl f.fid f.idx) want (f.localBase + a) } :: ks }

theorem mstep_resumeP (cfg : Cfg) (p : Prog) (w : World) (t j a : Nat) (vals : List OVal) (want : Want) (f : Frame)
    (ks : List Frame) (rest : List Act)
    (hfr : (w.th t).frames = f :: ks) (hG : f.isG = false) (hr : f.recv = .none)
    (hc : f.code = .resume j true a vals want :: rest) :
    step cfg p w (.run t) =
      doResume cfg p (w.setTh t (resumeTP (w.th t) f rest ks j (p.co j).wrapped a vals want)) t j := by
  simp only [step, hfr, hr, hc]
  rw [if_neg (by rw [hG]; simp)]
  congr 2
  simp only [setupResume, if_true, pushG, advance, resumeTP]
  cases (p.co j).wrapped with
  | false => simp
  | true =>
    simp only [if_true]
    have h1 : (regSetTop (w.th t).reg (f.localBase + a) ++ [none] ++ none :: vals).take (f.localBase + a + 2)
        = regSetTop (w.th t).reg (f.localBase + a) ++ [none, none] := by
      rw [show regSetTop (w.th t).reg (f.localBase + a) ++ [none] ++ none :: vals =
        (regSetTop (w.th t).reg (f.localBase + a) ++ [none, none]) ++ vals by simp]
      rw [List.take_left' (by simp [regSetTop_length])]
    have h2 : (regSetTop (w.th t).reg (f.localBase + a) ++ [none] ++ none :: vals).drop (f.localBase + a + 2) = vals := by
      rw [show regSetTop (w.th t).reg (f.localBase + a) ++ [none] ++ none :: vals =
        (regSetTop (w.th t).reg (f.localBase + a) ++ [none, none]) ++ vals by simp]
      rw [List.drop_left' (by simp [regSetTop_length])]
    rw [h1, h2]
    simp

theorem sstep_resumeP (p : Prog) (s : CoSpec.St) (c j a : Nat) (vals : List OVal) (want : Want)
    (kf : CoSpec.KF) (ks : List CoSpec.KF) (rest : List Act)
    (hcur : s.cur = c) (hk : (s.co c).k = kf :: ks) (hrest : kf.rest = .resume j true a vals want :: rest) :
    CoSpec.step p s .exec =
      CoSpec.doResume p
        (s.setCo c { s.co c with
          k := { kf with
                 idx := kf.idx + 1
                 rest := rest
                 recv := .emit (CoSpec.lbl kf.fid kf.idx) want true } :: ks })
        j vals := by
  simp only [CoSpec.step, hcur, hk, hrest]

theorem resumeTP_lbase (T : Thread) (f : Frame) (rest : List Act) (ks : List Frame) (j : Nat) (wr : Bool) (a : Nat)
    (vals : List OVal) (want : Want) : (resumeTP T f rest ks j wr a vals want).lbase = f.localBase + a + 2 := by
  simp [resumeTP, Thread.lbase, Thread.curFrame]

theorem resumeTP_args (T : Thread) (f : Frame) (rest : List Act) (ks : List Frame) (j : Nat) (wr : Bool) (a : Nat)
    (vals : List OVal) (want : Want) :
    (resumeTP T f rest ks j wr a vals want).reg.drop ((resumeTP T f rest ks j wr a vals want).lbase + 1) = vals ∧
    (resumeTP T f rest ks j wr a vals want).reg.take ((resumeTP T f rest ks j wr a vals want).lbase + 1)
      = regSetTop T.reg (f.localBase + a) ++ [none, none, some (.ref j)] := by
  rw [resumeTP_lbase]
  simp only [resumeTP]
  constructor
  · rw [List.drop_left' (by simp [regSetTop_length])]
  · rw [List.take_left' (by simp [regSetTop_length])]

section
variable {p : Prog} {w : World} {s : CoSpec.St} {c : Nat} {rest : List Nat} {f : Frame} {fs : List Frame}

theorem resumerReady_prot (hL : Live p w (.run c) s .exec) (hch : s.chain = c :: rest)
    (hfr : (w.th c).frames = f :: fs) (hst : Stack (w.th c) (s.co c) f fs) (hr : f.recv = .none)
    (j a : Nat) (vals : List OVal) (want : Want) (rest' : List Act) (wr : Bool)
    (hcode : f.code = .resume j true a vals want :: rest') :
    ResumerReady p w c (resumeTP (w.th c) f rest' fs j wr a vals want)
      { s.co c with
        k := kfOfP { f with
                     idx := f.idx + 1
                     code := rest'
                     recv := .emit (Co.lbl f.fid f.idx) want (f.localBase + a) } true :: fs.map kfOf }
      { isG := true, base := f.localBase + a + 1, localBase := f.localBase + a + 2,
        returnBase := f.localBase + a + 1, nargs := if wr then vals.length else vals.length + 1,
        nret := none, gk := .resume 0 }
      ({ isG := true, base := f.localBase + a, localBase := f.localBase + a + 1, returnBase := f.localBase + a,
         nargs := if wr then vals.length + 1 else vals.length + 2, nret := want, gk := .pcall } ::
       { f with idx := f.idx + 1, code := rest', recv := .emit (Co.lbl f.fid f.idx) want (f.localBase + a) } :: fs) := by
  obtain ⟨c', rest0, hch', hcur, hwc, hcN, hcw, hcs, _, _, hbase, hrun, _⟩ := hL.head
  rw [hch] at hch'; injection hch' with e1 e2; subst e1 e2
  let ra := f.localBase + a
  let fadv : Frame := { f with idx := f.idx + 1, code := rest', recv := .emit (Co.lbl f.fid f.idx) want ra }
  let pc : Frame := { isG := true, base := ra, localBase := ra + 1, returnBase := ra,
                      nargs := if wr then vals.length + 1 else vals.length + 2, nret := want, gk := .pcall }
  let T1 := resumeTP (w.th c) f rest' fs j wr a vals want
  have hstk : StackP T1 { s.co c with k := kfOfP fadv true :: fs.map kfOf } fadv fs true :=
    ⟨rfl, LuaOK_adv hst.ok _ _ _ hcode trivial, hst.call⟩
  have hpc : PcallFrame pc ra want := ⟨rfl, rfl, rfl, rfl, rfl⟩
  have hlen1 : T1.reg.length = ra + 3 + vals.length := by
    simp [T1, resumeTP, regSetTop_length, ra]; omega
  have hargs := resumeTP_args (w.th c) f rest' fs j wr a vals want
  refine ⟨⟨hbase.dead, rfl, hbase.seen, hbase.wrapped, hbase.started⟩, hrun, rfl, rfl, ?_, ?_, ?_, ?_⟩
  · rw [resumeTP_lbase, hlen1]; omega
  · rw [hargs.2]
    refine ⟨⟨hbase.dead, rfl, hbase.seen, hbase.wrapped, hbase.started⟩, rfl, Or.inr ⟨_, pc, fadv, fs, _, want, ra, rfl,
      ⟨hstk.k, hstk.ok, hstk.call⟩, rfl, by show f.localBase ≤ f.localBase + a; omega, hpc, rfl, rfl, rfl, rfl, rfl, ?_⟩⟩
    simp [regSetTop_length, ra]
  · intro msg
    exact .raiseP msg _ pc fadv fs _ want ra (by rfl) ⟨hstk.k, hstk.ok, hstk.call⟩ rfl
      (by show f.localBase ≤ f.localBase + a; omega) hpc (by simp)
  · intro x y
    have hT2reg : ((T1.push x).push y).reg = T1.reg ++ [x, y] := by simp [Thread.push]
    have hgr := HeadRel.gretInner (t := c) (T := (T1.push x).push y)
      (C := { s.co c with k := kfOfP fadv true :: fs.map kfOf })
      _ pc fadv fs _ want ra 2 (by rfl) ⟨hstk.k, hstk.ok, hstk.call⟩ rfl
      (by show f.localBase ≤ f.localBase + a; omega) hpc rfl rfl rfl (by rw [hT2reg]; simp)
    rw [hT2reg] at hgr
    simp only [List.length_append, List.length_cons, List.length_nil, Nat.add_sub_cancel, List.drop_left] at hgr
    exact hgr

/-- `pcall(coroutine.resume, co_j, vals)` / `pcall(f_j, vals)`: all outcomes. -/
theorem sim_resumeP (hp : okProg p = true) (hL : Live p w (.run c) s .exec) (hch : s.chain = c :: rest)
    (hfr : (w.th c).frames = f :: fs) (hst : Stack (w.th c) (s.co c) f fs) (hr : f.recv = .none)
    (hlb : f.localBase ≤ (w.th c).reg.length) (j a : Nat) (vals : List OVal) (want : Want) (rest' : List Act)
    (hcode : f.code = .resume j true a vals want :: rest') (h1 : 1 ≤ j) (h4 : j ≤ 4) :
    Sim p (step Cfg.fixed p w (.run c)).1 (step Cfg.fixed p w (.run c)).2
      (CoSpec.step p s .exec).1 (CoSpec.step p s .exec).2 := by
  have hcur : s.cur = c := by simp [CoSpec.St.cur, hch]
  have hR := resumerReady_prot hL hch hfr hst hr j a vals want rest' (p.co j).wrapped hcode
  have := sim_doResume hp hL hch hR j h1 h4
  rw [(resumeTP_args (w.th c) f rest' fs j (p.co j).wrapped a vals want).1] at this
  rw [mstep_resumeP Cfg.fixed p w c j a vals want f fs rest' hfr hst.ok.notG hr hcode,
    sstep_resumeP p s c j a vals want (kfOf f) (fs.map kfOf) rest' hcur hst.k hcode]
  exact this
end

end GLua.CoSim
