/-
  C06 — history-level simulation, the steps: for every kind of step of the Model machine (the script interpreter over
  coResume / switchToParentThread / XMoveTo / OP_RETURN / callGFunction / threadRun's recover) from a state related
  to a Spec state by `Live`, the Spec machine has a matching run (0, 1 or several steps) into a related state with the
  same trace.  `sim_step` at the end collects the cases.  Core Lean only.
-/
import GLua.Proofs.CoSimDefs
set_option linter.unusedSimpArgs false
set_option linter.unusedVariables false
namespace GLua.CoSim
open GLua GLua.CoScript GLua.Co

/-! ### runs of the Spec machine -/

theorem srun_one (p : Prog) (s : CoSpec.St) (c : CoSpec.Ctl) : CoSpec.run p 1 s c = CoSpec.step p s c := by
  cases c <;> simp [CoSpec.run, CoSpec.step]

theorem srun_fin (p : Prog) (n : Nat) (s : CoSpec.St) (t : String) : CoSpec.run p n s (.fin t) = (s, .fin t) := by
  cases n <;> simp [CoSpec.run]

theorem srun_add (p : Prog) (a b : Nat) (s : CoSpec.St) (c : CoSpec.Ctl) :
    CoSpec.run p (a + b) s c = CoSpec.run p b (CoSpec.run p a s c).1 (CoSpec.run p a s c).2 := by
  induction a generalizing s c with
  | zero => simp [CoSpec.run]
  | succ a ih =>
    rw [show a + 1 + b = (a + b) + 1 by omega]
    cases c with
    | fin t => simp [CoSpec.run, srun_fin]
    | exec => simp only [CoSpec.run]; exact ih _ _
    | deliver vs => simp only [CoSpec.run]; exact ih _ _
    | raise v b => simp only [CoSpec.run]; exact ih _ _

theorem lbl_eq (fid idx : Nat) : Co.lbl fid idx = CoSpec.lbl fid idx := rfl

/-- the frame `advance` leaves and its abstraction -/
theorem kfOf_adv (f : Frame) (rest : List Act) (r : Co.Recv) :
    kfOf { f with idx := f.idx + 1, code := rest, recv := r } =
      { kfOf f with idx := (kfOf f).idx + 1, rest := rest, recv := recvOf r } := rfl

theorem LuaOK_adv {f : Frame} (h : LuaOK f) (a : Act) (rest : List Act) (r : Co.Recv) (hc : f.code = a :: rest)
    (hr : recvPlain r) : LuaOK { f with idx := f.idx + 1, code := rest, recv := r } :=
  ⟨h.notG, h.gk, h.rb, fun x hx => h.code x (by rw [hc]; exact List.mem_cons_of_mem _ hx), hr⟩

/-- status strings: the Model's `Status` of a coroutine 1..4 is the Spec's status. -/
theorem status_agree {p : Prog} {w : World} {mc : Co.Ctl} {s : CoSpec.St} {sc : CoSpec.Ctl}
    (hL : Live p w mc s sc) (t j : Nat) (h1 : 1 ≤ j) (h4 : j ≤ 4) :
    (if (w.th j).seen then sym (status Cfg.fixed w t j) else none) =
      (if (p.co j).wrapped ∧ !(s.co j).started then none else sym (s.co j).st.name) := by
  obtain ⟨c, rest, hch, hcur, hc, hnd, htail, hbase, hrun, _, hidle⟩ := hL.chain
  have hjN : j < N := by show j < 5; omega
  by_cases hin : j ∈ c :: rest
  · cases hin with
    | head =>
      -- running
      simp [status, Cfg.fixed, hcur, hbase.seen, hbase.dead, hbase.started, hrun, CoSpec.Status.name]
    | tail _ hm =>
      have hn := ChainTail_normal p w s c rest htail j hm
      have hpar := (ChainTail_parent p w s c rest htail j (List.mem_cons_of_mem _ hm)).mpr (by omega)
      have hjc : c ≠ j := fun e => (List.nodup_cons.mp hnd).1 (e ▸ hm)
      have hb := ChainTail_base p w s c rest htail j hm
      simp [status, Cfg.fixed, hcur, hjc, hn.1, hn.2, hpar, hb.seen, hb.started, CoSpec.Status.name]
  · obtain ⟨hpar, hid⟩ := hidle j hjN hin
    have hjc : c ≠ j := fun e => hin (e ▸ List.mem_cons_self ..)
    rcases hid with ⟨f, hbody, hT, hst, hstart, _⟩ | ⟨hd, _, hseen, _, hst, hstart⟩ | ⟨hb, _, hst, _⟩
    · cases hw : (p.co j).wrapped <;>
        simp [hT, newThread, status, Cfg.fixed, hcur, hjc, hst, hstart, CoSpec.Status.name, hw]
    · simp [status, Cfg.fixed, hd, hseen, hst, hstart, CoSpec.Status.name]
    · simp [status, Cfg.fixed, hcur, hjc, hb.dead, hb.seen, hb.started, hpar, hst, CoSpec.Status.name]

theorem th_of_threads {w w' : World} (h : w'.threads = w.threads) (x : Nat) : w'.th x = w.th x := by
  simp [World.th, h]

theorem co_of_cos {s s' : CoSpec.St} (h : s'.cos = s.cos) (x : Nat) : s'.co x = s.co x := by
  simp [CoSpec.St.co, h]

/-- `live_head` for worlds of the shape "thread `c` replaced (and a token emitted)". -/
theorem live_head_set {p : Prog} {w w' : World} {s s' : CoSpec.St} {mc mc' : Co.Ctl} {sc sc' : CoSpec.Ctl}
    {c : Nat} {rest : List Nat} {T' : Thread} {C' : CoSpec.Co}
    (hL : Live p w mc s sc) (hch : s.chain = c :: rest)
    (hw' : w'.threads = (w.setTh c T').threads) (hcur : w'.current = w.current)
    (hs' : s'.cos = (s.setCo c C').cos) (hchain : s'.chain = s.chain) (htr : w'.trace = s'.trace)
    (hpar : T'.parent = (w.th c).parent) (hbase : Base T' C' (p.co c)) (hst : C'.st = .running)
    (hhead : HeadRel c T' C' mc' sc') : Live p w' mc' s' sc' := by
  obtain ⟨c', rest0, hch', _, _, hcN, hcw, hcs, _, _, _, _, _⟩ := hL.head
  rw [hch] at hch'; injection hch' with e1 e2; subst e1 e2
  have hT : w'.th c = T' := by rw [th_of_threads hw', th_setTh_eq _ _ _ hcw]
  have hC : s'.co c = C' := by rw [co_of_cos hs', co_setCo_eq _ _ _ hcs]
  refine live_head hL hch (by rw [hw']; simp) (by rw [hs']; simp) htr hcur hchain ?_ ?_ ?_ ?_ ?_ ?_
  · intro x hx; rw [th_of_threads hw']; exact th_setTh_ne _ _ _ _ (Ne.symm hx)
  · intro x hx; rw [co_of_cos hs']; exact co_setCo_ne _ _ _ _ (Ne.symm hx)
  · rw [hT]; exact hpar
  · rw [hT, hC]; exact hbase
  · rw [hC]; exact hst
  · rw [hT, hC]; exact hhead

/-! ### head-only steps: status, running -/

section
variable {p : Prog} {w : World} {s : CoSpec.St} {c : Nat} {rest : List Nat} {f : Frame} {fs : List Frame}

theorem mstep_status (cfg : Cfg) (p : Prog) (w : World) (t j : Nat) (f : Frame) (ks : List Frame) (rest : List Act)
    (hfr : (w.th t).frames = f :: ks) (hG : f.isG = false) (hr : f.recv = .none) (hc : f.code = .status j :: rest) :
    step cfg p w (.run t) =
      ((w.setTh t (advance (w.th t) f rest .none ks)).emit (Co.lbl f.fid f.idx)
          [if (w.th j).seen then sym (status cfg w t j) else none], .run t) := by
  simp only [step, hfr, hG, hr, hc]
  rfl

theorem sstep_status (p : Prog) (s : CoSpec.St) (c j : Nat) (kf : CoSpec.KF) (ks : List CoSpec.KF) (rest : List Act)
    (hcur : s.cur = c) (hk : (s.co c).k = kf :: ks) (hrest : kf.rest = .status j :: rest) :
    CoSpec.step p s .exec =
      ({ (s.setCo c { s.co c with k := { kf with idx := kf.idx + 1, rest := rest, recv := .none } :: ks }) with
          trace := s.trace.emit (CoSpec.lbl kf.fid kf.idx)
            [if (p.co j).wrapped ∧ !(s.co j).started then none else sym (s.co j).st.name] }, .exec) := by
  simp only [CoSpec.step, hcur, hk, hrest]
  rfl

theorem sim_status (hL : Live p w (.run c) s .exec) (hch : s.chain = c :: rest)
    (hfr : (w.th c).frames = f :: fs) (hst : Stack (w.th c) (s.co c) f fs) (hr : f.recv = .none)
    (hlb : f.localBase ≤ (w.th c).reg.length) (j : Nat) (rest' : List Act) (hcode : f.code = .status j :: rest')
    (h1 : 1 ≤ j) (h4 : j ≤ 4) :
    Sim p (step Cfg.fixed p w (.run c)).1 (step Cfg.fixed p w (.run c)).2
      (CoSpec.step p s .exec).1 (CoSpec.step p s .exec).2 := by
  obtain ⟨c', rest0, hch', hcur, hwc, hcN, hcw, hcs, _, _, hbase, hrun, _⟩ := hL.head
  rw [hch] at hch'; injection hch' with e1 e2; subst e1 e2
  rw [mstep_status Cfg.fixed p w c j f fs rest' hfr hst.ok.notG hr hcode,
    sstep_status p s c j (kfOf f) (fs.map kfOf) rest' hcur hst.k hcode]
  have hv := status_agree hL c j h1 h4
  have htr : ((w.setTh c (advance (w.th c) f rest' .none fs)).emit (Co.lbl f.fid f.idx)
      [if (w.th j).seen then sym (status Cfg.fixed w c j) else none]).trace =
      s.trace.emit (CoSpec.lbl (kfOf f).fid (kfOf f).idx)
        [if (p.co j).wrapped ∧ !(s.co j).started then none else sym (s.co j).st.name] := by
    rw [hv]; show w.trace.emit _ _ = _; rw [hL.trace]; rfl
  refine ⟨htr, Or.inr ?_⟩
  refine live_head hL hch (by simp [World.emit]) (by simp) htr rfl rfl ?_ ?_ ?_ ?_ ?_ ?_
  · intro x hx; exact th_setTh_ne _ _ _ _ (Ne.symm hx)
  · intro x hx; exact co_setCo_ne _ _ _ _ (Ne.symm hx)
  · show ((w.setTh c _).th c).parent = _
    rw [th_setTh_eq _ _ _ hcw]; rfl
  · show Base ((w.setTh c _).th c) ((s.setCo c _).co c) _
    rw [th_setTh_eq _ _ _ hcw, co_setCo_eq _ _ _ hcs]
    exact ⟨hbase.dead, hbase.cur, hbase.seen, hbase.wrapped, hbase.started⟩
  · show ((s.setCo c _).co c).st = _
    rw [co_setCo_eq _ _ _ hcs]; exact hrun
  · show HeadRel c ((w.setTh c _).th c) ((s.setCo c _).co c) _ _
    rw [th_setTh_eq _ _ _ hcw, co_setCo_eq _ _ _ hcs]
    exact .exec { f with idx := f.idx + 1, code := rest', recv := .none } fs rfl
      ⟨rfl, LuaOK_adv hst.ok _ _ _ hcode trivial, hst.call⟩ rfl hlb
end

section
variable {p : Prog} {w : World} {s : CoSpec.St} {c : Nat} {rest : List Nat} {f : Frame} {fs : List Frame}

theorem mstep_running (cfg : Cfg) (p : Prog) (w : World) (t : Nat) (f : Frame) (ks : List Frame) (rest : List Act)
    (hfr : (w.th t).frames = f :: ks) (hG : f.isG = false) (hr : f.recv = .none) (hc : f.code = .running :: rest) :
    step cfg p w (.run t) =
      ((w.setTh t (advance (w.th t) f rest .none ks)).emit (Co.lbl f.fid f.idx) [coRunning w t], .run t) := by
  simp only [step, hfr, hG, hr, hc]
  rfl

theorem sstep_running (p : Prog) (s : CoSpec.St) (c : Nat) (kf : CoSpec.KF) (ks : List CoSpec.KF) (rest : List Act)
    (hcur : s.cur = c) (hk : (s.co c).k = kf :: ks) (hrest : kf.rest = .running :: rest) :
    CoSpec.step p s .exec =
      ({ (s.setCo c { s.co c with k := { kf with idx := kf.idx + 1, rest := rest, recv := .none } :: ks }) with
          trace := s.trace.emit (CoSpec.lbl kf.fid kf.idx) [if c = 0 then none else some (.int c)] }, .exec) := by
  simp only [CoSpec.step, hcur, hk, hrest]
  rfl

theorem sim_running (hL : Live p w (.run c) s .exec) (hch : s.chain = c :: rest)
    (hfr : (w.th c).frames = f :: fs) (hst : Stack (w.th c) (s.co c) f fs) (hr : f.recv = .none)
    (hlb : f.localBase ≤ (w.th c).reg.length) (rest' : List Act) (hcode : f.code = .running :: rest') :
    Sim p (step Cfg.fixed p w (.run c)).1 (step Cfg.fixed p w (.run c)).2
      (CoSpec.step p s .exec).1 (CoSpec.step p s .exec).2 := by
  obtain ⟨c', rest0, hch', hcur, hwc, hcN, hcw, hcs, _, _, hbase, hrun, _⟩ := hL.head
  rw [hch] at hch'; injection hch' with e1 e2; subst e1 e2
  rw [mstep_running Cfg.fixed p w c f fs rest' hfr hst.ok.notG hr hcode,
    sstep_running p s c (kfOf f) (fs.map kfOf) rest' hcur hst.k hcode]
  have htr : ((w.setTh c (advance (w.th c) f rest' .none fs)).emit (Co.lbl f.fid f.idx) [coRunning w c]).trace =
      s.trace.emit (CoSpec.lbl (kfOf f).fid (kfOf f).idx) [if c = 0 then none else some (.int c)] := by
    show w.trace.emit _ _ = _; rw [hL.trace]; simp only [coRunning, hwc]; rfl
  refine ⟨htr, Or.inr ?_⟩
  exact live_head_set hL hch rfl rfl rfl rfl htr rfl
    ⟨hbase.dead, hbase.cur, hbase.seen, hbase.wrapped, hbase.started⟩ hrun
    (.exec { f with idx := f.idx + 1, code := rest', recv := .none } fs rfl
      ⟨rfl, LuaOK_adv hst.ok _ _ _ hcode trivial, hst.call⟩ rfl hlb)

theorem mstep_err (cfg : Cfg) (p : Prog) (w : World) (t : Nat) (v : OVal) (f : Frame) (ks : List Frame) (rest : List Act)
    (hfr : (w.th t).frames = f :: ks) (hG : f.isG = false) (hr : f.recv = .none) (hc : f.code = .err v :: rest) :
    step cfg p w (.run t) = (w.setTh t (advance (w.th t) f rest .none ks), .raise t v) := by
  simp only [step, hfr, hG, hr, hc]
  rfl

theorem sstep_err (p : Prog) (s : CoSpec.St) (c : Nat) (v : OVal) (kf : CoSpec.KF) (ks : List CoSpec.KF) (rest : List Act)
    (hcur : s.cur = c) (hk : (s.co c).k = kf :: ks) (hrest : kf.rest = .err v :: rest) :
    CoSpec.step p s .exec =
      (s.setCo c { s.co c with k := { kf with idx := kf.idx + 1, rest := rest, recv := .none } :: ks },
       .raise v false) := by
  simp only [CoSpec.step, hcur, hk, hrest]

theorem Callers_gk {rb : Nat} {nret : Want} {fs : List Frame} (h : Callers rb nret fs) : ∀ f ∈ fs, f.gk ≠ .pcall := by
  induction fs generalizing rb nret with
  | nil => intro f hf; cases hf
  | cons f0 fs ih =>
    intro f hf
    cases hf with
    | head => rw [h.1.gk]; simp
    | tail _ hf => exact ih h.2.2.2 f hf

theorem NoProt_kfOf (f : Frame) : NoProt (kfOf f) := by
  intro l want h
  cases hr : f.recv <;> simp [kfOf, recvOf, hr] at h

theorem sim_err (hL : Live p w (.run c) s .exec) (hch : s.chain = c :: rest)
    (hfr : (w.th c).frames = f :: fs) (hst : Stack (w.th c) (s.co c) f fs) (hr : f.recv = .none)
    (hlb : f.localBase ≤ (w.th c).reg.length) (v : OVal) (rest' : List Act) (hcode : f.code = .err v :: rest') :
    Sim p (step Cfg.fixed p w (.run c)).1 (step Cfg.fixed p w (.run c)).2
      (CoSpec.step p s .exec).1 (CoSpec.step p s .exec).2 := by
  obtain ⟨c', rest0, hch', hcur, hwc, hcN, hcw, hcs, _, _, hbase, hrun, _⟩ := hL.head
  rw [hch] at hch'; injection hch' with e1 e2; subst e1 e2
  rw [mstep_err Cfg.fixed p w c v f fs rest' hfr hst.ok.notG hr hcode,
    sstep_err p s c v (kfOf f) (fs.map kfOf) rest' hcur hst.k hcode]
  refine ⟨hL.trace, Or.inr ?_⟩
  refine live_head_set hL hch rfl rfl rfl rfl hL.trace rfl
    ⟨hbase.dead, hbase.cur, hbase.seen, hbase.wrapped, hbase.started⟩ hrun
    (.raise v false { f with idx := f.idx + 1, code := rest', recv := .none } fs rfl hst.ok.rb hlb ?_ (by simp) ?_)
  · intro g hg
    cases hg with
    | head => show f.gk ≠ _; rw [hst.ok.gk]; simp
    | tail _ hg => exact Callers_gk hst.call g hg
  · intro kf hkf
    cases hkf with
    | head => exact NoProt_kfOf { f with idx := f.idx + 1, code := rest', recv := .none }
    | tail _ hkf =>
      obtain ⟨f', _, rfl⟩ := List.mem_map.mp hkf
      exact NoProt_kfOf f'
end

/-! ### delivering the results of a call to the script: emit -/

section
variable {p : Prog} {w : World} {s : CoSpec.St} {c : Nat} {rest : List Nat} {f : Frame} {fs : List Frame}

theorem mstep_emit (cfg : Cfg) (p : Prog) (w : World) (t : Nat) (f : Frame) (ks : List Frame) (l : String) (want : Want)
    (ra : Nat) (xs : List OVal)
    (hfr : (w.th t).frames = f :: ks) (hG : f.isG = false) (hr : f.recv = .emit l want ra)
    (hxs : (match want with
            | none => Except.ok ((w.th t).reg.drop ra)
            | some k => readRegs (w.th t).reg ra k) = .ok xs) :
    step cfg p w (.run t) =
      ((w.setTh t { w.th t with frames := { f with recv := .none } :: ks }).emit l xs, .run t) := by
  cases want with
  | none =>
    simp only at hxs
    injection hxs with hxs
    subst hxs
    simp only [step, hfr, hG, hr]
    rfl
  | some k =>
    simp only at hxs
    simp only [step, hfr, hG, hr]
    simp only [Bool.false_eq_true, if_false]
    rw [hxs]

theorem sstep_emit (p : Prog) (s : CoSpec.St) (c : Nat) (vs : List OVal) (kf : CoSpec.KF) (ks : List CoSpec.KF)
    (l : String) (want : Want)
    (hcur : s.cur = c) (hk : (s.co c).k = kf :: ks) (hrecv : kf.recv = .emit l want false) :
    CoSpec.step p s (.deliver vs) =
      ({ (s.setCo c { s.co c with k := { kf with recv := .none } :: ks }) with
          trace := s.trace.emit l (adjust vs want) }, .exec) := by
  simp only [CoSpec.step, hcur, hk, hrecv]
  rfl

theorem take_adjust_self (vs : List OVal) (k : Nat) : (adjust vs (some k)).take k = adjust vs (some k) :=
  List.take_of_length_le (by rw [adjust_length]; exact Nat.le_refl _)

theorem sim_emit (hL : Live p w (.run c) s (.deliver vs)) (hch : s.chain = c :: rest)
    (hfr : (w.th c).frames = f :: fs) (hst : Stack (w.th c) (s.co c) f fs) (l : String) (want : Want) (ra : Nat)
    (hr : f.recv = .emit l want ra) (hlb : f.localBase ≤ ra) (hle : ra ≤ (w.th c).reg.length)
    (hvs : (w.th c).reg.drop ra = adjust vs want) :
    Sim p (step Cfg.fixed p w (.run c)).1 (step Cfg.fixed p w (.run c)).2
      (CoSpec.step p s (.deliver vs)).1 (CoSpec.step p s (.deliver vs)).2 := by
  obtain ⟨c', rest0, hch', hcur, hwc, hcN, hcw, hcs, _, _, hbase, hrun, _⟩ := hL.head
  rw [hch] at hch'; injection hch' with e1 e2; subst e1 e2
  have hxs : (match want with
            | none => Except.ok ((w.th c).reg.drop ra)
            | some k => readRegs (w.th c).reg ra k) = .ok (adjust vs want) := by
    cases want with
    | none => simp only [hvs]
    | some k =>
      simp only [readRegs]
      have hlen : (w.th c).reg.length = ra + k := by
        have := congrArg List.length hvs
        rw [List.length_drop, adjust_length] at this; omega
      rw [if_pos (by omega), hvs, take_adjust_self]
  rw [mstep_emit Cfg.fixed p w c f fs l want ra _ hfr hst.ok.notG hr hxs,
    sstep_emit p s c vs (kfOf f) (fs.map kfOf) l want hcur hst.k (by simp [kfOf, recvOf, hr])]
  have htr : ((w.setTh c { w.th c with frames := { f with recv := .none } :: fs }).emit l (adjust vs want)).trace =
      s.trace.emit l (adjust vs want) := by
    show w.trace.emit _ _ = _; rw [hL.trace]
  refine ⟨htr, Or.inr ?_⟩
  exact live_head_set hL hch rfl rfl rfl rfl htr rfl
    ⟨hbase.dead, hbase.cur, hbase.seen, hbase.wrapped, hbase.started⟩ hrun
    (.exec { f with recv := .none } fs rfl
      ⟨rfl, ⟨hst.ok.notG, hst.ok.gk, hst.ok.rb, hst.ok.code, trivial⟩, hst.call⟩ rfl (by
        show f.localBase ≤ (w.th c).reg.length; omega))

/-! ### the Go function `coResume` returns into the calling Lua frame (a stutter step of the Spec) -/

theorem mstep_gret (cfg : Cfg) (w : World) (t n : Nat) (g f : Frame) (ks : List Frame)
    (hfr : (w.th t).frames = g :: f :: ks) (hG : f.isG = false) :
    gReturn cfg w t n =
      (w.setTh t { w.th t with reg := copyRange (w.th t).reg g.returnBase ((w.th t).reg.length - n) (g.nret.getD n),
                               frames := f :: ks, cur := true }, .run t) := by
  simp only [gReturn, hfr, List.length_cons]
  rw [if_neg (by omega)]
  simp [hG]

theorem adjust_self (vs : List OVal) : adjust vs (some vs.length) = vs := by
  simp [adjust]

theorem sim_gret (hL : Live p w (.gret c n) s (.deliver vs)) (hch : s.chain = c :: rest) (g : Frame)
    (l : String) (want : Want) (ra : Nat)
    (hfr : (w.th c).frames = g :: f :: fs) (hst : Stack (w.th c) (s.co c) f fs)
    (hr : f.recv = .emit l want ra) (hlb : f.localBase ≤ ra)
    (hrb : g.returnBase = ra) (hnr : g.nret = want) (hn : n ≤ (w.th c).reg.length)
    (hvs : vs = (w.th c).reg.drop ((w.th c).reg.length - n)) :
    Sim p (step Cfg.fixed p w (.gret c n)).1 (step Cfg.fixed p w (.gret c n)).2 s (.deliver vs) := by
  obtain ⟨c', rest0, hch', hcur, hwc, hcN, hcw, hcs, _, _, hbase, hrun, _⟩ := hL.head
  rw [hch] at hch'; injection hch' with e1 e2; subst e1 e2
  show Sim p (gReturn Cfg.fixed w c n).1 (gReturn Cfg.fixed w c n).2 _ _
  rw [mstep_gret Cfg.fixed w c n g f fs hfr hst.ok.notG]
  refine ⟨hL.trace, Or.inr ?_⟩
  have hlen : vs.length = n := by rw [hvs, List.length_drop]; omega
  refine live_head hL hch (by simp) rfl hL.trace rfl rfl ?_ (fun _ _ => rfl) ?_ ?_ hrun ?_
  · intro x hx; exact th_setTh_ne _ _ _ _ (Ne.symm hx)
  · rw [th_setTh_eq _ _ _ hcw]
  · rw [th_setTh_eq _ _ _ hcw]
    exact ⟨hbase.dead, rfl, hbase.seen, hbase.wrapped, hbase.started⟩
  · rw [th_setTh_eq _ _ _ hcw]
    rw [copyRange_eq _ _ _ _ (by omega), ← hvs, hrb, hnr]
    refine .deliver f fs ra vs (by rfl) ⟨hst.k, hst.ok, hst.call⟩ (by rw [hr]; simp) (by rw [hr]; rfl) hlb
      (by simp [regSetTop_length]) ?_
    show (regSetTop (w.th c).reg ra ++ adjust vs (some (want.getD n))).drop ra = adjust vs (recvWant f.recv)
    rw [List.drop_left' (regSetTop_length _ _), hr]
    cases want with
    | none => show adjust vs (some n) = vs; rw [← hlen, adjust_self]
    | some k => rfl
end

/-! ### an ordinary Lua call: a new frame -/

section
variable {p : Prog} {w : World} {s : CoSpec.St} {c : Nat} {rest : List Nat} {f : Frame} {fs : List Frame}

theorem mstep_call (cfg : Cfg) (p : Prog) (w : World) (t g a : Nat) (vals : List OVal) (want : Want) (f : Frame)
    (ks : List Frame) (rest : List Act)
    (hfr : (w.th t).frames = f :: ks) (hG : f.isG = false) (hr : f.recv = .none)
    (hc : f.code = .call g a vals want :: rest) :
    step cfg p w (.run t) =
      enterLua p (w.setTh t
        { w.th t with
          reg := (initCallFrameLua ((regSetTop (w.th t).reg (f.localBase + a) ++ [none]) ++ vals)
                  { base := f.localBase + a, localBase := f.localBase + a + 1, returnBase := f.localBase + a,
                    nargs := vals.length, nret := want, fid := g, code := (p.fn g).acts }
                  (p.fn g).np (p.fn g).vararg (p.fn g).nused).1
          frames := (initCallFrameLua ((regSetTop (w.th t).reg (f.localBase + a) ++ [none]) ++ vals)
                  { base := f.localBase + a, localBase := f.localBase + a + 1, returnBase := f.localBase + a,
                    nargs := vals.length, nret := want, fid := g, code := (p.fn g).acts }
                  (p.fn g).np (p.fn g).vararg (p.fn g).nused).2 ::
                { f with idx := f.idx + 1, code := rest, recv := .emit (Co.lbl f.fid f.idx) want (f.localBase + a) } :: ks })
        t := by
  simp only [step, hfr, hr, hc]
  rw [if_neg (by rw [hG]; simp)]
  rfl

theorem sstep_call (p : Prog) (s : CoSpec.St) (c g a : Nat) (vals : List OVal) (want : Want) (kf : CoSpec.KF)
    (ks : List CoSpec.KF) (rest : List Act)
    (hcur : s.cur = c) (hc : c < s.cos.length) (hk : (s.co c).k = kf :: ks) (hrest : kf.rest = .call g a vals want :: rest) :
    CoSpec.step p s .exec =
      ({ (s.setCo c { s.co c with k := { fid := g, rest := (p.fn g).acts } ::
            { kf with idx := kf.idx + 1, rest := rest, recv := .emit (CoSpec.lbl kf.fid kf.idx) want false } :: ks }) with
          trace := s.trace.emit ("P" ++ toString g) (entryVals (p.fn g) vals) }, .exec) := by
  simp only [CoSpec.step, hcur, hk, hrest, CoSpec.enter]
  rw [co_setCo_eq _ _ _ hc]
  simp [CoSpec.St.setCo]

theorem sim_call (hp : okProg p = true) (hL : Live p w (.run c) s .exec) (hch : s.chain = c :: rest)
    (hfr : (w.th c).frames = f :: fs) (hst : Stack (w.th c) (s.co c) f fs) (hr : f.recv = .none)
    (hlb : f.localBase ≤ (w.th c).reg.length) (g a : Nat) (vals : List OVal) (want : Want) (rest' : List Act)
    (hcode : f.code = .call g a vals want :: rest') :
    Sim p (step Cfg.fixed p w (.run c)).1 (step Cfg.fixed p w (.run c)).2
      (CoSpec.step p s .exec).1 (CoSpec.step p s .exec).2 := by
  obtain ⟨c', rest0, hch', hcur, hwc, hcN, hcw, hcs, _, _, hbase, hrun, _⟩ := hL.head
  rw [hch] at hch'; injection hch' with e1 e2; subst e1 e2
  rw [mstep_call Cfg.fixed p w c g a vals want f fs rest' hfr hst.ok.notG hr hcode,
    sstep_call p s c g a vals want (kfOf f) (fs.map kfOf) rest' hcur hcs hst.k hcode]
  have hfn := okProg_fn p hp g
  -- the new frame
  let cf : Frame := { base := f.localBase + a, localBase := f.localBase + a + 1, returnBase := f.localBase + a,
                      nargs := vals.length, nret := want, fid := g, code := (p.fn g).acts }
  let pre := regSetTop (w.th c).reg (f.localBase + a) ++ [none]
  have hpre : pre.length = f.localBase + a + 1 := by simp [pre, regSetTop_length]
  have hbind := initCallFrameLua_binds pre vals cf (p.fn g).np (p.fn g).nused (p.fn g).vararg hpre.symm rfl rfl hfn.1
  simp only at hbind
  obtain ⟨_, _, _, hb4, hb5⟩ := hbind
  let fadv : Frame := { f with idx := f.idx + 1, code := rest', recv := .emit (Co.lbl f.fid f.idx) want (f.localBase + a) }
  let w1 := w.setTh c { w.th c with
      reg := (initCallFrameLua (pre ++ vals) cf (p.fn g).np (p.fn g).vararg (p.fn g).nused).1
      frames := (initCallFrameLua (pre ++ vals) cf (p.fn g).np (p.fn g).vararg (p.fn g).nused).2 :: fadv :: fs }
  have h1 : w1.th c = _ := th_setTh_eq _ _ _ hcw
  have hent := enterLua_after_init p w1 c pre vals cf (fadv :: fs) hpre.symm rfl rfl hfn.1
    (by rw [h1]) (by rw [h1])
  show Sim p (enterLua p w1 c).1 (enterLua p w1 c).2 _ _
  rw [hent]
  have htr : (w1.emit ("P" ++ toString cf.fid) (entryVals (p.fn cf.fid) vals)).trace =
      s.trace.emit ("P" ++ toString g) (entryVals (p.fn g) vals) := by
    show w.trace.emit _ _ = _; rw [hL.trace]
  refine ⟨htr, Or.inr ?_⟩
  refine live_head_set hL hch rfl rfl rfl rfl htr rfl
    ⟨hbase.dead, hbase.cur, hbase.seen, hbase.wrapped, hbase.started⟩ hrun
    (.exec (initCallFrameLua (pre ++ vals) cf (p.fn g).np (p.fn g).vararg (p.fn g).nused).2 (fadv :: fs) (by rfl)
      ⟨?_, ?_, ?_⟩ (by rw [hb5]) (by
        show _ ≤ (initCallFrameLua (pre ++ vals) cf (p.fn g).np (p.fn g).vararg (p.fn g).nused).1.length
        rw [hb4]; omega))
  · rw [hb5]; rfl
  · rw [hb5]
    refine ⟨rfl, rfl, ?_, hfn.2, trivial⟩
    show f.localBase + a ≤ if (p.fn g).vararg = true then pre.length + max vals.length (p.fn g).np else pre.length
    split <;> omega
  · rw [hb5]
    exact ⟨LuaOK_adv hst.ok _ _ _ hcode trivial, ⟨_, rfl⟩, by show f.localBase ≤ f.localBase + a; omega, hst.call⟩
end

/-! ### OP_RETURN -/

/-- the values `OP_RETURN A B` returns, as the register file holds them. -/
def RetVals (reg : List OVal) (ra b : Nat) (vals : List OVal) : Prop :=
  (b = 1 ∧ vals = []) ∨ (b ≠ 1 ∧ ra ≤ reg.length ∧ reg.drop ra = vals ∧ (b = 0 ∨ b = vals.length + 1))

theorem RetVals.nret {reg : List OVal} {ra b : Nat} {vals : List OVal} (h : RetVals reg ra b vals) :
    (if b = 0 then reg.length - ra else b - 1) = vals.length := by
  rcases h with ⟨h1, h2⟩ | ⟨h1, h2, h3, h4⟩
  · subst h1 h2; rfl
  · have : vals.length = reg.length - ra := by rw [← h3, List.length_drop]
    rcases h4 with h4 | h4
    · rw [if_pos h4]; omega
    · rw [if_neg (by omega)]; omega

theorem RetVals.copy {reg : List OVal} {ra b : Nat} {vals : List OVal} (h : RetVals reg ra b vals) (regv n : Nat) :
    copyReturnValues reg regv ra n b = regSetTop reg regv ++ adjust vals (some n) := by
  rcases h with ⟨h1, h2⟩ | ⟨h1, h2, h3, _⟩
  · subst h1 h2; simp [copyReturnValues, adjust_nil]
  · simp only [copyReturnValues, if_neg h1]
    rw [copyRange_eq _ _ _ _ h2, h3]

theorem mopReturn_caller (w : World) (t ra b : Nat) (f f' : Frame) (fs : List Frame) (vals : List OVal)
    (hfr : (w.th t).frames = f :: f' :: fs) (hG : f'.isG = false) (hv : RetVals (w.th t).reg ra b vals) :
    opReturn w t ra b =
      (w.setTh t { w.th t with
                   frames := f' :: fs
                   reg := regSetTop (w.th t).reg f.returnBase ++ adjust vals (some (f.nret.getD vals.length))
                   cur := true }, .run t) := by
  simp only [opReturn, hfr, List.length_cons, hv.nret]
  rw [if_neg (by omega), hv.copy]
  simp [hG]

theorem mopReturn_main (w : World) (t ra b : Nat) (f : Frame) (vals : List OVal)
    (hfr : (w.th t).frames = [f]) (hpar : (w.th t).parent = none) (hv : RetVals (w.th t).reg ra b vals)
    (hrb : f.returnBase = 0) (hnr : f.nret = none) :
    opReturn w t ra b =
      (w.setTh t { w.th t with frames := [], reg := vals, cur := false }, .fin ("R:" ++ showVals vals)) := by
  simp only [opReturn, hfr, hv.nret, hpar]
  rw [if_neg (by simp), hv.copy, hrb, hnr]
  simp [regSetTop, adjust_self]

theorem sdoReturn_caller (p : Prog) (s : CoSpec.St) (c : Nat) (vs : List OVal) (kf kf' : CoSpec.KF) (ks : List CoSpec.KF)
    (hcur : s.cur = c) (hk : (s.co c).k = kf :: kf' :: ks) :
    CoSpec.doReturn p s vs = (s.setCo c { s.co c with k := kf' :: ks }, .deliver vs) := by
  simp only [CoSpec.doReturn, hcur, hk, List.tail_cons]

theorem sdoReturn_main (p : Prog) (s : CoSpec.St) (vs : List OVal) (kf : CoSpec.KF)
    (hcur : s.cur = 0) (hk : (s.co 0).k = [kf]) :
    CoSpec.doReturn p s vs = (s.setCo 0 { s.co 0 with k := [] }, .fin ("R:" ++ showVals vs)) := by
  simp only [CoSpec.doReturn, hcur, hk, List.tail_cons]
  simp

section
variable {p : Prog} {w : World} {s : CoSpec.St} {c : Nat} {rest : List Nat} {f : Frame} {fs : List Frame}

/-- return into a calling Lua frame of the same thread. -/
theorem sim_return_caller (hL : Live p w (.run c) s .exec) (hch : s.chain = c :: rest)
    (hfr : (w.th c).frames = f :: fs) (hst : Stack (w.th c) (s.co c) f fs) (f' : Frame) (fs' : List Frame)
    (hfs : fs = f' :: fs') (ra b : Nat) (vals : List OVal) (hv : RetVals (w.th c).reg ra b vals) :
    Sim p (opReturn w c ra b).1 (opReturn w c ra b).2 (CoSpec.doReturn p s vals).1 (CoSpec.doReturn p s vals).2 := by
  obtain ⟨c', rest0, hch', hcur, hwc, hcN, hcw, hcs, _, _, hbase, hrun, _⟩ := hL.head
  rw [hch] at hch'; injection hch' with e1 e2; subst e1 e2
  subst hfs
  obtain ⟨hok', ⟨l, hrecv⟩, hlb', hcall'⟩ := hst.call
  rw [mopReturn_caller w c ra b f f' fs' vals hfr hok'.notG hv,
    sdoReturn_caller p s c vals (kfOf f) (kfOf f') (fs'.map kfOf) hcur hst.k]
  refine ⟨hL.trace, Or.inr ?_⟩
  refine live_head_set hL hch rfl rfl rfl rfl hL.trace rfl
    ⟨hbase.dead, rfl, hbase.seen, hbase.wrapped, hbase.started⟩ hrun
    (.deliver f' fs' f.returnBase vals (by rfl) ⟨rfl, hok', hcall'⟩ (by rw [hrecv]; simp) (by rw [hrecv]; rfl) hlb'
      (by simp [regSetTop_length]) ?_)
  show (regSetTop (w.th c).reg f.returnBase ++ adjust vals (some (f.nret.getD vals.length))).drop f.returnBase = _
  rw [List.drop_left' (regSetTop_length _ _), hrecv]
  cases hn : f.nret with
  | none => show adjust vals (some vals.length) = _; rw [adjust_self]; rfl
  | some k => rfl

/-- the main chunk returns: both machines finish with the same results. -/
theorem sim_return_main (hL : Live p w (.run c) s .exec) (hch : s.chain = c :: rest)
    (hfr : (w.th c).frames = f :: fs) (hst : Stack (w.th c) (s.co c) f fs)
    (hfs : fs = []) (hc0 : c = 0) (ra b : Nat) (vals : List OVal) (hv : RetVals (w.th c).reg ra b vals) :
    Sim p (opReturn w c ra b).1 (opReturn w c ra b).2 (CoSpec.doReturn p s vals).1 (CoSpec.doReturn p s vals).2 := by
  obtain ⟨c', rest0, hch', hcur, hwc, hcN, hcw, hcs, _, htail, hbase, hrun, _⟩ := hL.head
  rw [hch] at hch'; injection hch' with e1 e2; subst e1 e2
  subst hfs hc0
  have hpar : (w.th 0).parent = none := by
    cases rest with
    | nil => exact htail.2
    | cons c' r => exact absurd rfl htail.1
  obtain ⟨hrb, hnr⟩ := hst.call
  rw [mopReturn_main w 0 ra b f vals hfr hpar hv hrb hnr, sdoReturn_main p s vals (kfOf f) hcur hst.k]
  exact ⟨hL.trace, Or.inl ⟨_, rfl, rfl, Or.inl ⟨_, rfl⟩⟩⟩
end

/-! ### switching back to the resumer (yield, return of the body, uncaught error) -/

theorem afterThreadRun_resume (w : World) (pp k : Nat) (g : Frame) (ks : List Frame)
    (hcur : (w.th pp).cur = true) (hfr : (w.th pp).frames = g :: ks) (hgk : g.gk = .resume k) :
    afterThreadRun w pp = (w, .gret pp ((w.th pp).getTop - k)) := by
  simp [afterThreadRun, Thread.curFrame, hcur, hfr, hgk]

theorem back_co_eq (s : CoSpec.St) (c pp : Nat) (rest0 : List Nat) (hch : s.chain = c :: pp :: rest0)
    (hpp : pp < s.cos.length) : (CoSpec.back s).co pp = { s.co pp with st := .running } := by
  simp only [CoSpec.back, CoSpec.St.cur, hch, List.tail_cons, List.headD_cons]
  rw [co_setCo_eq _ _ _ (by simpa using hpp)]
  rfl

theorem back_co_ne (s : CoSpec.St) (c pp x : Nat) (rest0 : List Nat) (hch : s.chain = c :: pp :: rest0)
    (hx : x ≠ pp) : (CoSpec.back s).co x = s.co x := by
  simp only [CoSpec.back, CoSpec.St.cur, hch, List.tail_cons, List.headD_cons]
  rw [co_setCo_ne _ _ _ _ (Ne.symm hx)]
  rfl

/-- a "normal" thread whose `coResume` finds `xs` on top of its stack when the resumed coroutine switches back. -/
theorem normal_receive {T : Thread} {C : CoSpec.Co} {d : CoDef} (hn : NormalT T C d) (xs : List OVal) (pp : Nat) :
    ∃ ghead grest, T.frames = ghead :: grest ∧ ghead.gk = .resume 1 ∧
      ({ T with reg := T.reg ++ xs } : Thread).getTop - 1 = xs.length ∧
      HeadRel pp { T with reg := T.reg ++ xs } { C with st := .running } (.gret pp xs.length) (.deliver xs) := by
  obtain ⟨hb, _, hshape⟩ := hn
  rcases hshape with ⟨g, f, fs, want, ra, hfr, hstk, hrecv, hlb, hgG, hgrb, hglb, hgnr, hggk, hlen⟩ |
    ⟨inner, pc, f, fs, l, want, ra, hfr, hstk, hrecv, hlb, hpc, hiG, hirb, hilb, hinr, higk, hlen⟩
  · refine ⟨g, f :: fs, hfr, hggk, ?_, ?_⟩
    · have hlbase : ({ T with reg := T.reg ++ xs } : Thread).lbase = ra + 1 := by
        have := (lbase_of_cur ({ T with reg := T.reg ++ xs } : Thread) g (f :: fs) hb.cur hfr).1
        rw [this, hglb]
      simp only [Thread.getTop, hlbase, List.length_append, hlen]; omega
    · have := HeadRel.gret (t := pp) (T := { T with reg := T.reg ++ xs }) (C := { C with st := .running }) g f fs want ra
        xs.length hfr ⟨hstk.k, hstk.ok, hstk.call⟩ hrecv hlb hgG hgrb hgnr
        (by simp only [List.length_append]; omega)
      simp only [List.length_append, Nat.add_sub_cancel, List.drop_left] at this
      exact this
  · refine ⟨inner, pc :: f :: fs, hfr, higk, ?_, ?_⟩
    · have hlbase : ({ T with reg := T.reg ++ xs } : Thread).lbase = ra + 2 := by
        have := (lbase_of_cur ({ T with reg := T.reg ++ xs } : Thread) inner (pc :: f :: fs) hb.cur hfr).1
        rw [this, hilb]
      simp only [Thread.getTop, hlbase, List.length_append, hlen]; omega
    · have := HeadRel.gretInner (t := pp) (T := { T with reg := T.reg ++ xs }) (C := { C with st := .running })
        inner pc f fs l want ra xs.length hfr ⟨hstk.k, hstk.ok, hstk.call⟩ hrecv hlb hpc hiG hirb hinr
        (by simp only [List.length_append]; omega)
      simp only [List.length_append, Nat.add_sub_cancel, List.drop_left] at this
      exact this

theorem mem_kfOfP_NoProt_false (f : Frame) : NoProt (kfOfP f false) := NoProt_kfOf f

/-- a "normal" thread in which the error of a wrapped coroutine is re-raised (or a refused wrapped call raises). -/
theorem normal_raise {T : Thread} {C : CoSpec.Co} {d : CoDef} (hn : NormalT T C d) (v : OVal) (pp : Nat) :
    HeadRel pp T { C with st := .running } (.raise pp v) (.raise v true) := by
  obtain ⟨hb, _, hshape⟩ := hn
  rcases hshape with ⟨g, f, fs, want, ra, hfr, hstk, hrecv, hlb, hgG, hgrb, hglb, hgnr, hggk, hlen⟩ |
    ⟨inner, pc, f, fs, l, want, ra, hfr, hstk, hrecv, hlb, hpc, hiG, hirb, hilb, hinr, higk, hlen⟩
  · refine .raise v true g (f :: fs) hfr (by rw [hgrb, hglb]; omega) (by rw [hglb, hlen]; omega) ?_ ?_ ?_
    · intro f' hf
      rw [hfr] at hf
      cases hf with
      | head => rw [hggk]; simp
      | tail _ hf =>
        cases hf with
        | head => rw [hstk.ok.gk]; simp
        | tail _ hf => exact Callers_gk hstk.call f' hf
    · show C.k ≠ []
      rw [hstk.k]; simp
    · intro kf hkf
      have : kf ∈ C.k := hkf
      rw [hstk.k] at this
      cases this with
      | head => exact NoProt_kfOf f
      | tail _ hm =>
        obtain ⟨f', _, rfl⟩ := List.mem_map.mp hm
        exact NoProt_kfOf f'
  · exact .raiseP v inner pc f fs l want ra hfr ⟨hstk.k, hstk.ok, hstk.call⟩ hrecv hlb hpc (by rw [higk]; simp)

theorem sim_back {p : Prog} {w : World} {s : CoSpec.St} {mc : Co.Ctl} {sc : CoSpec.Ctl} {c : Nat} {rest : List Nat}
    (hL : Live p w mc s sc) (hch : s.chain = c :: rest) (hc0 : c ≠ 0)
    (T1 : Thread) (g : Frame) (ks : List Frame) (n : Nat) (he kill : Bool) (Cc : CoSpec.Co)
    (hfr : T1.frames = g :: ks) (hcur : T1.cur = true) (hpar : T1.parent = (w.th c).parent)
    (hwr : T1.wrapped = (p.co c).wrapped)
    (hlb : g.localBase ≤ T1.reg.length) (hoff : g.localBase - g.returnBase ≤ T1.reg.length - min n T1.getTop)
    (hidle : Idle p { T1 with parent := none, yieldNRet := g.nret, frames := ks, cur := !ks.isEmpty,
                              reg := T1.reg.take (T1.reg.length - min n T1.getTop - (g.localBase - g.returnBase)),
                              dead := T1.dead || kill } Cc (p.co c)) :
    ∃ pp w2 n', switchToParentThread (w.setTh c T1) c n he kill = .ok w2 ∧ (w.th c).parent = some pp ∧
      afterThreadRun w2 pp = (w2, .gret pp n') ∧
      Live p w2 (.gret pp n') (CoSpec.back (s.setCo c Cc))
        (.deliver ((if (p.co c).wrapped then [] else [some (.bool !he)]) ++
                    T1.reg.drop (T1.reg.length - min n T1.getTop))) := by
  obtain ⟨c', rest0, hch', hscur, hwc, hcN, hcw, hcs, hnotin, htail, hbase, hrun, _⟩ := hL.head
  rw [hch] at hch'; injection hch' with e1 e2; subst e1 e2
  cases rest with
  | nil => exact absurd htail.1 hc0
  | cons pp rest0 =>
  obtain ⟨_, hparc, hppN, hnorm, htail'⟩ := htail
  have hppw : pp < w.threads.length := by rw [hL.lenw]; exact hppN
  have hpps : pp < s.cos.length := by rw [hL.lens]; exact hppN
  have hcpp : c ≠ pp := fun e => hnotin (e ▸ List.mem_cons_self ..)
  have hbpp := hnorm.1
  let w1 := w.setTh c T1
  have h1c : w1.th c = T1 := th_setTh_eq _ _ _ hcw
  have h1pp : w1.th pp = w.th pp := th_setTh_ne _ _ _ _ hcpp
  obtain ⟨w2, hsw, h2cur, h2len, h2tr, h2pp, h2c, h2oth⟩ :=
    switch_full w1 c pp n he kill g ks (by simpa [w1] using hcw) (by simpa [w1] using hppw) hcpp
      (by rw [h1c, hpar, hparc]) (by rw [h1c]; exact hcur) (by rw [h1c]; exact hfr) (by rw [h1c]; exact hlb)
      (by rw [h1c]; exact hoff)
  rw [h1c, h1pp] at h2pp
  rw [h1c] at h2c
  rw [hwr] at h2pp
  -- the values the resumer's coResume finds on its stack
  let xs := (if (p.co c).wrapped then [] else [some (.bool !he)]) ++ T1.reg.drop (T1.reg.length - min n T1.getTop)
  have h2pp' : w2.th pp = { w.th pp with reg := (w.th pp).reg ++ xs } := by
    rw [h2pp]; simp [xs, List.append_assoc]
  obtain ⟨ghead, grest, hfrp, hggk, hn', hheadrel⟩ := normal_receive hnorm xs pp
  have h2ppfr : (w2.th pp).frames = ghead :: grest := by rw [h2pp']; exact hfrp
  have h2ppcur : (w2.th pp).cur = true := by rw [h2pp']; exact hbpp.cur
  refine ⟨pp, w2, xs.length, hsw, hparc, ?_, ?_⟩
  · rw [afterThreadRun_resume w2 pp 1 ghead grest h2ppcur h2ppfr hggk, h2pp', hn']
  · have hch1 : (s.setCo c Cc).chain = c :: pp :: rest0 := hch
    have hs'pp : (CoSpec.back (s.setCo c Cc)).co pp = { s.co pp with st := .running } := by
      rw [back_co_eq _ c pp rest0 hch1 (by simpa using hpps), co_setCo_ne _ _ _ _ hcpp]
    have hs'c : (CoSpec.back (s.setCo c Cc)).co c = Cc := by
      rw [back_co_ne _ c pp c rest0 hch1 hcpp, co_setCo_eq _ _ _ hcs]
    have hs'oth : ∀ x, x ≠ c → x ≠ pp → (CoSpec.back (s.setCo c Cc)).co x = s.co x := by
      intro x h1 h2
      rw [back_co_ne _ c pp x rest0 hch1 h2, co_setCo_ne _ _ _ _ (Ne.symm h1)]
    refine live_back hL hch (by rw [h2len]; simp [w1]) (by simp [CoSpec.back]) ?_ h2cur ?_ ?_ hs'oth ?_ ?_ ?_ ?_ ?_
    · rw [h2tr]; show w.trace = _; rw [hL.trace]; simp [CoSpec.back]
    · simp [CoSpec.back, hch]
    · intro x hx1 hx2
      rw [h2oth x hx1 hx2]; exact th_setTh_ne _ _ _ _ (Ne.symm hx1)
    · rw [h2pp']
    · rw [h2c, hs'c]; exact ⟨rfl, hidle⟩
    · rw [h2pp', hs'pp]; exact ⟨hbpp.dead, hbpp.cur, hbpp.seen, hbpp.wrapped, hbpp.started⟩
    · rw [hs'pp]
    · rw [h2pp', hs'pp]; exact hheadrel

theorem setCo_setCo (s : CoSpec.St) (c : Nat) (x y : CoSpec.Co) : (s.setCo c x).setCo c y = s.setCo c y := by
  simp [CoSpec.St.setCo, List.set_set]

/-! ### the body returns: the coroutine dies, its resumer's `coResume` gets (true,) values -/

theorem mopReturn_body (w w' : World) (t ra b pp : Nat) (f : Frame) (vals : List OVal)
    (hfr : (w.th t).frames = [f]) (hpar : (w.th t).parent = some pp) (hv : RetVals (w.th t).reg ra b vals)
    (hnr : f.nret = none)
    (hsw : switchToParentThread (w.setTh t { w.th t with reg := (w.th t).reg ++ vals }) t vals.length false true
            = .ok w') :
    opReturn w t ra b = afterThreadRun w' pp := by
  simp only [opReturn, hfr, hv.nret, hpar, hnr]
  rw [if_pos (by simp), hv.copy]
  simp only [Option.getD_none, regSetTop_of_le _ _ (Nat.le_refl _), List.take_length, adjust_self, Option.getD_some]
  have e : ({ w.th t with reg := (w.th t).reg ++ vals } : Thread) =
      { reg := (w.th t).reg ++ vals, frames := [f], cur := (w.th t).cur, parent := some pp, dead := (w.th t).dead,
        wrapped := (w.th t).wrapped, yieldNRet := (w.th t).yieldNRet, seen := (w.th t).seen } := by
    rw [← hfr, ← hpar]
  rw [e] at hsw
  rw [hsw]

theorem sdoReturn_body (p : Prog) (s : CoSpec.St) (c : Nat) (vs : List OVal) (kf : CoSpec.KF)
    (hcur : s.cur = c) (hc0 : c ≠ 0) (hk : (s.co c).k = [kf]) :
    CoSpec.doReturn p s vs =
      (CoSpec.back (s.setCo c { s.co c with k := [], st := .dead }),
       .deliver (if (p.co c).wrapped then vs else some (.bool true) :: vs)) := by
  simp only [CoSpec.doReturn, hcur, hk, List.tail_cons]
  rw [if_neg hc0]

section
variable {p : Prog} {w : World} {s : CoSpec.St} {c : Nat} {rest : List Nat} {f : Frame} {fs : List Frame}

theorem sim_return_body (hL : Live p w (.run c) s .exec) (hch : s.chain = c :: rest)
    (hfr : (w.th c).frames = f :: fs) (hst : Stack (w.th c) (s.co c) f fs)
    (hlb : f.localBase ≤ (w.th c).reg.length)
    (hfs : fs = []) (hc0 : c ≠ 0) (ra b : Nat) (vals : List OVal) (hv : RetVals (w.th c).reg ra b vals) :
    Sim p (opReturn w c ra b).1 (opReturn w c ra b).2 (CoSpec.doReturn p s vals).1 (CoSpec.doReturn p s vals).2 := by
  obtain ⟨c', rest0, hch', hcur, hwc, hcN, hcw, hcs, _, htail, hbase, hrun, _⟩ := hL.head
  rw [hch] at hch'; injection hch' with e1 e2; subst e1 e2
  subst hfs
  obtain ⟨hrb, hnr⟩ := hst.call
  have hlbase : (w.th c).lbase = f.localBase := (lbase_of_cur _ f [] hbase.cur hfr).1
  let T1 : Thread := { w.th c with reg := (w.th c).reg ++ vals }
  have hT1top : T1.getTop = (w.th c).reg.length + vals.length - f.localBase := by
    show ((w.th c).reg ++ vals).length - T1.lbase = _
    rw [show T1.lbase = f.localBase from hlbase, List.length_append]
  have hmin : min vals.length T1.getTop = vals.length := by rw [hT1top]; omega
  have hT1len : T1.reg.length = (w.th c).reg.length + vals.length := by simp [T1]
  obtain ⟨pp, w2, n', hsw, hpar, hafter, hlive⟩ := sim_back hL hch hc0 T1 f [] vals.length false true
    { s.co c with k := [], st := .dead } hfr hbase.cur rfl hbase.wrapped
    (by rw [hT1len]; omega) (by rw [hmin, hT1len]; omega)
    (Or.inr (Or.inl ⟨by simp, rfl, hbase.seen, hbase.wrapped, rfl, hbase.started⟩))
  rw [mopReturn_body w w2 c ra b pp f vals hfr hpar hv hnr hsw, sdoReturn_body p s c vals (kfOf f) hcur hc0 hst.k,
    hafter]
  rw [hmin, hT1len] at hlive
  have hdrop : T1.reg.drop ((w.th c).reg.length + vals.length - vals.length) = vals := by
    show ((w.th c).reg ++ vals).drop _ = _
    rw [Nat.add_sub_cancel, List.drop_left]
  rw [hdrop] at hlive
  have hflag : ((if (p.co c).wrapped = true then [] else [some (Val.bool !false)]) ++ vals) =
      (if (p.co c).wrapped = true then vals else some (Val.bool true) :: vals) := by
    split <;> rfl
  rw [hflag] at hlive
  exact ⟨hlive.trace, Or.inr hlive⟩
end

section
variable {p : Prog} {w : World} {s : CoSpec.St} {c : Nat} {rest : List Nat} {f : Frame} {fs : List Frame}

/-- all three shapes of OP_RETURN. -/
theorem sim_return (hL : Live p w (.run c) s .exec) (hch : s.chain = c :: rest)
    (hfr : (w.th c).frames = f :: fs) (hst : Stack (w.th c) (s.co c) f fs)
    (hlb : f.localBase ≤ (w.th c).reg.length) (ra b : Nat) (vals : List OVal) (hv : RetVals (w.th c).reg ra b vals) :
    Sim p (opReturn w c ra b).1 (opReturn w c ra b).2 (CoSpec.doReturn p s vals).1 (CoSpec.doReturn p s vals).2 := by
  cases hfs : fs with
  | nil =>
    by_cases hc0 : c = 0
    · exact sim_return_main hL hch hfr hst hfs hc0 ra b vals hv
    · exact sim_return_body hL hch hfr hst hlb hfs hc0 ra b vals hv
  | cons f' fs' => exact sim_return_caller hL hch hfr hst f' fs' hfs ra b vals hv

theorem mstep_retnil (cfg : Cfg) (p : Prog) (w : World) (t : Nat) (f : Frame) (ks : List Frame)
    (hfr : (w.th t).frames = f :: ks) (hG : f.isG = false) (hr : f.recv = .none) (hc : f.code = []) :
    step cfg p w (.run t) = opReturn w t f.localBase 1 := by
  simp only [step, hfr, hG, hr, hc]
  rfl

theorem sstep_retnil (p : Prog) (s : CoSpec.St) (c : Nat) (kf : CoSpec.KF) (ks : List CoSpec.KF)
    (hcur : s.cur = c) (hk : (s.co c).k = kf :: ks) (hrest : kf.rest = []) :
    CoSpec.step p s .exec = CoSpec.doReturn p s [] := by
  simp only [CoSpec.step, hcur, hk, hrest]

theorem sim_retnil (hL : Live p w (.run c) s .exec) (hch : s.chain = c :: rest)
    (hfr : (w.th c).frames = f :: fs) (hst : Stack (w.th c) (s.co c) f fs) (hr : f.recv = .none)
    (hlb : f.localBase ≤ (w.th c).reg.length) (hcode : f.code = []) :
    Sim p (step Cfg.fixed p w (.run c)).1 (step Cfg.fixed p w (.run c)).2
      (CoSpec.step p s .exec).1 (CoSpec.step p s .exec).2 := by
  have hcur : s.cur = c := by simp [CoSpec.St.cur, hch]
  rw [mstep_retnil Cfg.fixed p w c f fs hfr hst.ok.notG hr hcode,
    sstep_retnil p s c (kfOf f) (fs.map kfOf) hcur hst.k hcode]
  exact sim_return hL hch hfr hst hlb f.localBase 1 [] (Or.inl ⟨rfl, rfl⟩)

theorem mstep_ret (cfg : Cfg) (p : Prog) (w : World) (t a : Nat) (vals : List OVal) (f : Frame) (ks : List Frame)
    (rest : List Act)
    (hfr : (w.th t).frames = f :: ks) (hG : f.isG = false) (hr : f.recv = .none) (hc : f.code = .ret a vals :: rest) :
    step cfg p w (.run t) =
      opReturn (w.setTh t { w.th t with
                             frames := { f with idx := f.idx + 1, code := rest, recv := .none } :: ks
                             reg := regSetTop (w.th t).reg (f.localBase + a) ++ vals }) t (f.localBase + a)
        (vals.length + 1) := by
  simp only [step, hfr, hr, hc]
  rw [if_neg (by rw [hG]; simp)]
  rfl

theorem sstep_ret (p : Prog) (s : CoSpec.St) (c a : Nat) (vals : List OVal) (kf : CoSpec.KF) (ks : List CoSpec.KF)
    (rest : List Act)
    (hcur : s.cur = c) (hk : (s.co c).k = kf :: ks) (hrest : kf.rest = .ret a vals :: rest) :
    CoSpec.step p s .exec =
      CoSpec.doReturn p (s.setCo c { s.co c with k := { kf with idx := kf.idx + 1, rest := rest, recv := .none } :: ks })
        vals := by
  simp only [CoSpec.step, hcur, hk, hrest]

theorem sim_ret (hL : Live p w (.run c) s .exec) (hch : s.chain = c :: rest)
    (hfr : (w.th c).frames = f :: fs) (hst : Stack (w.th c) (s.co c) f fs) (hr : f.recv = .none)
    (hlb : f.localBase ≤ (w.th c).reg.length) (a : Nat) (vals : List OVal) (rest' : List Act)
    (hcode : f.code = .ret a vals :: rest') :
    Sim p (step Cfg.fixed p w (.run c)).1 (step Cfg.fixed p w (.run c)).2
      (CoSpec.step p s .exec).1 (CoSpec.step p s .exec).2 := by
  obtain ⟨c', rest0, hch', hcur, hwc, hcN, hcw, hcs, _, _, hbase, hrun, _⟩ := hL.head
  rw [hch] at hch'; injection hch' with e1 e2; subst e1 e2
  rw [mstep_ret Cfg.fixed p w c a vals f fs rest' hfr hst.ok.notG hr hcode,
    sstep_ret p s c a vals (kfOf f) (fs.map kfOf) rest' hcur hst.k hcode]
  let fadv : Frame := { f with idx := f.idx + 1, code := rest', recv := .none }
  let T1 : Thread := { w.th c with frames := fadv :: fs, reg := regSetTop (w.th c).reg (f.localBase + a) ++ vals }
  have hstk : Stack T1 { s.co c with k := kfOf fadv :: fs.map kfOf } fadv fs :=
    ⟨rfl, LuaOK_adv hst.ok _ _ _ hcode trivial, hst.call⟩
  have hlen1 : T1.reg.length = f.localBase + a + vals.length := by simp [T1, regSetTop_length]
  have hL1 : Live p (w.setTh c T1) (.run c)
      (s.setCo c { s.co c with k := kfOf fadv :: fs.map kfOf }) .exec :=
    live_head_set hL hch rfl rfl rfl rfl hL.trace rfl
      ⟨hbase.dead, hbase.cur, hbase.seen, hbase.wrapped, hbase.started⟩ hrun
      (.exec fadv fs (by rfl) hstk rfl (by rw [hlen1]; show f.localBase ≤ _; omega))
  have h1 : (w.setTh c T1).th c = T1 := th_setTh_eq _ _ _ hcw
  have h2 : (s.setCo c { s.co c with k := kfOf fadv :: fs.map kfOf }).co c = _ := co_setCo_eq _ _ _ hcs
  refine sim_return hL1 hch (by rw [h1]) (by rw [h1, h2]; exact hstk) (by rw [h1, hlen1]; show f.localBase ≤ _; omega)
    (f.localBase + a) (vals.length + 1) vals ?_
  rw [h1]
  cases vals with
  | nil => exact Or.inl ⟨rfl, rfl⟩
  | cons v vs =>
    refine Or.inr ⟨by simp, by rw [hlen1]; omega, ?_, Or.inr rfl⟩
    show (regSetTop (w.th c).reg (f.localBase + a) ++ v :: vs).drop _ = _
    rw [List.drop_left' (regSetTop_length _ _)]

theorem mstep_tailret (cfg : Cfg) (p : Prog) (w : World) (t ra : Nat) (f : Frame) (ks : List Frame)
    (hfr : (w.th t).frames = f :: ks) (hG : f.isG = false) (hr : f.recv = .tailret ra) :
    step cfg p w (.run t) =
      opReturn (w.setTh t { w.th t with frames := { f with recv := .none } :: ks }) t ra 0 := by
  simp only [step, hfr, hr]
  rw [if_neg (by rw [hG]; simp)]

theorem sstep_tailret (p : Prog) (s : CoSpec.St) (c : Nat) (vs : List OVal) (kf : CoSpec.KF) (ks : List CoSpec.KF)
    (hcur : s.cur = c) (hk : (s.co c).k = kf :: ks) (hrecv : kf.recv = .tailret) :
    CoSpec.step p s (.deliver vs) =
      CoSpec.doReturn p (s.setCo c { s.co c with k := { kf with recv := .none } :: ks }) vs := by
  simp only [CoSpec.step, hcur, hk, hrecv]

theorem sim_tailret (hL : Live p w (.run c) s (.deliver vs)) (hch : s.chain = c :: rest)
    (hfr : (w.th c).frames = f :: fs) (hst : Stack (w.th c) (s.co c) f fs) (ra : Nat)
    (hr : f.recv = .tailret ra) (hlb : f.localBase ≤ ra) (hle : ra ≤ (w.th c).reg.length)
    (hvs : (w.th c).reg.drop ra = adjust vs none) :
    Sim p (step Cfg.fixed p w (.run c)).1 (step Cfg.fixed p w (.run c)).2
      (CoSpec.step p s (.deliver vs)).1 (CoSpec.step p s (.deliver vs)).2 := by
  obtain ⟨c', rest0, hch', hcur, hwc, hcN, hcw, hcs, _, _, hbase, hrun, _⟩ := hL.head
  rw [hch] at hch'; injection hch' with e1 e2; subst e1 e2
  rw [mstep_tailret Cfg.fixed p w c ra f fs hfr hst.ok.notG hr,
    sstep_tailret p s c vs (kfOf f) (fs.map kfOf) hcur hst.k (by simp [kfOf, recvOf, hr])]
  let f1 : Frame := { f with recv := .none }
  let T1 : Thread := { w.th c with frames := f1 :: fs }
  have hstk : Stack T1 { s.co c with k := kfOf f1 :: fs.map kfOf } f1 fs :=
    ⟨rfl, ⟨hst.ok.notG, hst.ok.gk, hst.ok.rb, hst.ok.code, trivial⟩, hst.call⟩
  have hL1 : Live p (w.setTh c T1) (.run c) (s.setCo c { s.co c with k := kfOf f1 :: fs.map kfOf }) .exec :=
    live_head_set hL hch rfl rfl rfl rfl hL.trace rfl
      ⟨hbase.dead, hbase.cur, hbase.seen, hbase.wrapped, hbase.started⟩ hrun
      (.exec f1 fs (by rfl) hstk rfl (by show f.localBase ≤ (w.th c).reg.length; omega))
  have h1 : (w.setTh c T1).th c = T1 := th_setTh_eq _ _ _ hcw
  have h2 : (s.setCo c { s.co c with k := kfOf f1 :: fs.map kfOf }).co c = _ := co_setCo_eq _ _ _ hcs
  refine sim_return hL1 hch (by rw [h1]) (by rw [h1, h2]; exact hstk)
    (by rw [h1]; show f.localBase ≤ (w.th c).reg.length; omega) ra 0 vs ?_
  rw [h1]
  exact Or.inr ⟨by simp, hle, hvs, Or.inl rfl⟩
end

/-! ### yield -/

/-- the thread right before `switchToParentThread` in a (tail-)called `coroutine.yield(vals)`. -/
def yieldT (T : Thread) (f : Frame) (rest : List Act) (ks : List Frame) (tail : Bool) (a : Nat) (vals : List OVal)
    (want : Want) : Thread :=
  { T with
    reg := regSetTop T.reg (f.localBase + a) ++ [none] ++ vals
    cur := true
    frames := { isG := true, base := f.localBase + a, localBase := f.localBase + a + 1, returnBase := f.localBase + a,
                nargs := vals.length, nret := if tail then none else want, gk := .yield } ::
              { f with idx := f.idx + 1, code := rest,
                       recv := if tail then .tailret (f.localBase + a)
                               else .emit (Co.lbl f.fid f.idx) want (f.localBase + a) } :: ks }

theorem yieldT_getTop (T : Thread) (f : Frame) (rest : List Act) (ks : List Frame) (tail : Bool) (a : Nat)
    (vals : List OVal) (want : Want) : (yieldT T f rest ks tail a vals want).getTop = vals.length := by
  simp [yieldT, Thread.getTop, Thread.lbase, Thread.curFrame, regSetTop_length]
  omega

theorem mstep_yield_ok (p : Prog) (w w' : World) (t a : Nat) (tail : Bool) (vals : List OVal) (want : Want) (f : Frame)
    (ks : List Frame) (rest : List Act)
    (hfr : (w.th t).frames = f :: ks) (hG : f.isG = false) (hr : f.recv = .none)
    (hc : f.code = .yield tail a vals want :: rest)
    (hsw : switchToParentThread (w.setTh t (yieldT (w.th t) f rest ks tail a vals want)) t vals.length false false
            = .ok w') :
    step Cfg.fixed p w (.run t) = afterThreadRun w' ((w.th t).parent.getD 0) := by
  simp only [step, hfr, hr, hc]
  rw [if_neg (by rw [hG]; simp)]
  cases tail with
  | true =>
    simp only [if_true, pushG, advance, Cfg.fixed]
    simp only [yieldT, if_true] at hsw
    simp only [Thread.getTop, Thread.lbase, Thread.curFrame, if_true, List.head?_cons, List.length_append,
      regSetTop_length, List.length_cons, List.length_nil]
    rw [show f.localBase + a + (0 + 1) + vals.length - (f.localBase + a + 1) = vals.length by omega]
    rw [hsw]
  | false =>
    simp only [Bool.false_eq_true, if_false, pushG, advance]
    simp only [yieldT, Bool.false_eq_true, if_false] at hsw
    simp only [Thread.getTop, Thread.lbase, Thread.curFrame, if_true, List.head?_cons, List.length_append,
      regSetTop_length, List.length_cons, List.length_nil]
    rw [show f.localBase + a + (0 + 1) + vals.length - (f.localBase + a + 1) = vals.length by omega]
    rw [hsw]

theorem mstep_yield_outside (p : Prog) (w : World) (t a : Nat) (tail : Bool) (vals : List OVal) (want : Want) (f : Frame)
    (ks : List Frame) (rest : List Act) (ht : t < w.threads.length)
    (hfr : (w.th t).frames = f :: ks) (hG : f.isG = false) (hr : f.recv = .none)
    (hc : f.code = .yield tail a vals want :: rest) (hpar : (w.th t).parent = none) :
    step Cfg.fixed p w (.run t) =
      (w.setTh t (yieldT (w.th t) f rest ks tail a vals want), .raise t (sym "outside")) := by
  have hsw : ∀ n, switchToParentThread (w.setTh t (yieldT (w.th t) f rest ks tail a vals want)) t n false false
      = .error (.luaError "outside") := by
    intro n
    simp only [switchToParentThread]
    rw [th_setTh_eq _ _ _ ht]
    simp [yieldT, hpar]
  simp only [step, hfr, hr, hc]
  rw [if_neg (by rw [hG]; simp)]
  cases tail with
  | true =>
    simp only [if_true, pushG, advance, Cfg.fixed]
    have := hsw
    simp only [yieldT, if_true] at this
    rw [this]
    rfl
  | false =>
    simp only [Bool.false_eq_true, if_false, pushG, advance]
    have := hsw
    simp only [yieldT, Bool.false_eq_true, if_false] at this
    rw [this]
    rfl

theorem sstep_yield (p : Prog) (s : CoSpec.St) (c a : Nat) (tail : Bool) (vals : List OVal) (want : Want)
    (kf : CoSpec.KF) (ks : List CoSpec.KF) (rest : List Act)
    (hcur : s.cur = c) (hc0 : c ≠ 0) (hk : (s.co c).k = kf :: ks) (hrest : kf.rest = .yield tail a vals want :: rest) :
    CoSpec.step p s .exec =
      (CoSpec.back (s.setCo c { s.co c with
          k := { kf with idx := kf.idx + 1, rest := rest,
                         recv := if tail then .tailret else .emit (CoSpec.lbl kf.fid kf.idx) want false } :: ks
          st := .suspended }),
       .deliver (if (p.co c).wrapped then vals else some (.bool true) :: vals)) := by
  have hcs : c < s.cos.length ∨ s.cos.length ≤ c := Nat.lt_or_ge _ _
  simp only [CoSpec.step, hcur, hk, hrest]
  rw [if_neg hc0]
  rcases hcs with hcs | hcs
  · rw [co_setCo_eq _ _ _ hcs, setCo_setCo]
  · -- out of range: setCo is the identity
    have e : ∀ x : CoSpec.Co, s.setCo c x = s := by
      intro x; simp [CoSpec.St.setCo, List.set_eq_of_length_le hcs]
    simp only [e]

theorem sstep_yield_outside (p : Prog) (s : CoSpec.St) (a : Nat) (tail : Bool) (vals : List OVal) (want : Want)
    (kf : CoSpec.KF) (ks : List CoSpec.KF) (rest : List Act)
    (hcur : s.cur = 0) (hk : (s.co 0).k = kf :: ks) (hrest : kf.rest = .yield tail a vals want :: rest) :
    CoSpec.step p s .exec =
      (s.setCo 0 { s.co 0 with k := { kf with idx := kf.idx + 1, rest := rest, recv := .none } :: ks },
       .raise (sym "outside") false) := by
  simp only [CoSpec.step, hcur, hk, hrest]
  simp

section
variable {p : Prog} {w : World} {s : CoSpec.St} {c : Nat} {rest : List Nat} {f : Frame} {fs : List Frame}

theorem sim_yield (hL : Live p w (.run c) s .exec) (hch : s.chain = c :: rest)
    (hfr : (w.th c).frames = f :: fs) (hst : Stack (w.th c) (s.co c) f fs) (hr : f.recv = .none)
    (hlb : f.localBase ≤ (w.th c).reg.length) (tail : Bool) (a : Nat) (vals : List OVal) (want : Want)
    (rest' : List Act) (hcode : f.code = .yield tail a vals want :: rest') (hc0 : c ≠ 0) :
    Sim p (step Cfg.fixed p w (.run c)).1 (step Cfg.fixed p w (.run c)).2
      (CoSpec.step p s .exec).1 (CoSpec.step p s .exec).2 := by
  obtain ⟨c', rest0, hch', hcur, hwc, hcN, hcw, hcs, _, _, hbase, hrun, _⟩ := hL.head
  rw [hch] at hch'; injection hch' with e1 e2; subst e1 e2
  let T1 := yieldT (w.th c) f rest' fs tail a vals want
  let ra := f.localBase + a
  let fadv : Frame := { f with idx := f.idx + 1, code := rest',
                               recv := if tail then .tailret ra else .emit (Co.lbl f.fid f.idx) want ra }
  let g : Frame := { isG := true, base := ra, localBase := ra + 1, returnBase := ra,
                     nargs := vals.length, nret := if tail then none else want, gk := .yield }
  have hT1fr : T1.frames = g :: fadv :: fs := rfl
  have hT1len : T1.reg.length = ra + 1 + vals.length := by
    simp [T1, yieldT, regSetTop_length, ra]
    omega
  have hT1top : T1.getTop = vals.length := yieldT_getTop ..
  have hmin : min vals.length T1.getTop = vals.length := by rw [hT1top]; exact Nat.min_self _
  let kadv : CoSpec.KF := { kfOf f with
      idx := (kfOf f).idx + 1
      rest := rest'
      recv := if tail then .tailret else .emit (CoSpec.lbl (kfOf f).fid (kfOf f).idx) want false }
  let Cc : CoSpec.Co := { s.co c with k := kadv :: fs.map kfOf, st := .suspended }
  have hkf : kfOf fadv = kadv := by
    cases tail <;> rfl
  have hreg' : T1.reg.take (T1.reg.length - min vals.length T1.getTop - (g.localBase - g.returnBase))
      = regSetTop (w.th c).reg ra := by
    rw [hmin, hT1len]
    show ((regSetTop (w.th c).reg ra ++ [none]) ++ vals).take _ = _
    rw [show ra + 1 + vals.length - vals.length - (ra + 1 - ra) = ra by omega, List.append_assoc]
    rw [List.take_left' (regSetTop_length _ _)]
  obtain ⟨pp, w2, n', hsw, hpar, hafter, hlive⟩ := sim_back hL hch hc0 T1 g (fadv :: fs) vals.length false false Cc
    hT1fr rfl rfl hbase.wrapped (by rw [hT1len]; show ra + 1 ≤ _; omega)
    (by rw [hmin, hT1len]; show ra + 1 - ra ≤ _; omega)
    (Or.inr (Or.inr ⟨⟨by simp [T1, yieldT, hbase.dead], rfl, hbase.seen, hbase.wrapped, hbase.started⟩, rfl, rfl,
      fadv, fs, rfl, ⟨by show kadv :: _ = kfOf fadv :: _; rw [hkf], LuaOK_adv hst.ok _ _ _ hcode (by cases tail <;> trivial), hst.call⟩,
      by cases tail <;> simp [fadv], by
        rw [hreg', regSetTop_length]; cases tail <;> rfl,
      by cases tail <;> rfl, by
        rw [hreg', regSetTop_length]; show f.localBase ≤ f.localBase + a; omega⟩))
  rw [mstep_yield_ok p w w2 c a tail vals want f fs rest' hfr hst.ok.notG hr hcode hsw,
    sstep_yield p s c a tail vals want (kfOf f) (fs.map kfOf) rest' hcur hc0 hst.k hcode, hpar]
  show Sim p (afterThreadRun w2 pp).1 (afterThreadRun w2 pp).2 _ _
  rw [hafter]
  rw [hmin, hT1len] at hlive
  have hdrop : T1.reg.drop (ra + 1 + vals.length - vals.length) = vals := by
    show ((regSetTop (w.th c).reg ra ++ [none]) ++ vals).drop _ = _
    rw [Nat.add_sub_cancel, List.drop_left' (by simp [regSetTop_length])]
  rw [hdrop] at hlive
  have hflag : ((if (p.co c).wrapped = true then [] else [some (Val.bool !false)]) ++ vals) =
      (if (p.co c).wrapped = true then vals else some (Val.bool true) :: vals) := by
    split <;> rfl
  rw [hflag] at hlive
  exact ⟨hlive.trace, Or.inr hlive⟩

/-- `coroutine.yield` outside a coroutine: the error "attempt to yield from outside a coroutine" is raised. -/
theorem sim_yield_outside (hL : Live p w (.run c) s .exec) (hch : s.chain = c :: rest)
    (hfr : (w.th c).frames = f :: fs) (hst : Stack (w.th c) (s.co c) f fs) (hr : f.recv = .none)
    (hlb : f.localBase ≤ (w.th c).reg.length) (tail : Bool) (a : Nat) (vals : List OVal) (want : Want)
    (rest' : List Act) (hcode : f.code = .yield tail a vals want :: rest') (hc0 : c = 0) :
    Sim p (step Cfg.fixed p w (.run c)).1 (step Cfg.fixed p w (.run c)).2
      (CoSpec.step p s .exec).1 (CoSpec.step p s .exec).2 := by
  obtain ⟨c', rest0, hch', hcur, hwc, hcN, hcw, hcs, _, htail, hbase, hrun, _⟩ := hL.head
  rw [hch] at hch'; injection hch' with e1 e2; subst e1 e2
  subst hc0
  have hpar : (w.th 0).parent = none := by
    cases rest with
    | nil => exact htail.2
    | cons c' r => exact absurd rfl htail.1
  rw [mstep_yield_outside p w 0 a tail vals want f fs rest' hcw hfr hst.ok.notG hr hcode hpar,
    sstep_yield_outside p s a tail vals want (kfOf f) (fs.map kfOf) rest' hcur hst.k hcode]
  refine ⟨hL.trace, Or.inr ?_⟩
  refine live_head_set hL hch rfl rfl rfl rfl hL.trace rfl
    ⟨hbase.dead, rfl, hbase.seen, hbase.wrapped, hbase.started⟩ hrun
    (.raise _ false _ _ (by rfl) (by show f.localBase + a ≤ f.localBase + a + 1; omega)
      (by simp [yieldT, regSetTop_length]) ?_ (by simp) ?_)
  · intro g hg
    simp only [yieldT] at hg
    cases hg with
    | head => simp
    | tail _ hg =>
      cases hg with
      | head => show f.gk ≠ _; rw [hst.ok.gk]; simp
      | tail _ hg => exact Callers_gk hst.call g hg
  · intro kf hkf
    cases hkf with
    | head => intro l want h; cases h
    | tail _ hkf =>
      obtain ⟨f', _, rfl⟩ := List.mem_map.mp hkf
      exact NoProt_kfOf f'
end

/-! ### errors -/

/-- what the Spec does with an error no activation of coroutine `c` catches: the main chunk ends with the error;
    a coroutine dies and its resumer gets (false, v), or — for a wrapped coroutine — the same error is raised in it. -/
def sdie (p : Prog) (s : CoSpec.St) (c : Nat) (v : OVal) : CoSpec.St × CoSpec.Ctl :=
  if c = 0 then (s.setCo c { s.co c with k := [] }, .fin ("X:" ++ OVal.show v))
  else if (p.co c).wrapped then (CoSpec.back (s.setCo c { s.co c with k := [], st := .dead }), .raise v true)
  else (CoSpec.back (s.setCo c { s.co c with k := [], st := .dead }), .deliver [some (.bool false), v])

theorem sstep_raise_last (p : Prog) (s : CoSpec.St) (c : Nat) (v : OVal) (b : Bool) (kf : CoSpec.KF)
    (hcur : s.cur = c) (hk : (s.co c).k = [kf]) (hnp : NoProt kf) :
    CoSpec.step p s (.raise v b) = sdie p s c v := by
  simp only [CoSpec.step, hcur, hk, sdie]
  cases b with
  | false => split <;> simp_all
  | true =>
    cases hr : kf.recv with
    | emit l want prot =>
      cases prot with
      | true => exact absurd hr (hnp l want)
      | false => simp only []
    | none => simp only []
    | tailret => simp only []
    | forin l j nv => simp only []

theorem sstep_raise_pop (p : Prog) (s : CoSpec.St) (c : Nat) (v : OVal) (b : Bool) (kf kf' : CoSpec.KF)
    (ks : List CoSpec.KF) (hcur : s.cur = c) (hk : (s.co c).k = kf :: kf' :: ks) (hnp : NoProt kf) :
    CoSpec.step p s (.raise v b) = (s.setCo c { s.co c with k := kf' :: ks }, .raise v true) := by
  simp only [CoSpec.step, hcur, hk]
  cases b with
  | false => rfl
  | true =>
    cases hr : kf.recv with
    | emit l want prot =>
      cases prot with
      | true => exact absurd hr (hnp l want)
      | false => rfl
    | none => rfl
    | tailret => rfl
    | forin l j nv => rfl

theorem sdie_setk (p : Prog) (s : CoSpec.St) (c : Nat) (v : OVal) (K : List CoSpec.KF) (hc : c < s.cos.length) :
    sdie p (s.setCo c { s.co c with k := K }) c v = sdie p s c v := by
  simp only [sdie, co_setCo_eq _ _ _ hc, setCo_setCo]

/-- the Spec unwinds the activations one by one; after as many steps as there are activations the coroutine dies. -/
theorem sraise_unwind (p : Prog) (c : Nat) (v : OVal) (k : List CoSpec.KF) :
    ∀ (s : CoSpec.St) (b : Bool), s.cur = c → c < s.cos.length → (s.co c).k = k → k ≠ [] → (∀ kf ∈ k, NoProt kf) →
      CoSpec.run p k.length s (.raise v b) = sdie p s c v := by
  induction k with
  | nil => intro s b _ _ _ h; exact absurd rfl h
  | cons kf ks ih =>
    intro s b hcur hc hk _ hnp
    cases ks with
    | nil =>
      show CoSpec.run p 1 s _ = _
      rw [srun_one, sstep_raise_last p s c v b kf hcur hk (hnp kf (List.mem_cons_self ..))]
    | cons kf' ks' =>
      show CoSpec.run p ((kf' :: ks').length + 1) s _ = _
      simp only [CoSpec.run]
      rw [sstep_raise_pop p s c v b kf kf' ks' hcur hk (hnp kf (List.mem_cons_self ..))]
      rw [ih (s.setCo c { s.co c with k := kf' :: ks' }) true (by simpa [CoSpec.St.cur] using hcur)
        (by simpa using hc) (by rw [co_setCo_eq _ _ _ hc]) (by simp)
        (fun x hx => hnp x (List.mem_cons_of_mem _ hx))]
      exact sdie_setk p s c v _ hc

theorem drop_takeWhile_all {α} (q : α → Bool) (l : List α) (h : ∀ x ∈ l, q x = true) :
    l.drop (l.takeWhile q).length = [] := by
  rw [takeWhile_all q l h, List.drop_length]

theorem mdoRaise_main (cfg : Cfg) (w : World) (v : OVal)
    (hnp : ∀ f ∈ (w.th 0).frames, f.gk ≠ .pcall) (hpar : (w.th 0).parent = none) :
    doRaise cfg w 0 v = (w, .fin ("X:" ++ OVal.show v)) := by
  simp only [doRaise]
  rw [drop_takeWhile_all _ _ (fun f hf => by simpa using hnp f hf)]
  simp [hpar]

theorem mdoRaise_wrapped (w : World) (t pp : Nat) (v : OVal)
    (hnp : ∀ f ∈ (w.th t).frames, f.gk ≠ .pcall) (hpar : (w.th t).parent = some pp) (hw : (w.th t).wrapped = true) :
    doRaise Cfg.fixed w t v =
      ({ (w.setTh t { (w.th t).push v with parent := none, dead := true }) with current := pp }, .raise pp v) := by
  simp only [doRaise]
  rw [drop_takeWhile_all _ _ (fun f hf => by simpa using hnp f hf)]
  simp [hpar, hw, Cfg.fixed, Thread.push]

theorem mdoRaise_plain (cfg : Cfg) (w w' : World) (t pp : Nat) (v : OVal)
    (hnp : ∀ f ∈ (w.th t).frames, f.gk ≠ .pcall) (hpar : (w.th t).parent = some pp) (hw : (w.th t).wrapped = false)
    (hsw : switchToParentThread (w.setTh t (((w.th t).setTop 0).push v)) t 1 true true = .ok w') :
    doRaise cfg w t v = afterThreadRun w' pp := by
  simp only [doRaise]
  rw [drop_takeWhile_all _ _ (fun f hf => by simpa using hnp f hf)]
  simp only [hpar, hw, Bool.false_eq_true, if_false]
  rw [hsw]

section
variable {p : Prog} {w : World} {s : CoSpec.St} {c : Nat} {rest : List Nat}

/-- an uncaught error: one Model step (`threadRun`'s recover) against as many Spec steps as the coroutine has pending
    activations. -/
theorem sim_raise (hL : Live p w (.raise c v) s (.raise v b)) (hch : s.chain = c :: rest)
    (g : Frame) (ks : List Frame) (hfr : (w.th c).frames = g :: ks) (hrb : g.returnBase ≤ g.localBase)
    (hlb : g.localBase ≤ (w.th c).reg.length) (hnp : ∀ f ∈ (w.th c).frames, f.gk ≠ .pcall)
    (hk : (s.co c).k ≠ []) (hprot : ∀ kf ∈ (s.co c).k, NoProt kf) :
    ∃ m, m ≠ 0 ∧ Sim p (step Cfg.fixed p w (.raise c v)).1 (step Cfg.fixed p w (.raise c v)).2
      (CoSpec.run p m s (.raise v b)).1 (CoSpec.run p m s (.raise v b)).2 := by
  obtain ⟨c', rest0, hch', hcur, hwc, hcN, hcw, hcs, hnotin, htail, hbase, hrun, _⟩ := hL.head
  rw [hch] at hch'; injection hch' with e1 e2; subst e1 e2
  refine ⟨(s.co c).k.length, by
    cases hkk : (s.co c).k with
    | nil => exact absurd hkk hk
    | cons a r => simp, ?_⟩
  rw [sraise_unwind p c v (s.co c).k s b hcur hcs rfl hk hprot]
  show Sim p (doRaise Cfg.fixed w c v).1 (doRaise Cfg.fixed w c v).2 _ _
  by_cases hc0 : c = 0
  · -- the main chunk fails
    subst hc0
    have hpar : (w.th 0).parent = none := by
      cases rest with
      | nil => exact htail.2
      | cons c' r => exact absurd rfl htail.1
    rw [mdoRaise_main Cfg.fixed w v hnp hpar]
    simp only [sdie, if_true]
    exact ⟨hL.trace, Or.inl ⟨_, rfl, rfl, Or.inr ⟨_, rfl⟩⟩⟩
  · cases rest with
    | nil => exact absurd htail.1 hc0
    | cons pp rest0 =>
    obtain ⟨_, hparc, hppN, hnorm, htail'⟩ := htail
    have hcpp : c ≠ pp := fun e => hnotin (e ▸ List.mem_cons_self ..)
    have hppw : pp < w.threads.length := by rw [hL.lenw]; exact hppN
    have hpps : pp < s.cos.length := by rw [hL.lens]; exact hppN
    cases hw : (p.co c).wrapped with
    | true =>
      -- wrapped: the same error is raised in the resumer
      rw [mdoRaise_wrapped w c pp v hnp hparc (by rw [hbase.wrapped, hw])]
      simp only [sdie, if_neg hc0, hw, if_true]
      have hbpp := hnorm.1
      let Cc : CoSpec.Co := { s.co c with k := [], st := .dead }
      have hch1 : (s.setCo c Cc).chain = c :: pp :: rest0 := hch
      have hs'pp : (CoSpec.back (s.setCo c Cc)).co pp = { s.co pp with st := .running } := by
        rw [back_co_eq _ c pp rest0 hch1 (by simpa using hpps), co_setCo_ne _ _ _ _ hcpp]
      have hs'c : (CoSpec.back (s.setCo c Cc)).co c = Cc := by
        rw [back_co_ne _ c pp c rest0 hch1 hcpp, co_setCo_eq _ _ _ hcs]
      have hs'oth : ∀ x, x ≠ c → x ≠ pp → (CoSpec.back (s.setCo c Cc)).co x = s.co x := by
        intro x h1 h2
        rw [back_co_ne _ c pp x rest0 hch1 h2, co_setCo_ne _ _ _ _ (Ne.symm h1)]
      let T' : Thread := { (w.th c).push v with parent := none, dead := true }
      let w' : World := { (w.setTh c T') with current := pp }
      have hw'c : w'.th c = T' := th_setTh_eq _ _ _ hcw
      have hw'x : ∀ x, x ≠ c → w'.th x = w.th x := fun x hx => th_setTh_ne _ _ _ _ (Ne.symm hx)
      have htr : w'.trace = (CoSpec.back (s.setCo c Cc)).trace := by
        show w.trace = _; rw [hL.trace]; simp [CoSpec.back]
      refine ⟨htr, Or.inr ?_⟩
      refine live_back hL hch (by simp [w']) (by simp [CoSpec.back]) htr rfl (by simp [CoSpec.back, hch])
        (fun x h1 _ => hw'x x h1) hs'oth (by rw [hw'x pp (Ne.symm hcpp)]) ?_ ?_ ?_ ?_
      · rw [hw'c, hs'c]
        exact ⟨rfl, Or.inr (Or.inl ⟨rfl, rfl, hbase.seen, hbase.wrapped, rfl, hbase.started⟩)⟩
      · rw [hw'x pp (Ne.symm hcpp), hs'pp]
        exact ⟨hbpp.dead, hbpp.cur, hbpp.seen, hbpp.wrapped, hbpp.started⟩
      · rw [hs'pp]
      · rw [hw'x pp (Ne.symm hcpp), hs'pp]
        exact normal_raise hnorm v pp
    | false =>
      -- plain: the resumer's coResume gets (false, v)
      have hlbase : (w.th c).lbase = g.localBase := (lbase_of_cur _ g ks hbase.cur hfr).1
      let T1 : Thread := ((w.th c).setTop 0).push v
      have hT1reg : T1.reg = (w.th c).reg.take g.localBase ++ [v] := by
        simp only [T1, Thread.push, Thread.setTop, hlbase, Nat.add_zero]
        rw [regSetTop_of_le _ _ hlb]
      have hT1len : T1.reg.length = g.localBase + 1 := by
        rw [hT1reg]; simp; exact Nat.min_eq_left hlb
      have hT1lb : T1.lbase = g.localBase := (lbase_of_cur T1 g ks hbase.cur hfr).1
      have hT1top : T1.getTop = 1 := by simp only [Thread.getTop, hT1lb, hT1len]; omega
      have hmin : min 1 T1.getTop = 1 := by rw [hT1top]; rfl
      obtain ⟨pp', w2, n', hsw, hpar', hafter, hlive⟩ := sim_back hL hch hc0 T1 g ks 1 true true
        { s.co c with k := [], st := .dead } hfr hbase.cur rfl (by show (w.th c).wrapped = _; exact hbase.wrapped)
        (by rw [hT1len]; omega) (by rw [hmin, hT1len]; omega)
        (Or.inr (Or.inl ⟨by simp, rfl, hbase.seen, hbase.wrapped, rfl, hbase.started⟩))
      rw [hparc] at hpar'; injection hpar' with hpar'; subst hpar'
      rw [mdoRaise_plain Cfg.fixed w w2 c pp v hnp hparc (by rw [hbase.wrapped, hw]) hsw, hafter]
      simp only [sdie, if_neg hc0, hw, Bool.false_eq_true, if_false]
      rw [hmin, hT1len, hw] at hlive
      have hdrop : T1.reg.drop (g.localBase + 1 - 1) = [v] := by
        rw [hT1reg, Nat.add_sub_cancel, List.drop_left' (by simp; exact Nat.min_eq_left hlb)]
      rw [hdrop] at hlive
      exact ⟨hlive.trace, Or.inr hlive⟩
end

end GLua.CoSim
