/-
  compile_fragment_wf, part 7: a certificate on PATCHED instruction lists (`XI` at every index) implies `wf` of the
  prototype assembled from them (`toProto`).  Pure encoder / verifier reasoning, no compile model.
-/
import GLua.Proofs.CompileWfEncode
import GLua.Proofs.CompileWfVerifier

namespace GLua.CompileWf
open GLua GLua.Compile GLua.MiniVM GLua.Verifier GLua.Generated GLua.Proofs.Verifier

variable [NumStruct]
set_option linter.unusedSectionVars false

/-- what the patched instruction `x` at index `pc` must satisfy: `M` = highest register (NumUsedRegisters - 1),
    `N` = code length, `cs` = constant pool, `code` = the patched code (for MOVEN's followers). -/
def XI (cs : List Konst) (M N : Nat) (code : List Instr) (pc : Nat) : Instr → Prop
  | .move a b => a ≤ M ∧ b ≤ M ∧ pc + 1 < N
  | .moven a b c => a ≤ M ∧ b ≤ M ∧ c ≤ 511 ∧ pc + 1 + c < N ∧
      ∀ k, k < c → ∃ a' b', code[pc + 1 + k]? = some (.move a' b') ∧ b' ≤ M
  | .loadk a bx => a ≤ M ∧ bx < cs.length ∧ pc + 1 < N
  | .loadbool a _ c => a ≤ M ∧ c ≤ 1 ∧ pc + 1 < N ∧ (c ≠ 0 → pc + 2 < N)
  | .loadnil a b => a = b ∧ b ≤ M ∧ pc + 1 < N
  | .not a b => a ≤ M ∧ b ≤ M ∧ pc + 1 < N
  | .test a _ _ => a ≤ M ∧ pc + 2 < N
  | .testset a b _ => a ≤ M ∧ b ≤ M ∧ pc + 2 < N
  | .eq a b c => a ≤ 1 ∧ RKR cs.length M b ∧ RKR cs.length M c ∧ pc + 2 < N
  | .lt a b c => a ≤ 1 ∧ RKR cs.length M b ∧ RKR cs.length M c ∧ pc + 2 < N
  | .le a b c => a ≤ 1 ∧ RKR cs.length M b ∧ RKR cs.length M c ∧ pc + 2 < N
  | .jmp d => 0 ≤ (pc : Int) + 1 + d ∧ (pc : Int) + 1 + d < N ∧ -131071 ≤ d ∧ d ≤ 131072
  | .nop _ => pc + 1 < N
  | .eval a id => a ≤ M ∧ (findIdx cs (gname id)).isSome = true ∧ pc + 1 < N
  | .setg a id => a ≤ M ∧ (findIdx cs (gname id)).isSome = true ∧ pc + 1 < N
  | .arith _ a b c => a ≤ M ∧ RKR cs.length M b ∧ RKR cs.length M c ∧ pc + 1 < N
  | .unm a b => a ≤ M ∧ b ≤ M ∧ pc + 1 < N
  | .len a b => a ≤ M ∧ b ≤ M ∧ pc + 1 < N
  | .concat a b c => a ≤ M ∧ b ≤ c ∧ c ≤ M ∧ pc + 1 < N
  | .ret a b => 1 ≤ b ∧ (2 ≤ b → a + b ≤ M + 2)
  | .abc op a b c => op = OP_VARARG ∧ a = 0 ∧ 2 ≤ b ∧ b ≤ M + 1 ∧ c = 0 ∧ pc + 1 < N

structure Cert (cs : List Konst) (code : List Instr) (nregs : Nat) : Prop where
  regs : nregs ≤ maxRegisters
  regs1 : 1 ≤ nregs
  consts : cs.length ≤ opMaxArgBx + 1
  xi : ∀ (pc : Nat) (x : Instr), code[pc]? = some x → XI cs (nregs - 1) code.length code pc x
  last : ∃ a b, code[code.length - 1]? = some (.ret a b)

/-- the opcode of an arithmetic operator (the `match` inside `encode`) -/
def arithOpc : ArithOp → Nat
  | .add => OP_ADD | .sub => OP_SUB | .mul => OP_MUL | .div => OP_DIV | .mod => OP_MOD | .pow => OP_POW

theorem arithOpc_range (op : ArithOp) : 15 ≤ arithOpc op ∧ arithOpc op ≤ 20 := by cases op <;> decide

theorem encode_arith (cs : List Konst) (op : ArithOp) (a b c : Nat) :
    encode cs (.arith op a b c) = wordABC (arithOpc op) a b c := by cases op <;> rfl

/-- the opcode field of an encoded instruction -/
def opOf : Instr → Nat
  | .move _ _ => 0 | .moven _ _ _ => 1 | .loadk _ _ => 2 | .loadbool _ _ _ => 3 | .loadnil _ _ => 4
  | .not _ _ => 22 | .test _ _ _ => 29 | .testset _ _ _ => 30 | .eq _ _ _ => 26 | .lt _ _ _ => 27 | .le _ _ _ => 28
  | .jmp _ => 25 | .nop _ => 41 | .eval _ _ => 6 | .setg _ _ => 9 | .ret _ _ => 33 | .abc op _ _ _ => op
  | .arith op _ _ _ => arithOpc op | .unm _ _ => 21 | .len _ _ => 23 | .concat _ _ _ => 24

theorem dec_op (cs : List Konst) (x : Instr) (h : opOf x < 64) : (decode (encode cs x)).op = opOf x := by
  cases x <;> simp only [opOf] at h ⊢ <;> simp only [encode]
  case jmp s => exact dec_ASbx_op _ _ _ (by decide)
  case nop s => exact dec_ASbx_op _ _ _ (by decide)
  case loadk => exact (dec_ABx _ _ _ (by decide)).1
  case eval => exact (dec_ABx _ _ _ (by decide)).1
  case setg => exact (dec_ABx _ _ _ (by decide)).1
  case abc => exact (dec_ABC _ _ _ _ h).1
  case arith op a b c => cases op <;> exact (dec_ABC _ _ _ _ (by decide)).1
  all_goals first | exact (dec_ABC _ _ _ _ (by decide)).1 | (simp only [encode]; exact (dec_ABC _ _ _ _ (by decide)).1)

theorem xi_op {cs : List Konst} {M N : Nat} {code : List Instr} {pc : Nat} {x : Instr} (h : XI cs M N code pc x) :
    opOf x < 64 ∧ opOf x ≠ 39 ∧ opOf x ≠ 37 := by
  cases x <;> simp only [opOf] <;> (try decide)
  case abc op a b c => simp only [XI] at h; rw [h.1]; decide
  case arith op a b c => have := arithOpc_range op; omega

/-- RK operand of the certificate → RK operand of the verifier -/
theorem rkGood_of {p : Proto} {n M x : Nat} (h : RKR n M x) (hM : M < p.numRegs) (hM2 : M < 256) (hn : n = p.consts.size) :
    x % 512 = x ∧ RKGood p x := by
  rcases h with h | ⟨h1, h2, h3⟩
  · exact ⟨by omega, Or.inl ⟨by omega, by omega⟩⟩
  · exact ⟨by omega, Or.inr ⟨h1, by omega, by omega⟩⟩

theorem cert_wf (n : Nat) (cs : List Konst) (code : List Instr) (nregs : Nat) (hc : Cert cs code nregs) :
    wf (toProto n cs code nregs) = true := by
  -- abbreviations
  generalize hp : toProto n cs code nregs = p
  have hsize : p.code.size = code.length := by rw [← hp]; exact toProto_code_size ..
  have hget : ∀ pc : Nat, p.code[pc]? = (code[pc]?).map (encode cs) := by intro pc; rw [← hp]; exact toProto_code_get ..
  have hnr : p.numRegs = nregs := by rw [← hp]; rfl
  have hks : p.consts.size = cs.length := by rw [← hp]; exact toProto_consts_size ..
  have hss : p.strConsts.size = cs.length := by rw [← hp]; exact toProto_strConsts_size ..
  have hmax : maxRegisters = 200 := rfl
  have hreg := hc.regs
  have hreg1 := hc.regs1
  have hM : nregs - 1 < p.numRegs := by omega
  have hM2 : nregs - 1 < 256 := by omega
  -- every word is its own group
  have hgl : ∀ j, j < p.code.size → groupLen p j = 1 := by
    intro j hj
    rw [hsize] at hj
    have hx : code[j]? = some code[j] := by simp [hj]
    obtain ⟨h1, h2, h3⟩ := xi_op (hc.xi j _ hx)
    have hw : p.code[j]? = some (encode cs code[j]) := by rw [hget, hx]; rfl
    exact groupLen_one hw (by rw [dec_op cs _ h1]; exact h2) (by rw [dec_op cs _ h1]; exact h3)
  obtain ⟨hsm, hall⟩ := startMap_all p hgl
  have hst : ∀ j : Nat, j < code.length → isSt (startMap p) j = true := fun j hj => hall j (by omega)
  have hstI : ∀ t : Int, 0 ≤ t → t < code.length → isSt (startMap p) t.toNat = true := fun t h0 h1 => hst _ (by omega)
  have hlen : 0 < code.length := by
    obtain ⟨a, b, h⟩ := hc.last
    by_cases h0 : 0 < code.length
    · exact h0
    · simp [List.getElem?_eq_none (by omega : code.length ≤ code.length - 1)] at h
  unfold wf wfWith
  rw [Bool.and_eq_true]
  constructor
  · -- header
    unfold headerOk
    simp only [Bool.and_eq_true, decide_eq_true_eq, List.all_eq_true, List.mem_range]
    obtain ⟨a, b, hl⟩ := hc.last
    refine ⟨⟨⟨⟨⟨⟨⟨⟨⟨⟨⟨⟨⟨?_, ?_⟩, ?_⟩, ?_⟩, ?_⟩, ?_⟩, ?_⟩, ?_⟩, ?_⟩, ?_⟩, ?_⟩, ?_⟩, ?_⟩, ?_⟩
    · omega
    · decide
    · rw [← hp]; show 0 < nregs; omega
    · rw [← hp]; rfl
    · rw [← hp]; simp [toProto]
    · have := hc.consts; omega
    · rw [← hp]; simp [toProto]
    · omega
    · intro k hk; rw [← hp]; exact toProto_consts_agree n cs code nregs k (by omega)
    · exact hsm
    · exact hst 0 hlen
    · omega
    · rw [hsize]; exact hst _ (by omega)
    · rw [hsize]
      unfold isOp
      rw [hget, hl]
      simp only [Option.map_some]
      have := (dec_ABC OP_RETURN a b 0 (by decide)).1
      simp only [decode] at this
      simp only [encode, this]; rfl
  · rw [List.all_eq_true]
    intro pc hpc
    rw [List.mem_range, hsize] at hpc
    have hx : code[pc]? = some code[pc] := by simp [hpc]
    have hxi := hc.xi pc _ hx
    have hw : p.code[pc]? = some (encode cs code[pc]) := by rw [hget, hx]; rfl
    have hso : startsOkAt p (startMap p) pc = true := startsOkAt_one (hgl pc (by omega)) (by omega) hall
    simp only [hst pc hpc, Bool.not_true, Bool.false_or, Bool.and_eq_true]
    refine ⟨⟨hso, ?_⟩, ?_⟩ <;> revert hxi hw <;> generalize code[pc] = x <;> intro hxi hw
    · -- stepOk
      have one : ∀ {t : Nat}, t < code.length → ∀ s ∈ [t], isSt (startMap p) s = true := by
        intro t ht s hs; rw [List.mem_singleton] at hs; subst hs; exact hst _ ht
      have two : pc + 2 < code.length → ∀ s ∈ [pc + 1, pc + 2], isSt (startMap p) s = true := by
        intro ht s hs
        simp only [List.mem_cons, List.not_mem_nil, or_false] at hs
        rcases hs with rfl | rfl
        · exact hst _ (by omega)
        · exact hst _ ht
      cases x <;> simp only [XI] at hxi
      case move a b =>
        have hd := dec_ABC OP_MOVE a b 0 (by decide)
        exact stepOk_of (step_move (w := wordABC OP_MOVE a b 0) hw hd.1 (by rw [hd.2.2.1]; omega)) (one hxi.2.2)
      case moven a b c =>
        have hd := dec_ABC OP_MOVEN a b c (by decide)
        have hcc : (decode (wordABC OP_MOVEN a b c)).c = c := by rw [hd.2.2.2]; omega
        refine stepOk_of (step_moven (w := wordABC OP_MOVEN a b c) hw hd.1 (by rw [hd.2.2.1]; omega) ?_) ?_
        · intro k hk
          rw [hcc] at hk
          obtain ⟨a', b', hk1, hk2⟩ := hxi.2.2.2.2 k hk
          refine ⟨encode cs (.move a' b'), by rw [hget, hk1]; rfl, ?_⟩
          have hd' := dec_ABC OP_MOVE a' b' 0 (by decide)
          show (decode (wordABC OP_MOVE a' b' 0)).b < p.numRegs
          rw [hd'.2.2.1]; omega
        · rw [hcc]; exact one hxi.2.2.2.1
      case loadk a bx =>
        have hd := dec_ABx OP_LOADK a bx (by decide)
        have := hc.consts
        exact stepOk_of (step_loadk (w := wordABx OP_LOADK a bx) hw hd.1 (by rw [hd.2.2]; simp only [opMaxArgBx] at this; omega)) (one hxi.2.2)
      case loadbool a b c =>
        have hd := dec_ABC OP_LOADBOOL a b c (by decide)
        have hcc : (decode (wordABC OP_LOADBOOL a b c)).c = c := by rw [hd.2.2.2]; omega
        refine stepOk_of (step_loadbool (w := wordABC OP_LOADBOOL a b c) hw hd.1) ?_
        rw [hcc]
        by_cases h0 : c = 0
        · simp only [h0, ne_eq, not_true_eq_false, if_false]; exact one hxi.2.2.1
        · simp only [ne_eq, h0, not_false_eq_true, if_true]; exact one (hxi.2.2.2 h0)
      case loadnil a b =>
        have hd := dec_ABC OP_LOADNIL a b 0 (by decide)
        exact stepOk_of (step_loadnil (w := wordABC OP_LOADNIL a b 0) hw hd.1) (one hxi.2.2)
      case not a b =>
        have hd := dec_ABC OP_NOT a b 0 (by decide)
        exact stepOk_of (step_not (w := wordABC OP_NOT a b 0) hw hd.1 (by rw [hd.2.2.1]; omega)) (one hxi.2.2)
      case test a b c =>
        have hd := dec_ABC OP_TEST a b c (by decide)
        exact stepOk_of (step_test (w := wordABC OP_TEST a b c) hw hd.1 (by rw [hd.2.1]; omega)) (two hxi.2)
      case testset a b c =>
        have hd := dec_ABC OP_TESTSET a b c (by decide)
        exact stepOk_of (step_testset (w := wordABC OP_TESTSET a b c) hw hd.1 (by rw [hd.2.2.1]; omega)) (two hxi.2.2)
      case eq a b c =>
        have hd := dec_ABC OP_EQ a b c (by decide)
        obtain ⟨hb1, hb2⟩ := rkGood_of (p := p) hxi.2.1 hM hM2 hks.symm
        obtain ⟨hc1, hc2⟩ := rkGood_of (p := p) hxi.2.2.1 hM hM2 hks.symm
        exact stepOk_of (step_cmp (w := wordABC OP_EQ a b c) hw (Or.inl hd.1) (by rw [hd.2.2.1, hb1]; exact hb2)
          (by rw [hd.2.2.2, hc1]; exact hc2)) (two hxi.2.2.2)
      case lt a b c =>
        have hd := dec_ABC OP_LT a b c (by decide)
        obtain ⟨hb1, hb2⟩ := rkGood_of (p := p) hxi.2.1 hM hM2 hks.symm
        obtain ⟨hc1, hc2⟩ := rkGood_of (p := p) hxi.2.2.1 hM hM2 hks.symm
        exact stepOk_of (step_cmp (w := wordABC OP_LT a b c) hw (Or.inr (Or.inl hd.1)) (by rw [hd.2.2.1, hb1]; exact hb2)
          (by rw [hd.2.2.2, hc1]; exact hc2)) (two hxi.2.2.2)
      case le a b c =>
        have hd := dec_ABC OP_LE a b c (by decide)
        obtain ⟨hb1, hb2⟩ := rkGood_of (p := p) hxi.2.1 hM hM2 hks.symm
        obtain ⟨hc1, hc2⟩ := rkGood_of (p := p) hxi.2.2.1 hM hM2 hks.symm
        exact stepOk_of (step_cmp (w := wordABC OP_LE a b c) hw (Or.inr (Or.inr hd.1)) (by rw [hd.2.2.1, hb1]; exact hb2)
          (by rw [hd.2.2.2, hc1]; exact hc2)) (two hxi.2.2.2)
      case jmp d =>
        have hd := dec_ASbx OP_JMP 0 d (by decide) ⟨hxi.2.2.1, hxi.2.2.2⟩
        refine stepOk_of (step_jmp (w := wordASbx OP_JMP 0 d) hw hd.1 (by rw [hd.2]; exact hxi.1)) ?_
        intro s hs
        rw [List.mem_singleton] at hs; subst hs
        rw [hd.2]
        exact hstI _ hxi.1 hxi.2.1
      case nop d =>
        have hd := dec_ASbx_op OP_NOP 0 d (by decide)
        exact stepOk_of (step_nop (w := wordASbx OP_NOP 0 d) hw hd) (one hxi)
      case eval a id =>
        obtain ⟨k, hk⟩ := Option.isSome_iff_exists.mp hxi.2.1
        have hklt := findIdx_lt hk
        have hd := dec_ABx OP_GETGLOBAL a k (by decide)
        have hw' : p.code[pc]? = some (wordABx OP_GETGLOBAL a k) := by rw [hw]; simp [encode, hk]
        have := hc.consts
        exact stepOk_of (step_getglobal hw' hd.1 (by rw [hd.2.2]; simp only [opMaxArgBx] at this; omega)) (one hxi.2.2)
      case setg a id =>
        obtain ⟨k, hk⟩ := Option.isSome_iff_exists.mp hxi.2.1
        have hklt := findIdx_lt hk
        have hd := dec_ABx OP_SETGLOBAL a k (by decide)
        have hw' : p.code[pc]? = some (wordABx OP_SETGLOBAL a k) := by rw [hw]; simp [encode, hk]
        have := hc.consts
        exact stepOk_of (step_setglobal hw' hd.1 (by rw [hd.2.2]; simp only [opMaxArgBx] at this; omega) (by rw [hd.2.1]; omega))
          (one hxi.2.2)
      case ret a b =>
        have hd := dec_ABC OP_RETURN a b 0 (by decide)
        exact stepOk_of (step_return (w := wordABC OP_RETURN a b 0) hw hd.1) (by intro s hs; simp at hs)
      case abc op a b c =>
        obtain ⟨rfl, rfl, hb2, hbM, rfl, hn⟩ := hxi
        have hd := dec_ABC OP_VARARG 0 b 0 (by decide)
        exact stepOk_of (step_vararg (w := wordABC OP_VARARG 0 b 0) hw hd.1) (one hn)
      case arith op a b c =>
        have hr := arithOpc_range op
        have hd := dec_ABC (arithOpc op) a b c (by omega)
        rw [encode_arith] at hw
        obtain ⟨hb1, hb2⟩ := rkGood_of (p := p) hxi.2.1 hM hM2 hks.symm
        obtain ⟨hc1, hc2⟩ := rkGood_of (p := p) hxi.2.2.1 hM hM2 hks.symm
        exact stepOk_of (step_arith hw (by rw [hd.1]; exact hr) (by rw [hd.2.2.1, hb1]; exact hb2)
          (by rw [hd.2.2.2, hc1]; exact hc2)) (one hxi.2.2.2)
      case unm a b =>
        have hd := dec_ABC OP_UNM a b 0 (by decide)
        exact stepOk_of (step_unm_len (w := wordABC OP_UNM a b 0) hw (Or.inl hd.1) (by rw [hd.2.2.1]; omega)
          (by rw [hd.2.2.1]; omega)) (one hxi.2.2)
      case len a b =>
        have hd := dec_ABC OP_LEN a b 0 (by decide)
        exact stepOk_of (step_unm_len (w := wordABC OP_LEN a b 0) hw (Or.inr hd.1) (by rw [hd.2.2.1]; omega)
          (by rw [hd.2.2.1]; omega)) (one hxi.2.2)
      case concat a b c =>
        have hd := dec_ABC OP_CONCAT a b c (by decide)
        exact stepOk_of (step_concat (w := wordABC OP_CONCAT a b c) hw hd.1 (by rw [hd.2.2.2]; omega)) (one hxi.2.2.2)
    · -- hyg
      cases x <;> simp only [XI] at hxi
      case move a b =>
        have hd := dec_ABC OP_MOVE a b 0 (by decide)
        exact hyg_move (w := wordABC OP_MOVE a b 0) hw hd.1 (by rw [hd.2.1]; omega) (by rw [hd.2.2.1]; omega)
      case moven a b c =>
        have hd := dec_ABC OP_MOVEN a b c (by decide)
        have hcc : (decode (wordABC OP_MOVEN a b c)).c = c := by rw [hd.2.2.2]; omega
        refine hyg_moven (w := wordABC OP_MOVEN a b c) hw hd.1 (by rw [hd.2.1]; omega) (by rw [hd.2.2.1]; omega) ?_
        intro k hk
        rw [hcc] at hk
        obtain ⟨a', b', hk1, _⟩ := hxi.2.2.2.2 k hk
        unfold isOp
        rw [hget, hk1]
        have hd' := (dec_ABC OP_MOVE a' b' 0 (by decide)).1
        simp only [decode] at hd'
        simp only [Option.map_some, encode, hd']; rfl
      case loadk a bx =>
        have hd := dec_ABx OP_LOADK a bx (by decide)
        have := hc.consts
        exact hyg_loadk (w := wordABx OP_LOADK a bx) hw hd.1 (by rw [hd.2.1]; omega)
          (by rw [hd.2.2]; simp only [opMaxArgBx] at this; omega)
      case loadbool a b c =>
        have hd := dec_ABC OP_LOADBOOL a b c (by decide)
        exact hyg_loadbool (w := wordABC OP_LOADBOOL a b c) hw hd.1 (by rw [hd.2.1]; omega)
      case loadnil a b =>
        have hd := dec_ABC OP_LOADNIL a b 0 (by decide)
        exact hyg_loadnil (w := wordABC OP_LOADNIL a b 0) hw hd.1 (by rw [hd.2.1]; omega) (by rw [hd.2.2.1]; omega)
          (by rw [hd.2.1, hd.2.2.1]; omega)
      case not a b =>
        have hd := dec_ABC OP_NOT a b 0 (by decide)
        exact hyg_not (w := wordABC OP_NOT a b 0) hw hd.1 (by rw [hd.2.1]; omega) (by rw [hd.2.2.1]; omega)
      case test a b c =>
        have hd := dec_ABC OP_TEST a b c (by decide)
        exact hyg_test (w := wordABC OP_TEST a b c) hw hd.1 (by rw [hd.2.1]; omega)
      case testset a b c =>
        have hd := dec_ABC OP_TESTSET a b c (by decide)
        exact hyg_testset (w := wordABC OP_TESTSET a b c) hw hd.1 (by rw [hd.2.1]; omega) (by rw [hd.2.2.1]; omega)
      case eq a b c =>
        have hd := dec_ABC OP_EQ a b c (by decide)
        obtain ⟨hb1, hb2⟩ := rkGood_of (p := p) hxi.2.1 hM hM2 hks.symm
        obtain ⟨hc1, hc2⟩ := rkGood_of (p := p) hxi.2.2.1 hM hM2 hks.symm
        exact hyg_cmp (w := wordABC OP_EQ a b c) hw (Or.inl hd.1) (by rw [hd.2.1]; omega) (by rw [hd.2.2.1, hb1]; exact hb2)
          (by rw [hd.2.2.2, hc1]; exact hc2)
      case lt a b c =>
        have hd := dec_ABC OP_LT a b c (by decide)
        obtain ⟨hb1, hb2⟩ := rkGood_of (p := p) hxi.2.1 hM hM2 hks.symm
        obtain ⟨hc1, hc2⟩ := rkGood_of (p := p) hxi.2.2.1 hM hM2 hks.symm
        exact hyg_cmp (w := wordABC OP_LT a b c) hw (Or.inr (Or.inl hd.1)) (by rw [hd.2.1]; omega) (by rw [hd.2.2.1, hb1]; exact hb2)
          (by rw [hd.2.2.2, hc1]; exact hc2)
      case le a b c =>
        have hd := dec_ABC OP_LE a b c (by decide)
        obtain ⟨hb1, hb2⟩ := rkGood_of (p := p) hxi.2.1 hM hM2 hks.symm
        obtain ⟨hc1, hc2⟩ := rkGood_of (p := p) hxi.2.2.1 hM hM2 hks.symm
        exact hyg_cmp (w := wordABC OP_LE a b c) hw (Or.inr (Or.inr hd.1)) (by rw [hd.2.1]; omega) (by rw [hd.2.2.1, hb1]; exact hb2)
          (by rw [hd.2.2.2, hc1]; exact hc2)
      case jmp d =>
        have hd := dec_ASbx_op OP_JMP 0 d (by decide)
        exact hyg_jmp (w := wordASbx OP_JMP 0 d) hw hd
      case nop d =>
        have hd := dec_ASbx_op OP_NOP 0 d (by decide)
        exact hyg_nop (w := wordASbx OP_NOP 0 d) hw hd
      case eval a id =>
        obtain ⟨k, hk⟩ := Option.isSome_iff_exists.mp hxi.2.1
        have hd := dec_ABx OP_GETGLOBAL a k (by decide)
        have hw' : p.code[pc]? = some (wordABx OP_GETGLOBAL a k) := by rw [hw]; simp [encode, hk]
        have hklt := findIdx_lt hk
        have := hc.consts
        have hbx : (decode (wordABx OP_GETGLOBAL a k)).bx = k := by rw [hd.2.2]; simp only [opMaxArgBx] at this; omega
        refine hyg_getglobal hw' hd.1 (by rw [hd.2.1]; omega) ?_
        rw [hbx, ← hp]
        exact toProto_isStr n cs code nregs k _ (Lowering.findIdx_some hk)
      case setg a id =>
        obtain ⟨k, hk⟩ := Option.isSome_iff_exists.mp hxi.2.1
        have hd := dec_ABx OP_SETGLOBAL a k (by decide)
        have hw' : p.code[pc]? = some (wordABx OP_SETGLOBAL a k) := by rw [hw]; simp [encode, hk]
        have hklt := findIdx_lt hk
        have := hc.consts
        have hbx : (decode (wordABx OP_SETGLOBAL a k)).bx = k := by rw [hd.2.2]; simp only [opMaxArgBx] at this; omega
        refine hyg_setglobal hw' hd.1 (by rw [hd.2.1]; omega) ?_
        rw [hbx, ← hp]
        exact toProto_isStr n cs code nregs k _ (Lowering.findIdx_some hk)
      case ret a b =>
        have hd := dec_ABC OP_RETURN a b 0 (by decide)
        refine hyg_return (w := wordABC OP_RETURN a b 0) hw hd.1 ?_
        rw [hd.2.1, hd.2.2.1]
        by_cases hb2 : 2 ≤ b
        · have := hxi.2 hb2
          constructor <;> intro _ <;> omega
        · have : b = 1 := by omega
          subst this
          constructor <;> intro h <;> omega
      case abc op a b c =>
        obtain ⟨rfl, rfl, hb2, hbM, rfl, hn⟩ := hxi
        have hd := dec_ABC OP_VARARG 0 b 0 (by decide)
        refine hyg_vararg (w := wordABC OP_VARARG 0 b 0) hw hd.1 ?_
        rw [hd.2.1, hd.2.2.1]
        refine ⟨fun h => by omega, fun h => by omega, fun _ => by omega⟩
      case arith op a b c =>
        have hr := arithOpc_range op
        have hd := dec_ABC (arithOpc op) a b c (by omega)
        rw [encode_arith] at hw
        obtain ⟨hb1, hb2⟩ := rkGood_of (p := p) hxi.2.1 hM hM2 hks.symm
        obtain ⟨hc1, hc2⟩ := rkGood_of (p := p) hxi.2.2.1 hM hM2 hks.symm
        exact hyg_arith hw (by rw [hd.1]; exact hr) (by rw [hd.2.1]; omega) (by rw [hd.2.2.1, hb1]; exact hb2)
          (by rw [hd.2.2.2, hc1]; exact hc2)
      case unm a b =>
        have hd := dec_ABC OP_UNM a b 0 (by decide)
        exact hyg_unm_len (w := wordABC OP_UNM a b 0) hw (Or.inl hd.1) (by rw [hd.2.1]; omega) (by rw [hd.2.2.1]; omega)
      case len a b =>
        have hd := dec_ABC OP_LEN a b 0 (by decide)
        exact hyg_unm_len (w := wordABC OP_LEN a b 0) hw (Or.inr hd.1) (by rw [hd.2.1]; omega) (by rw [hd.2.2.1]; omega)
      case concat a b c =>
        have hd := dec_ABC OP_CONCAT a b c (by decide)
        exact hyg_concat (w := wordABC OP_CONCAT a b c) hw hd.1 (by rw [hd.2.1]; omega)
          (by rw [hd.2.2.1, hd.2.2.2]; omega) (by rw [hd.2.2.2]; omega)

end GLua.CompileWf
