/-
  compile_fragment_wf, part 1: the invariant of the compile state.

  `Inv st` is a single-state invariant of `CState` that every function of the compile model preserves:
    * `scan`  — scanning the code store from the left with patchCode's running register high-water mark
                (`maxregOf`, start value 1), every instruction is locally fine (`IOK`): every register it READS is at
                most the high-water mark of the instructions BEFORE it, constant indices are inside the pool, RK
                operands are a register below the mark or a marked constant index inside the pool, the global-name
                constant of GETGLOBAL/SETGLOBAL is in the pool, comparison A ≤ 1, RETURN B ≥ 1, the only foreign
                instruction is the prologue VARARG 0 (n+1) 0.   The scan is prefix closed, which is what makes it
                robust against `Pop`.
    * `lbl`   — every label binding lies in [-1, len(code) - 1]  (so a jump to it lands in [0, len(code)]).
    * `top`   — the register top is covered by the high-water mark (locals are below `NumUsedRegisters`).
-/
import GLua.Proofs.LoweringValue

namespace GLua.CompileWf
open GLua.Compile GLua.MiniVM GLua.Lowering

variable [NumStruct]
set_option linter.unusedSectionVars false

/-! ### patchCode's register high-water mark as a fold -/

def mrFrom (m : Nat) (code : List Instr) : Nat := code.foldl (fun m i => maxregOf i m) m
def mr (code : List Instr) : Nat := mrFrom 1 code

theorem le_maxregOf (i : Instr) (m : Nat) : m ≤ maxregOf i m := by
  cases i <;> simp only [maxregOf] <;> (try split) <;> (try split) <;> omega

theorem mrFrom_append (m : Nat) (c1 c2 : List Instr) : mrFrom m (c1 ++ c2) = mrFrom (mrFrom m c1) c2 := by
  simp [mrFrom, List.foldl_append]

theorem mrFrom_snoc (m : Nat) (c : List Instr) (i : Instr) : mrFrom m (c ++ [i]) = maxregOf i (mrFrom m c) := by
  simp [mrFrom, List.foldl_append]

theorem le_mrFrom (m : Nat) (c : List Instr) : m ≤ mrFrom m c := by
  induction c generalizing m with
  | nil => simp [mrFrom]
  | cons i r ih =>
    have := ih (maxregOf i m)
    have h2 := le_maxregOf i m
    simp only [mrFrom, List.foldl_cons] at this ⊢
    omega

theorem mr_emit (st : CState) (i : Instr) : mr (emit st i).code = maxregOf i (mr st.code) := by
  simp [mr, mrFrom_snoc]

theorem mr_prefix {c1 c2 : List Instr} (h : c1 <+: c2) : mr c1 ≤ mr c2 := by
  obtain ⟨t, rfl⟩ := h
  simp only [mr, mrFrom_append]
  exact le_mrFrom _ _

theorem one_le_mr (c : List Instr) : 1 ≤ mr c := le_mrFrom 1 c

/-! ### local well-formedness of one instruction -/

/-- RK operand: a register at most `m`, or a marked constant index inside a pool of `n` constants. -/
def RKR (n m x : Nat) : Prop := x ≤ m ∨ (256 ≤ x ∧ x < 512 ∧ x - 256 < n)

def IOK (cs : List Konst) (m : Nat) : Instr → Prop
  | .move _ b => b ≤ m
  | .moven _ _ _ => False
  | .loadk _ bx => bx < cs.length
  | .loadbool _ _ c => c ≤ 1
  | .loadnil a b => a = b
  | .not _ b => b ≤ m
  | .test a _ _ => a ≤ m
  | .testset _ b _ => b ≤ m
  | .eq a b c => a ≤ 1 ∧ RKR cs.length m b ∧ RKR cs.length m c
  | .lt a b c => a ≤ 1 ∧ RKR cs.length m b ∧ RKR cs.length m c
  | .le a b c => a ≤ 1 ∧ RKR cs.length m b ∧ RKR cs.length m c
  | .jmp _ => True
  | .nop _ => False
  | .eval _ id => (findIdx cs (gname id)).isSome = true
  | .setg a id => a ≤ m ∧ (findIdx cs (gname id)).isSome = true
  | .arith _ _ b c => RKR cs.length m b ∧ RKR cs.length m c
  | .unm _ b => b ≤ m
  | .len _ b => b ≤ m
  | .concat _ b c => b ≤ c ∧ c ≤ m
  | .ret a b => 1 ≤ b ∧ (2 ≤ b → a + b ≤ m + 2)
  | .abc op a b c => op = Generated.OP_VARARG ∧ a = 0 ∧ 2 ≤ b ∧ c = 0

theorem findIdx_append {cs : List Konst} {k : Konst} {i : Nat} (t : List Konst) (h : findIdx cs k = some i) :
    findIdx (cs ++ t) k = some i := by
  induction cs generalizing i with
  | nil => simp [findIdx] at h
  | cons c r ih =>
    simp only [findIdx, List.cons_append] at h ⊢
    split
    · rename_i hc; simp [hc] at h; exact congrArg some h
    · rename_i hc
      simp only [hc, if_false] at h
      cases hr : findIdx r k with
      | none => simp [hr] at h
      | some j => simp [hr] at h; subst h; simp [ih hr]

theorem findIdx_isSome_prefix {cs cs' : List Konst} {k : Konst} (hp : cs <+: cs') (h : (findIdx cs k).isSome = true) :
    (findIdx cs' k).isSome = true := by
  obtain ⟨t, rfl⟩ := hp
  cases hf : findIdx cs k with
  | none => simp [hf] at h
  | some i => simp [findIdx_append t hf]

theorem findIdx_lt {cs : List Konst} {k : Konst} {i : Nat} (h : findIdx cs k = some i) : i < cs.length := by
  have := findIdx_some h
  by_cases hlt : i < cs.length
  · exact hlt
  · simp [List.getElem?_eq_none (Nat.le_of_not_lt hlt)] at this

theorem RKR.mono {n n' m m' x : Nat} (h : RKR n m x) (hn : n ≤ n') (hm : m ≤ m') : RKR n' m' x := by
  rcases h with h | h
  · left; omega
  · right; omega

theorem IOK.mono {cs cs' : List Konst} {m m' : Nat} {i : Instr} (h : IOK cs m i) (hp : cs <+: cs') (hm : m ≤ m') :
    IOK cs' m' i := by
  have hl := hp.length_le
  cases i <;> simp only [IOK] at h ⊢
  case move => omega
  case loadk => omega
  case loadbool => exact h
  case loadnil => exact h
  case not => omega
  case test => omega
  case testset => omega
  case eq => exact ⟨h.1, h.2.1.mono hl hm, h.2.2.mono hl hm⟩
  case lt => exact ⟨h.1, h.2.1.mono hl hm, h.2.2.mono hl hm⟩
  case le => exact ⟨h.1, h.2.1.mono hl hm, h.2.2.mono hl hm⟩
  case eval => exact findIdx_isSome_prefix hp h
  case setg => exact ⟨by omega, findIdx_isSome_prefix hp h.2⟩
  case arith => exact ⟨h.1.mono hl hm, h.2.mono hl hm⟩
  case unm => omega
  case len => omega
  case concat => omega
  case ret => exact ⟨h.1, fun hb => by have := h.2 hb; omega⟩
  case abc => exact h

/-! ### the scan -/

def Scan (cs : List Konst) : Nat → List Instr → Prop
  | _, [] => True
  | m, i :: r => IOK cs m i ∧ Scan cs (maxregOf i m) r

theorem scan_append (cs : List Konst) (m : Nat) (c1 c2 : List Instr) :
    Scan cs m (c1 ++ c2) ↔ Scan cs m c1 ∧ Scan cs (mrFrom m c1) c2 := by
  induction c1 generalizing m with
  | nil => simp [Scan, mrFrom]
  | cons i r ih =>
    simp only [List.cons_append, Scan, ih, mrFrom, List.foldl_cons]
    exact and_assoc.symm

theorem scan_snoc (cs : List Konst) (m : Nat) (c : List Instr) (i : Instr) :
    Scan cs m (c ++ [i]) ↔ Scan cs m c ∧ IOK cs (mrFrom m c) i := by
  rw [scan_append]; simp [Scan]

theorem Scan.mono {cs cs' : List Konst} {m m' : Nat} {c : List Instr} (h : Scan cs m c) (hp : cs <+: cs') (hm : m ≤ m') :
    Scan cs' m' c := by
  induction c generalizing m m' with
  | nil => trivial
  | cons i r ih =>
    refine ⟨h.1.mono hp hm, ih h.2 ?_⟩
    -- maxregOf is monotone in its accumulator
    cases i <;> simp only [maxregOf] <;> (try split) <;> (try split) <;> omega

theorem Scan.prefix {cs : List Konst} {m : Nat} {c1 c2 : List Instr} (h : Scan cs m c2) (hp : c1 <+: c2) : Scan cs m c1 := by
  obtain ⟨t, rfl⟩ := hp
  exact ((scan_append cs m c1 t).mp h).1

/-- every instruction of a scanned code is fine w.r.t. the FINAL high-water mark. -/
theorem Scan.get {cs : List Konst} {m : Nat} {c : List Instr} (h : Scan cs m c) {pc : Nat} {i : Instr} (hi : c[pc]? = some i) :
    IOK cs (mrFrom m c) i := by
  induction c generalizing m pc with
  | nil => simp at hi
  | cons x r ih =>
    cases pc with
    | zero =>
      simp at hi; subst hi
      exact h.1.mono (List.prefix_refl _) (by
        have := le_mrFrom (maxregOf x m) r
        have h2 := le_maxregOf x m
        simp only [mrFrom, List.foldl_cons] at this ⊢; omega)
    | succ j =>
      simp at hi
      have := ih h.2 hi
      simpa [mrFrom] using this

/-! ### skipping instructions -/

/-- instructions that may continue at pc + 2 -/
def isSkip : Instr → Bool
  | .loadbool _ _ c => c != 0
  | .eq _ _ _ | .lt _ _ _ | .le _ _ _ | .test _ _ _ | .testset _ _ _ => true
  | _ => false

def NoSkipLast (st : CState) : Prop := ∀ i, last st = some i → isSkip i = false

theorem noSkipLast_emit (st : CState) (i : Instr) (h : isSkip i = false) : NoSkipLast (emit st i) := by
  intro j hj; simp at hj; subst hj; exact h

theorem noSkipLast_setLabelHere {st : CState} (L : Nat) (h : NoSkipLast st) : NoSkipLast (setLabelHere st L) := h
theorem noSkipLast_newLabel {st : CState} (h : NoSkipLast st) : NoSkipLast (newLabel st).1 := h

/-! ### the invariant -/

structure Inv (st : CState) : Prop where
  scan : Scan st.consts 1 st.code
  lbl : ∀ p ∈ st.labelPc, -1 ≤ p.2 ∧ p.2 < (st.code.length : Int)
  top : st.regTop ≤ mr st.code + 1

theorem inv_init : Inv {} := ⟨trivial, by simp, by simp⟩

theorem inv_emit {st : CState} {i : Instr} (h : Inv st) (hi : IOK st.consts (mr st.code) i) : Inv (emit st i) := by
  refine ⟨?_, ?_, ?_⟩
  · simp only [emit_code, emit_consts, scan_snoc]; exact ⟨h.scan, hi⟩
  · intro p hp
    have := h.lbl p hp
    simp only [emit_code, List.length_append, List.length_singleton]
    omega
  · have := h.top
    have h2 := le_maxregOf i (mr st.code)
    rw [mr_emit]; simp only [emit_regTop]; omega

theorem inv_newLabel {st : CState} (h : Inv st) : Inv (newLabel st).1 := ⟨h.scan, h.lbl, h.top⟩

theorem inv_setLabelHere {st : CState} (L : Nat) (h : Inv st) : Inv (setLabelHere st L) := by
  refine ⟨h.scan, ?_, h.top⟩
  intro p hp
  simp only [setLabelHere, setLabelPc, List.mem_cons] at hp
  rcases hp with rfl | hp
  · simp only [lastPC, setLabelHere_code]; omega
  · exact h.lbl p hp

theorem inv_constIndex {st : CState} (k : Konst) (h : Inv st) : Inv (constIndex st k).1 := by
  obtain ⟨_, h2, h3, _, h5, h6⟩ := constIndex_spec st k
  refine ⟨?_, ?_, ?_⟩
  · rw [h3]; exact h.scan.mono h2 (Nat.le_refl _)
  · rw [h5, h3]; exact h.lbl
  · rw [h6, h3]; exact h.top

theorem inv_setRegTop {st : CState} (t : Nat) (h : Inv st) (ht : t ≤ mr st.code + 1) : Inv { st with regTop := t } :=
  ⟨h.scan, h.lbl, ht⟩

/-- `ConstIndex` returns an index inside the (new) pool. -/
theorem constIndex_lt (st : CState) (k : Konst) : (constIndex st k).2 < (constIndex st k).1.consts.length := by
  have h := (constIndex_spec st k).1
  by_cases hlt : (constIndex st k).2 < (constIndex st k).1.consts.length
  · exact hlt
  · simp [List.getElem?_eq_none (Nat.le_of_not_lt hlt)] at h

/-- … and for a constant that is not a NaN (strings, in particular global names) `findIdx` finds it there. -/
theorem constIndex_find (st : CState) (k : Konst) (hn : k.isNaN = false) :
    findIdx (constIndex st k).1.consts k = some (constIndex st k).2 := by
  unfold constIndex
  simp only [hn, Bool.false_eq_true, if_false]
  cases h : findIdx st.consts k with
  | some i => exact h
  | none =>
    have : ∀ (cs : List Konst), findIdx cs k = none → findIdx (cs ++ [k]) k = some cs.length := by
      intro cs
      induction cs with
      | nil => intro _; simp [findIdx]
      | cons c r ih =>
        intro hn
        simp only [findIdx] at hn
        split at hn
        · cases hn
        · rename_i hc
          cases hr : findIdx r k with
          | some j => simp [hr] at hn
          | none => simp [findIdx, hc, ih hr]
    exact this _ h

/-! ### two-state frame: the result satisfies the invariant, the code only grew, the register top is unchanged -/

structure Ext (st st' : CState) : Prop where
  inv : Inv st'
  code : st.code <+: st'.code
  top : st'.regTop = st.regTop
  consts : st.consts <+: st'.consts

theorem Ext.refl {st : CState} (h : Inv st) : Ext st st := ⟨h, List.prefix_refl _, rfl, List.prefix_refl _⟩

theorem Ext.trans {a b c : CState} (h1 : Ext a b) (h2 : Ext b c) : Ext a c :=
  ⟨h2.inv, h1.code.trans h2.code, by rw [h2.top, h1.top], h1.consts.trans h2.consts⟩

theorem Ext.mr_le {a b : CState} (h : Ext a b) : mr a.code ≤ mr b.code := mr_prefix h.code

theorem ext_emit {st : CState} {i : Instr} (h : Inv st) (hi : IOK st.consts (mr st.code) i) : Ext st (emit st i) :=
  ⟨inv_emit h hi, by simp, rfl, List.prefix_refl _⟩

theorem ext_newLabel {st : CState} (h : Inv st) : Ext st (newLabel st).1 :=
  ⟨inv_newLabel h, List.prefix_refl _, rfl, List.prefix_refl _⟩

theorem ext_setLabelHere {st : CState} (L : Nat) (h : Inv st) : Ext st (setLabelHere st L) :=
  ⟨inv_setLabelHere L h, List.prefix_refl _, rfl, List.prefix_refl _⟩

theorem ext_constIndex {st : CState} (k : Konst) (h : Inv st) : Ext st (constIndex st k).1 := by
  obtain ⟨_, h2, h3, _, _, h6⟩ := constIndex_spec st k
  exact ⟨inv_constIndex k h, by rw [h3]; exact List.prefix_refl _, h6, h2⟩

/-- a further emit on top of an extension. -/
theorem Ext.emit {a b : CState} {i : Instr} (h : Ext a b) (hi : IOK b.consts (mr b.code) i) : Ext a (emit b i) :=
  h.trans (ext_emit h.inv hi)

theorem Ext.setLabelHere {a b : CState} (h : Ext a b) (L : Nat) : Ext a (setLabelHere b L) :=
  h.trans (ext_setLabelHere L h.inv)

end GLua.CompileWf
