/-
  compile_fragment_wf, part 6: the model's encoder (`encode`, `wordABC/ABx/ASbx`: hand-written from opcode.go, tied word for
  word by the C01M harness) read back by the REGENERATED decoders (`Generated/Opcode.lean`) through `Verifier.decode`.
-/
import GLua.Model.CompileProto
import GLua.Proofs.CompileWfDefs

namespace GLua.CompileWf
open GLua GLua.Compile GLua.MiniVM GLua.Verifier GLua.Generated

variable [NumStruct]
set_option linter.unusedSectionVars false

theorem dec_ABC (op a b c : Nat) (hop : op < 64) :
    (decode (wordABC op a b c)).op = op ∧ (decode (wordABC op a b c)).a = a % 256 ∧
    (decode (wordABC op a b c)).b = b % 512 ∧ (decode (wordABC op a b c)).c = c % 512 := by
  have h26 : (2 : Nat) ^ 26 = 67108864 := rfl
  have h18 : (2 : Nat) ^ 18 = 262144 := rfl
  have h9 : (2 : Nat) ^ 9 = 512 := rfl
  have hA : (2 : Nat) ^ opSizeA = 256 := rfl
  have hB : (2 : Nat) ^ opSizeB = 512 := rfl
  have hC : (2 : Nat) ^ opSizeC = 512 := rfl
  simp only [decode, wordABC, opGetOpCode, opGetArgA, opGetArgB, opGetArgC, h26, h18, h9, hA, hB, hC]
  omega

theorem dec_ABx (op a bx : Nat) (hop : op < 64) :
    (decode (wordABx op a bx)).op = op ∧ (decode (wordABx op a bx)).a = a % 256 ∧
    (decode (wordABx op a bx)).bx = bx % 262144 := by
  have h26 : (2 : Nat) ^ 26 = 67108864 := rfl
  have h18 : (2 : Nat) ^ 18 = 262144 := rfl
  have hA : (2 : Nat) ^ opSizeA = 256 := rfl
  have hBx : (2 : Nat) ^ opSizeBx = 262144 := rfl
  simp only [decode, wordABx, opGetOpCode, opGetArgA, opGetArgBx, h26, h18, hA, hBx]
  omega

theorem dec_ASbx (op a : Nat) (s : Int) (hop : op < 64) (hs : -131071 ≤ s ∧ s ≤ 131072) :
    (decode (wordASbx op a s)).op = op ∧ (decode (wordASbx op a s)).sbx = s := by
  have h26 : (2 : Nat) ^ 26 = 67108864 := rfl
  have h18 : (2 : Nat) ^ 18 = 262144 := rfl
  have hA : (2 : Nat) ^ opSizeA = 256 := rfl
  have hBx : (2 : Nat) ^ opSizeBx = 262144 := rfl
  have hBxI : (2 : Int) ^ opSizeBx = 262144 := rfl
  have hmax : (opMaxArgSbx : Int) = 131071 := rfl
  simp only [decode, wordASbx, wordABx, opGetOpCode, opGetArgSbx, opGetArgBx, h26, h18, hA, hBx, hBxI, hmax]
  omega

/-- the opcode of NOP / a wrapped operand does not matter: only the opcode field is read -/
theorem dec_ASbx_op (op a : Nat) (s : Int) (hop : op < 64) : (decode (wordASbx op a s)).op = op := by
  have h26 : (2 : Nat) ^ 26 = 67108864 := rfl
  have h18 : (2 : Nat) ^ 18 = 262144 := rfl
  have hA : (2 : Nat) ^ opSizeA = 256 := rfl
  have hBx : (2 : Nat) ^ opSizeBx = 262144 := rfl
  have hBxI : (2 : Int) ^ opSizeBx = 262144 := rfl
  simp only [decode, wordASbx, wordABx, opGetOpCode, h26, h18, hA, hBx, hBxI]
  omega

/-! ### the prototype's arrays -/

theorem toProto_code_get (n : Nat) (cs : List Konst) (code : List Instr) (nregs pc : Nat) :
    (toProto n cs code nregs).code[pc]? = (code[pc]?).map (encode cs) := by
  simp [toProto]

theorem toProto_code_size (n : Nat) (cs : List Konst) (code : List Instr) (nregs : Nat) :
    (toProto n cs code nregs).code.size = code.length := by
  simp [toProto]

theorem toProto_consts_size (n : Nat) (cs : List Konst) (code : List Instr) (nregs : Nat) :
    (toProto n cs code nregs).consts.size = cs.length := by
  simp [toProto]

theorem toProto_strConsts_size (n : Nat) (cs : List Konst) (code : List Instr) (nregs : Nat) :
    (toProto n cs code nregs).strConsts.size = cs.length := by
  simp [toProto]

theorem toProto_isStr (n : Nat) (cs : List Konst) (code : List Instr) (nregs k : Nat) (s : String)
    (h : cs[k]? = some (.str s)) : isStrConst (toProto n cs code nregs) k = true := by
  simp [isStrConst, toProto, h, konstKind]

/-- the constant tables agree (header condition of `wf`) -/
theorem toProto_consts_agree (n : Nat) (cs : List Konst) (code : List Instr) (nregs k : Nat) (hk : k < cs.length) :
    (match (toProto n cs code nregs).consts[k]?, (toProto n cs code nregs).strConsts[k]? with
      | some (some h), some s => h == s
      | some none, some s => s == ""
      | _, _ => false) = true := by
  have : cs[k]? = some cs[k] := by simp [hk]
  cases hc : cs[k] with
  | num v => simp [toProto, this, hc, konstKind, konstStr]
  | str s => simp [toProto, this, hc, konstKind, konstStr]

end GLua.CompileWf
