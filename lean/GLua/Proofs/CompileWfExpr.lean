/-
  compile_fragment_wf, part 2: `comp` (compileExpr / compileLogicalOpExprAux / compileBranchCondition, with
  compileUnaryOpExpr (not, -, #), compileArithmeticOpExpr (constant folding, RK operands), compileStringConcatOpExpr
  (crange, the CONCAT-popping loop), compileRelationalOpExpr(Aux), compileLogicalOpExpr, Propagate(K)MV) preserves the
  invariant.  One structural induction over the expression tree for the three modes at once.  The purely structural
  facts (what the last instruction of an expression's code is: decides whether Propagate / the CONCAT loop / SetA pop)
  are the C01 deepening's `Lowering.comp_frame` (`EF`); this file adds the invariant.
-/
import GLua.Proofs.CompileWfDefs

namespace GLua.CompileWf
open GLua.Compile GLua.MiniVM GLua.Lowering

variable [NumStruct]
set_option linter.unusedSectionVars false

/-! ### small facts -/

theorem mr_emit_argA {st : CState} {i : Instr} (h : maxregOf i (mr st.code) = max (mr st.code) i.argA) :
    i.argA ≤ mr (emit st i).code := by
  rw [mr_emit, h]; omega

theorem loc_le_mr {st : CState} {r : Nat} (h : Inv st) (hr : r < st.regTop) : r ≤ mr st.code := by
  have := h.top; omega

theorem savereg_cases (ec : ExpCtx) (reg : Nat) : savereg ec reg = reg ∨ savereg ec reg = ec.reg := by
  unfold savereg; split <;> simp

/-- the context `ec{ctype, max(a, sreg)}` of compileLogicalOpExprAux's default case stores to `a`. -/
theorem savereg_max' (ec : ExpCtx) (reg : Nat) (h : savereg ec reg ≤ reg) :
    savereg ⟨ec.ctype, max reg (savereg ec reg)⟩ reg = reg := by
  have : max reg (savereg ec reg) = reg := by omega
  rw [this]; unfold savereg; split <;> rfl

theorem flipOf_le (h : Bool) : flipOf h ≤ 1 := by cases h <;> simp [flipOf]

/-! ### expression mode: the statement proved by the induction -/

def ExprPost (e : Cond) : Prop := ∀ (st : CState) (reg : Nat) (ec : ExpCtx),
    Inv st → LocalsBelow st.regTop e → st.regTop ≤ reg → savereg ec reg ≤ reg →
    Ext st (comp e (.expr reg ec) st).st ∧
    (comp e (.expr reg ec) st).inc = (if savereg ec reg < reg then 0 else 1) ∧
    savereg ec reg ≤ mr (comp e (.expr reg ec) st).st.code ∧
    NoSkipLast (comp e (.expr reg ec) st).st ∧
    -- a concatenation ends in ONE CONCAT over reg … reg + 1 + spine; before it the invariant holds (so the CONCAT may
    -- be popped by an enclosing concatenation), the top operand register is counted, the code does not end in a CONCAT
    (∀ l r, e = .concat l r → ∃ s', (comp e (.expr reg ec) st).st = emit s' (.concat (savereg ec reg) reg (reg + (1 + spine r))) ∧
      Ext st s' ∧ reg + (1 + spine r) ≤ mr s'.code ∧ NoCat s'.code ∧ s'.code ≠ [])

/-- `compileLogicalOpExprAux`: the code always ends in a JMP; before it the invariant holds (so the JMP may be
    popped); for the LAST operand of a value-context and/or chain (hasnext = false, both labels = endlabel) a final
    `JMP endlabel` is preceded by a non-skipping instruction, and the destination was written unless lb.b is set. -/
def AuxPost (e : Cond) : Prop := ∀ (st : CState) (reg : Nat) (ec : ExpCtx) (thenl elsel : Nat) (hasnext : Bool) (lb : LbLabels) (b : Bool),
    Inv st → LocalsBelow st.regTop e → st.regTop ≤ reg → savereg ec reg ≤ reg →
    ∃ (s' : CState) (t : Int), (comp e (.aux reg ec thenl elsel hasnext lb b) st).st = emit s' (.jmp t) ∧ Ext st s' ∧
      (hasnext = false → thenl = lb.e → elsel = lb.e → lb.t ≠ lb.e → lb.f ≠ lb.e →
        (t = (lb.e : Int) → NoSkipLast s') ∧
        ((comp e (.aux reg ec thenl elsel hasnext lb b) st).b = true ∨ savereg ec reg ≤ mr s'.code))

def BcPost (e : Cond) : Prop := ∀ (st : CState) (reg thenl elsel : Nat) (hasnext : Bool),
    Inv st → LocalsBelow st.regTop e → st.regTop ≤ reg → NoSkipLast st →
    Ext st (comp e (.bc reg thenl elsel hasnext) st).st ∧ NoSkipLast (comp e (.bc reg thenl elsel hasnext) st).st

/-! ### LOADK of a pool constant (literal or folded) -/

theorem loadK_post (k : Konst) (st : CState) (reg : Nat) (ec : ExpCtx) (hI : Inv st) :
    Ext st (loadK k reg ec st).st ∧
    (loadK k reg ec st).inc = (if savereg ec reg < reg then 0 else 1) ∧
    savereg ec reg ≤ mr (loadK k reg ec st).st.code ∧
    NoSkipLast (loadK k reg ec st).st := by
  have hc := ext_constIndex k hI
  refine ⟨hc.emit (i := .loadk (savereg ec reg) (constIndex st k).2) (constIndex_lt st k), rfl, ?_, noSkipLast_emit _ _ rfl⟩
  show savereg ec reg ≤ mr (emit (constIndex st k).1 (.loadk (savereg ec reg) (constIndex st k).2)).code
  simp only [mr_emit, maxregOf, Instr.argA]; omega

/-! ### leaves -/

theorem leaf_post (e : Cond) (he : isLeaf e = true) (st : CState) (reg : Nat) (ec : ExpCtx)
    (hI : Inv st) (hs : LocalsBelow st.regTop e) :
    Ext st (leafExpr e reg ec st).st ∧
    (leafExpr e reg ec st).inc = (if savereg ec reg < reg then 0 else 1) ∧
    savereg ec reg ≤ mr (leafExpr e reg ec st).st.code ∧
    NoSkipLast (leafExpr e reg ec st).st := by
  cases e <;> simp [isLeaf] at he
  case tru =>
    exact ⟨ext_emit hI (by simp [IOK]), rfl, by simp only [leafExpr, mr_emit, maxregOf, Instr.argA]; omega, noSkipLast_emit _ _ rfl⟩
  case fls =>
    exact ⟨ext_emit hI (by simp [IOK]), rfl, by simp only [leafExpr, mr_emit, maxregOf, Instr.argA]; omega, noSkipLast_emit _ _ rfl⟩
  case nil =>
    exact ⟨ext_emit hI rfl, rfl, by simp only [leafExpr, mr_emit, maxregOf]; omega, noSkipLast_emit _ _ rfl⟩
  case loc r =>
    exact ⟨ext_emit hI (loc_le_mr hI hs), rfl, by simp only [leafExpr, mr_emit, maxregOf, Instr.argA]; omega, noSkipLast_emit _ _ rfl⟩
  case num n => exact loadK_post _ st reg ec hI
  case str s => exact loadK_post _ st reg ec hI
  case ev id =>
    have hc := ext_constIndex (gname id) hI
    have hf := constIndex_find st (gname id) rfl
    exact ⟨hc.emit (by simp [IOK, hf]), rfl, by simp only [leafExpr, mr_emit, maxregOf, Instr.argA]; omega, noSkipLast_emit _ _ rfl⟩

theorem exprPost_leaf (e : Cond) (he : isLeaf e = true) : ExprPost e := by
  intro st reg ec hI hs _ _
  rw [comp_leaf_expr e he]
  obtain ⟨h1, h2, h3, h4⟩ := leaf_post e he st reg ec hI hs
  exact ⟨h1, h2, h3, h4, fun l r h => by subst h; simp [isLeaf] at he⟩

/-! ### one operand with Propagate(K)MV -/

theorem opnd_konst (kmv : Bool) (st : CState) (reg : Nat) (k : Konst) (hI : Inv st) (res : CState × Nat × Nat)
    (hres : res = if reg ≥ (constIndex st k).1.regTop ∧ kmv = true ∧ (constIndex st k).2 ≤ Generated.opMaxIndexRk
      then ((constIndex st k).1, (constIndex st k).2 + Generated.opBitRk, reg)
      else (emit (constIndex st k).1 (.loadk reg (constIndex st k).2), reg, reg + 1)) :
    Ext st res.1 ∧ RKR res.1.consts.length (mr res.1.code) res.2.1 ∧ (kmv = false → res.2.1 ≤ mr res.1.code) ∧ reg ≤ res.2.2 := by
  have hc := ext_constIndex k hI
  have hf := constIndex_lt st k
  subst hres
  split
  · rename_i h
    refine ⟨hc, Or.inr ?_, fun hk => by simp [hk] at h, Nat.le_refl _⟩
    simp only [Generated.opMaxIndexRk, Generated.opBitRk] at h ⊢
    omega
  · have hle : reg ≤ mr (emit (constIndex st k).1 (.loadk reg (constIndex st k).2)).code := by
      simp only [mr_emit, maxregOf, Instr.argA]; omega
    exact ⟨hc.emit hf, Or.inl hle, fun _ => hle, by simp⟩

/-- a leaf operand (stated for `Lowering.opnd`) -/
theorem opnd_leaf_post (kmv : Bool) (e : Cond) (he : isLeaf e = true) (st : CState) (reg : Nat)
    (hI : Inv st) (hs : LocalsBelow st.regTop e) (htop : st.regTop ≤ reg) :
    Ext st (opnd kmv e reg st).1 ∧
    RKR (opnd kmv e reg st).1.consts.length (mr (opnd kmv e reg st).1.code) (opnd kmv e reg st).2.1 ∧
    (kmv = false → (opnd kmv e reg st).2.1 ≤ mr (opnd kmv e reg st).1.code) ∧
    reg ≤ (opnd kmv e reg st).2.2 := by
  cases e <;> simp [isLeaf] at he
  case tru =>
    rw [opnd_tru]
    have hle : reg ≤ mr (emit st (.loadbool reg 1 0)).code := by simp only [mr_emit, maxregOf, Instr.argA]; omega
    exact ⟨ext_emit hI (by simp [IOK]), Or.inl hle, fun _ => hle, by simp⟩
  case fls =>
    rw [opnd_fls]
    have hle : reg ≤ mr (emit st (.loadbool reg 0 0)).code := by simp only [mr_emit, maxregOf, Instr.argA]; omega
    exact ⟨ext_emit hI (by simp [IOK]), Or.inl hle, fun _ => hle, by simp⟩
  case nil =>
    rw [opnd_nil]
    have hle : reg ≤ mr (emit st (.loadnil reg reg)).code := by simp only [mr_emit, maxregOf]; omega
    exact ⟨ext_emit hI rfl, Or.inl hle, fun _ => hle, by simp⟩
  case loc r =>
    rw [opnd_loc _ _ _ _ htop]
    have hle := loc_le_mr hI hs
    exact ⟨Ext.refl hI, Or.inl hle, fun _ => hle, Nat.le_refl _⟩
  case ev id =>
    rw [opnd_ev]
    have hc := ext_constIndex (gname id) hI
    have hf := constIndex_find st (gname id) rfl
    have hle : reg ≤ mr (emit (constIndex st (gname id)).1 (.eval reg id)).code := by
      simp only [mr_emit, maxregOf, Instr.argA]; omega
    exact ⟨hc.emit (by simp [IOK, hf]), Or.inl hle, fun _ => hle, by simp⟩
  case num n => exact opnd_konst kmv st reg _ hI _ (opnd_num kmv reg st n)
  case str s => exact opnd_konst kmv st reg (.str s) hI _ (opnd_str kmv reg st s)

/-- ANY operand through `compileExprWith(K)MVPropagation` (`Lowering.opr`): a constant — literal or folded — becomes
    an RK field or one LOADK, a local its own register, anything else is compiled into `reg`. -/
theorem opr_post (kmv : Bool) (c : Cond) (hE : ExprPost c) (st : CState) (reg : Nat)
    (hI : Inv st) (hs : LocalsBelow st.regTop c) (htop : st.regTop ≤ reg) :
    Ext st (opr kmv c reg st).1 ∧
    RKR (opr kmv c reg st).1.consts.length (mr (opr kmv c reg st).1.code) (opr kmv c reg st).2.1 ∧
    (kmv = false → (opr kmv c reg st).2.1 ≤ mr (opr kmv c reg st).1.code) ∧
    reg ≤ (opr kmv c reg st).2.2 := by
  rcases opr_cases kmv c st reg ((comp_frame c).1 st reg ecnone0 htop) htop with ⟨k, _, h⟩ | ⟨r, hr, h⟩ | ⟨_, _, h⟩
  · exact opnd_konst kmv st reg k hI _ h
  · rw [h]
    subst hr
    have hle := loc_le_mr hI hs
    exact ⟨Ext.refl hI, Or.inl hle, fun _ => hle, Nat.le_refl _⟩
  · rw [h]
    obtain ⟨hx, _, hdst, _, _⟩ := hE st reg ecnone0 hI hs htop (by rw [savereg_ecnone0]; exact Nat.le_refl _)
    rw [savereg_ecnone0] at hdst
    exact ⟨hx, Or.inl hdst, fun _ => hdst, Nat.le_succ _⟩

/-- the two operands of a binary operator (`Lowering.bops` = `binOperands` on the two compile functions) -/
theorem bops_post (l r : Cond) (hl : ExprPost l) (hr : ExprPost r) (st : CState) (reg : Nat)
    (hI : Inv st) (hsl : LocalsBelow st.regTop l) (hsr : LocalsBelow st.regTop r) (htop : st.regTop ≤ reg) :
    Ext st (bops l r st reg).1 ∧
    RKR (bops l r st reg).1.consts.length (mr (bops l r st reg).1.code) (bops l r st reg).2.1 ∧
    RKR (bops l r st reg).1.consts.length (mr (bops l r st reg).1.code) (bops l r st reg).2.2 := by
  rw [bops_eq]
  obtain ⟨hx1, hb1, _, hreg1⟩ := opr_post true l hl st reg hI hsl htop
  obtain ⟨hx2, hb2, _, _⟩ := opr_post true r hr (opr true l reg st).1 (opr true l reg st).2.2 hx1.inv
    (by rw [hx1.top]; exact hsr) (by rw [hx1.top]; omega)
  exact ⟨hx1.trans hx2, hb1.mono hx2.consts.length_le hx2.mr_le, hb2⟩

/-! ### unary operators: not, unary minus, length -/

theorem unop_post (mk : Nat → Nat → Instr) (c : Cond) (hc : ExprPost c) (st : CState) (reg : Nat) (ec : ExpCtx)
    (hI : Inv st) (hs : LocalsBelow st.regTop c) (htop : st.regTop ≤ reg)
    (hiok : ∀ cs m a b, b ≤ m → IOK cs m (mk a b)) (hcnt : ∀ a b m, maxregOf (mk a b) m = max m a)
    (hns : ∀ a b, isSkip (mk a b) = false) :
    Ext st (unopExpr mk c.isLogical (fun s => comp c (.expr reg ecnone0) s) reg ec st).st ∧
    (unopExpr mk c.isLogical (fun s => comp c (.expr reg ecnone0) s) reg ec st).inc = (if savereg ec reg < reg then 0 else 1) ∧
    savereg ec reg ≤ mr (unopExpr mk c.isLogical (fun s => comp c (.expr reg ecnone0) s) reg ec st).st.code ∧
    NoSkipLast (unopExpr mk c.isLogical (fun s => comp c (.expr reg ecnone0) s) reg ec st).st := by
  obtain ⟨hx, _, hle, _⟩ := opr_post false c hc st reg hI hs htop
  have hst : (unopExpr mk c.isLogical (fun s => comp c (.expr reg ecnone0) s) reg ec st).st =
      emit (opr false c reg st).1 (mk (savereg ec reg) (opr false c reg st).2.1) := rfl
  rw [hst]
  refine ⟨hx.emit (hiok _ _ _ _ (hle rfl)), rfl, ?_, noSkipLast_emit _ _ (hns _ _)⟩
  rw [mr_emit, hcnt]; omega

theorem notExpr_post (c : Cond) (hc : ExprPost c) (st : CState) (reg : Nat) (ec : ExpCtx)
    (hI : Inv st) (hs : LocalsBelow st.regTop c) (htop : st.regTop ≤ reg) :
    Ext st (notExpr c (fun s => comp c (.expr reg ecnone0) s) reg ec st).st ∧
    (notExpr c (fun s => comp c (.expr reg ecnone0) s) reg ec st).inc = (if savereg ec reg < reg then 0 else 1) ∧
    savereg ec reg ≤ mr (notExpr c (fun s => comp c (.expr reg ecnone0) s) reg ec st).st.code ∧
    NoSkipLast (notExpr c (fun s => comp c (.expr reg ecnone0) s) reg ec st).st := by
  have general : ∀ (_ : c ≠ .tru ∧ c ≠ .fls ∧ c ≠ .nil),
      notExpr c (fun s => comp c (.expr reg ecnone0) s) reg ec st =
        unopExpr .not c.isLogical (fun s => comp c (.expr reg ecnone0) s) reg ec st := by
    intro hne
    cases c <;> simp_all [notExpr, unopExpr]
  have hb : ∀ (x : Nat), Ext st (emit st (.loadbool (savereg ec reg) x 0)) ∧
      savereg ec reg ≤ mr (emit st (.loadbool (savereg ec reg) x 0)).code ∧
      NoSkipLast (emit st (.loadbool (savereg ec reg) x 0)) := fun x =>
    ⟨ext_emit hI (by simp [IOK]), by simp only [mr_emit, maxregOf, Instr.argA]; omega, noSkipLast_emit _ _ rfl⟩
  by_cases h1 : c = .tru
  · subst h1; obtain ⟨a, b, c'⟩ := hb 0; exact ⟨a, rfl, b, c'⟩
  by_cases h2 : c = .fls
  · subst h2; obtain ⟨a, b, c'⟩ := hb 1; exact ⟨a, rfl, b, c'⟩
  by_cases h3 : c = .nil
  · subst h3; obtain ⟨a, b, c'⟩ := hb 1; exact ⟨a, rfl, b, c'⟩
  rw [general ⟨h1, h2, h3⟩]
  exact unop_post .not c hc st reg ec hI hs htop (fun _ _ _ _ h => h) (fun _ _ _ => rfl) (fun _ _ => rfl)

/-! ### arithmetic -/

theorem arithExpr_post (folded : Option NumStruct.N) (op : ArithOp) (l r : Cond) (hl : ExprPost l) (hr : ExprPost r)
    (st : CState) (reg : Nat) (ec : ExpCtx)
    (hI : Inv st) (hsl : LocalsBelow st.regTop l) (hsr : LocalsBelow st.regTop r) (htop : st.regTop ≤ reg) :
    Ext st (arithExpr folded op (fun s g => comp l (.expr g ecnone0) s) (fun s g => comp r (.expr g ecnone0) s)
      l.isLogical r.isLogical reg ec st).st ∧
    (arithExpr folded op (fun s g => comp l (.expr g ecnone0) s) (fun s g => comp r (.expr g ecnone0) s)
      l.isLogical r.isLogical reg ec st).inc = (if savereg ec reg < reg then 0 else 1) ∧
    savereg ec reg ≤ mr (arithExpr folded op (fun s g => comp l (.expr g ecnone0) s) (fun s g => comp r (.expr g ecnone0) s)
      l.isLogical r.isLogical reg ec st).st.code ∧
    NoSkipLast (arithExpr folded op (fun s g => comp l (.expr g ecnone0) s) (fun s g => comp r (.expr g ecnone0) s)
      l.isLogical r.isLogical reg ec st).st := by
  cases folded with
  | some x => exact loadK_post _ st reg ec hI
  | none =>
    obtain ⟨hx, hb, hc⟩ := bops_post l r hl hr st reg hI hsl hsr htop
    have hst : (arithExpr none op (fun s g => comp l (.expr g ecnone0) s) (fun s g => comp r (.expr g ecnone0) s)
        l.isLogical r.isLogical reg ec st).st =
        emit (bops l r st reg).1 (.arith op (savereg ec reg) (bops l r st reg).2.1 (bops l r st reg).2.2) := rfl
    rw [hst]
    refine ⟨hx.emit ⟨hb, hc⟩, rfl, ?_, noSkipLast_emit _ _ rfl⟩
    simp only [mr_emit, maxregOf, Instr.argA]; omega

/-! ### concatenation -/

theorem popConcats_emit_concat (s' : CState) (a b c : Nat) (hne : s'.code ≠ []) (hnc : NoCat s'.code) :
    popConcats (emit s' (.concat a b c)) = s' := by
  unfold popConcats
  simp only [emit_code]
  rw [dropConcats_one _ _ _ _ hne hnc]
  cases s'; rfl

theorem popConcats_noCat (s : CState) (hnc : NoCat s.code) : popConcats s = s := by
  unfold popConcats
  rw [dropConcats_noCat _ _ hnc]

theorem spine_notConcat (r : Cond) (h : isConcat r = false) : spine r = 0 := by
  cases r <;> simp [isConcat] at h <;> rfl

theorem concatExpr_post (l r : Cond) (hl : ExprPost l) (hr : ExprPost r) (st : CState) (reg : Nat) (ec : ExpCtx)
    (hI : Inv st) (hsl : LocalsBelow st.regTop l) (hsr : LocalsBelow st.regTop r) (htop : st.regTop ≤ reg) :
    ∃ s', (concatExpr (1 + spine r) (fun s g => comp l (.expr g ecnone0) s) (fun s g => comp r (.expr g ecnone0) s) reg ec st).st =
        emit s' (.concat (savereg ec reg) reg (reg + (1 + spine r))) ∧
      Ext st s' ∧ reg + (1 + spine r) ≤ mr s'.code ∧ NoCat s'.code ∧ s'.code ≠ [] := by
  have hsv0 : ∀ g, savereg ecnone0 g ≤ g := fun g => by rw [savereg_ecnone0]; exact Nat.le_refl _
  obtain ⟨hx1, hinc1, _, _, _⟩ := hl st reg ecnone0 hI hsl htop (hsv0 _)
  have hinc1' : (comp l (.expr reg ecnone0) st).inc = 1 := by rw [hinc1, savereg_ecnone0]; simp
  have hst : (concatExpr (1 + spine r) (fun s g => comp l (.expr g ecnone0) s) (fun s g => comp r (.expr g ecnone0) s) reg ec st).st =
      emit (popConcats (comp r (.expr (reg + 1) ecnone0) (comp l (.expr reg ecnone0) st).st).st)
        (.concat (savereg ec reg) reg (reg + (1 + spine r))) := by
    simp only [concatExpr, hinc1']
  rw [hst]
  generalize comp l (.expr reg ecnone0) st = r1 at hx1 ⊢
  have htop1 : r1.st.regTop ≤ reg + 1 := by rw [hx1.top]; omega
  obtain ⟨hx2, _, hdst2, _, hcat2⟩ := hr r1.st (reg + 1) ecnone0 hx1.inv (by rw [hx1.top]; exact hsr) htop1 (hsv0 _)
  rw [savereg_ecnone0] at hdst2
  have hef := (comp_frame r).1 r1.st (reg + 1) ecnone0 htop1
  cases hcr : isConcat r with
  | true =>
    obtain ⟨b, c, rfl⟩ : ∃ b c, r = .concat b c := by
      cases r <;> simp [isConcat] at hcr
      exact ⟨_, _, rfl⟩
    obtain ⟨s2, hs2, hx2', hm2, hnc2, hne2⟩ := hcat2 b c rfl
    rw [hs2, popConcats_emit_concat _ _ _ _ hne2 hnc2]
    refine ⟨s2, rfl, hx1.trans hx2', ?_, hnc2, hne2⟩
    simp only [spine] at hm2 ⊢
    omega
  | false =>
    have hnc := hef.nocat hcr
    rw [popConcats_noCat _ hnc, spine_notConcat r hcr]
    refine ⟨_, rfl, hx1.trans hx2, by simpa using hdst2, hnc, ?_⟩
    intro h0
    have := hef.lt
    rw [h0] at this
    simp at this

/-! ### relational operators -/

theorem iok_relInstr {cs : List Konst} {m : Nat} (op : RelOp) {flip b c : Nat} (hf : flip ≤ 1)
    (hb : RKR cs.length m b) (hc : RKR cs.length m c) : IOK cs m (relInstr op flip b c) := by
  cases op <;> simp only [relInstr, IOK] <;> refine ⟨by omega, ?_, ?_⟩ <;> assumption

theorem isSkip_relInstr (op : RelOp) (flip b c : Nat) : isSkip (relInstr op flip b c) = true := by
  cases op <;> rfl

/-- `compileRelationalOpExprAux`: two operands, the comparison, the jump. -/
theorem relAux_post (l r : Cond) (hl : ExprPost l) (hr : ExprPost r) (st : CState) (reg : Nat) (op : RelOp) (flip label : Nat)
    (hI : Inv st) (hsl : LocalsBelow st.regTop l) (hsr : LocalsBelow st.regTop r) (htop : st.regTop ≤ reg) (hf : flip ≤ 1) :
    ∃ s', relAux (fun s g => comp l (.expr g ecnone0) s) (fun s g => comp r (.expr g ecnone0) s)
            l.isLogical r.isLogical st reg op flip label = emit s' (.jmp (label : Int)) ∧ Ext st s' := by
  obtain ⟨hx, hb, hc⟩ := bops_post l r hl hr st reg hI hsl hsr htop
  exact ⟨emit (bops l r st reg).1 (relInstr op flip (bops l r st reg).2.1 (bops l r st reg).2.2), rfl,
    hx.emit (iok_relInstr op hf hb hc)⟩

/-! ### the default case of compileLogicalOpExprAux -/

structure SubOK (sub : ExpCtx → CState → Res) (st : CState) (reg : Nat) : Prop where
  post : ∀ ec', savereg ec' reg ≤ reg → Ext st (sub ec' st).st ∧ savereg ec' reg ≤ mr (sub ec' st).st.code
  last : ∀ ec', (∀ a' b', last (sub ec' st).st ≠ some (.move a' b')) ∨
      (∃ x r, (sub ec' st).st = emit st (.move x r) ∧ r ≤ mr st.code)

theorem auxDefault_post (sub : ExpCtx → CState → Res) (reg : Nat) (ec : ExpCtx) (thenl elsel : Nat) (hasnext : Bool)
    (lb : LbLabels) (b : Bool) (st : CState) (hsub : SubOK sub st reg) (hI : Inv st) (hsr : savereg ec reg ≤ reg) :
    ∃ (s' : CState) (t : Int), (auxDefault sub reg ec thenl elsel hasnext lb b st).st = emit s' (.jmp t) ∧ Ext st s' ∧
      (hasnext = false → thenl = lb.e → elsel = lb.e → NoSkipLast s' ∧ savereg ec reg ≤ mr s'.code) := by
  unfold auxDefault
  simp only []
  split
  · -- compileExpr into `a`, then retarget / append the MOVE to the destination
    have hdst := savereg_max' ec reg hsr
    obtain ⟨hx, hle⟩ := hsub.post ⟨ec.ctype, max reg (savereg ec reg)⟩ (by rw [hdst]; exact Nat.le_refl _)
    rw [hdst] at hle
    rcases hsub.last ⟨ec.ctype, max reg (savereg ec reg)⟩ with hnm | ⟨x, r, hst, hr⟩
    · rw [moveTo_nomove _ _ _ hnm]
      refine ⟨_, _, rfl, hx.emit hle, fun _ _ _ => ⟨noSkipLast_emit _ _ rfl, ?_⟩⟩
      simp only [mr_emit, maxregOf, Instr.argA]; omega
    · rw [hst]
      by_cases hxa : x = reg
      · subst hxa
        rw [moveTo_move]
        refine ⟨_, _, rfl, ext_emit hI hr, fun _ _ _ => ⟨noSkipLast_emit _ _ rfl, ?_⟩⟩
        simp only [mr_emit, maxregOf, Instr.argA]; omega
      · have : moveTo (emit st (.move x r)) (savereg ec reg) reg = emit (emit st (.move x r)) (.move (savereg ec reg) reg) := by
          simp [moveTo, hxa]
        rw [this]
        rw [hst] at hx hle
        refine ⟨_, _, rfl, hx.emit hle, fun _ _ _ => ⟨noSkipLast_emit _ _ rfl, ?_⟩⟩
        simp only [mr_emit, maxregOf, Instr.argA]; omega
  · rename_i hcond
    obtain ⟨hx, hle⟩ := hsub.post ecnone0 (by rw [savereg_ecnone0]; exact Nat.le_refl _)
    rw [savereg_ecnone0] at hle
    rw [ite_emit]
    have hiok : ∀ (c : Prop) [Decidable c] (x y z : Nat), IOK (sub ecnone0 st).st.consts (mr (sub ecnone0 st).st.code)
        (if c then Instr.testset x reg y else Instr.test reg 0 z) := by
      intro c _ x y z; split <;> exact hle
    exact ⟨_, _, rfl, hx.emit (hiok _ _ _ _), fun h1 h2 h3 => absurd ⟨h1, h2.trans h3.symm⟩ hcond⟩

/-! ### the tail of compileLogicalOpExpr -/

theorem logicalTail_post (st0 r2st s2 : CState) (t2 : Int) (b2 : Bool) (a : Nat) (lb : LbLabels)
    (h : r2st = emit s2 (.jmp t2)) (hx : Ext st0 s2) (hns : t2 = (lb.e : Int) → NoSkipLast s2) (hd : b2 = true ∨ a ≤ mr s2.code) :
    Ext st0 (logicalTail r2st a lb b2) ∧ a ≤ mr (logicalTail r2st a lb b2).code ∧ NoSkipLast (logicalTail r2st a lb b2) := by
  subst h
  have hxj : Ext st0 (emit s2 (.jmp t2)) := hx.emit trivial
  unfold logicalTail tailBools
  cases b2 with
  | true =>
    simp only [if_true]
    have e1 : Ext st0 (emit (setLabelHere (emit (setLabelHere (emit s2 (.jmp t2)) lb.f) (.loadbool a 0 1)) lb.t) (.loadbool a 1 0)) :=
      (((hxj.setLabelHere lb.f).emit (i := .loadbool a 0 1) (by simp [IOK])).setLabelHere lb.t).emit (i := .loadbool a 1 0) (by simp [IOK])
    have hp : tailPop (emit (setLabelHere (emit (setLabelHere (emit s2 (.jmp t2)) lb.f) (.loadbool a 0 1)) lb.t) (.loadbool a 1 0)) lb.e
        = emit (setLabelHere (emit (setLabelHere (emit s2 (.jmp t2)) lb.f) (.loadbool a 0 1)) lb.t) (.loadbool a 1 0) := by
      simp [tailPop]
    rw [hp]
    refine ⟨e1.setLabelHere lb.e, ?_, noSkipLast_setLabelHere _ (noSkipLast_emit _ _ rfl)⟩
    simp only [setLabelHere_code, mr_emit, maxregOf, Instr.argA]; omega
  | false =>
    simp only [Bool.false_eq_true, if_false]
    have ha : a ≤ mr s2.code := by rcases hd with hd | hd; · cases hd
                                   · exact hd
    by_cases ht : t2 = (lb.e : Int)
    · have hp : tailPop (emit s2 (.jmp t2)) lb.e = s2 := by simp [tailPop, ht]
      rw [hp]
      exact ⟨hx.setLabelHere lb.e, by simpa using ha, noSkipLast_setLabelHere _ (hns ht)⟩
    · have hp : tailPop (emit s2 (.jmp t2)) lb.e = emit s2 (.jmp t2) := by simp [tailPop, ht]
      rw [hp]
      refine ⟨hxj.setLabelHere lb.e, ?_, noSkipLast_setLabelHere _ (noSkipLast_emit _ _ rfl)⟩
      simp only [setLabelHere_code, mr_emit, maxregOf]; exact ha

/-! ### compileBranchCondition's default case -/

theorem bcDefault_post (e : Cond) (hE : ExprPost e) (hlog : e.isLogical = false) (st : CState) (reg flip L : Nat)
    (hI : Inv st) (hs : LocalsBelow st.regTop e) (htop : st.regTop ≤ reg) :
    Ext st (bcDefault (comp e (.expr reg ecnone0) st) reg flip L).st ∧
    NoSkipLast (bcDefault (comp e (.expr reg ecnone0) st) reg flip L).st := by
  have hst : (bcDefault (comp e (.expr reg ecnone0) st) reg flip L).st =
      emit (emit (opr false e reg st).1 (.test (opr false e reg st).2.1 0 flip)) (.jmp L) := by
    simp only [bcDefault, opr, hlog]
  rw [hst]
  obtain ⟨hx, _, hle, _⟩ := opr_post false e hE st reg hI hs htop
  exact ⟨(hx.emit (i := .test _ 0 flip) (hle rfl)).emit (i := .jmp L) trivial, noSkipLast_emit _ _ rfl⟩

theorem bcDefault_leaf_post (e : Cond) (he : isLeaf e = true) (st : CState) (reg flip L : Nat)
    (hI : Inv st) (hs : LocalsBelow st.regTop e) (htop : st.regTop ≤ reg) :
    Ext st (bcDefault (leafExpr e reg ecnone0 st) reg flip L).st ∧
    NoSkipLast (bcDefault (leafExpr e reg ecnone0 st) reg flip L).st := by
  rw [← comp_leaf_expr e he]
  exact bcDefault_post e (exprPost_leaf e he) (isLogical_leaf e he) st reg flip L hI hs htop

/-! ### leaves in compileLogicalOpExprAux -/

/-- `false` / `true`: only a jump (to lb.f / lb.t when the jump would leave the expression). -/
theorem aux_const_jump (st : CState) (hI : Inv st) (x y : Nat) (lb : LbLabels) (b : Bool) (reg : Nat) (ec : ExpCtx)
    (thenl elsel : Nat) (hasnext : Bool) (r : Res)
    (hr : r = if x = lb.e then { st := emit st (.jmp y), b := true } else { st := emit st (.jmp x), b := b }) :
    ∃ (s' : CState) (t : Int), r.st = emit s' (.jmp t) ∧ Ext st s' ∧
      (hasnext = false → thenl = lb.e → elsel = lb.e → x = lb.e → y ≠ lb.e →
        (t = (lb.e : Int) → NoSkipLast s') ∧ (r.b = true ∨ savereg ec reg ≤ mr s'.code)) := by
  subst hr
  split
  · exact ⟨st, (y : Int), rfl, Ext.refl hI, fun _ _ _ _ hy => ⟨fun h => absurd (by omega : y = lb.e) hy, Or.inl rfl⟩⟩
  · rename_i hne
    exact ⟨st, (x : Int), rfl, Ext.refl hI, fun _ _ _ h => absurd h hne⟩

/-- `nil` / numbers / strings: load and leave, or only a jump. -/
theorem aux_const_load (e : Cond) (he : isLeaf e = true) (st : CState) (hI : Inv st) (hs : LocalsBelow st.regTop e)
    (x : Nat) (lb : LbLabels) (b : Bool) (reg : Nat) (ec : ExpCtx) (thenl elsel : Nat) (hasnext : Bool) (r : Res)
    (hr : r = if x = lb.e then { st := emit (leafExpr e reg ec st).st (.jmp lb.e), b := b } else { st := emit st (.jmp x), b := b }) :
    ∃ (s' : CState) (t : Int), r.st = emit s' (.jmp t) ∧ Ext st s' ∧
      (hasnext = false → thenl = lb.e → elsel = lb.e → x = lb.e →
        (t = (lb.e : Int) → NoSkipLast s') ∧ (r.b = true ∨ savereg ec reg ≤ mr s'.code)) := by
  subst hr
  obtain ⟨h1, _, h3, h4⟩ := leaf_post e he st reg ec hI hs
  split
  · exact ⟨_, _, rfl, h1, fun _ _ _ _ => ⟨fun _ => h4, Or.inr h3⟩⟩
  · rename_i hne
    exact ⟨st, (x : Int), rfl, Ext.refl hI, fun _ _ _ h => absurd h hne⟩

/-! ### the induction -/

theorem subOK_leaf_ev (id : Nat) (st : CState) (reg : Nat) (hI : Inv st) :
    SubOK (fun ec' s => leafExpr (.ev id) reg ec' s) st reg := by
  refine ⟨fun ec' _ => ?_, fun ec' => Or.inl (fun a' b' => by simp [leafExpr])⟩
  obtain ⟨h1, _, h3, _⟩ := leaf_post (.ev id) rfl st reg ec' hI trivial
  exact ⟨h1, h3⟩

theorem subOK_leaf_loc (r : Nat) (st : CState) (reg : Nat) (hI : Inv st) (hr : r < st.regTop) :
    SubOK (fun ec' s => leafExpr (.loc r) reg ec' s) st reg := by
  refine ⟨fun ec' _ => ?_, fun ec' => Or.inr ⟨savereg ec' reg, r, rfl, loc_le_mr hI hr⟩⟩
  obtain ⟨h1, _, h3, _⟩ := leaf_post (.loc r) rfl st reg ec' hI hr
  exact ⟨h1, h3⟩

/-- an expression that is neither a local nor a logical operator, compiled by compileExpr inside the default case -/
theorem subOK_of_expr (e : Cond) (hE : ExprPost e) (hloc : isLoc e = false) (hlog : e.isLogical = false)
    (st : CState) (reg : Nat) (hI : Inv st) (hs : LocalsBelow st.regTop e) (htop : st.regTop ≤ reg) :
    SubOK (fun ec' s => comp e (.expr reg ec') s) st reg := by
  refine ⟨fun ec' hsv => ?_, fun ec' => Or.inl ?_⟩
  · obtain ⟨h1, _, h3, _⟩ := hE st reg ec' hI hs htop hsv
    exact ⟨h1, h3⟩
  · exact ((comp_frame e).1 st reg ec' htop).nomove hloc hlog

/-- compileLogicalOpExprAux's default case for such an expression -/
theorem auxPost_of_expr (e : Cond) (hE : ExprPost e) (hloc : isLoc e = false) (hlog : e.isLogical = false)
    (hcomp : ∀ (st : CState) (reg : Nat) (ec : ExpCtx) (thenl elsel : Nat) (hasnext : Bool) (lb : LbLabels) (b : Bool),
      comp e (.aux reg ec thenl elsel hasnext lb b) st =
        auxDefault (fun ec' s => comp e (.expr reg ec') s) reg ec thenl elsel hasnext lb b st) : AuxPost e := by
  intro st reg ec thenl elsel hasnext lb b hI hs htop hsv
  rw [hcomp]
  obtain ⟨s', t, h1, h2, h3⟩ := auxDefault_post (fun ec' s => comp e (.expr reg ec') s) reg ec thenl elsel hasnext lb b st
    (subOK_of_expr e hE hloc hlog st reg hI hs htop) hI hsv
  exact ⟨s', t, h1, h2, fun a b c _ _ => ⟨fun _ => (h3 a b c).1, Or.inr (h3 a b c).2⟩⟩

/-- compileBranchCondition's default case for such an expression -/
theorem bcPost_of_expr (e : Cond) (hE : ExprPost e) (hlog : e.isLogical = false)
    (hcomp : ∀ (st : CState) (reg thenl elsel : Nat) (hasnext : Bool),
      comp e (.bc reg thenl elsel hasnext) st =
        bcDefault (comp e (.expr reg ecnone0) st) reg (flipOf hasnext) (if hasnext then thenl else elsel)) : BcPost e := by
  intro st reg thenl elsel hasnext hI hs htop _
  rw [hcomp]
  exact bcDefault_post e hE hlog st reg _ _ hI hs htop

/-- value-context and/or (`compileLogicalOpExpr`), shared by `and` and `or`. -/
theorem logical_expr_post (l r : Cond) (al : AuxPost l) (ar : AuxPost r) (st : CState) (reg : Nat) (ec : ExpCtx)
    (hI : Inv st) (hsl : LocalsBelow st.regTop l) (hsr : LocalsBelow st.regTop r) (htop : st.regTop ≤ reg)
    (hsv : savereg ec reg ≤ reg) (thenl1 elsel1 : Nat) (hn1 : Bool) :
    let s4 : CState := { st with labelId := st.labelId + 1 + 1 + 1 + 1 }
    let lb : LbLabels := ⟨st.labelId + 1, st.labelId + 1 + 1, st.labelId⟩
    let r1 := comp l (.aux reg ec thenl1 elsel1 hn1 lb false) s4
    let r2 := comp r (.aux reg ec st.labelId st.labelId false lb r1.b) (setLabelHere r1.st (st.labelId + 1 + 1 + 1))
    Ext st (logicalTail r2.st (savereg ec reg) lb r2.b) ∧
    savereg ec reg ≤ mr (logicalTail r2.st (savereg ec reg) lb r2.b).code ∧
    NoSkipLast (logicalTail r2.st (savereg ec reg) lb r2.b) := by
  intro s4 lb r1 r2
  have hI4 : Inv s4 := ⟨hI.scan, hI.lbl, hI.top⟩
  have hx4 : Ext st s4 := ⟨hI4, List.prefix_refl _, rfl, List.prefix_refl _⟩
  obtain ⟨s1, t1, he1, hx1, _⟩ := al s4 reg ec thenl1 elsel1 hn1 lb false hI4 hsl htop hsv
  have hx1' : Ext s4 r1.st := by
    show Ext s4 (comp l (.aux reg ec thenl1 elsel1 hn1 lb false) s4).st
    rw [he1]; exact hx1.emit trivial
  have hx5 : Ext s4 (setLabelHere r1.st (st.labelId + 1 + 1 + 1)) := hx1'.setLabelHere _
  obtain ⟨s2, t2, he2, hx2, hc2⟩ := ar (setLabelHere r1.st (st.labelId + 1 + 1 + 1)) reg ec st.labelId st.labelId false lb r1.b
    hx5.inv (by rw [hx5.top]; exact hsr) (by rw [hx5.top]; exact htop) hsv
  obtain ⟨hns, hd⟩ := hc2 rfl rfl rfl (by show st.labelId + 1 ≠ st.labelId; omega) (by show st.labelId + 1 + 1 ≠ st.labelId; omega)
  exact logicalTail_post st r2.st s2 t2 r2.b (savereg ec reg) lb he2 (hx4.trans (hx5.trans hx2)) hns hd

/-- aux-context and/or, shared. -/
theorem logical_aux_post (l r : Cond) (al : AuxPost l) (ar : AuxPost r) (st : CState) (reg : Nat) (ec : ExpCtx)
    (thenl elsel : Nat) (hasnext : Bool) (lb : LbLabels) (b : Bool)
    (hI : Inv st) (hsl : LocalsBelow st.regTop l) (hsr : LocalsBelow st.regTop r) (htop : st.regTop ≤ reg)
    (hsv : savereg ec reg ≤ reg) (thenl1 elsel1 : Nat) (hn1 : Bool) :
    let s1 : CState := { st with labelId := st.labelId + 1 }
    let r1 := comp l (.aux reg ec thenl1 elsel1 hn1 lb b) s1
    let r2 := comp r (.aux reg ec thenl elsel hasnext lb r1.b) (setLabelHere r1.st st.labelId)
    ∃ (s' : CState) (t : Int), r2.st = emit s' (.jmp t) ∧ Ext st s' ∧
      (hasnext = false → thenl = lb.e → elsel = lb.e → lb.t ≠ lb.e → lb.f ≠ lb.e →
        (t = (lb.e : Int) → NoSkipLast s') ∧ (r2.b = true ∨ savereg ec reg ≤ mr s'.code)) := by
  intro s1 r1 r2
  have hI1 : Inv s1 := ⟨hI.scan, hI.lbl, hI.top⟩
  have hx0 : Ext st s1 := ⟨hI1, List.prefix_refl _, rfl, List.prefix_refl _⟩
  obtain ⟨sa, ta, hea, hxa, _⟩ := al s1 reg ec thenl1 elsel1 hn1 lb b hI1 hsl htop hsv
  have hx1' : Ext s1 r1.st := by
    show Ext s1 (comp l (.aux reg ec thenl1 elsel1 hn1 lb b) s1).st
    rw [hea]; exact hxa.emit trivial
  have hx5 : Ext s1 (setLabelHere r1.st st.labelId) := hx1'.setLabelHere _
  obtain ⟨s2, t2, he2, hx2, hc2⟩ := ar (setLabelHere r1.st st.labelId) reg ec thenl elsel hasnext lb r1.b
    hx5.inv (by rw [hx5.top]; exact hsr) (by rw [hx5.top]; exact htop) hsv
  exact ⟨s2, t2, he2, hx0.trans (hx5.trans hx2), hc2⟩

/-- branch-context and/or, shared. -/
theorem logical_bc_post (l r : Cond) (bl : BcPost l) (br : BcPost r) (st : CState) (reg : Nat)
    (thenl elsel : Nat) (hasnext : Bool)
    (hI : Inv st) (hsl : LocalsBelow st.regTop l) (hsr : LocalsBelow st.regTop r) (htop : st.regTop ≤ reg) (hns : NoSkipLast st)
    (thenl1 elsel1 : Nat) (hn1 : Bool) :
    let s1 : CState := { st with labelId := st.labelId + 1 }
    let r1 := comp l (.bc reg thenl1 elsel1 hn1) s1
    let r2 := comp r (.bc reg thenl elsel hasnext) (setLabelHere r1.st st.labelId)
    Ext st r2.st ∧ NoSkipLast r2.st := by
  intro s1 r1 r2
  have hI1 : Inv s1 := ⟨hI.scan, hI.lbl, hI.top⟩
  have hx0 : Ext st s1 := ⟨hI1, List.prefix_refl _, rfl, List.prefix_refl _⟩
  obtain ⟨hx1, hn1'⟩ := bl s1 reg thenl1 elsel1 hn1 hI1 hsl htop hns
  have hx5 : Ext s1 (setLabelHere r1.st st.labelId) := hx1.setLabelHere _
  obtain ⟨hx2, hn2⟩ := br (setLabelHere r1.st st.labelId) reg thenl elsel hasnext hx5.inv
    (by rw [hx5.top]; exact hsr) (by rw [hx5.top]; exact htop) (noSkipLast_setLabelHere _ hn1')
  exact ⟨hx0.trans (hx5.trans hx2), hn2⟩

theorem comp_post : ∀ (e : Cond), ExprPost e ∧ AuxPost e ∧ BcPost e := by
  intro e
  induction e with
  | tru =>
    refine ⟨exprPost_leaf .tru rfl, fun st reg ec thenl elsel hasnext lb b hI hs htop hsv => ?_,
      fun st reg thenl elsel hasnext hI hs htop hns => ?_⟩
    · obtain ⟨s', t, h1, h2, h3⟩ := aux_const_jump st hI thenl lb.t lb b reg ec thenl elsel hasnext
        (comp .tru (.aux reg ec thenl elsel hasnext lb b) st) (by simp only [comp])
      exact ⟨s', t, h1, h2, fun a b c d _ => h3 a b c b d⟩
    · simp only [comp]
      split
      · exact ⟨Ext.refl hI, hns⟩
      · exact bcDefault_leaf_post .tru rfl st reg 1 thenl hI hs htop
  | fls =>
    refine ⟨exprPost_leaf .fls rfl, fun st reg ec thenl elsel hasnext lb b hI hs htop hsv => ?_,
      fun st reg thenl elsel hasnext hI hs htop hns => ?_⟩
    · obtain ⟨s', t, h1, h2, h3⟩ := aux_const_jump st hI elsel lb.f lb b reg ec thenl elsel hasnext
        (comp .fls (.aux reg ec thenl elsel hasnext lb b) st) (by simp only [comp])
      exact ⟨s', t, h1, h2, fun a b c _ e => h3 a b c c e⟩
    · simp only [comp]
      split
      · exact ⟨ext_emit hI trivial, noSkipLast_emit _ _ rfl⟩
      · exact bcDefault_leaf_post .fls rfl st reg 1 thenl hI hs htop
  | nil =>
    refine ⟨exprPost_leaf .nil rfl, fun st reg ec thenl elsel hasnext lb b hI hs htop hsv => ?_,
      fun st reg thenl elsel hasnext hI hs htop hns => ?_⟩
    · obtain ⟨s', t, h1, h2, h3⟩ := aux_const_load .nil rfl st hI hs elsel lb b reg ec thenl elsel hasnext
        (comp .nil (.aux reg ec thenl elsel hasnext lb b) st) (by simp only [comp])
      exact ⟨s', t, h1, h2, fun a b c _ _ => h3 a b c c⟩
    · simp only [comp]
      split
      · exact ⟨ext_emit hI trivial, noSkipLast_emit _ _ rfl⟩
      · exact bcDefault_leaf_post .nil rfl st reg 1 thenl hI hs htop
  | num n =>
    refine ⟨exprPost_leaf (.num n) rfl, fun st reg ec thenl elsel hasnext lb b hI hs htop hsv => ?_,
      fun st reg thenl elsel hasnext hI hs htop hns => ?_⟩
    · obtain ⟨s', t, h1, h2, h3⟩ := aux_const_load (.num n) rfl st hI hs thenl lb b reg ec thenl elsel hasnext
        (comp (.num n) (.aux reg ec thenl elsel hasnext lb b) st) (by simp only [comp])
      exact ⟨s', t, h1, h2, fun a b c _ _ => h3 a b c b⟩
    · simp only [comp]
      split
      · exact ⟨Ext.refl hI, hns⟩
      · exact bcDefault_leaf_post (.num n) rfl st reg 1 thenl hI hs htop
  | str n =>
    refine ⟨exprPost_leaf (.str n) rfl, fun st reg ec thenl elsel hasnext lb b hI hs htop hsv => ?_,
      fun st reg thenl elsel hasnext hI hs htop hns => ?_⟩
    · obtain ⟨s', t, h1, h2, h3⟩ := aux_const_load (.str n) rfl st hI hs thenl lb b reg ec thenl elsel hasnext
        (comp (.str n) (.aux reg ec thenl elsel hasnext lb b) st) (by simp only [comp])
      exact ⟨s', t, h1, h2, fun a b c _ _ => h3 a b c b⟩
    · simp only [comp]
      split
      · exact ⟨Ext.refl hI, hns⟩
      · exact bcDefault_leaf_post (.str n) rfl st reg 1 thenl hI hs htop
  | loc r =>
    refine ⟨exprPost_leaf (.loc r) rfl, fun st reg ec thenl elsel hasnext lb b hI hs htop hsv => ?_,
      fun st reg thenl elsel hasnext hI hs htop hns => ?_⟩
    · have hr : r ≤ mr st.code := loc_le_mr hI hs
      simp only [comp]
      split
      · rename_i hcond
        rw [ite_emit]
        refine ⟨_, _, rfl, ext_emit hI ?_, fun h1 h2 h3 => ?_⟩
        · split
          · rename_i heq; simp only [IOK]; omega
          · exact hr
        · rcases hcond with ⟨_, hne⟩ | ⟨_, hn⟩
          · exact absurd (h2.trans h3.symm) hne
          · rw [h1] at hn; cases hn
      · obtain ⟨s', t, h1, h2, h3⟩ := auxDefault_post (fun ec' s => leafExpr (.loc r) reg ec' s) reg ec thenl elsel hasnext lb b st
          (subOK_leaf_loc r st reg hI hs) hI hsv
        exact ⟨s', t, h1, h2, fun a b c _ _ => ⟨fun _ => (h3 a b c).1, Or.inr (h3 a b c).2⟩⟩
    · simp only [comp]
      exact bcDefault_leaf_post (.loc r) rfl st reg _ _ hI hs htop
  | ev id =>
    refine ⟨exprPost_leaf (.ev id) rfl, fun st reg ec thenl elsel hasnext lb b hI hs htop hsv => ?_,
      fun st reg thenl elsel hasnext hI hs htop hns => ?_⟩
    · simp only [comp]
      obtain ⟨s', t, h1, h2, h3⟩ := auxDefault_post (fun ec' s => leafExpr (.ev id) reg ec' s) reg ec thenl elsel hasnext lb b st
        (subOK_leaf_ev id st reg hI) hI hsv
      exact ⟨s', t, h1, h2, fun a b c _ _ => ⟨fun _ => (h3 a b c).1, Or.inr (h3 a b c).2⟩⟩
    · simp only [comp]
      exact bcDefault_leaf_post (.ev id) rfl st reg _ _ hI hs htop
  | not c ih =>
    obtain ⟨ec', _, bc'⟩ := ih
    have hE : ExprPost (.not c) := by
      intro st reg ec hI hs htop hsv
      simp only [comp]
      obtain ⟨h1, h2, h3, h4⟩ := notExpr_post c ec' st reg ec hI hs htop
      exact ⟨h1, h2, h3, h4, fun l r h => by cases h⟩
    refine ⟨hE, auxPost_of_expr _ hE rfl rfl (fun _ _ _ _ _ _ _ _ => rfl), fun st reg thenl elsel hasnext hI hs htop hns => ?_⟩
    simp only [comp]
    exact bc' st reg elsel thenl (!hasnext) hI hs htop hns
  | arith op l r ihl ihr =>
    obtain ⟨el, _, _⟩ := ihl
    obtain ⟨er, _, _⟩ := ihr
    have hE : ExprPost (.arith op l r) := by
      intro st reg ec hI hs htop hsv
      simp only [comp]
      obtain ⟨h1, h2, h3, h4⟩ := arithExpr_post (lnum (.arith op l r)) op l r el er st reg ec hI hs.1 hs.2 htop
      exact ⟨h1, h2, h3, h4, fun l r h => by cases h⟩
    exact ⟨hE, auxPost_of_expr _ hE rfl rfl (fun _ _ _ _ _ _ _ _ => rfl), bcPost_of_expr _ hE rfl (fun _ _ _ _ _ => rfl)⟩
  | unm c ih =>
    obtain ⟨ec', _, _⟩ := ih
    have hE : ExprPost (.unm c) := by
      intro st reg ec hI hs htop hsv
      simp only [comp, unmExpr]
      cases lnum (.unm c) with
      | some x =>
        obtain ⟨h1, h2, h3, h4⟩ := loadK_post (.num x) st reg ec hI
        exact ⟨h1, h2, h3, h4, fun l r h => by cases h⟩
      | none =>
        obtain ⟨h1, h2, h3, h4⟩ := unop_post .unm c ec' st reg ec hI hs htop (fun _ _ _ _ h => h) (fun _ _ _ => rfl) (fun _ _ => rfl)
        exact ⟨h1, h2, h3, h4, fun l r h => by cases h⟩
    exact ⟨hE, auxPost_of_expr _ hE rfl rfl (fun _ _ _ _ _ _ _ _ => rfl), bcPost_of_expr _ hE rfl (fun _ _ _ _ _ => rfl)⟩
  | len c ih =>
    obtain ⟨ec', _, _⟩ := ih
    have hE : ExprPost (.len c) := by
      intro st reg ec hI hs htop hsv
      simp only [comp]
      obtain ⟨h1, h2, h3, h4⟩ := unop_post .len c ec' st reg ec hI hs htop (fun _ _ _ _ h => h) (fun _ _ _ => rfl) (fun _ _ => rfl)
      exact ⟨h1, h2, h3, h4, fun l r h => by cases h⟩
    exact ⟨hE, auxPost_of_expr _ hE rfl rfl (fun _ _ _ _ _ _ _ _ => rfl), bcPost_of_expr _ hE rfl (fun _ _ _ _ _ => rfl)⟩
  | concat l r ihl ihr =>
    obtain ⟨el, _, _⟩ := ihl
    obtain ⟨er, _, _⟩ := ihr
    have hE : ExprPost (.concat l r) := by
      intro st reg ec hI hs htop hsv
      simp only [comp]
      obtain ⟨s', hs', hx, hm, hnc, hne⟩ := concatExpr_post l r el er st reg ec hI hs.1 hs.2 htop
      have hx' : Ext st (emit s' (.concat (savereg ec reg) reg (reg + (1 + spine r)))) :=
        hx.emit (by simp only [IOK]; omega)
      refine ⟨by rw [hs']; exact hx', rfl, ?_, by rw [hs']; exact noSkipLast_emit _ _ rfl, ?_⟩
      · rw [hs']; simp only [mr_emit, maxregOf, Instr.argA]; omega
      · intro l' r' h
        cases h
        exact ⟨s', hs', hx, hm, hnc, hne⟩
    exact ⟨hE, auxPost_of_expr _ hE rfl rfl (fun _ _ _ _ _ _ _ _ => rfl), bcPost_of_expr _ hE rfl (fun _ _ _ _ _ => rfl)⟩
  | rel op l r ihl ihr =>
    obtain ⟨el, _, _⟩ := ihl
    obtain ⟨er, _, _⟩ := ihr
    refine ⟨fun st reg ec hI hs htop hsv => ?_, fun st reg ec thenl elsel hasnext lb b hI hs htop hsv => ?_,
      fun st reg thenl elsel hasnext hI hs htop hns => ?_⟩
    · simp only [comp, newLabel]
      have hI1 : Inv { st with labelId := st.labelId + 1 } := ⟨hI.scan, hI.lbl, hI.top⟩
      have hx0 : Ext st { st with labelId := st.labelId + 1 } := ⟨hI1, List.prefix_refl _, rfl, List.prefix_refl _⟩
      obtain ⟨s', he, hx⟩ := relAux_post l r el er { st with labelId := st.labelId + 1 } reg op 1 st.labelId hI1 hs.1 hs.2 htop (Nat.le_refl _)
      rw [he]
      have hx' := ((((hx0.trans hx).emit (i := .jmp (st.labelId : Int)) trivial).emit (i := .loadbool (savereg ec reg) 0 1) (by simp [IOK])).setLabelHere st.labelId).emit
        (i := .loadbool (savereg ec reg) 1 0) (by simp [IOK])
      refine ⟨hx', by first | rfl | trivial, ?_, noSkipLast_emit _ _ rfl, fun _ _ h => by cases h⟩
      simp only [mr_emit, maxregOf, Instr.argA]; omega
    · simp only [comp]
      by_cases h1 : thenl = elsel
      · simp only [h1, if_true]
        obtain ⟨s', he, hx⟩ := relAux_post l r el er st reg op (1 - flipOf hasnext) lb.t hI hs.1 hs.2 htop (by omega)
        exact ⟨s', _, he, hx, fun _ _ _ ht _ => ⟨fun h => absurd (by omega : lb.t = lb.e) ht, Or.inl (by first | rfl | trivial)⟩⟩
      · simp only [h1, if_false]
        by_cases h2 : thenl = lb.e
        · simp only [h2, if_true]
          obtain ⟨s', he, hx⟩ := relAux_post l r el er st reg op (flipOf hasnext) lb.t hI hs.1 hs.2 htop (flipOf_le _)
          exact ⟨s', _, he, hx, fun _ _ _ ht _ => ⟨fun h => absurd (by omega : lb.t = lb.e) ht, Or.inl (by first | rfl | trivial)⟩⟩
        · simp only [h2, if_false]
          by_cases h3 : elsel = lb.e
          · simp only [h3, if_true]
            obtain ⟨s', he, hx⟩ := relAux_post l r el er st reg op (flipOf hasnext) lb.f hI hs.1 hs.2 htop (flipOf_le _)
            exact ⟨s', _, he, hx, fun _ h _ _ _ => by first | exact absurd h h2 | exact h.elim⟩
          · simp only [h3, if_false]
            obtain ⟨s', he, hx⟩ := relAux_post l r el er st reg op (flipOf hasnext) (if hasnext then thenl else elsel) hI hs.1 hs.2 htop (flipOf_le _)
            exact ⟨s', _, he, hx, fun _ h _ _ _ => by first | exact absurd h h2 | exact h.elim⟩
    · simp only [comp]
      obtain ⟨s', he, hx⟩ := relAux_post l r el er st reg op (flipOf hasnext) (if hasnext then thenl else elsel) hI hs.1 hs.2 htop (flipOf_le _)
      rw [he]
      exact ⟨hx.emit trivial, noSkipLast_emit _ _ rfl⟩
  | and l r ihl ihr =>
    obtain ⟨_, al, bl⟩ := ihl
    obtain ⟨_, ar, br⟩ := ihr
    refine ⟨fun st reg ec hI hs htop hsv => ?_, fun st reg ec thenl elsel hasnext lb b hI hs htop hsv => ?_,
      fun st reg thenl elsel hasnext hI hs htop hns => ?_⟩
    · simp only [comp, newLabel]
      obtain ⟨h1, h2, h3⟩ := logical_expr_post l r al ar st reg ec hI hs.1 hs.2 htop hsv (st.labelId + 1 + 1 + 1) st.labelId false
      exact ⟨h1, by first | rfl | trivial, h2, h3, fun _ _ h => by cases h⟩
    · simp only [comp, newLabel]
      exact logical_aux_post l r al ar st reg ec thenl elsel hasnext lb b hI hs.1 hs.2 htop hsv st.labelId elsel false
    · simp only [comp, newLabel]
      exact logical_bc_post l r bl br st reg thenl elsel hasnext hI hs.1 hs.2 htop hns st.labelId elsel false
  | or l r ihl ihr =>
    obtain ⟨_, al, bl⟩ := ihl
    obtain ⟨_, ar, br⟩ := ihr
    refine ⟨fun st reg ec hI hs htop hsv => ?_, fun st reg ec thenl elsel hasnext lb b hI hs htop hsv => ?_,
      fun st reg thenl elsel hasnext hI hs htop hns => ?_⟩
    · simp only [comp, newLabel]
      obtain ⟨h1, h2, h3⟩ := logical_expr_post l r al ar st reg ec hI hs.1 hs.2 htop hsv st.labelId (st.labelId + 1 + 1 + 1) true
      exact ⟨h1, by first | rfl | trivial, h2, h3, fun _ _ h => by cases h⟩
    · simp only [comp, newLabel]
      exact logical_aux_post l r al ar st reg ec thenl elsel hasnext lb b hI hs.1 hs.2 htop hsv thenl st.labelId true
    · simp only [comp, newLabel]
      exact logical_bc_post l r bl br st reg thenl elsel hasnext hI hs.1 hs.2 htop hns thenl st.labelId true

end GLua.CompileWf
