/-
  compile_fragment_wf, part 8: assembly.  For a well-scoped program the compile-state invariant (`main_post`) and the
  index invariant of patchCode (`patchCode_spec`) give the certificate `Cert` of the patched code, hence `wf`.
-/
import GLua.Proofs.CompileWfStmt
import GLua.Proofs.CompileWfPatch
import GLua.Proofs.CompileWfCert

namespace GLua.CompileWf
open GLua GLua.Compile GLua.MiniVM GLua.Verifier GLua.Generated GLua.Lowering

variable [NumStruct]
set_option linter.unusedSectionVars false

/-- an integer number structure for the kernel-evaluated examples of Props/C07.lean (`/` truncates, `^` takes the
    exponent's absolute value, no NaN: any total operations do — the theorems are for EVERY number structure). -/
@[reducible] def intNS : NumStruct where
  N := Int
  deq := inferInstance
  add := (· + ·)
  sub := (· - ·)
  mul := (· * ·)
  div := (· / ·)
  mod := (· % ·)
  pow := fun a b => a ^ b.toNat
  neg := (- ·)
  lit := id
  isNaN := fun _ => false

theorem maxregOf_mono (i : Instr) {m m' : Nat} (h : m ≤ m') : maxregOf i m ≤ maxregOf i m' := by
  cases i <;> simp only [maxregOf] <;> (try split) <;> (try split) <;> omega

/-- the register an instruction counts is below the final high-water mark -/
theorem mr_ge_at : ∀ (c : List Instr) (m pc : Nat) (i : Instr), c[pc]? = some i → maxregOf i 0 ≤ mrFrom m c := by
  intro c
  induction c with
  | nil => intro m pc i h; simp at h
  | cons x r ih =>
    intro m pc i h
    cases pc with
    | zero =>
      simp at h; subst h
      have h1 := le_mrFrom (maxregOf x m) r
      have h2 := maxregOf_mono x (Nat.zero_le m)
      simp only [mrFrom, List.foldl_cons] at h1 ⊢
      omega
    | succ j =>
      simp at h
      have := ih (maxregOf x m) j i h
      simpa [mrFrom] using this

theorem lookup_range (lp : List (Nat × Int)) (k : Nat) (lo hi : Int) (h : ∀ p ∈ lp, lo ≤ p.2 ∧ p.2 < hi) (h0 : lo ≤ 0 ∧ 0 < hi) :
    lo ≤ lookupLabel lp k ∧ lookupLabel lp k < hi := by
  induction lp with
  | nil => simpa [lookupLabel] using h0
  | cons p r ih =>
    obtain ⟨l, v⟩ := p
    simp only [lookupLabel]
    split
    · exact h (l, v) (List.mem_cons_self ..)
    · exact ih (fun q hq => h q (List.mem_cons_of_mem _ hq))

/-- the facts about the UNPATCHED code of a well-scoped program that the certificate needs -/
structure OrigOK (st : CState) : Prop where
  iok : ∀ (pc : Nat) (i : Instr), st.code[pc]? = some i → IOK st.consts (mr st.code) i
  cnt : ∀ (pc : Nat) (i : Instr), st.code[pc]? = some i → maxregOf i 0 ≤ mr st.code
  next : ∀ (pc : Nat) (i : Instr), st.code[pc]? = some i → pc + 1 < st.code.length ∨ i = .ret 0 1
  skip : ∀ (pc : Nat) (i : Instr), st.code[pc]? = some i → isSkip i = true → pc + 2 < st.code.length
  lg : LG st.code st.labelPc
  last : st.code[st.code.length - 1]? = some (.ret 0 1)
  pos : 0 < st.code.length

theorem origOK_main (n : Nat) (body : Block) (hs : scopeOK n body = true) : OrigOK (compileMain n body) := by
  obtain ⟨hI, hlbl, c, hc, hns⟩ := main_post n body hs
  generalize compileMain n body = st at hI hlbl hc hns
  have hlen : st.code.length = c.length + 1 := by rw [hc]; simp
  have hnext : ∀ (pc : Nat) (i : Instr), st.code[pc]? = some i → pc + 1 < st.code.length ∨ i = .ret 0 1 := by
    intro pc i h
    by_cases hlt : pc < c.length
    · left; omega
    · right
      rw [hc] at h
      have hpc : pc = c.length := by
        by_cases h2 : pc < (c ++ [Instr.ret 0 1]).length
        · simp at h2; omega
        · simp [List.getElem?_eq_none (Nat.le_of_not_lt h2)] at h
      subst hpc
      simpa using h.symm
  refine ⟨fun pc i h => hI.scan.get h, fun pc i h => mr_ge_at _ 1 pc i h, hnext, ?_, ?_, ?_, by omega⟩
  · intro pc i h hsk
    rcases hnext pc i h with h1 | h1
    · by_cases h2 : pc + 2 < st.code.length
      · exact h2
      · -- pc is the last index of `c`
        have hpc : pc + 1 = c.length := by omega
        have hci : c[pc]? = some i := by
          rw [hc] at h
          rwa [List.getElem?_append_left (by omega)] at h
        have : c.getLast? = some i := by
          rw [List.getLast?_eq_getElem?, ← hci]; congr 1; omega
        rw [hns i this] at hsk; cases hsk
    · subst h1; cases hsk
  · intro pc L h
    have hN : pc + 1 < st.code.length := by
      rcases hnext pc _ h with h1 | h1
      · exact h1
      · cases h1
    have := lookup_range st.labelPc L.toNat (-1) ((st.code.length : Int) - 1)
      (fun p hp => by have := hlbl p hp; omega) (by omega)
    omega
  · rw [hc]; simp

/-- no instruction of a well-scoped program's code is TFORLOOP -/
theorem origOK_noTFor {st : CState} (ho : OrigOK st) (pc : Nat) : afterTForLoop st.code pc = false := by
  rw [afterTForLoop_eq]
  cases hi : st.code[pc - 1]? with
  | none => simp [tfOf]
  | some i =>
    have := ho.iok _ _ hi
    cases i <;> simp only [tfOf, Bool.and_false]
    case abc op a b c =>
      simp only [IOK] at this
      rw [this.1]; simp [OP_VARARG, OP_TFORLOOP]

theorem fragOK_cert (n : Nat) (body : Block) (hs : scopeOK n body = true) (code : List Instr) (nregs : Nat)
    (hp : patchCode (compileMain n body) = .ok (code, nregs))
    (hk : (compileMain n body).consts.length ≤ opMaxArgBx + 1) :
    Cert (compileMain n body).consts code nregs := by
  have ho := origOK_main n body hs
  obtain ⟨hcl, hnr, hmaxr, hfin⟩ := patchCode_spec _ code nregs hp
  generalize compileMain n body = st at ho hcl hnr hfin hk
  have hM : nregs - 1 = mr st.code := by omega
  have hsb : (opMaxArgSbx : Nat) = 131071 := rfl
  -- the patched instruction at an index, with its origin
  have hat : ∀ (pc : Nat) (x : Instr), code[pc]? = some x → ∃ i, st.code[pc]? = some i ∧ FinI st.code st.labelPc pc i x := by
    intro pc x hx
    have hpc : pc < st.code.length := by
      by_cases h : pc < code.length
      · omega
      · simp [List.getElem?_eq_none (Nat.le_of_not_lt h)] at hx
    obtain ⟨x', hx', hf⟩ := hfin pc hpc
    rw [hx] at hx'; cases hx'
    exact hf
  refine ⟨hmaxr, by omega, hk, ?_, ?_⟩
  · intro pc x hx
    obtain ⟨i, hi, hf⟩ := hat pc x hx
    rw [hM, hcl]
    have hiok := ho.iok pc i hi
    have hcnt := ho.cnt pc i hi
    have hnext := ho.next pc i hi
    have hskip := ho.skip pc i hi
    cases i
    case move a b =>
      simp only [IOK] at hiok
      simp only [maxregOf, Instr.argA] at hcnt
      have hn : pc + 1 < st.code.length := by
        rcases hnext with h | h
        · exact h
        · cases h
      simp only [FinI] at hf
      rcases hf with rfl | ⟨c, rfl, hc1, hc2, hstart, hfol, hend⟩
      · simp only [XI]; omega
      · simp only [XI]
        refine ⟨by omega, hiok, hc2, by omega, ?_⟩
        intro k hk
        obtain ⟨a', b', hab⟩ := hfol (k + 1) (by omega) (by omega)
        have hidx : pc + 1 + k = pc + (k + 1) := by omega
        rw [hidx]
        have hlt : pc + (k + 1) < st.code.length := by omega
        obtain ⟨x', hx', i', hi', hf'⟩ := hfin _ hlt
        rw [hab] at hi'; cases hi'
        have hb' : b' ≤ mr st.code := by have := ho.iok _ _ hab; simpa [IOK] using this
        simp only [FinI] at hf'
        rcases hf' with rfl | ⟨c', _, _, _, hstart', _, _⟩
        · exact ⟨a', b', hx', hb'⟩
        · exfalso
          rcases hstart' with h0 | h0
          · omega
          · apply h0
            have e : pc + (k + 1) - 1 = pc + k := by omega
            rw [e]
            by_cases hk0 : k = 0
            · subst hk0; exact ⟨a, b, hi⟩
            · exact hfol k (by omega) (by omega)
    case jmp L =>
      have hn : pc + 1 < st.code.length := by
        rcases hnext with h | h
        · exact h
        · cases h
      simp only [FinI] at hf
      obtain ⟨d, htj, rfl⟩ := hf
      have htf := origOK_noTFor ho pc
      by_cases hd0 : d = 0
      · simp only [hd0, htf, and_self, if_true, XI]; exact hn
      · simp only [hd0, false_and, if_false, XI]
        rcases threadJmp_range st.code st.labelPc pc ho.lg 5 (.jmp L) 0 ⟨pc, hi⟩ d htj with h | ⟨h1, h2⟩
        · exact absurd h hd0
        · rcases threadJmp_fits st.code st.labelPc pc 5 (.jmp L) 0 d htj with h | ⟨h3, h4⟩
          · exact absurd h hd0
          · simp only [hsb] at h3 h4
            refine ⟨by omega, by omega, by omega, by omega⟩
    case moven => simp [IOK] at hiok
    case nop => simp [IOK] at hiok
    case ret a b =>
      simp only [FinI] at hf
      subst hf
      simpa only [IOK, XI] using hiok
    all_goals
      have hn : pc + 1 < st.code.length := by
        rcases hnext with h | h
        · exact h
        · cases h
      simp only [FinI] at hf
      subst hf
      simp only [IOK] at hiok
      simp only [XI]
    case loadk a bx => simp only [maxregOf, Instr.argA] at hcnt; omega
    case loadbool a b c =>
      simp only [maxregOf, Instr.argA] at hcnt
      refine ⟨by omega, hiok, hn, fun hc0 => hskip ?_⟩
      simp [isSkip, hc0]
    case loadnil a b => simp only [maxregOf] at hcnt; omega
    case not a b => simp only [maxregOf, Instr.argA] at hcnt; omega
    case test a b c => exact ⟨hiok, hskip rfl⟩
    case testset a b c => simp only [maxregOf, Instr.argA] at hcnt; exact ⟨by omega, hiok, hskip rfl⟩
    case eq a b c => exact ⟨hiok.1, hiok.2.1, hiok.2.2, hskip rfl⟩
    case lt a b c => exact ⟨hiok.1, hiok.2.1, hiok.2.2, hskip rfl⟩
    case le a b c => exact ⟨hiok.1, hiok.2.1, hiok.2.2, hskip rfl⟩
    case eval a id => simp only [maxregOf, Instr.argA] at hcnt; exact ⟨by omega, hiok, hn⟩
    case setg a id => exact ⟨hiok.1, hiok.2, hn⟩
    case arith op a b c => simp only [maxregOf, Instr.argA] at hcnt; exact ⟨by omega, hiok.1, hiok.2, hn⟩
    case unm a b => simp only [maxregOf, Instr.argA] at hcnt; omega
    case len a b => simp only [maxregOf, Instr.argA] at hcnt; omega
    case concat a b c => simp only [maxregOf, Instr.argA] at hcnt; omega
    case abc op a b c =>
      obtain ⟨rfl, rfl, hb, rfl⟩ := hiok
      simp only [maxregOf, if_true] at hcnt
      exact ⟨rfl, rfl, hb, by omega, rfl, hn⟩
  · rw [hcl]
    obtain ⟨x, hx, i, hi, hf⟩ := hfin (st.code.length - 1) (by have := ho.pos; omega)
    rw [ho.last] at hi; cases hi
    simp only [FinI] at hf
    subst hf
    exact ⟨0, 1, hx⟩

/-- **compile ⇒ wf for the modelled fragment** (Proofs-level statement; `Props/C07.lean` restates it). -/
theorem fragOK_wf (n : Nat) (body : Block) (h : FragOK n body = true) :
    ∃ p, fragProto n body = .ok p ∧ wf p = true := by
  unfold FragOK at h
  rw [Bool.and_eq_true] at h
  obtain ⟨hs, hg⟩ := h
  unfold fragProto at hg ⊢
  simp only [] at hg ⊢
  cases hp : patchCode (compileMain n body) with
  | error e => simp [hp] at hg
  | ok r =>
    obtain ⟨code, nregs⟩ := r
    simp only [hp, decide_eq_true_eq] at hg
    refine ⟨_, rfl, cert_wf n _ code nregs (fragOK_cert n body hs code nregs hp ?_)⟩
    rwa [toProto_consts_size] at hg

end GLua.CompileWf
