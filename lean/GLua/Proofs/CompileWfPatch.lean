/-
  compile_fragment_wf, part 4: `patchCode`.

  * `threadJmp` (the jump-to-jump loop) returns either the distance it was started with or a distance within
    ±opMaxArgSbx (both range checks of HEAD's patchCode are modelled) that leads to a bound label of a JMP of the
    unpatched code, inside the code when every label referenced by a JMP is bound inside the code (`LG`); its only
    error is "too long to jump.".
  * `patchLoop` index invariant (`PInv`): which instruction ends up at which index (`Fin`): a JMP becomes JMP distance /
    NOP, the FIRST MOVE of a maximal run of ≥ 2 MOVEs that is followed by another instruction becomes MOVEN with
    C = min(run - 1, 511), every other instruction (in particular every other MOVE of a run) is unchanged; the
    register count is the fold `mr` of `maxregOf`.
-/
import GLua.Proofs.CompileWfDefs

namespace GLua.CompileWf
open GLua.Compile GLua.MiniVM GLua.Lowering

variable [NumStruct]
set_option linter.unusedSectionVars false

/-! ### the loop body, named -/

def patchJmp (orig : List Instr) (lp : List (Nat × Int)) (pc : Nat) (code : List Instr) (inst : Instr) : Except String (List Instr) :=
  match inst with
  | .jmp sbx =>
    match threadJmp orig lp pc 5 inst 0 with
    | .error e => .error e
    | .ok distance => .ok (if distance = 0 ∧ afterTForLoop code pc = false then setAt code pc (.nop sbx)
                            else setAt code pc (.jmp distance))
  | _ => .ok code

def mergeMoven (code : List Instr) (pc moven : Nat) : List Instr :=
  if moven > 1 then
    match code[pc - moven]? with
    | some (.move a b) => setAt code (pc - moven) (.moven a b (min (moven - 1) Generated.opMaxArgsC))
    | _ => code
  else code

theorem patchLoop_succ (orig : List Instr) (lp : List (Nat × Int)) (fuel pc : Nat) (ps : PatchState) (inst : Instr)
    (h : orig[pc]? = some inst) :
    patchLoop orig lp (fuel + 1) pc ps =
      match patchJmp orig lp pc ps.code inst with
      | .error e => .error e
      | .ok code =>
        if inst.isMove then patchLoop orig lp fuel (pc + 1) { code := code, maxreg := maxregOf inst ps.maxreg, moven := ps.moven + 1 }
        else patchLoop orig lp fuel (pc + 1) { code := mergeMoven code pc ps.moven, maxreg := maxregOf inst ps.maxreg, moven := 0 } := by
  cases inst <;> simp only [patchLoop, h, patchJmp, mergeMoven, bind, Except.bind, pure, Except.pure] <;>
    first | rfl | (cases threadJmp orig lp pc 5 _ 0 <;> rfl)

theorem patchLoop_none (orig : List Instr) (lp : List (Nat × Int)) (fuel pc : Nat) (ps : PatchState)
    (h : orig[pc]? = none) : patchLoop orig lp fuel pc ps = .ok ps := by
  cases fuel <;> simp [patchLoop, h]

/-! ### jump threading stays inside the code -/

/-- every label a JMP of the code refers to resolves to a target inside the code. -/
def LG (orig : List Instr) (lp : List (Nat × Int)) : Prop :=
  ∀ (pc : Nat) (L : Int), orig[pc]? = some (Instr.jmp L) → -1 ≤ lookupLabel lp L.toNat ∧ lookupLabel lp L.toNat + 1 < (orig.length : Int)

def InRange (orig : List Instr) (pc : Nat) (d : Int) : Prop := 0 ≤ (pc : Int) + d + 1 ∧ (pc : Int) + d + 1 < (orig.length : Int)

/-- every distance the loop produces itself (i.e. other than the one it was started with) passed both range checks:
    it fits the sBx field.  No hypothesis on the labels. -/
theorem threadJmp_fits (orig : List Instr) (lp : List (Nat × Int)) (pc : Nat) :
    ∀ (fuel : Nat) (cur : Instr) (dist res : Int), threadJmp orig lp pc fuel cur dist = .ok res →
      res = dist ∨ (-(Generated.opMaxArgSbx : Int) ≤ res ∧ res ≤ (Generated.opMaxArgSbx : Int)) := by
  intro fuel
  induction fuel with
  | zero => intro cur dist res h; simp [threadJmp] at h; exact Or.inl h.symm
  | succ n ih =>
    intro cur dist res h
    cases cur with
    | jmp sbx =>
      simp only [threadJmp] at h
      split at h
      · split at h
        · cases h
        · simp only [Except.ok.injEq] at h; exact Or.inl h.symm
      · rename_i hr
        have hfit : -(Generated.opMaxArgSbx : Int) ≤ lookupLabel lp sbx.toNat - (pc : Int) ∧
            lookupLabel lp sbx.toNat - (pc : Int) ≤ (Generated.opMaxArgSbx : Int) := by omega
        split at h
        · simp only [Except.ok.injEq] at h; subst h; exact Or.inr hfit
        · split at h
          · simp only [Except.ok.injEq] at h; subst h; exact Or.inr hfit
          · rcases ih _ _ _ h with hr' | hr'
            · subst hr'; exact Or.inr hfit
            · exact Or.inr hr'
    | _ => simp [threadJmp] at h; exact Or.inl h.symm

/-- the only error of the loop is the compile error -/
theorem threadJmp_error (orig : List Instr) (lp : List (Nat × Int)) (pc : Nat) :
    ∀ (fuel : Nat) (cur : Instr) (dist : Int) (e : String), threadJmp orig lp pc fuel cur dist = .error e →
      e = "too long to jump." := by
  intro fuel
  induction fuel with
  | zero => intro cur dist e h; simp [threadJmp] at h
  | succ n ih =>
    intro cur dist e h
    cases cur with
    | jmp sbx =>
      simp only [threadJmp] at h
      split at h
      · split at h
        · simp only [Except.error.injEq] at h; exact h.symm
        · cases h
      · split at h
        · cases h
        · split at h
          · cases h
          · exact ih _ _ _ h
    | _ => simp [threadJmp] at h

/-- with every label of a JMP bound inside the code, every distance the loop produces leads inside the code -/
theorem threadJmp_range (orig : List Instr) (lp : List (Nat × Int)) (pc : Nat) (hlg : LG orig lp) :
    ∀ (fuel : Nat) (cur : Instr) (dist : Int), (∃ t : Nat, orig[t]? = some cur) →
      ∀ res, threadJmp orig lp pc fuel cur dist = .ok res → res = dist ∨ InRange orig pc res := by
  intro fuel
  induction fuel with
  | zero => intro cur dist _ res h; simp [threadJmp] at h; exact Or.inl h.symm
  | succ n ih =>
    intro cur dist ⟨t, ht⟩ res h
    cases cur with
    | jmp sbx =>
      obtain ⟨hl1, hl2⟩ := hlg t sbx ht
      have hin : InRange orig pc (lookupLabel lp sbx.toNat - (pc : Int)) := ⟨by omega, by omega⟩
      simp only [threadJmp] at h
      split at h
      · split at h
        · cases h
        · simp only [Except.ok.injEq] at h; exact Or.inl h.symm
      · split at h
        · simp only [Except.ok.injEq] at h; subst h; exact Or.inr hin
        · split at h
          · simp only [Except.ok.injEq] at h; subst h; exact Or.inr hin
          · rename_i next hnext
            rcases ih next _ ⟨_, hnext⟩ res h with hr | hr
            · subst hr; exact Or.inr hin
            · exact Or.inr hr
    | _ => simp [threadJmp] at h; exact Or.inl h.symm

/-! ### which instruction ends up where -/

def isMoveAt (orig : List Instr) (j : Nat) : Prop := ∃ a b, orig[j]? = some (.move a b)

/-- relation between the unpatched instruction `i` at index `j` and the patched instruction `x` at the same index -/
def FinI (orig : List Instr) (lp : List (Nat × Int)) (j : Nat) : Instr → Instr → Prop
  | .jmp L, x => ∃ d, threadJmp orig lp j 5 (.jmp L) 0 = .ok d ∧
      x = (if d = 0 ∧ afterTForLoop orig j = false then .nop L else .jmp d)
  | .move a b, x => x = .move a b ∨
      (∃ c, x = .moven a b c ∧ 1 ≤ c ∧ c ≤ 511 ∧ (j = 0 ∨ ¬ isMoveAt orig (j - 1)) ∧
        (∀ k, 1 ≤ k → k ≤ c → isMoveAt orig (j + k)) ∧ j + c + 1 < orig.length)
  | i, x => x = i

def Fin (orig : List Instr) (lp : List (Nat × Int)) (j : Nat) (x : Instr) : Prop :=
  ∃ i, orig[j]? = some i ∧ FinI orig lp j i x

theorem finI_self (orig : List Instr) (lp : List (Nat × Int)) (j : Nat) (i : Instr) (hj : i.isJmp = false) : FinI orig lp j i i := by
  cases i <;> simp_all [FinI, Instr.isJmp]

structure PInv (orig : List Instr) (lp : List (Nat × Int)) (m0 pc : Nat) (ps : PatchState) : Prop where
  len : ps.code.length = orig.length
  mv : ps.moven ≤ pc
  run : ∀ j, pc - ps.moven ≤ j → j < pc → isMoveAt orig j
  start : pc - ps.moven = 0 ∨ ¬ isMoveAt orig (pc - ps.moven - 1)
  same : ∀ j, pc - ps.moven ≤ j → ps.code[j]? = orig[j]?
  done : ∀ j, j < pc - ps.moven → ∃ x, ps.code[j]? = some x ∧ Fin orig lp j x
  mreg : ps.maxreg = mrFrom m0 (orig.take pc)

theorem setAt_get (l : List Instr) (i j : Nat) (x : Instr) : (setAt l i x)[j]? = if i = j then (if j < l.length then some x else none) else l[j]? := by
  unfold setAt
  by_cases h : i = j
  · subst h
    by_cases hl : i < l.length
    · simp [hl]
    · simp [hl]
  · simp [h, List.getElem?_set_ne h]

theorem setAt_length (l : List Instr) (i : Nat) (x : Instr) : (setAt l i x).length = l.length := by simp [setAt]

theorem take_succ_of_get {orig : List Instr} {pc : Nat} {inst : Instr} (h : orig[pc]? = some inst) :
    orig.take (pc + 1) = orig.take pc ++ [inst] := by
  rw [List.take_add_one, h]; rfl

theorem isMove_iff (i : Instr) : i.isMove = true ↔ ∃ a b, i = .move a b := by
  cases i <;> simp [Instr.isMove]

/-- the invariant at the end of the code gives the final relation at every index -/
theorem pinv_final {orig : List Instr} {lp : List (Nat × Int)} {m0 pc : Nat} {ps : PatchState}
    (h : PInv orig lp m0 pc ps) (hpc : orig.length ≤ pc) :
    ps.code.length = orig.length ∧ ps.maxreg = mrFrom m0 orig ∧
    ∀ j, j < orig.length → ∃ x, ps.code[j]? = some x ∧ Fin orig lp j x := by
  refine ⟨h.len, by rw [h.mreg, List.take_of_length_le hpc], fun j hj => ?_⟩
  by_cases hd : j < pc - ps.moven
  · exact h.done j hd
  · obtain ⟨a, b, hab⟩ := h.run j (by omega) (by omega)
    exact ⟨.move a b, by rw [h.same j (by omega), hab], .move a b, hab, Or.inl rfl⟩

theorem pinv_step_move {orig : List Instr} {lp : List (Nat × Int)} {m0 pc : Nat} {ps : PatchState} {a b : Nat}
    (h : PInv orig lp m0 pc ps) (hi : orig[pc]? = some (.move a b)) :
    PInv orig lp m0 (pc + 1) { code := ps.code, maxreg := maxregOf (.move a b) ps.maxreg, moven := ps.moven + 1 } := by
  have e : pc + 1 - (ps.moven + 1) = pc - ps.moven := by omega
  refine ⟨h.len, by simp only; have := h.mv; omega, ?_, ?_, ?_, ?_, ?_⟩
  · intro j h1 h2
    simp only [e] at h1
    by_cases hj : j < pc
    · exact h.run j h1 hj
    · have : j = pc := by omega
      subst this; exact ⟨a, b, hi⟩
  · simp only [e]; exact h.start
  · intro j h1; simp only [e] at h1; exact h.same j h1
  · intro j h1; simp only [e] at h1; exact h.done j h1
  · simp only [h.mreg, take_succ_of_get hi, mrFrom_snoc]

/-- a non-MOVE instruction: the JMP patch at `pc` (if any) and the MOVEN merge of the run that ends at `pc - 1`. -/
theorem pinv_step_other {orig : List Instr} {lp : List (Nat × Int)} {m0 pc : Nat} {ps : PatchState} {inst x : Instr}
    (h : PInv orig lp m0 pc ps) (hi : orig[pc]? = some inst) (hnm : inst.isMove = false) (hx : FinI orig lp pc inst x) :
    PInv orig lp m0 (pc + 1)
      { code := mergeMoven (setAt ps.code pc x) pc ps.moven, maxreg := maxregOf inst ps.maxreg, moven := 0 } := by
  have hpc : pc < orig.length := by
    by_cases hlt : pc < orig.length
    · exact hlt
    · simp [List.getElem?_eq_none (Nat.le_of_not_lt hlt)] at hi
  have hmv := h.mv
  have hnot : ¬ isMoveAt orig pc := by
    rintro ⟨a, b, hab⟩
    rw [hi] at hab; cases hab; simp [Instr.isMove] at hnm
  -- the merged code, index by index
  have hget : ∀ j, (mergeMoven (setAt ps.code pc x) pc ps.moven)[j]? =
      if j = pc then some x
      else if 1 < ps.moven ∧ j = pc - ps.moven then
        (match orig[j]? with
         | some (.move a b) => some (.moven a b (min (ps.moven - 1) Generated.opMaxArgsC))
         | o => o)
      else ps.code[j]? := by
    intro j
    have hsame : (setAt ps.code pc x)[pc - ps.moven]? = if ps.moven = 0 then some x else orig[pc - ps.moven]? := by
      rw [setAt_get]
      by_cases hm0 : ps.moven = 0
      · simp [hm0, h.len, hpc]
      · have : pc ≠ pc - ps.moven := by omega
        simp only [this, if_false, hm0]
        exact h.same _ (Nat.le_refl _)
    unfold mergeMoven
    by_cases hm : ps.moven > 1
    · have hm0 : ps.moven ≠ 0 := by omega
      simp only [hm, if_true, hsame, hm0, if_false]
      have hne : pc - ps.moven ≠ pc := by omega
      obtain ⟨a, b, hab⟩ := h.run (pc - ps.moven) (Nat.le_refl _) (by omega)
      simp only [hab]
      by_cases hjp : j = pc
      · subst hjp
        simp only [if_true, setAt_get, hne, if_false, h.len, hpc]
      · simp only [hjp, if_false]
        by_cases hjh : j = pc - ps.moven
        · subst hjh
          have hlt : pc - ps.moven < (setAt ps.code pc x).length := by rw [setAt_length, h.len]; omega
          simp only [setAt_get, if_true, hlt, hab, true_and]
        · have h1 : pc - ps.moven ≠ j := fun h => hjh h.symm
          have h2 : pc ≠ j := fun h => hjp h.symm
          simp only [setAt_get, h1, h2, if_false, hjh, and_false]
    · have : ¬ (1 < ps.moven) := by omega
      simp only [hm, if_false, false_and]
      by_cases hjp : j = pc
      · subst hjp; simp [setAt_get, h.len, hpc]
      · have h2 : pc ≠ j := fun h => hjp h.symm
        simp [setAt_get, h2, hjp]
  have hlen : (mergeMoven (setAt ps.code pc x) pc ps.moven).length = orig.length := by
    unfold mergeMoven
    split
    · split <;> simp [setAt_length, h.len]
    · simp [setAt_length, h.len]
  refine ⟨hlen, Nat.zero_le _, fun j h1 h2 => by simp only at h1; omega, Or.inr (by simpa using hnot), ?_, ?_, ?_⟩
  · intro j h1
    simp only [Nat.sub_zero] at h1
    have h1' : j ≠ pc := by omega
    have h2' : ¬ (1 < ps.moven ∧ j = pc - ps.moven) := by omega
    simp only [hget, h1', if_false, h2']
    exact h.same j (by omega)
  · intro j h1
    simp only [Nat.sub_zero] at h1
    rw [hget]
    by_cases hjp : j = pc
    · subst hjp
      simp only [if_true]
      exact ⟨x, rfl, inst, hi, hx⟩
    · simp only [hjp, if_false]
      by_cases hhead : 1 < ps.moven ∧ j = pc - ps.moven
      · obtain ⟨hm, hj⟩ := hhead
        obtain ⟨a, b, hab⟩ := h.run j (by omega) (by omega)
        simp only [hm, hj, and_self, if_true]
        rw [← hj, hab]
        refine ⟨_, rfl, .move a b, hab, Or.inr ⟨min (ps.moven - 1) Generated.opMaxArgsC, rfl, ?_, ?_, ?_, ?_, ?_⟩⟩
        · simp only [Generated.opMaxArgsC]; omega
        · simp only [Generated.opMaxArgsC]; omega
        · rcases h.start with hs | hs
          · left; omega
          · right; rw [hj]; exact hs
        · intro k hk1 hk2
          exact h.run (j + k) (by omega) (by have : min (ps.moven - 1) Generated.opMaxArgsC ≤ ps.moven - 1 := Nat.min_le_left _ _; omega)
        · have : min (ps.moven - 1) Generated.opMaxArgsC ≤ ps.moven - 1 := Nat.min_le_left _ _
          omega
      · simp only [hhead, if_false]
        by_cases hd : j < pc - ps.moven
        · exact h.done j hd
        · obtain ⟨a, b, hab⟩ := h.run j (by omega) (by omega)
          exact ⟨.move a b, by rw [h.same j (by omega), hab], .move a b, hab, Or.inl rfl⟩
  · simp only [h.mreg, take_succ_of_get hi, mrFrom_snoc]

theorem setAt_self {l : List Instr} {i : Nat} {x : Instr} (h : l[i]? = some x) : setAt l i x = l := by
  unfold setAt
  apply List.ext_getElem?
  intro j
  by_cases hj : i = j
  · subst hj
    have hl : i < l.length := by
      by_cases hl : i < l.length
      · exact hl
      · simp [List.getElem?_eq_none (Nat.le_of_not_lt hl)] at h
    rw [List.getElem?_eq_getElem hl] at h
    simp [hl, Option.some.inj h]
  · simp [List.getElem?_set_ne hj]

/-- the TFORLOOP test of the JMP arm reads an instruction that is final or untouched: it sees the unpatched opcode -/
def tfOf : Option Instr → Bool
  | some (.abc op _ _ _) => op == Generated.OP_TFORLOOP
  | _ => false

theorem afterTForLoop_eq (code : List Instr) (pc : Nat) : afterTForLoop code pc = (decide (pc > 0) && tfOf code[pc - 1]?) := by
  unfold afterTForLoop tfOf
  cases code[pc - 1]? with
  | none => rfl
  | some i => cases i <;> rfl

theorem finI_tf {orig : List Instr} {lp : List (Nat × Int)} {j : Nat} {i x : Instr} (h : FinI orig lp j i x) :
    tfOf (some x) = tfOf (some i) := by
  cases i <;> simp only [FinI] at h
  case jmp L =>
    obtain ⟨d, _, rfl⟩ := h
    split <;> rfl
  case move a b =>
    rcases h with rfl | ⟨c, rfl, _⟩ <;> rfl
  all_goals subst h; rfl

theorem pinv_tfor {orig : List Instr} {lp : List (Nat × Int)} {m0 pc : Nat} {ps : PatchState} (h : PInv orig lp m0 pc ps) :
    afterTForLoop ps.code pc = afterTForLoop orig pc := by
  rw [afterTForLoop_eq, afterTForLoop_eq]
  by_cases hpc : pc > 0
  · congr 1
    by_cases hs : pc - ps.moven ≤ pc - 1
    · rw [h.same _ hs]
    · obtain ⟨x, hx, i, hi, hf⟩ := h.done (pc - 1) (by omega)
      rw [hx, hi]; exact finI_tf hf
  · simp [hpc]

theorem patchLoop_spec (orig : List Instr) (lp : List (Nat × Int)) (m0 : Nat) :
    ∀ (fuel pc : Nat) (ps ps' : PatchState), PInv orig lp m0 pc ps → orig.length ≤ pc + fuel →
      patchLoop orig lp fuel pc ps = .ok ps' →
      ps'.code.length = orig.length ∧ ps'.maxreg = mrFrom m0 orig ∧
      ∀ j, j < orig.length → ∃ x, ps'.code[j]? = some x ∧ Fin orig lp j x := by
  intro fuel
  induction fuel with
  | zero =>
    intro pc ps ps' h hf hp
    simp only [patchLoop] at hp
    cases hp
    exact pinv_final h (by omega)
  | succ n ih =>
    intro pc ps ps' h hf hp
    cases hi : orig[pc]? with
    | none =>
      rw [patchLoop_none _ _ _ _ _ hi] at hp
      cases hp
      have : orig.length ≤ pc := by
        by_cases hlt : pc < orig.length
        · simp [hlt] at hi
        · omega
      exact pinv_final h this
    | some inst =>
      rw [patchLoop_succ _ _ _ _ _ _ hi] at hp
      by_cases hm : inst.isMove = true
      · obtain ⟨a, b, rfl⟩ := (isMove_iff inst).mp hm
        simp only [patchJmp, Instr.isMove, if_true] at hp
        exact ih (pc + 1) _ ps' (pinv_step_move h hi) (by omega) hp
      · have hm' : inst.isMove = false := by simpa using hm
        cases inst with
        | jmp L =>
          simp only [patchJmp] at hp
          cases htj : threadJmp orig lp pc 5 (.jmp L) 0 with
          | error e => simp [htj] at hp
          | ok d =>
            simp only [htj, Instr.isMove, Bool.false_eq_true, if_false] at hp
            rw [pinv_tfor h] at hp
            have hx : FinI orig lp pc (.jmp L) (if d = 0 ∧ afterTForLoop orig pc = false then .nop L else .jmp d) := ⟨d, htj, rfl⟩
            have hcode : (if d = 0 ∧ afterTForLoop orig pc = false then setAt ps.code pc (.nop L) else setAt ps.code pc (.jmp d)) =
                setAt ps.code pc (if d = 0 ∧ afterTForLoop orig pc = false then .nop L else .jmp d) := by split <;> rfl
            rw [hcode] at hp
            exact ih (pc + 1) _ ps' (pinv_step_other h hi hm' hx) (by omega) hp
        | move a b => simp [Instr.isMove] at hm
        | _ =>
          simp only [patchJmp, Instr.isMove, Bool.false_eq_true, if_false] at hp
          have hself := setAt_self (h.same pc (by omega) ▸ hi)
          rw [← hself] at hp
          exact ih (pc + 1) _ ps' (pinv_step_other h hi hm' (finI_self _ _ _ _ rfl)) (by omega) hp

/-- **patchCode, index by index.** -/
theorem patchCode_spec (st : CState) (code : List Instr) (nregs : Nat) (h : patchCode st = .ok (code, nregs)) :
    code.length = st.code.length ∧ nregs = mr st.code + 1 ∧ nregs ≤ Generated.maxRegisters ∧
    ∀ j, j < st.code.length → ∃ x, code[j]? = some x ∧ Fin st.code st.labelPc j x := by
  unfold patchCode at h
  simp only [bind, Except.bind, pure, Except.pure] at h
  cases hl : patchLoop st.code st.labelPc st.code.length 0 { code := st.code, maxreg := 1, moven := 0 } with
  | error e => simp [hl] at h
  | ok ps =>
    simp only [hl] at h
    split at h
    · cases h
    · rename_i hle
      simp only [Except.ok.injEq, Prod.mk.injEq] at h
      obtain ⟨rfl, rfl⟩ := h
      have h0 : PInv st.code st.labelPc 1 0 { code := st.code, maxreg := 1, moven := 0 } :=
        ⟨rfl, Nat.le_refl _, fun j h1 h2 => by omega, Or.inl rfl, fun _ _ => rfl, fun j hj => by simp at hj, by simp [mrFrom]⟩
      obtain ⟨h1, h2, h3⟩ := patchLoop_spec st.code st.labelPc 1 st.code.length 0 _ ps h0 (by omega) hl
      exact ⟨h1, by rw [h2]; rfl, by omega, h3⟩

/-- patchCode's loop has one error only (the model's loop no longer has an index that could be out of range: like
    HEAD's patchCode it stops threading at a target outside the code). -/
theorem patchLoop_errors (orig : List Instr) (lp : List (Nat × Int)) :
    ∀ (fuel pc : Nat) (ps : PatchState) (e : String), patchLoop orig lp fuel pc ps = .error e → e = "too long to jump." := by
  intro fuel
  induction fuel with
  | zero => intro pc ps e h; simp [patchLoop] at h
  | succ n ih =>
    intro pc ps e h
    cases hi : orig[pc]? with
    | none => rw [patchLoop_none _ _ _ _ _ hi] at h; cases h
    | some inst =>
      rw [patchLoop_succ _ _ _ _ _ _ hi] at h
      cases hj : patchJmp orig lp pc ps.code inst with
      | error e' =>
        simp only [hj, Except.error.injEq] at h
        subst h
        cases inst with
        | jmp L =>
          simp only [patchJmp] at hj
          cases htj : threadJmp orig lp pc 5 (.jmp L) 0 with
          | error e2 =>
            simp only [htj, Except.error.injEq] at hj
            subst hj
            exact threadJmp_error orig lp pc 5 (.jmp L) 0 _ htj
          | ok d => simp [htj] at hj
        | _ => simp [patchJmp] at hj
      | ok code =>
        simp only [hj] at h
        split at h <;> exact ih _ _ _ h

end GLua.CompileWf
