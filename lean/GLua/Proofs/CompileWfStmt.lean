/-
  compile_fragment_wf, part 3: assignments, statements, blocks and the main chunk preserve the invariant.
-/
import GLua.Proofs.CompileWfExpr
import GLua.Model.CompileProto

namespace GLua.CompileWf
open GLua.Compile GLua.MiniVM GLua.Lowering

variable [NumStruct]
set_option linter.unusedSectionVars false

theorem localsBelow_of_scoped (n : Nat) : ∀ (e : Cond), condScoped n e = true → LocalsBelow n e := by
  intro e
  induction e with
  | loc r => intro h; simpa [condScoped, LocalsBelow] using h
  | not c ih => intro h; exact ih (by simpa [condScoped] using h)
  | and l r ihl ihr =>
    intro h; simp only [condScoped, Bool.and_eq_true] at h; exact ⟨ihl h.1, ihr h.2⟩
  | or l r ihl ihr =>
    intro h; simp only [condScoped, Bool.and_eq_true] at h; exact ⟨ihl h.1, ihr h.2⟩
  | rel op l r ihl ihr =>
    intro h; simp only [condScoped, Bool.and_eq_true] at h; exact ⟨ihl h.1, ihr h.2⟩
  | arith op l r ihl ihr =>
    intro h; simp only [condScoped, Bool.and_eq_true] at h; exact ⟨ihl h.1, ihr h.2⟩
  | concat l r ihl ihr =>
    intro h; simp only [condScoped, Bool.and_eq_true] at h; exact ⟨ihl h.1, ihr h.2⟩
  | unm c ih => intro h; exact ih (by simpa [condScoped] using h)
  | len c ih => intro h; exact ih (by simpa [condScoped] using h)
  | _ => intro _; trivial

/-- statement-level frame: invariant and code prefix (the register top may change). -/
structure SExt (st st' : CState) : Prop where
  inv : Inv st'
  code : st.code <+: st'.code

theorem SExt.refl {st : CState} (h : Inv st) : SExt st st := ⟨h, List.prefix_refl _⟩
theorem SExt.trans {a b c : CState} (h1 : SExt a b) (h2 : SExt b c) : SExt a c := ⟨h2.inv, h1.code.trans h2.code⟩
theorem Ext.sext {a b : CState} (h : Ext a b) : SExt a b := ⟨h.inv, h.code⟩

theorem noSkipLast_regTop {st : CState} (t : Nat) (h : NoSkipLast st) : NoSkipLast { st with regTop := t } := h

/-! ### assignment -/

/-- the destination context never names a register above the free register. -/
def ACOK (top : Nat) (ac : AssignCtx) : Prop := ∀ reg, top ≤ reg → savereg ac.ec reg ≤ reg

theorem acok_nd (top : Nat) (ct : Nat) : ACOK top { ec := ⟨ct, regNotDefined⟩ } := by
  intro reg _; simp [savereg]

theorem acok_loc (top r : Nat) (hr : r < top) (ct : Nat) : ACOK top { ec := ⟨ct, r⟩ } := by
  intro reg h
  rcases savereg_cases ⟨ct, r⟩ reg with h1 | h1 <;> rw [h1]
  · exact Nat.le_refl _
  · show r ≤ reg; omega

theorem left_go_post (m n : Nat) : ∀ (ts : List Target) (st : CState) (i : Nat), Inv st →
    (∀ t ∈ ts, targetScoped st.regTop t = true) →
    Ext st (compileAssignStmtLeft.go m n st i ts).1 ∧
    (∀ ac ∈ (compileAssignStmtLeft.go m n st i ts).2, ACOK st.regTop ac) ∧
    (compileAssignStmtLeft.go m n st i ts).1.code = st.code := by
  intro ts
  induction ts with
  | nil => intro st i hI _; exact ⟨Ext.refl hI, by simp [compileAssignStmtLeft.go], rfl⟩
  | cons t rest ih =>
    intro st i hI hs
    have hrest : ∀ t ∈ rest, targetScoped st.regTop t = true := fun t ht => hs t (List.mem_cons_of_mem _ ht)
    cases t with
    | loc r =>
      have hr : r < st.regTop := by simpa [targetScoped] using hs (.loc r) (List.mem_cons_self ..)
      obtain ⟨h1, h2, h3⟩ := ih st (i + 1) hI hrest
      simp only [compileAssignStmtLeft.go]
      refine ⟨h1, ?_, h3⟩
      intro ac hac
      simp only [List.mem_cons] at hac
      rcases hac with rfl | hac
      · split
        · exact acok_loc _ _ hr _
        · exact acok_nd _ _
      · exact h2 ac hac
    | glob id =>
      have hc := ext_constIndex (gname id) hI
      obtain ⟨h1, h2, h3⟩ := ih (constIndex st (gname id)).1 (i + 1) hc.inv (by rw [hc.top]; exact hrest)
      simp only [compileAssignStmtLeft.go]
      refine ⟨hc.trans h1, ?_, by rw [h3]; exact (constIndex_spec st (gname id)).2.2.1⟩
      intro ac hac
      simp only [List.mem_cons] at hac
      rcases hac with rfl | hac
      · exact acok_nd _ _
      · have := h2 ac hac; rw [hc.top] at this; exact this

theorem named_post : ∀ (acs : List AssignCtx) (st : CState) (reg : Nat) (rhs : List Cond), Inv st →
    (∀ ac ∈ acs, ACOK st.regTop ac) → (∀ e ∈ rhs, LocalsBelow st.regTop e) → st.regTop ≤ reg → reg ≤ mr st.code + 1 →
    Ext st (compileAssignStmtRight.named st reg acs rhs).1 ∧
    reg ≤ (compileAssignStmtRight.named st reg acs rhs).2.1 ∧
    (compileAssignStmtRight.named st reg acs rhs).2.1 ≤ mr (compileAssignStmtRight.named st reg acs rhs).1.code + 1 ∧
    (∀ e ∈ (compileAssignStmtRight.named st reg acs rhs).2.2.2, LocalsBelow st.regTop e) ∧
    (NoSkipLast st → NoSkipLast (compileAssignStmtRight.named st reg acs rhs).1) := by
  intro acs
  induction acs with
  | nil =>
    intro st reg rhs hI _ hr _ hm
    simp only [compileAssignStmtRight.named]
    exact ⟨Ext.refl hI, Nat.le_refl _, hm, hr, id⟩
  | cons ac acs ih =>
    intro st reg rhs hI hac hr htop hm
    simp only [compileAssignStmtRight.named]
    have hhead : LocalsBelow st.regTop (rhs.headD .nil) := by
      cases rhs with
      | nil => trivial
      | cons e _ => exact hr e (List.mem_cons_self ..)
    have hsv := hac ac (List.mem_cons_self ..) reg htop
    obtain ⟨hx, hinc, hdst, hns, _⟩ := (comp_post (rhs.headD .nil)).1 st reg ac.ec hI hhead htop hsv
    generalize comp (rhs.headD .nil) (.expr reg ac.ec) st = r at hx hinc hdst hns
    have hm' : reg + r.inc ≤ mr r.st.code + 1 := by
      have := hx.mr_le
      rw [hinc]; split <;> omega
    obtain ⟨h1, h2, h3, h4, h5⟩ := ih r.st (reg + r.inc) rhs.tail hx.inv
      (fun a ha => by rw [hx.top]; exact hac a (List.mem_cons_of_mem _ ha))
      (fun e he => by rw [hx.top]; exact hr e (List.mem_of_mem_tail he))
      (by rw [hx.top]; omega) hm'
    refine ⟨hx.trans h1, Nat.le_trans (Nat.le_add_right _ _) h2, h3, ?_, fun _ => h5 hns⟩
    intro e he; have := h4 e he; rw [hx.top] at this; exact this

theorem surplus_post : ∀ (extra : List Cond) (st : CState) (reg : Nat), Inv st →
    (∀ e ∈ extra, LocalsBelow st.regTop e) → st.regTop ≤ reg →
    Ext st (compileAssignStmtRight.surplus st reg extra) ∧
    (NoSkipLast st → NoSkipLast (compileAssignStmtRight.surplus st reg extra)) := by
  intro extra
  induction extra with
  | nil => intro st reg hI _ _; exact ⟨Ext.refl hI, id⟩
  | cons e rest ih =>
    intro st reg hI hr htop
    simp only [compileAssignStmtRight.surplus]
    obtain ⟨hx, _, _, hns, _⟩ := (comp_post e).1 st reg ecnone0 hI (hr e (List.mem_cons_self ..)) htop
      (by rw [savereg_ecnone0]; exact Nat.le_refl _)
    generalize comp e (.expr reg ecnone0) st = r at hx hns
    obtain ⟨h1, h2⟩ := ih r.st (reg + r.inc) hx.inv
      (fun e' he' => by rw [hx.top]; exact hr e' (List.mem_cons_of_mem _ he')) (by rw [hx.top]; omega)
    exact ⟨hx.trans h1, fun _ => h2 hns⟩

theorem stores_post : ∀ (ps : List (Target × AssignCtx)) (st : CState) (reg : Nat), Inv st → reg ≤ mr st.code + 1 →
    Ext st (assignStores st reg ps) ∧ (NoSkipLast st → NoSkipLast (assignStores st reg ps)) := by
  intro ps
  induction ps with
  | nil => intro st reg hI _; exact ⟨Ext.refl hI, id⟩
  | cons p rest ih =>
    intro st reg hI hm
    obtain ⟨t, ac⟩ := p
    cases t with
    | loc r =>
      simp only [assignStores]
      split
      · have hx : Ext st (emit st (.move r (reg - 1))) := ext_emit hI (by simp only [IOK]; omega)
        obtain ⟨h1, h2⟩ := ih (emit st (.move r (reg - 1))) (reg - 1) hx.inv (by have := hx.mr_le; omega)
        exact ⟨hx.trans h1, fun _ => h2 (noSkipLast_emit _ _ rfl)⟩
      · exact ih st reg hI hm
    | glob id =>
      simp only [assignStores]
      have hc := ext_constIndex (gname id) hI
      have hf := constIndex_find st (gname id) rfl
      have hx : Ext st (emit (constIndex st (gname id)).1 (.setg (reg - 1) id)) :=
        hc.emit (by simp only [IOK, hf, Option.isSome_some, and_true]; have := hc.mr_le; omega)
      obtain ⟨h1, h2⟩ := ih _ (reg - 1) hx.inv (by have := hx.mr_le; omega)
      exact ⟨hx.trans h1, fun _ => h2 (noSkipLast_emit _ _ rfl)⟩

theorem assign_post (st : CState) (lhs : List Target) (rhs : List Cond) (hI : Inv st)
    (hl : ∀ t ∈ lhs, targetScoped st.regTop t = true) (hr : ∀ e ∈ rhs, LocalsBelow st.regTop e) :
    Ext st (compileAssignStmt st lhs rhs) ∧ (NoSkipLast st → NoSkipLast (compileAssignStmt st lhs rhs)) := by
  unfold compileAssignStmt compileAssignStmtLeft compileAssignStmtRight
  obtain ⟨hx1, hac, hcode1⟩ := left_go_post rhs.length lhs.length lhs st 0 hI hl
  generalize compileAssignStmtLeft.go rhs.length lhs.length st 0 lhs = L at hx1 hac hcode1
  obtain ⟨st1, acs⟩ := L
  simp only at hx1 hac hcode1 ⊢
  obtain ⟨hx2, hreg2, hm2, hex, hns2⟩ := named_post acs st1 st1.regTop rhs hx1.inv (by rw [hx1.top]; exact hac)
    (by rw [hx1.top]; exact hr) (Nat.le_refl _) hx1.inv.top
  generalize compileAssignStmtRight.named st1 st1.regTop acs rhs = N at hx2 hreg2 hm2 hex hns2
  obtain ⟨st2, reg2, acs2, extra⟩ := N
  simp only at hx2 hreg2 hm2 hex hns2 ⊢
  obtain ⟨hx3, hns3⟩ := surplus_post extra st2 reg2 hx2.inv (by rw [hx2.top]; exact hex) (by rw [hx2.top]; exact hreg2)
  obtain ⟨hx4, hns4⟩ := stores_post (lhs.zip acs2).reverse _ reg2 hx3.inv (by have := hx3.mr_le; omega)
  exact ⟨hx1.trans (hx2.trans (hx3.trans hx4)), fun h => hns4 (hns3 (hns2 (by
    intro i hi; exact h i (by rw [← hi]; simp only [last, hcode1]))))⟩

/-! ### statements -/

theorem retgo_post : ∀ (cs : List Cond) (st : CState) (reg : Nat), Inv st →
    (∀ e ∈ cs, LocalsBelow st.regTop e) → st.regTop ≤ reg → reg ≤ mr st.code + 1 →
    Ext st (compileStmt.go st reg cs).1 ∧ reg ≤ (compileStmt.go st reg cs).2 ∧
    (compileStmt.go st reg cs).2 ≤ mr (compileStmt.go st reg cs).1.code + 1 := by
  intro cs
  induction cs with
  | nil => intro st reg hI _ _ hm; exact ⟨Ext.refl hI, Nat.le_refl _, hm⟩
  | cons e rest ih =>
    intro st reg hI hr htop hm
    simp only [compileStmt.go]
    obtain ⟨hx, hinc, hdst, _, _⟩ := (comp_post e).1 st reg ecnone0 hI (hr e (List.mem_cons_self ..)) htop
      (by rw [savereg_ecnone0]; exact Nat.le_refl _)
    generalize comp e (.expr reg ecnone0) st = r at hx hinc hdst
    have hm' : reg + r.inc ≤ mr r.st.code + 1 := by
      have := hx.mr_le
      rw [hinc]; split <;> omega
    obtain ⟨h1, h2, h3⟩ := ih r.st (reg + r.inc) hx.inv
      (fun e' he' => by rw [hx.top]; exact hr e' (List.mem_cons_of_mem _ he')) (by rw [hx.top]; omega) hm'
    exact ⟨hx.trans h1, Nat.le_trans (Nat.le_add_right _ _) h2, h3⟩

/-- what a statement / chunk does: invariant, code prefix, the register top the scope function predicts,
    the last instruction does not skip. -/
structure SPost (st st' : CState) (top' : Nat) : Prop where
  ext : SExt st st'
  top : st'.regTop = top'
  ns : NoSkipLast st'

theorem inv_labelId {st : CState} (n : Nat) (h : Inv st) : Inv { st with labelId := n } := ⟨h.scan, h.lbl, h.top⟩

theorem bc_post (c : Cond) (st : CState) (thenl elsel : Nat) (hI : Inv st) (hs : condScoped st.regTop c = true)
    (hns : NoSkipLast st) :
    Ext st (compileBranchCondition st st.regTop c thenl elsel false) ∧
    NoSkipLast (compileBranchCondition st st.regTop c thenl elsel false) :=
  (comp_post c).2.2 st st.regTop thenl elsel false hI (localsBelow_of_scoped _ c hs) (Nat.le_refl _) hns

mutual
theorem stmt_post : ∀ (s : Stmt) (st : CState) (top' : Nat), Inv st → NoSkipLast st →
    scopeStmt s st.regTop = some top' → SPost st (compileStmt s st) top'
  | .ifS c thn els, st, top', hI, hns, hsc => by
    simp only [scopeStmt] at hsc
    split at hsc
    case isFalse => cases hsc
    rename_i hc
    split at hsc
    case h_2 => cases hsc
    rename_i t1 t2 hthn hels
    cases hsc
    simp only [compileStmt, newLabel]
    have hI3 : Inv { st with labelId := st.labelId + 1 + 1 + 1 } := inv_labelId _ hI
    obtain ⟨hx1, hn1⟩ := bc_post c { st with labelId := st.labelId + 1 + 1 + 1 } st.labelId (st.labelId + 1) hI3 hc hns
    generalize compileBranchCondition { st with labelId := st.labelId + 1 + 1 + 1 } st.regTop c st.labelId (st.labelId + 1) false = s1 at hx1 hn1
    have hx2 : Ext { st with labelId := st.labelId + 1 + 1 + 1 } (setLabelHere s1 st.labelId) := hx1.setLabelHere _
    have hb := block_post thn (setLabelHere s1 st.labelId) t1 hx2.inv (noSkipLast_setLabelHere _ hn1) (by rw [hx2.top]; exact hthn)
    generalize compileBlock thn (setLabelHere s1 st.labelId) = s3 at hb
    have htop3 : s3.regTop = st.regTop := by rw [hb.top, hx2.top]
    have hpre3 : st.code <+: s3.code := hx2.code.trans hb.ext.code
    cases hemp : els.isEmpty with
    | true =>
      simp only [if_true]
      exact ⟨⟨inv_setLabelHere _ hb.ext.inv, hpre3⟩, htop3, noSkipLast_setLabelHere _ hb.ns⟩
    | false =>
      simp only [Bool.false_eq_true, if_false]
      have hx4 : Ext s3 (setLabelHere (emit s3 (.jmp ((st.labelId + 1 + 1 : Nat) : Int))) (st.labelId + 1)) :=
        (ext_emit (i := .jmp ((st.labelId + 1 + 1 : Nat) : Int)) hb.ext.inv trivial).setLabelHere _
      have hb2 := block_post els _ t2 hx4.inv (noSkipLast_setLabelHere _ (noSkipLast_emit _ _ rfl))
        (by rw [hx4.top, htop3]; exact hels)
      exact ⟨⟨inv_setLabelHere _ hb2.ext.inv, hpre3.trans (hx4.code.trans hb2.ext.code)⟩,
        by simp only [setLabelHere_regTop]; rw [hb2.top, hx4.top, htop3], noSkipLast_setLabelHere _ hb2.ns⟩
  | .whileS c body, st, top', hI, hns, hsc => by
    simp only [scopeStmt] at hsc
    split at hsc
    case isFalse => cases hsc
    rename_i hc
    split at hsc
    case h_2 => cases hsc
    rename_i t1 hbody
    cases hsc
    simp only [compileStmt, newLabel]
    have hI3 : Inv (setLabelHere { st with labelId := st.labelId + 1 + 1 + 1 } (st.labelId + 1 + 1)) :=
      inv_setLabelHere _ (inv_labelId _ hI)
    obtain ⟨hx1, hn1⟩ := bc_post c _ st.labelId (st.labelId + 1) hI3 hc (noSkipLast_setLabelHere _ hns)
    generalize compileBranchCondition (setLabelHere { st with labelId := st.labelId + 1 + 1 + 1 } (st.labelId + 1 + 1))
      (setLabelHere { st with labelId := st.labelId + 1 + 1 + 1 } (st.labelId + 1 + 1)).regTop c st.labelId (st.labelId + 1) false = s1 at hx1 hn1
    have hx2 : Ext _ (setLabelHere s1 st.labelId) := hx1.setLabelHere _
    have htop2 : (setLabelHere s1 st.labelId).regTop = st.regTop := hx2.top
    have hb := chunk_post body (setLabelHere s1 st.labelId) t1 hx2.inv (noSkipLast_setLabelHere _ hn1) (by rw [htop2]; exact hbody)
    generalize compileChunk body (setLabelHere s1 st.labelId) = s3 at hb
    have hpre3 : st.code <+: s3.code := hx2.code.trans hb.ext.code
    have hI4 : Inv (emit s3 (.jmp ((st.labelId + 1 + 1 : Nat) : Int))) := inv_emit hb.ext.inv trivial
    have hI5 : Inv { emit s3 (.jmp ((st.labelId + 1 + 1 : Nat) : Int)) with regTop := (setLabelHere s1 st.labelId).regTop } := by
      apply inv_setRegTop _ hI4
      rw [htop2]
      have h1 := hI.top
      have h2 : mr st.code ≤ mr (emit s3 (.jmp ((st.labelId + 1 + 1 : Nat) : Int))).code :=
        mr_prefix (hpre3.trans (by simp))
      omega
    exact ⟨⟨inv_setLabelHere _ hI5, hpre3.trans (by simp)⟩, htop2, noSkipLast_setLabelHere _ (noSkipLast_emit _ _ rfl)⟩
  | .repeatS body c, st, top', hI, hns, hsc => by
    simp only [scopeStmt] at hsc
    split at hsc
    case h_2 => cases hsc
    rename_i t1 hbody
    split at hsc
    case isFalse => cases hsc
    rename_i hc
    cases hsc
    simp only [compileStmt, newLabel]
    have hI3 : Inv (setLabelHere (setLabelHere { st with labelId := st.labelId + 1 + 1 + 1 } st.labelId) (st.labelId + 1 + 1)) :=
      inv_setLabelHere _ (inv_setLabelHere _ (inv_labelId _ hI))
    have hb := chunk_post body _ t1 hI3 (noSkipLast_setLabelHere _ (noSkipLast_setLabelHere _ hns)) hbody
    generalize compileChunk body (setLabelHere (setLabelHere { st with labelId := st.labelId + 1 + 1 + 1 } st.labelId) (st.labelId + 1 + 1)) = s3 at hb
    obtain ⟨hx1, hn1⟩ := bc_post c s3 (st.labelId + 1) (st.labelId + 1 + 1) hb.ext.inv (by rw [hb.top]; exact hc) hb.ns
    generalize compileBranchCondition s3 s3.regTop c (st.labelId + 1) (st.labelId + 1 + 1) false = s4 at hx1 hn1
    have hpre : st.code <+: s4.code := hb.ext.code.trans hx1.code
    have h1 := hI.top
    have h2 : mr st.code ≤ mr s4.code := mr_prefix hpre
    have hI5 : Inv { setLabelHere s4 (st.labelId + 1) with regTop := st.regTop } :=
      inv_setRegTop _ (inv_setLabelHere _ hx1.inv) (by simp only [setLabelHere_code]; omega)
    exact ⟨⟨hI5, hpre⟩, rfl, hn1⟩
  | .ret cs, st, top', hI, hns, hsc => by
    simp only [scopeStmt] at hsc
    split at hsc
    case isFalse => cases hsc
    rename_i hcs
    cases hsc
    have hloc : ∀ e ∈ cs, LocalsBelow st.regTop e := fun e he =>
      localsBelow_of_scoped _ e (List.all_eq_true.mp hcs e he)
    simp only [compileStmt]
    split
    · rename_i r
      have hr : r ≤ mr st.code := loc_le_mr hI (by simpa [LocalsBelow] using hloc (.loc r) (by simp))
      have hx := ext_emit (i := .ret r 2) hI (by simp only [IOK]; omega)
      exact ⟨hx.sext, hx.top, noSkipLast_emit _ _ rfl⟩
    · obtain ⟨hx, hle, hm⟩ := retgo_post cs st st.regTop hI hloc (Nat.le_refl _) hI.top
      generalize compileStmt.go st st.regTop cs = g at hx hle hm
      obtain ⟨s1, reg1⟩ := g
      simp only at hx hle hm ⊢
      have hx2 := hx.emit (i := .ret st.regTop (reg1 - st.regTop + 1)) (by simp only [IOK]; omega)
      exact ⟨hx2.sext, hx2.top, noSkipLast_emit _ _ rfl⟩
  | .localDef c, st, top', hI, hns, hsc => by
    simp only [scopeStmt] at hsc
    split at hsc
    case isFalse => cases hsc
    rename_i hc
    cases hsc
    simp only [compileStmt]
    have hsv : savereg ⟨ecLocal, st.regTop⟩ st.regTop = st.regTop := by
      rcases savereg_cases ⟨ecLocal, st.regTop⟩ st.regTop with h | h <;> exact h
    obtain ⟨hx, _, hdst, hn, _⟩ := (comp_post c).1 st st.regTop ⟨ecLocal, st.regTop⟩ hI (localsBelow_of_scoped _ c hc)
      (Nat.le_refl _) (by rw [hsv]; exact Nat.le_refl _)
    rw [hsv] at hdst
    generalize comp c (.expr st.regTop ⟨ecLocal, st.regTop⟩) st = r at hx hdst hn
    have hI2 : Inv { r.st with regTop := r.st.regTop + 1 } := inv_setRegTop _ hx.inv (by rw [hx.top]; omega)
    exact ⟨⟨hI2, hx.code⟩, by simp only [hx.top], noSkipLast_regTop _ hn⟩
  | .assign lhs rhs, st, top', hI, hns, hsc => by
    simp only [scopeStmt] at hsc
    split at hsc
    case isFalse => cases hsc
    rename_i hc
    cases hsc
    simp only [Bool.and_eq_true, List.all_eq_true] at hc
    simp only [compileStmt]
    obtain ⟨hx, hn⟩ := assign_post st lhs rhs hI hc.1 (fun e he => localsBelow_of_scoped _ e (hc.2 e he))
    exact ⟨hx.sext, hx.top, hn hns⟩
theorem chunk_post : ∀ (b : Block) (st : CState) (top' : Nat), Inv st → NoSkipLast st →
    scopeChunk b st.regTop = some top' → SPost st (compileChunk b st) top'
  | .nil, st, top', hI, hns, hsc => by
    simp only [scopeChunk] at hsc; cases hsc
    simp only [compileChunk]
    exact ⟨SExt.refl hI, rfl, hns⟩
  | .cons s rest, st, top', hI, hns, hsc => by
    simp only [scopeChunk] at hsc
    split at hsc
    case h_2 => cases hsc
    rename_i t1 hs
    have h1 := stmt_post s st t1 hI hns hs
    simp only [compileChunk]
    have h2 := chunk_post rest (compileStmt s st) top' h1.ext.inv h1.ns (by rw [h1.top]; exact hsc)
    exact ⟨h1.ext.trans h2.ext, h2.top, h2.ns⟩
theorem block_post : ∀ (b : Block) (st : CState) (top' : Nat), Inv st → NoSkipLast st →
    scopeChunk b st.regTop = some top' → SPost st (compileBlock b st) st.regTop
  | .nil, st, top', hI, hns, _ => by
    simp only [compileBlock]
    exact ⟨SExt.refl hI, rfl, hns⟩
  | .cons s rest, st, top', hI, hns, hsc => by
    simp only [scopeChunk] at hsc
    split at hsc
    case h_2 => cases hsc
    rename_i t1 hs
    have h1 := stmt_post s st t1 hI hns hs
    have h2 := chunk_post rest (compileStmt s st) top' h1.ext.inv h1.ns (by rw [h1.top]; exact hsc)
    simp only [compileBlock]
    have hpre := (h1.ext.trans h2.ext).code
    refine ⟨⟨inv_setRegTop _ h2.ext.inv ?_, hpre⟩, rfl, noSkipLast_regTop _ h2.ns⟩
    have := hI.top
    have := mr_prefix hpre
    omega
end

/-! ### the main chunk -/

/-- **the compile-state invariant holds for every well-scoped program**: the code store of `compileMain` scans
    (operands, constants, registers against patchCode's high-water mark), its labels are bound inside the code, the code
    is `c ++ [RETURN 0 1]` and `c` does not end in an instruction that may skip. -/
theorem main_post (n : Nat) (body : Block) (hs : scopeOK n body = true) :
    Inv (compileMain n body) ∧
    (∀ p ∈ (compileMain n body).labelPc, -1 ≤ p.2 ∧ p.2 + 1 < ((compileMain n body).code.length : Int)) ∧
    ∃ c, (compileMain n body).code = c ++ [.ret 0 1] ∧ (∀ i, c.getLast? = some i → isSkip i = false) := by
  unfold scopeOK at hs
  cases hsc : scopeChunk body n with
  | none => simp [hsc] at hs
  | some top' =>
    unfold compileMain
    simp only []
    have key : ∀ (s0 : CState), Inv s0 → NoSkipLast s0 → s0.regTop = n →
        Inv (emit (compileChunk body s0) (.ret 0 1)) ∧
        (∀ p ∈ (emit (compileChunk body s0) (.ret 0 1)).labelPc,
          -1 ≤ p.2 ∧ p.2 + 1 < ((emit (compileChunk body s0) (.ret 0 1)).code.length : Int)) ∧
        ∃ c, (emit (compileChunk body s0) (.ret 0 1)).code = c ++ [.ret 0 1] ∧ (∀ i, c.getLast? = some i → isSkip i = false) := by
      intro s0 hI hns htop
      have h := chunk_post body s0 top' hI hns (by rw [htop]; exact hsc)
      refine ⟨inv_emit h.ext.inv (by simp [IOK]), ?_, _, rfl, h.ns⟩
      intro p hp
      have := h.ext.inv.lbl p hp
      simp only [emit_code, List.length_append, List.length_singleton]
      omega
    split
    · rename_i h0
      exact key {} inv_init (by intro i hi; simp [last] at hi) h0.symm
    · rename_i h0
      have hI1 : Inv (emit ({} : CState) (.abc Generated.OP_VARARG 0 (n + 1) 0)) :=
        inv_emit inv_init (by simp only [IOK, true_and, and_true]; omega)
      refine key _ (inv_setRegTop n hI1 ?_) (noSkipLast_regTop _ (noSkipLast_emit _ _ rfl)) rfl
      simp only [mr_emit, maxregOf, if_true]
      omega

end GLua.CompileWf
