/-
  compile_fragment_wf, part 5: the verifier side.  Facts about `wf` / `step` / `hyg` / `startMap` for a prototype
  without CLOSURE and SETLIST words (every word is its own group), stated on the decoded fields of one word,
  independent of the compile model.
-/
import GLua.Proofs.Verifier

namespace GLua.CompileWf
open GLua GLua.Verifier GLua.Generated GLua.Proofs.Verifier

/-! ### the start bitmap when every group has length 1 -/

theorem groupLen_one {p : Proto} {pc w : Nat} (hw : p.code[pc]? = some w) (h39 : (decode w).op ≠ 39) (h37 : (decode w).op ≠ 37) :
    groupLen p pc = 1 := by
  simp [groupLen, hw, h39, h37]

theorem isSt_set (sm : Array Bool) (i j : Nat) (hi : i < sm.size) :
    isSt (sm.set! i true) j = (if i = j then true else isSt sm j) := by
  unfold isSt
  by_cases h : i = j
  · subst h; simp [hi]
  · simp [h, Array.getElem?_setIfInBounds_ne h]

theorem scanStarts_all (p : Proto) (n : Nat) (hg : ∀ j, j < n → groupLen p j = 1) :
    ∀ (fuel pc : Nat) (sm : Array Bool), sm.size = n → n ≤ pc + fuel → (∀ j, j < pc → j < n → isSt sm j = true) →
      (scanStarts p fuel pc sm).size = n ∧ ∀ j, j < n → isSt (scanStarts p fuel pc sm) j = true := by
  intro fuel
  induction fuel with
  | zero =>
    intro pc sm hs hf hall
    simp only [scanStarts]
    exact ⟨hs, fun j hj => hall j (by omega) hj⟩
  | succ k ih =>
    intro pc sm hs hf hall
    simp only [scanStarts]
    split
    · rename_i hlt
      rw [hs] at hlt
      rw [hg pc hlt]
      apply ih (pc + 1) (sm.set! pc true) (by simp [hs]) (by omega)
      intro j hj hjn
      rw [isSt_set sm pc j (by rw [hs]; exact hlt)]
      by_cases hjp : pc = j
      · simp [hjp]
      · simp only [hjp, if_false]; exact hall j (by omega) hjn
    · rename_i hge
      rw [hs] at hge
      exact ⟨hs, fun j hj => hall j (by omega) hj⟩

theorem startMap_all (p : Proto) (hg : ∀ j, j < p.code.size → groupLen p j = 1) :
    (startMap p).size = p.code.size ∧ ∀ j, j < p.code.size → isSt (startMap p) j = true := by
  unfold startMap
  exact scanStarts_all p p.code.size hg p.code.size 0 _ (by simp) (by omega) (fun j hj => by omega)

theorem startsOkAt_one {p : Proto} {sm : Array Bool} {pc : Nat} (hg : groupLen p pc = 1) (hpc : pc < p.code.size)
    (hall : ∀ j, j < p.code.size → isSt sm j = true) : startsOkAt p sm pc = true := by
  unfold startsOkAt
  simp only [hg, Nat.sub_self, List.range_zero, List.all_nil, Bool.and_true, Bool.and_eq_true, decide_eq_true_eq,
    Bool.or_eq_true]
  refine ⟨by omega, ?_⟩
  by_cases h : pc + 1 = p.code.size
  · exact Or.inl h
  · exact Or.inr (hall _ (by omega))

theorem stepOk_of {p : Proto} {sm : Array Bool} {pc : Nat} {succs : List Nat} (h : step p pc = .ok succs)
    (hs : ∀ s ∈ succs, isSt sm s = true) : stepOk p sm pc = true := by
  unfold stepOk
  rw [h]
  exact List.all_eq_true.mpr hs

/-! ### RK operands -/

theorem isK_iff (v : Nat) (h : v ≤ 511) : isK v = true ↔ 256 ≤ v := by
  simp only [isK, opIsK, decide_eq_true_eq]; omega

theorem idxK_eq (v : Nat) (h : 256 ≤ v ∧ v ≤ 511) : idxK v = v - 256 := by
  simp only [idxK, opIndexK]; omega

/-- an RK operand that is a register below the frame size or a marked constant index inside the pool -/
def RKGood (p : Proto) (x : Nat) : Prop := x < 256 ∧ x < p.numRegs ∨ (256 ≤ x ∧ x ≤ 511 ∧ x - 256 < p.consts.size)

theorem rkValue_ok {p : Proto} {x : Nat} (h : RKGood p x) : rkValue p x = .ok () := by
  unfold rkValue
  rcases h with ⟨h1, h2⟩ | ⟨h1, h2, h3⟩
  · have : isK x = false := by
      cases hk : isK x with
      | false => rfl
      | true => have := (isK_iff x (by omega)).mp hk; omega
    simp [this, rd, chk, h2, pure, Except.pure]
  · have : isK x = true := (isK_iff x h2).mpr h1
    simp [this, kst, chk, idxK_eq x ⟨h1, h2⟩, h3, pure, Except.pure]

theorem rkOk_ok {p : Proto} {x : Nat} (h : RKGood p x) : rkOk p x = true := by
  unfold rkOk
  rcases h with ⟨h1, h2⟩ | ⟨h1, h2, h3⟩
  · have : isK x = false := by
      cases hk : isK x with
      | false => rfl
      | true => have := (isK_iff x (by omega)).mp hk; omega
    simp [this, h2]
  · have : isK x = true := (isK_iff x h2).mpr h1
    simp [this, idxK_eq x ⟨h1, h2⟩, h3]

/-! ### one VM step and the operand ranges, opcode by opcode (only the opcodes of the fragment) -/

section
variable {p : Proto} {pc w : Nat} (hw : p.code[pc]? = some w)
include hw

theorem step_move (hop : (decode w).op = 0) (hb : (decode w).b < p.numRegs) : step p pc = .ok [pc + 1] := by
  simp only [step, fetch, hw, hop, rd, chk, hb, decide_true, bind, Except.bind, pure, Except.pure, if_true]
theorem hyg_move (hop : (decode w).op = 0) (ha : (decode w).a < p.numRegs) (hb : (decode w).b < p.numRegs) : hyg p pc = true := by
  simp only [hyg, hw, hop, ha, hb, and_self, decide_true]

theorem step_loadk (hop : (decode w).op = 2) (hb : (decode w).bx < p.consts.size) : step p pc = .ok [pc + 1] := by
  simp only [step, fetch, hw, hop, kst, chk, hb, decide_true, bind, Except.bind, pure, Except.pure, if_true]
theorem hyg_loadk (hop : (decode w).op = 2) (ha : (decode w).a < p.numRegs) (hb : (decode w).bx < p.consts.size) : hyg p pc = true := by
  simp only [hyg, hw, hop, ha, hb, and_self, decide_true]

theorem step_loadbool (hop : (decode w).op = 3) : step p pc = .ok [if (decode w).c ≠ 0 then pc + 2 else pc + 1] := by
  simp only [step, fetch, hw, hop, bind, Except.bind, pure, Except.pure]
theorem hyg_loadbool (hop : (decode w).op = 3) (ha : (decode w).a < p.numRegs) : hyg p pc = true := by
  simp only [hyg, hw, hop, ha, decide_true]

theorem step_loadnil (hop : (decode w).op = 4) : step p pc = .ok [pc + 1] := by
  simp only [step, fetch, hw, hop, bind, Except.bind, pure, Except.pure]
theorem hyg_loadnil (hop : (decode w).op = 4) (ha : (decode w).a < p.numRegs) (hb : (decode w).b < p.numRegs)
    (hab : (decode w).a ≤ (decode w).b) : hyg p pc = true := by
  simp only [hyg, hw, hop, ha, hb, hab, and_self, decide_true]

theorem step_getglobal (hop : (decode w).op = 6) (hb : (decode w).bx < p.strConsts.size) : step p pc = .ok [pc + 1] := by
  simp only [step, fetch, hw, hop, sks, chk, hb, decide_true, bind, Except.bind, pure, Except.pure, if_true]
theorem hyg_getglobal (hop : (decode w).op = 6) (ha : (decode w).a < p.numRegs) (hs : isStrConst p (decode w).bx = true) : hyg p pc = true := by
  simp only [hyg, hw, hop, ha, hs, decide_true, Bool.and_self]

theorem step_setglobal (hop : (decode w).op = 9) (hb : (decode w).bx < p.strConsts.size) (ha : (decode w).a < p.numRegs) :
    step p pc = .ok [pc + 1] := by
  simp only [step, fetch, hw, hop, sks, rd, chk, hb, ha, decide_true, bind, Except.bind, pure, Except.pure, if_true]
theorem hyg_setglobal (hop : (decode w).op = 9) (ha : (decode w).a < p.numRegs) (hs : isStrConst p (decode w).bx = true) : hyg p pc = true := by
  simp only [hyg, hw, hop, ha, hs, decide_true, Bool.and_self]

theorem step_not (hop : (decode w).op = 22) (hb : (decode w).b < p.numRegs) : step p pc = .ok [pc + 1] := by
  simp only [step, fetch, hw, hop, rd, chk, hb, decide_true, bind, Except.bind, pure, Except.pure, if_true]
theorem hyg_not (hop : (decode w).op = 22) (ha : (decode w).a < p.numRegs) (hb : (decode w).b < p.numRegs) : hyg p pc = true := by
  simp only [hyg, hw, hop, ha, hb, and_self, decide_true]

theorem step_arith (hop : 15 ≤ (decode w).op ∧ (decode w).op ≤ 20)
    (hb : RKGood p (decode w).b) (hc : RKGood p (decode w).c) : step p pc = .ok [pc + 1] := by
  have h6 : (decode w).op = 15 ∨ (decode w).op = 16 ∨ (decode w).op = 17 ∨ (decode w).op = 18 ∨ (decode w).op = 19 ∨
      (decode w).op = 20 := by omega
  rcases h6 with hop | hop | hop | hop | hop | hop <;>
    simp only [step, fetch, hw, hop, rkValue_ok hb, rkValue_ok hc, bind, Except.bind, pure, Except.pure]
theorem hyg_arith (hop : 15 ≤ (decode w).op ∧ (decode w).op ≤ 20) (ha : (decode w).a < p.numRegs)
    (hb : RKGood p (decode w).b) (hc : RKGood p (decode w).c) : hyg p pc = true := by
  have h6 : (decode w).op = 15 ∨ (decode w).op = 16 ∨ (decode w).op = 17 ∨ (decode w).op = 18 ∨ (decode w).op = 19 ∨
      (decode w).op = 20 := by omega
  rcases h6 with hop | hop | hop | hop | hop | hop <;>
    simp only [hyg, hw, hop, ha, rkOk_ok hb, rkOk_ok hc, decide_true, Bool.and_self]

/-- UNM / LEN: vm.go reads the operand through rkValue; the compiler always passes a register -/
theorem step_unm_len (hop : (decode w).op = 21 ∨ (decode w).op = 23) (hb : (decode w).b < p.numRegs) (hb2 : (decode w).b < 256) :
    step p pc = .ok [pc + 1] := by
  have hg : RKGood p (decode w).b := Or.inl ⟨hb2, hb⟩
  rcases hop with hop | hop <;>
    simp only [step, fetch, hw, hop, rkValue_ok hg, bind, Except.bind, pure, Except.pure]
theorem hyg_unm_len (hop : (decode w).op = 21 ∨ (decode w).op = 23) (ha : (decode w).a < p.numRegs) (hb : (decode w).b < p.numRegs) :
    hyg p pc = true := by
  rcases hop with hop | hop <;> simp only [hyg, hw, hop, ha, hb, and_self, decide_true]

theorem step_concat (hop : (decode w).op = 24) (hc : (decode w).c < p.numRegs) : step p pc = .ok [pc + 1] := by
  simp only [step, fetch, hw, hop, rd, chk, hc, decide_true, bind, Except.bind, pure, Except.pure, if_true]
theorem hyg_concat (hop : (decode w).op = 24) (ha : (decode w).a < p.numRegs) (hbc : (decode w).b ≤ (decode w).c)
    (hc : (decode w).c < p.numRegs) : hyg p pc = true := by
  simp only [hyg, hw, hop, ha, hbc, hc, and_self, decide_true]

theorem step_jmp (hop : (decode w).op = 25) (hnn : 0 ≤ (pc : Int) + 1 + (decode w).sbx) :
    step p pc = .ok [((pc : Int) + 1 + (decode w).sbx).toNat] := by
  have : ¬ ((pc : Int) + 1 + (decode w).sbx < 0) := by omega
  simp only [step, fetch, hw, hop, jmpTo, this, bind, Except.bind, pure, Except.pure, if_false]
theorem hyg_jmp (hop : (decode w).op = 25) : hyg p pc = true := by
  simp only [hyg, hw, hop]

theorem step_cmp (hop : (decode w).op = 26 ∨ (decode w).op = 27 ∨ (decode w).op = 28)
    (hb : RKGood p (decode w).b) (hc : RKGood p (decode w).c) : step p pc = .ok [pc + 1, pc + 2] := by
  rcases hop with hop | hop | hop <;>
    simp only [step, fetch, hw, hop, rkValue_ok hb, rkValue_ok hc, bind, Except.bind, pure, Except.pure]
theorem hyg_cmp (hop : (decode w).op = 26 ∨ (decode w).op = 27 ∨ (decode w).op = 28) (ha : (decode w).a ≤ 1)
    (hb : RKGood p (decode w).b) (hc : RKGood p (decode w).c) : hyg p pc = true := by
  rcases hop with hop | hop | hop <;>
    simp only [hyg, hw, hop, ha, rkOk_ok hb, rkOk_ok hc, decide_true, Bool.and_self]

theorem step_test (hop : (decode w).op = 29) (ha : (decode w).a < p.numRegs) : step p pc = .ok [pc + 1, pc + 2] := by
  simp only [step, fetch, hw, hop, rd, chk, ha, decide_true, bind, Except.bind, pure, Except.pure, if_true]
theorem hyg_test (hop : (decode w).op = 29) (ha : (decode w).a < p.numRegs) : hyg p pc = true := by
  simp only [hyg, hw, hop, ha, decide_true]

theorem step_testset (hop : (decode w).op = 30) (hb : (decode w).b < p.numRegs) : step p pc = .ok [pc + 1, pc + 2] := by
  simp only [step, fetch, hw, hop, rd, chk, hb, decide_true, bind, Except.bind, pure, Except.pure, if_true]
theorem hyg_testset (hop : (decode w).op = 30) (ha : (decode w).a < p.numRegs) (hb : (decode w).b < p.numRegs) : hyg p pc = true := by
  simp only [hyg, hw, hop, ha, hb, and_self, decide_true]

theorem step_return (hop : (decode w).op = 33) : step p pc = .ok [] := by
  simp only [step, fetch, hw, hop, bind, Except.bind, pure, Except.pure]
theorem hyg_return (hop : (decode w).op = 33)
    (h : ((decode w).b = 0 → (decode w).a ≤ p.numRegs) ∧ ((decode w).b ≥ 2 → (decode w).a + (decode w).b ≤ p.numRegs + 1)) :
    hyg p pc = true := by
  simp only [hyg, hw, hop, decide_eq_true_eq]; exact h

theorem step_vararg (hop : (decode w).op = 40) : step p pc = .ok [pc + 1] := by
  simp only [step, fetch, hw, hop, bind, Except.bind, pure, Except.pure]
theorem hyg_vararg (hop : (decode w).op = 40)
    (h : ((decode w).b = 0 → (decode w).a ≤ p.numRegs) ∧ ((decode w).b = 1 → (decode w).a < p.numRegs) ∧
      ((decode w).b ≥ 2 → (decode w).a + (decode w).b ≤ p.numRegs + 1)) : hyg p pc = true := by
  simp only [hyg, hw, hop, decide_eq_true_eq]; exact h

theorem step_nop (hop : (decode w).op = 41) : step p pc = .ok [pc + 1] := by
  simp only [step, fetch, hw, hop, bind, Except.bind, pure, Except.pure]
theorem hyg_nop (hop : (decode w).op = 41) : hyg p pc = true := by
  simp only [hyg, hw, hop]

/-- MOVEN: the C following words are read as MOVEs (only their B field) -/
theorem step_moven (hop : (decode w).op = 1) (hb : (decode w).b < p.numRegs)
    (hf : ∀ k, k < (decode w).c → ∃ w', p.code[pc + 1 + k]? = some w' ∧ (decode w').b < p.numRegs) :
    step p pc = .ok [pc + 1 + (decode w).c] := by
  have hforM : ∀ (l : List Nat), (∀ k ∈ l, movenEntry p (pc + 1 + k) = .ok ()) →
      l.forM (fun k => movenEntry p (pc + 1 + k)) = .ok () := by
    intro l
    induction l with
    | nil => intro _; rfl
    | cons x r ih =>
      intro h
      have h1 := h x (List.mem_cons_self ..)
      have h2 := ih (fun k hk => h k (List.mem_cons_of_mem _ hk))
      show (movenEntry p (pc + 1 + x) >>= fun _ => r.forM fun k => movenEntry p (pc + 1 + k)) = Except.ok ()
      rw [h1, h2]; rfl
  have hall : (List.range (decode w).c).forM (fun k => movenEntry p (pc + 1 + k)) = .ok () := by
    apply hforM
    intro k hk
    obtain ⟨w', hw', hb'⟩ := hf k (List.mem_range.mp hk)
    simp only [movenEntry, fetch, hw', rd, chk, hb', decide_true, bind, Except.bind, pure, Except.pure, if_true]
  simp only [step, fetch, hw, hop, rd, chk, hb, decide_true, hall, bind, Except.bind, pure, Except.pure, if_true]
theorem hyg_moven (hop : (decode w).op = 1) (ha : (decode w).a < p.numRegs) (hb : (decode w).b < p.numRegs)
    (hf : ∀ k, k < (decode w).c → isOp p (pc + 1 + k) 0 = true) : hyg p pc = true := by
  simp only [hyg, hw, hop, ha, hb, and_self, decide_true, Bool.true_and, List.all_eq_true, List.mem_range]
  exact hf

end

end GLua.CompileWf
