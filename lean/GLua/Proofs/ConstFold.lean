/-
  Lemmas about the constFold model (GLua/Model/ConstFold.lean).
-/
import GLua.Model.ConstFold
import GLua.Generated.Arith

namespace GLua.ConstFold

theorem lnumberValue_eval {N} (ops : NumOps N) (ρ : Nat → N) (e : Expr N) (v : N)
    (h : lnumberValue ops e = some v) : eval ops ρ e = v := by
  cases e <;> simp_all [lnumberValue, eval]

/-- both components of `constFold` (the returned node and the rewritten original) keep the meaning. -/
theorem constFold_sound_both {N} (ops : NumOps N) (ρ : Nat → N) (e : Expr N) :
    eval ops ρ (constFold ops e).1 = eval ops ρ e ∧ eval ops ρ (constFold ops e).2 = eval ops ρ e := by
  induction e with
  | number t => simp [constFold]
  | const v => simp [constFold]
  | other id => simp [constFold]
  | arith op l r ihl ihr =>
    simp only [constFold]
    have horig : eval ops ρ (Expr.arith op (constFold ops l).2 (constFold ops r).2)
        = eval ops ρ (Expr.arith op l r) := by
      simp [eval, ihl.2, ihr.2]
    split
    · rename_i a b ha hb
      refine ⟨?_, horig⟩
      have h1 := lnumberValue_eval ops ρ _ _ ha
      have h2 := lnumberValue_eval ops ρ _ _ hb
      simp [eval, ← ihl.1, ← ihr.1, h1, h2]
    · exact ⟨horig, horig⟩
  | unm e ih =>
    simp only [constFold]
    have horig : eval ops ρ (Expr.unm (constFold ops e).1) = eval ops ρ (Expr.unm e) := by
      simp [eval, ih.1]
    split
    · rename_i v hv
      refine ⟨?_, horig⟩
      have h1 := lnumberValue_eval ops ρ _ _ hv
      simp [eval, ← ih.1, h1]
    · exact ⟨horig, horig⟩

/-- a fully literal expression folds to a constant node (so no arithmetic instruction is emitted). -/
def allLiteral {N} : Expr N → Bool
  | .number _ => true
  | .const _ => true
  | .other _ => false
  | .arith _ l r => allLiteral l && allLiteral r
  | .unm e => allLiteral e

theorem constFold_literal {N} (ops : NumOps N) (e : Expr N) (h : allLiteral e = true) :
    ∃ v, lnumberValue ops (constFold ops e).1 = some v := by
  induction e with
  | number t => exact ⟨_, rfl⟩
  | const v => exact ⟨_, rfl⟩
  | other id => simp [allLiteral] at h
  | arith op l r ihl ihr =>
    simp only [allLiteral, Bool.and_eq_true] at h
    obtain ⟨a, ha⟩ := ihl h.1
    obtain ⟨b, hb⟩ := ihr h.2
    simp only [constFold, ha, hb]
    exact ⟨_, rfl⟩
  | unm e ih =>
    obtain ⟨a, ha⟩ := ih (by simpa [allLiteral] using h)
    simp only [constFold, ha]
    exact ⟨_, rfl⟩

/-! ### luaModulo on integers is the floored modulo -/

theorem luaModuloInt_eq_fmod (a b : Int) (hb : b ≠ 0) : luaModuloInt a b = Int.fmod a b := by
  unfold luaModuloInt
  simp only []
  rw [Int.fmod_eq_tmod]
  by_cases hd : b ∣ a
  · have h0 : Int.tmod a b = 0 := Int.tmod_eq_zero_of_dvd hd
    simp [hd, h0]
  · simp only [hd, if_false]
    have hne : Int.tmod a b ≠ 0 := fun h => hd (Int.dvd_of_tmod_eq_zero h)
    by_cases ha : 0 ≤ a
    · have hv : 0 ≤ Int.tmod a b := Int.tmod_nonneg b ha
      by_cases hb0 : 0 ≤ b
      · have : ¬ ((b > 0 ∧ Int.tmod a b < 0) ∨ (b < 0 ∧ Int.tmod a b > 0)) := by omega
        simp [this, ha, hb0]
      · have : ((b > 0 ∧ Int.tmod a b < 0) ∨ (b < 0 ∧ Int.tmod a b > 0)) := by omega
        simp [this, ha, hb0]
    · have hv : Int.tmod a b ≤ 0 := by
        have := Int.tmod_nonneg b (a := -a) (by omega)
        rw [Int.neg_tmod] at this; omega
      by_cases hb0 : 0 ≤ b
      · have : ((b > 0 ∧ Int.tmod a b < 0) ∨ (b < 0 ∧ Int.tmod a b > 0)) := by omega
        simp [this, ha, hb0]; omega
      · have : ¬ ((b > 0 ∧ Int.tmod a b < 0) ∨ (b < 0 ∧ Int.tmod a b > 0)) := by omega
        simp [this, ha, hb0]; omega

end GLua.ConstFold
