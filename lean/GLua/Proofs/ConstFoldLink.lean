/-
  Link between the function-by-function model of `constFold` (Model/ConstFold.lean, with the in-place rewrite of a
  unary minus' child) and the fold test `lnum` that the compile model (Model/Compile.lean) uses in
  compileArithmeticOpExpr / compileUnaryOpExpr:

    * `lnum_eq_constFold` — `lnum e` is `lnumberValue(constFold(e))` on the tree as the parser produced it;
    * `constFold_again`   — running `constFold` again on the tree as an earlier call LEFT it (children of unary minus
      replaced by their folded forms) or on the node an earlier call RETURNED yields the same constant (or none):
      the order and number of earlier `constFold` calls — compileArithmeticOpExpr calls it on every arithmetic node
      of a tree, outermost first — cannot change what is folded.
-/
import GLua.Proofs.ConstFold
import GLua.Model.Compile

namespace GLua.ConstFold
open GLua.Compile

theorem constFold_again {N} (ops : NumOps N) (e : Expr N) :
    lnumberValue ops (constFold ops (constFold ops e).1).1 = lnumberValue ops (constFold ops e).1 ∧
    lnumberValue ops (constFold ops (constFold ops e).2).1 = lnumberValue ops (constFold ops e).1 := by
  induction e with
  | number t => simp [constFold]
  | const v => simp [constFold]
  | other id => simp [constFold]
  | arith op l r ihl ihr =>
    cases hl : lnumberValue ops (constFold ops l).1 with
    | none =>
      have h1 : constFold ops (.arith op l r) = (.arith op (constFold ops l).2 (constFold ops r).2, .arith op (constFold ops l).2 (constFold ops r).2) := by
        simp only [constFold, hl]
      have h2 : (constFold ops (.arith op (constFold ops l).2 (constFold ops r).2)).1 =
          .arith op (constFold ops (constFold ops l).2).2 (constFold ops (constFold ops r).2).2 := by
        simp only [constFold, ihl.2, hl]
      rw [h1]; simp only [h2, lnumberValue, and_self]
    | some a =>
      cases hr : lnumberValue ops (constFold ops r).1 with
      | none =>
        have h1 : constFold ops (.arith op l r) = (.arith op (constFold ops l).2 (constFold ops r).2, .arith op (constFold ops l).2 (constFold ops r).2) := by
          simp only [constFold, hl, hr]
        have h2 : (constFold ops (.arith op (constFold ops l).2 (constFold ops r).2)).1 =
            .arith op (constFold ops (constFold ops l).2).2 (constFold ops (constFold ops r).2).2 := by
          simp only [constFold, ihl.2, ihr.2, hl, hr]
        rw [h1]; simp only [h2, lnumberValue, and_self]
      | some b =>
        have h1 : constFold ops (.arith op l r) = (.const (ops.apply op a b), .arith op (constFold ops l).2 (constFold ops r).2) := by
          simp only [constFold, hl, hr]
        have h2 : (constFold ops (.arith op (constFold ops l).2 (constFold ops r).2)).1 = .const (ops.apply op a b) := by
          simp only [constFold, ihl.2, ihr.2, hl, hr]
        rw [h1]
        refine ⟨by simp [constFold, lnumberValue], ?_⟩
        show lnumberValue ops (constFold ops (Expr.arith op (constFold ops l).2 (constFold ops r).2)).1 = _
        rw [h2]
  | unm e ih =>
    cases he : lnumberValue ops (constFold ops e).1 with
    | none =>
      have h1 : constFold ops (.unm e) = (.unm (constFold ops e).1, .unm (constFold ops e).1) := by
        simp only [constFold, he]
      have h2 : (constFold ops (.unm (constFold ops e).1)).1 = .unm (constFold ops (constFold ops e).1).1 := by
        simp only [constFold, ih.1, he]
      rw [h1]; simp only [h2, lnumberValue, and_self]
    | some v =>
      have h1 : constFold ops (.unm e) = (.const (ops.neg v), .unm (constFold ops e).1) := by
        simp only [constFold, he]
      have h2 : (constFold ops (.unm (constFold ops e).1)).1 = .const (ops.neg v) := by
        simp only [constFold, ih.1, he]
      rw [h1]
      refine ⟨by simp [constFold, lnumberValue], ?_⟩
      show lnumberValue ops (constFold ops (Expr.unm (constFold ops e).1)).1 = _
      rw [h2]

variable [ns : NumStruct]

/-- the number structure of the compile model as the `NumOps` the constFold model is written over (numerals of the
    mini language are integers; `nan` is never reached by them). -/
def nsOps : NumOps ns.N where
  add := ns.add
  sub := ns.sub
  mul := ns.mul
  div := ns.div
  mod := ns.mod
  pow := ns.pow
  neg := ns.neg
  nan := ns.lit 0
  parse := fun s => s.toInt?.map ns.lit

/-- the part of an expression that `constFold` looks at: numerals (read through `parseNumber`, value `lit n`),
    arithmetic nodes, unary minus; everything else is opaque to it. -/
def toCF : Cond → Expr ns.N
  | .num n => .const (ns.lit n)
  | .arith op l r => .arith op (toCF l) (toCF r)
  | .unm c => .unm (toCF c)
  | _ => .other 0

theorem nsOps_apply (op : ArithOp) (a b : ns.N) : nsOps.apply op a b = NumStruct.apply op a b := by
  cases op <;> rfl

/-- the fold test of the compile model is `lnumberValue ∘ constFold` of the transcribed model. -/
theorem lnum_eq_constFold (e : Cond) : lnum e = lnumberValue nsOps (constFold nsOps (toCF e)).1 := by
  induction e with
  | num n => simp [lnum, toCF, constFold, lnumberValue]
  | arith op l r ihl ihr =>
    simp only [lnum, toCF, constFold, ← ihl, ← ihr]
    cases lnum l <;> cases lnum r <;> simp [lnumberValue, nsOps_apply]
  | unm c ih =>
    simp only [lnum, toCF, constFold, ← ih]
    cases lnum c <;> simp [lnumberValue, nsOps]
  | _ => simp [lnum, toCF, constFold, lnumberValue]

end GLua.ConstFold
