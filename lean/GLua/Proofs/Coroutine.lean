/-
  Lemmas about the coroutine mechanism model (GLua/Model/Coroutine.lean).  Core Lean only.
-/
import GLua.Model.Coroutine

namespace GLua.Co
open GLua GLua.CoScript

/-! ### worlds as thread lists -/

theorem th_setTh_eq (w : World) (t : Nat) (x : Thread) (h : t < w.threads.length) : (w.setTh t x).th t = x := by
  simp [World.th, World.setTh, List.getD, h]

theorem th_setTh_ne (w : World) (t t' : Nat) (x : Thread) (h : t ≠ t') : (w.setTh t x).th t' = w.th t' := by
  simp [World.th, World.setTh, List.getD, List.getElem?_set_ne h]

@[simp] theorem length_setTh (w : World) (t : Nat) (x : Thread) : (w.setTh t x).threads.length = w.threads.length := by
  simp [World.setTh]

@[simp] theorem current_setTh (w : World) (t : Nat) (x : Thread) : (w.setTh t x).current = w.current := rfl

/-! ### registry lists -/

theorem regSetTop_length (r : List OVal) (n : Nat) : (regSetTop r n).length = n := by
  simp [regSetTop]; omega

theorem regSetTop_of_le (r : List OVal) (n : Nat) (h : n ≤ r.length) : regSetTop r n = r.take n := by
  simp [regSetTop, Nat.sub_eq_zero_of_le h]

theorem regSetTop_append_adjust (pre vs : List OVal) (k : Nat) :
    regSetTop (pre ++ vs) (pre.length + k) = pre ++ adjust vs (some k) := by
  simp only [regSetTop, adjust, List.length_append]
  rw [List.take_append]
  have h1 : (pre.take (pre.length + k)) = pre := List.take_of_length_le (by omega)
  rw [h1, List.append_assoc]
  congr 2
  · simp
  · congr 1; omega

/-- the loop of `XMoveTo` pushes exactly the last `min n top` values, in stack order. -/
theorem xMoveVals_eq_drop (s : Thread) (n : Nat) (hb : s.lbase ≤ s.reg.length) :
    xMoveVals s n = s.reg.drop (s.reg.length - min n s.getTop) := by
  unfold xMoveVals
  apply List.ext_getElem
  · simp [Thread.getTop]; omega
  · intro i h1 h2
    simp only [List.length_map, List.length_range] at h1
    simp only [List.getElem_map, List.getElem_range, List.getElem_drop, Thread.get]
    have hlt : s.lbase + (s.getTop - (min n s.getTop - i) + 1) - 1 < s.reg.length := by
      simp only [Thread.getTop] at *; omega
    rw [if_pos hlt]
    have : s.lbase + (s.getTop - (min n s.getTop - i) + 1) - 1 = s.reg.length - min n s.getTop + i := by
      simp only [Thread.getTop] at *; omega
    rw [this]
    simp [List.getD, List.getElem?_eq_getElem (show s.reg.length - min n s.getTop + i < s.reg.length by
      simp only [Thread.getTop] at *; omega)]


/-- `XMoveTo`: the other thread receives the last `min n top` values in order; this thread loses exactly them. -/
theorem xMoveTo_spec (w : World) (src dst n : Nat) (hne : src ≠ dst) (hs : src < w.threads.length)
    (hd : dst < w.threads.length) (hb : (w.th src).lbase ≤ (w.th src).reg.length) :
    let k := min n (w.th src).getTop
    let w' := xMoveTo w src dst n
    (w'.th dst).reg = (w.th dst).reg ++ (w.th src).reg.drop ((w.th src).reg.length - k) ∧
    (w'.th src).reg = (w.th src).reg.take ((w.th src).reg.length - k) ∧
    (∀ t, t ≠ src → t ≠ dst → w'.th t = w.th t) ∧ w'.current = w.current ∧
    w'.threads.length = w.threads.length := by
  intro k w'
  have hw' : w' = (w.setTh dst ((w.th dst).pushAll (xMoveVals (w.th src) n))).setTh src
      ((w.th src).setTop ((w.th src).getTop - min n (w.th src).getTop)) := by
    simp only [w', xMoveTo, if_neg hne]
  refine ⟨?_, ?_, ?_, ?_, ?_⟩
  · rw [hw', th_setTh_ne _ _ _ _ hne, th_setTh_eq _ _ _ hd]
    simp [Thread.pushAll, xMoveVals_eq_drop _ _ hb, k]
  · rw [hw', th_setTh_eq _ _ _ (by simpa using hs)]
    simp only [Thread.setTop]
    rw [regSetTop_of_le _ _ (by simp only [Thread.getTop]; omega)]
    congr 1
    simp only [Thread.getTop, k] at *; omega
  · intro t h1 h2
    rw [hw', th_setTh_ne _ _ _ _ (Ne.symm h1), th_setTh_ne _ _ _ _ (Ne.symm h2)]
  · rw [hw']; rfl
  · rw [hw']; simp

/-- the fields `XMoveTo` does not touch. -/
theorem xMoveTo_fields (w : World) (src dst n t : Nat) (hs : src < w.threads.length) (hd : dst < w.threads.length) :
    let T' := (xMoveTo w src dst n).th t
    let T := w.th t
    T'.frames = T.frames ∧ T'.cur = T.cur ∧ T'.parent = T.parent ∧ T'.dead = T.dead ∧ T'.wrapped = T.wrapped ∧
    T'.yieldNRet = T.yieldNRet := by
  intro T' T
  by_cases hne : src = dst
  · simp [T', T, xMoveTo, hne]
  · have hw' : xMoveTo w src dst n = (w.setTh dst ((w.th dst).pushAll (xMoveVals (w.th src) n))).setTh src
        ((w.th src).setTop ((w.th src).getTop - min n (w.th src).getTop)) := by
      simp only [xMoveTo, if_neg hne]
    by_cases h1 : t = src
    · subst h1
      simp only [T', T, hw']
      rw [th_setTh_eq _ _ _ (by simpa using hs)]
      simp [Thread.setTop]
    · by_cases h2 : t = dst
      · subst h2
        simp only [T', T, hw']
        rw [th_setTh_ne _ _ _ _ (Ne.symm h1), th_setTh_eq _ _ _ hd]
        simp [Thread.pushAll]
      · simp only [T', T, hw']
        rw [th_setTh_ne _ _ _ _ (Ne.symm h1), th_setTh_ne _ _ _ _ (Ne.symm h2)]
        simp


theorem lbase_of_cur (T : Thread) (g : Frame) (ks : List Frame) (hc : T.cur = true) (hf : T.frames = g :: ks) :
    T.lbase = g.localBase ∧ T.curFrame = some g := by
  simp [Thread.lbase, Thread.curFrame, hc, hf]

/-- `switchToParentThread` when the current frame is `g`: the parent receives (the flag and) the last
    `min nargs top` values in order, this thread's top becomes `top − moved − (LocalBase − ReturnBase)`,
    its frame is popped, `yieldNRet` remembers what the popped call wanted; nothing else changes. -/
theorem switch_spec (w : World) (l p nargs : Nat) (haserror kill : Bool) (g : Frame) (ks : List Frame)
    (hl : l < w.threads.length) (hp : p < w.threads.length) (hne : l ≠ p)
    (hpar : (w.th l).parent = some p) (hcur : (w.th l).cur = true) (hfr : (w.th l).frames = g :: ks)
    (hrb : g.returnBase ≤ g.localBase) (hlb : g.localBase ≤ (w.th l).reg.length)
    (hoff : g.localBase - g.returnBase ≤ (w.th l).reg.length - min nargs (w.th l).getTop) :
    ∃ w', switchToParentThread w l nargs haserror kill = .ok w' ∧
      w'.current = p ∧ w'.threads.length = w.threads.length ∧
      (w'.th p).reg = (w.th p).reg ++ (if (w.th l).wrapped then [] else [some (.bool !haserror)]) ++
                        (w.th l).reg.drop ((w.th l).reg.length - min nargs (w.th l).getTop) ∧
      (w'.th l).reg = (w.th l).reg.take ((w.th l).reg.length - min nargs (w.th l).getTop - (g.localBase - g.returnBase)) ∧
      (w'.th l).parent = none ∧ (w'.th l).dead = ((w.th l).dead || kill) ∧ (w'.th l).yieldNRet = g.nret ∧
      (w'.th l).frames = ks ∧ (w'.th l).cur = !ks.isEmpty ∧ (w'.th l).wrapped = (w.th l).wrapped ∧
      (w'.th p).frames = (w.th p).frames ∧ (w'.th p).cur = (w.th p).cur ∧ (w'.th p).parent = (w.th p).parent ∧
      (w'.th p).dead = (w.th p).dead ∧ (w'.th p).wrapped = (w.th p).wrapped ∧ (w'.th p).yieldNRet = (w.th p).yieldNRet ∧
      (∀ t, t ≠ l → t ≠ p → w'.th t = w.th t) := by
  -- the worlds the function goes through
  let L := w.th l
  let w2 : World := ({ w with current := p } : World).setTh l { L with parent := none }
  let w3 : World := if !L.wrapped then w2.setTh p ((w2.th p).push (some (.bool !haserror))) else w2
  have hlen2 : w2.threads.length = w.threads.length := by simp [w2, World.setTh]
  have hlen3 : w3.threads.length = w.threads.length := by
    simp only [w3]; split <;> simp [hlen2]
  have h2l : w2.th l = { L with parent := none } := th_setTh_eq _ _ _ (by simpa using hl)
  have h2p : w2.th p = w.th p := by
    simp only [w2]; rw [th_setTh_ne _ _ _ _ hne]; rfl
  have h2t : ∀ t, t ≠ l → w2.th t = w.th t := by
    intro t ht; simp only [w2]; rw [th_setTh_ne _ _ _ _ (Ne.symm ht)]; rfl
  have h3l : w3.th l = { L with parent := none } := by
    simp only [w3]; split
    · rw [th_setTh_ne _ _ _ _ (Ne.symm hne), h2l]
    · exact h2l
  have h3p : (w3.th p).reg = (w.th p).reg ++ (if L.wrapped then [] else [some (.bool !haserror)]) ∧
      (w3.th p).frames = (w.th p).frames ∧ (w3.th p).cur = (w.th p).cur ∧ (w3.th p).parent = (w.th p).parent ∧
      (w3.th p).dead = (w.th p).dead ∧ (w3.th p).wrapped = (w.th p).wrapped ∧
      (w3.th p).yieldNRet = (w.th p).yieldNRet := by
    simp only [w3]
    cases hw : L.wrapped
    · simp only [Bool.not_false, if_true]
      rw [th_setTh_eq _ _ _ (by simpa [hlen2] using hp), h2p]
      simp [Thread.push]
    · simp [h2p]
  have h3t : ∀ t, t ≠ l → t ≠ p → w3.th t = w.th t := by
    intro t h1 h2
    simp only [w3]; split
    · rw [th_setTh_ne _ _ _ _ (Ne.symm h2)]; exact h2t t h1
    · exact h2t t h1
  have h3cur : w3.current = p := by simp only [w3]; split <;> rfl
  have hlb3 : (w3.th l).lbase = g.localBase := by
    rw [h3l]; exact (lbase_of_cur _ g ks (by simpa using hcur) (by simpa using hfr)).1
  have hreg3 : (w3.th l).reg = L.reg := by rw [h3l]
  have htop3 : (w3.th l).getTop = L.getTop := by
    simp only [Thread.getTop, hlb3, hreg3]
    rw [(lbase_of_cur L g ks hcur hfr).1]
  have hx := xMoveTo_spec w3 l p nargs hne (by simpa [hlen3] using hl) (by simpa [hlen3] using hp)
    (by rw [hlb3, hreg3]; exact hlb)
  have hf := xMoveTo_fields w3 l p nargs l (by simpa [hlen3] using hl) (by simpa [hlen3] using hp)
  have hfp := xMoveTo_fields w3 l p nargs p (by simpa [hlen3] using hl) (by simpa [hlen3] using hp)
  simp only [] at hx hf hfp
  obtain ⟨hxd, hxs, hxt, hxc, hxl⟩ := hx
  rw [htop3, hreg3] at hxd hxs
  let w4 := xMoveTo w3 l p nargs
  have hcf : (w4.th l).curFrame = some g := by
    simp only [Thread.curFrame]
    rw [hf.2.1, hf.1, h3l]
    simp only [L, hcur, hfr]
    rfl
  have hlen4 : (w4.th l).reg.length = L.reg.length - min nargs L.getTop := by
    rw [hxs]; simp
  have hoff' : ¬ ((w4.th l).reg.length < g.localBase - g.returnBase) := by
    rw [hlen4]; exact Nat.not_lt.mpr hoff
  let L4 := w4.th l
  let L5 : Thread := { L4 with
    yieldNRet := g.nret
    frames := L4.frames.tail
    cur := !L4.frames.tail.isEmpty
    reg := regSetTop L4.reg (L4.reg.length - (g.localBase - g.returnBase))
    dead := L4.dead || kill }
  refine ⟨w4.setTh l L5, ?_, ?_⟩
  · simp only [switchToParentThread, hpar]
    show (match (w4.th l).curFrame with | none => _ | some cf => _) = _
    rw [hcf]
    exact if_neg hoff'
  · have hl4 : l < w4.threads.length := by rw [hxl, hlen3]; exact hl
    have hfr4 : (w4.th l).frames = g :: ks := by rw [hf.1, h3l]; exact hfr
    have hL5 : (w4.setTh l L5).th l = L5 := th_setTh_eq _ _ _ hl4
    have hP5 : (w4.setTh l L5).th p = w4.th p := th_setTh_ne _ _ _ _ hne
    have hfr4t : L4.frames.tail = ks := by show (w4.th l).frames.tail = ks; rw [hfr4]; rfl
    refine ⟨hxc.trans h3cur, ?_, ?_, ?_, ?_, ?_, ?_, ?_, ?_, ?_, ?_, ?_, ?_, ?_, ?_, ?_, ?_⟩
    · rw [length_setTh]; exact hxl.trans hlen3
    · rw [hP5]; exact hxd.trans (by rw [h3p.1])
    · rw [hL5]
      show regSetTop (w4.th l).reg ((w4.th l).reg.length - (g.localBase - g.returnBase)) = _
      rw [regSetTop_of_le _ _ (by omega), hlen4, hxs, List.take_take]
      have e1 : L.reg.length = (w.th l).reg.length := rfl
      have e2 : L.getTop = (w.th l).getTop := rfl
      congr 1; omega
    · rw [hL5]; exact hf.2.2.1.trans (by rw [h3l])
    · rw [hL5]; show ((w4.th l).dead || kill) = _; rw [hf.2.2.2.1, h3l]
    · rw [hL5]
    · rw [hL5]; exact hfr4t
    · rw [hL5]; show (!L4.frames.tail.isEmpty) = _; rw [hfr4t]
    · rw [hL5]; exact hf.2.2.2.2.1.trans (by rw [h3l])
    · rw [hP5]; exact hfp.1.trans h3p.2.1
    · rw [hP5]; exact hfp.2.1.trans h3p.2.2.1
    · rw [hP5]; exact hfp.2.2.1.trans h3p.2.2.2.1
    · rw [hP5]; exact hfp.2.2.2.1.trans h3p.2.2.2.2.1
    · rw [hP5]; exact hfp.2.2.2.2.1.trans h3p.2.2.2.2.2.1
    · rw [hP5]; exact hfp.2.2.2.2.2.trans h3p.2.2.2.2.2.2
    · intro t h1 h2
      rw [th_setTh_ne _ _ _ _ (Ne.symm h1)]
      exact (hxt t h1 h2).trans (h3t t h1 h2)


theorem adjustResumedValues_spec (cfg : Cfg) (T : Thread) (pre vs : List OVal) (h : T.reg = pre ++ vs)
    (hfix : cfg.adjustFix = true) :
    (adjustResumedValues cfg T vs.length).reg = pre ++ adjust vs T.yieldNRet ∧
    (adjustResumedValues cfg T vs.length).frames = T.frames ∧ (adjustResumedValues cfg T vs.length).cur = T.cur ∧
    (adjustResumedValues cfg T vs.length).parent = T.parent ∧ (adjustResumedValues cfg T vs.length).dead = T.dead := by
  unfold adjustResumedValues
  simp only [hfix, Bool.not_true, Bool.false_eq_true, if_false]
  cases hy : T.yieldNRet with
  | none => simp [adjust, h]
  | some k =>
    simp only [h, List.length_append]
    rw [show pre.length + vs.length - vs.length + k = pre.length + k by omega, regSetTop_append_adjust]
    simp

/-- a later `coResume` (thread already started): the arguments above the thread object move to the coroutine's
    stack in order and are adjusted to what the pending yield call wanted. -/
theorem coResumeEnter_started (cfg : Cfg) (w : World) (l th : Nat) (body : Option (Nat × Bool × Nat))
    (hl : l < w.threads.length) (hth : th < w.threads.length) (hne : l ≠ th)
    (hcur : (w.th th).cur = true) (hlb : (w.th l).lbase + 1 ≤ (w.th l).reg.length)
    (hfix : cfg.adjustFix = true) :
    ∃ w', coResumeEnter cfg w l th body = .ok (w', 1) ∧ w'.current = th ∧ (w'.th th).parent = some l ∧
      (w'.th th).reg = (w.th th).reg ++ adjust ((w.th l).reg.drop ((w.th l).lbase + 1)) (w.th th).yieldNRet ∧
      (w'.th th).frames = (w.th th).frames ∧ (w'.th th).dead = (w.th th).dead ∧
      (w'.th l).reg = (w.th l).reg.take ((w.th l).lbase + 1) ∧ (w'.th l).frames = (w.th l).frames ∧
      (w'.th l).parent = (w.th l).parent ∧ (w'.th l).dead = (w.th l).dead ∧
      (∀ t, t ≠ l → t ≠ th → w'.th t = w.th t) := by
  let w2 : World := { (w.setTh th { w.th th with parent := some l }) with current := th }
  have hlen2 : w2.threads.length = w.threads.length := by simp [w2, World.setTh]
  have h2th : w2.th th = { w.th th with parent := some l } := by
    show (w.setTh th _).th th = _
    exact th_setTh_eq _ _ _ hth
  have h2l : w2.th l = w.th l := by
    show (w.setTh th _).th l = _
    exact th_setTh_ne _ _ _ _ (Ne.symm hne)
  have h2t : ∀ t, t ≠ th → w2.th t = w.th t := by
    intro t ht
    show (w.setTh th _).th t = _
    exact th_setTh_ne _ _ _ _ (Ne.symm ht)
  have hcur2 : (w2.th th).cur = true := by rw [h2th]; exact hcur
  let nargs := (w2.th l).getTop - 1
  have hnargs : nargs = (w.th l).reg.length - (w.th l).lbase - 1 := by
    simp only [nargs, h2l, Thread.getTop]
  have hx := xMoveTo_spec w2 l th nargs hne (by simpa [hlen2] using hl) (by simpa [hlen2] using hth)
    (by rw [h2l]; omega)
  have hf := xMoveTo_fields w2 l th nargs th (by simpa [hlen2] using hl) (by simpa [hlen2] using hth)
  have hfl := xMoveTo_fields w2 l th nargs l (by simpa [hlen2] using hl) (by simpa [hlen2] using hth)
  simp only [] at hx hf hfl
  obtain ⟨hxd, hxs, hxt, hxc, hxl⟩ := hx
  have hk : min nargs (w2.th l).getTop = nargs := by simp only [nargs]; omega
  rw [hk, h2l] at hxd hxs
  have hdrop : (w.th l).reg.length - nargs = (w.th l).lbase + 1 := by omega
  rw [hdrop] at hxd hxs
  let w3 := xMoveTo w2 l th nargs
  let vs := (w.th l).reg.drop ((w.th l).lbase + 1)
  have hvs : vs.length = nargs := by simp only [vs, List.length_drop]; omega
  have hreg3 : (w3.th th).reg = (w.th th).reg ++ vs := by
    show ((xMoveTo w2 l th nargs).th th).reg = _
    rw [hxd, h2th]
  have ha := adjustResumedValues_spec cfg (w3.th th) (w.th th).reg vs hreg3 hfix
  rw [hvs] at ha
  have hth3 : th < w3.threads.length := by
    show th < (xMoveTo w2 l th nargs).threads.length
    rw [hxl, hlen2]; exact hth
  have hy3 : (w3.th th).yieldNRet = (w.th th).yieldNRet := by
    show ((xMoveTo w2 l th nargs).th th).yieldNRet = _
    rw [hf.2.2.2.2.2, h2th]
  let w4 := w3.setTh th (adjustResumedValues cfg (w3.th th) nargs)
  have h4l : w4.th l = w3.th l := th_setTh_ne _ _ _ _ (Ne.symm hne)
  have h4th : w4.th th = adjustResumedValues cfg (w3.th th) nargs := th_setTh_eq _ _ _ hth3
  have hlreg : (w3.th l).reg = (w.th l).reg.take ((w.th l).lbase + 1) := hxs
  have hlfr : (w3.th l).frames = (w.th l).frames := by
    show ((xMoveTo w2 l th nargs).th l).frames = _
    rw [hfl.1, h2l]
  have hlcur : (w3.th l).cur = (w.th l).cur := by
    show ((xMoveTo w2 l th nargs).th l).cur = _
    rw [hfl.2.1, h2l]
  have hlbase : (w4.th l).lbase = (w.th l).lbase := by
    rw [h4l]; simp only [Thread.lbase, Thread.curFrame, hlfr, hlcur]
  have htop : (w4.th l).getTop = 1 := by
    simp only [Thread.getTop, hlbase]
    rw [h4l, hlreg, List.length_take]; omega
  refine ⟨w4, ?_, ?_, ?_, ?_, ?_, ?_, ?_, ?_, ?_, ?_, ?_⟩
  · have : coResumeEnter cfg w l th body = .ok (w4, (w4.th l).getTop) := by
      have hc : ¬ ((!(w2.th th).cur) = true) := by rw [hcur2]; simp
      unfold coResumeEnter
      exact if_neg hc
    rw [this, htop]
  · show w3.current = th
    show (xMoveTo w2 l th nargs).current = th
    rw [hxc]
  · rw [h4th, ha.2.2.2.1]
    show ((xMoveTo w2 l th nargs).th th).parent = _
    rw [hf.2.2.1, h2th]
  · rw [h4th, ha.1, hy3]
  · rw [h4th, ha.2.1]
    show ((xMoveTo w2 l th nargs).th th).frames = _
    rw [hf.1, h2th]
  · rw [h4th, ha.2.2.2.2]
    show ((xMoveTo w2 l th nargs).th th).dead = _
    rw [hf.2.2.2.1, h2th]
  · rw [h4l]; exact hlreg
  · rw [h4l]; exact hlfr
  · rw [h4l]
    show ((xMoveTo w2 l th nargs).th l).parent = _
    rw [hfl.2.2.1, h2l]
  · rw [h4l]
    show ((xMoveTo w2 l th nargs).th l).dead = _
    rw [hfl.2.2.2.1, h2l]
  · intro t h1 h2
    rw [show w4.th t = w3.th t from th_setTh_ne _ _ _ _ (Ne.symm h2)]
    show (xMoveTo w2 l th nargs).th t = _
    rw [hxt t h1 h2, h2t t h2]


theorem adjust_length (vs : List OVal) (n : Nat) : (adjust vs (some n)).length = n := by
  simp [adjust]; omega

/-- `initCallFrame` of a fixed-arity Lua function: the parameter registers hold the arguments adjusted to the
    number of parameters; the registers below LocalBase are untouched; top = LocalBase + NumUsedRegisters. -/
theorem initCallFrameLua_fixed (pre args : List OVal) (f : Frame) (np nused : Nat)
    (hlb : f.localBase = pre.length) (hn : f.nargs = args.length) (hu : np ≤ nused) :
    (initCallFrameLua (pre ++ args) f np false nused).2 = f ∧
    (initCallFrameLua (pre ++ args) f np false nused).1 =
      pre ++ adjust args (some np) ++ List.replicate (nused - np) none := by
  have key : ∀ r0 : List OVal, r0.take (pre.length + np) = pre ++ adjust args (some np) →
      regSetTop (r0.take (pre.length + np)) (pre.length + nused) =
        pre ++ adjust args (some np) ++ List.replicate (nused - np) none := by
    intro r0 h0
    rw [h0]
    simp only [regSetTop]
    rw [List.take_of_length_le (by simp [adjust_length]; omega)]
    congr 1
    rw [List.length_append, adjust_length]
    congr 1; omega
  constructor
  · simp [initCallFrameLua]
  · simp only [initCallFrameLua, hlb, hn, Bool.not_false, if_true]
    apply key
    split
    · rw [List.take_of_length_le (by simp [regSetTop_length]), regSetTop_append_adjust]
    · rename_i h
      have h' : np ≤ args.length := Nat.not_lt.mp h
      rw [List.take_append, List.take_of_length_le (show pre.length ≤ pre.length + np by omega)]
      simp [adjust, Nat.sub_eq_zero_of_le h']

theorem readRegs_mid (pre mid post : List OVal) : readRegs (pre ++ mid ++ post) pre.length mid.length = .ok mid := by
  simp [readRegs]

/-- first `coResume` of a fresh thread whose body is a fixed-arity Lua function. -/
theorem coResumeEnter_first (cfg : Cfg) (w : World) (l th np nused fid : Nat) (wr : Bool) (code : List Act)
    (hl : l < w.threads.length) (hth : th < w.threads.length) (hne : l ≠ th)
    (hT : w.th th = newThread wr false fid code) (hlb : (w.th l).lbase + 1 ≤ (w.th l).reg.length) (hu : np ≤ nused) :
    ∃ w' f, coResumeEnter cfg w l th (some (np, false, nused)) = .ok (w', 1) ∧ w'.current = th ∧
      (w'.th th).parent = some l ∧ (w'.th th).cur = true ∧ (w'.th th).frames = [f] ∧ f.localBase = 1 ∧
      (w'.th th).reg = [none] ++ adjust ((w.th l).reg.drop ((w.th l).lbase + 1)) (some np) ++
                          List.replicate (nused - np) none ∧
      (w'.th l).reg = (w.th l).reg.take ((w.th l).lbase + 1) ∧ (w'.th l).frames = (w.th l).frames := by
  let w2 : World := { (w.setTh th { w.th th with parent := some l }) with current := th }
  have hlen2 : w2.threads.length = w.threads.length := by simp [w2, World.setTh]
  have h2th : w2.th th = { w.th th with parent := some l } := by
    show (w.setTh th _).th th = _
    exact th_setTh_eq _ _ _ hth
  have h2l : w2.th l = w.th l := by
    show (w.setTh th _).th l = _
    exact th_setTh_ne _ _ _ _ (Ne.symm hne)
  let cf : Frame := { fid := fid, code := code }
  have hfr2 : (w2.th th).frames = [cf] := by rw [h2th, hT]; rfl
  have hcur2 : (w2.th th).cur = false := by rw [h2th, hT]; rfl
  let nargs := (w2.th l).getTop - 1
  let T3 : Thread := ({ w2.th th with cur := true } : Thread).setTop 0
  have hT3reg : T3.reg = [none] := by
    simp only [T3, Thread.setTop, Thread.lbase, Thread.curFrame, hfr2]
    rw [h2th, hT]; rfl
  let w3 := w2.setTh th T3
  have hlen3 : w3.threads.length = w.threads.length := by simp [w3, hlen2]
  have h3th : w3.th th = T3 := th_setTh_eq _ _ _ (by simpa [hlen2] using hth)
  have h3l : w3.th l = w.th l := by
    show (w2.setTh th T3).th l = _
    rw [th_setTh_ne _ _ _ _ (Ne.symm hne), h2l]
  have hx := xMoveTo_spec w3 l th nargs hne (by simpa [hlen3] using hl) (by simpa [hlen3] using hth)
    (by rw [h3l]; omega)
  have hf := xMoveTo_fields w3 l th nargs th (by simpa [hlen3] using hl) (by simpa [hlen3] using hth)
  have hfl := xMoveTo_fields w3 l th nargs l (by simpa [hlen3] using hl) (by simpa [hlen3] using hth)
  simp only [] at hx hf hfl
  obtain ⟨hxd, hxs, hxt, hxc, hxl⟩ := hx
  have hnargs : nargs = (w.th l).reg.length - (w.th l).lbase - 1 := by
    simp only [nargs, h2l, Thread.getTop]
  have hk : min nargs (w3.th l).getTop = nargs := by
    rw [h3l]; simp only [Thread.getTop]; omega
  rw [hk, h3l] at hxd hxs
  have hdrop : (w.th l).reg.length - nargs = (w.th l).lbase + 1 := by omega
  rw [hdrop, h3th, hT3reg] at hxd
  rw [hdrop] at hxs
  let w4 := xMoveTo w3 l th nargs
  let vs := (w.th l).reg.drop ((w.th l).lbase + 1)
  have hvs : vs.length = nargs := by simp only [vs, List.length_drop]; omega
  let T := w4.th th
  have hTreg : T.reg = [none] ++ vs := hxd
  let cf' : Frame := { cf with nargs := nargs }
  have hi := initCallFrameLua_fixed [none] vs cf' np nused rfl (by simp [cf', hvs]) hu
  let w5 := w4.setTh th { T with reg := (initCallFrameLua T.reg cf' np false nused).1,
                                 frames := (initCallFrameLua T.reg cf' np false nused).2 :: [] }
  have hth4 : th < w4.threads.length := by
    show th < (xMoveTo w3 l th nargs).threads.length
    rw [hxl, hlen3]; exact hth
  have h5th : w5.th th = _ := th_setTh_eq _ _ _ hth4
  have h5l : w5.th l = w4.th l := th_setTh_ne _ _ _ _ (Ne.symm hne)
  have hlfr : (w4.th l).frames = (w.th l).frames := by
    show ((xMoveTo w3 l th nargs).th l).frames = _
    rw [hfl.1, h3l]
  have hlcur : (w4.th l).cur = (w.th l).cur := by
    show ((xMoveTo w3 l th nargs).th l).cur = _
    rw [hfl.2.1, h3l]
  have hlbase : (w5.th l).lbase = (w.th l).lbase := by
    rw [h5l]; simp only [Thread.lbase, Thread.curFrame, hlfr, hlcur]
  have hlreg : (w4.th l).reg = (w.th l).reg.take ((w.th l).lbase + 1) := hxs
  have htop : (w5.th l).getTop = 1 := by
    simp only [Thread.getTop, hlbase]
    rw [h5l, hlreg, List.length_take]; omega
  refine ⟨w5, (initCallFrameLua T.reg cf' np false nused).2, ?_, ?_, ?_, ?_, ?_, ?_, ?_, ?_, ?_⟩
  · have hc : (!(w2.th th).cur) = true := by rw [hcur2]; rfl
    have : coResumeEnter cfg w l th (some (np, false, nused)) = .ok (w5, (w5.th l).getTop) := by
      unfold coResumeEnter
      rw [if_pos hc]
      show (match (w2.th th).frames with | [] => _ | cf :: rest => _) = _
      rw [hfr2]
    rw [this, htop]
  · show (xMoveTo w3 l th nargs).current = th
    rw [hxc]; rfl
  · rw [h5th]
    show ((xMoveTo w3 l th nargs).th th).parent = _
    rw [hf.2.2.1, h3th]
    show (w2.th th).parent = _
    rw [h2th]
  · rw [h5th]
    show ((xMoveTo w3 l th nargs).th th).cur = _
    rw [hf.2.1, h3th]; rfl
  · rw [h5th]
  · rw [hTreg, hi.1]
  · rw [h5th]
    show (initCallFrameLua T.reg cf' np false nused).1 = _
    rw [hTreg, hi.2]
  · rw [h5l]; exact hlreg
  · rw [h5l]; exact hlfr


theorem takeWhile_all {α} (p : α → Bool) (l : List α) (h : ∀ x ∈ l, p x = true) : l.takeWhile p = l := by
  induction l with
  | nil => rfl
  | cons a r ih =>
    simp only [List.takeWhile_cons, h a (List.mem_cons_self ..), if_true]
    rw [ih (fun x hx => h x (List.mem_cons_of_mem _ hx))]

/-- an uncaught error in a plain (not wrapped) coroutine: `threadRun`'s recover hands (false, v) to the resumer,
    kills this thread only, and leaves every other field of every other thread alone. -/
theorem doRaise_plain (cfg : Cfg) (w : World) (t p : Nat) (v : OVal) (g : Frame) (ks : List Frame)
    (ht : t < w.threads.length) (hp : p < w.threads.length) (hne : t ≠ p)
    (hpar : (w.th t).parent = some p) (hw : (w.th t).wrapped = false)
    (hcur : (w.th t).cur = true) (hfr : (w.th t).frames = g :: ks)
    (hnp : ∀ f ∈ (w.th t).frames, f.gk ≠ .pcall)
    (hrb : g.returnBase ≤ g.localBase) (hlb : g.localBase ≤ (w.th t).reg.length) :
    ∃ w', doRaise cfg w t v = afterThreadRun w' p ∧ w'.current = p ∧
      (w'.th t).dead = true ∧ (w'.th t).parent = none ∧
      (w'.th p).reg = (w.th p).reg ++ [some (.bool false), v] ∧ (w'.th p).frames = (w.th p).frames ∧
      (w'.th p).cur = (w.th p).cur ∧ (w'.th p).parent = (w.th p).parent ∧ (w'.th p).dead = (w.th p).dead ∧
      (∀ x, x ≠ t → x ≠ p → w'.th x = w.th x) := by
  let T := w.th t
  let TA : Thread := (T.setTop 0).push v
  let wA := w.setTh t TA
  have hlbT : T.lbase = g.localBase := (lbase_of_cur T g ks hcur hfr).1
  have hAt : wA.th t = TA := th_setTh_eq _ _ _ ht
  have hAp : wA.th p = w.th p := th_setTh_ne _ _ _ _ hne
  have hAreg : TA.reg = T.reg.take g.localBase ++ [v] := by
    simp only [TA, Thread.push, Thread.setTop, hlbT, Nat.add_zero]
    rw [regSetTop_of_le _ _ hlb]
  have hAfr : TA.frames = g :: ks := hfr
  have hAcur : TA.cur = true := hcur
  have hAlb : TA.lbase = g.localBase := (lbase_of_cur TA g ks hAcur hAfr).1
  have hAlen : TA.reg.length = g.localBase + 1 := by
    rw [hAreg]; simp; exact Nat.min_eq_left hlb
  have hAtop : TA.getTop = 1 := by simp only [Thread.getTop, hAlb, hAlen]; omega
  have hs := switch_spec wA t p 1 true true g ks (by simpa [wA] using ht) (by simpa [wA] using hp) hne
    (by rw [hAt]; exact hpar) (by rw [hAt]; exact hAcur) (by rw [hAt]; exact hAfr) hrb
    (by rw [hAt, hAlen]; omega) (by rw [hAt, hAtop, hAlen]; omega)
  obtain ⟨w', hsw, hc, _, hpreg, _, hpar', hdead, _, _, _, _, hpf, hpc, hpp, hpd, _, _, hoth⟩ := hs
  refine ⟨w', ?_, hc, ?_, hpar', ?_, ?_, ?_, ?_, ?_, ?_⟩
  · have htw : T.frames.takeWhile (fun f => decide (f.gk ≠ .pcall)) = T.frames :=
      takeWhile_all _ _ (fun f hf => by simpa using hnp f hf)
    unfold doRaise
    show (match T.frames.drop (T.frames.takeWhile (fun f => f.gk ≠ .pcall)).length with
      | h :: rest => _ | [] => _) = _
    rw [htw, List.drop_length]
    show (match T.parent with | none => _ | some p => _) = _
    rw [show T.parent = some p from hpar]
    show (if T.wrapped = true then _ else _) = _
    rw [show T.wrapped = false from hw]
    show (match switchToParentThread wA t 1 true true with | .error e => _ | .ok w => _) = _
    rw [hsw]
  · rw [hdead]; simp
  · rw [hpreg, hAp, hAt, hAtop, hAlen]
    simp only [hAreg, show TA.wrapped = false from hw]
    have : (List.take g.localBase T.reg).length = g.localBase := by
      rw [List.length_take]; exact Nat.min_eq_left hlb
    simp [List.drop_append, this]
  · rw [hpf, hAp]
  · rw [hpc, hAp]
  · rw [hpp, hAp]
  · rw [hpd, hAp]
  · intro x h1 h2
    rw [hoth x h1 h2]
    exact th_setTh_ne _ _ _ _ (Ne.symm h1)

/-! ### the status automaton -/

inductive St4 | suspended | running | normal | dead
deriving DecidableEq, Repr

def St4.name : St4 → String
  | .suspended => "suspended" | .running => "running" | .normal => "normal" | .dead => "dead"

/-- the part of the world `Status`, `coResume`'s checks and the switch read and write. -/
structure Flags where
  current : Nat
  parent  : Nat → Option Nat
  dead    : Nat → Bool

def World.flags (w : World) : Flags := ⟨w.current, fun t => (w.th t).parent, fun t => (w.th t).dead⟩

def Flags.status (s : Flags) (th : Nat) : St4 :=
  if s.dead th then .dead else if s.current = th then .running
  else if (s.parent th).isSome then .normal else .suspended

theorem status_eq_flags (w : World) (l th : Nat) : status Cfg.fixed w l th = (w.flags.status th).name := by
  simp only [status, Flags.status, World.flags, Cfg.fixed]
  by_cases h1 : w.current = th <;> by_cases h2 : (w.th th).dead = true <;>
    by_cases h3 : (w.th th).parent.isSome = true <;> simp [h1, h2, h3, St4.name]

/-- events of a history, performed by the running thread: it resumes `th`, or it switches back to its resumer
    (yield: kill = false; return or error: kill = true). -/
inductive Ev | resume (th : Nat) | back (kill : Bool)

def upd {α} (f : Nat → α) (k : Nat) (v : α) : Nat → α := fun x => if x = k then v else f x

/-- the bookkeeping of `coResume` (checks, then Parent/CurrentThread) and of `switchToParentThread`. -/
def Flags.step (s : Flags) : Ev → Option Flags
  | .resume th =>
    if s.current = th ∨ s.dead th = true ∨ (s.parent th).isSome then none
    else some { s with current := th, parent := upd s.parent th (some s.current) }
  | .back kill =>
    match s.parent s.current with
    | none => none
    | some p => some { current := p, parent := upd s.parent s.current none,
                       dead := upd s.dead s.current (s.dead s.current || kill) }

/-- the arrows of the manual's status automaton (plus staying put). -/
def edge : St4 → St4 → Prop
  | .suspended, .running | .running, .normal | .normal, .running | .running, .suspended | .running, .dead => True
  | a, b => a = b

instance : DecidableRel edge := fun a b => by cases a <;> cases b <;> simp only [edge] <;> infer_instance

theorem resumeCheck_flags (w : World) (th : Nat) :
    (resumeCheck Cfg.fixed w th = none) ↔ (w.flags.status th = .suspended) := by
  simp only [resumeCheck, Flags.status, World.flags, Cfg.fixed]
  by_cases h1 : w.current = th <;> by_cases h2 : (w.th th).dead = true <;>
    by_cases h3 : (w.th th).parent.isSome = true <;> simp [h1, h2, h3]

theorem step_edge (s s' : Flags) (ev : Ev) (h : s.step ev = some s') (th : Nat) :
    edge (s.status th) (s'.status th) := by
  cases ev with
  | resume t =>
    simp only [Flags.step] at h
    split at h
    · exact absurd h (by simp)
    · rename_i hc
      have hc1 : ¬ s.current = t := fun h => hc (Or.inl h)
      have hc2 : s.dead t = false := by
        cases hd : s.dead t
        · rfl
        · exact absurd (Or.inr (Or.inl hd)) hc
      have hc3 : (s.parent t).isSome = false := by
        cases hd : (s.parent t).isSome
        · rfl
        · exact absurd (Or.inr (Or.inr hd)) hc
      injection h with h; subst h
      by_cases e1 : th = t
      · subst e1; simp [Flags.status, upd, hc1, hc2, hc3, edge]
      · have e3 : ¬ t = th := fun h => e1 h.symm
        by_cases e2 : s.current = th <;> cases hd : s.dead th <;> cases hp : (s.parent th).isSome <;>
          simp [Flags.status, upd, e1, e2, e3, hd, hp, edge]
  | back kill =>
    simp only [Flags.step] at h
    split at h
    · exact absurd h (by simp)
    · rename_i p hp
      injection h with h; subst h
      by_cases e1 : th = s.current
      · subst e1
        cases hd : s.dead s.current <;> cases kill <;> by_cases e2 : p = s.current <;>
          simp [Flags.status, upd, hd, e2, edge]
      · have e1' : ¬ s.current = th := fun h => e1 h.symm
        by_cases e2 : p = th <;> cases hd : s.dead th <;> cases hq : (s.parent th).isSome <;>
          simp [Flags.status, upd, e1, e1', e2, hd, hq, edge]

/-- run a history; `none` when an event is refused. -/
def Flags.runEvs (s : Flags) : List Ev → Option Flags
  | [] => some s
  | e :: r => match s.step e with
    | none => none
    | some s' => s'.runEvs r

/-- the list of statuses a thread goes through along a history. -/
def Flags.statusTrace (s : Flags) (th : Nat) : List Ev → List St4
  | [] => [s.status th]
  | e :: r => match s.step e with
    | none => [s.status th]
    | some s' => s.status th :: s'.statusTrace th r

/-- consecutive elements are related. -/
def Chain {α} (r : α → α → Prop) : List α → Prop
  | [] => True
  | [_] => True
  | a :: b :: l => r a b ∧ Chain r (b :: l)

theorem statusTrace_head (s : Flags) (th : Nat) (evs : List Ev) :
    ∃ r, s.statusTrace th evs = s.status th :: r := by
  cases evs with
  | nil => exact ⟨[], rfl⟩
  | cons e r =>
    simp only [Flags.statusTrace]
    split
    · exact ⟨[], rfl⟩
    · exact ⟨_, rfl⟩

theorem statusTrace_chain (s : Flags) (th : Nat) (evs : List Ev) : Chain edge (s.statusTrace th evs) := by
  induction evs generalizing s with
  | nil => simp [Flags.statusTrace, Chain]
  | cons e r ih =>
    simp only [Flags.statusTrace]
    split
    · simp [Chain]
    · rename_i s' hs
      obtain ⟨r', hr'⟩ := statusTrace_head s' th r
      have h1 := ih s'
      rw [hr'] at h1 ⊢
      exact ⟨step_edge s s' e hs th, h1⟩

end GLua.Co
