/-
  Lemmas for C19 (GLua/Props/C19.lean): the cursor invariant of the lFile model and the simulation of the
  one-cursor Spec.  Core Lean only.
-/
import GLua.Model.IoFile
import GLua.Spec.File

namespace GLua.IoFile
open GLua.FileSpec (Bytes Fmt Whence VBuf Mode Op Res)

/-- what the reader will deliver next: its buffered bytes, then the disk from the descriptor's offset. -/
def stream (f : LFile) : Bytes := f.rbuf ++ f.disk.drop f.off

/-- bytes a buffered writer still holds -/
def pending (f : LFile) : Bytes :=
  match f.writer with
  | .buffered _ p => p
  | _ => []

/-- **The cursor invariant.**  The logical cursor is `off − |rbuf|` (`le` makes the subtraction exact) and the
    read-ahead is exactly the disk content between the cursor and the descriptor's offset (`snap`: the snapshot
    is never stale); a buffered writer holds bytes only while the read-ahead is empty (`pend`); a handle
    without a reader has no read-ahead and a reader exists exactly for readable descriptors (`nord`, `caps`). -/
structure Inv (f : LFile) : Prop where
  le : f.rbuf.length ≤ f.off
  snap : f.rbuf ++ f.disk.drop f.off = f.disk.drop (f.off - f.rbuf.length)
  pend : pending f ≠ [] → f.rbuf = []
  nord : f.hasReader = false → f.rbuf = []
  caps : f.hasReader = f.rd
  wcap : (f.writer = .none) ↔ f.wr = false

theorem inv_of_rbuf_nil {f : LFile} (h : f.rbuf = []) (hc : f.hasReader = f.rd)
    (hw : (f.writer = .none) ↔ f.wr = false) : Inv f :=
  ⟨by simp [h], by simp [h], fun _ => h, fun _ => h, hc, hw⟩

theorem take_append_drop_len (l : Bytes) (k : Nat) : l.take k ++ l.drop (l.take k).length = l := by
  rw [List.length_take]
  by_cases h : k ≤ l.length
  · rw [Nat.min_eq_left h]; exact List.take_append_drop k l
  · have h' : l.length ≤ k := Nat.le_of_not_le h
    rw [Nat.min_eq_right h', List.take_of_length_le h', List.drop_length]; simp

/-! ### osRead / osWrite / osSeek -/

theorem osRead_eq {f : LFile} (hc : f.closed = false) (hr : f.rd = true) (k : Nat) :
    osRead f k = .ok ({ f with off := f.off + ((f.disk.drop f.off).take k).length }, (f.disk.drop f.off).take k) := by
  simp [osRead, hc, hr]

theorem osRead_err {f : LFile} (h : f.closed = true ∨ f.rd = false) (k : Nat) :
    ∃ e, osRead f k = .error e := by
  unfold osRead
  rcases h with h | h
  · simp [h]
  · by_cases hc : f.closed = true <;> simp [hc, h]

/-- reading `k` more bytes into the buffer keeps the invariant and the stream. -/
theorem inv_pull {f : LFile} (h : Inv f) (hr : f.rd = true) (hp : pending f = []) (k : Nat) :
    let d := (f.disk.drop f.off).take k
    let f' : LFile := { f with off := f.off + d.length, rbuf := f.rbuf ++ d }
    Inv f' ∧ stream f' = stream f ∧ pending f' = [] := by
  intro d f'
  have hd : d ++ (f.disk.drop f.off).drop d.length = f.disk.drop f.off := take_append_drop_len _ k
  have hs : stream f' = stream f := by
    simp only [stream, f']
    rw [List.append_assoc, ← List.drop_drop, hd]
  refine ⟨⟨?_, ?_, ?_, ?_, h.caps, h.wcap⟩, hs, hp⟩
  · simp only [f', List.length_append]; have := h.le; omega
  · have e : f'.off - f'.rbuf.length = f.off - f.rbuf.length := by
      simp only [f', List.length_append]; have := h.le; omega
    rw [e, ← h.snap]; exact hs
  · intro hne; exact absurd hp hne
  · intro hnr; have : f.hasReader = true := by rw [h.caps]; exact hr
    simp only [f'] at hnr; rw [this] at hnr; cases hnr

/-- delivering the first `n` buffered bytes keeps the invariant; the stream loses them. -/
theorem inv_consume {f : LFile} (h : Inv f) (n : Nat) :
    let f' : LFile := { f with rbuf := f.rbuf.drop n }
    Inv f' ∧ stream f' = (stream f).drop (min n f.rbuf.length) ∧ pending f' = pending f := by
  intro f'
  have hs : stream f' = (stream f).drop (min n f.rbuf.length) := by
    simp only [stream, f']
    by_cases hn : n ≤ f.rbuf.length
    · rw [Nat.min_eq_left hn, List.drop_append_of_le_length hn]
    · have hn' : f.rbuf.length ≤ n := Nat.le_of_not_le hn
      rw [Nat.min_eq_right hn', List.drop_of_length_le hn', List.drop_left]; rfl
  refine ⟨⟨?_, ?_, ?_, ?_, h.caps, h.wcap⟩, hs, rfl⟩
  · simp only [f', List.length_drop]; have := h.le; omega
  · have hle := h.le
    have e : f'.off - f'.rbuf.length = (f.off - f.rbuf.length) + min n f.rbuf.length := by
      simp only [f', List.length_drop]; omega
    rw [e, ← List.drop_drop, ← h.snap]; exact hs
  · intro hne; have := h.pend hne; simp [f', this]
  · intro hnr; have := h.nord hnr; simp [f', this]

/-! ### `Reads f f' out`: `f'` arises from `f` by the reader delivering `out` -/

/-- everything a read leaves alone -/
def Frame (f f' : LFile) : Prop :=
  f'.disk = f.disk ∧ f'.app = f.app ∧ f'.rd = f.rd ∧ f'.wr = f.wr ∧ f'.hasReader = f.hasReader ∧
  f'.writer = f.writer ∧ f'.closed = f.closed

theorem Frame.refl (f : LFile) : Frame f f := ⟨rfl, rfl, rfl, rfl, rfl, rfl, rfl⟩
theorem Frame.trans {a b c : LFile} (h1 : Frame a b) (h2 : Frame b c) : Frame a c := by
  obtain ⟨a1, a2, a3, a4, a5, a6, a7⟩ := h1
  obtain ⟨b1, b2, b3, b4, b5, b6, b7⟩ := h2
  exact ⟨b1.trans a1, b2.trans a2, b3.trans a3, b4.trans a4, b5.trans a5, b6.trans a6, b7.trans a7⟩

structure Reads (f f' : LFile) (out : Bytes) : Prop where
  inv : Inv f'
  str : stream f = out ++ stream f'
  cur : cursor f' = cursor f + out.length
  frame : Frame f f'

theorem Reads.refl {f : LFile} (h : Inv f) : Reads f f [] :=
  ⟨h, by simp, by simp, Frame.refl f⟩

theorem Reads.trans {a b c : LFile} {o1 o2 : Bytes} (h1 : Reads a b o1) (h2 : Reads b c o2) :
    Reads a c (o1 ++ o2) :=
  ⟨h2.inv, by rw [h1.str, h2.str, List.append_assoc], by rw [h2.cur, h1.cur, List.length_append]; omega,
   h1.frame.trans h2.frame⟩

theorem pending_frame {f f' : LFile} (h : Frame f f') : pending f' = pending f := by
  simp [pending, h.2.2.2.2.2.1]

/-- the usable state of a handle during a read -/
structure Readable (f : LFile) : Prop where
  inv : Inv f
  rd : f.rd = true
  open_ : f.closed = false
  nopend : pending f = []

theorem Readable.of_reads {f f' : LFile} {o : Bytes} (h : Readable f) (r : Reads f f' o) : Readable f' :=
  ⟨r.inv, by rw [r.frame.2.2.1]; exact h.rd, by rw [r.frame.2.2.2.2.2.2]; exact h.open_,
   by rw [pending_frame r.frame]; exact h.nopend⟩

theorem reads_pull {f : LFile} (h : Readable f) (k : Nat) :
    Reads f { f with off := f.off + ((f.disk.drop f.off).take k).length,
                     rbuf := f.rbuf ++ (f.disk.drop f.off).take k } [] := by
  obtain ⟨hi, hs, _⟩ := inv_pull h.inv h.rd h.nopend k
  refine ⟨hi, by simpa using hs.symm, ?_, Frame.refl f⟩
  simp only [cursor, List.length_append, List.length_nil]; have := h.inv.le; omega

theorem reads_consume {f : LFile} (h : Inv f) (n : Nat) :
    Reads f { f with rbuf := f.rbuf.drop n } (f.rbuf.take n) := by
  obtain ⟨hi, hs, _⟩ := inv_consume h n
  refine ⟨hi, ?_, ?_, Frame.refl f⟩
  · rw [hs]
    simp only [stream]
    by_cases hn : n ≤ f.rbuf.length
    · rw [Nat.min_eq_left hn, List.drop_append_of_le_length hn, ← List.append_assoc, List.take_append_drop]
    · have hn' : f.rbuf.length ≤ n := Nat.le_of_not_le hn
      rw [Nat.min_eq_right hn', List.take_of_length_le hn', List.drop_left]
  · simp only [cursor, List.length_drop, List.length_take]; have := h.le; omega

/-- a direct read past an empty buffer -/
theorem reads_direct {f : LFile} (h : Readable f) (he : f.rbuf = []) (k : Nat) :
    Reads f { f with off := f.off + ((f.disk.drop f.off).take k).length } ((f.disk.drop f.off).take k) := by
  have := reads_pull h k
  have h2 := reads_consume this.inv ((f.disk.drop f.off).take k).length
  have h3 := this.trans h2
  simp only [he, List.nil_append, List.drop_length, List.take_length] at h3
  rw [← he] at h3
  simpa using h3

theorem take_eq_nil_pos {l : Bytes} {k : Nat} (hk : 0 < k) (h : l.take k = []) : l = [] := by
  cases l with
  | nil => rfl
  | cons a t => cases k with
    | zero => omega
    | succ n => simp at h

theorem stream_of_nil {f : LFile} (he : f.rbuf = []) : stream f = f.disk.drop f.off := by
  simp [stream, he]

/-- `Reader.Read(p)` delivers a non-empty prefix of the stream, or reports EOF exactly when the stream is empty. -/
theorem brRead_spec {R : Nat} (hR : 0 < R) {f : LFile} (h : Readable f) {k : Nat} (hk : 0 < k) :
    match brRead R f k with
    | (f', .data d) => Reads f f' d ∧ d ≠ [] ∧ d.length ≤ k
    | (f', .eof) => Reads f f' [] ∧ stream f = []
    | (_, .err _) => False := by
  unfold brRead
  by_cases he : f.rbuf = []
  · simp only [he, if_true]
    by_cases hkR : k ≥ R
    · simp only [hkR, if_true, osRead_eq h.open_ h.rd]
      have hd := reads_direct h he k
      by_cases hn : (f.disk.drop f.off).take k = []
      · simp only [hn, if_true]
        rw [hn] at hd
        exact ⟨hd, by rw [stream_of_nil he]; exact take_eq_nil_pos hk hn⟩
      · simp only [hn, if_false]
        exact ⟨hd, hn, by rw [List.length_take]; exact Nat.min_le_left _ _⟩
    · simp only [hkR, if_false, osRead_eq h.open_ h.rd]
      have hp := reads_pull h R
      by_cases hn : (f.disk.drop f.off).take R = []
      · simp only [hn, if_true]
        have hd := reads_direct h he R
        rw [hn] at hd
        exact ⟨hd, by rw [stream_of_nil he]; exact take_eq_nil_pos hR hn⟩
      · simp only [hn, if_false]
        have hc := reads_consume hp.inv k
        have ht := hp.trans hc
        simp only [he, List.nil_append] at ht
        refine ⟨ht, ?_, ?_⟩
        · intro h0; exact hn (take_eq_nil_pos hk h0)
        · rw [List.length_take]; exact Nat.min_le_left _ _
  · simp only [he, if_false]
    have hc := reads_consume h.inv k
    refine ⟨hc, ?_, ?_⟩
    · intro h0; exact he (take_eq_nil_pos hk h0)
    · rw [List.length_take]; exact Nat.min_le_left _ _

theorem stream_nil_of_reads {f f' : LFile} {o : Bytes} (r : Reads f f' o) (h : stream f = []) :
    o = [] ∧ stream f' = [] := by
  have := r.str; rw [h] at this
  have h2 := List.append_eq_nil_iff.mp this.symm
  exact h2

/-- the loop of `readBufioSize`: either `need` bytes were delivered, or fewer and the stream is exhausted. -/
theorem readBufioSizeLoop_spec {R : Nat} (hR : 0 < R) :
    ∀ (fuel : Nat) {f : LFile} (_ : Readable f) (need : Nat) (acc : Bytes), need < fuel →
      ∃ f' out st, readBufioSizeLoop R fuel f need acc = (f', acc ++ out, st) ∧ Reads f f' out ∧
        ((st = none ∧ out.length = need) ∨ (st = some .eof ∧ out.length < need ∧ stream f' = [])) := by
  intro fuel
  induction fuel with
  | zero => intro f _ need acc hlt; omega
  | succ fuel ih =>
    intro f h need acc hlt
    unfold readBufioSizeLoop
    by_cases hn : need = 0
    · simp only [hn, if_true]
      exact ⟨f, [], none, by simp, Reads.refl h.inv, Or.inl ⟨rfl, by simp⟩⟩
    · simp only [hn, if_false]
      have hb := brRead_spec hR h (Nat.pos_of_ne_zero hn)
      rcases hbr : brRead R f need with ⟨f1, r⟩
      rw [hbr] at hb
      cases r with
      | data d =>
        simp only at hb ⊢
        obtain ⟨hr, hne, hle⟩ := hb
        have hpos : 0 < d.length := List.length_pos_iff.mpr hne
        obtain ⟨f2, out, st, he, hr2, hst⟩ := ih (h.of_reads hr) (need - d.length) (acc ++ d) (by omega)
        refine ⟨f2, d ++ out, st, by rw [he, List.append_assoc], hr.trans hr2, ?_⟩
        rcases hst with ⟨h1, h2⟩ | ⟨h1, h2, h3⟩
        · exact Or.inl ⟨h1, by rw [List.length_append]; omega⟩
        · exact Or.inr ⟨h1, by rw [List.length_append]; omega, h3⟩
      | eof =>
        simp only at hb ⊢
        obtain ⟨hr, hs⟩ := hb
        exact ⟨f1, [], some .eof, by simp, hr,
          Or.inr ⟨rfl, by simpa using Nat.pos_of_ne_zero hn, (stream_nil_of_reads hr hs).2⟩⟩
      | err e => simp only at hb

/-- what `readBufioSize` returns, in terms of the stream: the first `size` bytes; `nil` iff the stream is empty
    (for `size > 0`). -/
theorem readBufioSize_spec {R : Nat} (hR : 0 < R) {f : LFile} (h : Readable f) (size : Nat) :
    ∃ f', Reads f f' ((stream f).take size) ∧
      readBufioSize R f size =
        (f', if size ≠ 0 ∧ stream f = [] then ReadOut.eof else ReadOut.val ((stream f).take size)) := by
  obtain ⟨f', out, st, he, hr, hst⟩ := readBufioSizeLoop_spec hR (size + 1) h size [] (by omega)
  have hout : out = (stream f).take size := by
    rcases hst with ⟨_, h2⟩ | ⟨_, h2, h3⟩
    · rw [hr.str, List.take_append_of_le_length (by omega), List.take_of_length_le (by omega)]
    · rw [hr.str, h3, List.append_nil, List.take_of_length_le (by omega)]
  refine ⟨f', hout ▸ hr, ?_⟩
  unfold readBufioSize
  rw [he]
  simp only [List.nil_append]
  rcases hst with ⟨h1, h2⟩ | ⟨h1, h2, h3⟩
  · subst h1
    simp only
    by_cases hc : size ≠ 0 ∧ stream f = []
    · exfalso
      have := hout; rw [hc.2] at this; simp at this
      rw [this] at h2; simp at h2; exact hc.1 h2.symm
    · rw [if_neg hc, hout]
  · subst h1
    simp only
    by_cases ho : out = []
    · have hs : stream f = [] := by rw [hr.str, h3, ho]; rfl
      have hz : size ≠ 0 := by omega
      rw [if_pos ho, if_pos ⟨hz, hs⟩]
    · have hs : stream f ≠ [] := by
        intro h0; exact ho (stream_nil_of_reads hr h0).1
      rw [if_neg ho, if_neg (fun hc => hs hc.2), hout]

/-! ### `read(0)` prologue and `*a` -/

theorem peekEOF_spec {R : Nat} (hR : 0 < R) {f : LFile} (h : Readable f) :
    ∃ f', Reads f f' [] ∧ peekEOF R f = (f', if stream f = [] then ReadOut.eof else ReadOut.val []) := by
  unfold peekEOF
  by_cases he : f.rbuf = []
  · rw [if_neg (by simp [he]), osRead_eq h.open_ h.rd]
    by_cases hn : (f.disk.drop f.off).take R = []
    · have hd := reads_direct h he R
      rw [hn] at hd
      have hs : stream f = [] := by rw [stream_of_nil he]; exact take_eq_nil_pos hR hn
      simp only [hn, if_true, hs]
      exact ⟨_, hd, rfl⟩
    · have hp := reads_pull h R
      have hs : stream f ≠ [] := by
        rw [stream_of_nil he]; intro h0; rw [h0] at hn; simp at hn
      simp only [hn, if_false, hs]
      refine ⟨_, hp, ?_⟩
      simp [he]
  · have hs : stream f ≠ [] := by simp [stream, he]
    simp only [ne_eq, he, not_false_eq_true, if_true, hs, if_false]
    exact ⟨f, Reads.refl h.inv, rfl⟩

theorem readAll_spec {f : LFile} (h : Readable f) :
    ∃ f', Reads f f' (stream f) ∧ stream f' = [] ∧ readAll f = (f', ReadOut.val (stream f)) := by
  refine ⟨{ f with rbuf := [], off := max f.off f.disk.length }, ⟨?_, ?_, ?_, ?_⟩, ?_, ?_⟩
  · exact inv_of_rbuf_nil rfl h.inv.caps h.inv.wcap
  · simp only [stream, List.nil_append]
    rw [List.drop_of_length_le (Nat.le_max_right _ _)]; simp
  · simp only [cursor, stream, List.length_nil, List.length_append, List.length_drop]
    have := h.inv.le; omega
  · exact Frame.refl f
  · simp only [stream, List.nil_append]; exact List.drop_of_length_le (Nat.le_max_right _ _)
  · simp [readAll, h.rd, h.open_, stream]

/-! ### lines -/

theorem nlIndex_none_iff {l : Bytes} : nlIndex l = none ↔ (10 : UInt8) ∉ l := by
  induction l with
  | nil => simp [nlIndex]
  | cons a t ih =>
    unfold nlIndex
    by_cases ha : a = 10
    · simp [ha]
    · simp only [ha, if_false, Option.map_eq_none_iff, ih, List.mem_cons, not_or]
      exact ⟨fun h => ⟨fun h' => ha h'.symm, h⟩, fun h => h.2⟩

theorem nlIndex_some_spec {l : Bytes} {i : Nat} (h : nlIndex l = some i) :
    i < l.length ∧ l.take (i + 1) = l.take i ++ [10] ∧ (10 : UInt8) ∉ l.take i := by
  induction l generalizing i with
  | nil => simp [nlIndex] at h
  | cons a t ih =>
    unfold nlIndex at h
    by_cases ha : a = 10
    · simp only [ha, if_true, Option.some.injEq] at h
      subst h; subst ha; simp
    · simp only [ha, if_false, Option.map_eq_some_iff] at h
      obtain ⟨j, hj, rfl⟩ := h
      obtain ⟨h1, h2, h3⟩ := ih hj
      refine ⟨by simp; omega, by simp [h2], ?_⟩
      simp only [List.take_succ_cons, List.mem_cons, not_or]
      exact ⟨fun h' => ha h'.symm, h3⟩

theorem nlIndex_append_some {a b : Bytes} {i : Nat} (h : nlIndex a = some i) : nlIndex (a ++ b) = some i := by
  induction a generalizing i with
  | nil => simp [nlIndex] at h
  | cons x t ih =>
    simp only [List.cons_append]
    unfold nlIndex at h ⊢
    by_cases hx : x = 10
    · simpa [hx] using h
    · simp only [hx, if_false, Option.map_eq_some_iff] at h ⊢
      obtain ⟨j, hj, rfl⟩ := h
      exact ⟨j, ih hj, rfl⟩

theorem nlIndex_cons (c : UInt8) (r : Bytes) :
    nlIndex (c :: r) = if c = 10 then some 0 else (nlIndex r).map (· + 1) := rfl

theorem nlIndex_append_none {a b : Bytes} (h : nlIndex a = none) :
    nlIndex (a ++ b) = (nlIndex b).map (· + a.length) := by
  induction a with
  | nil => simp
  | cons x t ih =>
    simp only [List.cons_append, nlIndex_cons] at h ⊢
    by_cases hx : x = 10
    · simp [hx] at h
    · simp only [hx, if_false, Option.map_eq_none_iff] at h
      simp only [hx, if_false, ih h, Option.map_map, List.length_cons]
      congr 1

theorem takeWhile_of_nlIndex_none {l : Bytes} (h : nlIndex l = none) : l.takeWhile (· ≠ 10) = l := by
  induction l with
  | nil => rfl
  | cons a t ih =>
    rw [nlIndex_cons] at h
    by_cases ha : a = 10
    · simp [ha] at h
    · simp only [ha, if_false, Option.map_eq_none_iff] at h
      rw [List.takeWhile_cons_of_pos (by simpa using ha), ih h]

theorem takeWhile_of_nlIndex_some {l : Bytes} {i : Nat} (h : nlIndex l = some i) :
    l.takeWhile (· ≠ 10) = l.take i := by
  induction l generalizing i with
  | nil => simp [nlIndex] at h
  | cons a t ih =>
    unfold nlIndex at h
    by_cases ha : a = 10
    · simp only [ha, if_true, Option.some.injEq] at h
      subst h; simp [ha]
    · simp only [ha, if_false, Option.map_eq_some_iff] at h
      obtain ⟨j, hj, rfl⟩ := h
      rw [List.takeWhile_cons_of_pos (by simpa using ha), ih hj]; rfl

theorem brFill_eq {R : Nat} {f : LFile} (h : Readable f) :
    brFill R f =
      ({ f with off := f.off + ((f.disk.drop f.off).take (R - f.rbuf.length)).length,
                rbuf := f.rbuf ++ (f.disk.drop f.off).take (R - f.rbuf.length) },
       if (f.disk.drop f.off).take (R - f.rbuf.length) = [] then FillRes.eof else FillRes.got) := by
  simp [brFill, osRead_eq h.open_ h.rd]

theorem reads_nil_stream {f f' : LFile} (r : Reads f f' []) : stream f' = stream f := by
  have := r.str; simpa using this.symm

/-- what `ReadSlice('\n')` did, in terms of the stream -/
def SliceOK (f f' : LFile) : SliceRes → Prop
  | .line l => Reads f f' l ∧ ∃ i, nlIndex (stream f) = some i ∧ l = (stream f).take (i + 1)
  | .full l => Reads f f' l ∧ nlIndex l = none ∧ l ≠ [] ∧ f'.rbuf = []
  | .atEof l isErr => isErr = false ∧ Reads f f' l ∧ l = stream f ∧ nlIndex l = none

theorem brReadSlice_spec {R : Nat} (hR : 0 < R) :
    ∀ (fuel : Nat) {f : LFile}, Readable f → R - f.rbuf.length < fuel →
      ∃ f' res, brReadSlice R fuel f = (f', res) ∧ SliceOK f f' res := by
  intro fuel
  induction fuel with
  | zero => intro f _ h; omega
  | succ fuel ih =>
    intro f h hlt
    unfold brReadSlice
    cases hnl : nlIndex f.rbuf with
    | some i =>
      simp only
      have hi := (nlIndex_some_spec hnl).1
      refine ⟨_, _, rfl, reads_consume h.inv (i + 1), i, ?_, ?_⟩
      · exact nlIndex_append_some hnl
      · simp only [stream]; rw [List.take_append_of_le_length (by omega)]
    | none =>
      simp only
      by_cases hfull : f.rbuf.length ≥ R
      · simp only [hfull, if_true]
        have hc := reads_consume h.inv f.rbuf.length
        simp only [List.drop_length, List.take_length] at hc
        refine ⟨_, _, rfl, hc, hnl, ?_, rfl⟩
        intro h0; rw [h0] at hfull; simp at hfull; omega
      · simp only [hfull, if_false, brFill_eq h]
        have hp := reads_pull h (R - f.rbuf.length)
        by_cases hd : (f.disk.drop f.off).take (R - f.rbuf.length) = []
        · simp only [hd, if_true]
          have hc := reads_consume hp.inv (f.rbuf ++ (f.disk.drop f.off).take (R - f.rbuf.length)).length
          have ht := hp.trans hc
          simp only [List.drop_length, List.take_length, List.nil_append] at ht
          refine ⟨_, _, rfl, rfl, ?_, ?_, ?_⟩
          · simpa [hd] using ht
          · have : f.disk.drop f.off = [] := take_eq_nil_pos (by omega) hd
            simp [stream, this]
          · simpa using hnl
        · simp only [hd, if_false]
          have hpos : 0 < ((f.disk.drop f.off).take (R - f.rbuf.length)).length := List.length_pos_iff.mpr hd
          obtain ⟨f2, res, he, hok⟩ := ih (h.of_reads hp) (by simp only [List.length_append]; omega)
          refine ⟨f2, res, he, ?_⟩
          have hs := reads_nil_stream hp
          cases res with
          | line l =>
            obtain ⟨hr, i, h1, h2⟩ := hok
            exact ⟨by simpa using hp.trans hr, i, by rw [← hs]; exact h1, by rw [← hs]; exact h2⟩
          | full l =>
            obtain ⟨hr, h1, h2, h3⟩ := hok
            exact ⟨by simpa using hp.trans hr, h1, h2, h3⟩
          | atEof l isErr =>
            obtain ⟨h0, hr, h1, h2⟩ := hok
            exact ⟨h0, by simpa using hp.trans hr, by rw [← hs]; exact h1, h2⟩

theorem stripEOL_line {x : Bytes} (h : (13 : UInt8) ∉ x) : stripEOL (x ++ [10]) = x := by
  unfold stripEOL
  have h1 : (x ++ [10]).getLast? = some 10 := by simp
  have h2 : (x ++ [(10 : UInt8)]).dropLast = x := by simp
  rw [if_pos h1]
  simp only [h2]
  rw [if_neg]
  intro h3
  exact h (List.mem_of_getLast? h3)

theorem stripEOL_noNL {l : Bytes} (h : nlIndex l = none) : stripEOL l = l := by
  unfold stripEOL
  rw [if_neg]
  intro h3
  exact (nlIndex_none_iff.mp h) (List.mem_of_getLast? h3)

/-- the line at the head of a stream, and how many bytes it occupies (with its LF) -/
def lineOf (S : Bytes) : Bytes := match nlIndex S with | some i => S.take i | none => S
def lineLen (S : Bytes) : Nat := match nlIndex S with | some i => i + 1 | none => S.length

def LineOK (f f' : LFile) : LineRes → Prop
  | .part l => Reads f f' l ∧ l ≠ [] ∧ nlIndex l = none
  | .whole l => stream f ≠ [] ∧ l = lineOf (stream f) ∧ Reads f f' ((stream f).take (lineLen (stream f)))
  | .eof => stream f = [] ∧ Reads f f' []
  | .err => False

/-- `ReadLine()` on a CR-free stream. -/
theorem brReadLine_spec {R : Nat} (hR : 0 < R) {f : LFile} (h : Readable f) (hcr : (13 : UInt8) ∉ stream f) :
    ∃ f' res, brReadLine R f = (f', res) ∧ LineOK f f' res := by
  obtain ⟨f1, sres, he, hok⟩ := brReadSlice_spec hR (R + 1) h (by omega)
  unfold brReadLine
  rw [he]
  cases sres with
  | full l =>
    obtain ⟨hr, h1, h2, _⟩ := hok
    have hnot : ¬ l.getLast? = some 13 := by
      intro h3
      apply hcr; rw [hr.str]; exact List.mem_append_left _ (List.mem_of_getLast? h3)
    simp only [hnot, if_false]
    exact ⟨_, _, rfl, hr, h2, h1⟩
  | line l =>
    obtain ⟨hr, i, h1, h2⟩ := hok
    obtain ⟨hi, h3, _⟩ := nlIndex_some_spec h1
    have hne : stream f ≠ [] := by intro h0; rw [h0] at hi; simp at hi
    have hcr' : (13 : UInt8) ∉ (stream f).take i := fun hm => hcr (List.mem_of_mem_take hm)
    simp only
    refine ⟨_, _, rfl, hne, ?_, ?_⟩
    · rw [h2, h3, stripEOL_line hcr']; simp [lineOf, h1]
    · simpa [lineLen, h1, h2] using hr
  | atEof l isErr =>
    obtain ⟨h0, hr, h1, h2⟩ := hok
    subst h0
    simp only
    by_cases hl : l = []
    · simp only [hl, if_true]
      exact ⟨_, _, rfl, by rw [← h1]; exact hl, by simpa [hl] using hr⟩
    · simp only [hl, if_false]
      refine ⟨_, _, rfl, by rw [← h1]; exact hl, ?_, ?_⟩
      · rw [stripEOL_noNL h2]; simp [lineOf, ← h1, h2]
      · rw [← h1]; simpa [lineLen, h2] using hr

theorem lineOf_append {l S : Bytes} (h : nlIndex l = none) : lineOf (l ++ S) = l ++ lineOf S := by
  unfold lineOf
  rw [nlIndex_append_none h]
  cases nlIndex S with
  | none => simp
  | some i =>
    simp only [Option.map_some]
    rw [List.take_append, List.take_of_length_le (by omega)]
    congr 2; omega

theorem take_lineLen_append {l S : Bytes} (h : nlIndex l = none) :
    (l ++ S).take (lineLen (l ++ S)) = l ++ S.take (lineLen S) := by
  unfold lineLen
  rw [nlIndex_append_none h]
  cases nlIndex S with
  | none =>
    simp only [Option.map_none]
    rw [List.take_of_length_le (by simp), List.take_of_length_le (Nat.le_refl _)]
  | some i =>
    simp only [Option.map_some]
    rw [List.take_append]
    have e1 : i + l.length + 1 - l.length = i + 1 := by omega
    rw [e1, List.take_of_length_le (by omega)]

/-- the loop of `readBufioLine` on a CR-free stream -/
theorem readBufioLineLoop_spec {R : Nat} (hR : 0 < R) :
    ∀ (fuel : Nat) {f : LFile} (acc : Bytes), Readable f → (13 : UInt8) ∉ stream f →
      (stream f).length + 1 < fuel →
      ∃ f' st, readBufioLineLoop R fuel f acc = (f', acc ++ lineOf (stream f), st) ∧
        Reads f f' ((stream f).take (lineLen (stream f))) ∧
        ((st = .got ∧ stream f ≠ []) ∨ (st = .eof ∧ nlIndex (stream f) = none)) := by
  intro fuel
  induction fuel with
  | zero => intro f acc _ _ h; omega
  | succ fuel ih =>
    intro f acc h hcr hlt
    obtain ⟨f1, res, he, hok⟩ := brReadLine_spec hR h hcr
    unfold readBufioLineLoop
    rw [he]
    cases res with
    | part l =>
      obtain ⟨hr, h1, h2⟩ := hok
      have hS : stream f = l ++ stream f1 := hr.str
      have hpos : 0 < l.length := List.length_pos_iff.mpr h1
      have hcr1 : (13 : UInt8) ∉ stream f1 := fun hm => hcr (by rw [hS]; exact List.mem_append_right _ hm)
      have hlen : (stream f).length = l.length + (stream f1).length := by rw [hS, List.length_append]
      obtain ⟨f2, st, he2, hr2, hst⟩ := ih (acc ++ l) (h.of_reads hr) hcr1 (by omega)
      simp only
      refine ⟨f2, st, ?_, ?_, ?_⟩
      · rw [he2, hS, lineOf_append h2, List.append_assoc]
      · rw [hS, take_lineLen_append h2]; exact hr.trans hr2
      · rcases hst with ⟨a, b⟩ | ⟨a, b⟩
        · exact Or.inl ⟨a, by rw [hS]; simp [h1]⟩
        · exact Or.inr ⟨a, by rw [hS, nlIndex_append_none h2, b]; rfl⟩
    | whole l =>
      obtain ⟨h1, h2, hr⟩ := hok
      simp only
      exact ⟨_, _, by rw [h2], hr, Or.inl ⟨rfl, h1⟩⟩
    | eof =>
      obtain ⟨h1, hr⟩ := hok
      simp only
      refine ⟨f1, .eof, ?_, ?_, Or.inr ⟨rfl, by rw [h1]; rfl⟩⟩
      · rw [h1]; simp [lineOf, nlIndex]
      · rw [h1]; simpa [lineLen, nlIndex] using hr
    | err => exact absurd hok id

theorem stream_length (f : LFile) : (stream f).length = f.rbuf.length + (f.disk.length - f.off) := by
  simp [stream]

/-- `readBufioLine` on a CR-free stream: nil iff the stream is empty, otherwise the line at its head. -/
theorem readBufioLine_spec {R : Nat} (hR : 0 < R) {f : LFile} (h : Readable f) (hcr : (13 : UInt8) ∉ stream f) :
    ∃ f', Reads f f' ((stream f).take (lineLen (stream f))) ∧
      readBufioLine R f = (f', if stream f = [] then ReadOut.eof else ReadOut.val (lineOf (stream f))) := by
  obtain ⟨f', st, he, hr, hst⟩ := readBufioLineLoop_spec hR (lineFuel f) [] h hcr
    (by rw [stream_length]; unfold lineFuel; omega)
  refine ⟨f', hr, ?_⟩
  unfold readBufioLine
  rw [he]
  simp only [List.nil_append]
  rcases hst with ⟨a, b⟩ | ⟨a, b⟩
  · subst a; simp only [b, if_false]
  · subst a
    simp only
    have : lineOf (stream f) = stream f := by simp [lineOf, b]
    rw [this]
    by_cases hs : stream f = [] <;> simp [hs]

end GLua.IoFile
